#!/bin/sh
# Build the Coq development (full .vo, never -vos) and the extracted model binary.
# Idempotent and incremental: a no-op when /verif/coq is unchanged.
set -e
cd "$(dirname "$0")"
ROOT=$(pwd)
mkdir -p build
# serialise concurrent invocations (several checks may be started at once)
if [ -z "$COX_BUILD_LOCKED" ]; then
  COX_BUILD_LOCKED=1 exec flock "$ROOT/build/.lock" "$0" "$@"
fi
# 1. forbidden-construct gate (Variable/Hypothesis are allowed inside Sections only)
python3 tools/gate.py || { echo "BUILD-GATE: forbidden construct found" >&2; exit 2; }
# 1b. regenerate the translated layer from /repo's CURRENT source (fail closed: on a translation
#     error the generated file and its compiled forms are removed, so that exactly the theorems that depend on it stop building)
for tr in scalars effects planes tables; do
  if [ -f harness/translate/$tr.py ]; then
    if ! python3 harness/translate/$tr.py > build/translate_$tr.log 2>&1; then
      cat build/translate_$tr.log >&2
      case $tr in scalars) g=Scalars;; effects) g=Effects;; planes) g=Planes;; tables) g=Tables;; esac
      # remove the generated source AND its compiled forms: a stale .vo would let the dependent theorems go on checking against
      # what the code USED to say
      rm -f coq/theories/Gen/$g.v coq/theories/Gen/$g.vo coq/theories/Gen/$g.vok coq/theories/Gen/$g.vos coq/theories/Gen/$g.glob coq/theories/Gen/.$g.aux
    fi
  fi
done
cd coq
# 2. regenerate _CoqProject file list and Makefile
{ sed -n '1,2p' _CoqProject.head; find theories -name '*.v' | LC_ALL=C sort; } > _CoqProject
coq_makefile -f _CoqProject -o Makefile > /dev/null
# 3. make (16 cores), under a shell timeout
#    -k: a broken proof in one file must not hide the state of the others; each check then
#    re-compiles its own Properties/<id>.v, which fails iff something in ITS dependency cone is broken.
timeout 3000 make -k -j16 COQC="timeout 1200 coqc" > "$ROOT/build/make.log" 2>&1 || { grep -E "^File|Error" "$ROOT/build/make.log" | head -20 >&2; echo "BUILD: some files failed (see build/make.log)" >&2; }
[ -f theories/Extract/Extract.vo ] || { echo "BUILD: the executable model itself does not build" >&2; exit 3; }
# 4. extracted model binary
if [ ! -x "$ROOT/build/model.exe" ] || [ model.ml -nt "$ROOT/build/model.exe" ] || [ driver.ml -nt "$ROOT/build/model.exe" ]; then
  rm -rf "$ROOT/build/ml"; mkdir -p "$ROOT/build/ml"
  cp model.ml model.mli driver.ml "$ROOT/build/ml/"
  ( cd "$ROOT/build/ml" && ocamlfind ocamlopt -package zarith -linkpkg -w -a model.mli model.ml driver.ml -o "$ROOT/build/model.exe" )
fi
# 5. float-realised real-number model (C12 correspondence only; Extract/ExtractR.v lists its directives). No .mli: the extracted
#    interface of the standard library's R module does not match its float realisation and is not used.
if [ -f modelr.ml ] && { [ ! -x "$ROOT/build/modelr.exe" ] || [ modelr.ml -nt "$ROOT/build/modelr.exe" ] || [ driverr.ml -nt "$ROOT/build/modelr.exe" ]; }; then
  rm -rf "$ROOT/build/mlr"; mkdir -p "$ROOT/build/mlr"
  cp modelr.ml driverr.ml "$ROOT/build/mlr/"
  ( cd "$ROOT/build/mlr" && ocamlfind ocamlopt -w -a modelr.ml driverr.ml -o "$ROOT/build/modelr.exe" ) || rm -f "$ROOT/build/modelr.exe"
fi
echo "BUILD: ok"
