"""Shape zoo + reflection helpers shared by the stateful checks (C03, C08, C09, C16, C19)."""
import inspect
import warnings

import numpy as np

from . import gen

warnings.simplefilter("ignore")

CLASSES = ["Circle", "Ellipse", "Sphere", "Ellipsoid", "Polygon", "ConvexPolygon", "ConvexSpheropolygon",
           "Polyhedron", "ConvexPolyhedron", "ConvexSpheropolyhedron"]
VERTEX_CLASSES = CLASSES[4:]


def chiral_solid():
    """A chiral, irregular convex solid (no symmetry), dyadic coordinates."""
    return np.array([[0, 0, 0], [2, 0, 0.25], [2.5, 1.5, 0], [0.5, 2, 0.5], [0.25, 0.5, 1.75], [1.75, 0.25, 2], [2.25, 1.75, 1.5], [0.75, 1.5, 2.25]], float)


def chiral_polygon():
    return np.array([[0, 0], [3, 0.5], [3.5, 2], [2, 3.25], [0.5, 2.5]], float)


def make(cls, rng=None, base=None, offset=True, tilt=False, opposing=False, unit=1.0):
    """Construct a general-position, off-origin instance of the class. Returns (shape, ctor_args dict)."""
    import coxeter

    S = coxeter.shapes
    t3 = np.array([3.25, -2.5, 5.125]) if offset else np.zeros(3)      # (not integers: a truncation to int must show)
    if cls == "Circle":
        a = dict(radius=1.5, center=t3.copy())
    elif cls == "Ellipse":
        a = dict(a=1.5, b=0.75, center=t3.copy())
    elif cls == "Sphere":
        a = dict(radius=1.25, center=t3.copy())
    elif cls == "Ellipsoid":
        a = dict(a=1.5, b=0.75, c=2.0, center=t3.copy())
    elif cls in ("Polygon", "ConvexPolygon", "ConvexSpheropolygon"):
        P = chiral_polygon() if base is None else base
        if cls == "Polygon" and base is None:
            P = np.array([[0, 0], [3, 0.5], [1.5, 1.0], [3.5, 3], [0.5, 2.5]], float)  # non-convex
        V = np.c_[P, np.zeros(len(P))]
        if tilt:
            M, n = gen.rot_from_quat([2, 1, 0, 1], integer=True)
            V = V @ M.T / 4.0
        V = V + (t3 if cls != "ConvexSpheropolygon" or tilt else np.array([3.25, -2.5, 0.0]) * (1 if offset else 0))
        a = dict(vertices=V)
        if opposing and cls == "Polygon":
            # explicit normal opposing the vertex order: the polygon is listed clockwise about its normal (signed_area < 0)
            a["normal"] = -np.cross(V[2] - V[1], V[0] - V[1])
        if cls == "ConvexSpheropolygon":
            a["radius"] = 0.375
    else:
        V = (chiral_solid() if base is None else base) + t3
        if cls == "Polyhedron":
            cp = S.ConvexPolyhedron(V)
            a = dict(vertices=np.array(cp.vertices), faces=[np.array(f) for f in cp.faces])
        else:
            a = dict(vertices=V)
            if cls == "ConvexSpheropolyhedron":
                a["radius"] = 0.375
    if unit != 1.0:      # the same shape in another length unit (an exact power-of-two rescaling of every length, the placement included)
        for k_ in ("radius", "a", "b", "c", "center", "vertices"):
            if k_ in a:
                a[k_] = a[k_] * unit
    return getattr(S, cls)(**{k: (v.copy() if isinstance(v, np.ndarray) else ([x.copy() for x in v] if isinstance(v, list) else v)) for k, v in a.items()}), a


def properties_of(obj):
    """names of all public properties (by reflection over the MRO)"""
    out = []
    for name, member in inspect.getmembers(type(obj)):
        if name.startswith("_"):
            continue
        if isinstance(member, property) or type(member).__name__ == "cached_property":
            out.append(name)
    return out


def settable_properties(obj):
    out = []
    for name, member in inspect.getmembers(type(obj)):
        if name.startswith("_"):
            continue
        if isinstance(member, property) and member.fset is not None:
            out.append(name)
    return out


DEPRECATED = {"bounding_circle", "bounding_sphere", "insphere_from_center", "circumsphere_from_center", "incircle_from_center"}


def canon(v):
    """canonical, comparable form of an observable value"""
    import coxeter

    if isinstance(v, (coxeter.shapes.Circle, coxeter.shapes.Sphere)):
        return ("ball", float(v.radius), tuple(np.asarray(v.centroid, float).tolist()))
    if isinstance(v, coxeter.shapes.base_classes.Shape):
        return ("shape", repr(v))
    if isinstance(v, np.ndarray):
        return v.astype(float) if v.dtype != object else [canon(x) for x in v]
    if isinstance(v, (list, tuple)):
        return [canon(x) for x in v]
    if isinstance(v, dict):
        return {k: canon(x) for k, x in v.items()}
    if isinstance(v, (int, float, np.integer, np.floating)):
        return float(v)
    return v


def observe(obj, skip=()):
    """dict name -> canonical value or ('exc', ExceptionName) for every public property"""
    out = {}
    for name in properties_of(obj):
        if name in DEPRECATED or name in skip:
            continue
        try:
            out[name] = canon(getattr(obj, name))
        except Exception as e:  # noqa: BLE001
            out[name] = ("exc", type(e).__name__)
    return out


def values_close(a, b, rtol, atol):
    if isinstance(a, tuple) and a and a[0] == "exc":
        return a == b
    if isinstance(b, tuple) and b and b[0] == "exc":
        return False
    if isinstance(a, tuple) and a and a[0] == "ball":
        return isinstance(b, tuple) and b[0] == "ball" and abs(a[1] - b[1]) <= rtol * abs(b[1]) + atol and np.allclose(a[2], b[2], rtol=rtol, atol=atol)
    if isinstance(a, (list, tuple)):
        if not isinstance(b, (list, tuple)) or len(a) != len(b):
            return False
        return all(values_close(x, y, rtol, atol) for x, y in zip(a, b))
    if isinstance(a, dict):
        return isinstance(b, dict) and a.keys() == b.keys() and all(values_close(a[k], b[k], rtol, atol) for k in a)
    if isinstance(a, np.ndarray) or isinstance(b, np.ndarray):
        a, b = np.asarray(a, float), np.asarray(b, float)
        if a.shape != b.shape:
            return False
        if a.size == 0:
            return True
        # array-level tolerance: entries that are ~0 next to large ones (off-diagonal tensor entries) are judged
        # against the magnitude of the whole array
        scale = float(np.max(np.abs(b))) if np.all(np.isfinite(b)) else 0.0
        return bool(np.all(np.isfinite(a)) and np.all(np.abs(a - b) <= rtol * scale + atol))
    if isinstance(a, float) and isinstance(b, float):
        return bool(np.isfinite(a) and np.isfinite(b) and abs(a - b) <= rtol * abs(b) + atol) or a == b
    return a == b


def state_snapshot(obj):
    """bit-exact snapshot of the private state (for exception atomicity / purity)"""
    import copy

    def grab(o, depth=0):
        d = {}
        for k, v in vars(o).items():
            if isinstance(v, np.ndarray):
                d[k] = v.copy()
            elif isinstance(v, list):
                d[k] = [x.copy() if isinstance(x, np.ndarray) else copy.deepcopy(x) for x in v]
            elif hasattr(v, "__dict__") and depth < 2 and type(v).__module__.startswith("coxeter"):
                d[k] = grab(v, depth + 1)
            else:
                d[k] = copy.deepcopy(v)
        return d

    return grab(obj)


def snapshots_equal(a, b):
    if a.keys() != b.keys():
        return False, "attribute set changed: %s" % sorted(set(a) ^ set(b))
    for k in a:
        x, y = a[k], b[k]
        if isinstance(x, dict):
            ok, why = snapshots_equal(x, y)
            if not ok:
                return False, k + "." + why
        elif isinstance(x, np.ndarray):
            if not (isinstance(y, np.ndarray) and x.shape == y.shape and np.array_equal(x, y, equal_nan=True)):
                return False, k
        elif isinstance(x, list):
            if len(x) != len(y) or any(not (np.array_equal(p, q) if isinstance(p, np.ndarray) else p == q) for p, q in zip(x, y)):
                return False, k
        else:
            try:
                same = (x == y) or (x != x and y != y)
            except Exception:  # noqa: BLE001
                same = True
            if not same:
                return False, k
    return True, ""
