"""Shared machinery of the correspondence / proof checks.

Runs under /venv/bin/python with PYTHONPATH=/repo (forced by ./check), so that
`import coxeter` is /repo's current working tree.
"""
import hashlib
import json
import math
import os
import re
import subprocess
import sys
import time
from fractions import Fraction

import numpy as np

ROOT = os.path.dirname(os.path.dirname(os.path.abspath(__file__)))
COQ = os.path.join(ROOT, "coq")
BUILD = os.path.join(ROOT, "build")
MODEL_EXE = os.path.join(BUILD, "model.exe")
MODELR_EXE = os.path.join(BUILD, "modelr.exe")
REPO = os.environ.get("VERIF_REPO", "/repo")   # (override only used by tools/seed_matrix.sh to test seeded copies in a scratch worktree)

# --------------------------------------------------------------------------- rationals


def fr(x):
    """Exact rational value of a Python/numpy float or int."""
    if isinstance(x, Fraction):
        return x
    if isinstance(x, (int, np.integer)):
        return Fraction(int(x))
    x = float(x)
    if not math.isfinite(x):
        raise ValueError("non-finite value cannot be given to the model: %r" % x)
    return Fraction(*x.as_integer_ratio())


def q2s(q):
    q = fr(q)
    n, d = q.numerator, q.denominator
    return ("-%x" % -n if n < 0 else "%x" % n) + "/%x" % d


def s2q(s):
    n, d = s.split("/")
    neg = n.startswith("-")
    if neg:
        n = n[1:]
    v = Fraction(int(n, 16), int(d, 16))
    return -v if neg else v


def flat(a):
    return [fr(x) for x in np.asarray(a, dtype=float).ravel()]


# --------------------------------------------------------------------------- model runner

FUNC = {
    "mesh_code": 1, "mesh_spec": 2, "face_centroid": 3, "poly_code": 4, "fans": 5, "mesh_moments": 6,
    "polygon": 10, "polygon_planar": 11, "poly_faces": 12,
    "inside_convex": 20, "winding2": 21, "winding3": 22, "dist2_mesh": 23, "inside_ellipsoid": 24, "sphero_inside": 26, "ellipse": 25,
    "curved": 30, "structure": 40, "edge_data": 41, "balls": 45, "circum": 46, "simple": 47, "gsd_dispatch": 60, "meshio": 70, "family": 50,
}


def encode_case(func, sc=(), qs=(), idx=()):
    return "%d|%s|%s|%s" % (
        FUNC[func] if isinstance(func, str) else func,
        " ".join(q2s(x) for x in sc),
        " ".join(q2s(x) for x in qs),
        ";".join(" ".join(str(int(i)) for i in g) for g in idx),
    )


def run_model_r(lines):
    """float-realised extraction of the real-number model (Extract/ExtractR.v): lines in, list of complex (or None) out"""
    if not lines:
        return []
    if not os.path.exists(MODELR_EXE):
        raise RuntimeError("modelr.exe missing (Extract/ExtractR.v did not build)")
    out = subprocess.run([MODELR_EXE], input="\n".join(lines) + "\n", stdout=subprocess.PIPE, text=True).stdout.strip("\n").split("\n")
    if len(out) != len(lines):
        raise RuntimeError("modelr.exe returned %d lines for %d cases" % (len(out), len(lines)))
    res = []
    for o in out:
        w = o.split()
        res.append(complex(float.fromhex(w[1]), float.fromhex(w[2])) if w and w[0] == "OK" else None)
    return res


def hx(v):
    return " ".join(float(x).hex() for x in v)


def run_model(cases, shards=None):
    """cases: list of encoded lines. Returns list of (list[Fraction] | None)."""
    if not cases:
        return []
    if shards is None:
        shards = min(16, max(1, len(cases) // 4))
    chunks = [cases[i::shards] for i in range(shards)]
    procs = []
    for ch in chunks:
        p = subprocess.Popen([MODEL_EXE], stdin=subprocess.PIPE, stdout=subprocess.PIPE, text=True)
        procs.append((p, ch))
    # feed all (small inputs; communicate sequentially is fine since each process buffers)
    outs = []
    import threading

    results = [None] * len(procs)

    def work(k):
        p, ch = procs[k]
        out, _ = p.communicate("\n".join(ch) + "\n")
        results[k] = out

    ths = [threading.Thread(target=work, args=(k,)) for k in range(len(procs))]
    for t in ths:
        t.start()
    for t in ths:
        t.join()
    per = []
    for k, (p, ch) in enumerate(procs):
        lines = results[k].strip("\n").split("\n") if results[k] else []
        if len(lines) != len(ch):
            raise RuntimeError("model.exe returned %d lines for %d cases (rc=%s)" % (len(lines), len(ch), p.returncode))
        per.append(lines)
    res = [None] * len(cases)
    for s in range(shards):
        for j, line in enumerate(per[s]):
            i = s + j * shards
            if line.startswith("OK"):
                res[i] = [s2q(w) for w in line.split()[1:]]
            else:
                res[i] = None
    return res


def vm_crosscheck(cases, results, tag, limit=40):
    """Evaluate a sample of the same cases inside Coq (vm_compute) and require
    bit-for-bit agreement with the extracted binary.  Returns (n_checked, ok)."""
    sample = [(c, r) for c, r in zip(cases, results) if r is not None][:limit]
    if not sample:
        return 0, True

    def qlit(q):
        return "(Qmake (%d) %d)" % (q.numerator, q.denominator)

    def parse(line):
        f, sc, qs, idx = line.split("|")
        scl = "[" + "; ".join(qlit(s2q(w)) for w in sc.split()) + "]"
        qsl = "[" + "; ".join(qlit(s2q(w)) for w in qs.split()) + "]"
        groups = [g for g in idx.split(";")] if idx.strip() else []
        il = "[" + "; ".join("[" + "; ".join(w for w in g.split()) + "]%nat" for g in groups) + "]"
        return int(f), scl, qsl, il

    lines = [
        "From Coq Require Import List ZArith QArith.",
        "Require Import Cox.Model.Entry.",
        "Import ListNotations.",
        "Definition qeqb (a b : Q) : bool := Qeq_bool a b.",
        "Fixpoint leq (a b : list Q) : bool := match a, b with [] , [] => true | x :: r, y :: s => qeqb x y && leq r s | _, _ => false end.",
        "Definition chk (f : nat) (sc qs : list Q) (idx : list (list nat)) (expected : list Q) : bool :=",
        "  match dispatch f sc qs idx with Some l => leq l expected | None => false end.",
        "Definition all_ok : bool := forallb (fun b => b) [",
    ]
    items = []
    for c, r in sample:
        f, scl, qsl, il = parse(c)
        exp = "[" + "; ".join(qlit(x) for x in r) + "]"
        items.append("  chk %d%%nat %s %s %s %s" % (f, scl, qsl, il, exp))
    lines.append(";\n".join(items))
    lines.append("].")
    lines.append("Eval vm_compute in all_ok.")
    d = os.path.join(BUILD, "vm")
    os.makedirs(d, exist_ok=True)
    path = os.path.join(d, "cases_%s_%d.v" % (tag, os.getpid()))     # (per process: concurrent runs must not share the file)
    with open(path, "w") as fh:
        fh.write("\n".join(lines) + "\n")
    for attempt in (0, 1):
        p = subprocess.run(
            ["timeout", "600", "coqc", "-Q", os.path.join(COQ, "theories"), "Cox", path],
            capture_output=True, text=True, cwd=d,
        )
        # a concurrent (re)build of the development can leave Entry.vo momentarily inconsistent with its dependencies: that is an
        # environment failure, not a disagreement - wait for the build lock and evaluate once more
        if p.returncode != 0 and attempt == 0 and ("inconsistent assumptions" in p.stderr or "Cannot find" in p.stderr or "not a valid" in p.stderr):
            ensure_build()
            continue
        break
    ok = p.returncode == 0 and "= true" in p.stdout
    for ext in (".v", ".vo", ".glob", ".vok", ".vos"):
        try:
            os.remove(path[:-2] + ext)
        except OSError:
            pass
    return len(sample), ok


# --------------------------------------------------------------------------- build / proofs


def ensure_build():
    """Run the (incremental) build; returns (ok, log_tail)."""
    p = subprocess.run([os.path.join(ROOT, "build.sh")], capture_output=True, text=True)
    return p.returncode == 0, (p.stdout + p.stderr)[-4000:]


def _deps(vfile, seen):
    if vfile in seen:
        return
    seen.add(vfile)
    try:
        src = open(vfile).read()
    except OSError:
        return
    for m in re.finditer(r"Cox\.([A-Za-z0-9_.]+)", src):
        rel = m.group(1).rstrip(".").replace(".", "/") + ".v"
        cand = os.path.join(COQ, "theories", rel)
        if os.path.exists(cand):
            _deps(cand, seen)


def proof_cone(prop_file):
    seen = set()
    _deps(prop_file, seen)
    n = 0
    for f in seen:
        src = re.sub(r"\(\*.*?\*\)", "", open(f).read(), flags=re.S)
        n += len(re.findall(r"\b(Qed|Defined)\.", src))
    return sorted(os.path.relpath(f, COQ) for f in seen), n


def check_property_file(pid):
    """Re-compile Properties/<pid>.v (statements + Print Assumptions) against the
    compiled development.  Returns dict(ok, axioms, theorems, log)."""
    pf = os.path.join(COQ, "theories", "Properties", pid + ".v")
    if not os.path.exists(pf):
        return dict(ok=False, axioms=[], theorems=[], log="missing " + pf, obligations=0, files=[])
    d = os.path.join(BUILD, "prop")
    os.makedirs(d, exist_ok=True)
    p = subprocess.run(
        ["timeout", "900", "coqc", "-Q", os.path.join(COQ, "theories"), "Cox", "-o", os.path.join(d, pid + ".vo"), pf],
        capture_output=True, text=True, cwd=COQ,
    )
    out = p.stdout
    axioms = sorted(set(re.findall(r"^([A-Za-z_][A-Za-z0-9_.']*)\s*:", out, flags=re.M)) - {"Axioms"})
    src = re.sub(r"\(\*.*?\*\)", "", open(pf).read(), flags=re.S)
    theorems = re.findall(r"\b(?:Theorem|Lemma|Example|Corollary)\s+([A-Za-z0-9_']+)", src)
    files, nob = proof_cone(pf)
    return dict(ok=p.returncode == 0, axioms=axioms, theorems=theorems, log=(p.stdout + p.stderr)[-3000:],
                obligations=nob, files=files)


# --------------------------------------------------------------------------- findings / reporting


def load_known():
    path = os.path.join(ROOT, "known_findings.json")
    if not os.path.exists(path):
        return []
    return json.load(open(path)).get("findings", [])


class Check:
    def __init__(self, pid, tier, seed):
        self.pid, self.tier, self.seed = pid, tier, seed
        self.requested_tier = tier      # (run.py widens self.tier to 'thorough' for the failing-input search when a proof obligation is broken)
        self.t0 = time.time()
        self.rng = np.random.default_rng(seed * 7919 + int(pid[1:]))
        self.evaluations = 0
        self.nontrivial = set()
        self.samples = []
        self.violations = []
        self.known_hits = {}
        self.hist = {}
        self.notes = {}
        self.known = [k for k in load_known() if k.get("property") == pid and k.get("status", "open") == "open"]

    # bookkeeping
    def count(self, key, n=1):
        self.hist[key] = self.hist.get(key, 0) + n

    def case(self, canonical, nontrivial=True):
        self.evaluations += 1
        if nontrivial:
            h = hashlib.sha1(json.dumps(canonical, sort_keys=True, default=str).encode()).hexdigest()
            self.nontrivial.add(h)

    def sample(self, obj, cap=6):
        if len(self.samples) < cap:
            self.samples.append(obj)

    # findings
    def known_finding(self, fid, what):
        """Record a failure that is exactly a listed known finding."""
        self.known_hits.setdefault(fid, what)

    def is_known(self, fid):
        return any(k["id"] == fid for k in self.known)

    def violation(self, kind, detail, no_input=False):
        """kind: short tag; detail: JSON-able dict with everything needed to replay."""
        self.violations.append(dict(kind=kind, detail=detail, no_input=no_input))

    # output
    def finish(self, proof, extra_cov=None, assumptions=None):
        os.makedirs(os.path.join(ROOT, "evidence"), exist_ok=True)
        os.makedirs(os.path.join(ROOT, "replays"), exist_ok=True)
        for fid, what in self.known_hits.items():
            print("KNOWN-FINDING: property=%s %s" % (self.pid, what))
        rc = 0
        # one VIOLATION line per distinct kind (first witness)
        seen = set()
        for v in self.violations:
            if v["kind"] in seen:
                continue
            seen.add(v["kind"])
            h = hashlib.sha1(json.dumps(v, sort_keys=True, default=str).encode()).hexdigest()[:10]
            path = os.path.join(ROOT, "replays", "%s-%s.json" % (self.pid, h))
            with open(path, "w") as fh:
                json.dump(dict(property=self.pid, seed=self.seed, tier=self.requested_tier, **v), fh, indent=1, default=str)
            print("VIOLATION property=%s replay=%s%s" % (self.pid, path, " no-failing-input-found" if v["no_input"] else ""))
            rc = 1
        cov = dict(
            obligations=proof.get("obligations", 0),
            discharged=proof.get("obligations", 0) if proof.get("ok") else 0,
            checker_cmd="./build.sh (coq_makefile + make -j16, full .vo) ; coqc Properties/%s.v (Print Assumptions)" % self.pid,
            trusted_base=[
                "Coq 8.16.1 kernel (coqc); vm_compute used for finite-domain proofs and Eval cross-checks; no native_compute",
                "axioms reported by Print Assumptions under the property theorems: " + (", ".join(proof.get("axioms", [])) or "none (closed under the global context)"),
                "extraction: ExtrOcamlBasic + ExtrOcamlZBigInt (Coq positive/Z/N realised by zarith big integers: their Extract Inductive/Extract Constant directives are trusted) + one own directive Extract Constant Z.ggcd (zarith gcd); Q stays the Coq record; 100-line OCaml driver (hex I/O); the extracted binary is cross-checked against vm_compute of the same definitions on a sample each run",
                "Python harness: generators, exact float->rational conversion, sqrt/pi finishing steps, tolerances",
                "numpy/scipy/rowan/miniball semantics are modelled (exact arithmetic + rounding allowance), not verified",
            ],
            theorems=proof.get("theorems", []),
            proof_files=proof.get("files", []),
            evaluations=self.evaluations,
            distinct_nontrivial=len(self.nontrivial),
            rule=self.notes.get("rule", ""),
            samples=self.samples or [{"note": "no sample recorded"}],
            histogram=self.hist,
            known_findings_printed=sorted(self.known_hits),
            exhaustive=bool(self.notes.get("exhaustive", False)),
        )
        if extra_cov:
            cov.update(extra_cov)
        ev = dict(
            property_id=self.pid, tier=self.requested_tier, seed=int(self.seed), level="proof",
            coverage=cov,
            assumptions=assumptions or [],
            wall_s=round(time.time() - self.t0, 2),
            violations=len(seen),
        )
        with open(os.path.join(ROOT, "evidence", self.pid + ".json"), "w") as fh:
            json.dump(ev, fh, indent=1, default=str)
        return rc


# --------------------------------------------------------------------------- generic helpers


def close(a, b, tol):
    a = np.asarray(a, dtype=float)
    b = np.asarray(b, dtype=float)
    return bool(np.all(np.abs(a - b) <= tol))


def fl(q):
    """Fraction -> float (correctly rounded enough for comparison)."""
    if isinstance(q, Fraction):
        return q.numerator / q.denominator if abs(q.numerator) < 10**300 and q.denominator < 10**300 else float(q)
    return float(q)


def sym6(m):
    """(3,3) symmetric matrix -> [xx,yy,zz,xy,xz,yz]"""
    m = np.asarray(m, dtype=float)
    return [m[0, 0], m[1, 1], m[2, 2], m[0, 1], m[0, 2], m[1, 2]]


def excname(fn, *a, **k):
    """Run fn, map outcome to ('ok', value) or (ExceptionName, None)."""
    try:
        return "ok", fn(*a, **k)
    except Exception as e:  # noqa: BLE001
        return type(e).__name__, None


def conditioning(V, offset=None):
    """Rounding-allowance factor (>= 1) for measures of thin shapes far from the origin: volume, moments, ... are sums of terms of size
    offset * extent^k that cancel down to thin-extent * extent^k, so the attainable relative accuracy degrades like
    offset / thinnest extent.  1 for ordinary shapes (offset / thin < 1000)."""
    import numpy as np
    V = np.asarray(V, float)
    ev = np.linalg.eigvalsh(np.cov((V - V.mean(0)).T))
    ev = ev[ev > 1e-12 * max(float(ev.max()), 1e-300)]
    thin = 2 * math.sqrt(float(ev.min())) if len(ev) else 1.0
    off = float(np.linalg.norm(V.mean(0))) if offset is None else float(offset)
    return max(1.0, off / thin / 1000.0)


def batch_contract(fn, batch, kind, bare_row=True, lists=True):
    """A batched query answers with an ndarray of one entry per input row (dtype kind `kind`: b / f / c), in input order: the empty batch
    gives shape (0,), one row given as (1, d), as a bare 1-d row or as a nested list gives shape (1,) equal to that row's entry in the full
    batch, and the reversed batch gives the reversed answers.  Returns a list of problems."""
    import numpy as np
    probs = []
    batch = np.asarray(batch, float)
    try:
        full = np.asarray(fn(batch.copy()))
    except Exception as e:  # noqa: BLE001
        return ["the full batch raised %s" % type(e).__name__]
    if full.shape != (len(batch),) or full.dtype.kind != kind:
        probs.append("full batch: shape %s dtype %s (expected (%d,) of kind %s)" % (full.shape, full.dtype, len(batch), kind))
        return probs

    def same(a, b):
        return a.shape == b.shape and (np.array_equal(a, b) if kind == "b" else np.allclose(a, b, rtol=1e-12, atol=0, equal_nan=True))
    for name, arg, want in (("empty batch", batch[:0].copy(), full[:0]), ("one row as (1, d)", batch[:1].copy(), full[:1]),
                            ("one row as a bare 1-d array", batch[0].copy(), full[:1]) if (batch.ndim == 2 and bare_row) else ("one entry as a 1-element batch", batch[:1].copy(), full[:1]),
                            ("nested list", batch[:3].tolist(), full[:3]) if lists else ("first three rows", batch[:3].copy(), full[:3]), ("reversed batch", batch[::-1].copy(), full[::-1]),
                            ("last row alone", batch[-1:].copy(), full[-1:])):
        try:
            got = fn(arg)
        except Exception as e:  # noqa: BLE001
            probs.append("%s raised %s" % (name, type(e).__name__)); continue
        if not isinstance(got, np.ndarray) or got.dtype.kind != kind or not same(got, want):
            probs.append("%s: got %s %s, expected %s" % (name, type(got).__name__, np.asarray(got).tolist() if np.size(got) < 8 else np.shape(got), want.tolist() if want.size < 8 else want.shape))
    return probs


def long_batch(fn, batch, kind, sizes=(1500, 2049, 5000)):
    """A batch of any length: the probe rows repeated up to 1500 / 2049 / 5000 entries must repeat their answers element by element (a batch
    processed in internal blocks must not drop, pad or reorder a remainder).  Returns a list of problems."""
    import numpy as np
    batch = np.asarray(batch, float)
    try:
        small = np.asarray(fn(batch.copy()))
    except Exception:  # noqa: BLE001
        return []
    probs = []
    for n in sizes:
        reps = n // len(batch) + 1
        big = np.tile(batch, (reps,) + (1,) * (batch.ndim - 1))[:n]
        want = np.tile(small, reps)[:n]
        try:
            got = np.asarray(fn(big))
        except Exception as e:  # noqa: BLE001
            probs.append("a batch of %d entries raised %s" % (n, type(e).__name__)); break
        ok = got.shape == want.shape and (np.array_equal(got, want) if kind == "b" else np.allclose(got, want, rtol=1e-12, atol=0, equal_nan=True))
        if not ok:
            where = "" if got.shape != want.shape else ", first differing entry %d" % int(np.flatnonzero(~np.isclose(got, want, rtol=1e-12, atol=0, equal_nan=True))[0])
            probs.append("a batch of %d entries (the %d probe rows repeated) does not repeat their answers: result shape %s%s" % (n, len(batch), got.shape, where)); break
    return probs


def float32_probe(ctor, V):
    """The same coordinate values given as a float32 array and as a float64 array are the same solid: its measures are evaluated in double
    precision either way.  Returns a list of problems."""
    import numpy as np
    V32 = np.asarray(V, float).astype(np.float32)
    V64 = V32.astype(np.float64)
    try:
        a, b = ctor(V32), ctor(V64)
    except Exception:  # noqa: BLE001
        return []
    R = float(np.max(np.linalg.norm(V64, axis=1))) + 1e-300
    probs = []
    for n, k in (("volume", 3), ("surface_area", 2), ("centroid", 1), ("inertia_tensor", 5)):
        try:
            x, y = np.asarray(getattr(a, n), float), np.asarray(getattr(b, n), float)
        except Exception:  # noqa: BLE001
            continue
        if not np.all(np.isfinite(y)):      # (single-precision rounding flattened the solid: there is no solid to compare)
            continue
        if x.shape != y.shape or not np.all(np.abs(x - y) <= 1e-10 * R ** k):
            probs.append("%s of the solid built from a float32 array: %s, from the same values as float64: %s" % (n, np.ravel(x)[:6].tolist(), np.ravel(y)[:6].tolist()))
    return probs


def resize_probe(p, fresh):
    """The measures are asked for, the solid is resized (volume x 8) and they are asked for again: they must be the measures of the solid as
    it is NOW, i.e. those of a freshly constructed solid on the current vertices (fresh: callable building it).  Returns a list of
    problems (empty when consistent).  Polytri's recorded absolute thresholds can make the resized general polyhedron raise: not judged."""
    import numpy as np
    probs = []
    try:
        v0 = float(p.volume)
        p.volume = 8.0 * v0
        q = fresh(p)
    except Exception:  # noqa: BLE001
        return probs
    R = float(np.max(np.linalg.norm(np.asarray(p.vertices, float), axis=1))) + 1e-300

    def get(o, n):
        try:
            return "ok", (np.sort(np.asarray(o.get_face_area(), float)) if n == "face_areas" else np.asarray(getattr(o, n), float))
        except Exception as e:  # noqa: BLE001
            return type(e).__name__, None
    for n, k in (("volume", 3), ("surface_area", 2), ("face_areas", 2), ("centroid", 1), ("inertia_tensor", 5)):
        (sa, a), (sb, b) = get(p, n), get(q, n)
        if sb != "ok":
            continue
        if sa != "ok" or a.shape != b.shape or not np.all(np.abs(a - b) <= 1e-9 * R ** k):
            probs.append("%s after volume was multiplied by 8: %s, a fresh solid on the same vertices reports %s" % (n, None if a is None else np.round(a, 9).ravel()[:6].tolist(), np.round(b, 9).ravel()[:6].tolist()))
    return probs


def copy_probe(make, observe, grow=("volume", "area")):
    """A copy of a shape (copy.deepcopy, a pickle round trip; copy.copy for the observables only) is a shape with the same observables, and
    the deep ones are INDEPENDENT shapes: resizing and moving the copy leaves every observable of the original as it was, and the other way
    round.  make(): builds the shape afresh; observe(shape): dict name -> array of deterministic observables.  Returns a list of problems."""
    import copy
    import pickle
    import numpy as np
    probs = []

    def obs(s):
        try:
            return {k: np.asarray(v, float) for k, v in observe(s).items()}
        except Exception as e:  # noqa: BLE001
            return {"_raised": type(e).__name__}

    def diff(a, b):
        if "_raised" in a or "_raised" in b:
            return None if a.get("_raised") == b.get("_raised") else "observing raised %s / %s" % (a.get("_raised"), b.get("_raised"))
        for k in a:
            x, y = a[k], b[k]
            if x.shape != y.shape or not np.allclose(x, y, rtol=1e-11, atol=1e-11 * (1 + float(np.max(np.abs(x))) if x.size else 1), equal_nan=True):
                return "%s: %s against %s" % (k, np.round(x, 9).ravel()[:6].tolist(), np.round(y, 9).ravel()[:6].tolist())
        return None

    def resize(s, f):
        for n in grow:
            if hasattr(type(s), n) and getattr(type(s), n).fset is not None:
                setattr(s, n, float(getattr(s, n)) * f)
                return True
        return False
    for how, mk in (("copy.deepcopy", copy.deepcopy), ("pickle round trip", lambda s: pickle.loads(pickle.dumps(s))), ("copy.copy", copy.copy)):
        try:
            p = make()
            o0 = obs(p)
            if "_raised" in o0:
                return probs
            c = mk(p)
        except Exception as e:  # noqa: BLE001
            probs.append("%s of a %s raised %s" % (how, type(p).__name__, type(e).__name__))
            continue
        if type(c) is not type(p):
            probs.append("%s of a %s is a %s" % (how, type(p).__name__, type(c).__name__))
            continue
        d = diff(o0, obs(c))
        if d:
            probs.append("%s reports other values than its original: %s" % (how, d))
            continue
        if how == "copy.copy":
            continue
        try:
            if not resize(c, 8.0 if "volume" in grow[:1] else 4.0):
                continue
        except Exception:  # noqa: BLE001
            continue
        d = diff(o0, obs(p))
        if d:
            probs.append("resizing the %s changed the ORIGINAL: %s" % (how, d))
            continue
        oc = obs(c)
        try:
            resize(p, 0.5)
        except Exception:  # noqa: BLE001
            continue
        d = diff(oc, obs(c))
        if d:
            probs.append("resizing the original changed its %s: %s" % (how, d))
    return probs


def face_area_forms(p, all_areas):
    """get_face_area has several call forms (None / one index / a sequence of indices; ConvexPolyhedron also "total"): they must select
    from the per-face list.  Returns a list of problems (empty when consistent).  The sequence is a reversed, strided selection, so that a
    slip that returns a prefix or ignores the requested indices shows."""
    import numpy as np
    probs = []
    n = len(all_areas)
    sel = list(range(n - 1, -1, -2)) or [0]
    try:
        got = np.asarray(p.get_face_area(sel), float)
        if got.shape != (len(sel),) or not np.allclose(got, np.asarray(all_areas, float)[sel], rtol=1e-12, atol=0):
            probs.append("get_face_area(%s) returned %s, the listed faces have areas %s" % (sel[:6], got[:6].tolist(), np.asarray(all_areas, float)[sel][:6].tolist()))
        k = n // 2
        one = np.asarray(p.get_face_area(k), float).ravel()
        if one.size != 1 or not np.isclose(one[0], all_areas[k], rtol=1e-12, atol=0):
            probs.append("get_face_area(%d) returned %s, face %d has area %r" % (k, one.tolist(), k, float(all_areas[k])))
        # index 0 is an index like any other; an ndarray of indices is a sequence of indices
        z = np.asarray(p.get_face_area(0), float).ravel()
        if z.size != 1 or not np.isclose(z[0], all_areas[0], rtol=1e-12, atol=0):
            probs.append("get_face_area(0) returned %s, face 0 has area %r" % (z[:6].tolist(), float(all_areas[0])))
        z = np.asarray(p.get_face_area([0]), float).ravel()
        if z.size != 1 or not np.isclose(z[0], all_areas[0], rtol=1e-12, atol=0):
            probs.append("get_face_area([0]) returned %s, face 0 has area %r" % (z[:6].tolist(), float(all_areas[0])))
        if len(sel) > 1 and type(p).__name__ == "Polyhedron":   # (documented there as 'int, sequence, or None'; ConvexPolyhedron documents 'int, list of ints')
            got = np.asarray(p.get_face_area(np.array(sel)), float)
            if got.shape != (len(sel),) or not np.allclose(got, np.asarray(all_areas, float)[sel], rtol=1e-12, atol=0):
                probs.append("get_face_area(ndarray %s) returned %s" % (sel[:6], got[:6].tolist()))
        if type(p).__name__ == "ConvexPolyhedron":       # (the "total" form exists only there; surface_area uses it)
            tot = float(p.get_face_area("total"))
            if not np.isclose(tot, float(np.sum(all_areas)), rtol=1e-12, atol=0):
                probs.append("get_face_area('total') = %r, the faces sum to %r" % (tot, float(np.sum(all_areas))))
    except Exception as e:  # noqa: BLE001
        probs.append("get_face_area call form raised %s" % type(e).__name__)
    return probs
