"""Entry point: python -m harness.run Cxx [--tier quick|thorough] [--replay path]."""
import argparse
import importlib
import json
import os
import sys
import traceback

from . import common


def main():
    ap = argparse.ArgumentParser()
    ap.add_argument("pid")
    ap.add_argument("--tier", default=os.environ.get("VERIF_TIER", "quick"))
    ap.add_argument("--replay", default=None)
    args = ap.parse_args()
    tier = args.tier if args.tier in ("quick", "thorough") else "quick"
    try:
        seed = int(os.environ.get("VERIF_SEED", "0"))
    except ValueError:
        seed = 0
    pid = args.pid
    mod = importlib.import_module("harness.checks." + pid)
    chk = common.Check(pid, tier, seed)

    if args.replay:
        rep = json.load(open(args.replay))
        out = mod.replay(chk, rep) if hasattr(mod, "replay") else None
        print(json.dumps(out, indent=1, default=str))
        return 0

    ok, log = common.ensure_build()
    proof = common.check_property_file(pid) if ok else dict(ok=False, axioms=[], theorems=[], log=log, obligations=0, files=[])
    if not ok or not proof["ok"]:
        # a proof obligation no longer checks: the property is no longer shown.  The
        # correspondence below still runs and acts as the failing-input search.
        chk.notes["proof_broken"] = (log if not ok else proof["log"])[-1500:]
        # ... with the thorough tier's budget (about ten times the quick one), whatever tier was asked for
        chk.tier = "thorough"
        chk.notes["search_widened"] = "proof obligation broken: failing-input search run with the thorough-tier budget"
    try:
        mod.run(chk)
    except Exception:  # noqa: BLE001
        tb = traceback.format_exc()
        chk.violation("harness-exception", dict(traceback=tb[-3000:]), no_input=True)
    if "proof_broken" in chk.notes and not any(not v["no_input"] for v in chk.violations):
        chk.violation("proof-obligation-broken", dict(
            what="the Coq development (or Properties/%s.v) no longer compiles" % pid,
            log=chk.notes["proof_broken"]), no_input=True)
    rc = chk.finish(proof, extra_cov=getattr(mod, "extra_coverage", lambda c: None)(chk),
                    assumptions=getattr(mod, "ASSUMPTIONS", []))
    return rc


if __name__ == "__main__":
    sys.exit(main())
