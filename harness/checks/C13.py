"""C13 - bounding, bounded, circum- and in-spheres/circles satisfy their definitions."""
import math

import numpy as np

from .. import common as C
from .. import gen

ASSUMPTIONS = [
    "miniball is an oracle: its ball is accepted as minimal iff it encloses all vertices and its centre is a convex combination (weights recomputed "
    "by non-negative least squares in the harness) of the vertices on its boundary - sufficiency of that certificate is Theorem C13_miniball_certificate",
    "existence of a circum-ball is decided exactly by the Coq model (normal equations by Cramer, exact residual) on margin-separated inputs "
    "(relative residual < 1e-20: exists, > 1e-8: does not); existence of an in-ball by construction of the generators (tangential vs. clearly non-tangential)",
    "shapes have size O(1): the scale dependence of the residual test isclose(resids, 0) is C09's subject",
    "numpy.linalg.lstsq is an oracle",
]
T = 1e-8


def place3(rng, V):
    M, n = gen.random_rotation(rng, integer=True)
    k = 2.0 ** -int(np.ceil(np.log2(n))) if n > 1 else 1.0
    # "any rigid placement": offsets from none to a few hundred shape sizes, in a random direction (not along a diagonal)
    t = gen.dy(rng.uniform(-1, 1, 3) * float(rng.choice([0.0, 1.0, 10.0, 100.0, 300.0])), 4)
    return V @ M.T * k + t


def polygons(rng, n):
    out = []
    for _ in range(n):
        kind = rng.choice(["regular", "rectangle", "kite", "rhombus", "random-convex", "triangle", "nonconvex"])
        if kind == "regular":
            P = gen.ngon(int(rng.integers(3, 9)), 1.0, rng.uniform(0, 1)); cyc, tan = True, True
        elif kind == "rectangle":
            a, b = float(rng.integers(1, 5)), float(rng.integers(1, 5))
            P = np.array([[0, 0], [a, 0], [a, b], [0, b]], float); cyc, tan = True, a == b
        elif kind == "kite":
            h = float(rng.integers(2, 5))
            P = np.array([[0, -1.0], [1.0, 0], [0, h], [-1.0, 0]]); cyc, tan = (h == 1.0), True
        elif kind == "rhombus":
            a, b = float(rng.integers(1, 4)), float(rng.integers(1, 4))
            P = np.array([[a, 0], [0, b], [-a, 0], [0, -b]], float); cyc, tan = a == b, True
        elif kind == "triangle":
            P = gen.dy(rng.uniform(-2, 2, (3, 2)), 6)
            if abs(gen.shoelace(P)) < 0.2:
                continue
            if gen.shoelace(P) < 0:
                P = P[::-1]
            cyc, tan = True, True
        elif kind == "random-convex":
            _, P = gen.simple_polygon(rng, kind="convex")
            if len(P) < 5:
                continue
            cyc, tan = False, False
        else:
            _, P = gen.simple_polygon(rng, kind="star")
            cyc, tan = None, None
        out.append((kind, np.array(P, float), cyc, tan))
    return out


def polyhedra(rng, n):
    import coxeter
    from coxeter.families import ArchimedeanFamily, CatalanFamily, PlatonicFamily

    out = []
    for _ in range(n):
        kind = rng.choice(["box", "cube", "platonic", "archimedean", "catalan", "prism", "random", "tetra", "dented"])
        if kind == "box":
            a, b, c = [float(x) for x in rng.integers(1, 5, 3)]
            V = np.array([[x, y, z] for x in (0, a) for y in (0, b) for z in (0, c)]); cyc, tan = True, a == b == c
        elif kind == "cube":
            V = np.array([[x, y, z] for x in (0, 2.0) for y in (0, 2.0) for z in (0, 2.0)]); cyc, tan = True, True
        elif kind in ("platonic", "archimedean", "catalan"):
            fam = dict(platonic=PlatonicFamily, archimedean=ArchimedeanFamily, catalan=CatalanFamily)[kind]
            name = fam.names[int(rng.integers(len(fam.names)))]
            V = np.array(fam.get_shape(name).vertices)
            cyc = kind in ("platonic", "archimedean"); tan = kind in ("platonic", "catalan")
            if (kind == "catalan" and cyc is False) or (kind == "archimedean" and tan is False):
                pass
        elif kind == "prism":
            m = int(rng.integers(3, 8)); h = float(rng.integers(1, 4))
            b2 = gen.ngon(m, 1.0, 0.0)
            V = np.vstack([np.c_[b2, np.zeros(m)], np.c_[b2, np.full(m, h)]]); cyc = True
            tan = abs(h - 2 * math.cos(math.pi / m)) < 1e-12
            if not tan and abs(h - 2 * math.cos(math.pi / m)) < 0.2:
                continue
        elif kind == "dented":
            # a cyclic solid with one vertex pushed outwards by 2-30 %: convex position kept, no circumsphere (decided exactly by the model)
            a, b, c = [float(x) for x in rng.integers(1, 4, 3)]
            V = np.array([[x, y, z] for x in (0, a) for y in (0, b) for z in (0, c)])
            ctr = V.mean(0); i = int(rng.integers(8))
            V[i] = ctr + (V[i] - ctr) * (1 + float(rng.choice([0.03125, 0.125, 0.3125])))
            cyc, tan = None, None
        elif kind == "tetra":
            V = gen.dy(rng.uniform(-1, 1, (4, 3)), 6)
            if abs(np.linalg.det(V[1:] - V[0])) < 0.2:
                continue
            cyc, tan = True, True
        else:
            _, V = gen.convex_set(rng, allow_place=False, kinds=("ellipsoid",))
            if len(V) < 6:
                continue
            # points on an ellipsoid with unequal axes: no circumsphere unless axes equal; generic: no insphere
            cyc, tan = None, False
        out.append((kind, np.array(V, float), cyc, tan))
    return out


def miniball_certificate(V, c, r):
    from scipy.optimize import nnls

    d = np.linalg.norm(V - c, axis=1)
    size = float(np.max(np.linalg.norm(V - V.mean(0), axis=1))) + 1e-300
    if np.max(d) > r + 1e-9 * size:
        return False, "a vertex lies outside the ball by %g" % float(np.max(d) - r)
    B = V[d >= r - 1e-7 * size]
    if len(B) == 0:
        return False, "no vertex on the boundary (ball not minimal)"
    A = np.vstack([(B - c).T / size, np.ones(len(B))])
    b = np.r_[np.zeros(3), 1.0]
    lam, res = nnls(A, b)
    if res > 1e-6:
        return False, "centre is not a convex combination of the boundary points (residual %g): a smaller enclosing ball exists" % res
    return True, ""


def run(chk):
    import coxeter

    rng = chk.rng
    npg, nph, ncurv = (60, 50, 40) if chk.tier == "quick" else (800, 600, 500)
    chk.notes["rule"] = ("polygons: regular, rectangles, kites, rhombi, triangles, random convex, star (non-convex); polyhedra: boxes, cubes, Platonic/"
                         "Archimedean/Catalan entries, regular prisms of several heights, random hulls, tetrahedra, cyclic solids with one vertex pushed out ('dented'); curved shapes; rigidly placed (exact "
                         "rotation, offsets 0 / 1 / 10 / 100 / 300 units in a random direction). non-trivial = the shape lacks a circum- or in-ball, or is off-origin / tilted")
    # ------------------------------------------------------------------ polygons
    items = []
    for kind, P, cyc, tan in polygons(rng, npg):
        V = place3(rng, np.c_[P, np.zeros(len(P))])
        if np.linalg.norm(np.cross(V[2] - V[1], V[0] - V[1])) == 0:
            continue
        convex = kind != "nonconvex"
        st, sh = C.excname((coxeter.shapes.ConvexPolygon if convex else coxeter.shapes.Polygon), V)
        if st != "ok":
            chk.violation("constructor-raised", dict(kind=kind, vertices=V.tolist(), error=st)); continue
        items.append(dict(dim=2, kind=kind, sh=sh, V=np.array(sh.vertices), cyc=cyc, tan=tan, convex=convex))
    for kind, V0, cyc, tan in polyhedra(rng, nph):
        V = place3(rng, V0)
        st, sh = C.excname(coxeter.shapes.ConvexPolyhedron, V)
        if st != "ok":
            continue
        items.append(dict(dim=3, kind=kind, sh=sh, V=np.array(sh.vertices), cyc=cyc, tan=tan, convex=True))
        if rng.random() < 0.3:
            ph = coxeter.shapes.Polyhedron(np.array(sh.vertices), sh.faces)
            items.append(dict(dim=3, kind=kind + "/Polyhedron", sh=ph, V=np.array(ph.vertices), cyc=cyc, tan=tan, convex=False, general=True))
    cases = []
    for it in items:
        it["i"] = len(cases)
        if it["dim"] == 2:
            nrm = np.array(it["sh"].normal)
            cases.append(C.encode_case("circum", sc=C.flat(nrm), qs=C.flat(it["V"])))
        else:
            cases.append(C.encode_case("circum", qs=C.flat(it["V"])))
    res = C.run_model(cases)
    nvm, okvm = C.vm_crosscheck(cases[:4], res[:4], "C13", limit=4)
    if not okvm:
        chk.violation("extraction-vs-vm_compute", dict(what="extracted binary and vm_compute disagree"), no_input=True)
    chk.notes["vm_crosschecked"] = nvm
    for it in items:
        judge_vertex_shape(chk, it, res[it["i"]])
    curved(chk, rng, ncurv)


def ballname(dim, base):
    return base + ("_circle" if dim == 2 else "_sphere")


def ctor_args(sh):
    """constructor arguments reproducing the shape (fresh object, same vertices / faces)"""
    if type(sh).__name__ == "Polyhedron":
        return (np.array(sh.vertices), [np.array(f) for f in sh.faces])
    if type(sh).__name__ in ("Polygon", "ConvexPolygon"):
        return (np.array(sh.vertices), np.array(sh.normal))
    return (np.array(sh.vertices),)


def judge_vertex_shape(chk, it, rcirc):
    sh, V, dim = it["sh"], it["V"], it["dim"]
    size = float(np.max(np.linalg.norm(V - V.mean(0), axis=1)))
    desc = dict(kind=it["kind"], cls=type(sh).__name__, vertices=V.tolist())
    nontriv = (it["cyc"] is False) or (it["tan"] is False) or np.linalg.norm(V.mean(0)) > 1e-9
    chk.case([type(sh).__name__, V.tolist()], nontriv)
    chk.count("cls:" + type(sh).__name__); chk.count("kind:" + it["kind"])
    # ---- minimal bounding ball
    name = ballname(dim, "minimal_bounding")
    st, b = C.excname(lambda: getattr(sh, name))
    if st != "ok":
        chk.violation(name + "-raised", dict(desc, error=st))
    else:
        c, r = np.array(b.center, float), float(b.radius)
        ok, why = miniball_certificate(V, c, r)
        rg = float(getattr(sh, name + "_radius"))
        # (miniball is randomised: a second evaluation may differ in the last digits)
        ok_getter = abs(rg - r) <= 1e-8 * r
        if not ok or not ok_getter:
            # recorded known finding: the third-party randomised solver occasionally returns a non-minimal / non-enclosing ball for an
            # input on which a re-evaluation returns the minimal one.  Attributed to it only if a fresh evaluation of the SAME input
            # passes the exact certificate; a ball that is wrong every time is a violation.
            redo = []
            for _ in range(6):
                st2, b2 = C.excname(lambda: getattr(type(sh)(*ctor_args(sh)), name))
                if st2 == "ok":
                    redo.append(miniball_certificate(V, np.array(b2.center, float), float(b2.radius))[0])
            if chk.is_known("miniball-randomised-solver") and any(redo):
                chk.known_finding("miniball-randomised-solver", "minimal bounding sphere/circle: the randomised third-party miniball solver occasionally returns a ball that is not minimal (or not enclosing) for an input on which a re-evaluation is right")
                chk.count("known:miniball")
            elif not ok:
                chk.violation(name, dict(desc, center=c.tolist(), radius=r, why=why, reevaluations_passing=int(sum(redo))))
            else:
                chk.violation(name + "_radius", dict(desc, getter=rg, ball=r))
        if dim == 2:
            nrm = np.array(sh.normal)
            if abs(nrm @ (c - V[0])) > 1e-7 * size:
                chk.violation(name + "-off-plane", dict(desc, center=c.tolist()))
    # ---- circum-ball
    name = "circumcircle" if dim == 2 else "circumsphere"
    solv = int(rcirc[0]) == 1
    exists = None
    if solv:
        x = np.array([C.fl(t) for t in rcirc[1:4]]); res2 = C.fl(rcirc[4])
        rel = res2 / (size ** 4 + 1e-300)
        # the implementation accepts a relative residual up to 1e-8 of (largest axis extent)^4 ~ 16 size^4: between 'exact' and ten times
        # that tolerance the verdict is the implementation's to make (near-cyclic shapes), beyond it no circum-ball exists
        exists = True if rel < 1e-20 else (False if rel > 2e-6 else None)
    st, b = C.excname(lambda: getattr(sh, name))
    if exists is True:
        if st != "ok":
            chk.violation(name + "-missing", dict(desc, error=st, what="an exact circum-ball exists but the property raised"))
        else:
            c, r = np.array(b.center, float), float(b.radius)
            d = np.linalg.norm(V - c, axis=1)
            if np.max(np.abs(d - r)) > T * size or np.linalg.norm(c - (V[0] + x)) > T * size:
                chk.violation(name, dict(desc, center=c.tolist(), radius=r, exact_center=(V[0] + x).tolist(), max_dev=float(np.max(np.abs(d - r)))))
            if abs(getattr(sh, name + "_radius") - r) > 1e-12 * r:
                chk.violation(name + "_radius", dict(desc))
        chk.count("circum:exists")
    elif exists is False:
        if st == "ok":
            c, r = np.array(b.center, float), float(b.radius)
            d = np.linalg.norm(V - c, axis=1)
            chk.violation(name + "-spurious", dict(desc, center=c.tolist(), radius=r, max_dev=float(np.max(np.abs(d - r))),
                                                   what="no circum-ball exists (exact residual %g) but one was returned instead of RuntimeError" % C.fl(rcirc[4])))
        elif st != "RuntimeError":
            chk.violation(name + "-wrong-exception", dict(desc, error=st))
        chk.count("circum:none")
    # ---- in-ball
    name = "incircle" if dim == 2 else "insphere"
    st, b = C.excname(lambda: getattr(sh, name))
    if it["tan"] is True:
        if st != "ok":
            chk.violation(name + "-missing", dict(desc, error=st, what="the shape is tangential by construction but the property raised"))
        else:
            c, r = np.array(b.center, float), float(b.radius)
            dev = tangency_deviation(sh, V, dim, c, r)
            if dev > T * size or r <= 0:
                chk.violation(name, dict(desc, center=c.tolist(), radius=r, tangency_deviation=dev))
            if abs(getattr(sh, name + "_radius") - r) > 1e-12 * abs(r):
                chk.violation(name + "_radius", dict(desc))
        chk.count("in:exists")
    elif it["tan"] is False:
        if st == "ok":
            c, r = np.array(b.center, float), float(b.radius)
            dev = tangency_deviation(sh, V, dim, c, r)
            if dev > 1e-6 * size:
                chk.violation(name + "-spurious", dict(desc, center=c.tolist(), radius=r, tangency_deviation=dev,
                                                       what="a ball that is not tangent to every face/edge was returned instead of RuntimeError"))
        elif st != "RuntimeError":
            chk.violation(name + "-wrong-exception", dict(desc, error=st))
        chk.count("in:none")
    # ---- centred balls (convex classes)
    if it["convex"] and not it.get("general"):
        cen = np.array(sh.centroid, float)
        name = ballname(dim, "minimal_centered_bounding")
        st, b = C.excname(lambda: getattr(sh, name))
        if st != "ok":
            chk.violation(name + "-raised", dict(desc, error=st))
        else:
            rr = float(np.max(np.linalg.norm(V - cen, axis=1)))
            if np.linalg.norm(np.array(b.center) - cen) > 1e-12 * (size + np.linalg.norm(cen)) or abs(b.radius - rr) > 1e-12 * rr:
                chk.violation(name, dict(desc, center=np.array(b.center).tolist(), radius=float(b.radius), exact_radius=rr))
            radius_getter(chk, sh, name, float(b.radius), desc)
        name = ballname(dim, "maximal_centered_bounded")
        st, b = C.excname(lambda: getattr(sh, name))
        if st != "ok":
            chk.violation(name + "-raised", dict(desc, error=st))
        else:
            dists = face_distances(sh, V, dim, cen)
            rr = float(np.min(dists))
            if np.linalg.norm(np.array(b.center) - cen) > 1e-12 * (size + np.linalg.norm(cen)) or abs(b.radius - rr) > 1e-9 * size:
                chk.violation(name, dict(desc, center=np.array(b.center).tolist(), radius=float(b.radius), exact_radius=rr))
            radius_getter(chk, sh, name, float(b.radius), desc)
    older_names(chk, sh, size, desc)
    chk.sample(dict(cls=type(sh).__name__, kind=it["kind"], nverts=len(V), cyclic=it["cyc"], tangential=it["tan"]))
    solver_retry_probe(chk, sh, dim, V, desc)
    balls_move_with_the_shape(chk, sh, dim, size, desc)


OLDER_NAMES = (("incircle_from_center", "maximal_centered_bounded_circle"), ("insphere_from_center", "maximal_centered_bounded_sphere"),
               ("circumsphere_from_center", "minimal_centered_bounding_sphere"), ("circumcircle_from_center", "minimal_centered_bounding_circle"),
               ("bounding_circle", "minimal_bounding_circle"), ("bounding_sphere", "minimal_bounding_sphere"))


def older_names(chk, sh, size, desc):
    """The balls are also reachable under their older (deprecated) names: the ball answered under an older name is the ball of the
    definition, i.e. the one answered under the current name (same outcome, same centre and radius)."""
    import warnings
    for old, new in OLDER_NAMES:
        if not (hasattr(type(sh), old) and hasattr(type(sh), new)):
            continue
        with warnings.catch_warnings():
            warnings.simplefilter("ignore")
            for _try in range(3):      # (the miniball-based ones: recorded finding miniball-randomised-solver - judged on a re-read)
                (sa, a), (sb, b) = C.excname(lambda: getattr(sh, old)), C.excname(lambda: getattr(sh, new))
                same = sa == sb and (sa != "ok" or (np.linalg.norm(np.array(a.center, float) - np.array(b.center, float)) <= 1e-7 * (size + 1e-300)
                                                     and abs(float(a.radius) - float(b.radius)) <= 1e-7 * (size + 1e-300)))
                if same or "minimal_bounding" not in new:
                    break
        chk.count("older-name:" + old)
        if not same:
            chk.violation(old + "-is-not-" + new, dict(desc, outcomes=[sa, sb],
                                                     older_name=None if sa != "ok" else dict(center=np.array(a.center, float).tolist(), radius=float(a.radius)),
                                                     current_name=None if sb != "ok" else dict(center=np.array(b.center, float).tolist(), radius=float(b.radius))))


def solver_retry_probe(chk, sh, dim, V, desc):
    """The library re-tries the third-party solver on a randomly rotated copy when it raises LinAlgError, and maps the centre back.  That path
    is taken at random in ordinary use; here it is FORCED (the solver is wrapped, inside the harness, to raise on its first two calls), so that
    what the library does around the solver is judged every time.  A failing ball is attributed to the recorded solver finding only if a
    repeated forced evaluation passes the exact certificate."""
    try:
        import miniball
    except Exception:  # noqa: BLE001
        return
    name = ballname(dim, "minimal_bounding")
    real = miniball.get_bounding_ball

    def forced():
        calls = [0]

        def flaky(pts, *a, **k):
            calls[0] += 1
            if calls[0] <= 2:
                raise np.linalg.LinAlgError("forced by the harness")
            return real(pts, *a, **k)
        miniball.get_bounding_ball = flaky
        try:
            return C.excname(lambda: getattr(sh, name))
        finally:
            miniball.get_bounding_ball = real
    verdicts = []
    for _ in range(4):
        st, b = forced()
        if st != "ok":
            verdicts.append((False, "raised " + st)); continue
        verdicts.append(miniball_certificate(V, np.array(b.center, float), float(b.radius)))
        if verdicts[-1][0]:
            break
    chk.count("solver-retry-forced")
    if not verdicts[-1][0]:
        chk.violation(name + "-after-solver-retry", dict(desc, why=verdicts[0][1], forced_evaluations=len(verdicts),
                                                         what="with the solver forced to fail twice the re-tried ball is wrong every time"))
    elif len(verdicts) > 1 and chk.is_known("miniball-randomised-solver"):
        chk.count("known:miniball(forced retry re-evaluation agrees)")


def balls_move_with_the_shape(chk, sh, dim, size, desc):
    """every ball is asked for, the shape is then moved (centroid assignment) and every ball is asked for again: each must have moved by the
    same displacement with its radius unchanged - an answer remembered from before the move is no longer the shape's ball"""
    names = [ballname(dim, b) for b in ("minimal_bounding", "minimal_centered_bounding", "maximal_bounded", "maximal_centered_bounded")]
    names = [n for n in names if hasattr(type(sh), n)]

    def read():
        out = {}
        for n in names:
            st, b = C.excname(lambda: getattr(sh, n))
            out[n] = (st, None) if st != "ok" else ("ok", (np.array(b.center, float), float(b.radius)))
        return out

    st0, c0 = C.excname(lambda: np.array(sh.centroid, float))
    if st0 != "ok":
        return
    before = read()
    # (recorded finding miniball-randomised-solver: the occasional odd answer can also be the one read BEFORE the move - two more reads)
    before_more = [read() for _ in range(2)] if any(n.startswith("minimal_bounding") for n in names) else []
    t = np.array([2.5, -1.25, 0.75]) * max(size, 2.0 ** -40)
    st, _ = C.excname(setattr, sh, "centroid", c0 + t)
    if st != "ok":
        return          # (setters are judged by C08)
    disp = np.array(sh.centroid, float) - c0
    after = read()
    chk.count("balls-move-with-the-shape")
    for n in names:
        (sa, va), (sb, vb) = before[n], after[n]
        if sa != sb:
            chk.violation(n + "-after-move", dict(desc, before=sa, after=sb, displacement=disp.tolist())); continue
        if sa != "ok":
            continue
        # (a remembered ball is off by the whole displacement, ~3 sizes; rounding of thin shapes far from the origin stays far below 1e-6)
        ok = np.linalg.norm(vb[0] - va[0] - disp) <= 1e-6 * (size + np.linalg.norm(c0) + np.linalg.norm(disp)) and abs(vb[1] - va[1]) <= 1e-6 * size
        if not ok and n.startswith("minimal_bounding"):
            # (recorded finding miniball-randomised-solver: judged on re-evaluation)
            cands = [va] + [m[n][1] for m in before_more if m[n][0] == "ok"]
            afters = [vb]
            for _ in range(3):
                st2, b2 = C.excname(lambda: getattr(sh, n))
                if st2 == "ok":
                    afters.append((np.array(b2.center, float), float(b2.radius)))
            if any(np.linalg.norm(y[0] - x[0] - disp) <= 1e-6 * (size + np.linalg.norm(c0) + np.linalg.norm(disp)) and abs(y[1] - x[1]) <= 1e-6 * size
                   for x in cands for y in afters):
                ok = True; chk.count("known:miniball(re-evaluation agrees)")
        if not ok:
            chk.violation(n + "-after-move", dict(desc, centre_before=va[0].tolist(), radius_before=va[1], centre_after=vb[0].tolist(), radius_after=vb[1],
                                                  displacement=disp.tolist(), what="the ball did not move with the shape"))


def radius_getter(chk, sh, name, r, desc):
    """every ball property has a matching <name>_radius getter: it must report that ball's radius"""
    if not hasattr(type(sh), name + "_radius"):
        return
    st, rg = C.excname(lambda: float(getattr(sh, name + "_radius")))
    if st != "ok" or abs(rg - r) > 1e-12 * abs(r):
        chk.violation(name + "_radius", dict(desc, getter=None if st != "ok" else rg, ball=r, error=st))


def face_distances(sh, V, dim, p):
    """distance from p (inside) to every face plane / edge line"""
    if dim == 3:
        out = []
        for f in sh.faces:
            N = np.cross(V[f[2]] - V[f[1]], V[f[0]] - V[f[1]])
            out.append(-(N @ (p - V[f[0]])) / np.linalg.norm(N))
        return np.array(out)
    nrm = np.array(sh.normal)
    out = []
    for i in range(len(V)):
        a, b = V[i], V[(i + 1) % len(V)]
        e = (b - a) / np.linalg.norm(b - a)
        out.append(np.linalg.norm(np.cross(p - a, e)))
    return np.array(out)


def tangency_deviation(sh, V, dim, c, r):
    d = face_distances(sh, V, dim, c)
    dev = float(np.max(np.abs(d - r)))
    if dim == 2:
        dev = max(dev, abs(float(np.array(sh.normal) @ (c - V[0]))))
    return dev


def curved(chk, rng, n):
    import coxeter

    for _ in range(n):
        ax = [float(2.0 ** rng.integers(-3, 4)) * float(rng.integers(1, 8)) / 4 for _ in range(3)]
        cen = gen.dy(rng.uniform(-10, 10, 3), 4)
        shapes = [("Circle", coxeter.shapes.Circle(ax[0], cen), [ax[0]], 2), ("Ellipse", coxeter.shapes.Ellipse(ax[0], ax[1], cen), ax[:2], 2),
                  ("Sphere", coxeter.shapes.Sphere(ax[0], cen), [ax[0]], 3), ("Ellipsoid", coxeter.shapes.Ellipsoid(ax[0], ax[1], ax[2], cen), ax, 3)]
        for nm, sh, axes, dim in shapes:
            chk.case([nm, axes, cen.tolist()], True)
            chk.count("cls:" + nm)
            for base, want in (("minimal_bounding", max(axes)), ("minimal_centered_bounding", max(axes)),
                               ("maximal_bounded", min(axes)), ("maximal_centered_bounded", min(axes))):
                name = ballname(dim, base)
                st, b = C.excname(lambda: getattr(sh, name))
                if st != "ok":
                    chk.violation("%s.%s-raised" % (nm, name), dict(axes=axes, center=cen.tolist(), error=st)); continue
                if float(b.radius) != want or not np.array_equal(np.array(b.center, float), cen):
                    chk.violation("%s.%s" % (nm, name), dict(axes=axes, center=cen.tolist(), radius=float(b.radius), exact=want))
                st, rv = C.excname(lambda: getattr(sh, name + "_radius"))
                if st != "ok" or rv != want:
                    chk.violation("%s.%s_radius" % (nm, name), dict(axes=axes, error=st))


def extra_coverage(chk):
    return dict(vm_compute_crosschecks=chk.notes.get("vm_crosschecked", 0))


def replay(chk, rep):
    return rep["detail"]
