"""C04 - Polygon area / signed area / perimeter / centroid / moments / inertia tensor are exact."""
import numpy as np

from .. import common as C
from .. import gen

ASSUMPTIONS = [
    "rowan.mapping.kabsch is an oracle (a proper rotation taking the unit normal to +z); the model is written frame-free, "
    "the theorems hold for every such rotation",
    "fan (signed triangle) sums are taken as the definition of the integrals over the polygon",
    "implementation rounding is an allowance (1e-9 relative to the natural magnitude of each observable)",
]
RTOL = 1e-9


def variants(rng, P2):
    """P2: CCW simple polygon in the xy-plane (n,2).  Yields dicts describing Polygon inputs."""
    n = len(P2)
    out = []
    for orient in ("ccw", "cw"):
        Q = P2 if orient == "ccw" else P2[::-1]
        shifts = {0, int(rng.integers(n))}
        # make a reflex corner come first when there is one
        for k in range(n):
            a, b, c = Q[k - 1], Q[k], Q[(k + 1) % n]
            cr = (b[0] - a[0]) * (c[1] - b[1]) - (b[1] - a[1]) * (c[0] - b[0])
            if (cr < 0) == (orient == "ccw") and cr != 0:
                shifts.add((k - 1) % n)
                break
        for s in sorted(shifts):
            out.append(dict(orient=orient, shift=s, pts=np.roll(Q, -s, axis=0)))
    return out


def embed(rng, pts2, planar_only=False, far=False):
    V = np.c_[pts2, np.zeros(len(pts2))]
    if planar_only:
        return V, np.array([0.0, 0.0, 1.0]), "xy"
    if rng.random() < 0.25:
        # a plane that misses the xy-plane (or its mirror image) by a fraction of a degree: exact integer rotation from the quaternion
        # (+-2^m, a, b, c), m = 7..11, a, b, c in {-1, 0, 1}: tilt 2 atan(|(a,b)| / 2^m) = 0.03 .. 1.3 degrees
        while True:
            abc = [int(x) for x in rng.integers(-1, 2, size=3)]
            if abc[0] or abc[1]:
                break
        M, n = gen.rot_from_quat([2 ** int(rng.integers(7, 12))] + abc, integer=True)
        if rng.random() < 0.5:
            M = M @ np.diag([1.0, -1.0, -1.0])       # ... or its mirror image (normal near -z)
    else:
        M, n = gen.random_rotation(rng, integer=True)
    k = 2.0 ** -int(np.ceil(np.log2(n))) if n > 1 else 1.0
    s = 2.0 ** int(rng.integers(-2, 3))
    diam = float(np.max(np.linalg.norm(V - V.mean(0), axis=1))) * 2
    t = gen.dy(rng.uniform(-1, 1, 3) * rng.choice([0.0, 1.0, 10.0]) * diam * s, 4)
    if far:      # 2^16 .. 2^24 diameters away: every coordinate still exactly representable
        t = gen.dy(rng.uniform(-1, 1, 3) * diam * s, 4) * 2.0 ** int(rng.integers(16, 25))
    W = (V @ M.T) * (k * s) + t
    nz = M @ np.array([0.0, 0.0, 1.0])
    return W, nz, "3d"


def observe(V, normal, cls="Polygon"):
    import coxeter

    p = getattr(coxeter.shapes, cls)(V, normal=None if normal is None else normal.copy())
    o = dict(normal=np.array(p.normal, float), area=float(p.area), signed_area=float(p.signed_area),
             perimeter=float(p.perimeter), centroid=np.array(p.centroid, float),
             polar=float(p.polar_moment_inertia), inertia=np.array(p.inertia_tensor, float),
             planar=[float(x) for x in p.planar_moments_inertia])
    # a copy (copy.copy, copy.deepcopy, a pickle round trip) of the polygon is the same polygon: normal, orientation and measures
    o["copies"] = C.copy_probe(lambda: getattr(coxeter.shapes, cls)(np.array(V, float), normal=None if normal is None else normal.copy()),
                               lambda s_: dict(normal=s_.normal, signed_area=s_.signed_area, area=s_.area, centroid=s_.centroid,
                                               inertia=s_.inertia_tensor, vertices=s_.vertices), grow=("area",))
    return o


def exact_from_model(r, nverts):
    NN = C.fl(r[0])
    sq = float(np.sqrt(NN))
    d = dict(NN=NN, sa_code=C.fl(r[1]) * sq, sa_spec=C.fl(r[2]) * sq,
             cen_code=np.array([C.fl(x) for x in r[3:6]]), cen_spec=np.array([C.fl(x) for x in r[6:9]]),
             Jc_code=C.fl(r[9]) / sq, Jc_spec=C.fl(r[10]) / sq,
             N=np.array([C.fl(x) for x in r[11:14]]),
             perimeter=float(sum(np.sqrt(C.fl(x)) for x in r[14:14 + nverts])))
    return d


def run(chk):
    rng = chk.rng
    npoly = 40 if chk.tier == "quick" else 600
    chk.notes["rule"] = ("simple polygons (star, comb, spiral, lattice, convex; 3-40 vertices) x orientation (ccw/cw) x cyclic shifts "
                         "(incl. reflex corner first) x normal (default/explicit +/-) x embedding (xy-plane or exact integer rotation, "
                         "scale 2^k, offset up to 10 diameters); non-trivial = non-convex or clockwise or off-origin or explicit normal")
    cases, meta = [], []
    for _ in range(npoly):
        kind, P2 = gen.simple_polygon(rng)
        for var in variants(rng, P2):
            for planar in (True, False) + (("far",) if kind == "convex" else ()):
                # far away from the origin: the convex class only (the general constructor's sweep line refuses valid far-away polygons:
                # recorded finding sweepline-large-coordinates); Polygon.signed_area etc. are inherited by it
                far = planar == "far"
                V, nz, emb = embed(rng, var["pts"], planar_only=(planar is True), far=far)
                for nmode in ("default", "plus", "minus"):
                    if nmode != "default" and rng.random() < 0.5:
                        continue
                    normal = None if nmode == "default" else (nz if nmode == "plus" else -nz)
                    if np.linalg.norm(np.cross(V[2] - V[1], V[0] - V[1])) < 1e-9 * np.linalg.norm(V[2] - V[1]) * np.linalg.norm(V[0] - V[1]):
                        chk.count("skipped:collinear-first-corner")  # the constructor cannot take its reference normal there (a C15 matter)
                        continue
                    st, o = C.excname(observe, V, normal, "ConvexPolygon" if far else "Polygon")
                    if st != "ok":
                        chk.violation("constructor-raised", dict(kind=kind, vertices=V.tolist(), normal=None if normal is None else normal.tolist(), error=st))
                        continue
                    sc = [0, 0, 0, 0, 0] if normal is None else [1, normal[0], normal[1], normal[2], 0]
                    i0 = len(cases)
                    cases.append(C.encode_case("polygon", sc=sc, qs=C.flat(V)))
                    # polar moment about the normal axis through the origin: c = 0 -> separate call with explicit normal
                    if emb == "xy":
                        cases.append(C.encode_case("polygon_planar", qs=C.flat(V)))
                    meta.append(dict(kind=kind, var=var, V=V, normal=normal, nmode=nmode, emb=emb, o=o, i0=i0, **(dict(cls="ConvexPolygon", far=True) if far else {})))
                    if far:
                        continue
                    # the convex class on the same input (it re-orders the vertices counter-clockwise about the normal it is given or
                    # finds): same measures, positive signed area, the requested normal
                    if kind == "convex" and rng.random() < 0.5:
                        st2, o2 = C.excname(observe, V, normal, "ConvexPolygon")
                        if st2 != "ok":
                            chk.violation("constructor-raised", dict(kind=kind, cls="ConvexPolygon", vertices=V.tolist(), normal=None if normal is None else normal.tolist(), error=st2))
                        else:
                            meta.append(dict(kind=kind, var=var, V=V, normal=normal, nmode=nmode, emb=emb, o=o2, i0=i0, cls="ConvexPolygon"))
    res = C.run_model(cases)
    nvm, okvm = C.vm_crosscheck(cases[:8], res[:8], "C04", limit=8)
    if not okvm:
        chk.violation("extraction-vs-vm_compute", dict(what="extracted binary and vm_compute disagree"), no_input=True)
    chk.notes["vm_crosschecked"] = nvm
    for m in meta:
        V, o = m["V"], m["o"]
        ex = exact_from_model(res[m["i0"]], len(V))
        R = float(np.max(np.linalg.norm(V, axis=1))) + 1e-300
        nontriv = m["kind"] != "convex" or m["var"]["orient"] == "cw" or m["nmode"] != "default" or m["emb"] == "3d"
        chk.case([V.tolist(), m["nmode"]], nontriv)
        chk.count("kind:" + m["kind"]); chk.count("orient:" + m["var"]["orient"]); chk.count("normal:" + m["nmode"]); chk.count("emb:" + m["emb"])
        desc = dict(kind=m["kind"], orient=m["var"]["orient"], shift=m["var"]["shift"], normal_mode=m["nmode"], emb=m["emb"],
                    vertices=V.tolist(), normal=None if m["normal"] is None else m["normal"].tolist())
        nhat = ex["N"] / np.sqrt(ex["NN"])
        convex_cls = m.get("cls") == "ConvexPolygon"
        if convex_cls:
            desc["cls"] = "ConvexPolygon"
            chk.count("cls:ConvexPolygon")
            if m["normal"] is None and ex["sa_spec"] < 0:
                nhat = -nhat          # (its own normal: the one about which the re-ordered vertices run counter-clockwise is either sign's partner)
            if m["normal"] is None and not (C.close(o["normal"], nhat, 1e-9) or C.close(o["normal"], -nhat, 1e-9)):
                chk.violation("normal", dict(desc, impl=o["normal"].tolist(), exact=nhat.tolist())); continue
            if m["normal"] is None:
                nhat = np.array(o["normal"], float)
        if not C.close(o["normal"], nhat, 1e-9):
            chk.violation("normal", dict(desc, impl=o["normal"].tolist(), exact=nhat.tolist()))
            continue

        for prob in o.get("copies", [])[:1]:
            chk.violation("copy-is-another-polygon", dict(desc, what=prob))

        def cmp(name, impl, exact, scale, known=None):
            if C.close(impl, exact, RTOL * scale):
                return True
            chk.violation(name, dict(desc, impl=np.asarray(impl).tolist(), exact=np.asarray(exact).tolist(), tol=RTOL * scale))
            return False

        # areas and perimeter are sums over edge DIFFERENCES: their rounding grows with (offset x diameter), not with offset^2
        D = float(np.max(np.linalg.norm(V - V.mean(0), axis=1))) * 2 + 1e-300
        if m.get("far"):
            chk.count("placement:far")
        cmp("signed_area", o["signed_area"], abs(ex["sa_spec"]) if convex_cls else ex["sa_spec"], R * D)
        cmp("area", o["area"], abs(ex["sa_spec"]), R * D)
        cmp("perimeter", o["perimeter"], ex["perimeter"], D * len(V) + 1e-7 * R)
        A = abs(ex["sa_spec"])
        cmp("centroid", o["centroid"], ex["cen_spec"], max(R, R ** 3 / max(A, 1e-300)))
        c = ex["cen_spec"]
        Iexact = ex["Jc_spec"] * np.outer(nhat, nhat) + A * (c @ c * np.eye(3) - np.outer(c, c))
        cmp("inertia_tensor", o["inertia"], Iexact, R ** 4)
        if m["emb"] == "xy" and m["nmode"] != "minus" and abs(nhat[2] - 1) < 1e-12 and (not convex_cls or ex["sa_spec"] > 0 or m["nmode"] == "plus"):
            pm = res[m["i0"] + 1]
            spec = [C.fl(x) for x in pm[6:9]]
            cmp("planar_moments_inertia", o["planar"], spec, R ** 4)
            cmp("polar_moment_inertia", o["polar"], spec[0] + spec[1], R ** 4)
        chk.sample(dict(kind=m["kind"], orient=m["var"]["orient"], normal=m["nmode"], emb=m["emb"], nverts=len(V),
                        impl_signed_area=o["signed_area"], exact_signed_area=ex["sa_spec"],
                        impl_centroid=o["centroid"].tolist(), exact_centroid=ex["cen_spec"].tolist()))


def extra_coverage(chk):
    return dict(vm_compute_crosschecks=chk.notes.get("vm_crosschecked", 0))


def replay(chk, rep):
    d = rep["detail"]
    V = np.array(d["vertices"], float)
    normal = None if d.get("normal") is None else np.array(d["normal"], float)
    o = observe(V, normal)
    sc = [0, 0, 0, 0, 0] if normal is None else [1, normal[0], normal[1], normal[2], 0]
    r = C.run_model([C.encode_case("polygon", sc=sc, qs=C.flat(V))])[0]
    ex = exact_from_model(r, len(V))
    return dict(impl={k: (v.tolist() if hasattr(v, "tolist") else v) for k, v in o.items()},
                exact={k: (v.tolist() if hasattr(v, "tolist") else v) for k, v in ex.items()})
