"""C01 - ConvexPolyhedron volume / area / centroid / inertia are exact, order independent."""
import numpy as np

from .. import common as C
from .. import gen

ASSUMPTIONS = [
    "qhull (scipy.spatial.ConvexHull) is an oracle: its triangulation is certified per run (closed chain, all input points in the closed inner half-space of every triangle, every point used)",
    "the signed cone sums are taken as the definition of the integrals over the enclosed solid (divergence theorem for polyhedra not proved in Coq)",
    "implementation rounding is an allowance (1e-9 relative to the natural magnitude R^k of each observable), not a theorem",
]

RTOL = 1e-9


def observe(V):
    import coxeter

    # the solid is the hull of the points that were passed in: what the caller does with the array afterwards is not part of it
    Vin = np.array(V, dtype=np.float64)
    p = coxeter.shapes.ConvexPolyhedron(Vin)
    vol, area, cen = float(p.volume), float(p.surface_area), np.array(p.centroid, float)
    Vin *= 2.0
    Vin += 1.0
    obs = dict(
        volume=vol, surface_area=area, centroid=cen, inertia=np.array(p.inertia_tensor, float),
        face_areas=np.array(p.get_face_area(), float), face_centroids=np.array(p.face_centroids, float),
        simplices=np.array(p.simplices, int), faces=[list(map(int, f)) for f in p.faces],
        coplanar=[list(map(int, s)) for s in p._coplanar_simplices],
        vertices=np.array(p.vertices, float),
    )
    obs["face_area_forms"] = C.face_area_forms(p, obs["face_areas"])
    obs["float32_form"] = C.float32_probe(coxeter.shapes.ConvexPolyhedron, V)
    obs["copies"] = C.copy_probe(lambda: coxeter.shapes.ConvexPolyhedron(np.array(V, dtype=np.float64)),
                                 lambda s_: dict(volume=s_.volume, surface_area=s_.surface_area, centroid=s_.centroid, inertia=s_.inertia_tensor))
    obs["handed_out"] = handed_out_probe(V)
    # (last: this resizes p) the measures are those of the solid as it is now, also when they were asked for before a resize
    obs["after_resize"] = C.resize_probe(p, lambda s_: coxeter.shapes.ConvexPolyhedron(np.array(s_.vertices)))
    return obs


def handed_out_probe(V):
    """The centroid the solid hands out is used to put the solid back where it was (the solid's own to_hoomd does the same): moved to the
    origin and back - by hand with the array read earlier, or through to_hoomd - the solid reports the measures of the given points again."""
    import coxeter
    V = np.array(V, dtype=np.float64)
    R = float(np.max(np.abs(V))) + 1e-300
    probs = []
    try:
        ref = coxeter.shapes.ConvexPolyhedron(V.copy())
        cen0, I0 = np.array(ref.centroid, float), np.array(ref.inertia_tensor, float)
    except Exception:  # noqa: BLE001
        return probs
    for how in ("centroid read, moved to the origin, moved back to the centroid read", "to_hoomd()"):
        try:
            p = coxeter.shapes.ConvexPolyhedron(V.copy())
            if how == "to_hoomd()":
                p.to_hoomd()
            else:
                c = p.centroid
                p.centroid = [0.0, 0.0, 0.0]
                p.centroid = c
            got = dict(vertices=np.array(p.vertices, float), centroid=np.array(p.centroid, float), center=np.array(p.center, float),
                       inertia=np.array(p.inertia_tensor, float))
        except Exception as e:  # noqa: BLE001
            probs.append("%s raised %s" % (how, type(e).__name__))
            continue
        for n, want, k in (("vertices", V, 1), ("centroid", cen0, 1), ("center", cen0, 1), ("inertia", I0, 5)):
            if got[n].shape != want.shape or not np.all(np.abs(got[n] - want) <= 1e-6 * C.conditioning(V) * R ** k):
                probs.append("after %s: %s is %s, the given points have %s" % (how, n, np.round(got[n], 9).ravel()[:6].tolist(), np.round(want, 9).ravel()[:6].tolist()))
                break
    return probs


def judge(chk, tag, V, obs, code, spec, fc_specs):
    """Compare implementation with the exact model values.  Returns list of failures."""
    fails = []
    R = float(np.max(np.linalg.norm(V, axis=1))) + 1e-300
    closed, svol, excess = code[0], C.fl(code[1]), C.fl(code[2])
    cen_code = [C.fl(x) for x in code[3:6]]
    I_code = [C.fl(x) for x in code[6:12]]
    n2 = [C.fl(x) for x in code[12:]]
    closed_s, vol_s = spec[0], C.fl(spec[1])
    cen_s = [C.fl(x) for x in spec[2:5]]
    I_s = [C.fl(x) for x in spec[5:11]]
    diam = float(np.max(np.linalg.norm(V - V.mean(0), axis=1))) * 2
    if closed != 1:
        fails.append(("hull-certificate", "simplices do not form a closed oriented chain"))
    if excess > 1e-9 * diam ** 3:
        fails.append(("hull-certificate", "an input point lies outside a simplex plane: excess %g" % excess))
    if set(obs["simplices"].ravel().tolist()) != set(range(len(V))):
        fails.append(("hull-certificate", "not every vertex is used by the triangulation"))
    if svol <= 0:
        fails.append(("orientation", "signed volume of the stored simplices is not positive: %g" % svol))
    # model(code) vs model(spec) must agree exactly on closed chains (theorem) -- a run-time echo
    if closed == 1 and (code[1] != spec[1] or list(code[3:6]) != list(spec[2:5]) or list(code[6:12]) != list(spec[5:11])):
        fails.append(("model-self-check", "Q-model of the code differs from the Q-spec on a closed chain"))

    def cmp(name, impl, exact, scale):
        if not C.close(impl, exact, RTOL * scale + 1e-300):
            fails.append((name, dict(impl=np.asarray(impl).tolist(), exact=np.asarray(exact).tolist(),
                                     err=float(np.max(np.abs(np.asarray(impl) - np.asarray(exact)))), tol=RTOL * scale)))

    cmp("volume", obs["volume"], vol_s, R ** 3)
    cmp("centroid", obs["centroid"], cen_s, max(R, R ** 4 / max(abs(vol_s), 1e-300)))
    cmp("inertia_tensor", C.sym6(obs["inertia"]), I_s, R ** 5)
    area_exact = float(sum(np.sqrt(x) for x in n2) / 2)
    cmp("surface_area", obs["surface_area"], area_exact, R ** 2)
    # per-face areas through the implementation's own grouping, and total consistency
    fa = [float(sum(np.sqrt(n2[s]) for s in grp) / 2) for grp in obs["coplanar"]]
    if len(fa) == len(obs["face_areas"]):
        cmp("face_areas", obs["face_areas"], fa, R ** 2)
    else:
        fails.append(("face_areas", "length mismatch"))
    if abs(sum(obs["face_areas"]) - area_exact) > RTOL * R ** 2:
        fails.append(("face_areas", "face areas do not sum to the surface area"))
    for prob in obs.get("face_area_forms", []):
        fails.append(("get_face_area-call-forms", prob))
    for prob in obs.get("after_resize", [])[:1]:
        fails.append(("measures-stale-after-resize", prob))
    for prob in obs.get("float32_form", [])[:1]:
        fails.append(("input-element-type-changes-measures", prob))
    for prob in obs.get("copies", [])[:1]:
        fails.append(("copy-not-an-independent-solid", prob))
    for prob in obs.get("handed_out", [])[:1]:
        fails.append(("measures-not-those-of-the-points-after-moving-back", prob))
    # a "face" is one facet of the hull: the simplices grouped into it must be coplanar (exactly, for the dyadic inputs used here;
    # 1e-10 of the size allowed) - otherwise per-face areas and face centroids describe something that is not a face
    Vv, Ss = obs["vertices"], obs["simplices"]
    for grp in obs["coplanar"]:
        if len(grp) < 2:
            continue
        a, b, c = Vv[Ss[grp[0]]]
        N = np.cross(b - a, c - a)
        pts = Vv[np.unique(Ss[list(grp)])]
        dev = float(np.max(np.abs((pts - a) @ N))) / (float(np.linalg.norm(N)) + 1e-300)
        if dev > 1e-10 * R:
            fails.append(("face-not-planar", "simplices %s are reported as one face but deviate from a common plane by %.3g" % (list(map(int, grp))[:6], dev)))
            break
    # ... and a facet is reported ONCE: no two reported faces lie in one plane (their planes, from the first triangle of each, agree to
    # rounding only when a facet was split)
    planes = []
    for grp in obs["coplanar"]:
        a, b, c = Vv[Ss[grp[0]]]
        N = np.cross(b - a, c - a)
        nn = float(np.linalg.norm(N))
        if nn > 0:
            planes.append((N / nn, float(N @ a) / nn))
    if planes:
        Nn = np.array([p_[0] for p_ in planes]); dd = np.array([p_[1] for p_ in planes])
        G = Nn @ Nn.T
        close = (G > 1 - 1e-12) & (np.abs(dd[:, None] - dd[None, :]) <= 1e-11 * R)
        np.fill_diagonal(close, False)
        # (the cosine cannot tell a fold of 1e-7 rad from none: what decides is whether the vertices of one face lie ON the other's plane -
        # to rounding, 1e-13 of the size - and a genuine fold of the generators lifts them off it by 1e-9 of the size or more)
        groups = [g for g in obs["coplanar"] if float(np.linalg.norm(np.cross(Vv[Ss[g[0]]][1] - Vv[Ss[g[0]]][0], Vv[Ss[g[0]]][2] - Vv[Ss[g[0]]][0]))) > 0]
        for i_, j_ in np.argwhere(close):
            pj = Vv[np.unique(Ss[list(groups[j_])])]
            if float(np.max(np.abs(pj @ Nn[i_] - dd[i_]))) > 1e-13 * R:
                close[i_, j_] = close[j_, i_] = False
        if np.any(close):
            i_, j_ = np.argwhere(close)[0]
            fails.append(("facet-reported-as-several-faces", "faces %d and %d lie in the same plane (normals agree, offsets differ by %.3g)" % (int(i_), int(j_), float(abs(dd[i_] - dd[j_])))))
    # face centroids against the exact centroid of the facet
    for k, fc in enumerate(fc_specs):
        if fc is None:
            continue
        cmp("face_centroids", obs["face_centroids"][k], [C.fl(x) for x in fc], R)
    return fails, dict(volume=vol_s, centroid=cen_s, inertia=I_s, area=area_exact)


def run(chk):
    rng = chk.rng
    nshapes = 60 if chk.tier == "quick" else 700
    chk.notes["rule"] = ("convex vertex sets (ellipsoid points, lattice polytopes, prismatic, flat, needle; rigidly placed "
                         "up to 10 diameters off origin, scales 2^-2..2^3) x 3 vertex orders; a case is non-trivial if the "
                         "hull has >=1 non-triangular face or is off-origin; distinct by hash of the vertex array")
    shapes = []
    for _ in range(nshapes):
        kind, V = gen.convex_set(rng, kinds=("ellipsoid", "ellipsoid", "lattice", "prismatic", "flat", "needle", "creased", "bigprism", "biglattice"))
        # any size: a third of the solids are rescaled exactly by a power of two between 2^-24 (6e-8) and 2^10
        if rng.random() < 0.34 and kind not in ("creased", "bigprism", "biglattice"):
            V = V * 2.0 ** int(rng.integers(-24, 11))
            kind += "*2^k"
        shapes.append((kind, V))
    if chk.tier == "thorough":
        shapes += tabulated()
    cases, meta = [], []
    for kind, V in shapes:
        orders = [np.arange(len(V))] + [rng.permutation(len(V)) for _ in range(2)]
        for oi, perm in enumerate(orders):
            Vp = V[perm]
            st, obs = C.excname(observe, Vp)
            if st != "ok":
                chk.violation("constructor-raised", dict(kind=kind, vertices=Vp.tolist(), error=st))
                continue
            qs = C.flat(obs["vertices"])
            idx = obs["simplices"].tolist()
            i0 = len(cases)
            cases.append(C.encode_case("mesh_code", qs=qs, idx=idx))
            cases.append(C.encode_case("mesh_spec", qs=qs, idx=idx))
            fcs = []
            for grp in obs["coplanar"]:
                fcs.append(len(cases))
                cases.append(C.encode_case("face_centroid", qs=qs, idx=[idx[s] for s in grp]))
            meta.append(dict(kind=kind, V=Vp, obs=obs, i0=i0, fcs=fcs, order=oi, base=id(V)))
    res = C.run_model(cases)
    nvm, okvm = C.vm_crosscheck(cases[:6], res[:6], "C01", limit=6)
    if not okvm:
        chk.violation("extraction-vs-vm_compute", dict(what="extracted binary and vm_compute disagree"), no_input=True)
    by_base = {}
    for m in meta:
        code, spec = res[m["i0"]], res[m["i0"] + 1]
        fc_specs = [res[k] for k in m["fcs"]]
        fails, exact = judge(chk, m["kind"], m["V"], m["obs"], code, spec, fc_specs)
        nontriv = any(len(f) > 3 for f in m["obs"]["faces"]) or np.linalg.norm(m["V"].mean(0)) > 1e-6
        chk.case(m["V"].tolist(), nontriv)
        chk.count("kind:" + m["kind"])
        chk.count("nverts:%d" % (10 * (len(m["V"]) // 10)))
        chk.sample(dict(kind=m["kind"], nverts=len(m["V"]), impl_volume=m["obs"]["volume"], exact_volume=exact["volume"],
                        impl_Ixx=float(m["obs"]["inertia"][0, 0]), exact_Ixx=exact["inertia"][0]))
        for name, d in fails:
            chk.violation(name, dict(kind=m["kind"], vertices=m["V"].tolist(), detail=d))
        by_base.setdefault(m["base"], []).append((m, exact))
    # order independence: exact values agree across orders (different hull triangulations)
    for base, lst in by_base.items():
        m0, e0 = lst[0]
        R = float(np.max(np.linalg.norm(m0["V"], axis=1)))
        for m, e in lst[1:]:
            if abs(e["volume"] - e0["volume"]) > 1e-12 * R ** 3 or not C.close(e["inertia"], e0["inertia"], 1e-11 * R ** 5):
                chk.violation("order-dependence", dict(vertices=m["V"].tolist(), a=e0, b=e))
            if abs(m["obs"]["volume"] - m0["obs"]["volume"]) > RTOL * R ** 3 or not C.close(m["obs"]["inertia"], m0["obs"]["inertia"], RTOL * R ** 5):
                chk.violation("order-dependence", dict(vertices=m["V"].tolist(), impl_a=m0["obs"]["volume"], impl_b=m["obs"]["volume"]))
    chk.notes["vm_crosschecked"] = nvm


def tabulated():
    out = []
    try:
        from coxeter.families import (ArchimedeanFamily, CatalanFamily, JohnsonFamily, PlatonicFamily,
                                      PrismAntiprismFamily, PyramidDipyramidFamily)

        for fam in (PlatonicFamily, ArchimedeanFamily, CatalanFamily, JohnsonFamily, PrismAntiprismFamily, PyramidDipyramidFamily):
            for name in fam.names:
                out.append(("tab:" + name, np.array(fam.get_shape(name).vertices, float)))
    except Exception:  # noqa: BLE001
        pass
    return out


def extra_coverage(chk):
    return dict(vm_compute_crosschecks=chk.notes.get("vm_crosschecked", 0))


def replay(chk, rep):
    V = np.array(rep["detail"]["vertices"], float)
    obs = observe(V)
    qs = C.flat(obs["vertices"])
    idx = obs["simplices"].tolist()
    r = C.run_model([C.encode_case("mesh_code", qs=qs, idx=idx), C.encode_case("mesh_spec", qs=qs, idx=idx)])
    return dict(impl=dict(volume=obs["volume"], centroid=obs["centroid"].tolist(), inertia=obs["inertia"].tolist()),
                model_code=[C.fl(x) for x in r[0][:12]], spec=[C.fl(x) for x in r[1]])
