"""C11 - Steiner formulas for rounded shapes; curvature descriptors match definitions."""
import math

import numpy as np

from .. import common as C
from .. import gen

ASSUMPTIONS = [
    "the Steiner polynomial (with the code's normalisation of M) is the property's specification; Minkowski-sum measure theory is not proved",
    "core V, S, A, P are the exact model values of C01/C04; per-edge data (|edge|^2, N_i.N_j, N_i.N_i, N_j.N_j) are exact rationals from the Coq model, "
    "the acos / sqrt / pi finishing steps are binary64 in the harness",
    "faces/neighbours are taken from the implementation (their consistency is C07's subject)",
]
RT = 1e-9


def run(chk):
    import coxeter

    rng = chk.rng
    ncore = 25 if chk.tier == "quick" else 400
    chk.notes["rule"] = ("convex cores from the C01 (polyhedra) and C04 (convex polygons) generators, exactly placed, x radii 0 and 2^k*size, k in -10..7; "
                         "non-trivial = radius > 0 or core has a non-right dihedral angle")
    cases, meta = [], []
    for icore in range(ncore):
        kind, V = gen.convex_set(rng)
        force_far = icore % 5 == 4
        if force_far:
            kind, V = gen.convex_set(rng, kinds=("ellipsoid",))
        elif rng.random() < 0.34 or icore % 5 == 2:      # any size: exact rescaling by a power of two between 2^-34 (6e-11) and 2^10
            V = V * 2.0 ** int(rng.integers(-34, 11) if icore % 5 != 2 else rng.integers(-34, -28)); kind += "*2^k"      # (the small end does not depend on the draw)
        if force_far:
            # far from the origin compared with its size (2^12 .. 2^18 diameters, exactly representable): edge lengths and angles are
            # differences / directions and keep their digits there
            dv = float(np.max(np.linalg.norm(V - V.mean(0), axis=1))) * 2
            V = V + gen.dy(rng.uniform(-1, 1, 3), 4) * dv * 2.0 ** int(rng.integers(12, 19)); kind += "/far"
        st, p = C.excname(coxeter.shapes.ConvexPolyhedron, V)
        if st != "ok":
            continue
        Vp = np.array(p.vertices)
        F = [list(map(int, f)) for f in p.faces]
        i0 = len(cases)
        cases.append(C.encode_case("edge_data", qs=C.flat(Vp), idx=F))
        cases.append(C.encode_case("mesh_code", qs=C.flat(Vp), idx=np.array(p.simplices).tolist()))
        meta.append(dict(kind=kind, V=Vp, F=F, p=p, i0=i0))
    res = C.run_model(cases)
    nvm, okvm = C.vm_crosscheck(cases[:2], res[:2], "C11", limit=2)
    if not okvm:
        chk.violation("extraction-vs-vm_compute", dict(what="extracted binary and vm_compute disagree"), no_input=True)
    chk.notes["vm_crosschecked"] = nvm
    for m in meta:
        p, V = m["p"], m["V"]
        ed = res[m["i0"]]
        mc = res[m["i0"] + 1]
        vol = abs(C.fl(mc[1]))
        S = float(sum(math.sqrt(C.fl(x)) for x in mc[12:]) / 2)
        rows = [ed[k:k + 6] for k in range(0, len(ed), 6)]
        size = float(np.max(V.max(0) - V.min(0)))
        desc = dict(kind=m["kind"], vertices=V.tolist())
        # dihedral angles and M
        M = 0.0
        E = []
        nonright = False
        for (i, j, L2, nij, nii, njj) in rows:
            i, j = int(i), int(j)
            c = C.fl(nij) / math.sqrt(C.fl(nii) * C.fl(njj))
            c = max(-1.0, min(1.0, c))
            phi = math.acos(-c)
            nonright |= abs(c) > 1e-12
            L = math.sqrt(C.fl(L2))
            E.append((L, phi))
            M += L * (math.pi - phi)
            st, got = C.excname(p.get_dihedral, i, j)
            if st != "ok" or abs(got - phi) > 1e-7:
                chk.violation("get_dihedral", dict(desc, faces=[i, j], impl=None if st != "ok" else float(got), exact=phi, error=st))
            st, got = C.excname(p.get_dihedral, j, i)      # the angle between two faces does not depend on the order they are named in
            if st != "ok" or abs(got - phi) > 1e-7:
                chk.violation("get_dihedral", dict(desc, faces=[j, i], impl=None if st != "ok" else float(got), exact=phi, error=st))
        M /= 8 * math.pi
        nE = len(rows)
        if nE != len(V) + len(m["F"]) - 2:
            chk.violation("edge-count", dict(desc, edges_found=nE, euler=len(V) + len(m["F"]) - 2))

        cond = C.conditioning(V)      # needles / plates far from the origin: see common.conditioning

        def cmp(name, impl, exact, rel=RT, extra=None):
            if not abs(float(impl) - exact) <= rel * cond * max(abs(exact), 1e-300):
                chk.violation(name, dict(desc, impl=float(impl), exact=exact, **(extra or {})))

        # (an edge sum of length x angle: its rounding grows like offset / size, not like the volume-type cancellations `cond` allows for)
        Roff = float(np.max(np.abs(V)))
        cmp("mean_curvature", p.mean_curvature, M, rel=max(RT, 50 * 2.3e-16 * Roff / size) / cond)
        if m["kind"].endswith("/far"):
            # (far away only the edge-based quantity is judged: volume-type measures lose digits there in any formulation - C09's matter)
            chk.count("core:" + m["kind"])
            continue
        cmp("tau", p.tau, 4 * math.pi * M * M / S)
        cmp("asphericity", p.asphericity, M * S / (3 * vol))
        cmp("iq", p.iq, 36 * math.pi * vol ** 2 / S ** 3)
        radii = [0.0] + [size * 2.0 ** int(k) for k in rng.choice(np.arange(-10, 8), size=3, replace=False)]
        for r in radii:
            sp = coxeter.shapes.ConvexSpheropolyhedron(V, r)
            chk.case([V.tolist(), r], r > 0 or nonright)
            ex = dict(radius=r)
            cmp("spheropolyhedron.volume", sp.volume, vol + S * r + 4 * math.pi * M * r * r + 4 / 3 * math.pi * r ** 3, extra=ex)
            cmp("spheropolyhedron.surface_area", sp.surface_area, S + 8 * math.pi * M * r + 4 * math.pi * r * r, extra=ex)
            cmp("spheropolyhedron.mean_curvature", sp.mean_curvature, M + r, extra=ex)
            if r == 0.0:
                cmp("r0.volume", sp.volume, float(p.volume), rel=1e-12)
                cmp("r0.surface_area", sp.surface_area, float(p.surface_area), rel=1e-12)
            chk.count("radius:0" if r == 0 else "radius:>0")
            # the Steiner quantities are those of the shape whatever was asked of it before: after containment queries (points inside the core,
            # in the rounded layer and outside), an export and a repr they read the same
            if r > 0:
                before = [float(sp.volume), float(sp.surface_area), float(sp.mean_curvature)]
                c0 = V.mean(0)
                probes = np.array([c0, c0 + (V[0] - c0) * (1 + 0.5 * r / (np.linalg.norm(V[0] - c0) + 1e-300)), c0 + (V[1] - c0) * 3 + 5 * r, V.max(0) + 10 * r + 1])
                bad_q = None
                for qn, qf in (("is_inside(batch)", lambda: sp.is_inside(probes)), ("is_inside(point)", lambda: sp.is_inside(probes[1])),
                               ("repr", lambda: repr(sp)), ("to_hoomd", sp.to_hoomd)):      # (each judged on its own: a later query may repair an earlier one)
                    C.excname(qf)
                    after = [float(sp.volume), float(sp.surface_area), float(sp.mean_curvature)]
                    if not np.allclose(after, before, rtol=1e-9, atol=0):      # (to_hoomd moves the core and back: last-digit differences)
                        bad_q = qn; break
                if bad_q:
                    chk.violation("spheropolyhedron.measures-changed-by-a-query", dict(desc, radius=r, query=bad_q, before=before, after=after)); break
            # the core is reachable through the public .polyhedron accessor: after resizing it the Steiner quantities must be those
            # of the NEW core (V, S, M scale with s^3, s^2, s for the similarity the volume setter applies)
            if r is radii[1]:
                st, _ = C.excname(setattr, sp.polyhedron, "volume", 8.0 * vol)
                if st == "ok":
                    ex2 = dict(radius=r, after="spheropolyhedron.polyhedron.volume = 8 * volume")
                    V2, S2, M2 = 8 * vol, 4 * S, 2 * M
                    cmp("spheropolyhedron.volume(core resized)", sp.volume, V2 + S2 * r + 4 * math.pi * M2 * r * r + 4 / 3 * math.pi * r ** 3, rel=1e-8, extra=ex2)
                    cmp("spheropolyhedron.surface_area(core resized)", sp.surface_area, S2 + 8 * math.pi * M2 * r + 4 * math.pi * r * r, rel=1e-8, extra=ex2)
                    cmp("spheropolyhedron.mean_curvature(core resized)", sp.mean_curvature, M2 + r, rel=1e-8, extra=ex2)
            # a value ASSIGNED as the volume / surface area of the rounded shape is its Steiner volume / area: the shape that results (core and
            # radius scaled together) reports the assigned value, and that value is the Steiner expression of the resulting core and radius
            if r is radii[1]:
                for prop, steiner in (("volume", lambda k, rr: vol * k ** 3 + S * k * k * rr + 4 * math.pi * M * k * rr * rr + 4 / 3 * math.pi * rr ** 3),
                                      ("surface_area", lambda k, rr: S * k * k + 8 * math.pi * M * k * rr + 4 * math.pi * rr * rr)):
                    if getattr(getattr(coxeter.shapes.ConvexSpheropolyhedron, prop, None), "fset", None) is None:
                        continue
                    sp3 = coxeter.shapes.ConvexSpheropolyhedron(V, r)
                    cur = steiner(1.0, r)
                    for tgt in (cur, 2.5 * cur):      # (assigning the current value changes nothing)
                        st, _ = C.excname(setattr, sp3, prop, tgt)
                        if st != "ok":
                            chk.count("steiner-assignment:setter-raised(not judged here)"); break
                        r3 = float(sp3.radius)
                        k3 = float(np.max(np.linalg.norm(np.asarray(sp3.polyhedron.vertices, float) - np.asarray(sp3.polyhedron.vertices, float).mean(0), axis=1))
                                   / np.max(np.linalg.norm(V - V.mean(0), axis=1)))
                        ex3 = dict(radius=r, assigned={prop: tgt}, resulting_radius=r3, core_scale=k3)
                        cmp("spheropolyhedron.%s(after assigning it): reported" % prop, getattr(sp3, prop), tgt, rel=1e-8, extra=ex3)
                        cmp("spheropolyhedron.%s(after assigning it): Steiner value of the resulting core and radius" % prop, steiner(k3, r3), tgt, rel=1e-8, extra=ex3)
                        chk.count("steiner-assignment")
        chk.count("core:" + m["kind"])
        chk.sample(dict(kind=m["kind"], nverts=len(V), M_exact=M, M_impl=float(p.mean_curvature), nedges=nE))
    spheropolygons(chk, rng, 40 if chk.tier == "quick" else 600)


def spheropolygons(chk, rng, n):
    import coxeter

    cases, meta = [], []
    for _ in range(n):
        _, P2 = gen.simple_polygon(rng, kind="convex")
        V = np.c_[P2, np.zeros(len(P2))]
        mode = rng.choice(["xy", "placed"])
        if mode == "placed":
            M, nn = gen.random_rotation(rng, integer=True)
            V = V @ M.T * 2.0 ** int(rng.integers(-2, 3)) + gen.dy(rng.uniform(-5, 5, 3), 4)
        if np.linalg.norm(np.cross(V[2] - V[1], V[0] - V[1])) == 0:
            continue
        size = float(np.max(V.max(0) - V.min(0)))
        r = float(rng.choice([0.0, size * 2.0 ** int(rng.integers(-10, 8))]))
        st, sp = C.excname(coxeter.shapes.ConvexSpheropolygon, V, r)
        if st != "ok":
            chk.violation("spheropolygon-constructor", dict(vertices=V.tolist(), radius=r, error=st))
            continue
        Vs = np.array(sp.vertices)
        cases.append(C.encode_case("polygon", sc=[0, 0, 0, 0, 0], qs=C.flat(Vs)))
        meta.append(dict(V=Vs, r=r, sp=sp))
    res = C.run_model(cases)
    for m, rr in zip(meta, res):
        NN = C.fl(rr[0])
        A = abs(C.fl(rr[2])) * math.sqrt(NN)
        nv = len(m["V"])
        P = float(sum(math.sqrt(C.fl(x)) for x in rr[14:14 + nv]))
        r, sp = m["r"], m["sp"]
        chk.case([m["V"].tolist(), r], r > 0)
        desc = dict(vertices=m["V"].tolist(), radius=r)
        for name, impl, exact in (("spheropolygon.area", sp.area, A + P * r + math.pi * r * r),
                                  ("spheropolygon.signed_area", abs(sp.signed_area), A + P * r + math.pi * r * r),
                                  ("spheropolygon.perimeter", sp.perimeter, P + 2 * math.pi * r)):
            if not abs(float(impl) - exact) <= RT * max(abs(exact), 1e-300):
                chk.violation(name, dict(desc, impl=float(impl), exact=exact))
        if sp.signed_area < 0:
            chk.violation("spheropolygon.signed_area-sign", dict(desc, impl=float(sp.signed_area), what="ConvexPolygon orders its vertices counter-clockwise about the normal, signed area must be positive"))
        chk.count("spheropolygon")


def extra_coverage(chk):
    return dict(vm_compute_crosschecks=chk.notes.get("vm_crosschecked", 0))


def replay(chk, rep):
    import coxeter

    d = rep["detail"]
    V = np.array(d["vertices"])
    if "radius" in d and V.shape[0] >= 4 and abs(np.linalg.det(np.c_[V[:4], np.ones(4)])) > 0:
        sp = coxeter.shapes.ConvexSpheropolyhedron(V, d["radius"])
        return dict(volume=sp.volume, surface_area=sp.surface_area, mean_curvature=sp.mean_curvature, recorded=d)
    return d
