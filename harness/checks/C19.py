"""C19 - GSD, repr and HOOMD representations round-trip the shape."""
import numpy as np

from .. import common as C
from .. import gen
from .. import shapes as Z

ASSUMPTIONS = [
    "'a shape of the same class': isinstance(result, type(shape)) - a convex vertex cycle stored in a Polygon legitimately comes back as ConvexPolygon; for "
    "eval(repr(.)) the general-polytope base class is also allowed, as the property states; eval is given the names coxeter, numpy/np, array, int32, int64",
    "GSD specs carry no centre for curved shapes (compared: radii / semi-axes) and no normal for polygons (compared: vertex sets and measures)",
    "to_hoomd is judged against a freshly constructed shape at the centred vertices (centroid exactly subtracted): vertices, centroid 0, volume/area, "
    "inertia tensor, sweep radius; tolerance 1e-9 relative",
]
RT = 1e-9
DISPATCH = []
CLASSCODE = ["Circle", "Ellipse", "Sphere", "Ellipsoid", "Polygon", "ConvexPolygon", "ConvexSpheropolygon", "Polyhedron", "ConvexPolyhedron", "ConvexSpheropolyhedron"]


def zoo(rng, n):
    """shapes of all ten classes in general position, both polygon orientations"""
    import coxeter

    S = coxeter.shapes
    out = []
    for _ in range(n):
        t = gen.dy(rng.uniform(-6, 6, 3), 4)
        ax = [float(2.0 ** rng.integers(-2, 3)) * float(rng.integers(1, 8)) / 4 for _ in range(3)]
        out += [("Circle", S.Circle(ax[0], t.copy())), ("Ellipse", S.Ellipse(ax[0], ax[1], t.copy())),
                ("Sphere", S.Sphere(ax[0], t.copy())), ("Ellipsoid", S.Ellipsoid(ax[0], ax[1], ax[2], t.copy()))]
        kind, P = gen.simple_polygon(rng)
        if rng.random() < 0.5:
            P = P[::-1].copy()
        M, nn = gen.random_rotation(rng, integer=True)
        V = np.c_[P, np.zeros(len(P))] @ M.T * 0.25 + t
        if np.linalg.norm(np.cross(V[2] - V[1], V[0] - V[1])) > 0:
            out.append(("Polygon", S.Polygon(V)))
            # ... and with an explicit normal opposing the vertex order (listed clockwise about its normal): the normal is part of the shape
            out.append(("Polygon", S.Polygon(V, normal=-np.cross(V[2] - V[1], V[0] - V[1]))))
        _, Pc = gen.simple_polygon(rng, kind="convex")
        if rng.random() < 0.5:
            Pc = Pc[::-1].copy()
        Vc = np.c_[Pc, np.zeros(len(Pc))] + np.array([t[0], t[1], 0.0])
        if np.linalg.norm(np.cross(Vc[2] - Vc[1], Vc[0] - Vc[1])) > 0:
            out.append(("ConvexPolygon", S.ConvexPolygon(Vc)))
            out.append(("ConvexPolygon", S.ConvexPolygon(Vc, normal=np.array([0.0, 0.0, -1.0]))))
            # rounding radius 0 is a legitimate spheropolygon (the setter allows it): it must round-trip as one
            out.append(("ConvexSpheropolygon", S.ConvexSpheropolygon(Vc, 0.0 if rng.random() < 0.25 else float(2.0 ** rng.integers(-3, 2)))))
        _, W = gen.convex_set(rng, kinds=("ellipsoid", "lattice", "prismatic"))
        cp = S.ConvexPolyhedron(W)
        out.append(("ConvexPolyhedron", cp))
        out.append(("ConvexSpheropolyhedron", S.ConvexSpheropolyhedron(W, 0.0 if rng.random() < 0.25 else float(2.0 ** rng.integers(-3, 2)))))
        out.append(("Polyhedron", S.Polyhedron(np.array(cp.vertices), cp.faces)))
        if rng.random() < 0.5:
            name, Vv, F, cells = gen.voxel_solid(rng)
            out.append(("Polyhedron", S.Polyhedron(Vv + t, [np.array(f) for f in F])))
    return out


def vset(V):
    return sorted(map(tuple, np.round(np.asarray(V, float), 12).tolist()))


def params(sh):
    d = {}
    for n in ("radius", "a", "b", "c"):
        if hasattr(sh, n) and isinstance(getattr(type(sh), n, None), property):
            d[n] = float(getattr(sh, n))
    if hasattr(sh, "vertices"):
        d["vertices"] = vset(sh.vertices)
    if hasattr(sh, "faces"):
        d["faces"] = sorted(tuple(int(x) for x in f) for f in sh.faces)
    return d


def measures(sh):
    d = {}
    for n in ("area", "volume", "perimeter", "surface_area"):
        if hasattr(type(sh), n):
            st, v = C.excname(getattr, sh, n)
            if st == "ok":
                d[n] = float(v)
    return d


def run(chk):
    import coxeter
    from coxeter.shape_getters import from_gsd_type_shapes

    rng = chk.rng
    n = 12 if chk.tier == "quick" else 200
    chk.notes["rule"] = ("shapes of all ten classes in general position away from the origin, polygons in both orientations and tilted planes, voxel (non-convex) "
                         "polyhedra; every GSD type string incl. missing/unknown types; non-trivial = every shape (off-origin)")
    ns = {"coxeter": coxeter, "np": np, "numpy": np, "array": np.array, "int32": np.int32, "int64": np.int64, "float64": np.float64}
    for cls, sh in zoo(rng, n):
        chk.case([cls, params(sh).get("vertices", params(sh))], True)
        chk.count("cls:" + cls)
        desc = dict(cls=cls, repr=repr(sh)[:300])
        dims = 2 if cls in ("Circle", "Ellipse", "Polygon", "ConvexPolygon", "ConvexSpheropolygon") else 3
        # ---- GSD
        st, spec = C.excname(lambda: sh.gsd_shape_spec)
        if st != "ok":
            chk.violation("gsd_shape_spec-raised", dict(desc, error=st))
        else:
            st, s2 = C.excname(from_gsd_type_shapes, spec, dims)
            # executable dispatch model: predicted class for this spec
            tcode = {"Sphere": 0, "Ellipsoid": 1, "Polygon": 2, "ConvexPolyhedron": 3, "Mesh": 4}.get(spec.get("type"), 5)
            convex = cls not in ("Polygon",) or type(s2).__name__ == "ConvexPolygon"
            DISPATCH.append((C.encode_case("gsd_dispatch", sc=[tcode, int("rounding_radius" in spec), dims, int(convex)]),
                             type(s2).__name__ if st == "ok" else "ValueError", dict(desc)))
            if st != "ok":
                chk.violation("gsd-roundtrip-raised", dict(desc, spec=str(spec)[:300], error=st))
            else:
                if not isinstance(s2, type(sh)):
                    chk.violation("gsd-roundtrip-class", dict(desc, got=type(s2).__name__))
                elif cls == "Polygon" and type(s2).__name__ == "ConvexPolygon":
                    # a non-convex cycle must stay a Polygon
                    from scipy.spatial import ConvexHull
                    chk.count("polygon-came-back-convex")
                p1, p2 = params(sh), params(s2)
                p1.pop("faces", None) if cls != "Polyhedron" else None
                p2.pop("faces", None) if cls != "Polyhedron" else None
                if p1 != p2:
                    chk.violation("gsd-roundtrip-parameters", dict(desc, before=str(p1)[:300], after=str(p2)[:300]))
                m1, m2 = measures(sh), measures(s2)
                for k in m1:
                    if k in m2 and abs(m1[k] - m2[k]) > RT * abs(m1[k]):
                        chk.violation("gsd-roundtrip-measure", dict(desc, measure=k, before=m1[k], after=m2[k]))
        # ---- repr
        st, s3 = C.excname(lambda: eval(repr(sh), dict(ns)))
        if st != "ok":
            chk.violation("repr-roundtrip-raised", dict(desc, error=st))
        else:
            if not (isinstance(s3, type(sh)) or isinstance(sh, type(s3))):
                chk.violation("repr-roundtrip-class", dict(desc, got=type(s3).__name__))
            if params(sh) != params(s3):
                chk.violation("repr-roundtrip-parameters", dict(desc, before=str(params(sh))[:300], after=str(params(s3))[:300]))
            for attr in ("normal",):
                if hasattr(sh, attr) and not np.allclose(np.asarray(getattr(sh, attr)), np.asarray(getattr(s3, attr)), rtol=0, atol=1e-12):
                    chk.violation("repr-roundtrip-" + attr, dict(desc))
            c1 = C.excname(lambda: np.asarray(sh.centroid, float))
            c3 = C.excname(lambda: np.asarray(s3.centroid, float))
            if c1[0] == "ok" and c3[0] == "ok" and not np.allclose(c1[1], c3[1], rtol=0, atol=1e-9 * (1 + np.max(np.abs(c1[1])))):
                chk.violation("repr-roundtrip-centre", dict(desc, before=c1[1].tolist(), after=c3[1].tolist()))
        # ---- to_json
        attrs = [a for a in ("vertices", "area", "volume", "radius", "centroid") if hasattr(type(sh), a) and C.excname(getattr, sh, a)[0] == "ok"]
        st, j = C.excname(sh.to_json, attrs)
        if st != "ok" or list(j.keys()) != attrs:
            chk.violation("to_json-keys", dict(desc, requested=attrs, got=None if st != "ok" else list(j.keys()), error=st))
        st, _ = C.excname(sh.to_json, ["no_such_attribute_xyz"])
        if st != "AttributeError":
            chk.violation("to_json-unknown-attribute", dict(desc, outcome=st))
        # ---- to_hoomd
        if hasattr(sh, "to_hoomd"):
            hoomd(chk, cls, sh, desc)
        chk.sample(dict(cls=cls, gsd_type=None if spec is None else spec.get("type")))
    res = C.run_model([c for c, _, _ in DISPATCH])
    for (c, got, desc), r in zip(DISPATCH, res):
        want = "ValueError" if int(r[0]) < 0 else CLASSCODE[int(r[0])]
        if want != got:
            chk.violation("gsd-dispatch-differs-from-model", dict(desc, model=want, implementation=got))
    chk.notes["dispatch_cases"] = len(DISPATCH)
    # ---- malformed specs
    for bad in ({}, {"vertices": [[0, 0, 0]]}, {"type": "Tetrahedron", "vertices": []}, {"type": "sphere", "diameter": 1.0}, {"type": None}):
        st, _ = C.excname(from_gsd_type_shapes, dict(bad))
        chk.case(["bad-spec", str(bad)], True)
        if st != "ValueError":
            chk.violation("malformed-gsd-spec", dict(spec=str(bad), outcome=st))
    # a non-convex cycle in a Polygon spec yields a Polygon (not Convex)
    L = [[0, 0, 0], [2, 0, 0], [2, 1, 0], [1, 1, 0], [1, 2, 0], [0, 2, 0]]
    st, s = C.excname(from_gsd_type_shapes, {"type": "Polygon", "vertices": L}, 2)
    if st != "ok" or type(s).__name__ != "Polygon":
        chk.violation("nonconvex-polygon-spec", dict(outcome=st, got=None if st != "ok" else type(s).__name__))


def hoomd(chk, cls, sh, desc):
    import coxeter

    S = coxeter.shapes
    st, h = C.excname(sh.to_hoomd)
    if st != "ok":
        # recorded known finding: Polyhedron.to_hoomd evaluates centroid / volume / inertia tensor, which run the vendored polytri;
        # its absolute thresholds reject valid small meshes - the same mesh scaled up by 2^24 (exact in binary64) is accepted
        if (st == "ValueError" and cls == "Polyhedron" and chk.is_known("polytri-absolute-thresholds")
                and C.excname(S.Polyhedron(np.array(sh.vertices) * 2.0 ** 24, [np.array(f) for f in sh.faces]).to_hoomd)[0] == "ok"):
            chk.known_finding("polytri-absolute-thresholds", "Polyhedron.to_hoomd raises ValueError('Triangulation failed') on valid small meshes (polytri absolute thresholds); the same mesh scaled by 2^24 succeeds")
            chk.count("known:polytri")
            return
        chk.violation("to_hoomd-raised", dict(desc, error=st)); return
    expect = dict(Polygon={"vertices", "centroid", "sweep_radius", "area", "moment_inertia"},
                  ConvexPolygon={"vertices", "centroid", "sweep_radius", "area", "moment_inertia"},
                  ConvexSpheropolygon={"vertices", "centroid", "sweep_radius", "area"},
                  Polyhedron={"vertices", "faces", "centroid", "sweep_radius", "volume", "moment_inertia"},
                  ConvexPolyhedron={"vertices", "faces", "centroid", "sweep_radius", "volume", "moment_inertia"},
                  ConvexSpheropolyhedron={"vertices", "centroid", "sweep_radius", "volume"},
                  Sphere={"diameter", "centroid", "volume", "moment_inertia"},
                  Ellipsoid={"a", "b", "c", "centroid", "volume", "moment_inertia"})[cls]
    if set(h.keys()) != expect:
        chk.violation("to_hoomd-keys", dict(desc, keys=sorted(h.keys()), expected=sorted(expect)))
        return
    # (the shape is moved by minus its centroid: what is left is the rounding of the centroid itself, which follows the size of the
    # coordinates and, for thin shapes far from the origin, their conditioning)
    Vh = np.asarray(sh.vertices, float) if hasattr(sh, "vertices") else np.asarray(sh.centroid, float)[None, :]
    tolc = 1e-9 * max(1.0, float(np.max(np.abs(Vh)))) * (C.conditioning(Vh) if len(Vh) > 3 else 1.0)
    if not np.allclose(np.asarray(h["centroid"], float), 0, atol=tolc):
        chk.violation("to_hoomd-centroid", dict(desc, centroid=np.asarray(h["centroid"]).tolist()))
    if "vertices" in h:
        core = getattr(sh, "polygon", None) or getattr(sh, "polyhedron", None) or sh
        cen = np.asarray(core.centroid, float)
        V = np.asarray(core.vertices, float) - cen
        got = np.asarray(h["vertices"], float)
        if got.shape[1] == 2:
            # documented as the in-plane vertices of the centred polygon (polygons here lie in planes parallel to xy or are compared by norms)
            ref = V[:, :2] if abs(abs(np.asarray(core.normal)[2]) - 1) < 1e-12 else None
        else:
            ref = V
        size = float(np.max(np.abs(V))) + 1e-300
        bad = ref is not None and not np.allclose(got, ref, rtol=0, atol=RT * size * 10)
        if ref is None:
            # tilted polygon: the 2-D vertices cannot equal the 3-D ones; compare what they must share - they are centred
            bad = not np.allclose(got.mean(0), (V[:, :2]).mean(0), atol=RT * size * 10)
        if bad:
            if cls == "ConvexSpheropolygon" and chk.is_known("spheropolygon-to_hoomd-not-centred") and np.allclose(got, np.asarray(core.vertices, float)[:, :got.shape[1]], rtol=0, atol=1e-12):
                chk.known_finding("spheropolygon-to_hoomd-not-centred", "ConvexSpheropolygon.to_hoomd returns the un-centred vertices with centroid [0,0,0]")
            else:
                chk.violation("to_hoomd-vertices-not-centred", dict(desc, got=got.tolist()[:4], expected=None if ref is None else ref.tolist()[:4]))
    for k in ("volume", "area"):
        if k in h and abs(float(h[k]) - float(getattr(sh, k))) > RT * abs(float(getattr(sh, k))):
            chk.violation("to_hoomd-" + k, dict(desc))
    if "moment_inertia" in h:
        # inertia tensor of the centred shape = fresh shape at the centred position
        if cls in ("Sphere", "Ellipsoid"):
            args = [float(getattr(sh, n)) for n in (("radius",) if cls == "Sphere" else ("a", "b", "c"))]
            ref = np.asarray(getattr(S, cls)(*args).inertia_tensor, float)
        else:
            cen = np.asarray(sh.centroid, float)
            V = np.asarray(sh.vertices, float) - cen
            if cls == "Polyhedron":
                ref = np.asarray(S.Polyhedron(V, [np.array(f) for f in sh.faces]).inertia_tensor, float)
            elif cls == "ConvexPolyhedron":
                ref = np.asarray(S.ConvexPolyhedron(V).inertia_tensor, float)
            else:
                ref = np.asarray(S.Polygon(V, normal=np.asarray(sh.normal, float).copy()).inertia_tensor, float)
        got = np.asarray(h["moment_inertia"], float)
        if not np.all(np.abs(got - ref) <= RT * (np.max(np.abs(ref)) + 1e-300) * 100):
            chk.violation("to_hoomd-moment_inertia", dict(desc, got=got.tolist(), expected=ref.tolist()))
    if "sweep_radius" in h:
        want = float(sh.radius) if cls.startswith("ConvexSphero") else 0.0
        if float(h["sweep_radius"]) != want:
            chk.violation("to_hoomd-sweep_radius", dict(desc, got=float(h["sweep_radius"]), expected=want))


def replay(chk, rep):
    return rep["detail"]
