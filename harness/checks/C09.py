"""C09 - results are covariant under rotation, translation, scaling and relabelling."""
import math

import numpy as np

from .. import common as C
from .. import gen

ASSUMPTIONS = [
    "metamorphic oracle: every public query on g(input) is compared with g applied to the query on input; g = exact similarity (integer matrix M with "
    "M M^T = n^2 I, power-of-two scale in 2^-10..2^10, dyadic translation up to 10 diameters) and/or a relabelling (vertex permutation for convex shapes, "
    "cyclic shift of faces / polygon vertices, vertex relabelling for general polyhedra)",
    "tolerance 1e-8 relative to the natural magnitude of each observable on the transformed shape (array-level)",
    "inertia tensors are compared through the central tensor: I_c(g x) = s^5 R I_c(x) R^T, I_c = I - V(|c|^2 1 - c c^T)",
]
RT = 1e-8


def similarity(rng):
    M, n = gen.random_rotation(rng, integer=True)
    k = 2.0 ** int(rng.integers(-10, 11))
    R = M / n
    s = k * n
    return R, s, M * k


def central(I, vol, c):
    return I - vol * (c @ c * np.eye(3) - np.outer(c, c))


def run(chk):
    import coxeter

    S = coxeter.shapes
    rng = chk.rng
    n = 20 if chk.tier == "quick" else 300
    chk.notes["rule"] = ("shapes from the C01/C02/C04 generators x (exact rotation incl. axis permutations x scale 2^-10..2^10 x translation to 10 diameters) and "
                         "relabellings; all public queries incl. containment of transformed probe points and form factors; non-trivial = every (shape, g)")
    # ------------------------------------------------------------------ convex polyhedra
    for _ in range(n):
        kind, V = gen.convex_set(rng, allow_place=False)
        st, a = C.excname(S.ConvexPolyhedron, V)
        if st != "ok":
            continue
        for _g in range(2):
            R, s, L = similarity(rng)
            diam = float(np.max(np.linalg.norm(V - V.mean(0), axis=1))) * 2
            t = gen.dy(rng.uniform(-1, 1, 3) * rng.choice([0.0, 1.0, 10.0]) * diam * s, 8)
            perm = rng.permutation(len(V))
            W = (V @ L.T + t)[perm]
            chk.case(["ConvexPolyhedron", V.tolist(), L.tolist(), t.tolist()], True)
            chk.count("cls:ConvexPolyhedron")
            desc = dict(cls="ConvexPolyhedron", kind=kind, vertices=V.tolist(), linear=L.tolist(), translation=t.tolist(), scale=s)
            st, b = C.excname(S.ConvexPolyhedron, W)
            if st != "ok":
                chk.violation("valid-shape-became-error", dict(desc, error=st)); continue
            compare3d(chk, a, b, R, s, t, desc, rng)
    # ------------------------------------------------------------------ general polyhedra
    for _ in range(n):
        kind, V, F, info = gen.closed_mesh(rng)
        if F is None:
            cp = S.ConvexPolyhedron(V)
            V, F = np.array(cp.vertices), [list(map(int, f)) for f in cp.faces]
        st, a = C.excname(lambda: S.Polyhedron(V, [np.array(f) for f in F]))
        if st != "ok":
            continue
        R, s, L = similarity(rng)
        diam = float(np.max(np.linalg.norm(V - V.mean(0), axis=1))) * 2
        t = gen.dy(rng.uniform(-1, 1, 3) * rng.choice([0.0, 1.0, 10.0]) * diam * s, 8)
        perm = rng.permutation(len(V)); inv = np.argsort(perm)
        W = (V @ L.T + t)[perm]
        F2 = []
        for f in F:
            g = [int(inv[i]) for i in f]
            k = int(rng.integers(len(g)))
            F2.append(g[k:] + g[:k])
        # ... and the face LIST is relabelled too: face j of the transformed solid is face fperm[j] of the original
        fperm = rng.permutation(len(F2))
        F2 = [F2[int(i)] for i in fperm]
        chk.case(["Polyhedron", V.tolist(), L.tolist(), t.tolist()], True)
        chk.count("cls:Polyhedron")
        desc = dict(cls="Polyhedron", kind=kind, vertices=V.tolist(), faces=F, linear=L.tolist(), translation=t.tolist(), scale=s)
        st, b = C.excname(lambda: S.Polyhedron(W, [np.array(f) for f in F2]))
        if st != "ok":
            chk.violation("valid-shape-became-error", dict(desc, error=st)); continue
        compare3d(chk, a, b, R, s, t, desc, rng)
        # per-face queries follow the relabelling: face j of b is face fperm[j] of a, asked for singly, as a subset and all together
        sta, fa_all = C.excname(lambda: np.asarray(a.get_face_area(), float))
        if sta == "ok":
            j1 = int(rng.integers(len(F2)))
            sub = [int(x) for x in rng.permutation(len(F2))[: min(3, len(F2))]]
            for sel, idx in ((j1, [j1]), (sub, sub), (None, list(range(len(F2))))):
                stb, got = C.excname(lambda: np.asarray(b.get_face_area(sel), float).ravel())
                want = s ** 2 * fa_all[fperm[idx]]
                if stb != "ok" or got.shape != want.shape or not np.allclose(got, want, rtol=1e-9, atol=0):
                    chk.violation("not-covariant:get_face_area", dict(desc, face_permutation=fperm.tolist(), asked=sel, outcome=stb,
                                                                      after=None if stb != "ok" else got.tolist(), expected=want.tolist()))
                    break
            chk.count("per-face-queries-under-relabelling")
    # ------------------------------------------------------------------ axis-aligned convex polygons turned in their own plane
    # (exactly horizontal / vertical edges take special branches in distance_to_surface; the turned copy takes the generic one)
    for _ in range(max(4, n // 4)):
        a_, b_ = float(rng.integers(1, 7)), float(rng.integers(1, 7))
        base = rng.choice(["rectangle", "right-triangle", "axis-trapezium"])
        P = {"rectangle": [[0, 0], [a_, 0], [a_, b_], [0, b_]], "right-triangle": [[0, 0], [a_, 0], [0, b_]],
             "axis-trapezium": [[0, 0], [a_ + b_, 0], [a_, b_], [0, b_]]}[base]
        V = np.c_[np.array(P, float) + gen.dy(rng.uniform(-3, 3, 2), 3) * rng.choice([0.0, 1.0]), np.zeros(len(P))]
        st, a = C.excname(S.ConvexPolygon, V)
        if st != "ok":
            continue
        qz = [int(rng.integers(1, 5)), 0, 0, int(rng.choice([-3, -2, -1, 1, 2, 3]))]
        M, nq = gen.rot_from_quat(qz, integer=True)
        R = M / nq
        s = 2.0 ** int(rng.integers(-2, 3))
        t = gen.dy(rng.uniform(-4, 4, 3), 4) * np.array([1.0, 1.0, 0.0])
        W = s * V @ R.T + t
        chk.case(["ConvexPolygon", base, V.tolist(), qz], True)
        chk.count("cls:ConvexPolygon(axis-aligned, turned in plane)")
        desc = dict(cls="ConvexPolygon", kind=base, vertices=V.tolist(), linear=(s * R).tolist(), translation=t.tolist(), scale=s, shift=0)
        st, b, msg = excmsg(S.ConvexPolygon, W, np.array([0.0, 0.0, 1.0]))
        if st != "ok":
            chk.violation("valid-shape-became-error", dict(desc, error=st, message=msg[:200])); continue
        compare2d(chk, a, b, R, s, t, desc, rng)
    # ------------------------------------------------------------------ polygons
    for _ in range(n):
        kind, P = gen.simple_polygon(rng)
        V = np.c_[P, np.zeros(len(P))]
        if np.linalg.norm(np.cross(V[2] - V[1], V[0] - V[1])) == 0:
            continue
        cls = S.ConvexPolygon if kind == "convex" else S.Polygon
        st, a = C.excname(cls, V)
        if st != "ok":
            continue
        R, s, L = similarity(rng)
        diam = float(np.max(np.linalg.norm(V - V.mean(0), axis=1))) * 2
        t = gen.dy(rng.uniform(-1, 1, 3) * rng.choice([0.0, 1.0, 10.0]) * diam * s, 8)
        k = int(rng.integers(len(V)))
        W = np.roll(V @ L.T + t, -k, axis=0)
        if np.linalg.norm(np.cross(W[2] - W[1], W[0] - W[1])) == 0:
            continue
        chk.case([cls.__name__, V.tolist(), L.tolist(), t.tolist(), k], True)
        chk.count("cls:" + cls.__name__)
        desc = dict(cls=cls.__name__, kind=kind, vertices=V.tolist(), linear=L.tolist(), translation=t.tolist(), scale=s, shift=k)
        # keep the orientation convention comparable: pass the transformed normal explicitly
        st, b, msg = excmsg(cls, W, R @ np.array(a.normal, float))
        if st != "ok":
            if not sweep_known(chk, st, msg, W):
                chk.violation("valid-shape-became-error", dict(desc, error=st, message=msg[:200]))
            continue
        compare2d(chk, a, b, R, s, t, desc, rng)
        if cls is S.ConvexPolygon:
            # the rounded class is built on the same core: given the same vertices (in any cyclic labelling) and the same explicit normal -
            # of either sense - the core of the spheropolygon is the polygon the plain class builds (normal, vertex order, signed area)
            for sense in (1.0, -1.0):
                nb = sense * (R @ np.array(a.normal, float))
                stp, plain = C.excname(S.ConvexPolygon, W, nb)
                str_, rounded = C.excname(S.ConvexSpheropolygon, W, 0.25 * s, nb)
                if stp != "ok" or str_ != "ok":
                    if stp != str_:
                        chk.violation("not-covariant:spheropolygon-core", dict(desc, requested_normal=nb.tolist(), outcomes=[stp, str_]))
                    continue
                core = rounded.polygon
                if (not np.allclose(core.normal, plain.normal, atol=1e-12) or not np.allclose(core.vertices, plain.vertices, rtol=0, atol=1e-12 * (1 + float(np.max(np.abs(W)))))
                        or not np.isclose(core.signed_area, plain.signed_area, rtol=1e-12)):
                    chk.violation("not-covariant:spheropolygon-core", dict(desc, requested_normal=nb.tolist(), core_normal=np.asarray(core.normal).tolist(),
                                                                           plain_normal=np.asarray(plain.normal).tolist(),
                                                                           what="ConvexSpheropolygon(vertices, r, normal).polygon differs from ConvexPolygon(vertices, normal)"))
                    break
                chk.count("spheropolygon-core-vs-plain")


def excmsg(fn, *a):
    try:
        return "ok", fn(*a), ""
    except Exception as e:  # noqa: BLE001
        return type(e).__name__, None, str(e)


def sweep_known(chk, st, msg, W):
    """the recorded sweep-line finding: a valid cycle rejected / assert tripped at large coordinate magnitudes"""
    # (the untransformed shape was accepted, and a similarity preserves simplicity: the rejection is spurious)
    if chk.is_known("sweepline-large-coordinates") and ((st == "ValueError" and "counterclockwise" in msg) or st == "AssertionError"):
        chk.known_finding("sweepline-large-coordinates", "valid simple polygons / faces are rejected (ValueError or AssertionError from the vendored sweep line) at coordinate magnitudes >= 1e3..1e5")
        chk.count("known:sweepline")
        return True
    return False


def point_tri_dist(p, tr):
    """distance from p to the triangle tr (3x3), Ericson's closest-point construction (binary64; used only to skip boundary probes)"""
    a, b, c = tr
    ab, ac, ap = b - a, c - a, p - a
    d1, d2 = ab @ ap, ac @ ap
    if d1 <= 0 and d2 <= 0:
        return float(np.linalg.norm(ap))
    bp = p - b; d3, d4 = ab @ bp, ac @ bp
    if d3 >= 0 and d4 <= d3:
        return float(np.linalg.norm(bp))
    vc = d1 * d4 - d3 * d2
    if vc <= 0 and d1 >= 0 and d3 <= 0:
        return float(np.linalg.norm(ap - ab * (d1 / (d1 - d3))))
    cp = p - c; d5, d6 = ab @ cp, ac @ cp
    if d6 >= 0 and d5 <= d6:
        return float(np.linalg.norm(cp))
    vb = d5 * d2 - d1 * d6
    if vb <= 0 and d2 >= 0 and d6 <= 0:
        return float(np.linalg.norm(ap - ac * (d2 / (d2 - d6))))
    va = d3 * d6 - d5 * d4
    if va <= 0 and (d4 - d3) >= 0 and (d5 - d6) >= 0:
        w = (d4 - d3) / ((d4 - d3) + (d5 - d6))
        return float(np.linalg.norm(p - (b + w * (c - b))))
    den = va + vb + vc
    if den == 0:
        return float(min(np.linalg.norm(ap), np.linalg.norm(bp), np.linalg.norm(cp)))
    v, w = vb / den, vc / den
    return float(np.linalg.norm(p - (a + ab * v + ac * w)))


def close(x, y, scale=None):
    x, y = np.asarray(x, float), np.asarray(y, float)
    if x.shape != y.shape:
        return False
    sc = float(np.max(np.abs(y))) if scale is None else scale
    return bool(np.all(np.isfinite(x)) and np.all(np.abs(x - y) <= RT * sc + 1e-300))


def get(o, name):
    return C.excname(lambda: getattr(o, name))


def conditioning(desc):
    """rounding allowance factor for translated thin shapes: measures are sums of terms of size offset * extent^k, so the relative error
    grows with offset / thinnest extent (needles and plates far from the origin); 1 for ordinary shapes"""
    V = np.asarray(desc["vertices"], float)
    ev = np.linalg.eigvalsh(np.cov((V - V.mean(0)).T))
    ev = ev[ev > 1e-12 * max(float(ev.max()), 1e-300)]          # (planar shapes: in-plane extents only)
    thin = 2 * math.sqrt(float(ev.min())) if len(ev) else 1.0
    return max(1.0, float(np.linalg.norm(desc["translation"])) / (desc["scale"] * thin) / 1000.0)


def compare_scalar(chk, a, b, name, power, s, desc):
    sa, va = get(a, name)
    sb, vb = get(b, name)
    if sa != sb:
        chk.violation("outcome-changed:" + name, dict(desc, before=sa, after=sb)); return
    if sa == "ok" and not close(float(vb), float(va) * s ** power, scale=abs(float(va) * s ** power) * conditioning(desc)):
        chk.violation("not-covariant:" + name, dict(desc, before=float(va), after=float(vb), expected=float(va) * s ** power))


DEFBALLS = ("circumsphere", "insphere", "circumcircle", "incircle")


def ball_deviation(sh, ball, name):
    """how far the returned ball is from meeting its definition (all vertices on it / tangent to every face or edge), relative to the extent"""
    from .C13 import tangency_deviation
    Va = np.asarray(sh.vertices, float); c, r = np.asarray(ball.center, float), float(ball.radius)
    ext = float(np.max(np.ptp(Va, axis=0))) + 1e-300
    dev = (float(np.max(np.abs(np.linalg.norm(Va - c, axis=1) - r))) if name.startswith("circum")
           else tangency_deviation(sh, Va, 2 if name.endswith("circle") else 3, c, r))
    return dev / ext


def compare_ball(chk, a, b, name, R, s, t, desc):
    sa, va = get(a, name)
    sb, vb = get(b, name)
    if sa != sb:
        if chk.is_known("residual-isclose-absolute") and {sa, sb} == {"ok", "RuntimeError"} and name in ("circumsphere", "insphere", "circumcircle", "incircle"):
            chk.known_finding("residual-isclose-absolute", "circum-/in-ball existence is decided by np.isclose(residual, 0) with an absolute tolerance: the verdict changes with the scale of the shape")
            chk.count("known:isclose-resid")
            return
        if name in DEFBALLS and {sa, sb} == {"ok", "RuntimeError"}:
            # borderline of the implementation's residual tolerance: the side that answered returned a ball that does not meet the
            # definition to rounding, i.e. the shape is cyclic / tangential only approximately - either answer is within the tolerance
            sh_ok, v_ok = (a, va) if sa == "ok" else (b, vb)
            if 1e-9 < ball_deviation(sh_ok, v_ok, name) <= 1e-3:   # (a grossly wrong ball is not 'within tolerance')
                chk.count("ball-only-within-tolerance(not judged)")
                return
        chk.violation("outcome-changed:" + name, dict(desc, before=sa, after=sb)); return
    if sa != "ok":
        return
    if name in DEFBALLS:
        # the implementation accepts shapes that are cyclic / tangential only up to its residual tolerance and then returns a
        # least-squares ball anchored at the first vertex: that ball is not the ball of the definition, it depends on the vertex
        # order, and no covariance law applies to it.  Judged only when the returned ball meets the definition to rounding.
        dev = ball_deviation(a, va, name)
        if 1e-9 < dev <= 1e-3:
            chk.count("ball-only-within-tolerance(not judged)")
            return
    size = s * (1 + float(np.max(np.abs(np.asarray(a.vertices))))) + float(np.linalg.norm(t))
    if not close(float(vb.radius), float(va.radius) * s, scale=size) or not close(np.asarray(vb.center, float), s * R @ np.asarray(va.center, float) + t, scale=size):
        if name.startswith("minimal_bounding") and chk.is_known("miniball-randomised-solver"):
            # recorded known finding: one of the two balls fails the exact optimality certificate (randomised third-party solver)
            from .C13 import miniball_certificate
            oka = miniball_certificate(np.asarray(a.vertices, float), np.asarray(va.center, float), float(va.radius))[0]
            okb = miniball_certificate(np.asarray(b.vertices, float), np.asarray(vb.center, float), float(vb.radius))[0]
            if not (oka and okb):
                chk.known_finding("miniball-randomised-solver", "minimal bounding sphere/circle: the randomised third-party miniball solver occasionally returns a ball that is not minimal (or not enclosing) for an input on which a re-evaluation is right")
                chk.count("known:miniball")
                return
        chk.violation("not-covariant:" + name, dict(desc, before=[float(va.radius), np.asarray(va.center).tolist()], after=[float(vb.radius), np.asarray(vb.center).tolist()]))


def compare3d(chk, a, b, R, s, t, desc, rng):
    for name, p in (("volume", 3), ("surface_area", 2), ("iq", 0)):
        compare_scalar(chk, a, b, name, p, s, desc)
    if type(a).__name__ == "ConvexPolyhedron":
        for name, p in (("mean_curvature", 1), ("tau", 0), ("asphericity", 0)):
            compare_scalar(chk, a, b, name, p, s, desc)
        for name in ("minimal_centered_bounding_sphere", "maximal_centered_bounded_sphere"):
            compare_ball(chk, a, b, name, R, s, t, desc)
    for name in ("minimal_bounding_sphere", "circumsphere", "insphere"):
        compare_ball(chk, a, b, name, R, s, t, desc)
    sa, ca = get(a, "centroid"); sb, cb = get(b, "centroid")
    if sa != sb:
        if (chk.is_known("polytri-absolute-thresholds") and {sa, sb} == {"ok", "ValueError"}):
            chk.known_finding("polytri-absolute-thresholds", "a valid Polyhedron raises ValueError('Triangulation failed') after uniform down-scaling (polytri absolute thresholds)")
            chk.count("known:polytri"); return
        chk.violation("outcome-changed:centroid", dict(desc, before=sa, after=sb)); return
    if sa != "ok":
        return
    ca, cb = np.asarray(ca, float), np.asarray(cb, float)
    size = s * (float(np.max(np.abs(np.asarray(a.vertices)))) + 1e-300) + float(np.linalg.norm(t))
    if not close(cb, s * R @ ca + t, scale=size):
        chk.violation("not-covariant:centroid", dict(desc, before=ca.tolist(), after=cb.tolist(), expected=(s * R @ ca + t).tolist()))
    Ia, Ib = np.asarray(a.inertia_tensor, float), np.asarray(b.inertia_tensor, float)
    Ica, Icb = central(Ia, float(a.volume), ca), central(Ib, float(b.volume), cb)
    want = s ** 5 * R @ Ica @ R.T
    # the origin-frame tensor of b carries V |c|^2: judge the central part against that magnitude's rounding
    if not close(Icb, want, scale=float(np.max(np.abs(want))) + 1e-7 * float(np.max(np.abs(Ib)))):
        chk.violation("not-covariant:inertia_tensor", dict(desc, central_after=Icb.tolist(), expected=want.tolist()))
    # containment of transformed probe points
    V = np.asarray(a.vertices, float)
    c0 = V.mean(0)
    P = [c0, c0 + 0.5 * (V[0] - c0), c0 + 1.5 * (V[1] - c0), c0 + 0.9 * (V[2] - c0), V.max(0) + 1.0, c0 + 0.25 * (V[3 % len(V)] - c0) + 0.25 * (V[0] - c0)]
    # probes sharing coordinates with vertices in a's frame (where sign tie-breaking decides) - generic in b's frame
    nv = len(V)
    for _ in range(12):
        i, j, k = (int(x) for x in rng.integers(nv, size=3))
        mix = np.array([V[i, 0], V[j, 1], V[k, 2]])
        P.append(mix if rng.random() < 0.5 else np.array([V[i, 0], V[i, 1], 0.5 * (V[j, 2] + V[k, 2])]))
    P = np.array(P)
    st_tri, tris = C.excname(lambda: np.array(list(a._surface_triangulation()), float))
    if st_tri == "ok" and len(tris):
        dmin = np.array([min(point_tri_dist(p, tr) for tr in tris) for p in P])
    else:   # triangulation unavailable (recorded polytri finding): fan triangles of the faces
        Fa = [np.asarray(V)[list(map(int, f))] for f in a.faces]
        dmin = np.array([min(point_tri_dist(p, np.array([f[0], f[m], f[m + 1]])) for f in Fa for m in range(1, len(f) - 1)) for p in P])
    P = P[dmin > 1e-6 * (float(np.max(np.ptp(V, axis=0))) + 1e-300)]
    ia, ib = C.excname(a.is_inside, P), C.excname(b.is_inside, s * P @ R.T + t)
    if ia[0] != ib[0] or (ia[0] == "ok" and list(map(bool, ia[1])) != list(map(bool, ib[1]))):
        chk.violation("not-covariant:is_inside", dict(desc, before=None if ia[0] != "ok" else list(map(bool, ia[1])), after=None if ib[0] != "ok" else list(map(bool, ib[1])), outcomes=[ia[0], ib[0]]))
    # form factor: F_b(q) = s^3 F_a(s R^T q) exp(-i q.t), at moderate q
    diam = float(np.max(np.linalg.norm(V - c0, axis=1))) * 2
    Qb = np.array([[0.7, -0.4, 0.9], [0.0, 1.3, 0.2], [2.0, 0.0, 0.0]]) / (diam * s)
    # ... and wave vectors exactly along two face normals of the transformed solid (for the original they are along ITS face normals up to
    # rounding): the face's own contribution is then its plain area in both frames
    Vb = np.asarray(b.vertices, float)
    for f in list(b.faces)[:2]:
        nb = np.cross(Vb[f[2]] - Vb[f[1]], Vb[f[0]] - Vb[f[1]])
        Qb = np.vstack([Qb, 1.5 * nb / np.linalg.norm(nb) / (diam * s)])
    fa = excmsg(lambda: np.asarray(a.compute_form_factor_amplitude(s * Qb @ R)))
    fb = excmsg(lambda: np.asarray(b.compute_form_factor_amplitude(Qb)))
    box = float(np.prod(np.ptp(np.asarray(b.vertices, float), axis=0)))
    if fa[0] != fb[0]:
        bad = fb if fb[0] != "ok" else fa
        if not sweep_known(chk, bad[0], bad[2], np.asarray((b if fb[0] != "ok" else a).vertices, float)):
            chk.violation("outcome-changed:form_factor", dict(desc, before=fa[0], after=fb[0]))
    elif fa[0] == "ok" and np.max(np.abs(fb[1] - s ** 3 * fa[1] * np.exp(-1j * Qb @ t))) > 1e-6 * max(float(b.volume), 1e-3 * box):
        # recorded known finding: per-face projected q under the absolute 1e-8 threshold (loses the face's phase)
        def under_threshold(sh, Q):
            Vv = np.asarray(sh.vertices, float)
            for f in sh.faces:
                nrm = np.cross(Vv[f[2]] - Vv[f[1]], Vv[f[0]] - Vv[f[1]]); nrm /= np.linalg.norm(nrm)
                qp = Q - np.outer(Q @ nrm, nrm)
                q2 = np.sum(qp * qp, axis=1)
                if np.any((q2 > 1e-20 * np.sum(Q * Q, axis=1)) & (q2 <= 1.0001e-8)):      # (a rounding residue of the projection is not "under the threshold")
                    return True
            return False
        if chk.is_known("zero-q-absolute-threshold") and (under_threshold(b, Qb) or under_threshold(a, s * Qb @ R)):
            chk.known_finding("zero-q-absolute-threshold", "form factor: a q whose projection into a face plane has |q_proj|^2 <= 1e-8 is treated as zero there (phase lost): not covariant under scaling / translation")
            chk.count("known:zero-q")
        else:
            chk.violation("not-covariant:form_factor", dict(desc, before=str(fa[1]), after=str(fb[1])))
    chk.sample(dict(cls=desc["cls"], kind=desc["kind"], scale=s, translation=t.tolist(), volume_before=float(a.volume), volume_after=float(b.volume)))


def compare2d(chk, a, b, R, s, t, desc, rng):
    for name, p in (("area", 2), ("perimeter", 1), ("iq", 0), ("polar_moment_inertia", None)):
        if p is None:
            continue
        compare_scalar(chk, a, b, name, p, s, desc)
    sa, va = get(a, "signed_area"); sb, vb = get(b, "signed_area")
    if sa == "ok" and sb == "ok" and not close(float(vb), float(va) * s * s):
        chk.violation("not-covariant:signed_area", dict(desc, before=float(va), after=float(vb)))
    for name in ("minimal_bounding_circle", "circumcircle", "incircle") + (("minimal_centered_bounding_circle", "maximal_centered_bounded_circle") if desc["cls"] == "ConvexPolygon" else ()):
        compare_ball(chk, a, b, name, R, s, t, desc)
    ca, cb = np.asarray(a.centroid, float), np.asarray(b.centroid, float)
    size = s * float(np.max(np.abs(np.asarray(a.vertices)))) + float(np.linalg.norm(t)) + 1e-300
    if not close(cb, s * R @ ca + t, scale=size):
        chk.violation("not-covariant:centroid", dict(desc, before=ca.tolist(), after=cb.tolist(), expected=(s * R @ ca + t).tolist()))
    Ia, Ib = np.asarray(a.inertia_tensor, float), np.asarray(b.inertia_tensor, float)
    Ica, Icb = central(Ia, float(a.area), ca), central(Ib, float(b.area), cb)
    want = s ** 4 * R @ Ica @ R.T
    if not close(Icb, want, scale=float(np.max(np.abs(want))) + 1e-7 * float(np.max(np.abs(Ib)))):
        chk.violation("not-covariant:inertia_tensor", dict(desc, central_after=Icb.tolist(), expected=want.tolist()))
    V = np.asarray(a.vertices, float)
    c0 = V.mean(0)
    P = np.array([c0, c0 + 0.5 * (V[0] - c0), c0 + 1.5 * (V[1] - c0), c0 + 0.9 * (V[2] - c0), V.max(0) + 1.0])
    P[-1, 2] = 0.0
    # probes within 1e-6 size of an edge are on the decision boundary: not judged
    E0, E1 = V, np.roll(V, -1, axis=0)
    def dist_edges(p):
        e = E1 - E0
        tt = np.clip(np.einsum("ij,ij->i", p - E0, e) / np.einsum("ij,ij->i", e, e), 0, 1)
        return float(np.min(np.linalg.norm(E0 + tt[:, None] * e - p, axis=1)))
    keep = [k for k in range(len(P)) if dist_edges(P[k]) > 1e-6 * float(np.max(np.ptp(V, axis=0)))]
    P = P[keep]
    ia, ib = C.excname(a.is_inside, P), C.excname(b.is_inside, s * P @ R.T + t)
    if ia[0] != ib[0] or (ia[0] == "ok" and list(map(bool, ia[1])) != list(map(bool, ib[1]))):
        chk.violation("not-covariant:is_inside", dict(desc, before=None if ia[0] != "ok" else list(map(bool, ia[1])), after=None if ib[0] != "ok" else list(map(bool, ib[1]))))
    if desc["cls"] == "ConvexPolygon" and abs(abs((R @ np.array([0, 0, 1.0]))[2]) - 1) < 1e-12 and (R @ np.array([0, 0, 1.0]))[2] > 0:
        # in-plane rotation: distance_to_surface(theta + phi) on g(x) = s * distance_to_surface(theta) on x
        phi = math.atan2(R[1, 0], R[0, 0])
        th = np.array([0.1, 1.0, 2.5, 4.0, 5.5, 0.0, math.pi / 2, math.pi, -math.pi / 2, 0.7, 2.0, 3.3, 4.6])
        da, db = C.excname(a.distance_to_surface, th.copy()), C.excname(b.distance_to_surface, th + phi)
        if da[0] != db[0] or (da[0] == "ok" and not close(db[1], s * np.asarray(da[1]))):
            chk.violation("not-covariant:distance_to_surface", dict(desc, before=None if da[0] != "ok" else np.asarray(da[1]).tolist(), after=None if db[0] != "ok" else np.asarray(db[1]).tolist()))
    chk.sample(dict(cls=desc["cls"], kind=desc["kind"], scale=s, area_before=float(a.area), area_after=float(b.area)))


def replay(chk, rep):
    return rep["detail"]
