"""C02 - general (non-convex) Polyhedron measures are exact."""
import numpy as np

from .. import common as C
from .. import gen

ASSUMPTIONS = [
    "polytri (ear clipping) is an oracle: its triangles are mapped back to vertex indices; the model is run both on that "
    "triangulation and on the model's own fan triangulation, which must agree (flip invariance on planar faces)",
    "faces are planar, convex and listed counter-clockwise seen from outside (the documented precondition); generators satisfy it by construction",
    "for voxel solids an independent closed-form oracle (sum of box integrals, mapped through the exact similarity placement) "
    "cross-checks the cone-moment specification itself",
    "implementation rounding is an allowance (1e-9 relative to the natural magnitude of each observable)",
]
RTOL = 1e-9


def exact_place(rng, V):
    """exact similarity x' = L x + t with L = k s M (M integer, M M^T = n^2 I)"""
    M, n = gen.random_rotation(rng, integer=True)
    k = 2.0 ** -int(np.ceil(np.log2(n))) if n > 1 else 1.0
    s = 2.0 ** int(rng.integers(-2, 3))
    diam = float(np.max(np.linalg.norm(V - V.mean(0), axis=1))) * 2
    t = gen.dy(rng.uniform(-1, 1, 3) * rng.choice([0.0, 1.0, 10.0]) * diam * s * (n * k), 4)
    if rng.random() < 0.2:
        # far from the origin compared with its size (2^15 .. 2^20 diameters along one or two axes, exactly representable): the triangulation
        # of the faces, which the centroid and the inertia tensor are built on, must still be that of the faces
        far = gen.dy(rng.uniform(-1, 1, 3), 3) * diam * s * 2.0 ** int(rng.integers(15, 21))
        far[int(rng.integers(3))] = 0.0
        t = t + far
    L = M * (k * s)
    return V @ L.T + t, L, t


def box_oracle(cells, L, t):
    """Exact moments of a union of unit cubes [i,i+1]^3 mapped through x' = L x + t (floats)."""
    vol = float(len(cells))
    m = np.zeros(3)
    P = np.zeros((3, 3))
    for c in cells:
        c = np.array(c, float)
        ctr = c + 0.5
        m += ctr
        P += np.outer(ctr, ctr) + np.eye(3) / 12.0
    dL = abs(np.linalg.det(L))
    V2 = dL * vol
    m2 = dL * (L @ m + vol * t)
    P2 = dL * (L @ P @ L.T + np.outer(L @ m, t) + np.outer(t, L @ m) + vol * np.outer(t, t))
    I2 = np.trace(P2) * np.eye(3) - P2
    return V2, m2 / V2, I2


def observe(V, F):
    import coxeter

    p = coxeter.shapes.Polyhedron(V, [np.array(f) for f in F])
    vmap = {tuple(v): i for i, v in enumerate(p.vertices)}
    tris = [[vmap[tuple(v)] for v in tri] for tri in p._surface_triangulation()]
    fa = np.array(p.get_face_area(), float)
    o = dict(volume=float(p.volume), surface_area=float(p.surface_area),
             face_areas=fa, face_area_forms=C.face_area_forms(p, fa), centroid=np.array(p.centroid, float),
             inertia=np.array(p.inertia_tensor, float), tris=tris, vertices=np.array(p.vertices, float))
    o["float32_form"] = C.float32_probe(lambda v: coxeter.shapes.Polyhedron(v, [np.array(f) for f in F]), V)
    # a copy of the solid is a solid of its own with the same measures: resizing either leaves the other's measures alone
    o["copies"] = C.copy_probe(lambda: coxeter.shapes.Polyhedron(np.array(V, float), [np.array(f) for f in F]),
                               lambda s_: dict(volume=s_.volume, surface_area=s_.surface_area, centroid=s_.centroid, inertia=s_.inertia_tensor))
    # (last: this resizes p) the measures are those of the solid as it is now, also when they were asked for before a resize
    o["after_resize"] = C.resize_probe(p, lambda s_: coxeter.shapes.Polyhedron(np.array(s_.vertices), [np.array(f) for f in s_.faces]))
    return o


def run(chk):
    rng = chk.rng
    nm = 40 if chk.tier == "quick" else 500
    chk.notes["rule"] = ("closed oriented meshes: voxel solids (random connected 3-9 cells, U, C, frame with a hole, L), extruded simple "
                         "polygons with triangulated caps, radially perturbed triangulated hulls, Polyhedron copies of convex solids; "
                         "exact similarity placement (integer rotation, 2^k scale, offsets to 10 diameters); non-trivial = not star-shaped "
                         "about its centroid (some centred tetrahedron negatively oriented) or off-origin")
    cases, meta = [], []
    for _ in range(nm):
        kind, V, F, info = gen.closed_mesh(rng)
        if F is None:
            import coxeter
            cp = coxeter.shapes.ConvexPolyhedron(V)
            V, F = np.array(cp.vertices), [list(map(int, f)) for f in cp.faces]
        V2, L, t = exact_place(rng, V)
        st, o = C.excname(observe, V2, F)
        if st != "ok":
            # Faithful model of the recorded defect: polytri compares quantities of dimension length^4 /
            # length^2 with absolute constants (1e-6, allclose atol 1e-8), so a VALID mesh with small faces
            # raises ValueError while the same mesh scaled up by a power of two (exact) does not.
            rescued = False
            if st == "ValueError" and chk.is_known("polytri-absolute-thresholds"):
                for k in (4, 8, 12, 16):
                    st2, o2 = C.excname(observe, V2 * 2.0 ** k, F)
                    if st2 == "ok":
                        chk.known_finding("polytri-absolute-thresholds",
                                          "Polyhedron centroid/inertia/is_inside raise ValueError('Triangulation failed') on valid small-faced meshes "
                                          "(polytri absolute thresholds); same mesh scaled by 2^k succeeds")
                        V2, L, t, o, rescued = V2 * 2.0 ** k, L * 2.0 ** k, t * 2.0 ** k, o2, True
                        chk.count("rescaled-after-known-finding")
                        break
            if not rescued:
                chk.violation("query-raised", dict(kind=kind, vertices=V2.tolist(), faces=F, error=st))
                continue
        qs = C.flat(V2)
        i0 = len(cases)
        cases.append(C.encode_case("poly_faces", qs=qs, idx=F))
        cases.append(C.encode_case("fans", idx=F))
        meta.append(dict(kind=kind, V=V2, F=F, o=o, i0=i0, info=info, L=L, t=t))
    res = C.run_model(cases)
    # second round: moments on both triangulations, with the volume the code uses
    cases2 = []
    for m in meta:
        pf = res[m["i0"]]
        vol_code = sum(pf[0::3]) / 3
        m["vol_code"] = vol_code
        fans = [int(x) for x in res[m["i0"] + 1]]
        m["fans"] = [fans[i:i + 3] for i in range(0, len(fans), 3)]
        qs = C.flat(m["V"])
        m["j0"] = len(cases2)
        cases2.append(C.encode_case("poly_code", sc=[vol_code], qs=qs, idx=m["o"]["tris"]))
        cases2.append(C.encode_case("mesh_spec", qs=qs, idx=m["fans"]))
        cases2.append(C.encode_case("mesh_spec", qs=qs, idx=m["o"]["tris"]))
    res2 = C.run_model(cases2)
    nvm, okvm = C.vm_crosscheck(cases2[:3], res2[:3], "C02", limit=3)
    if not okvm:
        chk.violation("extraction-vs-vm_compute", dict(what="extracted binary and vm_compute disagree"), no_input=True)
    chk.notes["vm_crosschecked"] = nvm
    for m in meta:
        V, o, F = m["V"], m["o"], m["F"]
        R = float(np.max(np.linalg.norm(V, axis=1))) + 1e-300
        pf = res[m["i0"]]
        code, spec_fan, spec_impl = res2[m["j0"]], res2[m["j0"] + 1], res2[m["j0"] + 2]
        desc = dict(kind=m["kind"], vertices=V.tolist(), faces=F)
        if spec_fan[0] != 1 or spec_impl[0] != 1:
            chk.violation("triangulation-not-closed", dict(desc, what="fan or polytri triangulation is not a closed chain"))
            continue
        if len(o["tris"]) != sum(len(f) - 2 for f in F):
            chk.violation("polytri-count", dict(desc, ntris=len(o["tris"])))
        vol_s = C.fl(spec_fan[1]); cen_s = [C.fl(x) for x in spec_fan[2:5]]; I_s = [C.fl(x) for x in spec_fan[5:11]]
        # flip invariance: spec on polytri's triangulation == spec on the fan (exactly equal when faces are exactly planar)
        if not C.close([C.fl(x) for x in spec_impl[1:11]], [C.fl(x) for x in spec_fan[1:11]], 1e-12 * R ** 5):
            chk.violation("triangulation-dependence", dict(desc, what="cone moments differ between polytri and fan triangulations"))
        areas = [C.fl(pf[3 * k + 1]) * float(np.sqrt(C.fl(pf[3 * k + 2]))) for k in range(len(F))]
        # is it non-star-shaped? (some tetrahedron (centroid, tri) negatively oriented)
        c = np.array(cen_s)
        neg = any(np.linalg.det(V[t] - c) < 0 for t in m["fans"])
        chk.case(V.tolist(), neg or np.linalg.norm(V.mean(0)) > 1e-6)
        chk.count("kind:" + m["kind"]); chk.count("nonstar" if neg else "star")

        def cmp(name, impl, exact, scale):
            if not C.close(impl, exact, RTOL * scale):
                chk.violation(name, dict(desc, impl=np.asarray(impl).tolist(), exact=np.asarray(exact).tolist(), tol=RTOL * scale, nonstar=bool(neg)))
                return False
            return True

        cmp("volume", o["volume"], vol_s, R ** 3)
        cmp("volume-model", C.fl(m["vol_code"]), vol_s, 1e-3 * R ** 3)  # model of the code's formula vs spec
        cmp("face_areas", o["face_areas"], areas, R ** 2)
        for prob in o.get("face_area_forms", []):
            chk.violation("get_face_area-call-forms", dict(desc, what=prob)); break
        for prob in o.get("after_resize", []):
            chk.violation("measures-stale-after-resize", dict(desc, what=prob)); break
        for prob in o.get("float32_form", []):
            chk.violation("input-element-type-changes-measures", dict(desc, what=prob)); break
        for prob in o.get("copies", []):
            chk.violation("copy-not-an-independent-solid", dict(desc, what=prob)); break
        cmp("surface_area", o["surface_area"], sum(areas), R ** 2)
        cmp("centroid", o["centroid"], cen_s, max(R, R ** 4 / max(abs(vol_s), 1e-300)))
        cmp("inertia_tensor", C.sym6(o["inertia"]), I_s, R ** 5)
        # the Q-model of the code (signed Kallay) must equal the spec; the |det| variant differs exactly when non-star-shaped
        signed = [C.fl(x) for x in code[11:17]]
        if not C.close(signed, I_s, 1e-11 * R ** 5):
            chk.violation("model-self-check", dict(desc, what="signed Kallay model differs from the cone spec"))
        if "cells" in m["info"]:
            V2, c2, I2 = box_oracle(m["info"]["cells"], m["L"], m["t"])
            if not (abs(V2 - vol_s) <= 1e-9 * R ** 3 and C.close(c2, cen_s, 1e-9 * R * 100) and C.close(C.sym6(I2), I_s, 1e-9 * R ** 5)):
                chk.violation("spec-vs-box-oracle", dict(desc, box=[V2, c2.tolist(), C.sym6(I2)], spec=[vol_s, cen_s, I_s]), no_input=True)
            chk.count("box-oracle-checked")
        chk.sample(dict(kind=m["kind"], nverts=len(V), nfaces=len(F), nonstar=bool(neg), impl_volume=o["volume"], exact_volume=vol_s,
                        impl_Izz=float(o["inertia"][2, 2]), exact_Izz=I_s[2]))


def extra_coverage(chk):
    return dict(vm_compute_crosschecks=chk.notes.get("vm_crosschecked", 0))


def replay(chk, rep):
    d = rep["detail"]
    V = np.array(d["vertices"], float)
    o = observe(V, d["faces"])
    return dict(impl=dict(volume=o["volume"], centroid=o["centroid"].tolist(), inertia=o["inertia"].tolist()), exact=d.get("exact"))
