"""C03 - mutable shapes stay coherent under any history of mutations."""
import itertools

import numpy as np

from .. import common as C
from .. import shapes as Z

ASSUMPTIONS = [
    "the property's own oracle: after every prefix of a history every public observable of the mutated object is compared with the same observable of a "
    "freshly constructed shape type(obj)(current vertices[, faces][, normal][, radius]); observables are enumerated by reflection (plus is_inside on "
    "probe points, get_face_area, get_dihedral); face/plane/neighbour lists are compared modulo order and cyclic rotation (not direction)",
    "histories: exhaustive over the operation alphabet to depth 2 (quick) / 3 (thorough) from chiral off-origin base shapes of the six vertex-based "
    "classes, plus random walks of length 12/20; failing operations (bad targets) must leave the private state bit-for-bit unchanged",
    "relative tolerance 1e-8 (operations that move the shape and move it back differ in the last digits)",
]
RT, AT = 1e-8, 1e-9
TINY = 2.0 ** -20


# ----------------------------------------------------------------- operations
def COPY_DEEP(o):
    import copy
    return copy.deepcopy(o)


def COPY_PICKLE(o):
    import pickle
    return pickle.loads(pickle.dumps(o))


def ops_for(cls, unit=1.0):
    ops = []
    size_props = dict(
        Polygon=["area", "perimeter", "minimal_bounding_circle_radius"],
        ConvexPolygon=["area", "perimeter", "minimal_bounding_circle_radius", "minimal_centered_bounding_circle_radius", "maximal_centered_bounded_circle_radius"],
        ConvexSpheropolygon=["area", "perimeter", "radius"],
        Polyhedron=["volume", "surface_area", "minimal_bounding_sphere_radius"],
        ConvexPolyhedron=["volume", "surface_area", "minimal_bounding_sphere_radius", "minimal_centered_bounding_sphere_radius", "maximal_centered_bounded_sphere_radius"],
        ConvexSpheropolyhedron=["volume", "surface_area", "mean_curvature", "radius"],
    )[cls]
    for p in size_props:
        ops.append(("scale:" + p, lambda o, p=p: setattr(o, p, 2.0 * float(getattr(o, p)))))
    ops.append(("set:centroid", lambda o: setattr(o, "centroid", np.array([0.5, -1.25, 2.0]) * unit)))
    ops.append(("set:center", lambda o: setattr(o, "center", np.array([-3.0, 0.75, 0.5]) * unit)))
    if cls in ("Polyhedron", "ConvexPolyhedron"):
        ops.append(("diagonalize_inertia", lambda o: o.diagonalize_inertia()))
        ops.append(("sort_faces", lambda o: o.sort_faces()))
        ops.append(("read:edges", lambda o: o.edges))
    if cls == "Polyhedron":
        ops.append(("merge_faces", lambda o: o.merge_faces()))
    if cls != "ConvexSpheropolygon" or True:
        ops.append(("to_hoomd", lambda o: o.to_hoomd()))
    # reading everything (properties, structure, containment probes) is not a mutation - but it fills whatever a query memoises,
    # so that a later mutation which forgets to invalidate a memo shows
    ops.append(("read:observables", lambda o: full_observe(o, unit)))
    # the core of a spheropolytope is public (.polyhedron / .polygon): resizing it is a mutation of the spheropolytope as well
    if cls == "ConvexSpheropolyhedron":
        ops.append(("core:scale:volume", lambda o: setattr(o.polyhedron, "volume", 2.0 * float(o.polyhedron.volume))))
    if cls == "ConvexSpheropolygon":
        ops.append(("core:scale:area", lambda o: setattr(o.polygon, "area", 2.0 * float(o.polygon.area))))
    # the history goes on with an independent copy of the shape (deep copy / pickle round trip): the copy is a shape like any other
    ops.append(("copy:deepcopy", COPY_DEEP))
    ops.append(("copy:pickle", COPY_PICKLE))
    bad = dict(Polygon="area", ConvexPolygon="perimeter", ConvexSpheropolygon="radius", Polyhedron="volume",
               ConvexPolyhedron="surface_area", ConvexSpheropolyhedron="radius")[cls]
    ops.append(("bad:" + bad, lambda o, p=bad: setattr(o, p, -1.0)))
    # not-a-number is not a size either: refused, shape untouched (one op per class, cycling through its size properties by class name length)
    nanp = size_props[len(cls) % len(size_props)]
    ops.append(("bad:%s=nan" % nanp, lambda o, p=nanp: setattr(o, p, float("nan"))))
    if cls == "ConvexPolyhedron":
        ops.append(("bad:volume=nan", lambda o: setattr(o, "volume", float("nan"))))
    # a malformed centre (two numbers instead of three): refused, and the shape stays where it was
    if cls in ("Polygon", "ConvexPolygon", "ConvexSpheropolygon"):
        ops.append(("bad:centroid-2-vector", lambda o: setattr(o, "centroid", (0.5 * unit, -1.0 * unit))))
    return ops


def base(cls):
    import coxeter

    if cls.endswith("/tiny"):
        # the same scenario in a length unit of 2^-20 (an exact rescaling: coordinates, radius, later the assigned centres)
        o = base(cls[:-5])
        kw = dict(vertices=np.array(o.vertices, float) * TINY)
        if hasattr(o, "radius"):
            kw["radius"] = float(o.radius) * TINY
        if hasattr(o, "normal") and not hasattr(o, "faces") and not hasattr(o, "polyhedron"):
            kw["normal"] = np.array(o.normal, float)
        return type(o)(**kw)

    if cls == "Polygon/cw":      # a Polygon listed clockwise about an explicit normal (signed_area < 0)
        return Z.make("Polygon", opposing=True)[0]
    if cls == "Polyhedron/noflag":
        # quadrilateral faces, faces_are_convex left at its default (False): sort_faces / merge_faces are documented to raise ValueError -
        # and must then leave the polyhedron exactly as it was
        box = np.array([[0, 0, 0], [2, 0, 0], [2, 1.5, 0], [0, 1.5, 0], [0.25, 0, 1], [2.25, 0, 1], [2.25, 1.5, 1], [0.25, 1.5, 1]], float) + np.array([3.25, -2.5, 5.125])
        cb = coxeter.shapes.ConvexPolyhedron(box)
        return coxeter.shapes.Polyhedron(np.array(cb.vertices), [np.array(f) for f in cb.faces])

    if cls == "Polyhedron":
        # triangulated faces so that merge_faces has something to do, convex faces allowed
        cp = coxeter.shapes.ConvexPolyhedron(Z.chiral_solid() * np.array([1.0, 1.0, 1.0]) + np.array([3.25, -2.5, 5.125]))
        V = np.array(cp.vertices)
        # a prism-like solid with coplanar triangles: use a box with a chiral skew instead
        box = np.array([[0, 0, 0], [2, 0, 0], [2, 1.5, 0], [0, 1.5, 0], [0.25, 0, 1], [2.25, 0, 1], [2.25, 1.5, 1], [0.25, 1.5, 1]], float) + np.array([3.25, -2.5, 5.125])
        cb = coxeter.shapes.ConvexPolyhedron(box)
        tris = []
        for f in cb.faces:
            f = list(map(int, f))
            for k in range(1, len(f) - 1):
                tris.append(np.array([f[0], f[k], f[k + 1]]))
        return coxeter.shapes.Polyhedron(np.array(cb.vertices), tris)
    return Z.make(cls)[0]


def fresh_like(obj):
    import coxeter

    S = coxeter.shapes
    cls = type(obj).__name__
    V = np.array(obj.vertices, float).copy()
    if cls == "Polyhedron":
        return S.Polyhedron(V, [np.array(f).copy() for f in obj.faces], faces_are_convex=obj._faces_are_convex)
    if cls == "ConvexPolyhedron":
        return S.ConvexPolyhedron(V)
    if cls == "ConvexSpheropolyhedron":
        return S.ConvexSpheropolyhedron(V, obj.radius)
    if cls == "ConvexSpheropolygon":
        return S.ConvexSpheropolygon(V, obj.radius, normal=np.array(obj.normal, float).copy())
    return getattr(S, cls)(V, normal=np.array(obj.normal, float).copy())


# ----------------------------------------------------------------- observation
def cyc(f):
    f = [int(x) for x in f]
    k = f.index(min(f))
    return tuple(f[k:] + f[:k])


def structural(obj, unit=1.0):
    """order-insensitive canonical forms of the combinatorial observables"""
    out = {}
    if hasattr(obj, "faces"):
        faces = [cyc(f) for f in obj.faces]
        out["faces"] = sorted(faces)
        if hasattr(obj, "neighbors"):
            out["neighbors"] = sorted((faces[i], tuple(sorted(faces[int(j)] for j in nb))) for i, nb in enumerate(obj.neighbors))
        eq = np.array(obj.equations if hasattr(obj, "equations") else obj._equations, float)
        eq = eq / np.array([1.0, 1.0, 1.0, unit])
        out["face_planes"] = sorted((faces[i], tuple(np.round(eq[i], 7).tolist())) for i in range(len(faces)))
        try:
            out["face_areas"] = sorted((faces[i], round(float(a) / unit ** 2, 7)) for i, a in enumerate(obj.get_face_area()))
        except Exception as e:  # noqa: BLE001
            out["face_areas"] = ("exc", type(e).__name__)
        if hasattr(obj, "face_centroids"):
            fc = np.array(obj.face_centroids, float) / unit
            out["face_centroids"] = sorted((faces[i], tuple(np.round(fc[i], 7).tolist())) for i in range(len(faces)))
    return out


SKIP = {"faces", "neighbors", "equations", "normals", "face_centroids", "simplices", "polygon", "polyhedron", "gsd_shape_spec"}


def probes(obj):
    V = np.array(obj.vertices, float)
    c = V.mean(0)
    P = [c, c + 0.6 * (V[0] - c), c + 1.7 * (V[1] - c), c + 0.3 * (V[2] - c) + 0.2 * (V[0] - c), V.max(0) + 1.0]
    if type(obj).__name__ == "ConvexSpheropolyhedron":
        # points in the rounded layer above the interior of a face (inside the shape, outside the core) and just beyond it
        core = obj.polyhedron
        for f, n in list(zip(core.faces, np.asarray(core.normals, float)))[:3]:
            m = V[list(map(int, f))].mean(0)
            P += [m + 0.5 * float(obj.radius) * n, m + 1.5 * float(obj.radius) * n]
    return np.array(P)


def full_observe(obj, unit=1.0):
    o = Z.observe(obj, skip=SKIP)
    o.update(structural(obj, unit))
    if type(obj).__name__ in ("Polyhedron", "ConvexPolyhedron", "ConvexSpheropolyhedron", "Polygon", "ConvexPolygon"):
        try:
            P = probes(obj)
            if type(obj).__name__ in ("Polygon", "ConvexPolygon"):
                n = np.array(obj.normal, float)
                P = P - np.outer((P - np.array(obj.vertices)[0]) @ n, n)
            o["is_inside(probes)"] = [bool(x) for x in obj.is_inside(P)]
        except Exception as e:  # noqa: BLE001
            o["is_inside(probes)"] = ("exc", type(e).__name__)
    return o


def compare(chk, cls, hist, obj, unit=1.0):
    try:
        ref = fresh_like(obj)
    except Exception as e:  # noqa: BLE001
        chk.violation("fresh-construction-failed", dict(cls=cls, history=hist, error=type(e).__name__,
                                                        what="the mutated object's vertices no longer construct a shape of its class"))
        return False
    a, b = full_observe(obj, unit), full_observe(ref, unit)
    at = AT if unit == 1.0 else 0.0      # (scaled scenarios: relative comparison only)
    bad = []
    for k in b:
        if k not in a or not Z.values_close(a[k], b[k], RT, at):
            bad.append(k)
    # recorded known finding miniball-randomised-solver: the randomised third-party solver occasionally answers differently for the
    # same input; a miniball-based observable counts as stale only if it differs on every one of three re-evaluations
    for k in [k for k in bad if k.startswith("minimal_bounding")]:
        for _ in range(3):
            va, vb = C.excname(lambda: Z.canon(getattr(obj, k))), C.excname(lambda: Z.canon(getattr(ref, k)))
            if va[0] == "ok" and vb[0] == "ok" and Z.values_close(va[1], vb[1], RT, at):
                bad.remove(k)
                if chk.is_known("miniball-randomised-solver"):
                    chk.count("known:miniball(re-evaluation agrees)")
                break
    if bad:
        k = bad[0]
        chk.violation("stale:" + "+".join(sorted(bad)[:4]), dict(cls=cls, history=hist, observable=k, mutated=str(a.get(k))[:400], fresh=str(b[k])[:400],
                                                                 all_stale=sorted(bad)))
        return False
    return True


def run(chk):
    rng = chk.rng
    depth = 2 if chk.tier == "quick" else 3
    nwalk, lwalk = (6, 12) if chk.tier == "quick" else (40, 20)
    chk.notes["rule"] = ("all operation sequences up to depth %d over the per-class alphabet (size setters x2, centroid/center assignment, rounding radius, "
                         "diagonalize_inertia, sort_faces, merge_faces, edges read, to_hoomd, one refused assignment) from chiral off-origin base shapes of the "
                         "six vertex-based classes, plus %d random walks of length %d per class; every prefix is judged; non-trivial = history of length >= 2 "
                         "or containing a reorientation/merge/refused op" % (depth, nwalk, lwalk))
    chk.notes["exhaustive"] = True
    # any size: the convex classes are also run in a length unit of 2^-20 (the general classes reach the recorded polytri thresholds there)
    tiny = [c + "/tiny" for c in ("ConvexPolyhedron", "ConvexSpheropolyhedron", "ConvexPolygon", "ConvexSpheropolygon")]
    for cls in list(Z.VERTEX_CLASSES) + ["Polygon/cw", "Polyhedron/noflag"] + tiny:
        unit = TINY if cls.endswith("/tiny") else 1.0
        ops = ops_for(cls.split("/")[0], unit)
        seqs = []
        for d in range(1, depth + 1):
            seqs += list(itertools.product(range(len(ops)), repeat=d))
        for _ in range(nwalk):
            seqs.append(tuple(int(x) for x in rng.integers(len(ops), size=lwalk)))
        failed_prefixes = set()
        for seq in seqs:
            if any(seq[:k] in failed_prefixes for k in range(1, len(seq))):
                continue
            obj = base(cls)
            chk._c03_originals = []
            hist = []
            ok = True
            for pos, oi in enumerate(seq):
                name, fn = ops[oi]
                hist.append(name)
                snap = Z.state_snapshot(obj)
                if name.startswith("copy:"):
                    st, cp = C.excname(fn, obj)
                    if st == "ok":
                        # the original is untouched by being copied, and by what happens to the copy afterwards (checked at the end of the step
                        # for the original kept here); the history continues on the copy
                        same, why = Z.snapshots_equal(snap, Z.state_snapshot(obj))
                        if not same:
                            chk.violation("copy-changed-the-original", dict(cls=cls, history=list(hist), attribute=why)); ok = False
                        originals = getattr(chk, "_c03_originals", [])
                        originals.append((obj, snap, list(hist)))
                        chk._c03_originals = originals[-4:]
                        obj = cp
                else:
                    st, _ = C.excname(fn, obj)
                for o0, s0, h0 in getattr(chk, "_c03_originals", []):
                    same0, why0 = Z.snapshots_equal(s0, Z.state_snapshot(o0))
                    if not same0:
                        chk.violation("copy-not-independent", dict(cls=cls, copied_after=h0, history=list(hist), attribute=why0,
                                                                   what="an operation on the copy changed the shape it was copied from")); ok = False
                        chk._c03_originals = []
                        break
                if name.startswith("bad:") or (cls == "Polyhedron/noflag" and name in ("sort_faces", "merge_faces")):
                    if st != "ValueError":
                        chk.violation("bad-target-not-refused", dict(cls=cls, history=list(hist), outcome=st)); ok = False
                    same, why = Z.snapshots_equal(snap, Z.state_snapshot(obj))
                    if not same:
                        chk.violation("exception-not-atomic", dict(cls=cls, history=list(hist), attribute=why)); ok = False
                elif st != "ok":
                    same, why = Z.snapshots_equal(snap, Z.state_snapshot(obj))
                    if not same:
                        chk.violation("exception-not-atomic", dict(cls=cls, history=list(hist), attribute=why, error=st)); ok = False
                    else:
                        chk.violation("operation-raised", dict(cls=cls, history=list(hist), error=st)); ok = False
                # only judge the last step of a sequence whose proper prefixes were judged before (exhaustive part) or every step (walks)
                if ok and (len(seq) > depth or pos == len(seq) - 1):
                    ok = compare(chk, cls, list(hist), obj, unit)
                if not ok:
                    failed_prefixes.add(tuple(seq[: pos + 1]))
                    break
            chk.case([cls, list(seq)], len(seq) >= 2 or any(x in ("diagonalize_inertia", "merge_faces", "sort_faces") or x.startswith("bad:") for x in hist))
            chk.count("cls:" + cls)
            if len(seq) <= 2:
                chk.sample(dict(cls=cls, history=hist), cap=8)


def replay(chk, rep):
    d = rep["detail"]
    cls = d["cls"]
    unit = TINY if cls.endswith("/tiny") else 1.0
    ops = dict(ops_for(cls.split("/")[0], unit))
    obj = base(cls)
    out = []
    for name in d["history"]:
        if name.startswith("copy:"):
            st, cp = C.excname(ops[name], obj)
            obj = cp if st == "ok" else obj
        else:
            st, _ = C.excname(ops[name], obj)
        out.append((name, st))
    ref = fresh_like(obj)
    a, b = full_observe(obj, unit), full_observe(ref, unit)
    diff = {k: (str(a.get(k))[:200], str(b[k])[:200]) for k in b if not Z.values_close(a.get(k), b[k], RT, AT if unit == 1.0 else 0.0)}
    return dict(outcomes=out, differing=diff)
