"""C10 - Circle / Ellipse / Sphere / Ellipsoid measures equal their defining integrals."""
import itertools
import math
import os
import subprocess

import numpy as np

from .. import common as C
from .. import gen

ASSUMPTIONS = [
    "Gen/Scalars.v is regenerated from /repo by harness/translate/scalars.py (fail-closed ast walker, ~250 lines, trusted) and the theorems of "
    "Properties/C10.v are re-checked against it on every run",
    "ellipse perimeter and ellipsoid surface area (elliptic integrals) are compared with independent adaptive / Gauss-Legendre quadrature of the "
    "defining arc-length / surface integrals in the harness (trusted numerics); a sample of ellipse perimeters is additionally enclosed by the "
    "Coq Interval library's `integral` tactic (kernel-checked enclosure of the arc-length integral)",
    "scipy.special.ellipe/ellipeinc/ellipkinc are oracles; their values are only trusted through the quadrature comparison",
    "2-D inertia tensor convention diag(0,0,I_x+I_y) is the library's documented convention and is taken as the specification",
]
RT = 1e-11


def axes_samples(rng, n, k):
    out = []
    grid = [10.0 ** e for e in (-3, -2, -1, 0, 1, 2, 3)]
    for _ in range(n):
        mode = rng.choice(["grid", "rand", "tie", "neartie"])
        if mode == "grid":
            ax = [float(rng.choice(grid)) * float(rng.choice([1.0, 2.5, 7.0])) for _ in range(k)]
        elif mode == "rand":
            ax = [float(10 ** rng.uniform(-3, 3)) for _ in range(k)]
        else:
            base = float(10 ** rng.uniform(-3, 3))
            ax = [base] * k
            if mode == "neartie":
                for j in range(k):
                    ax[j] = base * (1 + float(rng.choice([0, 1, -1])) * 2.0 ** -int(rng.integers(10, 52)))
            if k == 3 and rng.random() < 0.5:
                ax[int(rng.integers(3))] = float(10 ** rng.uniform(-3, 3))
        ax = [min(max(x, 1e-3), 1e3) for x in ax]
        out.append(ax)
    return out


def ellipse_perimeter_quad(a, b):
    from scipy.integrate import quad

    f = lambda t: math.sqrt((a * math.sin(t)) ** 2 + (b * math.cos(t)) ** 2)
    # the integrand has a kink of width min(a,b)/max(a,b) at one end: break the interval there (without the break points the
    # adaptive rule reports 1e-13 but is off by 7e-10 at aspect ratio 100 - seen in a thorough run and corrected, DESIGN 8.5)
    pts = sorted({min(max(math.atan2(k * b, a), 1e-12), math.pi / 2 - 1e-12) for k in (1 / 9, 1 / 3, 1, 3, 9)})
    v, err = quad(f, 0, math.pi / 2, epsabs=0, epsrel=1e-13, limit=2000, points=pts)
    return 4 * v, 4 * err


_GL = {}


def ellipsoid_area_quad(a, b, c, n=300):
    if n not in _GL:
        x, w = np.polynomial.legendre.leggauss(n)
        _GL[n] = (x, w)
    x, w = _GL[n]
    # octant: phi in [0,pi/2], theta in [0,pi/2]; substitute to tame needle/disc peaks is not attempted
    ph = (x + 1) * math.pi / 4
    th = (x + 1) * math.pi / 4
    wp = w * math.pi / 4
    PH, TH = np.meshgrid(ph, th, indexing="ij")
    f = np.sin(PH) * np.sqrt((b * c * np.sin(PH) * np.cos(TH)) ** 2 + (a * c * np.sin(PH) * np.sin(TH)) ** 2 + (a * b * np.cos(PH)) ** 2)
    return 8 * float(wp @ f @ wp)


def run(chk):
    import coxeter

    rng = chk.rng
    n = 120 if chk.tier == "quick" else 3000
    chk.notes["rule"] = ("(a,b[,c]) on a log grid 1e-3..1e3 with multipliers, random log-uniform, ties and near-ties (relative gaps 2^-10..2^-52), "
                         "every ordering of the axes, centres with distinct components within 10 diameters; non-trivial = unequal axes or "
                         "off-origin centre")
    cases, meta = [], []
    for ax in axes_samples(rng, n, 3):
        orders = list(itertools.permutations(ax)) if chk.tier == "thorough" else [tuple(ax), tuple(ax[::-1]), (ax[1], ax[2], ax[0])]
        for (a, b, c) in dict.fromkeys(orders):
            d = 2 * max(a, b, c)
            cen = gen.dy(rng.uniform(-10, 10, 3) * d * rng.choice([0.0, 0.1, 1.0]), 30)
            if len(set(cen.tolist())) < 3 and np.any(cen != 0):
                cen = cen + np.array([0.0, d / 8, d / 4])
            cases.append(C.encode_case("curved", sc=[a, b, c, cen[0], cen[1], cen[2]]))
            meta.append((a, b, c, cen))
    scalar_forms(chk, coxeter)
    res = C.run_model(cases)
    nvm, okvm = C.vm_crosscheck(cases[:10], res[:10], "C10", limit=10)
    if not okvm:
        chk.violation("extraction-vs-vm_compute", dict(what="extracted binary and vm_compute disagree"), no_input=True)
    chk.notes["vm_crosschecked"] = nvm
    PI = math.pi
    interval_samples = []
    for (a, b, c, cen), r in zip(meta, res):
        f = [C.fl(x) for x in r]
        area, ecc2 = PI * f[0], f[1]
        ms = [PI * x for x in f[2:5]]      # code as found (swapped parallel axis)
        mf = [PI * x for x in f[5:8]]      # defining integrals
        polar = PI * f[8]
        vol, sarea = PI * f[9], PI * f[10]
        I6 = [PI * x for x in f[11:17]]
        desc = dict(a=a, b=b, c=c, center=cen.tolist())
        chk.case([a, b, c, cen.tolist()], not (a == b == c) or np.any(cen != 0))
        chk.count("tie" if a == b == c else ("neartie" if max(a, b, c) / min(a, b, c) < 1.001 else "generic"))

        def cmp(name, impl, exact, rel=RT, scale=None):
            impl, exact = np.asarray(impl, float), np.asarray(exact, float)
            s = float(np.max(np.abs(exact))) if scale is None else scale
            if not np.all(np.abs(impl - exact) <= rel * s + 1e-300):
                chk.violation(name, dict(desc, impl=impl.tolist(), exact=exact.tolist(), tol=rel * s))
                return False
            return True

        # ---- Circle (radius a) and Ellipse (a, b)
        circ = coxeter.shapes.Circle(a, cen)
        ell = coxeter.shapes.Ellipse(a, b, cen)
        cmp("circle.area", circ.area, PI * a * a)
        cmp("circle.perimeter", [circ.perimeter, circ.circumference], [2 * PI * a] * 2)
        cmp("circle.eccentricity+iq", [circ.eccentricity, circ.iq], [0, 1], scale=1)
        cmp("ellipse.area", ell.area, area)
        # e = sqrt(1 - (b/a)^2): the subtraction is exact to ~2u, so e carries an absolute error ~ 2u / e (near-ties cannot be judged finer)
        e_exact = math.sqrt(max(ecc2, 0.0))
        cmp("ellipse.eccentricity", ell.eccentricity, e_exact, rel=max(1e-9 if ecc2 < 1e-6 else RT, 1e-15 / max(e_exact, 1e-8)), scale=1 if ecc2 > 1e-20 else 1e8)
        Pq, Perr = ellipse_perimeter_quad(a, b)
        cmp("ellipse.perimeter", [ell.perimeter, ell.circumference], [Pq, Pq], rel=1e-10)
        iq_exact = min(4 * PI * area / Pq ** 2, 1.0)
        cmp("ellipse.iq", ell.iq, iq_exact, rel=1e-9, scale=1)
        if ell.iq > 1 + 1e-15:
            chk.violation("ellipse.iq>1", dict(desc, impl=float(ell.iq)))
        for shp, nm, aa, bb in ((circ, "circle", a, a), (ell, "ellipse", a, b)):
            if nm == "circle":
                A = PI * a * a
                sp = [A / 4 * a * a + A * cen[1] ** 2, A / 4 * a * a + A * cen[0] ** 2, A * cen[0] * cen[1]]
                fm = [A / 4 * a * a + A * cen[0] ** 2, A / 4 * a * a + A * cen[1] ** 2, A * cen[0] * cen[1]]
            else:
                sp, fm = mf, ms
            got = [float(x) for x in shp.planar_moments_inertia]
            sc = max(abs(x) for x in sp) + 1e-300
            if not np.all(np.abs(np.array(got) - np.array(sp)) <= RT * sc):
                if chk.is_known("planar-moments-parallel-axis-swapped") and np.all(np.abs(np.array(got) - np.array(fm)) <= RT * sc):
                    chk.known_finding("planar-moments-parallel-axis-swapped",
                                      "Circle/Ellipse.planar_moments_inertia add A*cx^2 to I_x and A*cy^2 to I_y (parallel-axis terms swapped)")
                    chk.count("known:moments-swapped")
                else:
                    chk.violation(nm + ".planar_moments_inertia", dict(desc, impl=got, exact=sp, faithful_defective_model=fm))
            pol = sp[0] + sp[1]
            cmp(nm + ".polar_moment_inertia", shp.polar_moment_inertia, pol)
            cmp(nm + ".inertia_tensor", C.sym6(shp.inertia_tensor), [0, 0, pol, 0, 0, 0], scale=pol)
        # ---- Sphere (radius a) and Ellipsoid
        sph = coxeter.shapes.Sphere(a, cen)
        eld = coxeter.shapes.Ellipsoid(a, b, c, cen)
        Vs = 4 / 3 * PI * a ** 3
        cmp("sphere.volume", sph.volume, Vs)
        cmp("sphere.surface_area", sph.surface_area, sarea)
        cmp("sphere.iq", sph.iq, 1, scale=1)
        cc = float(cen @ cen)
        Is = [2 / 5 * Vs * a * a + Vs * (cc - cen[k] ** 2) for k in range(3)] + [-Vs * cen[0] * cen[1], -Vs * cen[0] * cen[2], -Vs * cen[1] * cen[2]]
        cmp("sphere.inertia_tensor", C.sym6(sph.inertia_tensor), Is, scale=max(abs(x) for x in Is))
        cmp("ellipsoid.volume", eld.volume, vol)
        cmp("ellipsoid.inertia_tensor", C.sym6(eld.inertia_tensor), I6, scale=max(abs(x) for x in I6))
        # the measures are those of the shape, whatever was asked of it before: every query that is not an assignment (exports, containment,
        # distance, form factor) is made once, and the measures are read again
        for nm, shp in (("circle", circ), ("ellipse", ell), ("sphere", sph), ("ellipsoid", eld)):
            names = [n for n in ("area", "volume", "perimeter", "surface_area", "centroid", "planar_moments_inertia", "polar_moment_inertia", "inertia_tensor", "iq", "eccentricity")
                     if hasattr(type(shp), n)]
            before = {n: C.excname(lambda n=n: np.asarray(getattr(shp, n), float).copy()) for n in names}
            for qn, qf in (("to_hoomd", lambda: shp.to_hoomd()), ("is_inside", lambda: shp.is_inside(np.array([[0.1, 0.2, 0.3], cen + 0.01]))),
                           ("distance_to_surface", lambda: shp.distance_to_surface(np.array([0.3, 2.0]))),
                           ("compute_form_factor_amplitude", lambda: shp.compute_form_factor_amplitude(np.array([[0.3, 0.1, -0.2]]))),
                           ("repr", lambda: repr(shp)), ("to_json", lambda: shp.to_json(["centroid"]))):
                C.excname(qf)
            for n in names:
                st2, v2 = C.excname(lambda n=n: np.asarray(getattr(shp, n), float))
                if st2 != before[n][0] or (st2 == "ok" and not np.array_equal(v2, before[n][1])):
                    chk.violation("%s.%s-changed-by-a-query" % (nm, n), dict(desc, before=None if before[n][0] != "ok" else before[n][1].tolist(),
                                                                           after=None if st2 != "ok" else v2.tolist()))
                    break
        # ... and whatever was ASSIGNED to it before: after an assignment to a size property (area, volume, perimeter, the radii of its
        # bounding / bounded balls, ...) the shape is the one with all axes scaled by the factor that realises the target, and every measure
        # is the closed form of that shape (compared with a freshly constructed one; the exponent of each property is measured on fresh shapes)
        if len({a, b, c}) == 3 and max(a, b, c) / min(a, b, c) < 100 and chk.hist.get("after-assignment:shapes", 0) < (5 if chk.tier == "quick" else 60):
            chk.count("after-assignment:shapes")
            after_assignment(chk, coxeter, a, b, c, cen, desc)
        # the centre given as integers (tuple of ints / integer array) means the same centre as the float array
        ci = [int(round(x)) for x in cen[:3]]
        if any(ci):
            cf = np.array(ci, float)
            for nm, mk in (("Sphere", lambda cc_: coxeter.shapes.Sphere(a, cc_)), ("Ellipsoid", lambda cc_: coxeter.shapes.Ellipsoid(a, b, c, cc_)),
                           ("Circle", lambda cc_: coxeter.shapes.Circle(a, cc_)), ("Ellipse", lambda cc_: coxeter.shapes.Ellipse(a, b, cc_))):
                ref_sh = mk(cf.copy())
                for form, arg in (("tuple of ints", tuple(ci)), ("integer array", np.array(ci))):
                    st, sh_i = C.excname(mk, arg)
                    if st != "ok":
                        chk.violation(nm + ".integer-centre-rejected", dict(desc, form=form, centre=ci, error=st)); break
                    for attr in ("inertia_tensor", "planar_moments_inertia", "polar_moment_inertia", "centroid"):
                        if not hasattr(type(ref_sh), attr):
                            continue
                        x, y = np.asarray(getattr(sh_i, attr), float), np.asarray(getattr(ref_sh, attr), float)
                        if x.shape != y.shape or not np.allclose(x, y, rtol=1e-13, atol=1e-13 * (1 + float(np.max(np.abs(y))))):
                            chk.violation("%s.%s-integer-centre" % (nm.lower(), attr), dict(desc, form=form, centre=ci, impl=x.tolist(), with_float_centre=y.tolist()))
                            break
        ratio = max(a, b, c) / min(a, b, c)
        S_impl = float(eld.surface_area)
        if ratio <= 30:
            Sq = ellipsoid_area_quad(a, b, c)
            cmp("ellipsoid.surface_area", S_impl, Sq, rel=1e-8)
            iq = 36 * PI * vol ** 2 / Sq ** 3
            cmp("ellipsoid.iq", eld.iq, iq, rel=1e-7, scale=1)
            if eld.iq > 1 + 1e-9:
                chk.violation("ellipsoid.iq>1", dict(desc, impl=float(eld.iq)))
        else:
            # needle / disc limits: elementary two-sided bounds of the surface integral
            lo_ax = sorted([a, b, c])
            lo = 2 * PI * lo_ax[1] * lo_ax[2] * 0.5
            hi = 4 * PI * lo_ax[2] * lo_ax[1] * 1.0001 + 4 * PI * lo_ax[2] * lo_ax[0]
            if not (lo <= S_impl <= hi) or not math.isfinite(S_impl):
                chk.violation("ellipsoid.surface_area-bounds", dict(desc, impl=S_impl, lo=lo, hi=hi))
            chk.count("ellipsoid-area:bounds-only(aspect>30)")
        if abs(ratio - 1) > 1e-3 and ratio < 8 and len(interval_samples) < (6 if chk.tier == "quick" else 40) and max(a, b) / min(a, b) < 8 and a != b:
            interval_samples.append((a, b, float(ell.perimeter)))
        chk.sample(dict(a=a, b=b, c=c, center=cen.tolist(), impl_ellipse_perimeter=float(ell.perimeter), quad_perimeter=Pq,
                        impl_ellipsoid_area=S_impl))
    ncert, okcert, log = interval_certify(interval_samples)
    chk.notes["interval_certified"] = ncert
    if not okcert:
        chk.violation("ellipse.perimeter-interval", dict(what="Coq Interval could not certify |arc-length integral - implementation| <= 1e-9 rel", log=log[-1500:],
                                                          samples=interval_samples), no_input=True)


def scalar_forms(chk, coxeter):
    """Integral radii / semi-axes given as a Python int, a numpy integer, a 0-d array (float or integer) mean the same shape as the float:
    every measure agrees, at construction and as the target of an assignment.  (A numpy float32 scalar is not included: the closed forms
    are then evaluated in single precision by numpy's promotion rules - the parameter's own precision; see DESIGN 8.6.)"""
    S = coxeter.shapes
    forms = {"int": int, "numpy.int64": np.int64, "0-d float array": lambda x: np.array(float(x)), "0-d integer array": lambda x: np.array(int(x))}
    cen = [0.5, -1.25, 2.0]
    mk = {"Circle": (lambda f: S.Circle(f(3), cen), ("radius",)), "Ellipse": (lambda f: S.Ellipse(f(3), f(2), cen), ("a", "b")),
          "Sphere": (lambda f: S.Sphere(f(3), cen), ("radius",)), "Ellipsoid": (lambda f: S.Ellipsoid(f(3), f(2), f(5), cen), ("a", "b", "c"))}
    names = ("area", "volume", "perimeter", "surface_area", "iq", "eccentricity", "polar_moment_inertia", "inertia_tensor", "planar_moments_inertia",
             "radius", "a", "b", "c")

    def meas(o):
        out = {}
        for n in names:
            if hasattr(type(o), n):
                st, v = C.excname(lambda: np.asarray(getattr(o, n), float))
                out[n] = (st, v)
        return out

    def differs(x, y):
        for n in y:
            if x[n][0] != y[n][0] or (y[n][0] == "ok" and (x[n][1].shape != y[n][1].shape or not np.allclose(x[n][1], y[n][1], rtol=1e-13, atol=0))):
                return n
        return None
    for cls, (m, params) in mk.items():
        ref = meas(m(float))
        for fn, f in forms.items():
            st, o = C.excname(m, f)
            chk.count("scalar-form:" + fn)
            if st != "ok":
                chk.violation("%s.parameter-form-rejected" % cls.lower(), dict(cls=cls, form=fn, error=st)); continue
            n = differs(meas(o), ref)
            if n:
                chk.violation("%s.%s-parameter-form" % (cls.lower(), n), dict(cls=cls, form=fn, impl=str(meas(o)[n][1]), with_float_parameters=str(ref[n][1]))); continue
            # ... and as the target of an assignment to each parameter
            for prm in params:
                o1, o2 = m(float), m(float)
                st1, _ = C.excname(setattr, o1, prm, f(4))
                st2, _ = C.excname(setattr, o2, prm, 4.0)
                n = None if st1 != "ok" or st2 != "ok" else differs(meas(o1), meas(o2))
                if st1 != st2 or n:
                    chk.violation("%s.%s-assigned-as-%s" % (cls.lower(), prm, fn), dict(cls=cls, form=fn, outcomes=[st1, st2], differing=n)); break


def after_assignment(chk, coxeter, a, b, c, cen, desc):
    from .. import shapes as Z
    S = coxeter.shapes
    mk = {"circle": lambda s: S.Circle(a * s, cen.copy()), "ellipse": lambda s: S.Ellipse(a * s, b * s, cen.copy()),
          "sphere": lambda s: S.Sphere(a * s, cen.copy()), "ellipsoid": lambda s: S.Ellipsoid(a * s, b * s, c * s, cen.copy())}
    names = ("area", "volume", "perimeter", "surface_area", "centroid", "polar_moment_inertia", "inertia_tensor", "iq", "eccentricity")
    for nm, f in mk.items():
        base = f(1.0)
        for prop in Z.settable_properties(base):
            if prop in ("centroid", "center", "a", "b", "c"):
                continue
            st, cur = C.excname(lambda: float(getattr(base, prop)))
            st2, dbl = C.excname(lambda: float(getattr(f(2.0), prop)))
            if st != "ok" or st2 != "ok" or not cur > 0 or not dbl > 0:
                continue
            d = int(round(math.log2(dbl / cur)))
            if d not in (1, 2, 3) or abs(dbl / cur - 2.0 ** d) > 1e-9 * 2.0 ** d:
                continue
            tgt = cur * 2.5
            obj, ref = f(1.0), f(2.5 ** (1.0 / d))
            for n in names:          # (asked for before the assignment as well)
                C.excname(getattr, obj, n)
            st3, _ = C.excname(setattr, obj, prop, tgt)
            if st3 != "ok":
                chk.count("after-assignment:setter-raised(not judged here)")
                continue
            chk.count("after-assignment")
            for n in (prop,) + names:
                if not hasattr(type(obj), n):
                    continue
                (sa, x), (sb, y) = C.excname(lambda: np.asarray(getattr(obj, n), float)), C.excname(lambda: np.asarray(getattr(ref, n), float))
                if sb != "ok":
                    continue
                if sa != "ok" or x.shape != y.shape or not np.allclose(x, y, rtol=1e-9, atol=1e-9 * float(np.max(np.abs(y))) + 1e-300):
                    chk.violation("%s.%s-after-assigning-%s" % (nm, n, prop), dict(desc, assigned=tgt, was=cur, impl=None if sa != "ok" else x.tolist(),
                                                                                  shape_with_that_value=y.tolist(), outcome=sa))
                    break


def interval_certify(samples):
    """Kernel-checked enclosures: the arc-length integral of the ellipse lies within 1e-8 (relative) of the implementation's perimeter."""
    if not samples:
        return 0, True, ""
    lines = ["From Coq Require Import Reals.", "From Coquelicot Require Import Coquelicot.", "From Interval Require Import Tactic.",
             "Local Open Scope R_scope.", ""]

    def lit(x):
        n, d = float(x).as_integer_ratio()
        return "(%d / %d)" % (n, d)

    for k, (a, b, p) in enumerate(samples):
        eps = 1e-8 * p
        lines.append("Goal %s <= RInt (fun t => sqrt ((%s * sin t) ^ 2 + (%s * cos t) ^ 2)) 0 (2 * PI) <= %s." % (lit(p - eps), lit(a), lit(b), lit(p + eps)))
        lines.append("Proof. integral with (i_fuel 400, i_degree 12, i_prec 60). Qed.")
    d = os.path.join(C.BUILD, "interval")
    os.makedirs(d, exist_ok=True)
    path = os.path.join(d, "C10_perimeter_%d.v" % os.getpid())      # (per process: concurrent runs must not share the file)
    open(path, "w").write("\n".join(lines) + "\n")
    p = subprocess.run(["timeout", "900", "coqc", path], capture_output=True, text=True, cwd=d)
    return len(samples), p.returncode == 0, p.stdout + p.stderr


def extra_coverage(chk):
    return dict(vm_compute_crosschecks=chk.notes.get("vm_crosschecked", 0), interval_certified_perimeters=chk.notes.get("interval_certified", 0))


def replay(chk, rep):
    import coxeter

    d = rep["detail"]
    e = coxeter.shapes.Ellipsoid(d["a"], d["b"], d["c"], d["center"])
    el = coxeter.shapes.Ellipse(d["a"], d["b"], d["center"])
    return dict(volume=e.volume, surface_area=e.surface_area, ellipse_perimeter=el.perimeter, moments=list(el.planar_moments_inertia), recorded=d)
