"""C15 - constructors accept valid geometry and reject invalid geometry; caller arrays are neither stored nor modified."""
import itertools
import math

import numpy as np

from .. import common as C
from .. import gen

ASSUMPTIONS = [
    "exact oracle for simplicity: the Coq decision procedure simple_bf (no two non-adjacent edges meet, adjacent edges share only their endpoint) on "
    "small-dyadic / lattice coordinates; the Bentley-Ottmann sweep of the implementation is an oracle validated against it",
    "convex position is known by construction (points on an ellipsoid / convex polygon; invalid = one extra point that is a convex combination of vertices "
    "with all weights >= 0.05, i.e. deeper than 1e-3 size) and confirmed exactly by the Coq half-space model; planar vs. off-plane by > 1% of the size",
    "inputs are margin-separated from the decision boundaries, as the property states",
]


def c2(a, b):
    return a[0] * b[1] - a[1] * b[0]


def crossing_cycle(rng):
    """a self-intersecting lattice cycle (exact classification by the model)"""
    n = int(rng.integers(4, 9))
    return np.unique(rng.integers(0, 7, size=(n * 3, 2)).astype(float), axis=0)[rng.permutation(min(n, 6))] if False else rng.permutation(
        np.array([(x, y) for x in range(5) for y in range(5)], float))[:n]


def run(chk):
    import coxeter

    S = coxeter.shapes
    rng = chk.rng
    n = 150 if chk.tier == "quick" else 2500
    chk.notes["rule"] = ("vertex cycles classified exactly (simple / crossing / duplicate / <3 / off-plane), convex-position sets vs sets with an interior point, "
                         "all permutations of small convex inputs, non-positive radii; caller arrays compared bit-for-bit after construction and after mutating "
                         "either side; non-trivial = invalid input, or non-convex / clockwise / permuted valid input")
    # ------------------------------------------------------------ Polygon: simple vs crossing
    cycles = []
    for _ in range(n):
        mode = rng.choice(["simple", "random-lattice", "random-lattice", "vertical-crossing"])
        if mode == "simple":
            kind, P = gen.simple_polygon(rng)
            if rng.random() < 0.5:
                P = P[::-1].copy()
            P = np.roll(P, int(rng.integers(len(P))), axis=0)
        elif mode == "vertical-crossing":
            P = np.array([(0, 0), (2, 0), (2, 4), (4, 2), (0, 2)], float)
            P = np.roll(P[:: int(rng.choice([1, -1]))], int(rng.integers(5)), axis=0) + rng.integers(-3, 4, 2)
            kind = "vertical-crossing"
        else:
            kind, P = "lattice-cycle", crossing_cycle(rng)
        cycles.append((kind, np.array(P, float)))
    cases = [C.encode_case("simple", qs=C.flat(P)) for _, P in cycles]
    res = C.run_model(cases)
    nvm, okvm = C.vm_crosscheck(cases[:6], res[:6], "C15", limit=6)
    if not okvm:
        chk.violation("extraction-vs-vm_compute", dict(what="extracted binary and vm_compute disagree"), no_input=True)
    chk.notes["vm_crosschecked"] = nvm
    for (kind, P), r in zip(cycles, res):
        simple, dup, proper, touch = bool(r[0]), bool(r[1]), bool(r[2]), bool(r[3])
        V = np.c_[P, np.zeros(len(P))]
        # skip the boundary case the property's margins exclude: a simple polygon with (nearly) collinear consecutive vertices
        degenerate = any(c2(P[(i + 1) % len(P)] - P[i], P[(i + 2) % len(P)] - P[(i + 1) % len(P)]) == 0 for i in range(len(P)))
        arg = V.copy()
        st, sh = C.excname(S.Polygon, arg)
        chk.case(["Polygon", P.tolist()], (not simple) or kind != "convex")
        chk.count("polygon:" + ("simple" if simple else "not-simple"))
        desc = dict(cls="Polygon", kind=kind, vertices=V.tolist(), exact_simple=simple, duplicates=dup)
        if not np.array_equal(arg, V):
            chk.violation("caller-array-modified", desc)
        if simple and not degenerate:
            if st != "ok":
                chk.violation("valid-polygon-rejected", dict(desc, error=st))
            else:
                aliasing(chk, sh, arg, V, desc)
        elif (proper and not touch) or dup:
            if st == "ok":
                chk.violation("invalid-polygon-accepted", dict(desc, what="self-intersecting / duplicate-vertex cycle accepted"))
            elif st != "ValueError":
                chk.violation("wrong-exception", dict(desc, error=st))
        else:
            # touching-only cycles (a vertex on another edge, overlapping collinear edges) and simple polygons with a straight
            # corner sit ON the decision boundary; the property quantifies over margin-separated inputs only
            chk.count("unjudged:on-the-decision-boundary")
        chk.sample(dict(kind=kind, nverts=len(P), exact_simple=simple, outcome=st))
    # fewer than three vertices / off-plane / duplicates
    for bad, why in ((np.array([[0, 0, 0], [1, 0, 0.]]), "<3"), (np.array([[0, 0, 0], [1, 0, 0], [1, 1, 0], [0, 1, 0.3]]), "off-plane"),
                     (np.array([[0, 0, 0], [1, 0, 0], [1, 1, 0], [1, 0, 0.]]), "duplicate"), (np.array([[0, 0, 0, 1.0], [1, 0, 0, 1], [1, 1, 0, 1]]), "Nx4")):
        for cls in (S.Polygon, S.ConvexPolygon):
            st, _ = C.excname(cls, bad.copy())
            chk.case([cls.__name__, why], True)
            if st != "ValueError":
                chk.violation("invalid-polygon-accepted" if st == "ok" else "wrong-exception", dict(cls=cls.__name__, why=why, outcome=st, vertices=bad.tolist()))
    # tilted planar polygons accepted, off-plane by >1% rejected
    for _ in range(n // 5):
        kind, P = gen.simple_polygon(rng)
        M, nn = gen.random_rotation(rng, integer=True)
        V = np.c_[P, np.zeros(len(P))] @ M.T + gen.dy(rng.uniform(-5, 5, 3), 4)
        if np.linalg.norm(np.cross(V[2] - V[1], V[0] - V[1])) == 0:
            continue
        st, _ = C.excname(S.Polygon, V.copy())
        chk.case(["Polygon-tilted", V.tolist()], True)
        if st != "ok":
            chk.violation("valid-polygon-rejected", dict(cls="Polygon", kind=kind + "/tilted", vertices=V.tolist(), error=st))
        W = V.copy()
        k = int(rng.integers(3, len(W))) if len(W) > 3 else None
        if k is not None:
            size = float(np.max(np.linalg.norm(W - W.mean(0), axis=1)))
            nrm = np.cross(W[2] - W[1], W[0] - W[1]); nrm /= np.linalg.norm(nrm)
            W[k] += 0.05 * size * nrm
            st, _ = C.excname(S.Polygon, W.copy())
            if st != "ValueError":
                chk.violation("nonplanar-polygon-accepted" if st == "ok" else "wrong-exception", dict(vertices=W.tolist(), outcome=st))
    convex_classes(chk, rng, n // 3)
    curved(chk, rng)


def aliasing(chk, sh, arg, V, desc):
    """the shape must not share memory with the caller's array"""
    if np.shares_memory(np.asarray(sh.vertices), arg):
        chk.violation("caller-array-stored", dict(desc, what="shape.vertices shares memory with the constructor argument"))
        return
    before = np.array(sh.vertices).copy()
    arg[0, 0] += 1.0
    if not np.array_equal(np.array(sh.vertices), before):
        chk.violation("caller-array-stored", dict(desc, what="mutating the caller's array changed the shape"))
    arg[0, 0] -= 1.0


def convex_classes(chk, rng, n):
    import coxeter

    S = coxeter.shapes
    # ---- ConvexPolygon / ConvexSpheropolygon: every permutation of small convex inputs is accepted and ordered CCW
    for _ in range(max(3, n // 10)):
        _, P = gen.simple_polygon(rng, kind="convex")
        P = P[: min(len(P), 6)]
        if len(P) < 3 or abs(gen.shoelace(P)) < 1e-6:
            continue
        try:
            from scipy.spatial import ConvexHull
            if len(ConvexHull(P).vertices) != len(P):
                continue
        except Exception:  # noqa: BLE001
            continue
        # ... the smallest polygons included: the triangle and the quadrilateral on the first vertices, every permutation of them
        perms = [(P, pm) for pm in (list(itertools.permutations(range(len(P)))) if len(P) <= 5 else [rng.permutation(len(P)) for _ in range(60)])]
        perms += [(P[:3], pm) for pm in itertools.permutations(range(3))] + ([(P[:4], pm) for pm in itertools.permutations(range(4))][::2] if len(P) >= 4 else [])
        for Pk, perm in perms:
            V = np.c_[Pk[list(perm)], np.zeros(len(Pk))]
            if np.cross(V[2] - V[1], V[0] - V[1])[2] == 0:
                continue
            for cls, extra in ((S.ConvexPolygon, ()), (S.ConvexSpheropolygon, (0.25,))):
                arg = V.copy()
                # "counter-clockwise about the normal": the default normal, or the one the caller asks for (either sign)
                want = None if rng.random() < 0.5 else np.array([0.0, 0.0, float(rng.choice([-2.0, 0.5]))])
                kw = {} if want is None else dict(normal=want.copy())
                st, sh = C.excname(lambda: cls(arg, *extra, **kw))
                chk.case([cls.__name__, V.tolist(), None if want is None else want.tolist()], True)
                desc = dict(cls=cls.__name__, vertices=V.tolist(), requested_normal=None if want is None else want.tolist())
                if st != "ok":
                    chk.violation("valid-convex-polygon-rejected", dict(desc, error=st)); continue
                W = np.array(sh.vertices)
                nrm = np.array(sh.normal)
                if want is not None and not np.allclose(nrm, want / np.linalg.norm(want), rtol=0, atol=1e-12):
                    chk.violation("requested-normal-not-honoured", dict(desc, normal=nrm.tolist()))
                # counter-clockwise about the normal: every consecutive turn positive
                turns = [float(nrm @ np.cross(W[(i + 1) % len(W)] - W[i], W[(i + 2) % len(W)] - W[(i + 1) % len(W)])) for i in range(len(W))]
                if min(turns) <= 0 or sorted(map(tuple, W.tolist())) != sorted(map(tuple, V.tolist())):
                    chk.violation("convex-polygon-not-ccw", dict(desc, result=W.tolist(), normal=nrm.tolist(), turns=turns))
                if not np.array_equal(arg, V):
                    chk.violation("caller-array-modified", desc)
                aliasing(chk, sh, arg, V, desc)
        # an interior point is rejected
        w = rng.dirichlet(np.ones(len(P))) * 0.7 + 0.3 / len(P)
        Q = np.vstack([P, w @ P])
        V = np.c_[Q[rng.permutation(len(Q))], np.zeros(len(Q))]
        if np.cross(V[2] - V[1], V[0] - V[1])[2] != 0:
            for cls, extra in ((S.ConvexPolygon, ()), (S.ConvexSpheropolygon, (0.25,))):
                st, _ = C.excname(cls, V.copy(), *extra)
                chk.case([cls.__name__ + "-interior", V.tolist()], True)
                if st != "ValueError":
                    chk.violation("nonconvex-set-accepted" if st == "ok" else "wrong-exception", dict(cls=cls.__name__, vertices=V.tolist(), outcome=st))
    for cls, r in ((S.ConvexSpheropolygon, -0.5), ):
        st, _ = C.excname(cls, np.array([[0, 0, 0], [1, 0, 0], [0, 1, 0.]]), r)
        if st != "ValueError":
            chk.violation("negative-rounding-radius-accepted", dict(cls=cls.__name__, outcome=st))
    # ---- ConvexPolyhedron / ConvexSpheropolyhedron
    cases, meta = [], []
    for _ in range(n):
        kind, V = gen.convex_set(rng)
        arg = V.copy()
        st, sh = C.excname(S.ConvexPolyhedron, arg)
        chk.case(["ConvexPolyhedron", V.tolist()], True)
        desc = dict(cls="ConvexPolyhedron", kind=kind, vertices=V.tolist())
        if st != "ok":
            chk.violation("valid-convex-set-rejected", dict(desc, error=st)); continue
        if not np.array_equal(arg, V):
            chk.violation("caller-array-modified", desc)
        aliasing(chk, sh, arg, V, desc)
        st2, _ = C.excname(S.ConvexSpheropolyhedron, V.copy(), 0.0)
        if st2 != "ok":
            chk.violation("valid-convex-set-rejected", dict(desc, cls="ConvexSpheropolyhedron", error=st2))
        st3, _ = C.excname(S.ConvexSpheropolyhedron, V.copy(), -1e-3)
        if st3 != "ValueError":
            chk.violation("negative-rounding-radius-accepted", dict(cls="ConvexSpheropolyhedron", outcome=st3))
        # add an interior point
        w = rng.dirichlet(np.ones(len(V))) * 0.5 + 0.5 / len(V)
        p = w @ V
        F = [list(map(int, f)) for f in sh.faces]
        meta.append(dict(V=np.array(sh.vertices), p=p, kind=kind))
        cases.append(C.encode_case("inside_convex", sc=C.flat(p), qs=C.flat(sh.vertices), idx=F))
    res = C.run_model(cases)
    for m, r in zip(meta, res):
        size = float(np.max(m["V"].max(0) - m["V"].min(0)))
        if not bool(r[0]):
            chk.count("unjudged:interior-point-not-interior")
            continue
        W = np.vstack([m["V"], m["p"]])[rng.permutation(len(m["V"]) + 1)]
        for cls, extra in ((S.ConvexPolyhedron, ()), (S.ConvexSpheropolyhedron, (0.1,))):
            st, _ = C.excname(cls, W.copy(), *extra)
            chk.case([cls.__name__ + "-interior", W.tolist()], True)
            if st != "ValueError":
                chk.violation("nonconvex-set-accepted" if st == "ok" else "wrong-exception",
                              dict(cls=cls.__name__, kind=m["kind"], vertices=W.tolist(), interior_point=m["p"].tolist(), outcome=st))
        chk.count("convex3d")


def curved(chk, rng):
    import coxeter

    S = coxeter.shapes
    for bad in (0.0, -1.0, float("nan")):
        for name, make in (("Circle", lambda: S.Circle(bad)), ("Sphere", lambda: S.Sphere(bad)),
                           ("Ellipse.a", lambda: S.Ellipse(bad, 1.0)), ("Ellipse.b", lambda: S.Ellipse(1.0, bad)),
                           ("Ellipsoid.a", lambda: S.Ellipsoid(bad, 1.0, 1.0)), ("Ellipsoid.b", lambda: S.Ellipsoid(1.0, bad, 1.0)),
                           ("Ellipsoid.c", lambda: S.Ellipsoid(1.0, 1.0, bad))):
            st, _ = C.excname(make)
            chk.case([name, str(bad)], True)
            if st != "ValueError":
                chk.violation("nonpositive-radius-accepted" if st == "ok" else "wrong-exception", dict(cls=name, value=str(bad), outcome=st))
    # centre arrays are copied
    for name, make in (("Circle", lambda c: S.Circle(1.0, c)), ("Sphere", lambda c: S.Sphere(1.0, c)),
                       ("Ellipse", lambda c: S.Ellipse(1.0, 2.0, c)), ("Ellipsoid", lambda c: S.Ellipsoid(1.0, 2.0, 3.0, c))):
        c = np.array([1.0, 2.0, 3.0])
        sh = make(c)
        chk.case([name, "center-array"], True)
        c[0] = 99.0
        if float(np.asarray(sh.centroid)[0]) != 1.0:
            chk.violation("caller-array-stored", dict(cls=name, what="mutating the centre array passed to the constructor moved the shape"))
    input_forms(chk, rng)
    curved_input_forms(chk)
    # Polygon normal array untouched
    nrm = np.array([0.0, 0.0, 2.0])
    S.Polygon(np.array([[0, 0, 0], [1, 0, 0], [1, 1, 0], [0, 1, 0.]]), normal=nrm)
    if not np.array_equal(nrm, [0.0, 0.0, 2.0]):
        chk.violation("caller-array-modified", dict(cls="Polygon", what="the normal array passed by the caller was normalised in place"))


def input_forms(chk, rng):
    """The same valid geometry given as an integer array, nested python lists, or tuples constructs the same shape (vertices, measure)
    as the float array, and the caller's object is left as it was."""
    import coxeter

    S = coxeter.shapes
    quad = np.array([[0, 0, 0], [4, 0, 0], [5, 3, 0], [1, 2, 0]])                       # convex, counter-clockwise, integer
    ell = np.array([[0, 0, 0], [4, 0, 0], [4, 1, 0], [1, 1, 0], [1, 3, 0], [0, 3, 0]])      # non-convex L
    box = np.array([[x, y, z] for x in (0, 3) for y in (0, 2) for z in (0, 5)]) + np.array([1, -2, 4])
    cp = S.ConvexPolyhedron(box.astype(float))
    faces = [list(map(int, f)) for f in cp.faces]
    boxv = np.array(np.round(cp.vertices), int)
    ctors = [("Polygon", lambda v: S.Polygon(v), ell, "area"), ("ConvexPolygon", lambda v: S.ConvexPolygon(v), quad, "area"),
             ("ConvexSpheropolygon", lambda v: S.ConvexSpheropolygon(v, 1), quad, "area"),
             ("ConvexPolyhedron", lambda v: S.ConvexPolyhedron(v), box, "volume"),
             ("ConvexSpheropolyhedron", lambda v: S.ConvexSpheropolyhedron(v, 1), box, "volume"),
             ("Polyhedron", lambda v: S.Polyhedron(v, faces), boxv, "volume")]
    for name, mk, Vint, meas in ctors:
        ref = mk(Vint.astype(float))
        for form, arg in (("float64 array", Vint.astype(np.float64)), ("integer array", Vint.copy()), ("nested lists", Vint.astype(float).tolist()), ("integer nested lists", Vint.tolist()),
                          ("tuple of tuples", tuple(map(tuple, Vint.astype(float).tolist())))):
            keep = arg.copy() if isinstance(arg, np.ndarray) else [list(r) for r in arg]
            st, sh = C.excname(mk, arg)
            chk.case([name, "input-form", form], True)
            desc = dict(cls=name, form=form, vertices=Vint.tolist())
            if st != "ok":
                chk.violation("valid-input-form-rejected", dict(desc, error=st)); continue
            same = np.array_equal(np.asarray(sh.vertices, float), np.asarray(ref.vertices, float))
            m1, m0 = float(getattr(sh, meas)), float(getattr(ref, meas))
            if not same or abs(m1 - m0) > 1e-12 * abs(m0) or np.asarray(sh.vertices).dtype.kind != "f":
                chk.violation("input-form-changes-shape", dict(desc, measure=m1, expected=m0, dtype=str(np.asarray(sh.vertices).dtype)))
            now = arg if isinstance(arg, np.ndarray) else [list(r) for r in arg]
            if (isinstance(arg, np.ndarray) and (not np.array_equal(now, keep) or now.dtype != keep.dtype)) or (not isinstance(arg, np.ndarray) and now != keep):
                chk.violation("caller-array-modified", dict(desc))
            if form == "float64 array":
                # other array layouts and element types of the SAME values: float32 (values here are small integers, exact in float32),
                # Fortran order, a strided view, a read-only array - the shape is the same and works in double precision
                big = np.zeros((2 * len(Vint), 6)); big[::2, ::2] = Vint
                ro = Vint.astype(np.float64); ro.setflags(write=False)
                for form2, arg2 in (("float32 array", Vint.astype(np.float32)), ("Fortran-ordered array", np.asfortranarray(Vint.astype(np.float64))),
                                    ("strided view", big[::2, ::2]), ("read-only array", ro), ("int32 array", Vint.astype(np.int32)),
                                    ("uint8 array", (Vint - Vint.min()).astype(np.uint8) if name != "Polyhedron" else None)):
                    if arg2 is None:
                        continue
                    off = float(Vint.min()) if form2 == "uint8 array" else 0.0
                    st2, sh2 = C.excname(mk, arg2)
                    chk.case([name, "input-form", form2], True)
                    d2 = dict(cls=name, form=form2, vertices=Vint.tolist())
                    if st2 != "ok":
                        chk.violation("valid-input-form-rejected", dict(d2, error=st2)); continue
                    v2 = np.asarray(sh2.vertices)
                    ok2 = v2.dtype == np.float64 and np.array_equal(v2 + off, np.asarray(ref.vertices, float))
                    # derived quantities are evaluated in double precision whatever the input's element type
                    for q_ in (meas, "centroid", "inertia_tensor" if hasattr(type(ref), "inertia_tensor") else meas):
                        a_, b_ = C.excname(lambda: np.asarray(getattr(sh2, q_), float)), C.excname(lambda: np.asarray(getattr(ref, q_), float))
                        if q_ == "centroid" and a_[0] == "ok":
                            a_ = ("ok", a_[1] + off)
                        if off == 0.0 or q_ != "inertia_tensor":
                            ok2 = ok2 and a_[0] == b_[0] and (a_[0] != "ok" or np.allclose(a_[1], b_[1], rtol=1e-11, atol=1e-11 * float(np.max(np.abs(b_[1])) + 1)))
                    if not ok2:
                        chk.violation("input-form-changes-shape", dict(d2, dtype=str(v2.dtype), what="same values in another array layout / element type give a different shape or single-precision results"))
            # a later in-place operation on the shape must not reach the caller's object either
            if isinstance(arg, np.ndarray):
                sh.centroid = np.asarray(sh.centroid, float) + 1.0
                if not np.array_equal(arg, keep):
                    chk.violation("caller-array-stored", dict(desc, what="moving the shape changed the array passed to the constructor"))
                # ... and the other way round: the caller re-using its buffer must not move the shape
                before = np.asarray(sh.vertices, float).copy()
                if arg.dtype.kind == "f":
                    arg += 7.0
                    if not np.array_equal(np.asarray(sh.vertices, float), before):
                        chk.violation("caller-array-stored", dict(desc, what="changing the array passed to the constructor afterwards moved the shape"))


def curved_input_forms(chk):
    """Curved shapes: the centre given as a tuple of ints / an integer array / a list is the same centre as the float array - every
    property and the point / angle / wave-vector queries must agree."""
    import coxeter
    from .. import shapes as Z

    S = coxeter.shapes
    ci = (3, -2, 5)
    ctors = [("Circle", lambda c: S.Circle(1.5, c)), ("Ellipse", lambda c: S.Ellipse(1.5, 0.75, c)),
             ("Sphere", lambda c: S.Sphere(1.25, c)), ("Ellipsoid", lambda c: S.Ellipsoid(1.5, 0.75, 2.0, c))]
    P = np.array(ci, float) + np.array([[0.1, 0.2, 0.0], [0.7, -0.1, 0.0], [2.5, 0.0, 0.0], [0.0, 0.0, 0.3], [0.4, 0.3, 0.9]])
    Q = np.array([[0.3, -0.2, 0.5], [1.0, 0.0, 0.0], [0.0, 0.0, 0.0]])
    for name, mk in ctors:
        ref = mk(np.array(ci, float))
        o_ref = Z.observe(ref)
        for form, arg in (("tuple of ints", tuple(ci)), ("integer array", np.array(ci)), ("list of floats", [float(x) for x in ci])):
            st, sh = C.excname(mk, arg)
            chk.case([name, "centre-form", form], True)
            desc = dict(cls=name, form=form, centre=list(ci))
            if st != "ok":
                chk.violation("valid-input-form-rejected", dict(desc, error=st)); continue
            o = Z.observe(sh)
            bad = [k for k in o_ref if k not in o or not Z.values_close(o[k], o_ref[k], 1e-13, 1e-13)]
            for qn, fn in (("is_inside", lambda x: np.asarray(x.is_inside(P), bool).tolist()),
                           ("distance_to_surface", lambda x: np.asarray(x.distance_to_surface(np.array([0.3, 2.0, -1.0])), float).round(13).tolist()),
                           ("compute_form_factor_amplitude", lambda x: np.round(np.asarray(x.compute_form_factor_amplitude(Q.copy())), 12).tolist())):
                if hasattr(type(ref), qn):
                    a, b = C.excname(fn, sh), C.excname(fn, ref)
                    if a[0] != b[0] or (a[0] == "ok" and a[1] != b[1]):
                        bad.append(qn)
            if bad:
                chk.violation("input-form-changes-shape", dict(desc, differing=sorted(bad)[:8]))


def extra_coverage(chk):
    return dict(vm_compute_crosschecks=chk.notes.get("vm_crosschecked", 0))


def replay(chk, rep):
    import coxeter

    d = rep["detail"]
    cls = getattr(coxeter.shapes, d.get("cls", "Polygon").split("-")[0].split(".")[0], coxeter.shapes.Polygon)
    if "vertices" in d:
        return dict(outcome=C.excname(cls, np.array(d["vertices"]))[0], recorded=d)
    return d
