"""C06 - 2-D point containment equals exact membership."""
import numpy as np

from .. import common as C
from .. import gen

ASSUMPTIONS = [
    "exact membership for polygons = crossing parity of the +x ray with the half-open rule, evaluated in exact rational arithmetic "
    "by the Coq model (independent of the implementation's winding-number algorithm)",
    "points closer than 1e-9 * size to the boundary are generated but not judged (the property's tiny margin)",
    "for polygons placed in a general plane the rotation returned by kabsch is not modelled; membership is compared through the exact "
    "similarity that placed both polygon and points (containment is invariant)",
]


def query_points(rng, P, npts):
    lo, hi = P.min(0), P.max(0)
    c, ext = (lo + hi) / 2, (hi - lo)
    pts = [c + (rng.uniform(-0.9, 0.9, 2)) * ext for _ in range(npts // 3)]
    n = len(P)
    # near edges at controlled signed distance
    for _ in range(npts // 3):
        i = int(rng.integers(n))
        a, b = P[i], P[(i + 1) % n]
        t = rng.uniform(0, 1)
        e = b - a
        nrm = np.array([e[1], -e[0]]) / (np.linalg.norm(e) + 1e-300)
        d = rng.choice([1e-6, 1e-3, 1e-1]) * np.max(ext) * rng.choice([-1, 1])
        pts.append(a + t * e + d * nrm)
    # sharing an x or y coordinate with a vertex (degenerate for the L/R classification)
    for _ in range(npts - len(pts)):
        v = P[int(rng.integers(n))]
        q = c + rng.uniform(-0.9, 0.9, 2) * ext
        k = int(rng.integers(2))
        q[k] = v[k]
        if rng.random() < 0.3:
            w = P[int(rng.integers(n))]
            q[1 - k] = w[1 - k]
        pts.append(q)
    return gen.dy(np.array(pts), 20)


def run(chk):
    import coxeter

    rng = chk.rng
    # the batch contract of is_inside for every 2-D class
    from .. import shapes as Z_
    for cls_ in ("Circle", "Ellipse", "Polygon", "ConvexPolygon"):
        sh_, _ = Z_.make(cls_, offset=False) if cls_ in ("Polygon", "ConvexPolygon") else Z_.make(cls_)
        c_ = np.asarray(sh_.vertices, float).mean(0) if hasattr(sh_, "vertices") else np.asarray(sh_.centroid, float)
        B_ = c_ + np.array([[0.1, 0.2, 0.0], [0.6, -0.3, 0.0], [3.0, 3.0, 0.0], [-0.2, 0.1, 0.0], [1.2, 0.1, 0.0], [-5.0, 0.0, 0.0]])
        for prob_ in C.batch_contract(sh_.is_inside, B_, "b"):
            chk.violation("batch-contract", dict(cls=cls_, what=prob_)); break
        chk.count("batch-contract")
        # ... of any length: long batches (1500, 2049, 5000 points: repetitions of the six, so the answers are known) element by element
        small_ = np.asarray(sh_.is_inside(B_), bool)
        for n_ in (1500, 2049, 5000):
            big_ = np.tile(B_, (n_ // len(B_) + 1, 1))[:n_]
            st_, got_ = C.excname(lambda: np.asarray(sh_.is_inside(big_), bool))
            want_ = np.tile(small_, n_ // len(B_) + 1)[:n_]
            if st_ != "ok" or got_.shape != (n_,) or not np.array_equal(got_, want_):
                bad_ = None if st_ != "ok" or got_.shape != (n_,) else int(np.flatnonzero(got_ != want_)[0])
                chk.violation("long-batch-vs-short", dict(cls=cls_, n=n_, error=st_, first_differing_index=bad_,
                                                          what="a batch of %d points (the six probe points repeated) does not repeat their answers" % n_))
                break
            chk.count("long-batch")
    npoly = 40 if chk.tier == "quick" else 600
    npts = 90 if chk.tier == "quick" else 300
    chk.notes["rule"] = ("simple polygons (C04 generator) x orientation x embedding (xy-plane exact frame / exact 3-D similarity / (N,2) input) "
                         "x points (uniform in 1.8x bounding box, at +-1e-6..1e-1 size from edges, sharing x or y with a vertex); circles and "
                         "ellipses a<b,a=b,a>b with any centre x points in all four quadrants; non-trivial = point shares a coordinate with a "
                         "vertex, or is within 1e-3 size of an edge, or polygon clockwise / non-convex")
    cases, meta = [], []
    for _ in range(npoly):
        force_far = rng.random() < 0.25
        kind, P = gen.simple_polygon(rng, kind="convex") if force_far else gen.simple_polygon(rng)
        if rng.random() < 0.5:
            P = P[::-1].copy()
        pts = query_points(rng, P, npts)
        # any size: a third of the scenarios are rescaled exactly (polygon and query points) by a power of two between 2^-25 (3e-8) and 2^8
        # (below ~4e-9 the vendored sweep line of Polygon.__init__ starts rejecting valid many-vertex polygons: recorded finding
        # sweepline-large-coordinates, second witness - a constructor matter, not one of containment)
        u = 1.0
        if rng.random() < 0.34 or len(cases) % 8 == 5:
            u = 2.0 ** int(rng.integers(-25, 9) if len(cases) % 8 != 5 else rng.integers(-25, -20))      # (the small end does not depend on the draw)
            P, pts = P * u, pts * u
            kind += "*2^k"
        mode = "placed" if force_far else rng.choice(["xy3", "xy2", "placed"])
        V3 = np.c_[P, np.zeros(len(P))]
        Q3 = np.c_[pts, np.zeros(len(pts))]
        if mode == "placed":
            M, n = gen.random_rotation(rng, integer=True)
            s = 2.0 ** int(rng.integers(-2, 3))
            t = gen.dy(rng.uniform(-5, 5, 3), 4) * u          # (the whole scenario is rescaled, the placement included)
            if kind.startswith("convex") and (force_far or rng.random() < 0.6):
                # far from the origin compared with its size (2^16 .. 2^26 sizes): all coordinates stay exactly representable.  Convex
                # polygons through ConvexPolygon only (same is_inside): the general constructor's sweep line refuses valid far-away
                # polygons - recorded finding sweepline-large-coordinates
                t = t * 2.0 ** int(rng.integers(16, 27))
                kind += "/far"
            Vp, Qp = V3 @ M.T * s + t, Q3 @ M.T * s + t
        else:
            Vp, Qp = V3, (Q3 if mode == "xy3" else pts)
        if np.linalg.norm(np.cross(Vp[2] - Vp[1], Vp[0] - Vp[1])) == 0:
            continue
        st, poly = C.excname(coxeter.shapes.ConvexPolygon if kind.endswith("/far") else coxeter.shapes.Polygon, Vp)
        if st != "ok":
            chk.violation("constructor-raised", dict(vertices=Vp.tolist(), error=st))
            continue
        got = np.asarray(poly.is_inside(Qp), bool)
        # batch vs single (judged below, off the boundary only: on the boundary the last bit of the alignment decides, and a batch and a
        # single point go through different matrix kernels)
        ks = int(rng.integers(len(Qp)))
        single = np.asarray(poly.is_inside(Qp[ks]), bool)
        if single.shape != (1,) or got.shape != (len(Qp),):
            chk.violation("batch-vs-single", dict(vertices=Vp.tolist(), point=Qp[ks].tolist(), what="result shape", single=single.tolist()))
        # the same points as a nested list and (when integral) as an integer array
        sel = [int(x) for x in rng.integers(len(Qp), size=min(4, len(Qp)))]
        st2, asl = C.excname(lambda: np.asarray(poly.is_inside(Qp[sel].tolist()), bool))
        if st2 != "ok" or asl.tolist() != [bool(got[i]) for i in sel]:
            chk.violation("input-form:list", dict(vertices=Vp.tolist(), points=Qp[sel].tolist(), batch=[bool(got[i]) for i in sel], as_list=None if st2 != "ok" else asl.tolist(), error=st2))
        ints = [i for i in range(len(Qp)) if np.all(Qp[i] == np.round(Qp[i]))][:4]
        if ints:
            st2, asi = C.excname(lambda: np.asarray(poly.is_inside(Qp[ints].astype(np.int64)), bool))
            if st2 != "ok" or asi.tolist() != [bool(got[i]) for i in ints]:
                chk.violation("input-form:integer-array", dict(vertices=Vp.tolist(), points=Qp[ints].tolist(), batch=[bool(got[i]) for i in ints],
                                                               as_int=None if st2 != "ok" else asi.tolist(), error=st2))
        # model frame: the xy frame; default normal may be -z (reflex/clockwise first corner) -> kabsch gives diag(-1,1,-1):
        # x is mirrored; membership is unaffected but the tie-breaking frame is, so the faithful model is fed the mirrored frame.
        nrm = np.array(poly.normal)
        mirror = mode != "placed" and nrm[2] < 0
        Pm, ptm = (P * np.array([-1.0, 1.0]), pts * np.array([-1.0, 1.0])) if mirror else (P, pts)
        cases.append(C.encode_case("winding2", sc=C.flat(ptm), qs=C.flat(Pm)))
        meta.append(dict(kind=kind, P=P, pts=pts, mode=mode, got=got, Vp=Vp, Qp=Qp, mirror=bool(mirror), ks=ks, single=single))
    res = C.run_model(cases)
    nvm, okvm = C.vm_crosscheck(cases[:3], res[:3], "C06", limit=3)
    if not okvm:
        chk.violation("extraction-vs-vm_compute", dict(what="extracted binary and vm_compute disagree"), no_input=True)
    chk.notes["vm_crosschecked"] = nvm
    for m, r in zip(meta, res):
        P, pts = m["P"], m["pts"]
        size = float(np.max(P.max(0) - P.min(0)))
        vx, vy = set(P[:, 0].tolist()), set(P[:, 1].tolist())
        for k in range(len(pts)):
            code, spec, tsum, d2 = r[4 * k], r[4 * k + 1], r[4 * k + 2], C.fl(r[4 * k + 3])
            shares = pts[k][0] in vx or pts[k][1] in vy
            near = d2 < (1e-3 * size) ** 2
            chk.case([P.tolist(), pts[k].tolist(), m["mode"]], shares or near or m["kind"] != "convex")
            if d2 <= (1e-9 * size) ** 2:
                chk.count("unjudged:boundary")
                continue
            if k == m["ks"] and m["single"].shape == (1,) and bool(m["single"][0]) != bool(m["got"][k]):
                chk.violation("batch-vs-single", dict(vertices=m["Vp"].tolist(), point=np.asarray(m["Qp"][k]).tolist(), batch=bool(m["got"][k]), single=m["single"].tolist()))
            if tsum % 2 != 0:
                chk.violation("model-odd-turn-sum", dict(vertices=P.tolist(), point=pts[k].tolist()), no_input=True)
            if code != spec:
                chk.violation("model-vs-spec", dict(vertices=P.tolist(), point=pts[k].tolist(), what="winding model differs from crossing parity"), no_input=True)
            if bool(m["got"][k]) != bool(spec):
                chk.violation("polygon-is_inside", dict(kind=m["kind"], mode=m["mode"], vertices=m["Vp"].tolist(), point=np.asarray(m["Qp"][k]).tolist(),
                                                        impl=bool(m["got"][k]), exact=bool(spec), shares_coordinate=bool(shares), dist=float(np.sqrt(d2))))
            chk.count("pts:shares" if shares else ("pts:near" if near else "pts:generic"))
        chk.count("mode:" + m["mode"]); chk.count("kind:" + m["kind"])
        chk.sample(dict(kind=m["kind"], mode=m["mode"], nverts=len(P), point=pts[0].tolist(), impl=bool(m["got"][0]), exact=bool(r[1])))
    curved(chk, rng, 30 if chk.tier == "quick" else 400, npts)


def curved(chk, rng, nshapes, npts):
    import coxeter

    cases, meta = [], []
    for _ in range(nshapes):
        a, b = [float(2.0 ** rng.integers(-3, 4)) * float(rng.integers(1, 8)) / 4 for _ in range(2)]
        if rng.random() < 0.25:
            b = a
        c = gen.dy(rng.uniform(-5, 5, 3), 4)
        m = max(a, b)
        pts = gen.dy(c[:2] + rng.uniform(-1.6, 1.6, (npts, 2)) * np.array([a, b]), 12)
        # some points on the axes lines / sharing coordinates with the centre
        pts[: npts // 6, 0] = c[0]
        pts[npts // 6: npts // 3, 1] = c[1]
        P3 = np.c_[pts, np.full(len(pts), c[2])]
        circ = coxeter.shapes.Circle(a, c)
        ell = coxeter.shapes.Ellipse(a, b, c)
        gc = np.asarray(circ.is_inside(P3), bool)
        ge = np.asarray(ell.is_inside(P3), bool)
        k = int(rng.integers(npts))
        if bool(np.asarray(ell.is_inside(P3[k]))[0]) != bool(ge[k]) or bool(np.asarray(circ.is_inside(P3[k]))[0]) != bool(gc[k]):
            chk.violation("batch-vs-single", dict(shape="circle/ellipse", a=a, b=b, center=c.tolist(), point=P3[k].tolist()))
        # the same points in other containers / element types give the same answers: integer lattice points near the shape as an int64
        # array, an int32 array, a list of int tuples and a float32 array, against the float64 array of the same values
        L = np.array([[x, y, 0] for x in range(int(np.floor(c[0] - m)) - 1, int(np.ceil(c[0] + m)) + 2)
                      for y in range(int(np.floor(c[1] - m)) - 1, int(np.ceil(c[1] + m)) + 2)][:60], dtype=np.int64)
        cz = coxeter.shapes.Circle(a, np.array([c[0], c[1], 0.0])); ez = coxeter.shapes.Ellipse(a, b, np.array([c[0], c[1], 0.0]))
        for nm_, shp_ in (("Circle", cz), ("Ellipse", ez)):
            ref_ = np.asarray(shp_.is_inside(L.astype(np.float64)), bool)
            for form_, arg_ in (("int64 array", L), ("int32 array", L.astype(np.int32)), ("list of int tuples", [tuple(int(v) for v in r) for r in L]),
                                ("float32 array", L.astype(np.float32))):
                st_, got_ = C.excname(lambda: np.asarray(shp_.is_inside(arg_), bool))
                if st_ != "ok" or got_.shape != ref_.shape or not np.array_equal(got_, ref_):
                    kbad = None if st_ != "ok" or got_.shape != ref_.shape else int(np.argmax(got_ != ref_))
                    chk.violation("input-form:" + form_, dict(shape=nm_, a=a, b=b, center=[float(c[0]), float(c[1]), 0.0], error=st_,
                                                              point=None if kbad is None else L[kbad].tolist(),
                                                              as_float64=None if kbad is None else bool(ref_[kbad]), as_given=None if kbad is None else bool(got_[kbad])))
                    break
        cases.append(C.encode_case("ellipse", sc=[c[0], c[1], a, a] + C.flat(pts)))
        cases.append(C.encode_case("ellipse", sc=[c[0], c[1], a, b] + C.flat(pts)))
        meta.append(dict(a=a, b=b, c=c, pts=pts, gc=gc, ge=ge))
    res = C.run_model(cases)
    for i, m in enumerate(meta):
        rc, re_ = res[2 * i], res[2 * i + 1]
        a, b, c, pts = m["a"], m["b"], m["c"], m["pts"]
        for k in range(len(pts)):
            # margin: |level - 1| tiny -> unjudged
            u = (pts[k] - c[:2]) / np.array([a, b])
            uc = (pts[k] - c[:2]) / a
            chk.case([a, b, c.tolist(), pts[k].tolist()], True)
            if abs(uc @ uc - 1) > 1e-9 and bool(m["gc"][k]) != bool(rc[2 * k + 1]):
                chk.violation("circle-is_inside", dict(radius=a, center=c.tolist(), point=pts[k].tolist(), impl=bool(m["gc"][k]), exact=bool(rc[2 * k + 1])))
            if abs(u @ u - 1) > 1e-9 and min(abs(u[0] - 1), abs(u[1] - 1)) > 1e-9:
                impl, box, exact = bool(m["ge"][k]), bool(re_[2 * k]), bool(re_[2 * k + 1])
                if impl != exact:
                    if chk.is_known("ellipse-box-test") and impl == box:
                        chk.known_finding("ellipse-box-test", "Ellipse.is_inside tests the one-sided bounding box (p-c)/[a,b] <= 1 instead of the ellipse")
                        chk.count("known:ellipse-box")
                    else:
                        chk.violation("ellipse-is_inside", dict(a=a, b=b, center=c.tolist(), point=pts[k].tolist(), impl=impl, exact=exact, box_model=box))
        chk.count("curved:a<b" if a < b else ("curved:a=b" if a == b else "curved:a>b"))


def extra_coverage(chk):
    return dict(vm_compute_crosschecks=chk.notes.get("vm_crosschecked", 0))


def replay(chk, rep):
    import coxeter

    d = rep["detail"]
    if "vertices" in d:
        poly = coxeter.shapes.Polygon(np.array(d["vertices"], float))
        return dict(impl=poly.is_inside(np.array(d["point"], float)).tolist(), exact=d.get("exact"))
    ell = coxeter.shapes.Ellipse(d["a"], d["b"], d["center"])
    return dict(impl=ell.is_inside(np.array(d["point"] + [d["center"][2]])).tolist(), exact=d.get("exact"))
