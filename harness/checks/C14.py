"""C14 - distance_to_surface is the radial distance from the centre to the boundary."""
import math

import numpy as np

from .. import common as C
from .. import gen

ASSUMPTIONS = [
    "the definition itself is the oracle: p = centre + d (cos t, sin t) must lie on the boundary, i.e. its exact distance to the core polygon's boundary "
    "(Coq model boundary_dist2 on the exact rational value of the binary64 point) equals the rounding radius (0 for polygons) and p is not strictly inside "
    "the core; the centre is the exact centroid of the (core) polygon from the C04 model; uniqueness of the boundary point on a ray from an interior "
    "point of a convex set is used",
    "tolerance 1e-9 * size; angles exactly at vertices/axes are included (the nearest binary64 angle)",
    "model <-> code tie for the edge branch formulas (Model/DistanceBranches.v edge_distance, theorem C14_edge_branches_are_ray_parameter): the Coq definition is "
    "extracted with R realised by binary64 (Extract/ExtractR.v: R, R0, R1, Rplus, Rmult, Ropp, Rinv, sin, cos, tan, sqrt, Rle_dec, Rlt_dec, Req_EM_T => float "
    "operations; unsound as statements about reals, used for this comparison only) and compared with the implementation to 1e-9 on the edge the ray leaves through",
]
TOL = 1e-9


def angle_set(rng, V2, c, n):
    ang = list(rng.uniform(-4 * math.pi, 4 * math.pi, n))
    for v in V2:
        ang.append(math.atan2(v[1] - c[1], v[0] - c[0]) + 2 * math.pi * int(rng.integers(-2, 3)))
    ang += [k * math.pi / 4 for k in range(-16, 17)]
    # a hair on either side of the multiples of 2 pi and pi/2 (the reduction of the angle into [0, 2 pi) rounds there)
    for base in (0.0, 2 * math.pi, -2 * math.pi, math.pi / 2, math.pi, -math.pi):
        for eps in (1e-300, 1e-17, 4e-16, 1e-15, 1e-12):
            ang += [base - eps, base + eps]
    ang += [math.atan2(-1e-17, 1.0), float(np.nextafter(0.0, -1.0)), -0.0, float(np.nextafter(2 * math.pi, 0.0)), float(np.nextafter(2 * math.pi, 7.0))]
    return np.array(ang)


def run(chk):
    import coxeter

    rng = chk.rng
    # the batch contract of distance_to_surface for every class that has it
    from .. import shapes as Z_
    for cls_ in ("Circle", "Ellipse", "ConvexPolygon", "ConvexSpheropolygon"):
        sh_, _ = Z_.make(cls_, offset=False) if cls_ in ("ConvexPolygon", "ConvexSpheropolygon") else Z_.make(cls_)
        for prob_ in C.batch_contract(sh_.distance_to_surface, np.array([0.3, 1.0, -2.0, 4.0, 7.5, 0.0]), "f"):
            chk.violation("batch-contract", dict(cls=cls_, what=prob_)); break
        chk.count("batch-contract")
        for prob_ in C.long_batch(sh_.distance_to_surface, np.array([0.3, 1.0, -2.0, 4.0, 7.5, 0.0]), "f"):
            chk.violation("long-batch-vs-short", dict(cls=cls_, what=prob_))
    nshape = 40 if chk.tier == "quick" else 600
    nang = 40 if chk.tier == "quick" else 200
    chk.notes["rule"] = ("convex polygons (regular and irregular, 3-30 vertices, axis-aligned edges, in-plane rotation and offset), rounding radii 0 and "
                         "2^k sizes (k=-6..3), circles and ellipses (all axis orders, any centre); theta uniform in [-4pi,4pi] plus vertex directions and "
                         "multiples of pi/4; non-trivial = irregular polygon or off-origin centre or theta outside [0,2pi)")
    cases, meta = [], []
    for _ in range(nshape):
        kind = rng.choice(["regular", "irregular", "irregular", "rect", "nearly-axis-aligned"])
        if kind == "regular":
            P = gen.ngon(int(rng.integers(3, 13)), float(2.0 ** rng.integers(-2, 3)), rng.choice([0.0, rng.uniform(0, 1)]))
        elif kind == "rect":
            a, b = float(rng.integers(1, 6)), float(rng.integers(1, 6))
            P = np.array([[0, 0], [a, 0], [a, b], [0, b]], float)
        elif kind == "nearly-axis-aligned":
            # a quadrilateral whose edges miss the vertical / horizontal by a few parts per million (not special cases: plain slanted edges)
            a, b = float(rng.integers(1, 6)), float(rng.integers(1, 6))
            e1, e2 = [float(2.0 ** -int(rng.integers(18, 27))) * float(rng.choice([-1, 1])) for _ in range(2)]
            P = np.array([[0, 0], [a, a * e2], [a + b * e1, b], [b * e1 * 0.5, b - a * e2]], float)
        else:
            _, P = gen.simple_polygon(rng, kind="convex")
        P = gen.dy(P, 12 if kind != "nearly-axis-aligned" else 40) + gen.dy(rng.uniform(-5, 5, 2), 4) * rng.choice([0.0, 1.0])
        # any size: a third of the shapes (offset included) are rescaled exactly by a power of two between 2^-30 (1e-9) and 2^8
        if rng.random() < 0.34:
            P = P * 2.0 ** int(rng.integers(-30, 9))
        # the same polygon listed clockwise (the constructor then gives it the normal -z) is the same set of points of the xy-plane
        if rng.random() < 0.4:
            P = P[::-1].copy()
            kind += "/cw"
        V = np.c_[P, np.zeros(len(P))]
        if np.cross(V[2] - V[1], V[0] - V[1])[2] == 0:
            continue
        size = float(np.max(P.max(0) - P.min(0)))
        # radius 0: the plain ConvexPolygon, and also the spheropolygon with rounding radius exactly 0 (a legitimate value)
        for r, sphero in ((0.0, False), (0.0, True), (float(size * 2.0 ** int(rng.integers(-6, 4))), True)):
            if not sphero:
                st, sh = C.excname(coxeter.shapes.ConvexPolygon, V)
            else:
                st, sh = C.excname(coxeter.shapes.ConvexSpheropolygon, V, r)
            if st != "ok":
                chk.violation("constructor-raised", dict(vertices=V.tolist(), radius=r, error=st)); continue
            Vs = np.array(sh.vertices)
            meta.append(dict(kind=kind, sh=sh, V=Vs, r=r, size=size, i=len(cases)))
            cases.append(C.encode_case("polygon", sc=[0, 0, 0, 0, 0], qs=C.flat(Vs)))
    res = C.run_model(cases)
    # second round: exact boundary distances of the implementation's points
    cases2 = []
    for m in meta:
        cen = np.array([C.fl(x) for x in res[m["i"]][6:9]])
        m["cen"] = cen
        ang = angle_set(rng, m["V"][:, :2], cen, nang)
        st, d = C.excname(lambda: np.asarray(m["sh"].distance_to_surface(ang.copy()), float))
        m["ang"], m["st"], m["d"] = ang, st, d
        if st != "ok":
            chk.violation("distance_to_surface-raised", dict(vertices=m["V"].tolist(), radius=m["r"], error=st)); continue
        # the same angles in other input forms (python list, one-element array, integer array) give the same distances
        for form, arg, sel in (("list", [float(x) for x in ang[:5]], slice(0, 5)), ("single-element array", ang[3:4].copy(), slice(3, 4)),
                               ("integer array", np.array([-7, 0, 1, 2, 9]), None)):
            st2, d2 = C.excname(lambda: np.asarray(m["sh"].distance_to_surface(arg), float).ravel())
            ref = d[sel] if sel is not None else np.asarray(m["sh"].distance_to_surface(np.array([-7.0, 0.0, 1.0, 2.0, 9.0])), float)
            if st2 != "ok" or d2.shape != ref.shape or not np.allclose(d2, ref, rtol=1e-12, atol=0):
                chk.violation("distance_to_surface-input-form", dict(vertices=m["V"].tolist(), radius=m["r"], form=form, outcome=st2,
                                                                     got=None if st2 != "ok" else d2.tolist(), expected=np.asarray(ref).tolist()))
                break
        # ... and as arrays of any shape (a row, a column, a grid): one distance per angle, in the shape of the input
        n2 = (len(ang) // 2) * 2
        for form, arg in (("(1, N) row", ang[None, :].copy()), ("(N, 1) column", ang[:, None].copy()), ("(2, N/2) grid", ang[:n2].reshape(2, -1).copy())):
            st2, g = C.excname(lambda: np.asarray(m["sh"].distance_to_surface(arg), float))
            ref = d[: arg.size].reshape(arg.shape)
            if st2 != "ok" or g.shape != arg.shape or not np.allclose(g, ref, rtol=1e-12, atol=0, equal_nan=True):
                bad = None if st2 != "ok" or g.shape != arg.shape else int(np.flatnonzero(~np.isclose(g, ref, rtol=1e-12, atol=0, equal_nan=True).ravel())[0])
                chk.violation("distance_to_surface-input-form", dict(vertices=m["V"].tolist(), radius=m["r"], form=form, outcome=st2,
                                                                     result_shape=None if st2 != "ok" else list(g.shape), first_differing_entry=bad,
                                                                     theta=None if bad is None else float(arg.ravel()[bad]),
                                                                     got=None if bad is None else float(g.ravel()[bad]), as_1d=None if bad is None else float(ref.ravel()[bad])))
                break
            chk.count("angles-as-" + form)
        pts = cen[:2] + d[:, None] * np.stack([np.cos(ang), np.sin(ang)], 1)
        m["pts"] = pts
        if type(m["sh"]).__name__ == "ConvexPolygon":
            branch_correspondence(chk, m["sh"], ang, d, m)
        m["j"] = len(cases2)
        clean = np.where(np.isfinite(pts), pts, 0.0)
        cases2.append(C.encode_case("winding2", sc=C.flat(clean), qs=C.flat(m["V"][:, :2])))
    res2 = C.run_model(cases2)
    nvm, okvm = C.vm_crosscheck(cases2[:2], res2[:2], "C14", limit=2)
    if not okvm:
        chk.violation("extraction-vs-vm_compute", dict(what="extracted binary and vm_compute disagree"), no_input=True)
    chk.notes["vm_crosschecked"] = nvm
    for m in meta:
        if m["st"] != "ok":
            continue
        r2 = res2[m["j"]]
        ang, d, r, size = m["ang"], m["d"], m["r"], m["size"]
        cls = type(m["sh"]).__name__
        irregular = not m["kind"].startswith("regular")
        for k in range(len(ang)):
            inside, bd2 = bool(r2[4 * k]), C.fl(r2[4 * k + 3])
            dist = math.sqrt(bd2)
            chk.case([cls, m["V"].tolist(), r, float(ang[k])], irregular or np.linalg.norm(m["cen"]) > 1e-9 or not (0 <= ang[k] < 2 * math.pi))
            bad = (not np.isfinite(d[k])) or d[k] <= 0 or abs(dist - r) > TOL * (size + r) or (r > 0 and inside and dist > TOL * size)
            if bad:
                desc = dict(cls=cls, kind=m["kind"], vertices=m["V"].tolist(), radius=r, theta=float(ang[k]), impl=float(d[k]),
                            centre=m["cen"].tolist(), distance_of_returned_point_to_core_boundary=dist, inside_core=inside)
                chk.violation("%s.distance_to_surface" % cls, desc)
        chk.count("cls:" + cls); chk.count("kind:" + m["kind"])
        chk.sample(dict(cls=cls, kind=m["kind"], nverts=len(m["V"]), radius=r, theta=float(ang[0]), impl=float(d[0])))
    curved(chk, rng, 40 if chk.tier == "quick" else 600, nang)


def branch_correspondence(chk, sh, ang, d, m):
    """the branch formulas the theorem C14_edge_branches_are_ray_parameter is about (Model/DistanceBranches.v edge_distance), float-extracted,
    against the implementation: for every angle the edge the ray actually leaves through is found here, and the model is evaluated on that
    edge as the implementation sees it (vertices minus the implementation's centroid, angle reduced into [0, 2 pi))"""
    P = (np.asarray(sh.vertices, float) - np.asarray(sh.centroid, float))[:, :2]
    thm = np.mod(ang, 2 * math.pi)
    lines, idx = [], []
    n = len(P)
    size = float(np.max(np.ptp(P, axis=0)))
    for k in range(len(ang)):
        u = np.array([math.cos(thm[k]), math.sin(thm[k])])
        best = None
        for i in range(n):
            a, b = P[i], P[(i + 1) % n]
            e = b - a
            den = u[0] * e[1] - u[1] * e[0]
            if abs(den) < 1e-9 * size:
                continue
            t = (a[0] * e[1] - a[1] * e[0]) / den
            s_ = (a[0] * u[1] - a[1] * u[0]) / den
            if t > 0 and 1e-6 < s_ < 1 - 1e-6 and (best is None or t < best[0]):
                best = (t, i)
        if best is None or abs(u[0]) < 1e-9:
            continue
        a, b = P[best[1]], P[(best[1] + 1) % n]
        lines.append("E|%s" % C.hx([a[0], a[1], b[0], b[1], thm[k]]))
        idx.append(k)
    if not lines:
        return
    res = C.run_model_r(lines)
    chk.count("model-correspondence:edge-branches", len(lines))
    for r_, k in zip(res, idx):
        if r_ is None or not (abs(r_.real - d[k]) <= 1e-9 * (size + abs(d[k]))):
            chk.violation("model-vs-implementation", dict(cls="ConvexPolygon", vertices=m["V"].tolist(), theta=float(ang[k]), impl=float(d[k]),
                                                          model=None if r_ is None else r_.real,
                                                          what="the Coq model of the edge branch formulas (float-extracted) and the implementation differ"))
            return


def curved(chk, rng, n, nang):
    import coxeter

    for _ in range(n):
        a, b = [float(2.0 ** rng.integers(-3, 4)) * float(rng.integers(1, 8)) / 4 for _ in range(2)]
        cen = gen.dy(rng.uniform(-5, 5, 3), 4)
        ang = np.r_[rng.uniform(-4 * math.pi, 4 * math.pi, nang), [k * math.pi / 4 for k in range(-16, 17)]]
        for nm, sh, aa, bb in (("Circle", coxeter.shapes.Circle(a, cen), a, a), ("Ellipse", coxeter.shapes.Ellipse(a, b, cen), a, b)):
            st, d = C.excname(lambda: np.asarray(sh.distance_to_surface(ang.copy()), float))
            if st != "ok":
                chk.violation(nm + ".distance_to_surface-raised", dict(a=aa, b=bb, error=st)); continue
            lvl = (d * np.cos(ang) / aa) ** 2 + (d * np.sin(ang) / bb) ** 2
            for k in np.where((np.abs(lvl - 1) > 1e-10) | (d <= 0) | ~np.isfinite(d))[0][:1]:
                chk.violation(nm + ".distance_to_surface", dict(a=aa, b=bb, theta=float(ang[k]), impl=float(d[k]), level=float(lvl[k])))
            for k in range(len(ang)):
                chk.case([nm, aa, bb, float(ang[k])], aa != bb or not (0 <= ang[k] < 2 * math.pi))
            chk.count("cls:" + nm)
            # integer-valued angles in other input forms (integer array, list of ints) mean the same directions as the float array
            ia = np.array([-7, 0, 1, 2, 9])
            ref = np.asarray(sh.distance_to_surface(ia.astype(float)), float)
            for form, arg in (("integer array", ia.copy()), ("list of ints", [int(x) for x in ia]), ("list of floats", [float(x) for x in ia])):
                st2, d2 = C.excname(lambda: np.asarray(sh.distance_to_surface(arg), float).ravel())
                if st2 != "ok" or d2.shape != ref.shape or not np.allclose(d2, ref, rtol=1e-12, atol=0):
                    chk.violation(nm + ".distance_to_surface-input-form", dict(a=aa, b=bb, form=form, outcome=st2, got=None if st2 != "ok" else d2.tolist(),
                                                                              expected=ref.tolist()))
                    break


def extra_coverage(chk):
    return dict(vm_compute_crosschecks=chk.notes.get("vm_crosschecked", 0))


def replay(chk, rep):
    import coxeter

    d = rep["detail"]
    V = np.array(d["vertices"])
    sh = coxeter.shapes.ConvexSpheropolygon(V, d["radius"]) if d.get("radius") else coxeter.shapes.ConvexPolygon(V)
    return dict(impl=float(sh.distance_to_surface(np.array([d["theta"]]))[0]), recorded=d)
