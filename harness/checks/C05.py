"""C05 - 3-D point containment equals exact membership."""
import numpy as np

from .. import common as C
from .. import gen

ASSUMPTIONS = [
    "exact membership: convex = all exact face half-spaces; general polyhedra = signed covering number by the tetrahedra (o, triangle) "
    "for a generic apex o (re-drawn when the point lies on a tetrahedron face plane); spheropolyhedron = inside the core or exact squared "
    "distance to the core's surface <= r^2; all evaluated by the Coq model in exact rationals",
    "points whose exact distance to the boundary is below 1e-9 * size are generated but not judged",
]


def query_points(rng, V, tris, n):
    lo, hi = V.min(0), V.max(0)
    c, ext = (lo + hi) / 2, np.maximum(hi - lo, 1e-12)
    size = float(np.max(ext))
    pts = [c + rng.uniform(-0.75, 0.75, 3) * ext for _ in range(n // 3)]
    for _ in range(n // 3):
        t = tris[int(rng.integers(len(tris)))]
        a, b, cc = V[t[0]], V[t[1]], V[t[2]]
        w = rng.dirichlet(rng.choice([[1, 1, 1], [1, 1, 1e-9], [1, 1e-9, 1e-9]]))
        q = w[0] * a + w[1] * b + w[2] * cc
        nrm = np.cross(b - a, cc - a)
        nrm = nrm / (np.linalg.norm(nrm) + 1e-300)
        d = rng.choice([1e-6, 1e-3, 1e-1]) * size * rng.choice([-1, 1])
        pts.append(q + d * nrm)
    for _ in range(n - len(pts)):
        q = c + rng.uniform(-0.75, 0.75, 3) * ext
        ks = rng.permutation(3)[: int(rng.integers(1, 3))]
        for k in ks:
            q[k] = V[int(rng.integers(len(V)))][k]
        pts.append(q)
    return gen.dy(np.array(pts), 24)


def generic_apex(rng, V):
    c = V.mean(0)
    ext = float(np.max(V.max(0) - V.min(0)))
    return c + ext * np.array([rng.integers(3, 9) + 1 / 3.0, rng.integers(3, 9) + 1 / 7.0, rng.integers(3, 9) + 1 / 11.0]) * rng.choice([-1, 1], 3)


def collinear_boundary(P):
    """True when three vertices of the (dyadic) polygon lie on one line without being three consecutive vertices (exact test)."""
    from fractions import Fraction
    Q = [(Fraction(float(x)), Fraction(float(y))) for x, y in P]
    n = len(Q)
    for i in range(n):
        for j in range(i + 1, n):
            for k in range(j + 1, n):
                if (j - i == 1 and k - j == 1) or (i == 0 and j == n - 2 and k == n - 1) or (i == 0 and j == 1 and k == n - 1):
                    continue
                if (Q[j][0] - Q[i][0]) * (Q[k][1] - Q[i][1]) == (Q[j][1] - Q[i][1]) * (Q[k][0] - Q[i][0]):
                    return True
    return False


def run(chk):
    import coxeter

    rng = chk.rng
    # the batch contract of is_inside for every 3-D class (base shapes of the harness, points around the shape)
    from .. import shapes as Z_
    for cls_ in ("Sphere", "Ellipsoid", "Polyhedron", "ConvexPolyhedron", "ConvexSpheropolyhedron"):
        sh_, _ = Z_.make(cls_)
        c_ = np.asarray(sh_.vertices, float).mean(0) if hasattr(sh_, "vertices") else np.asarray(sh_.centroid, float)
        B_ = c_ + np.array([[0.1, 0.2, 0.05], [0.6, -0.3, 0.4], [3.0, 3.0, 3.0], [-0.2, 0.1, 0.3], [1.2, 0.1, -0.4], [-5.0, 0.0, 0.0]])
        for prob_ in C.batch_contract(sh_.is_inside, B_, "b"):
            chk.violation("batch-contract", dict(cls=cls_, what=prob_)); break
        chk.count("batch-contract")
        for prob_ in C.long_batch(sh_.is_inside, B_, "b"):
            chk.violation("long-batch-vs-short", dict(cls=cls_, what=prob_))
    quick = chk.tier == "quick"
    nconv, nmesh, ncurv, nsph = (25, 25, 30, 12) if quick else (300, 300, 400, 120)
    npts = 60 if quick else 200
    chk.notes["rule"] = ("shapes: convex sets (C01 generator), closed meshes (C02 generator, incl. non-star-shaped voxel solids, extrusions), spheres/"
                         "ellipsoids, convex spheropolyhedra, all exactly placed; points: uniform in 1.5x bounding box, at +-1e-6..1e-1 size from "
                         "faces/edges/vertices, sharing 1-2 coordinates with vertices; batch vs single. non-trivial = point shares a coordinate "
                         "with a vertex or lies within 1e-3 size of the surface or the shape is non-convex")
    cases, meta = [], []

    # ---- convex polyhedra ----
    for _ in range(nconv):
        kind, V = gen.convex_set(rng)
        st, p = C.excname(coxeter.shapes.ConvexPolyhedron, V)
        if st != "ok":
            continue
        Vp = np.array(p.vertices)
        tris = np.array(p.simplices).tolist()
        pts = query_points(rng, Vp, tris, npts)
        got = np.asarray(p.is_inside(pts), bool)
        check_batch(chk, p, pts, got, rng, "ConvexPolyhedron", Vp)
        F = [list(map(int, f)) for f in p.faces]
        i0 = len(cases)
        cases.append(C.encode_case("inside_convex", sc=C.flat(pts), qs=C.flat(Vp), idx=F))
        cases.append(C.encode_case("dist2_mesh", sc=C.flat(pts), qs=C.flat(Vp), idx=tris))
        meta.append(dict(cls="convex", kind=kind, V=Vp, F=F, pts=pts, got=got, i0=i0))

    # ---- general polyhedra ----
    for _ in range(nmesh):
        kind, V, F, info = gen.closed_mesh(rng)
        if F is None:
            cp = coxeter.shapes.ConvexPolyhedron(V)
            V, F = np.array(cp.vertices), [list(map(int, f)) for f in cp.faces]
        M, n = gen.random_rotation(rng, integer=True)
        s = 2.0 ** int(rng.integers(0, 4))
        t = gen.dy(rng.uniform(-5, 5, 3), 4)
        Vp = V @ M.T * s + t
        tl_own = None
        if kind == "extrusion" and len(cases) % 4 < 2:
            # the same prism with its two caps given as single (generally NON-CONVEX) polygonal faces, each listed from a random starting
            # vertex: the solid is the same, so membership is judged against the triangles of the harness' own ear clipping
            n_ = len(info["poly"])
            tl_own = [[f[0], f[m_], f[m_ + 1]] for f in F for m_ in range(1, len(f) - 1)]
            k1, k2 = int(rng.integers(n_)), int(rng.integers(n_))
            bot, top = list(range(n_))[::-1], [i_ + n_ for i_ in range(n_)]
            F = [bot[k1:] + bot[:k1], top[k2:] + top[:k2]] + [list(f) for f in F if len(f) == 4]
            kind = "extrusion/polygonal-caps"
        p = coxeter.shapes.Polyhedron(Vp, [np.array(f) for f in F])
        vmap = {tuple(v): i for i, v in enumerate(p.vertices)}
        if tl_own is not None:
            st, tl = "ok", tl_own
        else:
            st, tl = C.excname(lambda: [[vmap[tuple(v)] for v in tri] for tri in p._surface_triangulation()])
        if st != "ok" or (tl_own is not None and C.excname(lambda: p.is_inside(Vp.mean(0)))[0] == "ValueError"):
            # recorded finding polytri-absolute-thresholds: the vendored triangulation rejects valid small-faced meshes by absolute
            # thresholds - the same mesh scaled up by 2^24 (exact) is then accepted.  Anything else is a refusal of a valid solid.
            big = C.excname(lambda: coxeter.shapes.Polyhedron(Vp * 2.0 ** 24, [np.array(f) for f in F]).is_inside(Vp.mean(0) * 2.0 ** 24))[0]
            if big == "ok" and chk.is_known("polytri-absolute-thresholds"):
                chk.count("skipped:triangulation-raised(known polytri thresholds, judged in C02/C09)")
            elif tl_own is not None and collinear_boundary(info["poly"]) and chk.is_known("polytri-collinear-boundary"):
                # recorded finding polytri-collinear-boundary: caps with three or more non-consecutive boundary vertices on one line
                chk.known_finding("polytri-collinear-boundary", "Polyhedron.is_inside raises ValueError('Triangulation failed') for a prism whose non-convex cap has non-consecutive collinear boundary vertices (vendored ear clipping, depends on the face's starting vertex)")
                chk.count("known:polytri-collinear-boundary")
            else:
                chk.violation("is_inside-raised", dict(kind=kind, vertices=Vp.tolist(), faces=[list(map(int, f)) for f in F], error="triangulation of a valid solid refused (at any scale)"))
            continue
        pts = query_points(rng, Vp, tl, npts)
        st, got = C.excname(lambda: np.asarray(p.is_inside(pts), bool))
        if st != "ok":
            chk.violation("is_inside-raised", dict(kind=kind, vertices=Vp.tolist(), faces=F, error=st))
            continue
        check_batch(chk, p, pts, got, rng, "Polyhedron", Vp, F)
        # the same closed surface with every face listed the other way round bounds the same solid: membership does not depend on the
        # orientation convention (the winding rule tests the winding number against 0; proved orientation-free in Properties/C05.v)
        got_r = None
        st_r, p_r = C.excname(lambda: coxeter.shapes.Polyhedron(Vp, [np.array(list(f)[::-1]) for f in F]))
        if st_r == "ok":
            st_r, got_r = C.excname(lambda: np.asarray(p_r.is_inside(pts), bool))
            got_r = got_r if st_r == "ok" else None      # (judged point by point below, off the boundary only)
        o = generic_apex(rng, Vp)
        i0 = len(cases)
        cases.append(C.encode_case("winding3", sc=C.flat(o) + C.flat(pts), qs=C.flat(Vp), idx=tl))
        cases.append(C.encode_case("dist2_mesh", sc=C.flat(pts), qs=C.flat(Vp), idx=tl))
        meta.append(dict(cls="mesh", kind=kind, V=Vp, F=F, tl=tl, pts=pts, got=got, got_r=got_r, i0=i0, o=o))

    # ---- a prism over a non-convex polygon without collinearities, its caps given as single faces in EVERY cyclic labelling ----
    # (which vertex a face's listing starts from is a labelling: the solid, and membership in it, do not depend on it)
    for P0 in (np.array([[0.0, 0.0], [4.0, 0.5], [5.0, 3.0], [2.5, 1.75], [1.0, 4.0], [-0.5, 2.0]]),
               np.array([[0.0, 0.0], [3.0, 0.25], [3.25, 3.0], [2.0, 3.5], [1.75, 1.0], [0.5, 1.25], [0.25, 3.75], [-1.0, 3.5]])):
        n0, h0, off0 = len(P0), 1.5, np.array([3.25, -2.5, 5.125])
        V0 = np.vstack([np.c_[P0, np.zeros(n0)], np.c_[P0, np.full(n0, h0)]]) + off0

        def in_poly(x, y):
            c_ = False
            for i_ in range(n0):
                (x1, y1), (x2, y2) = P0[i_], P0[(i_ + 1) % n0]
                if (y1 > y) != (y2 > y) and x < x1 + (y - y1) * (x2 - x1) / (y2 - y1):
                    c_ = not c_
            return c_
        q0 = np.array([[x, y, z] for x in np.linspace(-0.9, 4.9, 9) + 0.013 for y in np.linspace(0.1, 3.9, 7) + 0.007 for z in (-0.4, 0.6, 1.9)])
        want0 = np.array([in_poly(x, y) and 0 < z < h0 for x, y, z in q0])
        sides0 = [[i_, (i_ + 1) % n0, (i_ + 1) % n0 + n0, i_ + n0] for i_ in range(n0)]
        bot0, top0 = list(range(n0))[::-1], [i_ + n0 for i_ in range(n0)]
        for k1 in range(n0):
            for k2 in ((0, k1) if k1 else range(n0)):
                F0 = [bot0[k1:] + bot0[:k1], top0[k2:] + top0[:k2]] + sides0
                st0, got0 = C.excname(lambda: np.asarray(coxeter.shapes.Polyhedron(V0, [np.array(f) for f in F0]).is_inside(q0 + off0), bool))
                chk.count("prism-cap-labellings")
                if st0 != "ok" or not np.array_equal(got0, want0):
                    chk.violation("is_inside-depends-on-face-labelling", dict(kind="prism/polygonal-caps", vertices=V0.tolist(), faces=F0, outcome=st0,
                                                                              wrong=None if st0 != "ok" else int(np.sum(got0 != want0)),
                                                                              what="caps listed from vertices %d / %d" % (k1, k2)))
                    break
            else:
                continue
            break

    # ---- spheres / ellipsoids ----
    for _ in range(ncurv):
        axes = np.array([float(2.0 ** rng.integers(-3, 4)) * float(rng.integers(1, 8)) / 4 for _ in range(3)])
        if rng.random() < 0.3:
            axes[:] = axes[0]
        c = gen.dy(rng.uniform(-5, 5, 3), 4)
        # any size: a third of the scenarios (axes, centre and points) are rescaled exactly by a power of two between 2^-32 and 2^8
        if rng.random() < 0.34:
            u = 2.0 ** int(rng.integers(-32, 9))
            axes, c = axes * u, c * u
        pts = gen.dy(c + rng.uniform(-1.5, 1.5, (npts, 3)) * axes, 16) if axes[0] >= 2.0 ** -3 else c + gen.dy(rng.uniform(-1.5, 1.5, (npts, 3)), 16) * axes
        pts[: npts // 5, int(rng.integers(3))] = c[int(rng.integers(3))]
        # points at a controlled relative distance (1e-8 .. 1e-1) inside and outside the surface, in random directions
        nb = npts // 3
        dirs = rng.normal(size=(nb, 3)); dirs /= np.linalg.norm(dirs, axis=1)[:, None]
        rel = 1.0 + rng.choice([-1.0, 1.0], nb) * 10.0 ** rng.uniform(-8, -1, nb)
        pts = np.vstack([pts, c + dirs * axes * rel[:, None], c + dirs * axes[0] * rel[:, None]])
        sph = coxeter.shapes.Sphere(axes[0], c)
        ell = coxeter.shapes.Ellipsoid(axes[0], axes[1], axes[2], c)
        gs, ge = np.asarray(sph.is_inside(pts), bool), np.asarray(ell.is_inside(pts), bool)
        check_batch(chk, ell, pts, ge, rng, "Ellipsoid", None)
        i0 = len(cases)
        cases.append(C.encode_case("inside_ellipsoid", sc=C.flat(c) + [axes[0]] * 3 + C.flat(pts)))
        cases.append(C.encode_case("inside_ellipsoid", sc=C.flat(c) + C.flat(axes) + C.flat(pts)))
        meta.append(dict(cls="curved", axes=axes, c=c, pts=pts, gs=gs, ge=ge, i0=i0))

    # ---- convex spheropolyhedra ----
    for _ in range(nsph):
        kind, V = gen.convex_set(rng)
        size = float(np.max(V.max(0) - V.min(0)))
        r = float(size * 2.0 ** int(rng.integers(-6, 2)))
        st, sp = C.excname(coxeter.shapes.ConvexSpheropolyhedron, V, r)
        if st != "ok":
            continue
        core = sp.polyhedron
        Vp = np.array(core.vertices)
        tris = np.array(core.simplices).tolist()
        pts = query_points(rng, Vp, tris, npts // 2)
        # more points in the rounding shell
        sel = rng.integers(len(pts), size=npts // 2)
        shell = pts[sel] + gen.dy(rng.normal(size=(len(sel), 3)) * r * 0.7, 24)
        pts = np.vstack([pts, shell])
        st, got = C.excname(lambda: np.asarray(sp.is_inside(pts), bool))
        if st != "ok":
            chk.violation("is_inside-raised", dict(cls="ConvexSpheropolyhedron", vertices=Vp.tolist(), radius=r, error=st))
            continue
        check_batch(chk, sp, pts, got, rng, "ConvexSpheropolyhedron", Vp)
        F = [list(map(int, f)) for f in core.faces]
        i0 = len(cases)
        cases.append(C.encode_case("inside_convex", sc=C.flat(pts), qs=C.flat(Vp), idx=F))
        cases.append(C.encode_case("dist2_mesh", sc=C.flat(pts), qs=C.flat(Vp), idx=tris))
        # the algorithm of the code (core / extruded faces / edge cylinders / vertex spheres; Model/Sphero.v), in exact arithmetic
        cases.append(C.encode_case("sphero_inside", sc=[C.fr(r) ** 2] + C.flat(pts), qs=C.flat(Vp), idx=F))
        meta.append(dict(cls="sphero", kind=kind, V=Vp, r=r, pts=pts, got=got, i0=i0))

    res = C.run_model(cases)
    small = [k for k, c_ in enumerate(cases) if len(c_) < 20000][:3]
    nvm, okvm = C.vm_crosscheck([cases[k] for k in small], [res[k] for k in small], "C05", limit=3)
    if not okvm:
        chk.violation("extraction-vs-vm_compute", dict(what="extracted binary and vm_compute disagree"), no_input=True)
    chk.notes["vm_crosschecked"] = nvm

    redo = []
    for m in meta:
        r0, r1 = res[m["i0"]], res[m["i0"] + 1]
        pts = m["pts"]
        if m["cls"] == "curved":
            for k in range(len(pts)):
                u = (pts[k] - m["c"]) / m["axes"]
                us = (pts[k] - m["c"]) / m["axes"][0]
                chk.case([m["axes"].tolist(), m["c"].tolist(), pts[k].tolist()], True)
                if abs(us @ us - 1) > 1e-9 and bool(m["gs"][k]) != bool(r0[k]):
                    chk.violation("sphere-is_inside", dict(radius=m["axes"][0], center=m["c"].tolist(), point=pts[k].tolist(), impl=bool(m["gs"][k]), exact=bool(r0[k])))
                if abs(u @ u - 1) > 1e-9 and bool(m["ge"][k]) != bool(r1[k]):
                    chk.violation("ellipsoid-is_inside", dict(axes=m["axes"].tolist(), center=m["c"].tolist(), point=pts[k].tolist(), impl=bool(m["ge"][k]), exact=bool(r1[k])))
            chk.count("cls:curved")
            continue
        V = m["V"]
        size = float(np.max(V.max(0) - V.min(0)))
        coordsets = [set(V[:, j].tolist()) for j in range(3)]
        if m["cls"] == "sphero":
            # the hypotheses of C05_spheropolyhedron_is_inside_spec (planar strictly convex ccw faces, every edge covered by a neighbour), decided
            # exactly for the implementation's own face list
            chk.count("sphero:certificate-holds" if int(res[m["i0"] + 2][0]) == 1 else "sphero:certificate-fails(theorem does not apply)")
        for k in range(len(pts)):
            d2 = C.fl(r1[k])
            shares = any(pts[k][j] in coordsets[j] for j in range(3))
            near = d2 < (1e-3 * size) ** 2
            chk.case([m["cls"], V.tolist(), pts[k].tolist()], shares or near or m["cls"] == "mesh")
            if m["cls"] == "convex":
                exact = bool(r0[2 * k])
                if d2 <= (1e-9 * size) ** 2:
                    chk.count("unjudged:boundary"); continue
                if bool(m["got"][k]) != exact:
                    chk.violation("convex-is_inside", dict(kind=m["kind"], vertices=V.tolist(), point=pts[k].tolist(), impl=bool(m["got"][k]), exact=exact, dist=float(np.sqrt(d2))))
            elif m["cls"] == "sphero":
                incore = bool(r0[2 * k])
                r = m["r"]
                exact = incore or d2 <= r * r
                marg = abs(np.sqrt(d2) - r) if not incore else np.inf
                if marg <= 1e-9 * size or (incore and d2 <= (1e-9 * size) ** 2):
                    chk.count("unjudged:boundary"); continue
                if bool(m["got"][k]) != exact:
                    chk.violation("spheropolyhedron-is_inside", dict(kind=m["kind"], vertices=V.tolist(), radius=r, point=pts[k].tolist(),
                                                                    impl=bool(m["got"][k]), exact=exact, dist_to_core=float(np.sqrt(d2)), in_core=incore))
                # model of the algorithm vs. implementation, and vs. the exact specification (the theorem C05_spheropolyhedron_* are about it)
                ralg = res[m["i0"] + 2][1:]
                alg = bool(ralg[3 * k])
                chk.count("sphero:model-of-algorithm")
                if alg != bool(m["got"][k]):
                    chk.violation("spheropolyhedron-model-vs-implementation", dict(kind=m["kind"], vertices=V.tolist(), radius=r, point=pts[k].tolist(),
                                  impl=bool(m["got"][k]), model=alg, faces_looked_at=int(ralg[3 * k + 2]), dist_to_core=float(np.sqrt(d2)), in_core=incore))
                elif alg != exact:
                    chk.violation("spheropolyhedron-algorithm-vs-specification", dict(kind=m["kind"], vertices=V.tolist(), radius=r, point=pts[k].tolist(),
                                  model=alg, exact=exact, dist_to_core=float(np.sqrt(d2)), in_core=incore), no_input=False)
            else:
                code, cov, deg, csum = r0[4 * k], int(r0[4 * k + 1]), r0[4 * k + 2], int(r0[4 * k + 3])
                if d2 <= (1e-9 * size) ** 2:
                    chk.count("unjudged:boundary"); continue
                if deg == 1:
                    redo.append((m, k)); continue
                judge_mesh(chk, m, k, code, cov, csum, d2)
            chk.count("pts:shares" if shares else ("pts:near" if near else "pts:generic"))
        chk.count("cls:" + m["cls"])
        chk.sample(dict(cls=m["cls"], kind=m.get("kind"), nverts=len(V), point=pts[0].tolist(), impl=bool(m["got"][0])))
    # points that were degenerate for the apex: re-draw the apex (a few times)
    for attempt in range(4):
        if not redo:
            break
        cases2 = []
        for m, k in redo:
            o = generic_apex(rng, m["V"])
            cases2.append(C.encode_case("winding3", sc=C.flat(o) + C.flat(m["pts"][k]), qs=C.flat(m["V"]), idx=m["tl"]))
        res2 = C.run_model(cases2)
        nxt = []
        for (m, k), r in zip(redo, res2):
            if r[2] == 1:
                nxt.append((m, k)); continue
            d2 = 1.0
            judge_mesh(chk, m, k, r[0], int(r[1]), int(r[3]), d2)
        redo = nxt
    chk.count("unjudged:apex-degenerate", len(redo))


def judge_mesh(chk, m, k, code, cov, csum, d2):
    exact = cov != 0
    if cov not in (0, 1):
        chk.violation("spec-covering-number", dict(vertices=m["V"].tolist(), faces=m["F"], point=m["pts"][k].tolist(), cover=cov), no_input=True)
    if csum % 2 != 0:
        chk.violation("model-odd-chain-sum", dict(vertices=m["V"].tolist(), faces=m["F"], point=m["pts"][k].tolist(), chain_sum=csum), no_input=True)
    if bool(m["got"][k]) != exact:
        chk.violation("polyhedron-is_inside", dict(kind=m["kind"], vertices=m["V"].tolist(), faces=m["F"], point=m["pts"][k].tolist(),
                                                  impl=bool(m["got"][k]), exact=exact, model_of_code=bool(code)))
    elif bool(code) != exact:
        chk.violation("model-vs-spec", dict(vertices=m["V"].tolist(), faces=m["F"], point=m["pts"][k].tolist(),
                                            what="winding model differs from covering number"), no_input=True)
    if m.get("got_r") is not None and bool(m["got_r"][k]) != exact:
        chk.violation("polyhedron-is_inside-orientation", dict(kind=m["kind"], vertices=m["V"].tolist(), faces=m["F"], point=m["pts"][k].tolist(),
                                                              faces_reversed=bool(m["got_r"][k]), exact=exact,
                                                              what="the same surface with every face reversed bounds the same solid"))


def check_batch(chk, shape, pts, got, rng, name, V, F=None):
    if got.shape != (len(pts),):
        chk.violation("batch-shape", dict(cls=name, shape=list(got.shape), n=len(pts)))
        return
    for k in rng.integers(len(pts), size=2):
        st, single = C.excname(lambda: np.asarray(shape.is_inside(pts[k]), bool))
        if st != "ok" or single.shape != (1,) or bool(single[0]) != bool(got[k]):
            chk.violation("batch-vs-single", dict(cls=name, point=pts[k].tolist(), batch=bool(got[k]), single=None if st != "ok" else single.tolist(),
                                                  vertices=None if V is None else V.tolist(), faces=F, error=st))


    # other input forms of the same points: nested python list, and - when the coordinates are integral - an integer array
    sel = [int(k) for k in rng.integers(len(pts), size=min(4, len(pts)))]
    st, asl = C.excname(lambda: np.asarray(shape.is_inside(pts[sel].tolist()), bool))
    if st != "ok" or asl.shape != (len(sel),) or asl.tolist() != [bool(got[k]) for k in sel]:
        chk.violation("input-form:list", dict(cls=name, points=pts[sel].tolist(), batch=[bool(got[k]) for k in sel], as_list=None if st != "ok" else asl.tolist(),
                                              vertices=None if V is None else V.tolist(), faces=F, error=st))
    ints = [k for k in range(len(pts)) if np.all(pts[k] == np.round(pts[k])) and np.all(np.abs(pts[k]) < 2 ** 31)][:4]
    if ints:
        st, asi = C.excname(lambda: np.asarray(shape.is_inside(pts[ints].astype(np.int64)), bool))
        if st != "ok" or asi.tolist() != [bool(got[k]) for k in ints]:
            chk.violation("input-form:integer-array", dict(cls=name, points=pts[ints].tolist(), batch=[bool(got[k]) for k in ints],
                                                           as_int=None if st != "ok" else asi.tolist(), vertices=None if V is None else V.tolist(), faces=F, error=st))


def extra_coverage(chk):
    return dict(vm_compute_crosschecks=chk.notes.get("vm_crosschecked", 0))


def replay(chk, rep):
    import coxeter

    d = rep["detail"]
    if d.get("faces"):
        p = coxeter.shapes.Polyhedron(np.array(d["vertices"]), [np.array(f) for f in d["faces"]])
    elif "radius" in d and "vertices" in d:
        p = coxeter.shapes.ConvexSpheropolyhedron(np.array(d["vertices"]), d["radius"])
    elif "vertices" in d:
        p = coxeter.shapes.ConvexPolyhedron(np.array(d["vertices"]))
    else:
        return d
    return dict(impl=p.is_inside(np.array(d["point"])).tolist(), exact=d.get("exact"))
