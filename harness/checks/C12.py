"""C12 - form factor amplitude is the Fourier transform of the shape."""
import math

import numpy as np

from .. import common as C
from .. import gen

ASSUMPTIONS = [
    "oracle = direct Gauss-Legendre quadrature of exp(-i q.r) over the signed tetrahedra (origin, surface triangle) of the solid / the signed fan triangles "
    "of the polygon / the radial integral of the sphere, in the harness (binary64, 32 points per dimension, apex at the vertex mean, |q| * size <= 30): independent of the "
    "Stokes-type line-integral formula the implementation uses; tolerance 1e-5 * (volume or area) + 1e-9",
    "the surface triangulation used by the oracle is the exact fan triangulation of the faces from the Coq model (entry fans)",
    "polygon: q is projected into the polygon's plane, as the property states",
    "model <-> code tie for the hand-written formulas polygon_ff_code / polyhedron_ff_code: the Coq definitions are extracted with R realised by binary64 "
    "(Extract/ExtractR.v: R => float, R0 R1 Rplus Rmult Ropp Rinv => float operations, sin cos => OCaml's, Rle_dec Rlt_dec Req_EM_T => float comparisons, "
    "ClassicalDedekindReals.sig_forall_dec => dummy for dead code; these directives are unsound as statements about reals and are used for this comparison only, "
    "no theorem depends on them) and compared with the implementation to 1e-8 * measure for |q| size >= 0.1 on the q != 0 branch of every face",
    "sphere: the two value expressions of Sphere.compute_form_factor_amplitude are regenerated from the source on every run (harness/translate/scalars.py); the "
    "masked-array plumbing and the phase/density statement are matched textually (fail closed)",
    "modelled, not proved: the signed cones (o, a, b, c) of a closed oriented surface tile the solid (shared with C01/C02); faces are listed counter-clockwise "
    "about their stored normals (the orientation factor of the polygon method is then +1: C12_code_face_term_counterclockwise)",
]
NGL = 32
_x, _w = np.polynomial.legendre.leggauss(NGL)
_x = (_x + 1) / 2
_w = _w / 2


def tet_rule():
    """Duffy-type rule on the reference tetrahedron {(u,v,w): u,v,w>=0, u+v+w<=1}"""
    a, b, c = np.meshgrid(_x, _x, _x, indexing="ij")
    wa, wb, wc = np.meshgrid(_w, _w, _w, indexing="ij")
    u = a
    v = (1 - a) * b
    w = (1 - a) * (1 - b) * c
    jac = (1 - a) ** 2 * (1 - b)
    return np.stack([u.ravel(), v.ravel(), w.ravel()], 1), (wa * wb * wc * jac).ravel()


def tri_rule():
    a, b = np.meshgrid(_x, _x, indexing="ij")
    wa, wb = np.meshgrid(_w, _w, indexing="ij")
    u = a
    v = (1 - a) * b
    return np.stack([u.ravel(), v.ravel()], 1), (wa * wb * (1 - a)).ravel()


TP, TW = tet_rule()
RP, RW = tri_rule()


def ft_solid(V, tris, Q):
    """sum over signed tetrahedra (apex, a, b, c) with the apex at the vertex mean (keeps the phase variation small)"""
    out = np.zeros(len(Q), complex)
    apex = V.mean(0)
    W = V - apex
    for t in tris:
        a, b, c = W[t[0]], W[t[1]], W[t[2]]
        det = np.linalg.det(np.array([a, b, c]))
        pts = TP[:, 0:1] * a + TP[:, 1:2] * b + TP[:, 2:3] * c
        ph = np.exp(-1j * pts @ Q.T)      # (npts, nq)
        out += det * (TW @ ph)
    return out * np.exp(-1j * Q @ apex)


def ft_polygon(V, n, Q):
    """integral over the polygon's area of exp(-i q'.r), q' = q projected into the plane; signed fan about V[0]"""
    Qp = Q - np.outer(Q @ n, n)
    out = np.zeros(len(Q), complex)
    c0 = V.mean(0)
    W = V - c0
    for k in range(1, len(V) - 1):
        a, b, c = W[0], W[k], W[k + 1]
        area2 = np.cross(b - a, c - a) @ n       # twice the signed area about n
        pts = a + RP[:, 0:1] * (b - a) + RP[:, 1:2] * (c - a)
        out += area2 * (RW @ np.exp(-1j * pts @ Qp.T))
    return out * np.exp(-1j * Qp @ c0)


def qs_for(rng, size, extra_dirs, nq):
    Q = []
    for _ in range(nq):
        d = rng.normal(size=3); d /= np.linalg.norm(d)
        Q.append(d * float(10 ** rng.uniform(-3, math.log10(30))) / size)
    for d in extra_dirs:
        d = np.asarray(d, float)
        nd = np.linalg.norm(d)
        if nd > 0:
            Q.append(d / nd * float(rng.uniform(0.5, 20)) / size)
    Q += [np.array([1.0, 0, 0]) / size, np.array([0, 2.0, 0]) / size, np.array([0, 0, 5.0]) / size, np.zeros(3)]
    return np.array(Q)


def run(chk):
    import coxeter

    S = coxeter.shapes
    rng = chk.rng
    # the batch contract of compute_form_factor_amplitude
    from .. import shapes as Z_
    for cls_ in ("Sphere", "Polygon", "ConvexPolygon", "Polyhedron", "ConvexPolyhedron"):
        sh_, _ = Z_.make(cls_)
        for prob_ in C.batch_contract(sh_.compute_form_factor_amplitude, np.array([[0.3, -0.2, 0.5], [1.0, 0.0, 0.0], [0.0, 0.0, 0.0], [0.1, 0.7, -0.4], [0.0, 0.0, 2.0], [-0.6, 0.2, 0.1]]), "c", bare_row=False, lists=False):      # (documented input: an (N, 3) array; the property speaks of batches from (1, 3) upward)
            chk.violation("batch-contract", dict(cls=cls_, what=prob_)); break
        chk.count("batch-contract")
        for prob_ in C.long_batch(sh_.compute_form_factor_amplitude, np.array([[0.3, -0.2, 0.5], [1.0, 0.0, 0.0], [0.0, 0.0, 0.0], [0.1, 0.7, -0.4], [0.0, 0.0, 2.0], [-0.6, 0.2, 0.1]]), "c", sizes=(1500, 2049)):
            chk.violation("long-batch-vs-short", dict(cls=cls_, what=prob_))
        # a copy of a shape (deepcopy / pickle) scatters like its original, and resizing either leaves the other's amplitudes alone
        Qc_ = np.array([[0.3, -0.2, 0.5], [0.0, 0.0, 0.0], [0.0, 0.0, 2.0], [-0.6, 0.2, 0.1]])
        for prob_ in C.copy_probe(lambda: Z_.make(cls_)[0], lambda s_: dict(re=np.real(s_.compute_form_factor_amplitude(Qc_)), im=np.imag(s_.compute_form_factor_amplitude(Qc_))))[:1]:
            chk.violation("copy-scatters-differently", dict(cls=cls_, q=Qc_.tolist(), what=prob_))
        chk.count("copy-probe")
    nsh, nq = (8, 12) if chk.tier == "quick" else (120, 60)
    chk.notes["rule"] = ("convex sets, closed meshes (voxel/extrusion/star) and simple polygons (both orientations, tilted) and spheres, exactly placed off-origin; "
                         "q: random directions with |q|*size in [1e-3,30], exactly along face normals, perpendicular to edges, along axes, q=0; batches of "
                         "size 1 and mixed; non-trivial = off-origin shape or q along a face normal / perpendicular to an edge / zero")
    # ---------------------------------------------------------------- polyhedra
    items = []
    for _ in range(nsh):
        mode = rng.choice(["convex", "mesh"])
        if mode == "convex":
            kind, V = gen.convex_set(rng, kinds=("ellipsoid", "lattice", "prismatic"))
            if len(V) > 14:
                continue
            sh = S.ConvexPolyhedron(V)
        else:
            kind, V, F, info = gen.closed_mesh(rng)
            if F is None or len(F) > 40:
                continue
            M, nn = gen.random_rotation(rng, integer=True)
            V = V @ M.T * 0.25 + gen.dy(rng.uniform(-3, 3, 3), 4)
            sh = S.Polyhedron(V, [np.array(f) for f in F])
        items.append((kind, sh))
    cases = [C.encode_case("fans", idx=[list(map(int, f)) for f in sh.faces]) for _, sh in items]
    res = C.run_model(cases)
    for (kind, sh), r in zip(items, res):
        V = np.array(sh.vertices, float)
        tris = np.array([int(x) for x in r]).reshape(-1, 3)
        size = float(np.max(np.linalg.norm(V - V.mean(0), axis=1))) * 2
        vol = abs(float(sum(np.linalg.det(V[t]) for t in tris)) / 6)
        normals = [np.cross(V[f[2]] - V[f[1]], V[f[0]] - V[f[1]]) for f in sh.faces][:4]
        edges = [V[f[1]] - V[f[0]] for f in sh.faces][:3]
        perp = [np.cross(e, rng.normal(size=3)) for e in edges]
        Q = qs_for(rng, size, normals + perp, nq)
        exact = ft_solid(V, tris, Q)
        judge(chk, type(sh).__name__, kind, sh, Q, exact, vol, dict(vertices=V.tolist(), faces=[list(map(int, f)) for f in sh.faces], _size=size, _offc=1.0 + float(np.linalg.norm(V.mean(0))) / size))
        translation_law(chk, sh, Q, vol)
        model_correspondence(chk, type(sh).__name__, kind, sh, Q, vol, size, dict(vertices=V.tolist(), faces=[list(map(int, f)) for f in sh.faces]))
    # ---------------------------------------------------------------- polygons
    for _ in range(nsh):
        kind, P = gen.simple_polygon(rng)
        if len(P) > 16:
            continue
        if rng.random() < 0.5:
            P = P[::-1].copy()
        M, nn = gen.random_rotation(rng, integer=True)
        V = np.c_[P, np.zeros(len(P))] @ M.T * 0.25 + gen.dy(rng.uniform(-3, 3, 3), 4)
        if np.linalg.norm(np.cross(V[2] - V[1], V[0] - V[1])) == 0:
            continue
        sh = S.Polygon(V)
        if len(cases) >= 0 and rng.random() < 0.5:
            # the plane's normal given explicitly, as a vector of any length along it (either sense): the polygon, its unit normal and its
            # amplitudes are those of the vertices
            sh = S.Polygon(V, normal=np.array(sh.normal, float) * float(rng.choice([2.5, 0.25, -3.0, -0.5])))
            kind += "/explicit-normal"
        n = np.array(sh.normal, float)
        if abs(float(np.linalg.norm(n)) - 1.0) > 1e-12:
            chk.violation("polygon-normal-not-unit", dict(vertices=V.tolist(), normal=n.tolist(), what="the normal of a polygon built with an explicit normal vector is not a unit vector"))
            continue
        size = float(np.max(np.linalg.norm(V - V.mean(0), axis=1))) * 2
        edges = [V[1] - V[0], V[2] - V[1]]
        Q = qs_for(rng, size, [n, np.cross(edges[0], n), np.cross(edges[1], n)], nq)
        exact = ft_polygon(V, n, Q)
        area = float(sh.area)
        # the integral over the polygon's AREA does not depend on the vertex orientation: use the unsigned measure
        sgn = np.sign(np.real(ft_polygon(V, n, np.zeros((1, 3)))[0]))
        judge(chk, "Polygon", kind, sh, Q, exact * sgn, area, dict(vertices=V.tolist(), normal=n.tolist()))
        model_correspondence(chk, "Polygon", kind, sh, Q, area, size, dict(vertices=V.tolist(), normal=n.tolist()))
    # ---------------------------------------------------------------- spheres
    xr, wr = np.polynomial.legendre.leggauss(80)
    for _ in range(nsh):
        R = float(2.0 ** rng.integers(-3, 6)) * float(rng.integers(1, 8)) / 4          # 0.03 .. 56: any size
        c = gen.dy(rng.uniform(-4, 4, 3), 4)
        sh = S.Sphere(R, c)
        Q = qs_for(rng, 2 * R, [], nq)
        r = (xr + 1) * R / 2
        w = wr * R / 2
        qn = np.linalg.norm(Q, axis=1)
        radial = np.array([np.sum(w * 4 * math.pi * r * r * np.sinc(k * r / math.pi)) for k in qn])
        exact = radial * np.exp(-1j * Q @ c)
        judge(chk, "Sphere", "sphere", sh, Q, exact, 4 / 3 * math.pi * R ** 3, dict(radius=R, center=c.tolist()))


def model_correspondence(chk, cls, kind, sh, Q, measure, size, desc):
    """The hand-written real-number model the theorems are about (Model/FormFactor.v: polygon_ff_code / polyhedron_ff_code), extracted
    with R realised by binary64 (Extract/ExtractR.v), is run on the implementation's own stored vertices / faces / normals and compared
    with the implementation, wave vector by wave vector, where the model applies: the q != 0 branch of every polygon involved
    (|q_projected|^2 well above the isclose threshold) and |q| * size >= 0.1 (below that both evaluations are dominated by cancellation:
    the recorded small-q finding).  Same formula, different summation order: agreement to 1e-8 * measure."""
    Vv = np.asarray(sh.vertices, float)
    if cls == "Polygon":
        planes = [(np.asarray(sh.normal, float), list(range(len(Vv))))]
    else:
        planes = [(np.asarray(e[:3], float), [int(i) for i in f]) for f, e in zip(sh.faces, sh._equations)]
    ok = np.linalg.norm(Q, axis=1) * size >= 0.1
    for n, _ in planes:
        qp = Q - np.outer(Q @ n, n)
        ok &= np.sum(qp * qp, axis=1) > 1e-6
    if cls != "Polygon":
        ok &= np.sum(Q * Q, axis=1) > 1e-6
    idx = np.nonzero(ok)[0]
    if len(idx) == 0:
        return
    if cls == "Polygon":
        n, f = planes[0]
        lines = ["P|%s|%s|%s" % (C.hx(n), C.hx(Q[k]), C.hx(Vv.ravel())) for k in idx]
    else:
        faces = ";".join("%s:%s" % (C.hx(n), C.hx(Vv[f].ravel())) for n, f in planes)
        lines = ["H|%s|%s" % (C.hx(Q[k]), faces) for k in idx]
    mod = C.run_model_r(lines)
    st, got = C.excname(lambda: np.asarray(sh.compute_form_factor_amplitude(Q[idx].copy())))
    chk.count("model-correspondence:" + cls, len(idx))
    if st != "ok" or got.shape != (len(idx),):
        return          # (reported by judge)
    offc = 1.0 + float(np.linalg.norm(Vv.mean(0))) / size
    tol = 1e-8 * measure * offc
    for j, k in enumerate(idx):
        if mod[j] is None or not (abs(mod[j] - got[j]) <= tol):
            d = {kk: v for kk, v in desc.items() if not kk.startswith("_")}
            chk.violation("model-vs-implementation", dict(d, cls=cls, kind=kind, q=Q[k].tolist(), impl=[float(got[j].real), float(got[j].imag)],
                                                          model=None if mod[j] is None else [mod[j].real, mod[j].imag], tol=tol,
                                                          what="the Coq model of the formula (float-extracted) and the implementation differ"))
            return


def face_under_threshold(sh, Q):
    """mask over Q: some face of the polyhedron sees a projected wave vector with 0 < |q_proj|^2 <= 1e-8 (the recorded
    zero-q-absolute-threshold finding, which for polyhedra applies face by face: that face contributes its plain area, phase lost)"""
    Vv = np.asarray(sh.vertices, float)
    m = np.zeros(len(Q), bool)
    for f in sh.faces:
        nrm = np.cross(Vv[f[2]] - Vv[f[1]], Vv[f[0]] - Vv[f[1]]); nrm = nrm / np.linalg.norm(nrm)
        qp = Q - np.outer(Q @ nrm, nrm)
        q2 = np.sum(qp * qp, axis=1)
        m |= (q2 > 0) & (q2 <= 1.0001e-8)
    return m


def judge(chk, cls, kind, sh, Q, exact, measure, desc):
    tol = 1e-5 * measure + 1e-9
    density = 1.75
    st, got = C.excname(lambda: np.asarray(sh.compute_form_factor_amplitude(Q.copy(), density=density)))
    for k in range(len(Q)):
        chk.case([cls, desc.get("vertices", desc), Q[k].tolist()], True)
    chk.count("cls:" + cls)
    d = dict(desc, cls=cls, kind=kind)
    if st != "ok":
        chk.violation("form-factor-raised", dict(d, error=st, nq=len(Q))); return
    if got.shape != (len(Q),):
        chk.violation("form-factor-shape", dict(d, shape=list(got.shape))); return
    err = np.abs(got - density * exact)
    size = desc.get("_size", 1.0)
    # recorded known finding (Polyhedron classes): for 0 < |q| size < 0.05 the Stokes-type formula is dominated by rounding
    # (amplified ~ 1/(|q| size)^4 and by the distance from the origin); those wave vectors are attributed to it
    qs = np.linalg.norm(Q, axis=1) * size
    small = (qs > 0) & (qs < 0.05)
    over = err > density * tol
    if cls in ("Polyhedron", "ConvexPolyhedron") and chk.is_known("form-factor-small-q-cancellation") and np.any(over & small):
        chk.known_finding("form-factor-small-q-cancellation", "Polyhedron form factor is dominated by amplified rounding for 0 < |q| size < 0.05 (errors from 1e-5 to several 100%, worst off-origin)")
        chk.count("known:small-q", int(np.sum(over & small)))
        err = np.where(small, 0.0, err)
    # recorded known finding: 0 < |q_eff|^2 <= 1e-8 is treated as q = 0 (plain measure, no phase)
    if cls in ("Polygon", "Polyhedron", "ConvexPolyhedron") and chk.is_known("zero-q-absolute-threshold"):
        qeff = Q - np.outer(Q @ np.asarray(desc["normal"]), np.asarray(desc["normal"])) if cls == "Polygon" else Q
        q2 = np.sum(qeff * qeff, axis=1)
        hit = (q2 > 0) & (q2 <= 1.0001e-8) & (np.abs(got - density * measure) <= 1e-12 * density * measure) & (err > density * tol)
        if np.any(hit):
            chk.known_finding("zero-q-absolute-threshold", "form factor treats every q with |q|^2 <= 1e-8 as zero and returns the plain area/volume without the phase")
            chk.count("known:zero-q-threshold", int(np.sum(hit)))
            err = np.where(hit, 0.0, err)
        if cls != "Polygon":
            hitf = face_under_threshold(sh, Q) & (err > density * tol)
            if np.any(hitf):
                chk.known_finding("zero-q-absolute-threshold", "form factor treats every q with |q|^2 <= 1e-8 as zero and returns the plain area/volume without the phase")
                chk.count("known:zero-q-threshold(per face)", int(np.sum(hitf)))
                err = np.where(hitf, 0.0, err)
    d.pop("_size", None); d.pop("_offc", None)
    k = int(np.argmax(err))
    if err[k] > density * tol:
        chk.violation("form-factor-value", dict(d, q=Q[k].tolist(), impl=[float(got[k].real), float(got[k].imag)],
                                                exact=[float(density * exact[k].real), float(density * exact[k].imag)], tol=density * tol, density=density))
        return
    # F(-q) = conj F(q)   (judged where the small-q cancellation of the known finding is negligible)
    big = (qs >= 0.05) | (qs == 0)
    st2, neg = C.excname(lambda: np.asarray(sh.compute_form_factor_amplitude(-Q, density=density)))
    if st2 != "ok" or np.max(np.abs(neg - np.conj(got))[big]) > density * tol:
        chk.violation("form-factor-conjugate-symmetry", dict(d, outcome=st2))
    # single-vector batches agree with the big batch (a (1,3) array is a valid batch)
    for k in [k for k in (0, len(Q) - 1, len(Q) // 2, int(np.argmax(qs))) if big[k]]:
        st3, one = C.excname(lambda: np.asarray(sh.compute_form_factor_amplitude(Q[k:k + 1].copy(), density=density)))
        if st3 != "ok" or one.shape != (1,) or abs(one[0] - got[k]) > density * tol:
            chk.violation("form-factor-single-vector-batch", dict(d, q=Q[k].tolist(), outcome=st3, single=None if st3 != "ok" else str(one), batch=str(got[k])))
            break
    # wave vectors given as an integer array mean the same vectors as the float array
    Qi = np.array([[1, 0, 2], [0, 3, 1], [2, 2, 2], [0, 0, 0], [0, 0, 1]])
    fi = C.excname(lambda: np.asarray(sh.compute_form_factor_amplitude(Qi.copy(), density=density)))
    ff = C.excname(lambda: np.asarray(sh.compute_form_factor_amplitude(Qi.astype(float), density=density)))
    if fi[0] != ff[0] or (fi[0] == "ok" and (fi[1].shape != ff[1].shape or np.max(np.abs(fi[1] - ff[1])) > 1e-12 * density * measure)):
        chk.violation("form-factor-input-form", dict(d, form="integer array", outcome=fi[0], float_outcome=ff[0],
                                                     got=None if fi[0] != "ok" else str(fi[1]), expected=None if ff[0] != "ok" else str(ff[1])))
    chk.sample(dict(cls=cls, kind=kind, q=Q[0].tolist(), impl=[float(got[0].real), float(got[0].imag)], exact=[float(density * exact[0].real), float(density * exact[0].imag)]))


def translation_law(chk, sh, Q, vol):
    import coxeter

    t = np.array([0.5, -1.25, 2.0])
    V = np.array(sh.vertices, float)
    if type(sh).__name__ == "ConvexPolyhedron":
        sh2 = coxeter.shapes.ConvexPolyhedron(V + t)
    else:
        sh2 = coxeter.shapes.Polyhedron(V + t, [np.array(f) for f in sh.faces])
    size = float(np.max(np.linalg.norm(V - V.mean(0), axis=1))) * 2
    Q = Q[np.linalg.norm(Q, axis=1) * size >= 0.05]
    if chk.is_known("zero-q-absolute-threshold"):
        Q = Q[~face_under_threshold(sh, Q)]      # (the recorded per-face threshold finding is judged in [judge])
    if len(Q) == 0:
        return
    a = C.excname(lambda: np.asarray(sh.compute_form_factor_amplitude(Q.copy())))
    b = C.excname(lambda: np.asarray(sh2.compute_form_factor_amplitude(Q.copy())))
    if a[0] == "ok" and b[0] == "ok" and np.max(np.abs(b[1] - a[1] * np.exp(-1j * Q @ t))) > 1e-7 * vol + 1e-9:
        chk.violation("form-factor-translation-phase", dict(cls=type(sh).__name__, vertices=V.tolist()))


def replay(chk, rep):
    """re-evaluate the recorded input: implementation now, the float-extracted Coq model, and the quadrature oracle"""
    import coxeter

    d = rep["detail"]
    out = dict(recorded=d)
    try:
        q = np.array([d["q"]], float) if "q" in d and np.ndim(d["q"]) == 1 else None
        if q is None:
            return out
        if "radius" in d:
            sh = coxeter.shapes.Sphere(d["radius"], d["center"])
        elif "faces" in d:
            V = np.array(d["vertices"], float)
            sh = (coxeter.shapes.ConvexPolyhedron(V) if d.get("cls") == "ConvexPolyhedron"
                  else coxeter.shapes.Polyhedron(V, [np.array(f) for f in d["faces"]]))
        else:
            sh = coxeter.shapes.Polygon(np.array(d["vertices"], float), normal=d.get("normal"))
        got = np.asarray(sh.compute_form_factor_amplitude(q.copy()))[0]
        out["implementation_now"] = [float(got.real), float(got.imag)]
        Vv = np.asarray(getattr(sh, "vertices", np.zeros((0, 3))), float)
        if "faces" in d:
            faces = ";".join("%s:%s" % (C.hx(e[:3]), C.hx(Vv[[int(i) for i in f]].ravel())) for f, e in zip(sh.faces, sh._equations))
            m = C.run_model_r(["H|%s|%s" % (C.hx(q[0]), faces)])[0]
        elif "radius" not in d:
            m = C.run_model_r(["P|%s|%s|%s" % (C.hx(np.asarray(sh.normal, float)), C.hx(q[0]), C.hx(Vv.ravel()))])[0]
        else:
            m = None
        out["coq_model_float_extracted"] = None if m is None else [m.real, m.imag]
    except Exception as e:  # noqa: BLE001
        out["replay_error"] = "%s: %s" % (type(e).__name__, e)
    return out
