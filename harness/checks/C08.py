"""C08 - size setters hit their target by pure similarity; bad targets are refused."""
import math

import numpy as np

from .. import common as C
from .. import shapes as Z
from . import C03

ASSUMPTIONS = [
    "settable properties are enumerated by reflection over every shape class; 'centroid'/'center' are translations, single semi-axes (a, b, c) are "
    "direct parameters (read-back and the other parameters are checked; a single semi-axis cannot be a uniform scaling), everything else is size-like",
    "a property whose getter is undefined for the class/shape (NotImplementedError, RuntimeError: no circum-/in-ball) is not judged for good targets",
    "similarity is checked as V' - c' = s (V - c) for one common s (1e-9 relative), rounding radii and semi-axes scale by the same s, iq/eccentricity preserved",
]
RT = 1e-9
KNOWN_POLYTRI = []


BASE = [None]      # None: the chiral general-position base shapes; "regular": a cube / a square (shapes that HAVE in- and circum-balls)


def mk(cls, **kw):
    if BASE[0] == "regular" and cls in Z.VERTEX_CLASSES:
        if cls in ("Polygon", "ConvexPolygon", "ConvexSpheropolygon"):
            kw["base"] = np.array([[0, 0], [2.5, 0], [2.5, 2.5], [0, 2.5]], float)
        else:
            kw["base"] = np.array([[x, y, z] for x in (0, 1.5) for y in (0, 1.5) for z in (0, 1.5)], float)
    return Z.make(cls, **kw)


def geometry(obj):
    """size-carrying state: (points array or None, list of scalars)"""
    pts = np.array(obj.vertices, float) if hasattr(obj, "vertices") else None
    sc = []
    for n in ("radius", "a", "b", "c"):
        if hasattr(obj, n) and not callable(getattr(obj, n)):
            try:
                sc.append(float(getattr(obj, n)))
            except Exception:  # noqa: BLE001
                pass
    try:
        cen = np.array(obj.centroid, float)
    except NotImplementedError:
        core = getattr(obj, "polygon", None) or getattr(obj, "polyhedron", None)
        cen = np.array(core.centroid, float)
    except ValueError as e:
        # polytri's absolute thresholds on a small (but valid) mesh: recorded known finding; the
        # similarity is then judged about the vertex mean, which scales with the shape just as well
        if "Triangulation failed" in str(e) or "No normal found" in str(e):
            KNOWN_POLYTRI.append(type(obj).__name__)
            cen = None
        else:
            raise
    return pts, sc, cen


def run(chk):
    rng = chk.rng
    ks = [-10, -3, 0, 1, 7] if chk.tier == "quick" else list(range(-10, 11))      # (k = 0: assigning the current value changes nothing)
    chk.notes["rule"] = ("every settable property (reflection) of every shape class x positive targets cur*2^k x general-position off-origin base shapes "
                         "(also tilted polygons); bad targets 0, -1, nan; non-trivial = every (class, property, target) triple on an off-origin shape")
    for cls in Z.CLASSES:
        variants = [(False, False)]
        if cls in ("Polygon", "ConvexPolygon"):
            variants.append((True, False))
        if cls == "Polygon":
            variants += [(False, True), (True, True)]      # also listed clockwise about an explicit normal (signed_area < 0)
        variants = [(t_, o_, None) for t_, o_ in variants] + ([(False, False, "regular")] if cls in Z.VERTEX_CLASSES else [])
        for tilt, opp, basekind in variants:
            BASE[0] = basekind
            base, _ = mk(cls, tilt=tilt, opposing=opp)
            for prop in Z.settable_properties(base):
                if prop in ("centroid", "center"):
                    translation(chk, cls, prop, tilt, rng, opp)
                    continue
                st, cur = C.excname(getattr, base, prop)
                if st != "ok":
                    chk.count("getter-undefined:%s" % st)
                    bad_targets(chk, cls, prop, tilt, allow_other=st, opp=opp)
                    continue
                cur = float(cur)
                direct = prop in ("a", "b", "c") or (prop == "radius" and cls in ("ConvexSpheropolygon", "ConvexSpheropolyhedron"))
                # targets cur * 2^k, and fine adjustments by a few parts per million (a positive target is honoured however close it is
                # to the current value)
                for k in list(ks) + ["+fine", "-fine"]:
                    obj, _ = mk(cls, tilt=tilt, opposing=opp)
                    tgt = cur * (2.0 ** k if not isinstance(k, str) else (1 + 2.0 ** -18 if k == "+fine" else 1 - 2.0 ** -20))
                    p0, s0, c0 = geometry(obj)
                    iq0 = C.excname(getattr, obj, "iq") if hasattr(type(obj), "iq") else ("na", None)
                    # everything the shape reports is read once BEFORE the assignment (filling whatever the queries memoise) for two of the
                    # targets, and compared AFTER it with a freshly constructed shape on the new vertices: the whole shape is rescaled, not
                    # only the quantities looked at above
                    whole = cls in Z.VERTEX_CLASSES and k in (ks[1], "+fine")
                    twin = None
                    if whole:
                        C.excname(C03.full_observe, obj)
                        # ... and ONLY the assigned shape: a deep copy taken before the assignment stays the shape it was
                        import copy as copy_
                        twin = C.excname(copy_.deepcopy, obj)[1]
                    st, _ = C.excname(setattr, obj, prop, tgt)
                    chk.case([cls, prop, k, tilt, opp], True)
                    chk.count("cls:" + cls)
                    desc = dict(cls=cls, prop=prop, target=tgt, current=cur, tilted=tilt, clockwise_about_normal=opp, base=basekind)
                    if st != "ok":
                        chk.violation("setter-raised", dict(desc, error=st)); continue
                    got = float(getattr(obj, prop))
                    if not abs(got - tgt) <= RT * abs(tgt) and prop.startswith("minimal_bounding"):
                        # (recorded finding miniball-randomised-solver: the getter re-runs the randomised solver; judged on a re-read)
                        for _ in range(3):
                            got = float(getattr(obj, prop))
                            if abs(got - tgt) <= RT * abs(tgt):
                                chk.count("known:miniball(re-read agrees)")
                                break
                    if not abs(got - tgt) <= RT * abs(tgt):
                        chk.violation("read-back", dict(desc, readback=got)); continue
                    p1, s1, c1 = geometry(obj)
                    if c1 is None or c0 is None:
                        c0, c1 = p0.mean(0), p1.mean(0)
                    if direct:
                        others = [(x, y) for n, x, y in zip(("radius", "a", "b", "c")[: len(s0)], s0, s1)]
                        names = [n for n in ("radius", "a", "b", "c") if hasattr(obj, n)]
                        for n, x, y in zip(names, s0, s1):
                            if n != prop and x != y:
                                chk.violation("direct-setter-changed-other-parameter", dict(desc, other=n, before=x, after=y))
                        if not np.array_equal(c0, c1) or (p0 is not None and not np.array_equal(p0, p1)):
                            chk.violation("direct-setter-moved-shape", dict(desc))
                        continue
                    # one common scale factor
                    if p0 is not None:
                        r0 = np.linalg.norm(p0 - c0, axis=1); r1 = np.linalg.norm(p1 - c1, axis=1)
                        s = float(np.max(r1) / np.max(r0))
                        if not np.allclose(p1 - c1, s * (p0 - c0), rtol=0, atol=RT * s * np.max(r0) * 10):
                            chk.violation("not-a-similarity", dict(desc, scale=s, what="V' - c' != s (V - c)",
                                                                   before=p0.tolist(), after=p1.tolist()))
                            continue
                    else:
                        s = s1[0] / s0[0]
                    if not np.isfinite(s) or s <= 0:
                        chk.violation("degenerate-scale", dict(desc, scale=s)); continue
                    if any(abs(y - s * x) > RT * abs(s * x) for x, y in zip(s0, s1)):
                        chk.violation("not-a-similarity", dict(desc, scale=s, scalars_before=s0, scalars_after=s1,
                                                               what="radius / semi-axes not scaled by the common factor"))
                    if iq0[0] == "ok":
                        st2, iq1 = C.excname(getattr, obj, "iq")
                        if st2 != "ok" or abs(float(iq1) - float(iq0[1])) > 1e-7 * abs(float(iq0[1])):
                            chk.violation("dimensionless-descriptor-changed", dict(desc, iq_before=float(iq0[1]), iq_after=None if st2 != "ok" else float(iq1)))
                    if whole:
                        C03.compare(chk, cls, ["read:observables", "set:%s=%r" % (prop, tgt)], obj)
                        if twin is not None:
                            pt, st_, ct = geometry(twin)
                            if not np.array_equal(pt, p0) or st_ != s0:
                                chk.violation("setter-changed-another-shape", dict(desc, what="a deep copy taken before the assignment has other vertices / radius after it"))
                            else:
                                C03.compare(chk, cls, ["read:observables", "copy.deepcopy -> twin", "set on the original:%s=%r" % (prop, tgt), "(twin judged)"], twin)
                            chk.count("twin-judged")
                    chk.sample(dict(cls=cls, prop=prop, target=tgt, readback=got, scale=s))
                bad_targets(chk, cls, prop, tilt, opp=opp)
    BASE[0] = None
    if KNOWN_POLYTRI:
        if chk.is_known("polytri-absolute-thresholds"):
            chk.known_finding("polytri-absolute-thresholds", "after rescaling a Polyhedron to ~1e-3 of its size, centroid/inertia raise ValueError('Triangulation failed') (polytri absolute thresholds)")
        else:
            chk.violation("centroid-raised-after-rescale", dict(classes=sorted(set(KNOWN_POLYTRI))))


def bad_targets(chk, cls, prop, tilt, allow_other=None, opp=False):
    nonneg = prop == "radius" and cls in ("ConvexSpheropolygon", "ConvexSpheropolyhedron")
    for bad in ([-1.0, float("nan")] if nonneg else [0.0, -1.0, float("nan")]):
        obj, _ = mk(cls, tilt=tilt, opposing=opp)
        snap = Z.state_snapshot(obj)
        st, _ = C.excname(setattr, obj, prop, bad)
        chk.case([cls, prop, "bad", str(bad), tilt], True)
        chk.count("bad-target")
        desc = dict(cls=cls, prop=prop, target=str(bad), tilted=tilt)
        if st == "ok":
            chk.violation("bad-target-accepted", dict(desc, what="assignment did not raise"))
        elif st != "ValueError" and st != allow_other:
            chk.violation("bad-target-wrong-exception", dict(desc, error=st))
        same, why = Z.snapshots_equal(snap, Z.state_snapshot(obj))
        if not same:
            chk.violation("bad-target-changed-state", dict(desc, attribute=why, error=st))


def translation(chk, cls, prop, tilt, rng, opp):
    for trial in range(3):
        obj, _ = mk(cls, tilt=tilt, opposing=opp)
        p0, s0, c0 = geometry(obj)
        tgt = np.array([float(x) for x in rng.integers(-8, 9, 3)]) / 2
        given = tgt.copy()
        if trial == 2:
            # the target handed over as a VIEW of the shape's own data (one of its vertices / its current centre array): still just a point
            src = obj.vertices if hasattr(obj, "vertices") else None
            if src is None or not isinstance(src, np.ndarray):
                continue
            given = src[len(src) // 2]
            tgt = np.array(given, float).copy()
        if cls in Z.VERTEX_CLASSES:
            C.excname(C03.full_observe, obj)          # (everything read once before the move: memoised answers must move along)
        st, _ = C.excname(setattr, obj, prop, given)
        chk.case([cls, prop, tgt.tolist(), tilt], True)
        desc = dict(cls=cls, prop=prop, target=tgt.tolist(), tilted=tilt)
        if st != "ok":
            chk.violation("translation-raised", dict(desc, error=st)); continue
        p1, s1, c1 = geometry(obj)
        size = 1.0 + float(np.max(np.abs(c0)))
        if not np.allclose(c1, tgt, rtol=0, atol=RT * size * 10):
            chk.violation("translation-read-back", dict(desc, readback=c1.tolist()))
        if s0 != s1:
            chk.violation("translation-changed-size", dict(desc))
        if p0 is not None and not np.allclose(p1 - p0, tgt - c0, rtol=0, atol=RT * size * 10):
            chk.violation("not-a-translation", dict(desc, displacement=(p1 - p0).tolist()))
        if cls in Z.VERTEX_CLASSES:
            C03.compare(chk, cls, ["read:observables", "set:%s=%r" % (prop, tgt.tolist())], obj)
        # the array that was assigned stays the caller's: later size changes of the shape must not write into it, and the caller
        # re-using it must not move the shape (nor any other shape that was given the same array)
        if trial == 2:
            chk.count("translation:target-is-a-view-of-own-vertices")
            continue
        size_prop = next((q for q in ("volume", "area", "radius", "a") if q in Z.settable_properties(obj)), None)
        if size_prop is not None:
            st2, _ = C.excname(lambda: setattr(obj, size_prop, 1.5 * float(getattr(obj, size_prop))))
            if st2 == "ok" and not np.array_equal(given, tgt):
                chk.violation("assigned-array-stored", dict(desc, what="a later size assignment wrote into the array that was assigned as %s" % prop, array_now=given.tolist()))
        before = np.asarray(getattr(obj, prop), float).copy()
        given += 3.0
        if not np.array_equal(np.asarray(getattr(obj, prop), float), before):
            chk.violation("assigned-array-stored", dict(desc, what="changing the assigned array afterwards moved the shape's %s" % prop))
        chk.count("translation")


def replay(chk, rep):
    d = rep["detail"]
    BASE[0] = d.get("base")
    obj, _ = mk(d["cls"], tilt=d.get("tilted", False), opposing=d.get("clockwise_about_normal", False))
    t = d["target"]
    t = float(t) if isinstance(t, str) else t
    st, _ = C.excname(setattr, obj, d["prop"], t)
    return dict(outcome=st, readback=C.excname(getattr, obj, d["prop"])[1] if st == "ok" else None)
