"""C16 - queries are free of side effects."""
import os
import tempfile

import numpy as np

from .. import common as C
from .. import shapes as Z

ASSUMPTIONS = [
    "queries are enumerated by reflection: every public property getter, plus the query methods is_inside, compute_form_factor_amplitude, "
    "distance_to_surface, get_face_area, get_dihedral, to_json, to_hoomd, repr, save/io.to_*; every ORDERED PAIR of queries is run on a fresh off-origin "
    "general-position shape of every class",
    "judged: the private state (all instance attributes, recursively into the core of spheropolytopes) is unchanged - bit-for-bit, except 1e-12 relative "
    "for the operations that move the shape and move it back (to_hoomd, Polygon.inertia_tensor, io.to_stl) and except the memo attributes edges, "
    "_simplex_areas, _face_centroids which may appear; argument arrays and arrays handed out before (vertices, faces, normal, centroid, equations, ...) "
    "are bit-for-bit unchanged (1e-12 for move-and-restore); a repeated query returns the same value",
]
MEMO = {"edges", "_simplex_areas", "_face_centroids"}
MOVERS = {"to_hoomd", "inertia_tensor", "save:STL"}
TINY = 2.0 ** -34
UNIT = [1.0]      # length unit of the scenario being judged (absolute allowances scale with it)


def _have_mpl():
    try:
        import matplotlib  # noqa: F401
        return True
    except Exception:  # noqa: BLE001
        return False


def queries(obj):
    """name -> callable(obj, argstore) ; argstore collects argument arrays to be checked afterwards"""
    import coxeter

    q = {}
    for name in Z.properties_of(obj):
        if name in Z.DEPRECATED:
            continue
        q[name] = (lambda o, a, n=name: getattr(o, n))
    cls = type(obj).__name__

    def pts(o):
        c = np.array(o.vertices, float).mean(0) if hasattr(o, "vertices") else np.array(o.centroid, float)
        return np.array([c, c + 0.5, c - np.array([3.0, 0.1, 0.2])])

    def with_arg(fn, make):
        def run(o, a):
            arr = make(o)
            a.append((arr, arr.copy()))
            return fn(o, arr)
        return run

    q["is_inside"] = with_arg(lambda o, p: o.is_inside(p), pts)
    # ... with one point given as a 1-d array, and with an array the shape itself handed out (its centroid): value, shape and layout of
    # the caller's array are the caller's
    q["is_inside(one point, 1-d)"] = with_arg(lambda o, p: o.is_inside(p), lambda o: pts(o)[1].copy())
    q["is_inside(its own centroid array)"] = with_arg(lambda o, p: o.is_inside(p), lambda o: o.centroid)
    # drawing is a query too (non-default arguments included): matplotlib with the off-screen backend
    if cls in ("Polygon", "ConvexPolygon", "Polyhedron", "ConvexPolyhedron") and _have_mpl():
        def plotter(o, a, kw):
            import matplotlib
            matplotlib.use("Agg")
            import matplotlib.pyplot as plt
            fig = plt.figure()
            try:
                ax = fig.add_subplot(111, projection="3d") if hasattr(o, "faces") else fig.add_subplot(111)
                o.plot(ax=ax, **kw)
            finally:
                plt.close(fig)
            return None
        if cls in ("Polygon", "ConvexPolygon"):
            q["plot(center=True,plot_verts,label_verts)"] = lambda o, a: plotter(o, a, dict(center=True, plot_verts=True, label_verts=True))
            q["plot()"] = lambda o, a: plotter(o, a, {})
        else:
            q["plot(plot_verts,label_verts)"] = lambda o, a: plotter(o, a, dict(plot_verts=True, label_verts=True))
    q["repr"] = lambda o, a: repr(o)
    q["to_json"] = lambda o, a: o.to_json(["gsd_shape_spec"])
    if hasattr(obj, "to_hoomd"):
        q["to_hoomd"] = lambda o, a: o.to_hoomd()
    if hasattr(obj, "compute_form_factor_amplitude") and cls in ("Sphere", "Polygon", "ConvexPolygon", "Polyhedron", "ConvexPolyhedron"):
        q["compute_form_factor_amplitude"] = with_arg(lambda o, k: o.compute_form_factor_amplitude(k), lambda o: np.array([[0.3, -0.2, 0.5], [1.0, 0.0, 0.0], [0.0, 0.0, 0.0], [0.1, 0.7, -0.4]]))
    if cls in ("Circle", "Ellipse", "ConvexPolygon", "ConvexSpheropolygon"):
        q["distance_to_surface"] = with_arg(lambda o, t: o.distance_to_surface(t), lambda o: np.array([-7.5, -0.25, 0.0, 1.0, 2.5, 6.5, 11.0]))
    if cls in ("Polyhedron", "ConvexPolyhedron"):
        q["get_face_area"] = lambda o, a: o.get_face_area()
        q["get_dihedral"] = lambda o, a: o.get_dihedral(0, int(o.neighbors[0][0]))
        for ft in ("OBJ", "OFF", "STL", "PLY", "VTK", "X3D", "HTML"):
            def saver(o, a, ft=ft):
                d = tempfile.mkdtemp(prefix="c16")
                fn = os.path.join(d, "x." + ft.lower())
                try:
                    o.save(ft, fn)
                    return open(fn, "rb").read()
                finally:
                    try:
                        os.remove(fn)
                    except OSError:
                        pass
                    os.rmdir(d)
            q["save:" + ft] = saver
    return q


def handed_out(obj):
    """arrays the shape hands out (same objects on every read if it stores them)"""
    out = {}
    for n in ("vertices", "faces", "normal", "centroid", "center", "equations", "normals", "neighbors", "simplices", "edges"):
        if hasattr(type(obj), n):
            try:
                v = getattr(obj, n)
            except Exception:  # noqa: BLE001
                continue
            if isinstance(v, np.ndarray):
                out[n] = (v, v.copy())
            elif isinstance(v, list) and v and isinstance(v[0], np.ndarray):
                out[n] = (v, [x.copy() for x in v])
    return out


def arrays_same(now, then, tol):
    if isinstance(then, list):
        return len(now) == len(then) and all(arrays_same(a, b, tol) for a, b in zip(now, then))
    if now.shape != then.shape:
        return False
    if tol == 0:
        return bool(np.array_equal(now, then))
    return bool(np.allclose(now.astype(float), then.astype(float), rtol=0, atol=tol * (UNIT[0] + float(np.max(np.abs(then.astype(float)))) if then.size else 0)))


def memo_names(obj):
    """memo attributes: the two private per-face memos and every functools.cached_property of the object's class (and of its nested
    coxeter sub-objects) - a memo appearing in __dict__ is not a change of the shape (whether a memo goes stale is C03's matter)"""
    names = set(MEMO)
    seen = [obj] + [v for v in vars(obj).values() if hasattr(v, "__dict__") and type(v).__module__.startswith("coxeter")]
    for o in seen:
        for kl in type(o).__mro__:
            names |= {k for k, m in vars(kl).items() if type(m).__name__ == "cached_property"}
    return names


def snap_close(a, b, tol, memo=frozenset(MEMO)):
    """like Z.snapshots_equal but tolerant (for move-and-restore) and allowing memo attributes to appear"""
    keys = (set(a) | set(b)) - set(memo)
    for k in keys:
        if k not in a or k not in b:
            return False, "attribute %s %s" % (k, "appeared" if k in b else "vanished")
        x, y = a[k], b[k]
        if isinstance(x, dict):
            ok, why = snap_close(x, y, tol, memo)
            if not ok:
                return False, k + "." + why
        elif isinstance(x, np.ndarray):
            if not isinstance(y, np.ndarray) or not arrays_same(y, x, tol):
                return False, k
        elif isinstance(x, list):
            if len(x) != len(y) or any(not (arrays_same(q, p, tol) if isinstance(p, np.ndarray) else p == q) for p, q in zip(x, y)):
                return False, k
        else:
            if isinstance(x, float) and isinstance(y, float):
                if not (x == y or abs(x - y) <= tol * (UNIT[0] + abs(x))):
                    return False, k
            else:
                try:
                    if not (x == y):
                        return False, k
                except Exception:  # noqa: BLE001
                    pass
    return True, ""


def miniball_reagrees(obj, name, r1, r2):
    """recorded finding miniball-randomised-solver: two evaluations of a miniball-based query may differ because the third-party solver
    is randomised; it is a repeated-query violation only if a third evaluation agrees with neither of the first two"""
    st, r3 = C.excname(lambda: getattr(obj, name))
    return st == "ok" and (Z.values_close(Z.canon(r3), Z.canon(r1), 1e-8, 0) or Z.values_close(Z.canon(r3), Z.canon(r2), 1e-8, 0))


def run(chk):
    rng = chk.rng
    chk.notes["rule"] = ("every ordered pair of queries (properties by reflection + query methods + exports) on a fresh off-origin shape of each of the 10 "
                         "classes (polygons also tilted in thorough); non-trivial = every pair (two distinct queries or a repeated one)")
    chk.notes["exhaustive"] = True
    for cls in Z.CLASSES:
        tilts = [(False, False)]
        if cls in ("Polygon", "ConvexPolygon") and chk.tier == "thorough":
            tilts.append((True, False))
        if cls == "Polygon":
            tilts.append((True, True))        # tilted and listed clockwise about an explicit normal (signed_area < 0)
        # any size: also in a length unit of 2^-34 (2^-28 for the polygon classes: below ~2^-33 the vendored sweep line of Polygon.__init__
        # trips its absolute epsilons - recorded finding sweepline-large-coordinates, second witness)
        tilts = [(t_, o_, 1.0) for t_, o_ in tilts] + [(False, False, TINY * (64.0 if cls in ("Polygon", "ConvexPolygon", "ConvexSpheropolygon") else 1.0))]
        for tilt, opp, unit in tilts:
            proto, _ = Z.make(cls, tilt=tilt, opposing=opp, unit=unit)
            Q = queries(proto)
            names = sorted(Q)
            # which queries are defined at all for this shape
            ok_names = []
            for n in names:
                o, _ = Z.make(cls, tilt=tilt, opposing=opp, unit=unit)
                st, _ = C.excname(Q[n], o, [])
                if st == "ok":
                    ok_names.append(n)
                else:
                    chk.count("undefined:%s" % st)
            pairs = [(a, b) for a in ok_names for b in ok_names]
            if chk.tier == "quick" and len(pairs) > 700:
                idx = rng.choice(len(pairs), size=700, replace=False)
                keep = {(a, a) for a in ok_names} | {(a, b) for a in ok_names for b in ("to_hoomd", "inertia_tensor", "vertices", "centroid") if b in ok_names}
                keep |= {(b, a) for (a, b) in keep}
                pairs = sorted(set(pairs[i] for i in idx) | keep)
            if unit != 1.0:      # (the rescaled scenario: repeated queries and the pairs with a move-and-restore query)
                pairs = [(a, b) for a, b in pairs if a == b or a in MOVERS or b in MOVERS]
            for a, b in pairs:
                obj, _ = Z.make(cls, tilt=tilt, opposing=opp, unit=unit)
                held = handed_out(obj)
                snap = Z.state_snapshot(obj)
                args = []
                st1, r1 = C.excname(Q[a], obj, args)
                st2, r2 = C.excname(Q[b], obj, args)
                chk.case([cls, a, b, tilt], True)
                chk.count("cls:" + cls)
                desc = dict(cls=cls, first=a, second=b, tilted=tilt, unit=unit)
                if st1 != "ok" or st2 != "ok":
                    chk.violation("query-raised-after-query", dict(desc, outcomes=[st1, st2])); continue
                tol = 1e-12 if (a in MOVERS or b in MOVERS) else 0
                UNIT[0] = unit
                same, why = snap_close(snap, Z.state_snapshot(obj), tol, memo_names(obj))
                if not same:
                    chk.violation("state-changed", dict(desc, attribute=why)); continue
                for arr, cp in args:
                    if arr.shape != cp.shape or arr.dtype != cp.dtype or not np.array_equal(arr, cp):
                        chk.violation("argument-array-modified", dict(desc, before=cp.tolist(), after=arr.tolist(), shape_before=list(cp.shape), shape_after=list(arr.shape))); break
                for n, (ref, cp) in held.items():
                    if not arrays_same(ref, cp, tol):
                        chk.violation("handed-out-array-modified", dict(desc, array=n,
                                                                        before=str(cp)[:300], after=str(ref)[:300])); break
                if a == b:
                    if (not Z.values_close(Z.canon(r1), Z.canon(r2), 1e-12, 1e-11 * unit if a in MOVERS else 0) and not isinstance(r1, bytes)
                            and not (a.startswith("minimal_bounding") and miniball_reagrees(obj, a, r1, r2))):
                        chk.violation("repeated-query-differs", dict(desc, first_value=str(r1)[:200], second_value=str(r2)[:200]))
                    if isinstance(r1, bytes) and r1 != r2:
                        chk.violation("repeated-export-differs", dict(desc))
            chk.sample(dict(cls=cls, queries=ok_names[:12], npairs=len(pairs)))
            if unit == 1.0:
                returned_objects(chk, cls, tilt, opp)


def returned_objects(chk, cls, tilt, opp):
    """A query that answers with a shape object (the balls, circles, ...) hands out an object of the caller's: resizing or moving it
    afterwards neither changes the queried shape nor the answer to the same query asked again.  (The `.polygon` / `.polyhedron` accessors of
    the rounded shapes are the shape's own core, by documentation: not included.)"""
    import coxeter

    proto, _ = Z.make(cls, tilt=tilt, opposing=opp)
    for name in Z.properties_of(proto):
        if name in Z.DEPRECATED or name in ("polygon", "polyhedron"):
            continue
        obj, _ = Z.make(cls, tilt=tilt, opposing=opp)
        st, got = C.excname(getattr, obj, name)
        if st != "ok" or not isinstance(got, coxeter.shapes.base_classes.Shape):
            continue
        first = Z.canon(got)
        snap = Z.state_snapshot(obj)
        for attr, fn in (("radius", lambda v: 1.25 * float(v)), ("a", lambda v: 1.5 * float(v)), ("centroid", lambda v: np.asarray(v, float) + 1.0)):
            if hasattr(type(got), attr):
                C.excname(lambda: setattr(got, attr, fn(getattr(got, attr))))
        chk.case([cls, "returned-object", name], True)
        chk.count("returned-object-modified")
        desc = dict(cls=cls, query=name, tilted=tilt)
        same, why = Z.snapshots_equal(snap, Z.state_snapshot(obj))
        if not same or got is obj:
            chk.violation("returned-object-is-the-shape's-own", dict(desc, attribute=why if not same else "the query returned the shape itself",
                                                                     what="modifying the object a query returned changed the queried shape")); continue
        st2, again = C.excname(getattr, obj, name)
        if st2 != "ok" or not Z.values_close(Z.canon(again), first, 1e-9, 0) and not name.startswith("minimal_bounding"):
            chk.violation("returned-object-is-the-shape's-own", dict(desc, first=str(first)[:160], again=str(Z.canon(again) if st2 == "ok" else st2)[:160],
                                                                     what="the same query answers differently after the object it returned earlier was modified"))


def replay(chk, rep):
    d = rep["detail"]
    obj, _ = Z.make(d["cls"], tilt=d.get("tilted", False), unit=d.get("unit", 1.0))
    Q = queries(obj)
    held = handed_out(obj)
    args = []
    s1 = C.excname(Q[d["first"]], obj, args)[0]
    s2 = C.excname(Q[d["second"]], obj, args)[0]
    changed = [n for n, (ref, cp) in held.items() if not arrays_same(ref, cp, 0)]
    return dict(outcomes=[s1, s2], handed_out_changed=changed)
