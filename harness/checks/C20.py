"""C20 - exported mesh files describe exactly the polyhedron."""
import os
import re
import tempfile
from xml.etree import ElementTree

import numpy as np

from .. import common as C
from .. import gen
from .. import shapes as Z

ASSUMPTIONS = [
    "a lexer in the harness (trusted, ~40 lines) turns the bytes the implementation wrote into token lines: naturals, floating-point tokens (whose "
    "values must equal, as exact doubles via float(token), the polyhedron's coordinates in vertex order), keywords; comment/blank lines are dropped as "
    "each format prescribes; the Coq parsers (proved inverse to the Coq writers) are then run on those tokens",
    "STL and X3D/HTML duplicate coordinates per corner: corners are matched back to vertices by exact coordinate equality; STL normals are compared with "
    "the cross product of the written triangle (outward = positive volume contribution)",
    "XML well-formedness of X3D/HTML is decided by xml.etree (independent of the writer's string assembly)",
]

KW = {"v": 1, "f": 2, "off": 3, "ply": 4, "format": 5, "ascii": 6, "element": 7, "vertex": 8, "face": 9, "property": 10, "float": 11,
      "x": 12, "y": 13, "z": 14, "list": 15, "uchar": 16, "uint": 17, "vertex_indices": 18, "end_header": 19, "dataset": 20,
      "polydata": 21, "points": 22, "polygons": 23, "1.0": 24}
INT = re.compile(r"^[0-9]+$")
FLT = re.compile(r"^[-+]?(?:[0-9]+\.?[0-9]*|\.[0-9]+)(?:[eE][-+]?[0-9]+)?$|^[-+]?(?:nan|inf)$")


def lex(text, fmt, floats):
    """-> list of encoded token lines; float tokens are appended to `floats` (values) and get consecutive ids"""
    lines = []
    raw = text.split("\n")
    if fmt == "VTK":
        raw = raw[2:]  # line 1: '# vtk DataFile Version 3.0', line 2: free-form title
    for ln in raw:
        s = ln.strip()
        if not s:
            continue
        if fmt in ("OBJ", "OFF") and s.startswith("#"):
            continue
        if fmt == "PLY" and s.startswith("comment"):
            continue
        toks = []
        words = s.split()
        for i, w in enumerate(words):
            if fmt == "PLY" and w == "1.0" and i == 2 and words[0] == "format":
                toks.append(4 * KW["1.0"] + 2)
            elif INT.match(w):
                toks.append(4 * int(w))
            elif FLT.match(w):
                floats.append(float(w))
                toks.append(4 * (len(floats) - 1) + 1)
            else:
                toks.append(4 * KW.get(w.lower(), 0) + 2)
        lines.append(toks)
    return lines


def decode_mesh(r):
    if int(r[0]) != 1:
        return None
    nv = int(r[1])
    faces, cur = [], []
    for x in r[2:]:
        x = int(x)
        if x == -1:
            faces.append(cur); cur = []
        else:
            cur.append(x)
    return nv, faces


def shapes(rng, n):
    import coxeter

    out = []
    for _ in range(n):
        mode = rng.choice(["convex", "convex", "mesh", "prism"])
        if mode == "convex":
            kind, V = gen.convex_set(rng)
            sh = coxeter.shapes.ConvexPolyhedron(V)
        elif mode == "prism":
            m = int(rng.integers(5, 13))
            b = gen.dy(gen.ngon(m, 1.0, 0.1), 10)
            V = np.vstack([np.c_[b, np.zeros(m)], np.c_[b, np.ones(m)]]) * float(10.0 ** rng.integers(-6, 7)) * rng.choice([-1, 1])
            kind = "prism%d" % m
            sh = coxeter.shapes.ConvexPolyhedron(V)
        else:
            kind, V, F, info = gen.closed_mesh(rng)
            if F is None:
                cp = coxeter.shapes.ConvexPolyhedron(V)
                V, F = np.array(cp.vertices), [list(map(int, f)) for f in cp.faces]
            V = V * float(10.0 ** rng.integers(-6, 7)) + rng.choice([0.0, 1.0]) * gen.dy(rng.uniform(-3, 3, 3), 8)
            sh = coxeter.shapes.Polyhedron(V, [np.array(f) for f in F])
        out.append((kind, sh))
    return out


def run(chk):
    import coxeter

    rng = chk.rng
    n = 25 if chk.tier == "quick" else 400
    chk.notes["rule"] = ("polyhedra from the C01/C02 generators (ConvexPolyhedron and Polyhedron; faces of degree 3..12; coordinates of either sign, magnitudes "
                         "1e-6..1e6 incl. exponent notation) x 7 formats through Polyhedron.save; non-trivial = every (shape, format) pair")
    cases, meta = [], []
    tmp = tempfile.mkdtemp(prefix="c20")
    for kind, sh in shapes(rng, n):
        V = np.array(sh.vertices, float)
        F = [list(map(int, f)) for f in sh.faces]
        before = (V.copy(), [list(f) for f in F])
        snap = Z.state_snapshot(sh)
        for fmt in ("OBJ", "OFF", "PLY", "VTK", "STL", "X3D", "HTML"):
            fn = os.path.join(tmp, "m." + fmt.lower())
            st, _ = C.excname(sh.save, fmt, fn)
            chk.case([kind, fmt, V.tolist()], True)
            chk.count("fmt:" + fmt)
            desc = dict(kind=kind, cls=type(sh).__name__, fmt=fmt, vertices=V.tolist(), faces=F)
            if st != "ok":
                # io.to_stl evaluates shape.centroid, which for Polyhedron runs polytri: recorded known finding on small meshes
                if (st == "ValueError" and fmt == "STL" and type(sh).__name__ == "Polyhedron" and chk.is_known("polytri-absolute-thresholds")
                        and C.excname(type(sh)(V * 2.0 ** 24, [np.array(f) for f in F]).save, fmt, fn)[0] == "ok"):
                    chk.known_finding("polytri-absolute-thresholds", "Polyhedron.save('STL') raises ValueError('Triangulation failed') on valid small meshes (to_stl evaluates the centroid; polytri absolute thresholds)")
                    if os.path.exists(fn):
                        os.remove(fn)
                    continue
                chk.violation("save-raised", dict(desc, error=st)); continue
            data = open(fn, "rb").read()
            os.remove(fn)
            try:
                text = data.decode("utf-8")
            except UnicodeDecodeError:
                chk.violation("not-text", desc); continue
            if fmt in ("OBJ", "OFF", "PLY", "VTK"):
                floats = []
                lines = lex(text, fmt, floats)
                meta.append(dict(desc=desc, fmt=fmt, floats=floats, V=V, F=F, i=len(cases)))
                cases.append(C.encode_case("meshio", sc=[dict(OBJ=0, OFF=1, PLY=2, VTK=3)[fmt]], idx=lines))
            elif fmt == "STL":
                judge_stl(chk, desc, text, V, F)
                # ... and through the Coq parser of the STL grammar (Model/MeshIO.v parse_stl; C20_stl_roundtrip): corners that are exactly
                # (shifted) vertices become vertex tokens, every other number the keyword NUM
                lines = lex_stl(text, V)
                if lines is not None:
                    want = [x for f in F for k in range(1, len(f) - 1) for x in (f[0], f[k], f[k + 1])]
                    meta.append(dict(desc=desc, fmt=fmt, want=want, i=len(cases)))
                    cases.append(C.encode_case("meshio", sc=[5, len(V)], idx=lines))
            else:
                r = judge_x3d(chk, desc, text, V, F, fmt)
                if r is not None:
                    meta.append(dict(desc=desc, fmt=fmt, sizes=[len(f) for f in F], i=len(cases)))
                    cases.append(C.encode_case("meshio", sc=[4], idx=[r]))
        # the seven exports of one shape under ONE stem in ONE directory, written one after the other: each file is still there afterwards,
        # with the bytes its own export wrote (an export does not use another format's file name as scratch space)
        stem = os.path.join(tmp, "together")
        written = {}
        for fmt in ("OBJ", "OFF", "PLY", "VTK", "STL", "X3D", "HTML"):
            fn = stem + "." + fmt.lower()
            if C.excname(sh.save, fmt, fn)[0] == "ok" and os.path.exists(fn):
                written[fmt] = open(fn, "rb").read()
        # ... and exporting once more to a path that already holds a file REPLACES it (same bytes as a single export)
        for fmt in list(written):
            fn = stem + "." + fmt.lower()
            if C.excname(sh.save, fmt, fn)[0] != "ok" or open(fn, "rb").read() != written[fmt]:
                chk.violation("re-export-does-not-replace-the-file", dict(kind=kind, cls=type(sh).__name__, fmt=fmt, vertices=V.tolist(), faces=F,
                                                                          first_size=len(written[fmt]), second_size=os.path.getsize(fn) if os.path.exists(fn) else None))
                break
        for fmt, data0 in written.items():
            fn = stem + "." + fmt.lower()
            if not os.path.exists(fn) or open(fn, "rb").read() != data0:
                chk.violation("export-clobbered-by-another-export", dict(kind=kind, cls=type(sh).__name__, fmt=fmt, vertices=V.tolist(), faces=F,
                                                                         what="after the other formats were written under the same stem the file is missing or changed"))
                break
        for fn in [stem + "." + f.lower() for f in ("OBJ", "OFF", "PLY", "VTK", "STL", "X3D", "HTML")]:
            if os.path.exists(fn):
                os.remove(fn)
        # exporting does not change the shape
        now = Z.state_snapshot(sh)
        now.pop("edges", None); snap.pop("edges", None)   # memoised by the OFF writer
        same, why = Z.snapshots_equal(snap, now)
        if not (np.array_equal(np.array(sh.vertices), before[0]) and [list(map(int, f)) for f in sh.faces] == before[1]) or not same:
            chk.violation("export-changed-shape", dict(kind=kind, cls=type(sh).__name__, attribute=why, vertices=V.tolist()))
        # anything but the seven documented names is an unknown type: wrong case, fragments and lists of valid names, the empty string
        for bad in ("XYZ", "obj", "", " ", "O", "TL", "HTM", "X3", ", ", "OBJ, OFF", "STL ", "PLY\n"):
            fnb = os.path.join(tmp, "m.bad")
            st, _ = C.excname(sh.save, bad, fnb)
            wrote = os.path.exists(fnb)
            if wrote:
                os.remove(fnb)
            if st != "ValueError":
                chk.violation("unknown-filetype", dict(filetype=bad, outcome=st, wrote_a_file=wrote)); break
    try:
        os.rmdir(tmp)
    except OSError:
        pass
    res = C.run_model(cases)
    nvm, okvm = C.vm_crosscheck(cases[:3], res[:3], "C20", limit=3)
    if not okvm:
        chk.violation("extraction-vs-vm_compute", dict(what="extracted binary and vm_compute disagree"), no_input=True)
    chk.notes["vm_crosschecked"] = nvm
    for m in meta:
        r = res[m["i"]]
        desc, fmt = m["desc"], m["fmt"]
        if fmt in ("X3D", "HTML"):
            if int(r[0]) != 1 or [int(x) for x in r[2:]] != m["sizes"]:
                chk.violation("x3d-coordIndex", dict(desc, parsed=None if int(r[0]) != 1 else [int(x) for x in r[2:]]))
            continue
        if fmt == "STL":
            chk.count("stl:coq-parser")
            if int(r[0]) != 1 or [int(x) for x in r[1:]] != m["want"]:
                chk.violation("stl-facets", dict(desc, what="the Coq STL parser does not recover the fan triangles of the faces",
                                                 parsed=None if int(r[0]) != 1 else [int(x) for x in r[1:]][:12], expected=m["want"][:12]))
            continue
        mesh = decode_mesh(r)
        if mesh is None:
            if fmt == "OFF" and chk.is_known("off-face-count-token") and re.search(r"^\d+ f\d+ \d+$", "\n".join(l for l in open_lines(desc)), re.M) is None:
                pass
            if fmt == "OFF" and chk.is_known("off-face-count-token"):
                chk.known_finding("off-face-count-token", "io.to_off writes the count line as '<V> f<F> <E>' (literal f before the face count): not a valid OFF header")
                chk.count("known:off")
            else:
                chk.violation("file-not-wellformed", dict(desc, what="the Coq parser rejects the token stream"))
            continue
        nv, faces = mesh
        V, F = m["V"], m["F"]
        if nv != len(V) or faces != F:
            chk.violation("parsed-mesh-differs", dict(desc, parsed_nv=nv, parsed_faces=faces[:5])); continue
        fl = np.array(m["floats"][: 3 * nv]).reshape(-1, 3)
        if len(m["floats"]) != 3 * nv or not np.array_equal(fl, V):
            chk.violation("coordinates-not-full-precision", dict(desc, first_diff=np.argwhere(fl != V)[:1].tolist() if fl.shape == V.shape else "count"))
        chk.sample(dict(kind=desc["kind"], fmt=fmt, nverts=nv, nfaces=len(faces)))


def open_lines(desc):
    return []


STLKW = {"facet": 25, "normal": 26, "outer": 28, "loop": 29, "endloop": 30, "endfacet": 31, "solid": 32, "endsolid": 33, "vertex": 8}


def lex_stl(text, V):
    """token lines for the Coq STL parser, or None when a corner is not (exactly) a vertex - reported by judge_stl.  (to_stl's shift "so that
    all coordinates are positive" acts on a temporary copy of the centroid and has no effect: corners are the vertices themselves.)"""
    index = {tuple(v): i for i, v in enumerate(V.tolist())}
    lines = []
    for ln in text.split("\n"):
        w = ln.split()
        if not w:
            continue
        if w[0] == "vertex" and len(w) == 4:
            try:
                p = tuple(float(x) for x in w[1:4])
            except ValueError:
                return None
            if p not in index:
                return None
            i = index[p]
            lines.append([4 * 8 + 2, 4 * (3 * i) + 1, 4 * (3 * i + 1) + 1, 4 * (3 * i + 2) + 1])
        else:
            toks = []
            for x in w:
                if FLT.match(x) or INT.match(x):
                    toks.append(4 * 27 + 2)
                else:
                    toks.append(4 * STLKW.get(x.lower(), 0) + 2)
            lines.append(toks)
    return lines


def judge_stl(chk, desc, text, V, F):
    lines = [l.strip() for l in text.split("\n") if l.strip()]
    if not (lines and lines[0].startswith("solid") and lines[-1].startswith("endsolid")):
        chk.violation("stl-not-wellformed", dict(desc, what="solid/endsolid")); return
    body = lines[1:-1]
    if len(body) % 7 != 0:
        chk.violation("stl-not-wellformed", dict(desc, what="facet block length")); return
    index = {tuple(v): i for i, v in enumerate(V.tolist())}
    tris = []
    for k in range(0, len(body), 7):
        b = body[k:k + 7]
        if not (b[0].startswith("facet normal") and b[1] == "outer loop" and b[5] == "endloop" and b[6] == "endfacet"):
            chk.violation("stl-not-wellformed", dict(desc, what="facet keywords")); return
        nrm = np.array([float(x) for x in b[0].split()[2:5]])
        pts = [tuple(float(x) for x in b[j].split()[1:4]) for j in (2, 3, 4)]
        if any(p not in index for p in pts):
            chk.violation("stl-coordinates", dict(desc, what="a written corner is not a vertex of the polyhedron (full precision)")); return
        t = [index[p] for p in pts]
        P = np.array(pts)
        c = np.cross(P[1] - P[0], P[2] - P[1])
        if not np.allclose(nrm, c, rtol=1e-12, atol=0) or np.linalg.norm(c) == 0:
            chk.violation("stl-normal", dict(desc, written=nrm.tolist(), cross=c.tolist())); return
        tris.append(t)
    # fan triangulation of each face, in order
    want = []
    for f in F:
        for k in range(1, len(f) - 1):
            want.append([f[0], f[k], f[k + 1]])
    if tris != want:
        chk.violation("stl-triangulation", dict(desc, what="triangles are not the fan triangulation of the faces", got=tris[:4], expected=want[:4]))
        return
    # outward: signed volume positive
    vol = sum(np.linalg.det(V[t]) for t in tris) / 6
    if vol <= 0:
        chk.violation("stl-orientation", dict(desc, signed_volume=float(vol)))


def judge_x3d(chk, desc, text, V, F, fmt):
    try:
        if fmt == "HTML":
            if not text.startswith("<!DOCTYPE html>"):
                chk.violation("html-doctype", desc); return None
            root = ElementTree.fromstring(text[len("<!DOCTYPE html>"):])
        else:
            root = ElementTree.fromstring(text)
    except ElementTree.ParseError as e:
        chk.violation("xml-not-wellformed", dict(desc, error=str(e))); return None
    ifs = [e for e in root.iter() if e.tag.split("}")[-1] == "IndexedFaceSet"]
    coord = [e for e in root.iter() if e.tag.split("}")[-1] == "Coordinate"]
    if len(ifs) != 1 or len(coord) != 1:
        chk.violation("x3d-structure", desc); return None
    idx = ifs[0].attrib.get("coordIndex", "").split()
    pts = coord[0].attrib.get("point", "").split()
    try:
        P = np.array([float(x) for x in pts]).reshape(-1, 3)
    except ValueError:
        chk.violation("x3d-points", desc); return None
    want = np.array([V[i] for f in F for i in f])
    if P.shape != want.shape or not np.array_equal(P, want):
        chk.violation("x3d-coordinates", dict(desc, what="points are not the face corners at full precision")); return None
    toks = []
    for w in idx:
        if w == "-1":
            toks.append(3)
        elif INT.match(w):
            toks.append(4 * int(w))
        else:
            chk.violation("x3d-coordIndex", dict(desc, token=w)); return None
    return toks


def extra_coverage(chk):
    return dict(vm_compute_crosschecks=chk.notes.get("vm_crosschecked", 0))


def replay(chk, rep):
    return rep["detail"]
