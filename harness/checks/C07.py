"""C07 - face / normal / neighbour / edge structure of polyhedra is consistent."""
import math

import numpy as np

from .. import common as C
from .. import gen

ASSUMPTIONS = [
    "per-instance certificate evaluated exactly by the Coq model on the implementation's own faces: each face planar, every other vertex strictly on the "
    "inner side of its plane (=> the faces are exactly the hull facets, merged), every consecutive vertex triple turns counter-clockwise about the outward "
    "normal, edge-manifold, V-E+F=2; Euler's formula and 'angular sort of points in convex position yields the hull cycle' are not proved in general",
    "tolerances: planarity 1e-9 * size^3 (dyadic/lattice inputs are exactly planar), unit normals 1e-12",
]


def parse_structure(r, nfaces):
    manifold, euler, nedges, nf = int(r[0]), int(r[1]), int(r[2]), int(r[3])
    cert = [[C.fl(x) for x in r[4 + 4 * k: 8 + 4 * k]] for k in range(nf)]
    rest = [int(x) for x in r[4 + 4 * nf:]]
    neigh, cur, pos = [], [], 0
    while len(neigh) < nf:
        v = rest[pos]; pos += 1
        if v == -1:
            neigh.append(cur); cur = []
        else:
            cur.append(v)
    ed = rest[pos:]
    edges = sorted((ed[k], ed[k + 1]) for k in range(0, len(ed), 2))
    return manifold, euler, nedges, cert, neigh, edges


def certify(chk, tag, V, F, r, desc, expect_strict=True):
    """Judge the exact certificate numbers. Returns True if the faces are the outward CCW hull facets."""
    size = float(np.max(V.max(0) - V.min(0)))
    manifold, euler, nedges, cert, neigh, edges = parse_structure(r, len(F))
    ok = True
    if manifold != 1:
        chk.violation(tag + ":not-edge-manifold", dict(desc, faces=F)); ok = False
    if euler != 2:
        chk.violation(tag + ":euler", dict(desc, faces=F, V_minus_E_plus_F=euler)); ok = False
    for k, (plan, sup, ccw, nn) in enumerate(cert):
        nrm = math.sqrt(nn) if nn > 0 else 0.0
        if nrm == 0 or plan > 1e-9 * nrm * size:
            chk.violation(tag + ":face-not-planar", dict(desc, face=F[k], planarity=plan)); ok = False
        elif sup >= -1e-12 * nrm * size:
            chk.violation(tag + ":face-not-supporting", dict(desc, face=F[k], max_side_of_other_vertices=sup / nrm,
                                                              what="a vertex outside the face lies on or beyond its plane (face not a hull facet / not outward / not merged)")); ok = False
        elif ccw <= 0:
            chk.violation(tag + ":face-not-ccw", dict(desc, face=F[k], min_turn=ccw)); ok = False
    return ok, neigh, edges, cert


def faces_as(rng, F):
    """the same face lists in one of the containers / element types a caller may use for vertex indices"""
    # (documented as list(list); index arrays of any integer type are what callers pass in practice; tuples are not accepted by numpy indexing)
    form = rng.choice(["int64", "int32", "uint32", "uint8", "uint64", "list", "int16"])
    if form == "list":
        return [list(map(int, f)) for f in F]
    if form == "uint8" and max(max(f) for f in F) > 250:
        form = "uint32"
    return [np.array(f, dtype=form) for f in F]


def run(chk):
    import coxeter

    rng = chk.rng
    nshape = 30 if chk.tier == "quick" else 500
    chk.notes["rule"] = ("convex vertex sets (C01 generator) in 2 vertex orders -> ConvexPolyhedron; the same solids as Polyhedron with each face's vertex "
                         "order randomly permuted/reversed and vertices relabelled -> sort_faces; fan-triangulated with random triangle reversal -> "
                         "merge_faces. non-trivial = has a non-triangular face (merging/sorting matters)")
    cases, meta = [], []
    for ishape in range(nshape):
        kind, V = gen.convex_set(rng, kinds=("ellipsoid", "lattice", "lattice", "prismatic", "prismatic", "flat", "needle", "creased", "chamfered", "bigprism", "biglattice"))
        if ishape % 6 == 0:
            kind, V = gen.convex_set(rng, kinds=("ellipsoid",))
        elif ishape % 6 == 1:      # (kinds that must not depend on the draw: thin solids, near-flat oblique ridges, and small ones - any size)
            kind, V = gen.convex_set(rng, kinds=("needle", "flat"))
        elif ishape % 6 == 2:
            kind, V = gen.convex_set(rng, kinds=("creased",))
        elif ishape % 6 == 3:
            kind, V = gen.convex_set(rng, kinds=("lattice", "prismatic"), allow_place=False)
            V = V * 2.0 ** -int(rng.integers(15, 19)); kind += "*2^-k"
        if kind == "ellipsoid" and (ishape % 6 == 0 or rng.random() < 0.6):
            # far from the origin, by an offset that is NOT on a dyadic grid (all faces are triangles here, so rounding the sum cannot break
            # a planar face): lengths and vectors of edges are differences of vertices and must not lose the offset's digits
            V = V + rng.uniform(-1.0, 1.0, 3) * 10.0 ** rng.uniform(3, 6)
            kind = "ellipsoid/far"
        for order in range(2):
            Vp = V[rng.permutation(len(V))] if order else V
            st, p = C.excname(coxeter.shapes.ConvexPolyhedron, Vp)
            if st != "ok":
                continue
            F = [list(map(int, f)) for f in p.faces]
            meta.append(dict(tag="convex", kind=kind, V=np.array(p.vertices), F=F, p=p, i=len(cases)))
            cases.append(C.encode_case("structure", qs=C.flat(p.vertices), idx=F))
        # ---- Polyhedron.sort_faces on scrambled faces ----
        st, p0 = C.excname(coxeter.shapes.ConvexPolyhedron, V)
        if st != "ok":
            continue
        F0 = [list(map(int, f)) for f in p0.faces]
        if ishape % 3 == 0:
            # a copy of the solid (deepcopy / pickle) carries its own structure: resizing one leaves the other's planes on its faces
            def structure_(s_):
                eq_ = np.asarray(s_.equations, float)
                res_ = max(float(np.max(np.abs(np.asarray(s_.vertices, float)[list(f)] @ eq_[i, :3] + eq_[i, 3]))) for i, f in enumerate(s_.faces))
                return dict(equations=eq_, normals=s_.normals, faces=np.concatenate([np.r_[len(f), f] for f in s_.faces]),
                            neighbors=np.concatenate([np.r_[len(n), n] for n in s_.neighbors]), edges=s_.edges, plane_residual=[res_])
            for cls_, mk_ in (("ConvexPolyhedron", lambda: coxeter.shapes.ConvexPolyhedron(np.array(V, float))),
                              ("Polyhedron", lambda: coxeter.shapes.Polyhedron(np.array(p0.vertices, float), [list(f) for f in F0]))):
                for prob in C.copy_probe(mk_, structure_)[:1]:
                    chk.violation("copy-shares-structure", dict(kind=kind, cls=cls_, vertices=np.asarray(V).tolist(), what=prob))
                chk.count("copy-probe")
        perm = rng.permutation(len(V))          # relabel: new index of old vertex i is inv[i]
        inv = np.argsort(perm)
        Vr = np.array(p0.vertices)[perm]
        Fs = []
        for f in F0:
            g = [int(inv[i]) for i in f]
            mode = rng.choice(["perm", "rev", "shift", "keep"])
            if mode == "perm":
                g = [g[i] for i in rng.permutation(len(g))]
            elif mode == "rev":
                g = g[::-1]
            elif mode == "shift":
                s = int(rng.integers(len(g))); g = g[s:] + g[:s]
            Fs.append(g)
        st, ph = C.excname(lambda: coxeter.shapes.Polyhedron(Vr, faces_as(rng, Fs), faces_are_convex=True))
        if st == "ok":
            st, _ = C.excname(ph.sort_faces)
        if st != "ok":
            chk.violation("sort_faces-raised", dict(kind=kind, vertices=Vr.tolist(), faces=Fs, error=st))
        else:
            F = [list(map(int, f)) for f in ph.faces]
            meta.append(dict(tag="sort_faces", kind=kind, V=Vr, F=F, p=ph, i=len(cases), Fin=Fs))
            cases.append(C.encode_case("structure", qs=C.flat(Vr), idx=F))
        # ---- merge_faces on a triangulated convex surface ----
        # merge_faces merges neighbours whose plane equations agree within its documented np.allclose tolerance (rtol 1e-5 of the plane
        # offset, which grows with the distance from the origin): hull facets that are DISTINCT but coplanar to within ten times that
        # tolerance are outside what the property can demand of it ("hull facets" and "faces merged within tolerance" then differ).
        eqs0 = np.asarray(p0.equations, float)
        if any(np.allclose(eqs0[i], eqs0[int(j)], atol=1e-7, rtol=1e-4) for i in range(len(eqs0)) for j in p0.neighbors[i]):
            chk.count("merge_faces:near-coplanar-facets(not judged)")
            continue
        tris = []
        for f in F0:
            for k in range(1, len(f) - 1):
                t = [f[0], f[k], f[k + 1]]
                if rng.random() < 0.3:
                    t = t[::-1]
                tris.append(t)
        st, pm = C.excname(lambda: coxeter.shapes.Polyhedron(np.array(p0.vertices), faces_as(rng, tris)))
        if st == "ok":
            st, _ = C.excname(pm.merge_faces)
        if st != "ok":
            chk.violation("merge_faces-raised", dict(kind=kind, vertices=np.array(p0.vertices).tolist(), faces=tris, error=st))
        else:
            F = [list(map(int, f)) for f in pm.faces]
            meta.append(dict(tag="merge_faces", kind=kind, V=np.array(p0.vertices), F=F, p=pm, i=len(cases), Fin=tris, nfacets=len(F0)))
            cases.append(C.encode_case("structure", qs=C.flat(p0.vertices), idx=F))
    res = C.run_model(cases)
    nvm, okvm = C.vm_crosscheck(cases[:2], res[:2], "C07", limit=2)
    if not okvm:
        chk.violation("extraction-vs-vm_compute", dict(what="extracted binary and vm_compute disagree"), no_input=True)
    chk.notes["vm_crosschecked"] = nvm
    for m in meta:
        V, F, p, tag = m["V"], m["F"], m["p"], m["tag"]
        desc = dict(kind=m["kind"], vertices=V.tolist(), input_faces=m.get("Fin"))
        chk.case([tag, V.tolist(), F], any(len(f) > 3 for f in F))
        chk.count("tag:" + tag); chk.count("kind:" + m["kind"])
        ok, neigh, edges, cert = certify(chk, tag, V, F, res[m["i"]], desc)
        if tag == "merge_faces" and len(F) != m["nfacets"]:
            chk.violation("merge_faces:facet-count", dict(desc, faces=F, expected=m["nfacets"]))
        # neighbours: symmetric and exactly the faces sharing an edge
        impl_n = [sorted(int(x) for x in nb) for nb in p.neighbors]
        if impl_n != [sorted(nb) for nb in neigh]:
            chk.violation(tag + ":neighbors", dict(desc, faces=F, impl=impl_n, exact=[sorted(nb) for nb in neigh]))
        for a, nb in enumerate(impl_n):
            for b in nb:
                if a not in impl_n[b]:
                    chk.violation(tag + ":neighbors-asymmetric", dict(desc, faces=F, pair=[a, b]))
        # edges
        st, ie = C.excname(lambda: [tuple(int(x) for x in e) for e in p.edges])
        if st != "ok" or ie != edges:
            chk.violation(tag + ":edges", dict(desc, faces=F, impl=None if st != "ok" else ie, exact=edges, error=st))
        else:
            if int(p.num_edges) != len(edges):
                chk.violation(tag + ":num_edges", dict(desc, impl=int(p.num_edges), exact=len(edges)))
            ev = np.array(p.edge_vectors); el = np.array(p.edge_lengths)
            exv = np.array([V[j] - V[i] for i, j in edges])
            if not (np.allclose(ev, exv, rtol=0, atol=1e-12 * np.max(np.abs(V))) and np.allclose(el, np.linalg.norm(exv, axis=1), rtol=1e-12, atol=8 * 2.3e-16 * np.max(np.abs(V)))):
                chk.violation(tag + ":edge_vectors", dict(desc))
        # equations: unit outward normals whose plane contains the face
        eq = np.array(p.equations if hasattr(p, "equations") else p._equations)
        for k, f in enumerate(F):
            N = np.cross(V[f[2]] - V[f[1]], V[f[0]] - V[f[1]])
            n = N / np.linalg.norm(N)
            if abs(np.linalg.norm(eq[k, :3]) - 1) > 1e-12 or np.linalg.norm(eq[k, :3] - n) > 1e-9 or abs(eq[k, 3] + n @ V[f[0]]) > 1e-9 * max(1.0, np.max(np.abs(V))):
                chk.violation(tag + ":equations", dict(desc, face=f, impl=eq[k].tolist(), exact=list(n) + [float(-n @ V[f[0]])]))
                break
        if not np.allclose(np.array(p.normals), eq[:, :3]):
            chk.violation(tag + ":normals", dict(desc))
        # simplices triangulate the faces (ConvexPolyhedron)
        if tag == "convex":
            simp = np.array(p.simplices)
            for k, grp in enumerate(p._coplanar_simplices):
                vs = set(simp[list(grp)].ravel().tolist())
                if vs != set(F[k]) or len(grp) != len(F[k]) - 2:
                    chk.violation("convex:simplices-do-not-triangulate-face", dict(desc, face=F[k], simplices=simp[list(grp)].tolist()))
                    break
        chk.sample(dict(tag=tag, kind=m["kind"], nverts=len(V), nfaces=len(F), face_sizes=sorted(len(f) for f in F)[-3:], n_edges=len(edges)))


def extra_coverage(chk):
    return dict(vm_compute_crosschecks=chk.notes.get("vm_crosschecked", 0))


def replay(chk, rep):
    import coxeter

    d = rep["detail"]
    V = np.array(d["vertices"])
    if d.get("input_faces"):
        p = coxeter.shapes.Polyhedron(V, [np.array(f) for f in d["input_faces"]], faces_are_convex=True)
        p.sort_faces()
    else:
        p = coxeter.shapes.ConvexPolyhedron(V)
    return dict(faces=[list(map(int, f)) for f in p.faces], recorded=d)
