"""C17 - parametric shape families generate exactly the documented shapes."""
import math

import numpy as np

from .. import common as C
from .. import gen

ASSUMPTIONS = [
    "plane tables, plane types, the fixed middle distance and the parameter domains are REGENERATED from the source (Gen/Planes.v) on every run; the Coq "
    "model enumerates the exact vertex set of the half-space intersection over Q(sqrt5) (no thresholds, exact duplicate removal)",
    "parameters are dyadic rationals (exact on both sides); irrational domain end-points of family 523 are approached by their binary64 neighbours",
    "the implementation may raise ValueError where exact vertices are closer than 1e-4 (the property only demands success for well-separated vertices)",
    "uniform families: area / volume / centroid from the exact C04/C01 models on the binary64 vertices; edge lengths and first-vertex position in binary64 (1e-9)",
]
SQ5 = math.sqrt(5.0)


def grid(lo, hi, k):
    """dyadic grid points of [lo, hi] including end-points (as binary64 values)"""
    pts = sorted({lo, hi} | {float(gen.dy(lo + (hi - lo) * i / k, 10)) for i in range(1, k)})
    return [p for p in pts if lo <= p <= hi]


def run(chk):
    import coxeter
    from coxeter import families as Fm

    rng = chk.rng
    quick = chk.tier == "quick"
    chk.notes["rule"] = ("(a,c) on a dyadic grid of each family's rectangle incl. edges and corners, plus random dyadic points and out-of-domain values; all "
                         "truncations k/16; n = 3..40 (quick) / 3..200 (thorough) for n-gons, prisms, antiprisms, n = 3..5 for pyramids/dipyramids; "
                         "non-trivial = every parameter point")
    fams = [(323, Fm.Family323Plus, (1.0, 3.0), (1.0, 3.0), 6 if quick else 14),
            (423, Fm.Family423, (1.0, 2.0), (2.0, 3.0), 5 if quick else 12),
            # end-points exactly as the implementation computes them (binary64 neighbours of s*sqrt5 and S^2)
            (523, Fm.Family523, (1.0, float(Fm.Family523.s * np.sqrt(5))), (float(Fm.Family523.S ** 2), 3.0), 2 if quick else 5)]
    cases, meta = [], []
    for code, cls, (a0, a1), (c0, c1), k in fams:
        pts = [(a, c) for a in grid(a0, a1, k) for c in grid(c0, c1, k)]
        for _ in range(3 if quick else 20):
            pts.append((float(gen.dy(rng.uniform(a0, a1), 12)), float(gen.dy(rng.uniform(c0, c1), 12))))
        pts = [(a, c) for a, c in pts if a0 <= a <= a1 and c0 <= c <= c1]
        # out of domain
        for a, c in ((a0 - 0.125, c0), (a1 + 0.125, c1), (a0, c0 - 0.125), (a1, c1 + 0.25), (-1.0, c0)):
            st, _ = C.excname(cls.get_shape, a, c)
            chk.case([code, a, c, "out"], True)
            if st != "ValueError":
                chk.violation("out-of-domain-accepted" if st == "ok" else "wrong-exception", dict(family=code, a=a, c=c, outcome=st))
        for a, c in pts:
            st, sh = C.excname(cls.get_shape, a, c)
            stv, mv = C.excname(cls.make_vertices, a, float({323: 1, 423: 2, 523: 2}[code]), c)
            meta.append(dict(code=code, a=a, c=c, st=st, sh=sh, stv=stv, mv=mv, i=len(cases)))
            # a parameter is a number: the same point given as Python ints (and mixed int / float) is the same shape
            if float(a).is_integer() or float(c).is_integer():
                ai = int(a) if float(a).is_integer() else a
                ci = int(c) if float(c).is_integer() else c
                sti, shi = C.excname(cls.get_shape, ai, ci)
                chk.case([code, a, c, "int-form"], True)
                chk.count("int-parameter-form")
                if sti != st or (st == "ok" and not same_point_set(np.array(shi.vertices, float), np.array(sh.vertices, float), 1e-12)):
                    chk.violation("parameter-form-dependence", dict(family=code, a=repr(ai), c=repr(ci), outcome_int=sti, outcome_float=st))
            cases.append(C.encode_case("family", sc=[code, a, c]))
    # what a family hands out is the caller's: damaging a returned vertex array / shape must not change the next answer
    for code, cls, (a0, a1), (c0, c1), k in fams:
        a, c, b = (a0 + a1) / 2, (c0 + c1) / 2, float({323: 1, 423: 2, 523: 2}[code])
        st, v1 = C.excname(cls.make_vertices, a, b, c)
        if st == "ok":
            ref = np.array(v1, float).copy()
            try:
                np.asarray(v1)[...] *= 3.0
            except Exception:  # noqa: BLE001
                pass
            st2, v2 = C.excname(cls.make_vertices, a, b, c)
            chk.case([code, "aliasing"], True)
            if st2 != "ok" or not np.array_equal(np.array(v2, float), ref):
                chk.violation("family-result-aliased", dict(family=code, a=a, c=c, what="make_vertices after modifying a previously returned array differs", outcome=st2))
        st, s1 = C.excname(cls.get_shape, a, c)
        if st == "ok":
            ref = np.array(s1.vertices, float).copy()
            try:
                s1.volume = 7.0
                np.asarray(s1.vertices)[...] += 1.0
            except Exception:  # noqa: BLE001
                pass
            st2, s2 = C.excname(cls.get_shape, a, c)
            if st2 != "ok" or not np.array_equal(np.array(s2.vertices, float), ref):
                chk.violation("family-result-aliased", dict(family=code, a=a, c=c, what="get_shape after modifying a previously returned shape differs", outcome=st2))
    res = C.run_model(cases)
    nvm, okvm = C.vm_crosscheck([c for c in cases if c.startswith("50|323")][:2], [r for c, r in zip(cases, res) if c.startswith("50|323")][:2], "C17", limit=2)
    if not okvm:
        chk.violation("extraction-vs-vm_compute", dict(what="extracted binary and vm_compute disagree"), no_input=True)
    chk.notes["vm_crosschecked"] = nvm
    for m in meta:
        r = res[m["i"]]
        indom, n = bool(r[0]), int(r[1])
        X = np.array([[C.fl(r[2 + 6 * i + 2 * j]) + C.fl(r[2 + 6 * i + 2 * j + 1]) * SQ5 for j in range(3)] for i in range(n)]).reshape(-1, 3)
        desc = dict(family=m["code"], a=m["a"], c=m["c"], exact_vertex_count=n)
        chk.case([m["code"], m["a"], m["c"]], True)
        chk.count("family:%d" % m["code"])
        if not indom:
            # only possible at the binary64 neighbours of the irrational end-points of family 523
            if m["code"] != 523:
                chk.violation("model-domain", dict(desc, what="grid point judged outside the generated domain"), no_input=True); continue
            chk.count("domain-endpoint-rounded(523)")
        # the parameter may be the binary64 neighbour of a degenerate value: merge exact vertices closer than 1e-6
        keep = []
        for x in X:
            if all(np.linalg.norm(x - y) > 1e-6 for y in keep):
                keep.append(x)
        merged = len(keep) != len(X)
        X = np.array(keep).reshape(-1, 3); n = len(X)
        sep = 0.0 if merged else min((np.linalg.norm(X[i] - X[j]) for i in range(n) for j in range(i)), default=1.0)
        if m["st"] == "ok":
            V = np.array(m["sh"].vertices, float)
            if not same_point_set(V, X, 1e-6):
                chk.violation("family-shape-differs", dict(desc, impl_vertices=len(V), what="returned polyhedron is not the half-space intersection",
                                                           impl=V.tolist()[:6], exact=X.tolist()[:6]))
        elif m["st"] == "ValueError":
            if sep > 1e-4 and n >= 4:
                chk.violation("family-raised-on-wellseparated", dict(desc, min_vertex_separation=float(sep)))
            else:
                chk.count("raised:degenerate(allowed)")
        else:
            chk.violation("wrong-exception", dict(desc, outcome=m["st"]))
        if m["stv"] == "ok" and sep > 1e-4 and not same_point_set(np.array(m["mv"], float), X, 1e-6):
            chk.violation("make_vertices-differs", dict(desc, impl_count=len(m["mv"])))
        chk.sample(dict(family=m["code"], a=m["a"], c=m["c"], exact_vertices=n, impl=m["st"]))
    # truncated tetrahedron family
    for k in range(0, 17):
        t = k / 16
        st, sh = C.excname(Fm.TruncatedTetrahedronFamily.get_shape, t)
        st2, sh2 = C.excname(Fm.Family323Plus.get_shape, 1.0, 3 - 2 * t)
        chk.case(["trunc", t], True)
        if st != st2 or (st == "ok" and not same_point_set(np.array(sh.vertices), np.array(sh2.vertices), 1e-9)):
            chk.violation("truncated-tetrahedron-family", dict(truncation=t, outcome=st, reference=st2))
        if float(t).is_integer():
            sti, shi = C.excname(Fm.TruncatedTetrahedronFamily.get_shape, int(t))
            if sti != st or (st == "ok" and not same_point_set(np.array(shi.vertices, float), np.array(sh.vertices, float), 1e-12)):
                chk.violation("parameter-form-dependence", dict(family="TruncatedTetrahedron", truncation=int(t), outcome_int=sti, outcome_float=st))
    for t in (-0.125, 1.125):
        st, _ = C.excname(Fm.TruncatedTetrahedronFamily.get_shape, t)
        if st != "ValueError":
            chk.violation("out-of-domain-accepted", dict(family="TruncatedTetrahedron", truncation=t, outcome=st))
    uniform(chk, rng, range(3, 201))
    st, _ = C.excname(lambda: Fm.DOI_SHAPE_REPOSITORIES["10.9999/unknown"])
    if st != "KeyError":
        chk.violation("unknown-doi", dict(outcome=st))
    for doi, want in (("10.1103/PhysRevX.4.011024", 3), ("10.1021/nn204012y", 1)):
        st, fl = C.excname(lambda: Fm.DOI_SHAPE_REPOSITORIES[doi])
        if st != "ok" or len(fl) != want:
            chk.violation("doi-repository", dict(doi=doi, outcome=st))


def same_point_set(A, B, tol):
    if len(A) != len(B):
        return False
    if len(A) == 0:
        return True
    d = np.linalg.norm(A[:, None, :] - B[None, :, :], axis=2)
    return bool(np.all(d.min(axis=1) <= tol) and np.all(d.min(axis=0) <= tol))


def uniform(chk, rng, ns):
    from coxeter import families as Fm

    cases, meta = [], []
    for n in ns:
        st, poly = C.excname(Fm.RegularNGonFamily.get_shape, n)
        chk.case(["ngon", n], True)
        if st != "ok":
            chk.violation("ngon-raised", dict(n=n, error=st)); continue
        V = np.array(Fm.RegularNGonFamily.make_vertices(n), float)
        meta.append(dict(kind="ngon", n=n, V=V, i=len(cases)))
        cases.append(C.encode_case("polygon", sc=[0, 0, 0, 0, 0], qs=C.flat(V)))
        for kind, cls in (("prism", Fm.UniformPrismFamily), ("antiprism", Fm.UniformAntiprismFamily)):
            st, sh = C.excname(cls.get_shape, n)
            chk.case([kind, n], True)
            if st != "ok":
                chk.violation(kind + "-raised", dict(n=n, error=st)); continue
            meta.append(dict(kind=kind, n=n, sh=sh, V=np.array(sh.vertices, float), i=len(cases)))
            cases.append(C.encode_case("mesh_moments", qs=C.flat(sh.vertices), idx=np.array(sh.simplices).tolist()))
    for n in (3, 4, 5):
        for kind, cls in (("pyramid", Fm.UniformPyramidFamily), ("dipyramid", Fm.UniformDipyramidFamily)):
            st, sh = C.excname(cls.get_shape, n)
            chk.case([kind, n], True)
            if st != "ok":
                chk.violation(kind + "-raised", dict(n=n, error=st)); continue
            meta.append(dict(kind=kind, n=n, sh=sh, V=np.array(sh.vertices, float), i=len(cases)))
            cases.append(C.encode_case("mesh_moments", qs=C.flat(sh.vertices), idx=np.array(sh.simplices).tolist()))
    res = C.run_model(cases)
    for m in meta:
        r = res[m["i"]]
        n, V = m["n"], m["V"]
        desc = dict(family=m["kind"], n=n)
        chk.count("uniform:" + m["kind"])
        if m["kind"] == "ngon":
            area = abs(C.fl(r[2])) * math.sqrt(C.fl(r[0]))
            rad = np.linalg.norm(V[:, :2], axis=1)
            edges = np.linalg.norm(np.roll(V, -1, axis=0) - V, axis=1)
            if (len(V) != n or abs(area - 1) > 1e-9 or abs(V[0, 1]) > 1e-12 or V[0, 0] <= 0 or np.ptp(rad) > 1e-9 * rad[0]
                    or np.ptp(edges) > 1e-9 * edges[0] or np.any(V[:, 2] != 0)):
                chk.violation("ngon-not-regular-unit-area", dict(desc, area=area, first_vertex=V[0].tolist(), count=len(V)))
            continue
        vol = C.fl(r[1]); cen = np.array([C.fl(x) for x in r[2:5]])
        want = dict(prism=2 * n, antiprism=2 * n, pyramid=n + 1, dipyramid=n + 2)[m["kind"]]
        el = np.array(m["sh"].edge_lengths, float)
        bad = []
        if len(V) != want:
            bad.append("vertex count %d != %d" % (len(V), want))
        if abs(vol - 1) > 1e-9:
            bad.append("volume %r" % vol)
        if np.linalg.norm(cen) > 1e-9:
            bad.append("centroid %s" % cen.tolist())
        if np.ptp(el) > 1e-9 * el.mean():
            bad.append("edge lengths differ: %g..%g" % (el.min(), el.max()))
        if bad:
            chk.violation("uniform-family", dict(desc, problems=bad))


def extra_coverage(chk):
    return dict(vm_compute_crosschecks=chk.notes.get("vm_crosschecked", 0))


def replay(chk, rep):
    return rep["detail"]
