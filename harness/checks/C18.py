"""C18 - every tabulated family entry is the solid its name says (finite, exhaustive)."""
import json
import math
import os

import numpy as np

from .. import common as C

ASSUMPTIONS = [
    "finite domain, enumerated exhaustively: 145 entries of the six named families + 145 entries of the DOI repository",
    "textbook (V,E,F) reference for Platonic/Archimedean/Catalan solids is hand-written in Model/Reference.v (and mirrored here for E and F of the BUILT "
    "polyhedra); volume from the exact C01 model on the binary64 vertices; tolerances 1e-6 (unit volume, equal edges, regular faces, insphere, coincidence)",
    "'coincide' for repository entries citing a family = same sorted multiset of pairwise vertex distances after normalising to unit volume",
]
REF = {
    "Tetrahedron": (4, 6, 4), "Cube": (8, 12, 6), "Octahedron": (6, 12, 8), "Dodecahedron": (20, 30, 12), "Icosahedron": (12, 30, 20),
    "Truncated Tetrahedron": (12, 18, 8), "Cuboctahedron": (12, 24, 14), "Truncated Cube": (24, 36, 14), "Truncated Octahedron": (24, 36, 14),
    "Rhombicuboctahedron": (24, 48, 26), "Truncated Cuboctahedron": (48, 72, 26), "Snub Cuboctahedron": (24, 60, 38), "Icosidodecahedron": (30, 60, 32),
    "Truncated Dodecahedron": (60, 90, 32), "Truncated Icosahedron": (60, 90, 32), "Rhombicosidodecahedron": (60, 120, 62),
    "Truncated Icosidodecahedron": (120, 180, 62), "Snub Icosidodecahedron": (60, 150, 92),
    "Triakis Tetrahedron": (8, 18, 12), "Rhombic Dodecahedron": (14, 24, 12), "Triakis Octahedron": (14, 36, 24), "Tetrakis Hexahedron": (14, 36, 24),
    "Deltoidal Icositetrahedron": (26, 48, 24), "Disdyakis Dodecahedron": (26, 72, 48), "Pentagonal Icositetrahedron": (38, 60, 24),
    "Rhombic Triacontahedron": (32, 60, 30), "Triakis Icosahedron": (32, 90, 60), "Pentakis Dodecahedron": (32, 90, 60),
    "Deltoidal Hexecontahedron": (62, 120, 60), "Disdyakis Triacontahedron": (62, 180, 120), "Pentagonal Hexecontahedron": (92, 150, 60),
}
T = 1e-6


def dist_signature(V):
    d = np.linalg.norm(V[:, None, :] - V[None, :, :], axis=2)
    return np.sort(d[np.triu_indices(len(V), 1)])


def run(chk):
    import coxeter
    from coxeter import families as Fm

    chk.notes["rule"] = "every entry of every tabulated family and of the DOI repository (290 entries); each entry is a distinct non-trivial case"
    chk.notes["exhaustive"] = True
    fams = [("platonic", Fm.PlatonicFamily), ("archimedean", Fm.ArchimedeanFamily), ("catalan", Fm.CatalanFamily), ("johnson", Fm.JohnsonFamily),
            ("prism_antiprism", Fm.PrismAntiprismFamily), ("pyramid_dipyramid", Fm.PyramidDipyramidFamily)]
    repo = Fm.DOI_SHAPE_REPOSITORIES["10.1126/science.1220869"][0]
    fams.append(("science1220869", repo))
    built = {}
    cases, meta = [], []
    for fname, fam in fams:
        data = json.load(open(os.path.join(C.REPO, "coxeter/families/data", fname + ".json")))
        names = list(fam.names)
        # "the order of names": names is the ordered list of the entries' names (indexable, comparable with a list), not merely an iterable
        raw = fam.names
        st_, ends = C.excname(lambda: (raw[0], raw[-1], len(raw)))
        if not isinstance(raw, (list, tuple)) or st_ != "ok" or list(ends) != [names[0], names[-1], len(names)] or not (raw == names or raw == tuple(names)):
            chk.violation("names-order", dict(family=fname, what="names is not the ordered list of entry names", type=type(raw).__name__, indexing=st_))
        if names != list(data.keys()) or len(set(names)) != len(names):
            chk.violation("names-order", dict(family=fname, what="names differ from the order of the data file or contain duplicates"))
        # an abandoned iteration must not disturb the next one, and a family can be iterated any number of times
        first = next(iter(fam), None)
        if first is None or first[0] != names[0]:
            chk.violation("iteration-order", dict(family=fname, what="the first item of a fresh iterator is not the first name", got=None if first is None else first[0]))
        it = list(iter(fam))
        if [k for k, _ in it] != names:
            chk.violation("iteration-order", dict(family=fname, iterated=[k for k, _ in it][:5], names=names[:5], count=len(it)))
        again = [k for k, _ in fam]
        if again != names:
            chk.violation("iteration-order", dict(family=fname, what="a second pass over the family does not yield every name once, in order", count=len(again)))
        # two iterations over the same family alive at once (nested loops, zip, an iterator kept while another runs) are independent
        small = names[: min(len(names), 6)]
        pairs = []
        for i_, (k1, _) in enumerate(fam):
            if i_ >= len(small):
                break
            for j_, (k2, _) in enumerate(fam):
                if j_ >= len(small):
                    break
                pairs.append((k1, k2))
        if pairs != [(x, y) for x in small for y in small]:
            chk.violation("iteration-order", dict(family=fname, what="nested loops over the same family do not yield every pair of names", got=pairs[:8], count=len(pairs)))
        zipped = [(x[0], y[0]) for x, y in zip(fam, fam)]
        if zipped != [(x, x) for x in names]:
            chk.violation("iteration-order", dict(family=fname, what="zip(family, family) does not pair every name with itself", got=zipped[:5], count=len(zipped)))
        kept = iter(fam)
        k_first = next(kept)[0]
        _ = [k for k, _ in fam]
        rest = [k for k, _ in kept]
        if [k_first] + rest != names:
            chk.violation("iteration-order", dict(family=fname, what="an iterator kept while another pass runs does not continue where it was", got=([k_first] + rest)[:5], count=1 + len(rest)))
        for pos, (key, sh_it) in enumerate(it):
            st, sh = C.excname(fam.get_shape, key)
            chk.case([fname, key], True)
            chk.count("family:" + fname)
            desc = dict(family=fname, entry=key)
            if st != "ok" or type(sh).__name__ != "ConvexPolyhedron":
                chk.violation("entry-does-not-build", dict(desc, outcome=st)); continue
            V = np.array(sh.vertices, float)
            if not np.array_equal(V, np.array(sh_it.vertices, float)) or (pos < len(names) and not np.array_equal(V, np.array(fam.get_shape(names[pos]).vertices, float))):
                chk.violation("iteration-shape-mismatch", dict(desc, position=pos, name_at_position=names[pos]))
            if not np.array_equal(V, np.array(data[key]["vertices"], float)):
                chk.violation("vertices-differ-from-table", desc)
            built[(fname, key)] = sh
            meta.append(dict(fname=fname, key=key, sh=sh, V=V, entry=data[key], i=len(cases)))
            cases.append(C.encode_case("mesh_moments", qs=C.flat(V), idx=np.array(sh.simplices).tolist()))
        # the table is not aliased by what it hands out: damaging a returned shape must not change the next one
        for key in names[:2] + names[-1:]:
            st, sh1 = C.excname(fam.get_shape, key)
            if st != "ok":
                continue
            ref = np.array(sh1.vertices, float).copy()
            try:
                np.asarray(sh1.vertices)[...] *= 3.0
                sh1.volume = 5.0
            except Exception:  # noqa: BLE001
                pass
            st, sh2 = C.excname(fam.get_shape, key)
            if st != "ok" or not np.array_equal(np.array(sh2.vertices, float), ref):
                chk.violation("table-aliased", dict(family=fname, entry=key, outcome=st, what="get_shape after modifying a previously returned shape differs from the table"))
        for bad in ("No Such Solid", "cube", ""):
            for attempt in (1, 2, 3):          # (a refused lookup stays refused however often it is repeated)
                st, _ = C.excname(fam.get_shape, bad)
                if st != "KeyError":
                    chk.violation("unknown-name", dict(family=fname, name=bad, outcome=st, attempt=attempt)); break
        if list(fam.names) != names:
            chk.violation("names-order", dict(family=fname, what="the names changed after refused lookups"))
    known_dois = sorted(Fm.DOI_SHAPE_REPOSITORIES.keys())
    for doi in ("10.0000/nothing", "", "10.1126/science.122086"):
        for attempt in (1, 2, 3):
            st, got = C.excname(lambda: Fm.DOI_SHAPE_REPOSITORIES[doi])
            if st != "KeyError":
                chk.violation("unknown-doi", dict(doi=doi, outcome=st, attempt=attempt, returned=None if st != "ok" else repr(got)[:80])); break
        if doi in Fm.DOI_SHAPE_REPOSITORIES or sorted(Fm.DOI_SHAPE_REPOSITORIES.keys()) != known_dois:
            chk.violation("unknown-doi", dict(doi=doi, what="a refused DOI is listed among the repository's keys afterwards")); break
    res = C.run_model(cases)
    nvm, okvm = C.vm_crosscheck(cases[:3], res[:3], "C18", limit=3)
    if not okvm:
        chk.violation("extraction-vs-vm_compute", dict(what="extracted binary and vm_compute disagree"), no_input=True)
    chk.notes["vm_crosschecked"] = nvm
    for m in meta:
        sh, V, fname, key = m["sh"], m["V"], m["fname"], m["key"]
        vol = C.fl(res[m["i"]][1])
        desc = dict(family=fname, entry=key)
        name = key if fname != "science1220869" else (m["entry"].get("name") or "")
        kind = fname if fname != "science1220869" else (m["entry"].get("source") or "").replace(".json", "") or {"P": "platonic", "A": "archimedean", "C": "catalan", "J": "johnson", "O": "other"}[key[0]]
        if kind in ("platonic", "archimedean", "catalan"):
            ref = REF.get(name)
            got = (len(V), int(sh.num_edges), int(sh.num_faces))
            if ref is None or got != ref or len(sh.edges) != got[1]:
                chk.violation("vef-counts", dict(desc, got=got, textbook=ref))
            if abs(vol - 1) > T:
                chk.violation("not-unit-volume", dict(desc, volume=vol))
        if kind in ("platonic", "archimedean", "johnson"):
            el = np.array(sh.edge_lengths, float)
            known_j86 = fname == "science1220869" and key == "J86" and chk.is_known("science-J86-edge-precision")
            if np.ptp(el) > T * el.mean():
                if known_j86 and np.ptp(el) <= 1e-5 * el.mean():
                    chk.known_finding("science-J86-edge-precision", "repository entry J86 (sphenocorona) is tabulated to ~6 digits: edge lengths differ by 3.6e-6")
                else:
                    chk.violation("edges-not-equal", dict(desc, min=float(el.min()), max=float(el.max())))
            for f in sh.faces:
                P = V[list(map(int, f))]
                c = P.mean(0)
                r = np.linalg.norm(P - c, axis=1)
                if np.ptp(r) > T * r.mean() and not (known_j86 and np.ptp(r) <= 1e-5 * r.mean()):
                    chk.violation("face-not-regular", dict(desc, face=[int(x) for x in f])); break
        if kind == "catalan":
            c = np.array(sh.centroid, float)
            d = []
            for f in sh.faces:
                N = np.cross(V[f[2]] - V[f[1]], V[f[0]] - V[f[1]])
                d.append(-(N @ (c - V[f[0]])) / np.linalg.norm(N))
            d = np.array(d)
            st, ins = C.excname(lambda: sh.insphere)
            if np.ptp(d) > T * d.mean() or st != "ok" or abs(float(ins.radius) - d.mean()) > T * d.mean():
                chk.violation("catalan-no-insphere", dict(desc, spread=float(np.ptp(d)), outcome=st))
        if fname == "science1220869" and m["entry"].get("source"):
            src = m["entry"]["source"].replace(".json", "")
            cand = [k for (fn, k) in built if fn == src and k in (m["entry"].get("name"), m["entry"].get("alternative_name"))]
            if not cand:
                chk.violation("citation-missing", dict(desc, source=src, name=m["entry"].get("name")))
            else:
                W = np.array(built[(src, cand[0])].vertices, float)
                sa = dist_signature(V) / abs(vol) ** (1 / 3)
                vol2 = float(built[(src, cand[0])].volume)
                sb = dist_signature(W) / abs(vol2) ** (1 / 3)
                if len(sa) != len(sb) or np.max(np.abs(sa - sb)) > 1e-5:
                    chk.violation("repository-entry-differs-from-family", dict(desc, source=src, cited=cand[0]))
        chk.sample(dict(family=fname, entry=key, nverts=len(V), volume=vol), cap=8)


def extra_coverage(chk):
    return dict(vm_compute_crosschecks=chk.notes.get("vm_crosschecked", 0))


def replay(chk, rep):
    return rep["detail"]
