"""Seeded generators implementing the properties' quantifier texts.

All coordinates are binary64 values; most are dyadic (k * 2^-m) so they are exact on
both sides and products stay small.  Every random choice comes from the Generator
passed in, so a (seed, property) pair replays exactly.
"""
import itertools
import math

import numpy as np
from scipy.spatial import ConvexHull


def dy(x, bits=8):
    s = float(1 << bits)
    return np.round(np.asarray(x, dtype=float) * s) / s


# ------------------------------------------------------------------ rigid motions


def rot_from_quat(q, integer=False):
    w, x, y, z = [float(t) for t in q]
    n = w * w + x * x + y * y + z * z
    M = np.array([
        [w * w + x * x - y * y - z * z, 2 * (x * y - w * z), 2 * (x * z + w * y)],
        [2 * (x * y + w * z), w * w - x * x + y * y - z * z, 2 * (y * z - w * x)],
        [2 * (x * z - w * y), 2 * (y * z + w * x), w * w - x * x - y * y + z * z],
    ])
    if integer:
        return M, n  # M is an integer matrix with M M^T = n^2 I, det = n^3
    return M / n


def random_rotation(rng, kind=None, integer=False):
    """Proper rotation.  With integer=True returns (M, n): M integer, M/n the rotation."""
    kind = kind or rng.choice(["int", "int", "axis", "id"])
    if kind == "id":
        return (np.eye(3), 1.0) if integer else np.eye(3)
    if kind == "axis":
        p = np.eye(3)[rng.permutation(3)]
        if np.linalg.det(p) < 0:
            p[0] *= -1
        return (p, 1.0) if integer else p
    while True:
        q = rng.integers(-3, 4, size=4)
        if np.count_nonzero(q) >= 2:
            return rot_from_quat(q, integer)


def place(rng, V, offset_diam=10.0, scale_pow=(-2, 3), rotate=True):
    """Similarity placement that is EXACT on dyadic input: integer matrix M (= n * rotation),
    power-of-two rescaling, dyadic translation.  Coplanarity/lattice structure is preserved."""
    V = np.asarray(V, dtype=float)
    M, n = random_rotation(rng, integer=True) if rotate else (np.eye(3), 1.0)
    k = 2.0 ** -math.ceil(math.log2(n)) if n > 1 else 1.0
    diam = float(np.max(np.linalg.norm(V - V.mean(0), axis=1))) * 2 + 1e-300
    s = 2.0 ** int(rng.integers(scale_pow[0], scale_pow[1] + 1))
    t = dy(rng.uniform(-1, 1, 3) * rng.choice([0.0, 0.5, 3.0, offset_diam]) * diam * s, 6)
    return (V @ M.T) * (k * s) + t


# ------------------------------------------------------------------ convex vertex sets


def hull_vertices_only(P):
    h = ConvexHull(P)
    return P[np.sort(h.vertices)]


def convex_ellipsoid(rng, n=None):
    n = n or int(rng.integers(4, 40))
    axes = 2.0 ** rng.integers(-2, 3, size=3).astype(float)
    for _ in range(20):
        X = rng.normal(size=(n, 3))
        X /= np.linalg.norm(X, axis=1)[:, None]
        P = dy(X * axes, 10)
        P = np.unique(P, axis=0)
        try:
            h = ConvexHull(P)
        except Exception:  # noqa: BLE001
            continue
        if len(h.vertices) == len(P) and len(P) >= 4:
            return P
        P = P[np.sort(h.vertices)]
        if len(P) >= 4:
            try:
                if len(ConvexHull(P).vertices) == len(P):
                    return P
            except Exception:  # noqa: BLE001
                pass
    return np.array([[0, 0, 0], [1, 0, 0], [0, 1, 0], [0, 0, 1]], float)


def convex_lattice(rng):
    k = int(rng.integers(2, 5))
    pts = np.array(list(itertools.product(range(k + 1), repeat=3)), float)
    m = int(rng.integers(6, min(len(pts), 30)))
    for _ in range(20):
        P = pts[rng.choice(len(pts), size=m, replace=False)]
        try:
            h = ConvexHull(P)
        except Exception:  # noqa: BLE001
            continue
        V = P[np.sort(h.vertices)]
        # a lattice point on a facet (coplanar, not a vertex) is legal; keep only true vertices
        try:
            if len(ConvexHull(V).vertices) == len(V) and len(V) >= 4:
                return V
        except Exception:  # noqa: BLE001
            continue
    return pts[[0, 1, k + 1, (k + 1) ** 2]]


def ngon(n, r=1.0, phase=0.0):
    a = phase + 2 * np.pi * np.arange(n) / n
    return np.stack([r * np.cos(a), r * np.sin(a)], 1)


def convex_prismatic(rng):
    kind = rng.choice(["prism", "antiprism", "pyramid", "dipyramid", "box"])
    n = int(rng.integers(3, 9))
    h = float(2.0 ** rng.integers(-3, 3))
    base = dy(ngon(n, 1.0, rng.uniform(0, 1)), 10)
    if kind == "box":
        a, b, c = 2.0 ** rng.integers(-3, 4, size=3).astype(float)
        return np.array(list(itertools.product([0, a], [0, b], [0, c])), float)
    if kind == "prism":
        return np.vstack([np.c_[base, np.zeros(n)], np.c_[base, np.full(n, h)]])
    if kind == "antiprism":
        top = dy(ngon(n, 1.0, rng.uniform(0, 1) + np.pi / n), 10)
        return np.vstack([np.c_[base, np.zeros(n)], np.c_[top, np.full(n, h)]])
    if kind == "pyramid":
        return np.vstack([np.c_[base, np.zeros(n)], [[0.0, 0.0, h]]])
    return np.vstack([np.c_[base, np.zeros(n)], [[0.0, 0.0, h]], [[0.0, 0.0, -h / 2]]])


def convex_creased(rng):
    """A box with one lid corner raised by 2^-k (k = 17..22), in an oblique orientation: the lid is two DISTINCT hull facets meeting in a
    fold a few 1e-6 rad from flat - far outside any rounding-level coplanarity tolerance, yet inside a careless relative one (which
    compares the components of the unit normals, hence the oblique placement)."""
    a, b, c = 2.0 ** rng.integers(-1, 3, size=3).astype(float)
    V = np.array(list(itertools.product([0, a], [0, b], [0, c])), float)
    V[-1, 2] += c * 2.0 ** -int(rng.integers(17, 23))
    M, n = rot_from_quat([int(x) for x in rng.integers(1, 4, size=4)], integer=True)      # all components non-zero: no axis stays aligned
    return V @ M.T * 2.0 ** -int(np.ceil(np.log2(n)))


def convex_chamfered(rng):
    """A cube of side 16 with one corner cut off 2^-13 from the corner: three distinct vertices 1.7e-4 apart (1e-5 of the size) -
    well separated in binary64, yet equal under a careless np.isclose with its default relative tolerance."""
    L, e = 16.0, 2.0 ** -13
    V = [v for v in itertools.product([0.0, L], repeat=3) if v != (L, L, L)]
    V += [(L - e, L, L), (L, L - e, L), (L, L, L - e)]
    return np.array(V, float)


def convex_set(rng, allow_place=True, kinds=("ellipsoid", "ellipsoid", "lattice", "prismatic", "flat", "needle")):
    kind = rng.choice(list(kinds))
    if kind == "ellipsoid":
        V = convex_ellipsoid(rng)
    elif kind == "chamfered":
        V = convex_chamfered(rng)
    elif kind == "creased":
        V = convex_creased(rng)
    elif kind == "lattice":
        V = convex_lattice(rng)
    elif kind == "prismatic":
        V = convex_prismatic(rng)
    elif kind in ("bigprism", "biglattice"):
        # faces of MANY coplanar triangles at coordinates that are large compared with the shape (5-20 diameters away, or a lattice polytope
        # blown up by 100 at integer offsets of a few hundred): a prism over a regular n-gon with its axis along z and an arbitrary
        # translation is exactly planar face by face (constant z / vertical planes through two points), whatever the rounding of cos, sin
        if kind == "bigprism":
            n = int(rng.integers(12, 31))
            ang = 2 * np.pi * np.arange(n) / n + rng.uniform(0, 1)
            ring = np.c_[np.cos(ang), np.sin(ang)]
            h = float(rng.choice([0.5, 1.0, 2.0]))
            V = np.vstack([np.c_[ring, np.zeros(n)], np.c_[ring, np.full(n, h)]]) + rng.uniform(-1, 1, 3) * float(rng.choice([5.0, 10.0, 20.0])) * 2.0
        else:
            V = convex_lattice(rng) * 100.0 + np.array([float(x) for x in rng.integers(-900, 901, 3)])
        allow_place = False
    elif kind == "flat":
        V = convex_ellipsoid(rng) * np.array([1.0, 1.0, 2.0 ** -int(rng.integers(4, 9))])
    else:
        V = convex_ellipsoid(rng) * np.array([2.0 ** -int(rng.integers(4, 9)), 2.0 ** -int(rng.integers(4, 9)), 1.0])
    if allow_place:
        V = place(rng, V)
    V = np.unique(V, axis=0)
    try:
        h = ConvexHull(V)
        if len(h.vertices) != len(V):
            V = V[np.sort(h.vertices)]
    except Exception:  # noqa: BLE001
        V = np.array([[0, 0, 0], [1, 0, 0], [0, 1, 0], [0, 0, 1]], float)
    return kind, V[rng.permutation(len(V))]


# ------------------------------------------------------------------ closed oriented meshes


def voxel_solid(rng, ncells=None, shape=None):
    """Union of unit cubes as (vertices, quad faces CCW from outside). Edge-manifold."""
    presets = {
        "U": [(0, 0, 0), (1, 0, 0), (2, 0, 0), (0, 1, 0), (2, 1, 0), (0, 2, 0), (2, 2, 0)],
        "C": [(0, 0, 0), (1, 0, 0), (0, 1, 0), (0, 2, 0), (1, 2, 0)],
        "frame": [(x, y, 0) for x in range(3) for y in range(3) if (x, y) != (1, 1)],
        "L": [(0, 0, 0), (1, 0, 0), (0, 1, 0), (0, 0, 1)],
        "cube": [(0, 0, 0)],
    }
    for _ in range(50):
        if shape is None:
            shape_ = rng.choice(["rand", "rand", "U", "C", "frame", "L", "cube"])
        else:
            shape_ = shape
        if shape_ == "rand":
            n = ncells or int(rng.integers(3, 10))
            cells = {(0, 0, 0)}
            while len(cells) < n:
                c = list(cells)[int(rng.integers(len(cells)))]
                d = [(1, 0, 0), (-1, 0, 0), (0, 1, 0), (0, -1, 0), (0, 0, 1), (0, 0, -1)][int(rng.integers(6))]
                cells.add((c[0] + d[0], c[1] + d[1], c[2] + d[2]))
        else:
            cells = set(presets[shape_])
        quads = []
        # faces: for each cell and each direction with empty neighbour
        dirs = {
            (1, 0, 0): [(1, 0, 0), (1, 1, 0), (1, 1, 1), (1, 0, 1)],
            (-1, 0, 0): [(0, 0, 0), (0, 0, 1), (0, 1, 1), (0, 1, 0)],
            (0, 1, 0): [(0, 1, 0), (0, 1, 1), (1, 1, 1), (1, 1, 0)],
            (0, -1, 0): [(0, 0, 0), (1, 0, 0), (1, 0, 1), (0, 0, 1)],
            (0, 0, 1): [(0, 0, 1), (1, 0, 1), (1, 1, 1), (0, 1, 1)],
            (0, 0, -1): [(0, 0, 0), (0, 1, 0), (1, 1, 0), (1, 0, 0)],
        }
        for c in cells:
            for d, corners in dirs.items():
                if (c[0] + d[0], c[1] + d[1], c[2] + d[2]) not in cells:
                    quads.append([(c[0] + p[0], c[1] + p[1], c[2] + p[2]) for p in corners])
        verts = sorted({p for q in quads for p in q})
        index = {p: i for i, p in enumerate(verts)}
        faces = [[index[p] for p in q] for q in quads]
        # manifold test: every undirected edge in exactly two faces; every vertex link connected
        cnt = {}
        for f in faces:
            for a, b in zip(f, f[1:] + f[:1]):
                cnt[(min(a, b), max(a, b))] = cnt.get((min(a, b), max(a, b)), 0) + 1
        if any(v != 2 for v in cnt.values()):
            if shape is not None:
                raise ValueError("preset not manifold")
            continue
        # vertex manifoldness: faces around each vertex form one cycle
        ok = True
        for vi in range(len(verts)):
            fs = [k for k, f in enumerate(faces) if vi in f]
            # union-find over faces sharing an edge at vi
            parent = {k: k for k in fs}

            def find(x):
                while parent[x] != x:
                    x = parent[x]
                return x

            for a in fs:
                for b in fs:
                    if a < b:
                        ea = {frozenset(e) for e in zip(faces[a], faces[a][1:] + faces[a][:1]) if vi in e}
                        eb = {frozenset(e) for e in zip(faces[b], faces[b][1:] + faces[b][:1]) if vi in e}
                        if ea & eb:
                            parent[find(a)] = find(b)
            if len({find(k) for k in fs}) != 1:
                ok = False
                break
        if not ok:
            if shape is not None:
                raise ValueError("preset not vertex-manifold")
            continue
        return shape_, np.array(verts, float), faces, sorted(cells)
    raise RuntimeError("voxel generator failed")


def merge_coplanar_quads(V, faces):
    """Not merged: adjacent coplanar quads are left as separate faces (allowed by C02)."""
    return V, faces


def simple_polygon(rng, n=None, kind=None):
    """Simple polygon in the xy-plane, CCW, dyadic coordinates. Returns (kind, (n,2) array)."""
    kind = kind or rng.choice(["star", "star", "comb", "spiral", "lattice", "convex"])
    if kind == "star":
        n = n or int(rng.integers(3, 30))
        for _ in range(50):
            ang = np.sort(rng.uniform(0, 2 * np.pi, n))
            if np.min(np.diff(np.r_[ang, ang[0] + 2 * np.pi])) < 0.02 or np.max(np.diff(np.r_[ang, ang[0] + 2 * np.pi])) > 2.6:
                continue
            r = rng.uniform(0.4, 2.0, n)
            P = dy(np.stack([r * np.cos(ang), r * np.sin(ang)], 1), 8)
            if len(np.unique(P, axis=0)) == n and is_simple_bf(P) and abs(shoelace(P)) > 1e-3:
                return kind, P
        return "star", np.array([[0, 0], [2, 0], [0, 1.0]])
    if kind == "convex":
        n = n or int(rng.integers(3, 20))
        for _ in range(50):
            ang = np.sort(rng.uniform(0, 2 * np.pi, n))
            P = dy(np.stack([2 * np.cos(ang), 1.5 * np.sin(ang)], 1), 10)
            P = np.unique(P, axis=0)
            if len(P) < 3:
                continue
            try:
                h = ConvexHull(P)
            except Exception:  # noqa: BLE001
                continue
            return kind, P[h.vertices]
        return "convex", np.array([[0, 0], [2, 0], [0, 1.0]])
    if kind == "comb":
        t = int(rng.integers(2, 7))
        pts = [(0.0, 0.0), (2.0 * t, 0.0)]
        for k in range(t, 0, -1):
            h = float(rng.integers(2, 6)) / 2
            pts += [(2.0 * k, h), (2.0 * k - 1.0, h), (2.0 * k - 1.0, 0.5), (2.0 * k - 2.0, 0.5)]
        pts[-1] = (0.0, 0.5)
        P = np.array(pts)
        P = P[np.r_[True, np.any(np.diff(P, axis=0) != 0, axis=1)]]
        assert is_simple_bf(P)
        return kind, P
    if kind == "spiral":
        turns = int(rng.integers(1, 3))
        m = 6 * turns + 2
        a = np.linspace(0, 2 * np.pi * turns, m)
        ro = 1.0 + a / 2
        ri = ro - 0.6
        outer = np.stack([ro * np.cos(a), ro * np.sin(a)], 1)
        inner = np.stack([ri * np.cos(a), ri * np.sin(a)], 1)[::-1]
        P = dy(np.vstack([outer, inner]), 8)
        if is_simple_bf(P) and len(np.unique(P, axis=0)) == len(P):
            if shoelace(P) < 0:
                P = P[::-1]
            return kind, P
        return simple_polygon(rng, kind="star")
    # lattice
    for _ in range(100):
        n = int(rng.integers(3, 10))
        ang = np.sort(rng.uniform(0, 2 * np.pi, n))
        r = rng.uniform(1.5, 5, n)
        P = np.round(np.stack([r * np.cos(ang), r * np.sin(ang)], 1))
        if len(np.unique(P, axis=0)) == n and is_simple_bf(P) and abs(shoelace(P)) > 0.5:
            if shoelace(P) < 0:
                P = P[::-1]
            return "lattice", P
    return "lattice", np.array([[0, 0], [3, 0], [3, 2], [1, 1.0], [0, 2]])


def shoelace(P):
    x, y = P[:, 0], P[:, 1]
    return 0.5 * float(np.sum(x * np.roll(y, -1) - np.roll(x, -1) * y))


def _orient(a, b, c):
    return (b[0] - a[0]) * (c[1] - a[1]) - (b[1] - a[1]) * (c[0] - a[0])


def _seg_intersect(p1, p2, p3, p4):
    """Closed segments intersect (including touching)."""
    d1 = _orient(p3, p4, p1)
    d2 = _orient(p3, p4, p2)
    d3 = _orient(p1, p2, p3)
    d4 = _orient(p1, p2, p4)
    if ((d1 > 0 and d2 < 0) or (d1 < 0 and d2 > 0)) and ((d3 > 0 and d4 < 0) or (d3 < 0 and d4 > 0)):
        return True

    def on(a, b, c):
        return min(a[0], b[0]) <= c[0] <= max(a[0], b[0]) and min(a[1], b[1]) <= c[1] <= max(a[1], b[1])

    if d1 == 0 and on(p3, p4, p1):
        return True
    if d2 == 0 and on(p3, p4, p2):
        return True
    if d3 == 0 and on(p1, p2, p3):
        return True
    if d4 == 0 and on(p1, p2, p4):
        return True
    return False


def is_simple_bf(P):
    """Exact-on-doubles-ish O(n^2) simplicity test (coordinates are small dyadics, so
    the orientation determinants are computed exactly in binary64)."""
    n = len(P)
    for i in range(n):
        a, b = P[i], P[(i + 1) % n]
        for j in range(i + 1, n):
            c, d = P[j], P[(j + 1) % n]
            if j == i + 1 or (i == 0 and j == n - 1):
                # adjacent edges: must only share the common endpoint
                if j == i + 1:
                    if _orient(a, b, d) == 0 and (d[0] - b[0]) * (a[0] - b[0]) + (d[1] - b[1]) * (a[1] - b[1]) > 0:
                        return False
                else:
                    if _orient(c, d, b) == 0 and (b[0] - a[0]) * (c[0] - a[0]) + (b[1] - a[1]) * (c[1] - a[1]) > 0:
                        return False
                continue
            if _seg_intersect(a, b, c, d):
                return False
    return True


def extrusion(rng, P=None):
    """Extruded simple polygon with triangulated caps (fan-free ear clipping by scipy-free method)."""
    if P is None:
        _, P = simple_polygon(rng)
    if shoelace(P) < 0:
        P = P[::-1]
    n = len(P)
    h = float(2.0 ** rng.integers(-2, 3))
    V = np.vstack([np.c_[P, np.zeros(n)], np.c_[P, np.full(n, h)]])
    tris = ear_clip(P)
    faces = []
    for (a, b, c) in tris:
        faces.append([a, c, b])  # bottom, facing -z
        faces.append([a + n, b + n, c + n])  # top
    for i in range(n):
        j = (i + 1) % n
        faces.append([i, j, j + n, i + n])
    return V, faces, P, h


def ear_clip(P):
    """Ear clipping of a CCW simple polygon; returns index triples (CCW)."""
    idx = list(range(len(P)))
    tris = []
    guard = 0
    while len(idx) > 3 and guard < 10000:
        guard += 1
        m = len(idx)
        done = False
        for k in range(m):
            i, j, l = idx[(k - 1) % m], idx[k], idx[(k + 1) % m]
            if _orient(P[i], P[j], P[l]) <= 0:
                continue
            bad = False
            for t in idx:
                if t in (i, j, l):
                    continue
                if _orient(P[i], P[j], P[t]) >= 0 and _orient(P[j], P[l], P[t]) >= 0 and _orient(P[l], P[i], P[t]) >= 0:
                    bad = True
                    break
            if not bad:
                tris.append((i, j, l))
                idx.pop(k)
                done = True
                break
        if not done:
            raise RuntimeError("ear clipping failed")
    tris.append(tuple(idx))
    return tris


def star_perturbed_hull(rng):
    """Triangulated star-shaped (generally non-convex) closed surface about the origin."""
    n = int(rng.integers(8, 30))
    X = rng.normal(size=(n, 3))
    X /= np.linalg.norm(X, axis=1)[:, None]
    h = ConvexHull(X)
    if len(h.vertices) != n:
        X = X[h.vertices]
        h = ConvexHull(X)
    tris = []
    for s, eq in zip(h.simplices, h.equations):
        a, b, c = X[s]
        if np.dot(np.cross(b - a, c - a), eq[:3]) < 0:
            s = s[::-1]
        tris.append([int(t) for t in s])
    r = rng.uniform(0.5, 1.5, len(X))
    V = dy(X * r[:, None], 10)
    return V, tris


def closed_mesh(rng):
    kind = rng.choice(["voxel", "voxel", "extrusion", "star", "convexcopy"])
    if kind == "voxel":
        name, V, F, cells = voxel_solid(rng)
        return "voxel:" + name, V, F, dict(cells=cells)
    if kind == "extrusion":
        V, F, P, h = extrusion(rng)
        return kind, V, F, dict(poly=P.tolist(), h=h)
    if kind == "star":
        V, F = star_perturbed_hull(rng)
        return kind, V, F, {}
    _, V = convex_set(rng, allow_place=False)
    return "convexcopy", V, None, {}
