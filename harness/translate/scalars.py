"""Fail-closed translator: scalar closed-form property bodies of the curved shapes
(/repo/coxeter/shapes/{circle,ellipse,sphere,ellipsoid}.py) -> Coq definitions over R
(coq/theories/Gen/Scalars.v).  Regenerated on every run; the theorems in
Thm/GenScalarsThm.v are re-checked against what the code says NOW.

Supported: straight-line bodies made of simple assignments, augmented assignments,
tuple-unpacking of sorted([...]) and one return; expressions over + - * / ** (integer
exponent), unary minus, numeric literals, np.pi, np.sqrt, np.min([e, 1]), ellipe(e),
self.<param>, self.<other translated property>, self.centroid[i], local names,
np.diag([e, e, e]) and translate_inertia_tensor(self.centroid, <diag>, vol).
Anything else raises TranslationError (fail closed).
"""
import ast
import os
import sys
from fractions import Fraction

REPO = os.environ.get("VERIF_REPO", "/repo")   # (override only used by tools/seed_matrix.sh to test seeded copies in a scratch worktree)

CLASSES = {
    "Circle": dict(file="coxeter/shapes/circle.py", params=["r"], attrs={"radius": "r", "_radius": "r"},
                   props=["area", "perimeter", "eccentricity", "iq", "planar_moments_inertia"]),
    "Ellipse": dict(file="coxeter/shapes/ellipse.py", params=["a", "b"], attrs={"a": "a", "b": "b", "_a": "a", "_b": "b"},
                    props=["area", "eccentricity", "perimeter", "planar_moments_inertia", "iq"]),
    "Sphere": dict(file="coxeter/shapes/sphere.py", params=["r"], attrs={"radius": "r", "_radius": "r"},
                   props=["volume", "surface_area", "iq", "inertia_tensor"]),
    "Ellipsoid": dict(file="coxeter/shapes/ellipsoid.py", params=["a", "b", "c"],
                      attrs={"a": "a", "b": "b", "c": "c", "_a": "a", "_b": "b", "_c": "c"},
                      props=["volume", "inertia_tensor"]),
}
CENTER = ["cx", "cy", "cz"]


class TranslationError(Exception):
    pass


def num(v):
    if isinstance(v, bool):
        raise TranslationError("bool literal")
    if isinstance(v, int):
        return "(%d)" % v if v < 0 else "%d" % v
    if isinstance(v, float):
        f = Fraction(*v.as_integer_ratio())
        return "(%d / %d)" % (f.numerator, f.denominator)
    raise TranslationError("literal %r" % (v,))


class Tr:
    def __init__(self, cls, spec, known):
        self.cls, self.spec, self.known = cls, spec, known
        self.args = " ".join(spec["params"] + CENTER)

    def expr(self, e, env):
        if isinstance(e, ast.Constant):
            return num(e.value)
        if isinstance(e, ast.Name):
            if e.id in env:
                return env[e.id]
            raise TranslationError("unknown name %s" % e.id)
        if isinstance(e, ast.UnaryOp) and isinstance(e.op, ast.USub):
            return "(- %s)" % self.expr(e.operand, env)
        if isinstance(e, ast.BinOp):
            if isinstance(e.op, ast.Pow):
                if isinstance(e.right, ast.Constant) and isinstance(e.right.value, int) and e.right.value >= 0:
                    return "(%s ^ %d)" % (self.expr(e.left, env), e.right.value)
                raise TranslationError("non-integer exponent")
            op = {ast.Add: "+", ast.Sub: "-", ast.Mult: "*", ast.Div: "/"}.get(type(e.op))
            if op is None:
                raise TranslationError("operator %s" % type(e.op).__name__)
            return "(%s %s %s)" % (self.expr(e.left, env), op, self.expr(e.right, env))
        if isinstance(e, ast.Attribute):
            if isinstance(e.value, ast.Name) and e.value.id == "np" and e.attr == "pi":
                return "PI"
            if isinstance(e.value, ast.Name) and e.value.id == "self":
                if e.attr in self.spec["attrs"]:
                    return self.spec["attrs"][e.attr]
                key = (self.cls, e.attr)
                if key in self.known:
                    return "(%s %s)" % (self.known[key], self.args)
                raise TranslationError("self.%s not translated" % e.attr)
            raise TranslationError("attribute %s" % ast.dump(e))
        if isinstance(e, ast.Subscript):
            v = e.value
            if (isinstance(v, ast.Attribute) and isinstance(v.value, ast.Name) and v.value.id == "self"
                    and v.attr in ("centroid", "_centroid", "center") and isinstance(e.slice, ast.Constant)
                    and e.slice.value in (0, 1, 2)):
                return CENTER[e.slice.value]
            raise TranslationError("subscript")
        if isinstance(e, ast.Call):
            f = e.func
            fname = None
            if isinstance(f, ast.Attribute) and isinstance(f.value, ast.Name) and f.value.id == "np":
                fname = "np." + f.attr
            elif isinstance(f, ast.Name):
                fname = f.id
            if fname == "np.sqrt" and len(e.args) == 1:
                return "(sqrt %s)" % self.expr(e.args[0], env)
            if fname in ("np.sin", "np.cos") and len(e.args) == 1:
                return "(%s %s)" % (fname[3:], self.expr(e.args[0], env))
            if fname == "np.sinc" and len(e.args) == 1:
                return "(sinc_np %s)" % self.expr(e.args[0], env)
            if fname == "ellipe" and len(e.args) == 1:
                return "(EllipE %s)" % self.expr(e.args[0], env)
            if fname == "np.min" and len(e.args) == 1 and isinstance(e.args[0], ast.List) and len(e.args[0].elts) == 2:
                x, y = e.args[0].elts
                return "(Rmin %s %s)" % (self.expr(x, env), self.expr(y, env))
            raise TranslationError("call %s" % fname)
        raise TranslationError("expression %s" % type(e).__name__)

    def body(self, fn):
        """Returns a Coq term (possibly a tuple) for the function body."""
        env = {}
        lets = []
        counter = [0]

        def fresh(name):
            counter[0] += 1
            return "%s_%d" % (name, counter[0])

        stmts = [s for s in fn.body if not (isinstance(s, ast.Expr) and isinstance(s.value, ast.Constant))]
        for s in stmts[:-1]:
            if isinstance(s, ast.Assign):
                tgt = s.targets
                # chained assignment  i_x = i_y = e
                names = []
                for t in tgt:
                    if isinstance(t, ast.Name):
                        names.append(t.id)
                    elif isinstance(t, ast.Tuple) and all(isinstance(x, ast.Name) for x in t.elts):
                        names = [x.id for x in t.elts]
                        if not (isinstance(s.value, ast.Call) and isinstance(s.value.func, ast.Name) and s.value.func.id == "sorted"
                                and len(s.value.args) == 1 and isinstance(s.value.args[0], ast.List)
                                and len(s.value.args[0].elts) == len(names) == 2):
                            raise TranslationError("tuple assignment other than 2-element sorted")
                        x, y = [self.expr(z, env) for z in s.value.args[0].elts]
                        lo, hi = fresh(names[0]), fresh(names[1])
                        lets.append((lo, "(Rmin %s %s)" % (x, y)))
                        lets.append((hi, "(Rmax %s %s)" % (x, y)))
                        env[names[0]], env[names[1]] = lo, hi
                        names = None
                        break
                    else:
                        raise TranslationError("assignment target")
                if names:
                    v = fresh(names[0])
                    lets.append((v, self.expr(s.value, env)))
                    for n in names:
                        env[n] = v
            elif isinstance(s, ast.AugAssign) and isinstance(s.target, ast.Name):
                op = {ast.Add: "+", ast.Sub: "-", ast.Mult: "*", ast.Div: "/"}.get(type(s.op))
                if op is None or s.target.id not in env:
                    raise TranslationError("augmented assignment")
                v = fresh(s.target.id)
                lets.append((v, "(%s %s %s)" % (env[s.target.id], op, self.expr(s.value, env))))
                env[s.target.id] = v
            else:
                raise TranslationError("statement %s" % type(s).__name__)
        ret = stmts[-1]
        if not isinstance(ret, ast.Return):
            raise TranslationError("last statement is not return")
        out = self.ret(ret.value, env)
        for v, e in reversed(lets):
            out = "let %s := %s in\n    %s" % (v, e, out)
        return out

    def ret(self, e, env):
        if isinstance(e, ast.Tuple):
            return "(" + ", ".join(self.expr(x, env) for x in e.elts) + ")"
        # translate_inertia_tensor(self.centroid, <name bound to np.diag([...])>, vol)
        if isinstance(e, ast.Call) and isinstance(e.func, ast.Name) and e.func.id == "translate_inertia_tensor":
            raise TranslationError("translate_inertia_tensor must be handled by diag extraction")
        return self.expr(e, env)


def diag_entries(fn):
    """For inertia_tensor bodies: drop the np.diag / translate_inertia_tensor tail and return the
    three diagonal expressions as a tuple-returning function body (AST rewrite, fail closed)."""
    stmts = [s for s in fn.body if not (isinstance(s, ast.Expr) and isinstance(s.value, ast.Constant))]
    ret = stmts[-1]
    if not (isinstance(ret, ast.Return) and isinstance(ret.value, ast.Call) and isinstance(ret.value.func, ast.Name)
            and ret.value.func.id == "translate_inertia_tensor" and len(ret.value.args) == 3):
        raise TranslationError("inertia_tensor does not end in translate_inertia_tensor(c, I, V)")
    cen, ten, vol = ret.value.args
    if not (isinstance(cen, ast.Attribute) and cen.attr in ("centroid", "center")):
        raise TranslationError("displacement is not self.centroid")
    if not isinstance(ten, ast.Name) or not isinstance(vol, ast.Name):
        raise TranslationError("tensor/volume arguments are not names")
    # find the assignment  <ten> = np.diag([e1, e2, e3])
    idx = None
    for k, s in enumerate(stmts[:-1]):
        if (isinstance(s, ast.Assign) and len(s.targets) == 1 and isinstance(s.targets[0], ast.Name) and s.targets[0].id == ten.id):
            idx = k
    if idx is None:
        raise TranslationError("no assignment to the tensor")
    dv = stmts[idx].value
    if not (isinstance(dv, ast.Call) and isinstance(dv.func, ast.Attribute) and dv.func.attr == "diag"
            and len(dv.args) == 1 and isinstance(dv.args[0], ast.List) and len(dv.args[0].elts) == 3):
        raise TranslationError("tensor is not np.diag of three entries")
    new_ret = ast.Return(value=ast.Tuple(elts=list(dv.args[0].elts) + [ast.Name(id=vol.id, ctx=ast.Load())], ctx=ast.Load()))
    fn2 = ast.FunctionDef(name=fn.name, args=fn.args, body=stmts[:idx] + stmts[idx + 1:-1] + [new_ret], decorator_list=[])
    return fn2


def method(cls_node, name):
    for n in cls_node.body:
        if isinstance(n, ast.FunctionDef) and n.name == name and not n.decorator_list:
            return n
    raise TranslationError("method %s not found" % name)


def getter(cls_node, name):
    for n in cls_node.body:
        if isinstance(n, ast.FunctionDef) and n.name == name:
            decs = [ast.unparse(d) for d in n.decorator_list]
            if "property" in decs:
                return n
    raise TranslationError("property %s not found" % name)


SPHERE_FF_PLUMBING = {
    0: "q = np.atleast_2d(q)",
    1: "form_factor = np.empty(q.shape[0], dtype=np.complex128)",
    2: "q_sqs = np.sum(q * q, axis=-1)",
    3: "zero_q = np.isclose(q_sqs, 0)",
    7: "form_factor *= density * np.exp(-1j * np.dot(q, self.centroid))",
    8: "return form_factor",
}


class _QsqSubst(ast.NodeTransformer):
    """q_sqs[~zero_q] (the squared norms of the non-zero wave vectors) -> the scalar name qsq_"""

    def visit_Subscript(self, node):
        if ast.unparse(node) == "q_sqs[~zero_q]":
            return ast.copy_location(ast.Name(id="qsq_", ctx=ast.Load()), node)
        return self.generic_visit(node)


def sphere_ff(cnode, tr):
    """Sphere.compute_form_factor_amplitude: the masked-array plumbing is matched statement by statement against its known text (fail closed);
    the two value expressions (zero and non-zero wave vectors) are translated.  Returns Coq definitions of the real amplitude of the
    CENTRED sphere per wave vector as functions of |q|^2; the last plumbing statement multiplies by density * exp(-i q.c)."""
    fn = method(cnode, "compute_form_factor_amplitude")
    if [a.arg for a in fn.args.args] != ["self", "q", "density"]:
        raise TranslationError("Sphere.compute_form_factor_amplitude signature")
    stmts = [s_ for s_ in fn.body if not (isinstance(s_, ast.Expr) and isinstance(s_.value, ast.Constant))]
    if len(stmts) != 9:
        raise TranslationError("Sphere.compute_form_factor_amplitude: %d statements, 9 expected" % len(stmts))
    for k, text in SPHERE_FF_PLUMBING.items():
        if ast.unparse(stmts[k]) != text:
            raise TranslationError("Sphere.compute_form_factor_amplitude statement %d is %r, expected %r" % (k, ast.unparse(stmts[k]), text))
    z, qr, nz = stmts[4], stmts[5], stmts[6]
    if not (isinstance(z, ast.Assign) and len(z.targets) == 1 and ast.unparse(z.targets[0]) == "form_factor[zero_q]"):
        raise TranslationError("Sphere form factor: zero-q assignment")
    if not (isinstance(qr, ast.Assign) and len(qr.targets) == 1 and isinstance(qr.targets[0], ast.Name)):
        raise TranslationError("Sphere form factor: auxiliary assignment")
    if not (isinstance(nz, ast.Assign) and len(nz.targets) == 1 and ast.unparse(nz.targets[0]) == "form_factor[~zero_q]"):
        raise TranslationError("Sphere form factor: non-zero-q assignment")
    env = {"qsq_": "qsq"}
    zero = tr.expr(z.value, {})
    aux = tr.expr(_QsqSubst().visit(qr.value), env)
    env[qr.targets[0].id] = "aux_1"
    amp = tr.expr(_QsqSubst().visit(nz.value), env)
    args = " ".join(tr.spec["params"] + CENTER)
    return ["Definition sphere_ff_zero (%s : R) :=\n    %s." % (args, zero), "",
            "Definition sphere_ff_amp (%s qsq : R) :=\n    let aux_1 := %s in\n    %s." % (args, aux, amp), ""]


def generate(repo=REPO):
    out = [
        "(* GENERATED by harness/translate/scalars.py from %s -- do not edit. *)" % repo,
        "From Coq Require Import Reals.",
        "Require Import Cox.Model.Special.",
        "Local Open Scope R_scope.",
        "",
    ]
    known = {}
    for cls, spec in CLASSES.items():
        src = open(os.path.join(repo, spec["file"])).read()
        tree = ast.parse(src)
        cnode = [n for n in tree.body if isinstance(n, ast.ClassDef) and n.name == cls]
        if not cnode:
            raise TranslationError("class %s not found" % cls)
        cnode = cnode[0]
        tr = Tr(cls, spec, known)
        for prop in spec["props"]:
            fn = getter(cnode, prop)
            if prop == "inertia_tensor":
                fn = diag_entries(fn)
            term = tr.body(fn)
            cname = "%s_%s" % (cls.lower(), prop)
            out.append("Definition %s (%s : R) :=\n    %s." % (cname, " ".join(spec["params"] + CENTER), term))
            out.append("")
            known[(cls, prop)] = cname
        if cls == "Sphere":
            out.extend(sphere_ff(cnode, tr))
        if cls == "Ellipse":
            # distance_to_surface(self, angles): one extra real argument
            fn = method(cnode, "distance_to_surface")
            if [a.arg for a in fn.args.args] != ["self", "angles"]:
                raise TranslationError("distance_to_surface signature")
            stmts = [s_ for s_ in fn.body if not (isinstance(s_, ast.Expr) and isinstance(s_.value, ast.Constant))]
            if len(stmts) != 1 or not isinstance(stmts[0], ast.Return):
                raise TranslationError("distance_to_surface is not a single return")
            term = tr.expr(stmts[0].value, {"angles": "theta"})
            out.append("Definition ellipse_distance_to_surface (%s theta : R) :=\n    %s." % (" ".join(spec["params"] + CENTER), term))
            out.append("")
    return "\n".join(out) + "\n"


def main():
    root = os.path.dirname(os.path.dirname(os.path.dirname(os.path.abspath(__file__))))
    dst = sys.argv[1] if len(sys.argv) > 1 else os.path.join(root, "coq", "theories", "Gen", "Scalars.v")
    txt = generate()
    os.makedirs(os.path.dirname(dst), exist_ok=True)
    old = open(dst).read() if os.path.exists(dst) else None
    if old != txt:
        with open(dst, "w") as fh:
            fh.write(txt)
    print("translated -> %s (%s)" % (dst, "changed" if old != txt else "unchanged"))


if __name__ == "__main__":
    try:
        main()
    except TranslationError as e:
        print("TRANSLATION-ERROR: %s" % e)
        sys.exit(3)
