"""Fail-closed translator: per-method write sets / call sets / setter guards of the shape
classes -> coq/theories/Gen/Effects.v  (regenerated from /repo on every run).

For every method, property getter and property setter of every shape class it records, in
source order and without duplicates, the effects on `self`:
    w:<attr>   self.<attr> = ...            (rebinding an attribute)
    a:<attr>   self.<attr> op= ...          (augmented assignment: in-place for arrays)
    s:<attr>   self.<attr>[...] (op)= ...   (item/slice store into the attribute)
    n:<a.b>    the same three through one more attribute (self._polygon._vertices *= s)
    p:<name>   assignment to a name that is a property of the class (runs its setter)
    c:<name>   call of self.<name>(...)
    g:<name>   read of self.<name> where <name> is a property (runs its getter)
    A:<param>  in-place write (op=, [..]=, out=) to a parameter before it is rebound: reaches the caller's array
    x:<name>   self.__dict__.pop("<name>", None): invalidation of a cached_property
and for every property setter whether its body has the shape
    if value > 0 (or >= 0): <body> else: raise ValueError(...)
Anything it cannot classify (setattr, __dict__, exec, global state, del) is a TranslationError.
"""
import ast
import os
import sys

REPO = os.environ.get("VERIF_REPO", "/repo")   # (override only used by tools/seed_matrix.sh to test seeded copies in a scratch worktree)
FILES = [
    "coxeter/shapes/base_classes.py", "coxeter/shapes/circle.py", "coxeter/shapes/ellipse.py", "coxeter/shapes/sphere.py",
    "coxeter/shapes/ellipsoid.py", "coxeter/shapes/polygon.py", "coxeter/shapes/convex_polygon.py",
    "coxeter/shapes/polyhedron.py", "coxeter/shapes/convex_polyhedron.py", "coxeter/shapes/convex_spheropolygon.py",
    "coxeter/shapes/convex_spheropolyhedron.py",
]


class TranslationError(Exception):
    pass


def self_attr_chain(node):
    """self.a.b -> ['a','b'] ; None if not rooted at self"""
    chain = []
    while isinstance(node, ast.Attribute):
        chain.append(node.attr)
        node = node.value
    if isinstance(node, ast.Name) and node.id == "self":
        return chain[::-1]
    return None


class MethodEffects(ast.NodeVisitor):
    def __init__(self, props, params=()):
        self.props = props
        self.eff = []
        self.params = set(params)     # parameter names not yet rebound: in-place writes hit the caller's object


    def add(self, e):
        if e not in self.eff:
            self.eff.append(e)

    def target(self, t, kind):
        if isinstance(t, (ast.Tuple, ast.List)):
            for x in t.elts:
                self.target(x, kind)
            return
        if isinstance(t, ast.Subscript):
            ch = self_attr_chain(t.value)
            if ch is not None:
                self.add(("s:" if len(ch) == 1 else "n:") + ".".join(ch))
            # stores into locals (e.g. face[:] = ...) are recorded as local stores: they may alias state
            elif isinstance(t.value, ast.Name):
                self.add(("A:" if t.value.id in self.params else "l:") + t.value.id)
            self.visit(t.slice)
            return
        ch = self_attr_chain(t)
        if ch is None:
            if isinstance(t, ast.Name):
                if kind == "a" and t.id in self.params:
                    self.add("A:" + t.id)        # param op= ...: in place for arrays
                elif kind == "w":
                    self.params.discard(t.id)    # rebound: later writes no longer reach the caller's object
            return
        if len(ch) == 1:
            if ch[0] in self.props:
                self.add("p:" + ch[0])
            else:
                self.add(kind + ":" + ch[0])
        else:
            self.add("n:" + ".".join(ch))

    ALIASING = {"asarray", "asanyarray", "atleast_1d", "atleast_2d", "atleast_3d", "ascontiguousarray", "ravel", "reshape", "squeeze"}

    def may_alias_param(self, v):
        """np.asarray(p, ...) & co. return p itself (or a view) when no conversion is needed"""
        if isinstance(v, ast.Name):
            return v.id in self.params
        if isinstance(v, ast.Call):
            f = v.func
            if isinstance(f, ast.Attribute) and f.attr in self.ALIASING:
                if isinstance(f.value, ast.Name) and f.value.id == "np" and v.args and self.may_alias_param(v.args[0]):
                    return True
                if self.may_alias_param(f.value):
                    return True
        if isinstance(v, ast.Subscript):
            return self.may_alias_param(v.value)
        return False

    def visit_Assign(self, node):
        self.visit(node.value)
        alias = self.may_alias_param(node.value)
        for t in node.targets:
            self.target(t, "w")
            if alias and isinstance(t, ast.Name):
                self.params.add(t.id)

    def visit_AugAssign(self, node):
        self.target(node.target, "a")
        self.visit(node.value)

    def visit_AnnAssign(self, node):
        if node.value is not None:
            self.target(node.target, "w")
            self.visit(node.value)

    def visit_Delete(self, node):
        raise TranslationError("del statement")

    def visit_Global(self, node):
        raise TranslationError("global statement")

    def visit_Call(self, node):
        f = node.func
        if isinstance(f, ast.Name) and f.id in ("setattr", "delattr", "exec", "eval"):
            raise TranslationError("call of %s" % f.id)
        ch = self_attr_chain(f)
        # self.__dict__.pop("<name>", None): invalidation of a cached_property
        if (ch == ["__dict__", "pop"] and len(node.args) == 2 and isinstance(node.args[0], ast.Constant)
                and isinstance(node.args[0].value, str) and isinstance(node.args[1], ast.Constant) and node.args[1].value is None):
            self.add("x:" + node.args[0].value)
            return
        if ch is not None and len(ch) == 1:
            self.add("c:" + ch[0])
        elif ch is not None and len(ch) >= 2:
            self.add("c:" + ".".join(ch))
        # np.<fn>(..., out=self.x) is an in-place write
        for kw in node.keywords:
            if kw.arg == "out":
                c2 = self_attr_chain(kw.value)
                if c2 is not None:
                    self.add("a:" + ".".join(c2))
                elif isinstance(kw.value, ast.Name):
                    self.add(("A:" if kw.value.id in self.params else "l:") + kw.value.id)
        self.generic_visit(node)

    def visit_Attribute(self, node):
        ch = self_attr_chain(node)
        if ch is not None and isinstance(node.ctx, ast.Load):
            if ch[0] == "__dict__":
                raise TranslationError("self.__dict__ access")
            if ch[0] in self.props:
                self.add("g:" + ch[0])
        self.generic_visit(node)


def guard_shape(fn):
    """setter body == if value > 0 / >= 0: ... else: raise ValueError"""
    stmts = [s for s in fn.body if not (isinstance(s, ast.Expr) and isinstance(s.value, ast.Constant))]
    if len(stmts) != 1 or not isinstance(stmts[0], ast.If):
        return "none"
    iff = stmts[0]
    t = iff.test
    arg = fn.args.args[1].arg
    if not (isinstance(t, ast.Compare) and isinstance(t.left, ast.Name) and t.left.id == arg and len(t.ops) == 1
            and isinstance(t.comparators[0], ast.Constant) and t.comparators[0].value == 0):
        return "none"
    op = t.ops[0]
    if not (len(iff.orelse) == 1 and isinstance(iff.orelse[0], ast.Raise)):
        return "none"
    exc = iff.orelse[0].exc
    name = exc.func.id if isinstance(exc, ast.Call) and isinstance(exc.func, ast.Name) else None
    if name != "ValueError":
        return "none"
    if isinstance(op, ast.Gt):
        return "positive"
    if isinstance(op, ast.GtE):
        return "nonnegative"
    return "none"


def collect(repo=REPO):
    classes = {}
    order = []
    for f in FILES:
        tree = ast.parse(open(os.path.join(repo, f)).read())
        for node in tree.body:
            if isinstance(node, ast.ClassDef):
                bases = [b.id if isinstance(b, ast.Name) else ast.unparse(b) for b in node.bases]
                classes[node.name] = dict(node=node, bases=bases, file=f)
                order.append(node.name)

    def mro(c):
        out = [c]
        for b in classes[c]["bases"]:
            if b in classes:
                for x in mro(b):
                    if x not in out:
                        out.append(x)
        return out

    def props_of(c):
        ps = set()
        for k in mro(c):
            for n in classes[k]["node"].body:
                if isinstance(n, ast.FunctionDef):
                    decs = [ast.unparse(d) for d in n.decorator_list]
                    if "property" in decs or "cached_property" in decs or any(d.endswith(".setter") for d in decs):
                        ps.add(n.name)
        return ps

    rows, guards = [], []
    for c in order:
        props = props_of(c)
        for n in classes[c]["node"].body:
            if not isinstance(n, ast.FunctionDef):
                continue
            decs = [ast.unparse(d) for d in n.decorator_list]
            kind = "method"
            if "property" in decs:
                kind = "getter"
            elif "cached_property" in decs:
                kind = "cached"
            elif any(d.endswith(".setter") for d in decs):
                kind = "setter"
            elif decs and decs != ["abstractmethod"]:
                if "abstractmethod" in decs:
                    continue
                raise TranslationError("unknown decorator %s on %s.%s" % (decs, c, n.name))
            me = MethodEffects(props, [a.arg for a in n.args.args[1:]])
            for s in n.body:
                me.visit(s)
            rows.append((c, kind, n.name, me.eff))
            if kind == "setter":
                guards.append((c, n.name, guard_shape(n)))
    return order, {c: classes[c]["bases"] for c in order}, rows, guards


def coq_str(s):
    return '"%s"' % s.replace('"', '""')


def generate(repo=REPO):
    order, bases, rows, guards = collect(repo)
    out = ["(* GENERATED by harness/translate/effects.py from %s -- do not edit. *)" % repo,
           "From Coq Require Import String List.", "Import ListNotations.", "Local Open Scope string_scope.", "",
           "(* (class, bases) *)",
           "Definition gen_classes : list (string * list string) := ["]
    out.append(";\n".join("  (%s, [%s])" % (coq_str(c), "; ".join(coq_str(b) for b in bases[c])) for c in order))
    out.append("].\n")
    out.append("(* (class, kind, name, effects in source order) *)")
    out.append("Definition gen_effects : list (string * string * string * list string) := [")
    out.append(";\n".join("  (%s, %s, %s, [%s])" % (coq_str(c), coq_str(k), coq_str(n), "; ".join(coq_str(e) for e in eff))
                          for c, k, n, eff in rows))
    out.append("].\n")
    out.append("(* (class, property, guard shape of its setter) *)")
    out.append("Definition gen_guards : list (string * string * string) := [")
    out.append(";\n".join("  (%s, %s, %s)" % (coq_str(c), coq_str(n), coq_str(g)) for c, n, g in guards))
    out.append("].")
    return "\n".join(out) + "\n"


def main():
    root = os.path.dirname(os.path.dirname(os.path.dirname(os.path.abspath(__file__))))
    dst = sys.argv[1] if len(sys.argv) > 1 else os.path.join(root, "coq", "theories", "Gen", "Effects.v")
    txt = generate()
    os.makedirs(os.path.dirname(dst), exist_ok=True)
    old = open(dst).read() if os.path.exists(dst) else None
    if old != txt:
        open(dst, "w").write(txt)
    print("translated -> %s (%s)" % (dst, "changed" if old != txt else "unchanged"))


if __name__ == "__main__":
    try:
        main()
    except TranslationError as e:
        print("TRANSLATION-ERROR: %s" % e)
        sys.exit(3)
