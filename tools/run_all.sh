#!/bin/sh
# Run every claimed check (quick tier by default) on the current /repo tree, sequentially.
cd "$(dirname "$0")/.."
tier=${1:-quick}
for id in $(python3 -c "import json;print(' '.join(c['property_id'] for c in json.load(open('MANIFEST.json'))['checks']))"); do
  s=$(date +%s)
  out=$(./check $id --tier $tier 2>&1); rc=$?
  e=$(date +%s)
  echo "== $id rc=$rc $((e-s))s"
  echo "$out" | grep -E "VIOLATION|KNOWN-FINDING|Traceback|Error" | cut -c1-200
done
