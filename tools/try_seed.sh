#!/bin/sh
# try_seed.sh <patch> <check ids...>: apply a candidate change to /repo, run the named checks (quick), undo the change.
ROOT=$(cd "$(dirname "$0")/.." && pwd); cd $ROOT
P=$1; shift
[ -z "$(git -C /repo status --porcelain)" ] || { echo "/repo not clean"; exit 9; }
git -C /repo apply "$(realpath $P)" || { echo APPLY-FAILED; exit 8; }
for c in "$@"; do
  out=$(./check $c --tier quick 2>&1); rc=$?
  echo "== $c rc=$rc violations=$(echo "$out" | grep -c '^VIOLATION')"
  echo "$out" | grep '^VIOLATION' | head -3
  rp=$(echo "$out" | grep '^VIOLATION' | head -1 | sed 's/.*replay=//; s/ .*//')
  [ -n "$rp" ] && [ -f "$rp" ] && python3 -c "import json;d=json.load(open('$rp'));print('   kind:',d.get('kind'),'|',json.dumps(d.get('detail'))[:300])"
done
git -C /repo checkout -- . ; git -C /repo clean -fdq
git -C /repo status --porcelain
