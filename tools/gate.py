#!/usr/bin/env python3
"""Forbidden-construct gate for the Coq development: no Admitted/admit/Axiom/Parameter/Conjecture,
no Variable/Hypothesis/Context-free assumptions OUTSIDE a Section, no guard/universe switches."""
import os
import re
import sys

root = os.path.join(os.path.dirname(os.path.dirname(os.path.abspath(__file__))), "coq", "theories")
bad = []
for dp, _, fs in os.walk(root):
    for f in fs:
        if not f.endswith(".v"):
            continue
        p = os.path.join(dp, f)
        src = open(p).read()
        src = re.sub(r"\(\*.*?\*\)", lambda m: " " * 0 + "\n" * m.group(0).count("\n"), src, flags=re.S)
        depth = 0
        for ln, line in enumerate(src.split("\n"), 1):
            s = line.strip()
            if re.match(r"(Section|Module)\s+\w+", s) and not re.match(r"Module\s+\w+\s*:=", s):
                if s.startswith("Section"):
                    depth += 1
            elif re.match(r"End\s+\w+\s*\.", s) and depth > 0:
                depth -= 1
            if re.search(r"\b(Admitted|Axiom|Axioms|Parameter|Parameters|Conjecture|Conjectures)\b", s) or re.search(r"\badmit\b", s) \
                    or re.search(r"Unset\s+Guard|bypass_check|type-in-type|impredicative-set|Admit\s+Obligations|Unset\s+Universe\s+Checking|Unset\s+Positivity", s):
                bad.append((p, ln, s))
            if depth == 0 and re.match(r"(Local\s+|Global\s+)?(Variable|Variables|Hypothesis|Hypotheses)\b", s):
                bad.append((p, ln, s + "   (outside a Section)"))
for p, ln, s in bad:
    print("%s:%d: %s" % (p, ln, s))
sys.exit(2 if bad else 0)
