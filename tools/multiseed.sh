#!/bin/sh
# multiseed.sh <tier> <seed>...: run every claimed check with each VERIF_SEED (one background stream per seed) on the current /repo tree;
# prints only the runs that exit non-zero or print VIOLATION.  Used to shake out seed-dependent false alarms on the unchanged tree.
cd "$(dirname "$0")/.."
tier=$1; shift
ids=$(python3 -c "import json;print(' '.join(c['property_id'] for c in json.load(open('MANIFEST.json'))['checks']))")
for sd in "$@"; do
  ( for id in $ids; do
      out=$(VERIF_SEED=$sd ./check $id --tier $tier 2>&1); rc=$?
      if [ $rc -ne 0 ] || echo "$out" | grep -q '^VIOLATION'; then echo "seed=$sd $id rc=$rc"; echo "$out" | grep '^VIOLATION' | head -3; fi
    done; echo "seed=$sd finished" ) &
done
wait
