#!/bin/sh
# seed_matrix.sh [seed dirs...]: apply each kept seeded change in turn to a SCRATCH worktree of /repo's HEAD and run the responsible check
# and the checks of the related properties (ALL=1: every claimed check; OWN=1: only the responsible check and those the seed's note names) - quick tier - against it from a SCRATCH copy of /verif (own build directory), so that /repo and /verif stay usable meanwhile.
# Output: seeded/matrix.tsv (seed, check, exit code, number of VIOLATION lines, first violation kind).  Scratch copies are removed at the end.
ROOT=$(cd "$(dirname "$0")/.." && pwd)
WT=$(mktemp -d /tmp/mxwt.XXXXXX); rmdir $WT
VC=$(mktemp -d /tmp/mxverif.XXXXXX)
git -C /repo worktree add -q --detach $WT HEAD || exit 9
rsync -a --exclude .git --exclude replays --exclude evidence --exclude build "$ROOT/" "$VC/"; mkdir -p $VC/replays $VC/evidence
export VERIF_REPO=$WT
( cd $VC && ./build.sh >/dev/null 2>&1 )
related() {   # properties whose checks observe the same code paths
  case $1 in
    C01) echo C02 C03 C09;; C02) echo C01 C03 C09;; C03) echo C16 C19 C08;; C04) echo C09 C03 C12;; C05) echo C09 C06;;
    C06) echo C05 C09;; C07) echo C01 C03;; C08) echo C03 C09;; C09) echo C04 C05 C13;; C10) echo C08 C19;; C11) echo C08 C01;;
    C12) echo C09 C16;; C13) echo C09 C08;; C14) echo C09 C16;; C15) echo C04 C16;; C16) echo C03 C20;; C17) echo C18;;
    C18) echo C17;; C19) echo C16 C03;; C20) echo C16 C19;;
  esac; }
ids=${*:-$(ls $ROOT/seeded | grep '^C')}
checks=$(python3 -c "import json;print(' '.join(x['property_id'] for x in json.load(open('$ROOT/MANIFEST.json'))['checks']))")
OUT=${MATRIX_OUT:-$ROOT/seeded/matrix.tsv}
: > $OUT.new
for id in $ids; do
  ( cd $WT && git checkout -q -- . && git clean -fdq && git apply $ROOT/seeded/$id/patch.diff ) || { echo "$id APPLY-FAILED" | tee -a $OUT.new; continue; }
  prop=$(python3 -c "import json;print(json.load(open('$ROOT/seeded/$id/meta.json'))['property'])")
  # checks that the seed's meta note names as the ones that catch it (cross-property seeds) are run too
  named=$(python3 -c "import json,re;m=json.load(open('$ROOT/seeded/$id/meta.json'));print(' '.join(sorted(set(re.findall(r'check (C[0-9][0-9])', m.get('note',''))))))")
  if [ -n "$OWN" ]; then run=$(echo "$prop $named" | tr ' ' '\n' | awk 'NF && !seen[$0]++' | tr '\n' ' ')
  elif [ -n "$ALL" ]; then run=$checks; else run=$(echo "$prop $(related $prop) $named" | tr ' ' '\n' | awk 'NF && !seen[$0]++' | tr '\n' ' '); fi
  for c in $run; do
    out=$(cd $VC && ./check $c --tier quick 2>&1); rc=$?
    nv=$(echo "$out" | grep -c '^VIOLATION')
    rp=$(echo "$out" | grep '^VIOLATION' | head -1 | sed 's/.*replay=//; s/ .*//')
    kind=""; [ -n "$rp" ] && [ -f "$rp" ] && kind=$(python3 -c "import json;print(json.load(open('$rp')).get('kind',''))" 2>/dev/null)
    printf "%s\t%s\t%s\t%s\t%s\n" $id $c $rc $nv "$kind" >> $OUT.new
  done
  echo "$id done: $(grep -P "^$id\t" $OUT.new | awk -F'\t' '$3!=0{printf "%s ", $2}')"
done
mv $OUT.new $OUT
git -C /repo worktree remove --force $WT; rm -rf $VC
