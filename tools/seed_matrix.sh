#!/bin/sh
# seed_matrix.sh [ids...]: apply each kept seeded change to /repo in turn, run EVERY claimed check (quick tier), undo the change.
# Output: seeded/matrix.tsv  (seed, check, exit code, number of VIOLATION lines, first violation kind).  Evidence written during
# these runs comes from a modified tree: re-run tools/run_all.sh on the clean tree afterwards.
ROOT=$(cd "$(dirname "$0")/.." && pwd); cd $ROOT
ids=${*:-$(ls seeded | grep '^C')}
[ -z "$(git -C /repo status --porcelain)" ] || { echo "/repo not clean"; exit 9; }
for id in $ids; do
  git -C /repo apply $ROOT/seeded/$id/patch.diff || { echo "$id APPLY-FAILED"; continue; }
  for c in $(python3 -c "import json;print(' '.join(x['property_id'] for x in json.load(open('MANIFEST.json'))['checks']))"); do
    out=$(./check $c --tier quick 2>&1); rc=$?
    nv=$(echo "$out" | grep -c '^VIOLATION')
    rp=$(echo "$out" | grep '^VIOLATION' | head -1 | sed 's/.*replay=//')
    kind=""; [ -n "$rp" ] && [ -f "$rp" ] && kind=$(python3 -c "import json,sys;d=json.load(open('$rp'));print(d.get('kind') or d.get('violations',[{}])[0].get('kind',''))" 2>/dev/null)
    printf "%s\t%s\t%s\t%s\t%s\n" $id $c $rc $nv "$kind" | tee -a seeded/matrix.tsv.new
  done
  git -C /repo checkout -- . ; git -C /repo clean -fdq
done
mv seeded/matrix.tsv.new seeded/matrix.tsv
