#!/usr/bin/env python3
"""Regenerate MANIFEST.json from the table below (one entry per claimed property)."""
import json
import os

ROOT = os.path.dirname(os.path.dirname(os.path.abspath(__file__)))

LEVEL_NOTE = ("Trusted: Coq 8.16.1 kernel (vm_compute used, native_compute not); axioms as printed by Print Assumptions "
              "(stdlib reals + functional_extensionality_dep for theorems over R; none for Q/Z/nat theorems); "
              "extraction via stdlib ExtrOcamlBasic + ExtrOcamlZBigInt + one own directive (Z.ggcd), cross-checked per run against vm_compute; "
              "Python harness (generators, float->rational, sqrt/pi finishing, tolerances); numpy/scipy/rowan/miniball modelled not verified. ")

CLAIMED = {
    "C01": dict(
        text="Theorems (all closed oriented triangle chains, any size): the code's signed volume, curl-theorem centroid and "
             "4-point-quadrature inertia tensor + parallel-axis shift equal the signed cone moments (exact integrals); "
             "translation invariance/covariance of the moments; level 0: the tetrahedron moments m0/m1/m2 are the Coquelicot triple integrals of "
             "1, x_i, x_i x_j over the signed tetrahedron; Paramcoq transfer Q-model -> R-model. Tie to the code: "
             "hand-written executable model run (extracted + vm_compute sample) on the implementation's own simplices for "
             "generated convex sets in 3 vertex orders; qhull certified per instance (closed chain, supporting planes).",
        design="§4 C01", technique="Coq proof (closed-chain cancellation, field identities, Paramcoq transfer) + model/implementation correspondence on exact rationals",
        note="qhull is a certified oracle; per-tetrahedron integrals proved, the tiling of the solid by signed cones (divergence theorem) taken as definition; face areas use one float sqrt per triangle."),
    "C04": dict(
        text="Theorems (all vertex cycles, any length): the code's projection-based signed-area sum is the p-th component of the vector area (cyclic "
             "re-indexing), hence for a planar polygon equals (N.A)/(N.N) whichever axis is projected out; reversal negates and cyclic shifts preserve it; "
             "the (repaired) centroid and planar moments equal the exact orientation-corrected shoelace values; the shoelace edge terms are the Coquelicot "
             "integrals of 1, x, x^2, y^2, xy over the signed triangle (0,v_i,v_i+1) and the area is apex-independent; the as-found abs variants are proved "
             "right only for counter-clockwise input and refuted by computed witnesses; Paramcoq transfer Q-model -> R-model. Tie: hand-written frame-free "
             "executable model run on exact rationals against Polygon/ConvexPolygon for star-shaped, comb and spiral polygons, both orientations, reflex first "
             "corner, explicit/default/opposing normals, exact integer-matrix placement in 3-space, lattice polygons.",
        design="§4 C04", technique="Coq proof (cyclic-sum re-indexing, field identities, Coquelicot triangle integrals, refutation witnesses, Paramcoq transfer) + model/implementation correspondence on exact rationals",
        note="the signed fan decomposition of a simple polygon (Green) is taken as the definition of the polygon integrals; rowan's kabsch rotation is an oracle "
             "(the model is frame-free); polar moment / inertia tensor assembly (rotate + parallel axis) is modelled and compared, not separately proved; "
             "perimeter uses one float sqrt per edge; known finding polygon-collinear-first-corner is shared with C15."),
    "C02": dict(
        text="Theorems (every closed oriented chain): Eberly's centroid accumulators are 6V and 24 x first moment, so the centroid is exact; "
             "Kallay's /20 rule with signed volumes is the exact second moment and, shifted by the parallel-axis theorem about the centroid, the exact "
             "origin tensor; with |det| (code as found) exact only for star-shaped solids (partial) and refuted by a computed witness. "
             "Tie: executable model run on polytri's own triangulation and on the model's fan triangulation (must agree), per-face (-d)A terms, "
             "independent box-sum oracle for voxel solids.",
        design="§4 C02", technique="Coq proof (flux/cone identities, closed-chain cancellation, refutation witness by vm_compute) + model/implementation correspondence",
        note="polytri is an oracle (triangles mapped to indices, count and closedness checked); face planarity/convexity/orientation are the documented precondition; "
             "known finding polytri-absolute-thresholds (valid small meshes raise)."),
    "C05": dict(
        text="Convex spheropolyhedra (Thm/SpheroThm, SpheroComplete, SpheroTransfer): an exact square-root-free model of the algorithm (core / extruded faces / edge cylinders / vertex spheres) is run against the implementation and the exact distance; proved for every face list passing the exact certificate sphero_certb (planar strictly convex ccw faces, every edge covered by a neighbour - decided in Q on the implementation's own faces every run): every point within r of the core is accepted, and only points in the core or within r of a face point are; the edge test is exactly 'within r of the segment'. "
             "Theorems: the normalised plane test has the sign of the exact side value and is membership in the face half-spaces (convex); the norm "
             "tests of Sphere/Ellipsoid are the quadratic membership tests; the 3-D winding rule (tie-breaking included) is independent of triangle order and of each triangle's starting vertex, "
             "reversing all orientations negates the chain sum, and in generic position the chain sum of ANY triangle list is the signed number of "
             "piercings of the surface by the line through the point parallel to z (ray casting; built on the C06 triangle theorem) (partial: "
             "equality with membership for arbitrary closed meshes is not proved); Paramcoq transfer of the executable models. Tie: the faithful "
             "winding-number model and the independent exact specifications (half-spaces, signed tetrahedron covering number with generic apex, "
             "exact squared distance to the core for spheropolyhedra) are evaluated in exact rationals on the same shapes/points as the implementation, "
             "incl. lattice points sharing coordinates with vertices and points at 1e-6 size from faces/edges/vertices; batch vs single.",
        design="§4 C05", technique="Coq proof (real-closed-field lemmas, permutation invariance, Paramcoq transfer) + exact-rational model/implementation correspondence",
        note="3-D winding = membership is partial (correspondence only); spheropolyhedron cascade is compared against the exact distance spec, not modelled step by step; "
             "boundary margin 1e-9 size."),
    "C06": dict(
        text="Main theorem (every vertex cycle of any length, every query point on none of the closed segments of the fan from the first vertex): the code's "
             "turn sum, including its lexicographic tie-breaking for points sharing a coordinate with a vertex, equals the signed fan indicator (sum over fan "
             "triangles of +-2 for a point strictly inside a ccw/cw triangle), proved via chord cancellation (CycleSplit) and a complete sign analysis of the "
             "triangle (lexicographic cone + the identity A u + B v + C w = 0); hence is_inside = (indicator != 0) and is orientation-free there. Also: "
             "invariance under cyclic shifts, reversal negates the turn sum (any point); circle norm test = quadratic test; "
             "Ellipse.is_inside refuted by a computed witness (known finding, pinned by the suite) with the completeness half proved; Paramcoq transfer. "
             "Tie: faithful model of the L/R tie-breaking and the independent crossing-parity spec evaluated in exact rationals on the implementation's "
             "inputs (xy-plane exact frame incl. the mirrored frame kabsch uses for -z normals, exact 3-D placements, (N,2) input), batch vs single.",
        design="§4 C06", technique="Coq proof (list permutation lemmas over cyclic pairs, sign algebra, refutation by vm_compute) + exact-rational correspondence",
        note="points ON a fan chord are outside the main theorem's hypothesis (the fan indicator is then evaluated by the exact crossing-parity oracle per point); that "
             "the signed fan indicator is the point-set indicator of a simple polygon is the same modelled step as in C04; known finding ellipse-box-test."),
    "C10": dict(
        text="New: the ellipse isoperimetric inequality P >= pi(a+b), hence 4 pi A / P^2 <= 1 for all semi-axes (the min(.,1) clamp of the source is never active) and iq = 1 iff a = b. "
             "Translator tie: the scalar closed forms of Circle/Ellipse/Sphere/Ellipsoid are regenerated from /repo into Gen/Scalars.v on every run and the "
             "theorems are re-checked against them: area and volume formulas equal the defining polar/spherical iterated Riemann integrals (Coquelicot), "
             "the ellipse perimeter 4aE(e^2) equals 4 x the arc-length integral of the quarter ellipse, central inertia entries, eccentricity and axis symmetry, iq <= 1; the off-centre planar moments are proved to be exactly the swapped "
             "parallel-axis model (refuted against the integrals of y^2, x^2 with a witness; partial for cx^2=cy^2; polar moment proved right). "
             "Correspondence: Q-model coefficients of pi vs implementation on log-grid/tie/near-tie axes in every ordering and off-origin centres; "
             "perimeter / ellipsoid area vs quadrature of the defining integrals, with Interval-certified enclosures of the arc-length integral for a sample.",
        design="§4 C10", technique="source-to-Coq translation + Coq proof (Coquelicot RInt, field) + Interval-certified samples + model/implementation correspondence",
        note="change of variables to polar/spherical coordinates not proved; isoperimetric inequality and Legendre's area formula not proved (quadrature + Interval samples); "
             "known finding planar-moments-parallel-axis-swapped (pinned by the suite)."),
    "C07": dict(
        text="Theorems: neighbour lists are exactly 'distinct faces sharing an edge' and the relation is symmetric (any face list); certificate soundness: a "
             "negative support number puts every other vertex strictly inside the face plane, the planarity number bounds every face vertex; index-level "
             "closedness implies the closed-chain hypothesis; handshake count: for an edge-manifold face list of any size reversal pairs the directed edges i<j with "
             "those i>j, so len(edges) = (sum of face sizes)/2. Partial: Euler's relation and correctness of the angular sort are not proved - instead the "
             "full certificate (planar faces, strict support => faces are the merged hull facets, counter-clockwise turns, edge-manifold, V-E+F=2) is "
             "evaluated exactly by the model on the implementation's faces for ConvexPolyhedron (2 orders), Polyhedron.sort_faces on scrambled/relabelled "
             "faces and merge_faces on randomly wound triangulations; neighbours, edges, num_edges, edge vectors/lengths, unit outward equations compared.",
        design="§4 C07", technique="Coq proof (list/boolean reflection lemmas, fold bounds) + exact per-instance certificate + model/implementation correspondence",
        note="partial as stated; qhull/kabsch oracles; tolerances 1e-12 (unit normals) / 1e-9 size (planarity of rounded inputs)."),
    "C11": dict(
        text="Theorems over R: the code's edge-loop formulas for ConvexSpheropolyhedron volume/area equal the Steiner polynomials V+Sr+4 pi M r^2+4/3 pi r^3 "
             "and S+8 pi M r+4 pi r^2 with M = sum L(pi-phi)/(8 pi); mean curvature M+r; r=0 coincides with the core; spheropolygon area/perimeter; "
             "dihedral = pi - angle between outward normals in [0,pi]. Correspondence: exact per-edge data and core V,S,A,P from the Coq model, acos/sqrt/pi "
             "finishing in binary64, against get_dihedral, mean_curvature, tau, asphericity, iq and the rounded shapes for radii 0 and 2^-10..2^7 sizes.",
        design="§4 C11", technique="Coq proof (sum algebra over edge lists, acos identities) + model/implementation correspondence",
        note="Steiner polynomial is the specification (Minkowski-sum measure not proved); formulas hand-modelled (loops are outside the translator)."),
    "C13": dict(
        text="Theorems: the circum-ball linear system is equivalent to equidistance from every vertex; the in-ball system to tangency from inside; "
             "B(C,r) lies in a unit-normal half-space iff n.C+d+r<=0 and touches it at equality (Cauchy-Schwarz), so the maximal centred bounded radius "
             "is the least centre-plane distance; minimal centred bounding radius is the largest centre-vertex distance; an enclosing ball whose centre "
             "is a convex combination of points on its boundary is minimal (miniball certificate); min/max-axis balls sandwich the ellipsoid. "
             "Correspondence: exact circum solve (Cramer normal equations, exact residual) decides existence; every returned ball is checked against its "
             "definition; miniball's output must carry the certificate; RuntimeError demanded exactly when no ball exists (margin-separated).",
        design="§4 C13", technique="Coq proof (linear-algebra equivalences, weighted-sum argument, nra) + exact existence oracle + definition checks on implementation output",
        note="miniball and lstsq are oracles; in-ball existence known by construction of generators; sizes O(1) (scale dependence of isclose(resids,0) is C09)."),
    "C14": dict(
        text="New: the three branch formulas of ConvexPolygon._distance_to_surface_from (vertical / horizontal / generic edge through tan) are modelled (Model/DistanceBranches.v), proved to return the ray parameter of the hit point, and run float-extracted against the implementation. "
             "Theorems: for every real theta the Ellipse formula (regenerated from the source each run) puts centre + d(cos,sin) on the ellipse with d>0; "
             "Cramer's rule for ray/edge intersection (the point at distance cross(a,e)/cross(u,e) along u is a + s e); distance = |d u| for unit u; "
             "directions depend on theta only modulo 2 pi; for a convex region with ANY number of edges (half-planes with the centre inside) the radial distance "
             "min c_i/(n_i.u) keeps the whole ray segment inside, lands on an edge line, is positive and exists; the rounded-corner hit u.v + sqrt(r^2-(u x v)^2) "
             "lies on the corner circle and is the farthest such point. Partial: the polygon/spheropolygon sector selection is not modelled step by step - instead the "
             "implementation's output is judged against the definition: the exact (Coq model, rational) distance of centre + d u to the core polygon's "
             "boundary equals the rounding radius (0 for polygons), d>0, with the centre the exact C04 centroid; angles in [-4pi,4pi], vertex directions, "
             "multiples of pi/4, axis-aligned edges.",
        design="§4 C14", technique="source-to-Coq translation + Coq proof (field/trig) + exact definition check on implementation output",
        note="uniqueness of the boundary point on a ray from an interior point of a convex set is assumed; tolerance 1e-9 size."),
    "C08": dict(
        text="Translator tie: the guard shape of EVERY property setter of every shape class is regenerated from /repo (Gen/Effects.v) and the theorem "
             "'all setters are classified and every size setter is `if value > 0 (>= 0 for rounding radii): ... else raise ValueError`' is re-checked "
             "by vm_compute on every run (fails closed on a new or changed setter). Theorems: uniform scaling multiplies volume/first/second cone moments "
             "by s^3/s^4/s^5, centroid by s, inertia by s^5; iq invariant; a rescale with s^d = target/current reads back the target; translation keeps "
             "the volume and shifts first moments. Correspondence: every settable property (reflection) x 4-21 targets x all 10 classes (tilted polygons "
             "too): read-back, V'-c' = s(V-c) with one s, radii/semi-axes scaled alike, iq preserved; centroid/center = pure translation; 0/-1/nan raise "
             "ValueError and leave the state bit-for-bit unchanged.",
        design="§4 C08", technique="source-to-Coq translation of setter guards + Coq proof (homogeneity lemmas, vm_compute table check) + reflection-driven correspondence",
        note="single semi-axes and the rounding radius are direct parameters (not similarities); getters undefined for a class are not judged; known finding polytri thresholds."),
    "C03": dict(
        text="Cache-coherence automaton (fresh/stale tag per cached attribute; transform + write set per mutator; invariance table): theorem by induction "
             "over ALL histories that every attribute is fresh after any sequence of mutators, for ConvexPolyhedron, Polyhedron and Polygon (spheropolytopes "
             "delegate); the automaton's write sets are proved equal (vm_compute) to the write sets REGENERATED from the source on every run, transitively "
             "through self.method() calls and property assignments; size setters proved to reach the geometry only through _rescale; the pre-fix behaviour "
             "(no _equations refresh, no edge-cache invalidation) is refuted in the automaton. Implementation side: exhaustive histories to depth 2 (3 in "
             "thorough) over ~10 operations x 6 classes plus random walks, each prefix compared observable-by-observable (reflection) with a freshly "
             "constructed shape; refused operations must leave the private state bit-for-bit unchanged.",
        design="§4 C03", technique="Coq invariant-by-induction over an automaton whose write sets are translated from the source + exhaustive bounded history exploration of the implementation",
        note="the invariance table and 'a written attribute is written with the right rule' are modelled (rules partly proved: ScalingThm, MeshThm translation lemmas); "
             "implementation explored to bounded depth; tolerance 1e-8 relative to each array's magnitude."),
    "C16": dict(
        text="Translator tie: the transitive write set of EVERY property getter and query method of every shape class is regenerated from the source each run "
             "(Gen/Effects.v); theorems by vm_compute: all queries write nothing except the private memo attributes and, for the listed move-and-restore "
             "queries (Polygon.inertia_tensor, to_hoomd), exactly the geometry they restore; no method writes in place into an argument array, also not "
             "through np.asarray/atleast_2d aliases. Implementation side: every ordered pair of ~25-45 queries per class (reflection + exports) on fresh "
             "off-origin shapes: private state bit-for-bit (1e-12 for move-and-restore), argument arrays and previously handed-out arrays bit-for-bit, "
             "repeated query same answer.",
        design="§4 C16", technique="source-to-Coq translation of write sets + Coq table theorems (vm_compute) + exhaustive pairwise exploration of the implementation",
        note="that a move-and-restore query restores exactly, and aliasing of handed-out arrays, are outside the write-set abstraction and decided by the exploration."),
    "C15": dict(
        text="The exact oracle is proved to be the definition: seg_meet <-> the two closed segments share a point (all real coordinates, collinear / touching / zero-length cases included), fold_back <-> consecutive edges overlap beyond their common vertex. Exact oracle in Coq: simple_bf (definition of a simple cycle), proper_cross_bf, touch_bf; theorems: a proper crossing yields an explicit common "
             "point of the two open edges (sound 'clearly invalid' class), Paramcoq transfer of the oracles, constructors establish radii only through "
             "guarded setters (read off the source each run). Correspondence: Polygon accepts exactly the simple cycles and raises ValueError on properly "
             "crossing / duplicate / <3 / off-plane input (lattice, comb/spiral, tilted planes, the Bentley-Ottmann vertical-edge case); every permutation of "
             "small convex inputs is accepted by ConvexPolygon/ConvexSpheropolygon and comes out counter-clockwise about the normal; sets with an interior "
             "point (exactly certified inside by the half-space model) are rejected by all four convex classes; non-positive radii, negative rounding radii "
             "rejected; caller arrays bit-for-bit unchanged, not shared, and mutating them does not move the shape.",
        design="§4 C15", technique="Coq decision procedure as exact oracle + Coq proof (crossing soundness, transfer, guard table) + model/implementation correspondence",
        note="Bentley-Ottmann and qhull are validated oracles; cycles ON the decision boundary (touching only, straight corners) are generated but not judged; "
             "recorded observation: such touching cycles can raise AssertionError from the vendored sweep; known finding polygon-collinear-first-corner."),
    "C19": dict(
        text="Theorems on a datatype model of gsd_shape_spec / from_gsd_type_shapes (all ten classes, opaque geometry, constructor facts as section "
             "parameters): the round trip returns the same shape (a Polygon holding a convex cycle is promoted to ConvexPolygon), missing/unknown type "
             "raises; the executable class dispatch returns, for the spec each class writes, that class or a subclass. Correspondence: the dispatch "
             "model is run against from_gsd_type_shapes on every generated spec; actual round trips through GSD and eval(repr(.)) for shapes of all ten "
             "classes off-origin (both polygon orientations, tilted planes, voxel polyhedra): class, vertices/faces/radii/semi-axes, centre and normal "
             "(repr), measures; to_json keys and AttributeError; to_hoomd keys and values against a freshly constructed centred shape.",
        design="§4 C19", technique="Coq proof on a datatype model of the codec + executable dispatch model run against the implementation + round-trip correspondence",
        note="repr, to_json and to_hoomd are decided by correspondence only (partial); known finding spheropolygon-to_hoomd-not-centred (pinned by the suite)."),
    "C20": dict(
        text="New: the STL grammar - the parser recovers, in order, the fan triangles of every face (C20_stl_roundtrip) and is run on the implementation's STL files. "
             "Codec theorems on token lines (coordinates opaque): parse(write m) = Some m for every well-formed mesh (any number of vertices/faces) for OBJ "
             "(1-based), OFF, PLY, VTK (counts must match the data, indices in range) and the X3D/HTML coordIndex run structure; the OFF count line as "
             "actually written ('<V> f<F> <E>') is proved unparseable (known finding, byte-pinned by the control files). Correspondence: the Coq parsers "
             "are run on the bytes Polyhedron.save wrote (lexed in the harness), and must return the polyhedron's vertex count and face cycles; float tokens "
             "must equal the coordinates as exact doubles; STL: fan triangulation of every face in order, normals = cross product, positive signed volume; "
             "X3D/HTML: XML well-formed, points = face corners at full precision; save dispatch / ValueError for unknown types; exporting leaves the whole "
             "private state unchanged.",
        design="§4 C20", technique="Coq codec round-trip proofs + Coq parsers run on the implementation's output",
        note="the lexer (comment/blank handling, int/float/keyword classification) and float(str(x)) == x are trusted harness code; known findings off-face-count-token, polytri thresholds (STL of small Polyhedron)."),
    "C17": dict(
        text="Translator tie: plane tables, plane types, fixed middle distance, domains and thresholds of the truncation families are regenerated from the "
             "source (Gen/Planes.v) each run. Model: exact vertex enumeration of the half-space intersection over the field Q(sqrt5) (own Ops instance). "
             "Theorems: every enumerated point satisfies every constraint (generic) and lies on three planes (Cramer); corner solids of 323+/423 by "
             "vm_compute on the generated tables (6,4,4,8,12 / 12,8,6,14 vertices); domains; unit-area n-gon and unit-volume equal-edge prism algebra. "
             "Correspondence: dyadic (a,c) grids incl. edges/corners + random points + out-of-domain values: the returned polyhedron's vertex set equals "
             "the exact one (1e-6), ValueError only where exact vertices are closer than 1e-4; truncated-tetrahedron family; n-gons, prisms, antiprisms for "
             "ALL n in 3..200 and (di)pyramids n=3..5: vertex counts, unit area/volume and centred (exact C04/C01 models), equal edges, first vertex on +x.",
        design="§4 C17", technique="source-to-Coq translation of plane tables + exact model over Q(sqrt5) + Coq proof (generic soundness, Cramer, vm_compute corners) + correspondence",
        note="completeness of the enumeration (every vertex of the intersection is found) holds by construction of vertices as triple intersections but is not stated as a theorem; "
             "antiprism/pyramid closed forms validated numerically only."),
    "C18": dict(
        text="Finite domain, decided exhaustively. Translator tie: entry names (file order), short codes, vertex counts and cited sources of all seven JSON "
             "tables are regenerated (Gen/Tables.v); theorems by vm_compute: family sizes 5/13/13/92/16/6/145 with distinct keys, every Platonic/Archimedean/"
             "Catalan entry is a textbook solid with its textbook vertex count and each is tabulated once (reference satisfies V-E+F=2), every repository "
             "entry citing a family refers to an existing entry with the same vertex count. Correspondence over all 290 entries: builds a ConvexPolyhedron, "
             "names/iteration order/get_shape agree with the data file, (V,E,F) of the built solid, unit volume (exact C01 model), equal edges and regular "
             "faces (Platonic, Archimedean, Johnson), Catalan insphere, repository entries coincide with the cited family entry (distance multisets), "
             "KeyError for unknown names/DOIs.",
        design="§4 C18", technique="data-to-Coq translation + finite-domain proofs by vm_compute + exhaustive correspondence",
        note="reference (V,E,F) table hand-written; geometric facts need the hull and are decided by the exhaustive correspondence (1e-6); known finding science-J86-edge-precision."),
    "C12": dict(
        text="Polyhedra: for every closed oriented triangulated surface with unit face normals (any planes) the face sum of Polyhedron.compute_form_factor_amplitude equals the sum over the signed cones (o,a,b,c) of det x the Fourier triple integral (Coquelicot), any apex, q generic for the cones (3-D face lemma, Gauss theorem for the plane wave on a tetrahedron, closed-chain cancellation); polygons of any size on ANY plane and EVERY wave vector with non-zero projection equal the fan of Fourier integrals (degenerate directions proved); the sphere's value expressions are regenerated from the source and equal the Fourier integral of the ball. Tie: the hand-written real-number formulas are run float-extracted (Extract/ExtractR.v) against the implementation to 1e-8. "
             "PARTIAL. Theorems for the code's polygon line-integral formula: for a triangle in the xy-plane and an in-plane q in generic position the formula "
             "EQUALS the Fourier integral J*intint exp(-i q.r) over the affinely parametrised triangle (Coquelicot double RInt, real and imaginary parts), "
             "and for xy-plane polygons of ANY size it equals the sum of those integrals over the fan triangles (generic q); "
             "every vertex cycle: each edge term IS -i((e x q).n/q^2) times the plane wave "
             "integrated along the edge (Coquelicot RInt, the sinc closed form proved incl. q.e = 0); the polygon amplitude is the sum of the amplitudes of its "
             "fan triangles (chord cancellation); F(-q) = conj F(q); translation by t multiplies by "
             "exp(-i q.t); reversing the vertex order negates the line integral (so the as-found code was orientation dependent - refuted - and the "
             "repaired code with the sign(signed_area) factor is orientation free). Not proved: degenerate q directions, other planes (covariance), polyhedron and "
             "sphere analogues. Correspondence decides those: implementation vs direct Gauss-Legendre quadrature of exp(-i q.r) over the signed tetrahedra "
             "/ fan triangles / the sphere's radial integral (independent of the Stokes formula) for convex and non-convex solids, polygons in both "
             "orientations and tilted planes, spheres, off-origin; q random, along face normals, perpendicular to edges, along axes, zero; density; "
             "batches of one vector; conjugate symmetry and translation law on the implementation.",
        design="§4 C12", technique="Coq proof of the algebraic laws of the code's formula + correspondence against quadrature of the defining integral",
        note="the quadrature oracle is binary64 harness code (32-point Gauss-Legendre, tolerance 1e-5 * measure); known findings form-factor-small-q-cancellation, zero-q-absolute-threshold."),
    "C09": dict(
        text="Theorems for the exact measures (which C01/C02/C04 prove the code computes): scaling laws s^3/s/s^5, translation laws on closed chains (volume "
             "invariant, first/second moments by the parallel-axis terms), linear maps (volume x det, centroid moves with the shape, reflections flip the "
             "signed volume), invariance under re-ordering triangles and cyclic re-listing, polygon containment invariant under cyclic shifts, form-factor "
             "phase under translation. Correspondence (metamorphic): every public query on g(x) vs g applied to the query on x for ConvexPolyhedron (with "
             "vertex permutation), Polyhedron (vertex relabelling + cyclic face shifts) and (Convex)Polygon (cyclic shifts), g = exact similarity with "
             "integer rotation, scale 2^-10..2^10, translation to 10 diameters: measures, balls, centroids, central inertia tensors, containment of "
             "transformed probes, form factors, distance_to_surface; outcomes (ok / exception) must not change.",
        design="§4 C09", technique="Coq proof of covariance laws of the exact measures + metamorphic correspondence on exact similarities",
        note="absolute thresholds in vendored code are recorded known findings (polytri, sweep line, zero-q threshold); tolerance 1e-8 relative to each observable's magnitude."),
}

REASON_TODO = "check not built yet (work in progress this round)"


def main():
    props = [json.loads(l) for l in open(os.path.join(ROOT, "properties.jsonl"))]
    checks = []
    na = []
    for p in props:
        pid = p["id"]
        c = CLAIMED.get(pid)
        if c is None or not os.path.exists(os.path.join(ROOT, "harness", "checks", pid + ".py")):
            na.append(dict(property_id=pid, reason=REASON_TODO))
            continue
        checks.append(dict(
            property_id=pid,
            quick_cmd="./check %s --tier quick" % pid,
            thorough_cmd="./check %s --tier thorough" % pid,
            evidence_file="evidence/%s.json" % pid,
            replay_cmd_template="./check %s --replay {path}" % pid,
            engine="coq-model",
            level_claimed=dict(category="proof", text=c["text"], design_ref=c["design"]),
            level_note=LEVEL_NOTE + c["note"],
            technique=c["technique"],
        ))
    m = dict(
        version=1,
        setup_cmd="./setup.sh",
        hooks=dict(guard="COXETER_VERIF",
                   enable="no source hooks are needed: checks import /repo's working tree directly (PYTHONPATH=/repo); COXETER_VERIF=1 is exported by ./check but read by nothing in /repo",
                   baseline_off_cmd="cd /repo && /venv/bin/python -m pytest -ra -q -p no:cacheprovider --timeout=900 --continue-on-collection-errors",
                   source_commits=[], add_only=True),
        engines=[dict(name="coq-model", path="coq/", serves_properties=[c["property_id"] for c in checks],
                      kind_free_text="Coq 8.16 development (model polymorphic over Q/R, theorems, Paramcoq transfer) + extracted OCaml model binary + Python correspondence harness")],
        checks=checks,
        notes="Every check: (1) incremental full build of the Coq development (forbidden-construct gate, make), (2) re-check of Properties/<id>.v with Print Assumptions, (3) correspondence of the executable model with /repo's current implementation on generated inputs, (4) known-findings filter. See DESIGN.md.",
        not_applicable=na,
    )
    json.dump(m, open(os.path.join(ROOT, "MANIFEST.json"), "w"), indent=1)
    print("claimed:", [c["property_id"] for c in checks])


if __name__ == "__main__":
    main()
