#!/usr/bin/env python3
"""merge_matrix.py <partial.tsv>...: replace, seed by seed, the rows of seeded/matrix.tsv by those of the given partial outputs of
tools/seed_matrix.sh (MATRIX_OUT=...), and list the seeds whose own check did not report them together with the checks that did."""
import os
import sys

root = os.path.dirname(os.path.dirname(os.path.abspath(__file__)))
main = os.path.join(root, "seeded", "matrix.tsv")
rows, order = {}, []


def load(path, replace):
    seen = set()
    for line in open(path):
        p = line.rstrip("\n").split("\t")
        if len(p) < 4:
            continue
        if replace and p[0] not in seen:
            seen.add(p[0]); rows[p[0]] = {}
        rows.setdefault(p[0], {})[p[1]] = p
        if p[0] not in order:
            order.append(p[0])


if os.path.exists(main):
    load(main, False)
for f in sys.argv[1:]:
    load(f, True)
order.sort()
with open(main, "w") as o:
    for s in order:
        for c, p in rows[s].items():
            o.write("\t".join(p) + "\n")
miss = [(s, [c for c, p in rows[s].items() if p[2] != "0"]) for s in order if s[:3] in rows[s] and rows[s][s[:3]][2] == "0"]
print(len(order), "seeds;", "own check silent:", miss)
