#!/bin/sh
# showviol.sh <id> [seed]: run the check and summarise the replays it reports
id=$1; seed=${2:-0}
cd "$(dirname "$0")/.."
VERIF_SEED=$seed ./check $id > /tmp/showviol_$id.out 2>&1
grep -c VIOLATION /tmp/showviol_$id.out
grep KNOWN /tmp/showviol_$id.out | cut -c1-140
for f in $(grep VIOLATION /tmp/showviol_$id.out | sed 's/.*replay=\([^ ]*\).*/\1/'); do
python3 - "$f" <<'PY'
import json,sys
d=json.load(open(sys.argv[1])); det=d['detail']
keep={k:(str(v)[:170]) for k,v in det.items() if k not in ('vertices','faces','linear','input_faces','before_full')}
print(d['kind'],'|',keep)
PY
done
