#!/bin/sh
# confirm_seed.sh <id>: confirm a seeded change in its scratch worktree /tmp/wt/<id>
# (patch from /tmp/seedout/<id>/patch.diff): suite passes with it, demo fails with it and passes without.
id=$1; WT=/tmp/wt/$id; OUT=/tmp/seedout/$id
cd $WT || exit 9
git checkout -q -- . ; git apply $OUT/patch.diff || { echo "APPLY-FAILED"; exit 8; }
PYTHONPATH=$WT /venv/bin/python $OUT/demo.py > $OUT/confirm_demo_patched.txt 2>&1; d1=$?
PYTHONPATH=$WT /venv/bin/python -m pytest -q -n 6 -p no:cacheprovider tests 2>&1 | tail -3 > $OUT/confirm_pytest_patched.txt
git checkout -q -- .
PYTHONPATH=$WT /venv/bin/python $OUT/demo.py > $OUT/confirm_demo_orig.txt 2>&1; d0=$?
echo "$id demo_patched_rc=$d1 demo_orig_rc=$d0 pytest: $(tail -1 $OUT/confirm_pytest_patched.txt)"
