#!/bin/sh
# finalize.sh: regenerate everything that is committed from a CLEAN /repo tree: manifest, seed table, evidence (quick tier, seed 0),
# schema validation.  Refuses to run when /repo has local modifications (evidence must never come from a seeded tree).
cd "$(dirname "$0")/.."
[ -z "$(git -C /repo status --porcelain)" ] || { echo "/repo is not clean"; exit 9; }
python3 tools/mkmanifest.py >/dev/null && python3 tools/mkseedtable.py
rm -f replays/*.json
tools/run_all.sh quick | tee build/final_run.log
if grep -q "VIOLATION\|rc=[1-9]" build/final_run.log; then echo "FINALIZE: a check failed on the clean tree"; exit 1; fi
/opt/veriftools/pyvenv/bin/python - <<'PY'
import json, jsonschema, glob
jsonschema.validate(json.load(open('MANIFEST.json')), json.load(open('/root/.vp/MANIFEST.schema.json')))
sch = json.load(open('/root/.vp/EVIDENCE.schema.json'))
for f in sorted(glob.glob('evidence/*.json')):
    jsonschema.validate(json.load(open(f)), sch)
print("schemas ok:", len(glob.glob('evidence/*.json')), "evidence files")
PY
python3 tools/gate.py && echo "gate ok"
git status --short | head -20
