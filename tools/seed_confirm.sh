#!/bin/sh
# seed_confirm.sh [ids...]: in ONE scratch worktree of /repo's HEAD (outside /repo and /verif, removed at the end) confirm each
# kept seeded change: patch applies, the pinned suite still passes with it, demo.py fails with it and passes without it.
# Writes seeded/<id>/confirm.txt.
ROOT=$(cd "$(dirname "$0")/.." && pwd)
WT=$(mktemp -d /tmp/seedwt.XXXXXX); rmdir $WT
git -C /repo worktree add -q --detach $WT HEAD || exit 9
ids=${*:-$(ls $ROOT/seeded | grep '^C')}
for id in $ids; do
  S=$ROOT/seeded/$id
  ( cd $WT && git checkout -q -- . && git clean -fdq
    if ! git apply $S/patch.diff; then echo "$id APPLY-FAILED" | tee $S/confirm.txt; continue; fi
    PYTHONPATH=$WT /venv/bin/python $S/demo.py > /dev/null 2>&1; d1=$?
    py=$(PYTHONPATH=$WT /venv/bin/python -m pytest -q -n ${NPROC:-8} -p no:cacheprovider --timeout=900 tests 2>&1 | tail -1)
    git checkout -q -- . ; git clean -fdq
    PYTHONPATH=$WT /venv/bin/python $S/demo.py > /dev/null 2>&1; d0=$?
    echo "$id head=$(git rev-parse --short HEAD) demo_with_patch_rc=$d1 demo_without_rc=$d0 suite_with_patch: $py" | tee $S/confirm.txt )
done
git -C /repo worktree remove --force $WT
