#!/usr/bin/env python3
"""Regenerate the 'seeded changes vs checks' table of DESIGN.md (between the SEEDTABLE markers) from seeded/*/meta.json,
seeded/*/confirm.txt and seeded/matrix.tsv."""
import json
import os
import re

ROOT = os.path.dirname(os.path.dirname(os.path.abspath(__file__)))
rows = {}
mx = os.path.join(ROOT, "seeded", "matrix.tsv")
if os.path.exists(mx):
    for l in open(mx):
        p = l.rstrip("\n").split("\t")
        if len(p) >= 4:
            rows.setdefault(p[0], []).append((p[1], int(p[2]), int(p[3]), p[4] if len(p) > 4 else ""))
out = ["| seed | property | change (what it needs) | own check | also reported by | suite with the change |", "|---|---|---|---|---|---|"]
for sd in sorted(d for d in os.listdir(os.path.join(ROOT, "seeded")) if os.path.isdir(os.path.join(ROOT, "seeded", d))):
    m = json.load(open(os.path.join(ROOT, "seeded", sd, "meta.json")))
    cf = os.path.join(ROOT, "seeded", sd, "confirm.txt")
    conf = open(cf).read().strip() if os.path.exists(cf) else ""
    suite = re.search(r"suite_with_patch: (.*?)(, \d+ warnings.*)?$", conf)
    demo = re.search(r"demo_with_patch_rc=(\d+) demo_without_rc=(\d+)", conf)
    pid = m["property"]
    r = rows.get(sd, [])
    own = [x for x in r if x[0] == pid]
    owns = ("**VIOLATION** (%s)" % own[0][3] if own and own[0][1] != 0 else ("no alarm" if own else "not run"))
    others = ", ".join("%s (%s)" % (c, k) for c, rc, nv, k in r if c != pid and rc != 0)
    out.append("| %s | %s | %s — needs: %s | %s | %s | %s%s |" % (
        sd, pid, m["change"].replace("|", "/"), m["needs"].replace("|", "/"), owns, others or "—",
        suite.group(1) if suite else "?", ("; demo %s/%s" % (demo.group(1), demo.group(2))) if demo else ""))
miss = ["| seed | property | what it needed | what happened / what was strengthened |", "|---|---|---|---|"]
for sd in sorted(d for d in os.listdir(os.path.join(ROOT, "seeded")) if os.path.isdir(os.path.join(ROOT, "seeded", d))):
    m = json.load(open(os.path.join(ROOT, "seeded", sd, "meta.json")))
    if "MISSED" in m.get("note", ""):
        miss.append("| `%s` | %s | %s | %s |" % (sd, m["property"], m["needs"].replace("|", "/"), m["note"].replace("|", "/")))
p = os.path.join(ROOT, "DESIGN.md")
s = open(p).read()
mb, me = "<!-- MISSTABLE:BEGIN -->", "<!-- MISSTABLE:END -->"
if mb in s:
    s = s[:s.index(mb)] + mb + "\n" + "\n".join(miss) + "\n" + me + s[s.index(me) + len(me):]
b, e = "<!-- SEEDTABLE:BEGIN -->", "<!-- SEEDTABLE:END -->"
blk = b + "\n" + "\n".join(out) + "\n" + e
if b in s:
    s = s[:s.index(b)] + blk + s[s.index(e) + len(e):]
else:
    s += "\n" + blk + "\n"
open(p, "w").write(s)
print(len(out) - 2, "seeds;", len(miss) - 2, "first missed")
