
type __ = Obj.t
let __ = let rec f _ = Obj.repr f in Obj.repr f

type nat =
| O
| S of nat

(** val fst : ('a1 * 'a2) -> 'a1 **)

let fst = function
| (x, _) -> x

(** val snd : ('a1 * 'a2) -> 'a2 **)

let snd = function
| (_, y) -> y

(** val app : 'a1 list -> 'a1 list -> 'a1 list **)

let rec app l m =
  match l with
  | [] -> m
  | a :: l1 -> a :: (app l1 m)

type comparison =
| Eq
| Lt
| Gt

(** val compOpp : comparison -> comparison **)

let compOpp = function
| Eq -> Eq
| Lt -> Gt
| Gt -> Lt

type 'a sig0 = 'a
  (* singleton inductive, whose constructor was exist *)



(** val pred : nat -> nat **)

let pred n = match n with
| O -> n
| S u -> u

module Coq__1 = struct
 (** val add : nat -> nat -> nat **)
 let rec add n m =
   match n with
   | O -> m
   | S p -> S (add p m)
end
include Coq__1

(** val mul : nat -> nat -> nat **)

let rec mul n m =
  match n with
  | O -> O
  | S p -> add m (mul p m)

type positive =
| XI of positive
| XO of positive
| XH

type z =
| Z0
| Zpos of positive
| Zneg of positive

module Nat =
 struct
  (** val add : nat -> nat -> nat **)

  let rec add n m =
    match n with
    | O -> m
    | S p -> S (add p m)

  (** val mul : nat -> nat -> nat **)

  let rec mul n m =
    match n with
    | O -> O
    | S p -> add m (mul p m)

  (** val pow : nat -> nat -> nat **)

  let rec pow n = function
  | O -> S O
  | S m0 -> mul n (pow n m0)
 end

module Pos =
 struct
  type mask =
  | IsNul
  | IsPos of positive
  | IsNeg
 end

module Coq_Pos =
 struct
  (** val succ : positive -> positive **)

  let rec succ = function
  | XI p -> XO (succ p)
  | XO p -> XI p
  | XH -> XO XH

  (** val add : positive -> positive -> positive **)

  let rec add x y =
    match x with
    | XI p ->
      (match y with
       | XI q0 -> XO (add_carry p q0)
       | XO q0 -> XI (add p q0)
       | XH -> XO (succ p))
    | XO p ->
      (match y with
       | XI q0 -> XI (add p q0)
       | XO q0 -> XO (add p q0)
       | XH -> XI p)
    | XH -> (match y with
             | XI q0 -> XO (succ q0)
             | XO q0 -> XI q0
             | XH -> XO XH)

  (** val add_carry : positive -> positive -> positive **)

  and add_carry x y =
    match x with
    | XI p ->
      (match y with
       | XI q0 -> XI (add_carry p q0)
       | XO q0 -> XO (add_carry p q0)
       | XH -> XI (succ p))
    | XO p ->
      (match y with
       | XI q0 -> XO (add_carry p q0)
       | XO q0 -> XI (add p q0)
       | XH -> XO (succ p))
    | XH ->
      (match y with
       | XI q0 -> XI (succ q0)
       | XO q0 -> XO (succ q0)
       | XH -> XI XH)

  (** val pred_double : positive -> positive **)

  let rec pred_double = function
  | XI p -> XI (XO p)
  | XO p -> XI (pred_double p)
  | XH -> XH

  type mask = Pos.mask =
  | IsNul
  | IsPos of positive
  | IsNeg

  (** val succ_double_mask : mask -> mask **)

  let succ_double_mask = function
  | IsNul -> IsPos XH
  | IsPos p -> IsPos (XI p)
  | IsNeg -> IsNeg

  (** val double_mask : mask -> mask **)

  let double_mask = function
  | IsPos p -> IsPos (XO p)
  | x0 -> x0

  (** val double_pred_mask : positive -> mask **)

  let double_pred_mask = function
  | XI p -> IsPos (XO (XO p))
  | XO p -> IsPos (XO (pred_double p))
  | XH -> IsNul

  (** val sub_mask : positive -> positive -> mask **)

  let rec sub_mask x y =
    match x with
    | XI p ->
      (match y with
       | XI q0 -> double_mask (sub_mask p q0)
       | XO q0 -> succ_double_mask (sub_mask p q0)
       | XH -> IsPos (XO p))
    | XO p ->
      (match y with
       | XI q0 -> succ_double_mask (sub_mask_carry p q0)
       | XO q0 -> double_mask (sub_mask p q0)
       | XH -> IsPos (pred_double p))
    | XH -> (match y with
             | XH -> IsNul
             | _ -> IsNeg)

  (** val sub_mask_carry : positive -> positive -> mask **)

  and sub_mask_carry x y =
    match x with
    | XI p ->
      (match y with
       | XI q0 -> succ_double_mask (sub_mask_carry p q0)
       | XO q0 -> double_mask (sub_mask p q0)
       | XH -> IsPos (pred_double p))
    | XO p ->
      (match y with
       | XI q0 -> double_mask (sub_mask_carry p q0)
       | XO q0 -> succ_double_mask (sub_mask_carry p q0)
       | XH -> double_pred_mask p)
    | XH -> IsNeg

  (** val sub : positive -> positive -> positive **)

  let sub x y =
    match sub_mask x y with
    | IsPos z0 -> z0
    | _ -> XH

  (** val mul : positive -> positive -> positive **)

  let rec mul x y =
    match x with
    | XI p -> add y (XO (mul p y))
    | XO p -> XO (mul p y)
    | XH -> y

  (** val iter : ('a1 -> 'a1) -> 'a1 -> positive -> 'a1 **)

  let rec iter f x = function
  | XI n' -> f (iter f (iter f x n') n')
  | XO n' -> iter f (iter f x n') n'
  | XH -> f x

  (** val pow : positive -> positive -> positive **)

  let pow x =
    iter (mul x) XH

  (** val size_nat : positive -> nat **)

  let rec size_nat = function
  | XI p0 -> S (size_nat p0)
  | XO p0 -> S (size_nat p0)
  | XH -> S O

  (** val compare_cont : comparison -> positive -> positive -> comparison **)

  let rec compare_cont r x y =
    match x with
    | XI p ->
      (match y with
       | XI q0 -> compare_cont r p q0
       | XO q0 -> compare_cont Gt p q0
       | XH -> Gt)
    | XO p ->
      (match y with
       | XI q0 -> compare_cont Lt p q0
       | XO q0 -> compare_cont r p q0
       | XH -> Gt)
    | XH -> (match y with
             | XH -> r
             | _ -> Lt)

  (** val compare : positive -> positive -> comparison **)

  let compare =
    compare_cont Eq

  (** val ggcdn :
      nat -> positive -> positive -> positive * (positive * positive) **)

  let rec ggcdn n a b =
    match n with
    | O -> (XH, (a, b))
    | S n0 ->
      (match a with
       | XI a' ->
         (match b with
          | XI b' ->
            (match compare a' b' with
             | Eq -> (a, (XH, XH))
             | Lt ->
               let (g, p) = ggcdn n0 (sub b' a') a in
               let (ba, aa) = p in (g, (aa, (add aa (XO ba))))
             | Gt ->
               let (g, p) = ggcdn n0 (sub a' b') b in
               let (ab, bb) = p in (g, ((add bb (XO ab)), bb)))
          | XO b0 ->
            let (g, p) = ggcdn n0 a b0 in
            let (aa, bb) = p in (g, (aa, (XO bb)))
          | XH -> (XH, (a, XH)))
       | XO a0 ->
         (match b with
          | XI _ ->
            let (g, p) = ggcdn n0 a0 b in
            let (aa, bb) = p in (g, ((XO aa), bb))
          | XO b0 -> let (g, p) = ggcdn n0 a0 b0 in ((XO g), p)
          | XH -> (XH, (a, XH)))
       | XH -> (XH, (XH, b)))

  (** val ggcd : positive -> positive -> positive * (positive * positive) **)

  let ggcd a b =
    ggcdn (Coq__1.add (size_nat a) (size_nat b)) a b

  (** val iter_op : ('a1 -> 'a1 -> 'a1) -> positive -> 'a1 -> 'a1 **)

  let rec iter_op op p a =
    match p with
    | XI p0 -> op a (iter_op op p0 (op a a))
    | XO p0 -> iter_op op p0 (op a a)
    | XH -> a

  (** val to_nat : positive -> nat **)

  let to_nat x =
    iter_op Coq__1.add x (S O)

  (** val of_nat : nat -> positive **)

  let rec of_nat = function
  | O -> XH
  | S x -> (match x with
            | O -> XH
            | S _ -> succ (of_nat x))

  (** val of_succ_nat : nat -> positive **)

  let rec of_succ_nat = function
  | O -> XH
  | S x -> succ (of_succ_nat x)
 end

module Z =
 struct
  (** val double : z -> z **)

  let double = function
  | Z0 -> Z0
  | Zpos p -> Zpos (XO p)
  | Zneg p -> Zneg (XO p)

  (** val succ_double : z -> z **)

  let succ_double = function
  | Z0 -> Zpos XH
  | Zpos p -> Zpos (XI p)
  | Zneg p -> Zneg (Coq_Pos.pred_double p)

  (** val pred_double : z -> z **)

  let pred_double = function
  | Z0 -> Zneg XH
  | Zpos p -> Zpos (Coq_Pos.pred_double p)
  | Zneg p -> Zneg (XI p)

  (** val pos_sub : positive -> positive -> z **)

  let rec pos_sub x y =
    match x with
    | XI p ->
      (match y with
       | XI q0 -> double (pos_sub p q0)
       | XO q0 -> succ_double (pos_sub p q0)
       | XH -> Zpos (XO p))
    | XO p ->
      (match y with
       | XI q0 -> pred_double (pos_sub p q0)
       | XO q0 -> double (pos_sub p q0)
       | XH -> Zpos (Coq_Pos.pred_double p))
    | XH ->
      (match y with
       | XI q0 -> Zneg (XO q0)
       | XO q0 -> Zneg (Coq_Pos.pred_double q0)
       | XH -> Z0)

  (** val add : z -> z -> z **)

  let add x y =
    match x with
    | Z0 -> y
    | Zpos x' ->
      (match y with
       | Z0 -> x
       | Zpos y' -> Zpos (Coq_Pos.add x' y')
       | Zneg y' -> pos_sub x' y')
    | Zneg x' ->
      (match y with
       | Z0 -> x
       | Zpos y' -> pos_sub y' x'
       | Zneg y' -> Zneg (Coq_Pos.add x' y'))

  (** val opp : z -> z **)

  let opp = function
  | Z0 -> Z0
  | Zpos x0 -> Zneg x0
  | Zneg x0 -> Zpos x0

  (** val sub : z -> z -> z **)

  let sub m n =
    add m (opp n)

  (** val mul : z -> z -> z **)

  let mul x y =
    match x with
    | Z0 -> Z0
    | Zpos x' ->
      (match y with
       | Z0 -> Z0
       | Zpos y' -> Zpos (Coq_Pos.mul x' y')
       | Zneg y' -> Zneg (Coq_Pos.mul x' y'))
    | Zneg x' ->
      (match y with
       | Z0 -> Z0
       | Zpos y' -> Zneg (Coq_Pos.mul x' y')
       | Zneg y' -> Zpos (Coq_Pos.mul x' y'))

  (** val compare : z -> z -> comparison **)

  let compare x y =
    match x with
    | Z0 -> (match y with
             | Z0 -> Eq
             | Zpos _ -> Lt
             | Zneg _ -> Gt)
    | Zpos x' -> (match y with
                  | Zpos y' -> Coq_Pos.compare x' y'
                  | _ -> Gt)
    | Zneg x' ->
      (match y with
       | Zneg y' -> compOpp (Coq_Pos.compare x' y')
       | _ -> Lt)

  (** val sgn : z -> z **)

  let sgn = function
  | Z0 -> Z0
  | Zpos _ -> Zpos XH
  | Zneg _ -> Zneg XH

  (** val leb : z -> z -> bool **)

  let leb x y =
    match compare x y with
    | Gt -> false
    | _ -> true

  (** val ltb : z -> z -> bool **)

  let ltb x y =
    match compare x y with
    | Lt -> true
    | _ -> false

  (** val max : z -> z -> z **)

  let max n m =
    match compare n m with
    | Lt -> m
    | _ -> n

  (** val min : z -> z -> z **)

  let min n m =
    match compare n m with
    | Gt -> m
    | _ -> n

  (** val abs : z -> z **)

  let abs = function
  | Zneg p -> Zpos p
  | x -> x

  (** val to_nat : z -> nat **)

  let to_nat = function
  | Zpos p -> Coq_Pos.to_nat p
  | _ -> O

  (** val of_nat : nat -> z **)

  let of_nat = function
  | O -> Z0
  | S n0 -> Zpos (Coq_Pos.of_succ_nat n0)

  (** val to_pos : z -> positive **)

  let to_pos = function
  | Zpos p -> p
  | _ -> XH

  (** val pos_div_eucl : positive -> z -> z * z **)

  let rec pos_div_eucl a b =
    match a with
    | XI a' ->
      let (q0, r) = pos_div_eucl a' b in
      let r' = add (mul (Zpos (XO XH)) r) (Zpos XH) in
      if ltb r' b
      then ((mul (Zpos (XO XH)) q0), r')
      else ((add (mul (Zpos (XO XH)) q0) (Zpos XH)), (sub r' b))
    | XO a' ->
      let (q0, r) = pos_div_eucl a' b in
      let r' = mul (Zpos (XO XH)) r in
      if ltb r' b
      then ((mul (Zpos (XO XH)) q0), r')
      else ((add (mul (Zpos (XO XH)) q0) (Zpos XH)), (sub r' b))
    | XH -> if leb (Zpos (XO XH)) b then (Z0, (Zpos XH)) else ((Zpos XH), Z0)

  (** val div_eucl : z -> z -> z * z **)

  let div_eucl a b =
    match a with
    | Z0 -> (Z0, Z0)
    | Zpos a' ->
      (match b with
       | Z0 -> (Z0, a)
       | Zpos _ -> pos_div_eucl a' b
       | Zneg b' ->
         let (q0, r) = pos_div_eucl a' (Zpos b') in
         (match r with
          | Z0 -> ((opp q0), Z0)
          | _ -> ((opp (add q0 (Zpos XH))), (add b r))))
    | Zneg a' ->
      (match b with
       | Z0 -> (Z0, a)
       | Zpos _ ->
         let (q0, r) = pos_div_eucl a' b in
         (match r with
          | Z0 -> ((opp q0), Z0)
          | _ -> ((opp (add q0 (Zpos XH))), (sub b r)))
       | Zneg b' -> let (q0, r) = pos_div_eucl a' (Zpos b') in (q0, (opp r)))

  (** val div : z -> z -> z **)

  let div a b =
    let (q0, _) = div_eucl a b in q0

  (** val ggcd : z -> z -> z * (z * z) **)

  let ggcd a b =
    match a with
    | Z0 -> ((abs b), (Z0, (sgn b)))
    | Zpos a0 ->
      (match b with
       | Z0 -> ((abs a), ((sgn a), Z0))
       | Zpos b0 ->
         let (g, p) = Coq_Pos.ggcd a0 b0 in
         let (aa, bb) = p in ((Zpos g), ((Zpos aa), (Zpos bb)))
       | Zneg b0 ->
         let (g, p) = Coq_Pos.ggcd a0 b0 in
         let (aa, bb) = p in ((Zpos g), ((Zpos aa), (Zneg bb))))
    | Zneg a0 ->
      (match b with
       | Z0 -> ((abs a), ((sgn a), Z0))
       | Zpos b0 ->
         let (g, p) = Coq_Pos.ggcd a0 b0 in
         let (aa, bb) = p in ((Zpos g), ((Zneg aa), (Zpos bb)))
       | Zneg b0 ->
         let (g, p) = Coq_Pos.ggcd a0 b0 in
         let (aa, bb) = p in ((Zpos g), ((Zneg aa), (Zneg bb))))
 end

(** val z_lt_dec : z -> z -> bool **)

let z_lt_dec x y =
  match Z.compare x y with
  | Lt -> true
  | _ -> false

(** val z_lt_ge_dec : z -> z -> bool **)

let z_lt_ge_dec =
  z_lt_dec

(** val z_lt_le_dec : z -> z -> bool **)

let z_lt_le_dec =
  z_lt_ge_dec

(** val pow_pos : ('a1 -> 'a1 -> 'a1) -> 'a1 -> positive -> 'a1 **)

let rec pow_pos rmul x = function
| XI i0 -> let p = pow_pos rmul x i0 in rmul x (rmul p p)
| XO i0 -> let p = pow_pos rmul x i0 in rmul p p
| XH -> x

(** val hd : 'a1 -> 'a1 list -> 'a1 **)

let hd default = function
| [] -> default
| x :: _ -> x

(** val map : ('a1 -> 'a2) -> 'a1 list -> 'a2 list **)

let rec map f = function
| [] -> []
| a :: t -> (f a) :: (map f t)

(** val fold_right : ('a2 -> 'a1 -> 'a1) -> 'a1 -> 'a2 list -> 'a1 **)

let rec fold_right f a0 = function
| [] -> a0
| b :: t -> f b (fold_right f a0 t)

(** val combine : 'a1 list -> 'a2 list -> ('a1 * 'a2) list **)

let rec combine l l' =
  match l with
  | [] -> []
  | x :: tl ->
    (match l' with
     | [] -> []
     | y :: tl' -> (x, y) :: (combine tl tl'))

type q = { qnum : z; qden : positive }

(** val qplus : q -> q -> q **)

let qplus x y =
  { qnum = (Z.add (Z.mul x.qnum (Zpos y.qden)) (Z.mul y.qnum (Zpos x.qden)));
    qden = (Coq_Pos.mul x.qden y.qden) }

(** val qmult : q -> q -> q **)

let qmult x y =
  { qnum = (Z.mul x.qnum y.qnum); qden = (Coq_Pos.mul x.qden y.qden) }

(** val qopp : q -> q **)

let qopp x =
  { qnum = (Z.opp x.qnum); qden = x.qden }

(** val qminus : q -> q -> q **)

let qminus x y =
  qplus x (qopp y)

(** val qinv : q -> q **)

let qinv x =
  match x.qnum with
  | Z0 -> { qnum = Z0; qden = XH }
  | Zpos p -> { qnum = (Zpos x.qden); qden = p }
  | Zneg p -> { qnum = (Zneg x.qden); qden = p }

(** val qlt_le_dec : q -> q -> bool **)

let qlt_le_dec x y =
  z_lt_le_dec (Z.mul x.qnum (Zpos y.qden)) (Z.mul y.qnum (Zpos x.qden))

(** val qarchimedean : q -> positive **)

let qarchimedean q0 =
  let { qnum = qnum0; qden = _ } = q0 in
  (match qnum0 with
   | Zpos p -> Coq_Pos.add p XH
   | _ -> XH)

(** val qpower_positive : q -> positive -> q **)

let qpower_positive =
  pow_pos qmult

(** val qpower : q -> z -> q **)

let qpower q0 = function
| Z0 -> { qnum = (Zpos XH); qden = XH }
| Zpos p -> qpower_positive q0 p
| Zneg p -> qinv (qpower_positive q0 p)

(** val qabs : q -> q **)

let qabs x =
  let { qnum = n; qden = d } = x in { qnum = (Z.abs n); qden = d }

(** val pos_log2floor_plus1 : positive -> positive **)

let rec pos_log2floor_plus1 = function
| XI p' -> Coq_Pos.succ (pos_log2floor_plus1 p')
| XO p' -> Coq_Pos.succ (pos_log2floor_plus1 p')
| XH -> XH

(** val qbound_lt_ZExp2 : q -> z **)

let qbound_lt_ZExp2 q0 =
  match q0.qnum with
  | Z0 -> Zneg (XO (XO (XO (XI (XO (XI (XI (XI (XI XH)))))))))
  | Zpos p ->
    Z.pos_sub (Coq_Pos.succ (pos_log2floor_plus1 p))
      (pos_log2floor_plus1 q0.qden)
  | Zneg _ -> Z0

type cReal = { seq : (z -> q); scale : z }

(** val sig_forall_dec : (nat -> bool) -> nat option **)

let sig_forall_dec = (fun _ -> None)

(** val lowerCutBelow : (q -> bool) -> q **)

let lowerCutBelow f =
  let s =
    sig_forall_dec (fun n ->
      let b = f (qopp { qnum = (Z.of_nat n); qden = XH }) in
      if b then false else true)
  in
  (match s with
   | Some a -> qopp { qnum = (Z.of_nat a); qden = XH }
   | None -> assert false (* absurd case *))

(** val lowerCutAbove : (q -> bool) -> q **)

let lowerCutAbove f =
  let s =
    sig_forall_dec (fun n ->
      let b = f { qnum = (Z.of_nat n); qden = XH } in
      if b then true else false)
  in
  (match s with
   | Some a -> { qnum = (Z.of_nat a); qden = XH }
   | None -> assert false (* absurd case *))

type dReal = (q -> bool)

(** val dRealQlim_rec : (q -> bool) -> nat -> nat -> q **)

let rec dRealQlim_rec f n = function
| O -> assert false (* absurd case *)
| S n0 ->
  let b =
    f
      (qplus (lowerCutBelow f) { qnum = (Z.of_nat n0); qden =
        (Coq_Pos.of_nat (S n)) })
  in
  if b
  then qplus (lowerCutBelow f) { qnum = (Z.of_nat n0); qden =
         (Coq_Pos.of_nat (S n)) }
  else dRealQlim_rec f n n0

(** val dRealAbstr : cReal -> dReal **)

let dRealAbstr x =
  let h = fun q0 n ->
    let s =
      qlt_le_dec
        (qplus q0
          (qpower { qnum = (Zpos (XO XH)); qden = XH } (Z.opp (Z.of_nat n))))
        (x.seq (Z.opp (Z.of_nat n)))
    in
    if s then false else true
  in
  (fun q0 -> match sig_forall_dec (h q0) with
             | Some _ -> true
             | None -> false)

(** val dRealQlim : dReal -> nat -> q **)

let dRealQlim x n =
  let s = lowerCutAbove x in
  let s0 = qarchimedean (qminus s (lowerCutBelow x)) in
  dRealQlim_rec x n (mul (S n) (Coq_Pos.to_nat s0))

(** val dRealQlimExp2 : dReal -> nat -> q **)

let dRealQlimExp2 x n =
  dRealQlim x (pred (Nat.pow (S (S O)) n))

(** val cReal_of_DReal_seq : dReal -> z -> q **)

let cReal_of_DReal_seq x n =
  dRealQlimExp2 x (Z.to_nat (Z.opp n))

(** val cReal_of_DReal_scale : dReal -> z **)

let cReal_of_DReal_scale x =
  qbound_lt_ZExp2
    (qplus (qabs (cReal_of_DReal_seq x (Zneg XH))) { qnum = (Zpos (XO XH));
      qden = XH })

(** val dRealRepr : dReal -> cReal **)

let dRealRepr x =
  { seq = (cReal_of_DReal_seq x); scale = (cReal_of_DReal_scale x) }

module type RbaseSymbolsSig =
 sig
  type coq_R

  val coq_Rabst : cReal -> coq_R

  val coq_Rrepr : coq_R -> cReal

  val coq_R0 : coq_R

  val coq_R1 : coq_R

  val coq_Rplus : coq_R -> coq_R -> coq_R

  val coq_Rmult : coq_R -> coq_R -> coq_R

  val coq_Ropp : coq_R -> coq_R
 end

module RbaseSymbolsImpl =
 struct
  type coq_R = float

  (** val coq_Rabst : cReal -> dReal **)

  let coq_Rabst =
    dRealAbstr

  (** val coq_Rrepr : dReal -> cReal **)

  let coq_Rrepr =
    dRealRepr

  (** val coq_Rquot1 : __ **)

  let coq_Rquot1 =
    __

  (** val coq_Rquot2 : __ **)

  let coq_Rquot2 =
    __

  (** val coq_R0 : coq_R **)

  let coq_R0 = 0.0

  (** val coq_R1 : coq_R **)

  let coq_R1 = 1.0

  (** val coq_Rplus : coq_R -> coq_R -> coq_R **)

  let coq_Rplus = (+.)

  (** val coq_Rmult : coq_R -> coq_R -> coq_R **)

  let coq_Rmult = ( *. )

  (** val coq_Ropp : coq_R -> coq_R **)

  let coq_Ropp = (~-.)

  type coq_Rlt = __

  (** val coq_R0_def : __ **)

  let coq_R0_def =
    __

  (** val coq_R1_def : __ **)

  let coq_R1_def =
    __

  (** val coq_Rplus_def : __ **)

  let coq_Rplus_def =
    __

  (** val coq_Rmult_def : __ **)

  let coq_Rmult_def =
    __

  (** val coq_Ropp_def : __ **)

  let coq_Ropp_def =
    __

  (** val coq_Rlt_def : __ **)

  let coq_Rlt_def =
    __
 end

(** val rminus :
    RbaseSymbolsImpl.coq_R -> RbaseSymbolsImpl.coq_R -> RbaseSymbolsImpl.coq_R **)

let rminus r1 r2 =
  RbaseSymbolsImpl.coq_Rplus r1 (RbaseSymbolsImpl.coq_Ropp r2)

(** val iPR_2 : positive -> RbaseSymbolsImpl.coq_R **)

let rec iPR_2 = function
| XI p0 ->
  RbaseSymbolsImpl.coq_Rmult
    (RbaseSymbolsImpl.coq_Rplus RbaseSymbolsImpl.coq_R1
      RbaseSymbolsImpl.coq_R1)
    (RbaseSymbolsImpl.coq_Rplus RbaseSymbolsImpl.coq_R1 (iPR_2 p0))
| XO p0 ->
  RbaseSymbolsImpl.coq_Rmult
    (RbaseSymbolsImpl.coq_Rplus RbaseSymbolsImpl.coq_R1
      RbaseSymbolsImpl.coq_R1) (iPR_2 p0)
| XH ->
  RbaseSymbolsImpl.coq_Rplus RbaseSymbolsImpl.coq_R1 RbaseSymbolsImpl.coq_R1

(** val iPR : positive -> RbaseSymbolsImpl.coq_R **)

let iPR = function
| XI p0 -> RbaseSymbolsImpl.coq_Rplus RbaseSymbolsImpl.coq_R1 (iPR_2 p0)
| XO p0 -> iPR_2 p0
| XH -> RbaseSymbolsImpl.coq_R1

(** val iZR : z -> RbaseSymbolsImpl.coq_R **)

let iZR = function
| Z0 -> RbaseSymbolsImpl.coq_R0
| Zpos n -> iPR n
| Zneg n -> RbaseSymbolsImpl.coq_Ropp (iPR n)

module type RinvSig =
 sig
  val coq_Rinv : RbaseSymbolsImpl.coq_R -> RbaseSymbolsImpl.coq_R
 end

module RinvImpl =
 struct
  (** val coq_Rinv : RbaseSymbolsImpl.coq_R -> RbaseSymbolsImpl.coq_R **)

  let coq_Rinv = (fun x -> 1.0 /. x)

  (** val coq_Rinv_def : __ **)

  let coq_Rinv_def =
    __
 end

(** val rdiv :
    RbaseSymbolsImpl.coq_R -> RbaseSymbolsImpl.coq_R -> RbaseSymbolsImpl.coq_R **)

let rdiv r1 r2 =
  RbaseSymbolsImpl.coq_Rmult r1 (RinvImpl.coq_Rinv r2)

(** val rlt_dec : RbaseSymbolsImpl.coq_R -> RbaseSymbolsImpl.coq_R -> bool **)

let rlt_dec = (fun (x : float) (y : float) -> x < y)

(** val rle_dec : RbaseSymbolsImpl.coq_R -> RbaseSymbolsImpl.coq_R -> bool **)

let rle_dec = (fun (x : float) (y : float) -> x <= y)

(** val req_EM_T :
    RbaseSymbolsImpl.coq_R -> RbaseSymbolsImpl.coq_R -> bool **)

let req_EM_T = (fun (x : float) (y : float) -> x = y)

(** val cos : RbaseSymbolsImpl.coq_R -> RbaseSymbolsImpl.coq_R **)

let cos = Stdlib.cos

(** val sin : RbaseSymbolsImpl.coq_R -> RbaseSymbolsImpl.coq_R **)

let sin = Stdlib.sin

(** val tan : RbaseSymbolsImpl.coq_R -> RbaseSymbolsImpl.coq_R **)

let tan = Stdlib.tan

(** val sqrt : RbaseSymbolsImpl.coq_R -> RbaseSymbolsImpl.coq_R **)

let sqrt = Stdlib.sqrt

type 't ops = { o0 : 't; o1 : 't; oadd : ('t -> 't -> 't);
                omul : ('t -> 't -> 't); osub : ('t -> 't -> 't);
                oopp : ('t -> 't); odiv : ('t -> 't -> 't);
                oleb : ('t -> 't -> bool); oltb : ('t -> 't -> bool);
                oeqb : ('t -> 't -> bool); ofromZ : (z -> 't) }

(** val rleb : RbaseSymbolsImpl.coq_R -> RbaseSymbolsImpl.coq_R -> bool **)

let rleb a b =
  if rle_dec a b then true else false

(** val rltb : RbaseSymbolsImpl.coq_R -> RbaseSymbolsImpl.coq_R -> bool **)

let rltb a b =
  if rlt_dec a b then true else false

(** val reqb : RbaseSymbolsImpl.coq_R -> RbaseSymbolsImpl.coq_R -> bool **)

let reqb a b =
  if req_EM_T a b then true else false

(** val rops : RbaseSymbolsImpl.coq_R ops **)

let rops =
  { o0 = (iZR Z0); o1 = (iZR (Zpos XH)); oadd = RbaseSymbolsImpl.coq_Rplus;
    omul = RbaseSymbolsImpl.coq_Rmult; osub = rminus; oopp =
    RbaseSymbolsImpl.coq_Ropp; odiv = rdiv; oleb = rleb; oltb = rltb; oeqb =
    reqb; ofromZ = iZR }

(** val osum : 'a1 ops -> 'a1 list -> 'a1 **)

let osum o l =
  fold_right o.oadd o.o0 l

(** val oabs : 'a1 ops -> 'a1 -> 'a1 **)

let oabs o a =
  if o.oltb a o.o0 then o.oopp a else a

type 't vec3 = ('t * 't) * 't

(** val vx : 'a1 vec3 -> 'a1 **)

let vx v =
  fst (fst v)

(** val vy : 'a1 vec3 -> 'a1 **)

let vy v =
  snd (fst v)

(** val vz : 'a1 vec3 -> 'a1 **)

let vz =
  snd

(** val vadd : 'a1 ops -> 'a1 vec3 -> 'a1 vec3 -> 'a1 vec3 **)

let vadd o a b =
  (((o.oadd (vx a) (vx b)), (o.oadd (vy a) (vy b))), (o.oadd (vz a) (vz b)))

(** val vsub : 'a1 ops -> 'a1 vec3 -> 'a1 vec3 -> 'a1 vec3 **)

let vsub o a b =
  (((o.osub (vx a) (vx b)), (o.osub (vy a) (vy b))), (o.osub (vz a) (vz b)))

(** val vscale : 'a1 ops -> 'a1 -> 'a1 vec3 -> 'a1 vec3 **)

let vscale o k a =
  (((o.omul k (vx a)), (o.omul k (vy a))), (o.omul k (vz a)))

(** val vdot : 'a1 ops -> 'a1 vec3 -> 'a1 vec3 -> 'a1 **)

let vdot o a b =
  o.oadd (o.oadd (o.omul (vx a) (vx b)) (o.omul (vy a) (vy b)))
    (o.omul (vz a) (vz b))

(** val vcross : 'a1 ops -> 'a1 vec3 -> 'a1 vec3 -> 'a1 vec3 **)

let vcross o a b =
  (((o.osub (o.omul (vy a) (vz b)) (o.omul (vz a) (vy b))),
    (o.osub (o.omul (vz a) (vx b)) (o.omul (vx a) (vz b)))),
    (o.osub (o.omul (vx a) (vy b)) (o.omul (vy a) (vx b))))

(** val vcomp : nat -> 'a1 vec3 -> 'a1 **)

let vcomp i v =
  match i with
  | O -> vx v
  | S n -> (match n with
            | O -> vy v
            | S _ -> vz v)

(** val roll : 'a1 list -> 'a1 list **)

let roll = function
| [] -> []
| a :: r -> app r (a :: [])

(** val cpairs : 'a1 list -> ('a1 * 'a1) list **)

let cpairs l =
  combine l (roll l)

(** val next3 : nat -> nat **)

let next3 = function
| O -> S O
| S n -> (match n with
          | O -> S (S O)
          | S _ -> O)

(** val argmax3 : 'a1 ops -> 'a1 vec3 -> nat **)

let argmax3 o n =
  let a = oabs o (vx n) in
  let b = oabs o (vy n) in
  let c = oabs o (vz n) in
  if (&&) (o.oleb b a) (o.oleb c a)
  then O
  else if o.oleb c b then S O else S (S O)

(** val ctriples :
    'a1 vec3 list -> ('a1 vec3 * ('a1 vec3 * 'a1 vec3)) list **)

let ctriples v =
  combine v (combine (roll v) (roll (roll v)))

(** val sproj : 'a1 ops -> nat -> 'a1 vec3 list -> 'a1 **)

let sproj o p v =
  let c1 = next3 p in
  let c2 = next3 (next3 p) in
  osum o
    (map (fun t ->
      o.omul (vcomp c1 (fst (snd t)))
        (o.osub (vcomp c2 (snd (snd t))) (vcomp c2 (fst t)))) (ctriples v))

(** val sa_coef : 'a1 ops -> 'a1 vec3 -> 'a1 vec3 list -> 'a1 **)

let sa_coef o n v =
  let p = argmax3 o n in
  o.odiv (sproj o p v) (o.omul (o.ofromZ (Zpos (XO XH))) (vcomp p n))

(** val sgnT : 'a1 ops -> 'a1 -> 'a1 **)

let sgnT o a =
  if o.oltb a o.o0 then o.oopp o.o1 else if o.oltb o.o0 a then o.o1 else o.o0

type cx = RbaseSymbolsImpl.coq_R * RbaseSymbolsImpl.coq_R

(** val cadd : cx -> cx -> cx **)

let cadd a b =
  ((RbaseSymbolsImpl.coq_Rplus (fst a) (fst b)),
    (RbaseSymbolsImpl.coq_Rplus (snd a) (snd b)))

(** val cmul : cx -> cx -> cx **)

let cmul a b =
  ((rminus (RbaseSymbolsImpl.coq_Rmult (fst a) (fst b))
     (RbaseSymbolsImpl.coq_Rmult (snd a) (snd b))),
    (RbaseSymbolsImpl.coq_Rplus (RbaseSymbolsImpl.coq_Rmult (fst a) (snd b))
      (RbaseSymbolsImpl.coq_Rmult (snd a) (fst b))))

(** val cscale : RbaseSymbolsImpl.coq_R -> cx -> cx **)

let cscale k a =
  ((RbaseSymbolsImpl.coq_Rmult k (fst a)),
    (RbaseSymbolsImpl.coq_Rmult k (snd a)))

(** val cexp_i : RbaseSymbolsImpl.coq_R -> cx **)

let cexp_i t =
  ((cos t), (sin t))

(** val csum : cx list -> cx **)

let csum l =
  fold_right cadd ((iZR Z0), (iZR Z0)) l

(** val sincR : RbaseSymbolsImpl.coq_R -> RbaseSymbolsImpl.coq_R **)

let sincR x =
  if req_EM_T x (iZR Z0) then iZR (Zpos XH) else rdiv (sin x) x

(** val edge_term :
    RbaseSymbolsImpl.coq_R vec3 -> RbaseSymbolsImpl.coq_R vec3 ->
    RbaseSymbolsImpl.coq_R vec3 -> RbaseSymbolsImpl.coq_R vec3 -> cx **)

let edge_term n q0 a b =
  let e = vsub rops b a in
  let m = vscale rops (RinvImpl.coq_Rinv (iZR (Zpos (XO XH)))) (vadd rops a b)
  in
  let c =
    rdiv
      (RbaseSymbolsImpl.coq_Rmult (vdot rops (vcross rops e q0) n)
        (sincR (rdiv (vdot rops q0 e) (iZR (Zpos (XO XH))))))
      (vdot rops q0 q0)
  in
  cscale c
    (cmul ((iZR Z0), (iZR (Zneg XH)))
      (cexp_i (RbaseSymbolsImpl.coq_Ropp (vdot rops q0 m))))

(** val polygon_ff :
    RbaseSymbolsImpl.coq_R vec3 -> RbaseSymbolsImpl.coq_R vec3 ->
    RbaseSymbolsImpl.coq_R vec3 list -> cx **)

let polygon_ff n q0 v =
  csum (map (fun p -> edge_term n q0 (fst p) (snd p)) (cpairs v))

(** val qpar :
    RbaseSymbolsImpl.coq_R vec3 -> RbaseSymbolsImpl.coq_R vec3 ->
    RbaseSymbolsImpl.coq_R vec3 **)

let qpar n q0 =
  vsub rops q0 (vscale rops (vdot rops q0 n) n)

(** val polygon_ff_code :
    RbaseSymbolsImpl.coq_R vec3 -> RbaseSymbolsImpl.coq_R vec3 ->
    RbaseSymbolsImpl.coq_R vec3 list -> cx **)

let polygon_ff_code n q0 v =
  cscale (sgnT rops (sa_coef rops n v)) (polygon_ff n (qpar n q0) v)

(** val face_ff_code :
    RbaseSymbolsImpl.coq_R vec3 -> RbaseSymbolsImpl.coq_R vec3 ->
    RbaseSymbolsImpl.coq_R vec3 list -> cx **)

let face_ff_code n q0 v =
  let qn = vdot rops q0 n in
  let d = vdot rops n (hd (((iZR Z0), (iZR Z0)), (iZR Z0)) v) in
  cscale (rdiv qn (vdot rops q0 q0))
    (cmul ((iZR Z0), (iZR (Zpos XH)))
      (cmul (polygon_ff_code n q0 v)
        (cexp_i (RbaseSymbolsImpl.coq_Ropp (RbaseSymbolsImpl.coq_Rmult qn d)))))

(** val polyhedron_ff_code :
    RbaseSymbolsImpl.coq_R vec3 -> (RbaseSymbolsImpl.coq_R
    vec3 * RbaseSymbolsImpl.coq_R vec3 list) list -> cx **)

let polyhedron_ff_code q0 f =
  csum (map (fun f0 -> face_ff_code (fst f0) q0 (snd f0)) f)

(** val branch_horizontal :
    RbaseSymbolsImpl.coq_R -> RbaseSymbolsImpl.coq_R -> RbaseSymbolsImpl.coq_R **)

let branch_horizontal y0 th =
  sqrt
    (rdiv (RbaseSymbolsImpl.coq_Rmult y0 y0)
      (rminus (iZR (Zpos XH)) (RbaseSymbolsImpl.coq_Rmult (cos th) (cos th))))

(** val branch_vertical :
    RbaseSymbolsImpl.coq_R -> RbaseSymbolsImpl.coq_R -> RbaseSymbolsImpl.coq_R **)

let branch_vertical x1 th =
  sqrt
    (rdiv (RbaseSymbolsImpl.coq_Rmult x1 x1)
      (rminus (iZR (Zpos XH)) (RbaseSymbolsImpl.coq_Rmult (sin th) (sin th))))

(** val branch_generic :
    RbaseSymbolsImpl.coq_R -> RbaseSymbolsImpl.coq_R ->
    RbaseSymbolsImpl.coq_R -> RbaseSymbolsImpl.coq_R **)

let branch_generic m y0 th =
  let x = rdiv y0 (rminus (tan th) m) in
  let y = RbaseSymbolsImpl.coq_Rmult (tan th) x in
  sqrt
    (RbaseSymbolsImpl.coq_Rplus (RbaseSymbolsImpl.coq_Rmult x x)
      (RbaseSymbolsImpl.coq_Rmult y y))

(** val edge_distance :
    RbaseSymbolsImpl.coq_R -> RbaseSymbolsImpl.coq_R ->
    RbaseSymbolsImpl.coq_R -> RbaseSymbolsImpl.coq_R ->
    RbaseSymbolsImpl.coq_R -> RbaseSymbolsImpl.coq_R **)

let edge_distance x1 y1 x2 y2 th =
  if req_EM_T (rminus x1 x2) (iZR Z0)
  then branch_vertical x1 th
  else let m = rdiv (rminus y1 y2) (rminus x1 x2) in
       let y0 = rminus y1 (RbaseSymbolsImpl.coq_Rmult m x1) in
       if req_EM_T m (iZR Z0)
       then branch_horizontal y0 th
       else branch_generic m y0 th

(** val ffr_polygon :
    RbaseSymbolsImpl.coq_R vec3 -> RbaseSymbolsImpl.coq_R vec3 ->
    RbaseSymbolsImpl.coq_R vec3 list ->
    RbaseSymbolsImpl.coq_R * RbaseSymbolsImpl.coq_R **)

let ffr_polygon =
  polygon_ff_code

(** val ffr_polyhedron :
    RbaseSymbolsImpl.coq_R vec3 -> (RbaseSymbolsImpl.coq_R
    vec3 * RbaseSymbolsImpl.coq_R vec3 list) list ->
    RbaseSymbolsImpl.coq_R * RbaseSymbolsImpl.coq_R **)

let ffr_polyhedron =
  polyhedron_ff_code

(** val ffr_edge_distance :
    RbaseSymbolsImpl.coq_R -> RbaseSymbolsImpl.coq_R ->
    RbaseSymbolsImpl.coq_R -> RbaseSymbolsImpl.coq_R ->
    RbaseSymbolsImpl.coq_R -> RbaseSymbolsImpl.coq_R **)

let ffr_edge_distance =
  edge_distance
