(* Line-oriented driver for the extracted model (Z/positive are zarith integers).
   input  line:  <f>|<scalars>|<coords>|<idx groups separated by ';'>
   rationals are  [-]HEXNUM/HEXDEN ; indices decimal.
   output line:  OK r1 r2 ...   |   NONE *)
module ZZ = Z
open Model

let z_of_hex (s : string) : ZZ.t =
  let neg = String.length s > 0 && s.[0] = '-' in
  let body = if neg then String.sub s 1 (String.length s - 1) else s in
  let v = ZZ.of_string_base 16 body in
  if neg then ZZ.neg v else v
let pos_of_hex (s : string) : ZZ.t =
  let v = ZZ.of_string_base 16 s in
  if ZZ.sign v <= 0 then failwith "denominator must be positive" else v
let hex_of_z (z : ZZ.t) : string =
  if ZZ.sign z < 0 then "-" ^ ZZ.format "%x" (ZZ.neg z) else ZZ.format "%x" z
let hex_of_pos = hex_of_z

let q_of_string (s : string) : q =
  match String.index_opt s '/' with
  | None -> { qnum = z_of_hex s; qden = ZZ.one }
  | Some i ->
    { qnum = z_of_hex (String.sub s 0 i);
      qden = pos_of_hex (String.sub s (i + 1) (String.length s - i - 1)) }

let string_of_q (x : q) : string = hex_of_z x.qnum ^ "/" ^ hex_of_pos x.qden

let rec nat_of_int (n : int) : nat = if n <= 0 then O else S (nat_of_int (n - 1))

let words (s : string) : string list =
  List.filter (fun w -> w <> "") (String.split_on_char ' ' s)

let () =
  try
    while true do
      let line = input_line stdin in
      match String.split_on_char '|' line with
      | [f; sc; qs; idx] ->
        let f = nat_of_int (int_of_string (String.trim f)) in
        let sc = List.map q_of_string (words sc) in
        let qs = List.map q_of_string (words qs) in
        let groups = if String.trim idx = "" then [] else String.split_on_char ';' idx in
        let idx = List.map (fun g -> List.map (fun w -> nat_of_int (int_of_string w)) (words g)) groups in
        (match dispatch f sc qs idx with
         | None -> print_string "NONE\n"
         | Some l ->
           print_string "OK";
           List.iter (fun x -> print_char ' '; print_string (string_of_q x)) l;
           print_char '\n')
      | _ -> print_string "BADLINE\n"
    done
  with End_of_file -> ()
