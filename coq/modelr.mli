
type __ = Obj.t

type nat =
| O
| S of nat

val fst : ('a1 * 'a2) -> 'a1

val snd : ('a1 * 'a2) -> 'a2

val app : 'a1 list -> 'a1 list -> 'a1 list

type comparison =
| Eq
| Lt
| Gt

val compOpp : comparison -> comparison

type 'a sig0 = 'a
  (* singleton inductive, whose constructor was exist *)



val pred : nat -> nat

val add : nat -> nat -> nat

val mul : nat -> nat -> nat

type positive =
| XI of positive
| XO of positive
| XH

type z =
| Z0
| Zpos of positive
| Zneg of positive

module Nat :
 sig
  val add : nat -> nat -> nat

  val mul : nat -> nat -> nat

  val pow : nat -> nat -> nat
 end

module Pos :
 sig
  type mask =
  | IsNul
  | IsPos of positive
  | IsNeg
 end

module Coq_Pos :
 sig
  val succ : positive -> positive

  val add : positive -> positive -> positive

  val add_carry : positive -> positive -> positive

  val pred_double : positive -> positive

  type mask = Pos.mask =
  | IsNul
  | IsPos of positive
  | IsNeg

  val succ_double_mask : mask -> mask

  val double_mask : mask -> mask

  val double_pred_mask : positive -> mask

  val sub_mask : positive -> positive -> mask

  val sub_mask_carry : positive -> positive -> mask

  val sub : positive -> positive -> positive

  val mul : positive -> positive -> positive

  val iter : ('a1 -> 'a1) -> 'a1 -> positive -> 'a1

  val pow : positive -> positive -> positive

  val size_nat : positive -> nat

  val compare_cont : comparison -> positive -> positive -> comparison

  val compare : positive -> positive -> comparison

  val ggcdn : nat -> positive -> positive -> positive * (positive * positive)

  val ggcd : positive -> positive -> positive * (positive * positive)

  val iter_op : ('a1 -> 'a1 -> 'a1) -> positive -> 'a1 -> 'a1

  val to_nat : positive -> nat

  val of_nat : nat -> positive

  val of_succ_nat : nat -> positive
 end

module Z :
 sig
  val double : z -> z

  val succ_double : z -> z

  val pred_double : z -> z

  val pos_sub : positive -> positive -> z

  val add : z -> z -> z

  val opp : z -> z

  val sub : z -> z -> z

  val mul : z -> z -> z

  val compare : z -> z -> comparison

  val sgn : z -> z

  val leb : z -> z -> bool

  val ltb : z -> z -> bool

  val max : z -> z -> z

  val min : z -> z -> z

  val abs : z -> z

  val to_nat : z -> nat

  val of_nat : nat -> z

  val to_pos : z -> positive

  val pos_div_eucl : positive -> z -> z * z

  val div_eucl : z -> z -> z * z

  val div : z -> z -> z

  val ggcd : z -> z -> z * (z * z)
 end

val z_lt_dec : z -> z -> bool

val z_lt_ge_dec : z -> z -> bool

val z_lt_le_dec : z -> z -> bool

val pow_pos : ('a1 -> 'a1 -> 'a1) -> 'a1 -> positive -> 'a1

val hd : 'a1 -> 'a1 list -> 'a1

val map : ('a1 -> 'a2) -> 'a1 list -> 'a2 list

val fold_right : ('a2 -> 'a1 -> 'a1) -> 'a1 -> 'a2 list -> 'a1

val combine : 'a1 list -> 'a2 list -> ('a1 * 'a2) list

type q = { qnum : z; qden : positive }

val qplus : q -> q -> q

val qmult : q -> q -> q

val qopp : q -> q

val qminus : q -> q -> q

val qinv : q -> q

val qlt_le_dec : q -> q -> bool

val qarchimedean : q -> positive

val qpower_positive : q -> positive -> q

val qpower : q -> z -> q

val qabs : q -> q

val pos_log2floor_plus1 : positive -> positive

val qbound_lt_ZExp2 : q -> z

type cReal = { seq : (z -> q); scale : z }

val sig_forall_dec : (nat -> bool) -> nat option

val lowerCutBelow : (q -> bool) -> q

val lowerCutAbove : (q -> bool) -> q

type dReal = (q -> bool)

val dRealQlim_rec : (q -> bool) -> nat -> nat -> q

val dRealAbstr : cReal -> dReal

val dRealQlim : dReal -> nat -> q

val dRealQlimExp2 : dReal -> nat -> q

val cReal_of_DReal_seq : dReal -> z -> q

val cReal_of_DReal_scale : dReal -> z

val dRealRepr : dReal -> cReal

module type RbaseSymbolsSig =
 sig
  type coq_R

  val coq_Rabst : cReal -> coq_R

  val coq_Rrepr : coq_R -> cReal

  val coq_R0 : coq_R

  val coq_R1 : coq_R

  val coq_Rplus : coq_R -> coq_R -> coq_R

  val coq_Rmult : coq_R -> coq_R -> coq_R

  val coq_Ropp : coq_R -> coq_R
 end

module RbaseSymbolsImpl :
 RbaseSymbolsSig

val rminus :
  RbaseSymbolsImpl.coq_R -> RbaseSymbolsImpl.coq_R -> RbaseSymbolsImpl.coq_R

val iPR_2 : positive -> RbaseSymbolsImpl.coq_R

val iPR : positive -> RbaseSymbolsImpl.coq_R

val iZR : z -> RbaseSymbolsImpl.coq_R

module type RinvSig =
 sig
  val coq_Rinv : RbaseSymbolsImpl.coq_R -> RbaseSymbolsImpl.coq_R
 end

module RinvImpl :
 RinvSig

val rdiv :
  RbaseSymbolsImpl.coq_R -> RbaseSymbolsImpl.coq_R -> RbaseSymbolsImpl.coq_R

val rlt_dec : RbaseSymbolsImpl.coq_R -> RbaseSymbolsImpl.coq_R -> bool

val rle_dec : RbaseSymbolsImpl.coq_R -> RbaseSymbolsImpl.coq_R -> bool

val req_EM_T : RbaseSymbolsImpl.coq_R -> RbaseSymbolsImpl.coq_R -> bool

val cos : RbaseSymbolsImpl.coq_R -> RbaseSymbolsImpl.coq_R

val sin : RbaseSymbolsImpl.coq_R -> RbaseSymbolsImpl.coq_R

val tan : RbaseSymbolsImpl.coq_R -> RbaseSymbolsImpl.coq_R

val sqrt : RbaseSymbolsImpl.coq_R -> RbaseSymbolsImpl.coq_R

type 't ops = { o0 : 't; o1 : 't; oadd : ('t -> 't -> 't);
                omul : ('t -> 't -> 't); osub : ('t -> 't -> 't);
                oopp : ('t -> 't); odiv : ('t -> 't -> 't);
                oleb : ('t -> 't -> bool); oltb : ('t -> 't -> bool);
                oeqb : ('t -> 't -> bool); ofromZ : (z -> 't) }

val rleb : RbaseSymbolsImpl.coq_R -> RbaseSymbolsImpl.coq_R -> bool

val rltb : RbaseSymbolsImpl.coq_R -> RbaseSymbolsImpl.coq_R -> bool

val reqb : RbaseSymbolsImpl.coq_R -> RbaseSymbolsImpl.coq_R -> bool

val rops : RbaseSymbolsImpl.coq_R ops

val osum : 'a1 ops -> 'a1 list -> 'a1

val oabs : 'a1 ops -> 'a1 -> 'a1

type 't vec3 = ('t * 't) * 't

val vx : 'a1 vec3 -> 'a1

val vy : 'a1 vec3 -> 'a1

val vz : 'a1 vec3 -> 'a1

val vadd : 'a1 ops -> 'a1 vec3 -> 'a1 vec3 -> 'a1 vec3

val vsub : 'a1 ops -> 'a1 vec3 -> 'a1 vec3 -> 'a1 vec3

val vscale : 'a1 ops -> 'a1 -> 'a1 vec3 -> 'a1 vec3

val vdot : 'a1 ops -> 'a1 vec3 -> 'a1 vec3 -> 'a1

val vcross : 'a1 ops -> 'a1 vec3 -> 'a1 vec3 -> 'a1 vec3

val vcomp : nat -> 'a1 vec3 -> 'a1

val roll : 'a1 list -> 'a1 list

val cpairs : 'a1 list -> ('a1 * 'a1) list

val next3 : nat -> nat

val argmax3 : 'a1 ops -> 'a1 vec3 -> nat

val ctriples : 'a1 vec3 list -> ('a1 vec3 * ('a1 vec3 * 'a1 vec3)) list

val sproj : 'a1 ops -> nat -> 'a1 vec3 list -> 'a1

val sa_coef : 'a1 ops -> 'a1 vec3 -> 'a1 vec3 list -> 'a1

val sgnT : 'a1 ops -> 'a1 -> 'a1

type cx = RbaseSymbolsImpl.coq_R * RbaseSymbolsImpl.coq_R

val cadd : cx -> cx -> cx

val cmul : cx -> cx -> cx

val cscale : RbaseSymbolsImpl.coq_R -> cx -> cx

val cexp_i : RbaseSymbolsImpl.coq_R -> cx

val csum : cx list -> cx

val sincR : RbaseSymbolsImpl.coq_R -> RbaseSymbolsImpl.coq_R

val edge_term :
  RbaseSymbolsImpl.coq_R vec3 -> RbaseSymbolsImpl.coq_R vec3 ->
  RbaseSymbolsImpl.coq_R vec3 -> RbaseSymbolsImpl.coq_R vec3 -> cx

val polygon_ff :
  RbaseSymbolsImpl.coq_R vec3 -> RbaseSymbolsImpl.coq_R vec3 ->
  RbaseSymbolsImpl.coq_R vec3 list -> cx

val qpar :
  RbaseSymbolsImpl.coq_R vec3 -> RbaseSymbolsImpl.coq_R vec3 ->
  RbaseSymbolsImpl.coq_R vec3

val polygon_ff_code :
  RbaseSymbolsImpl.coq_R vec3 -> RbaseSymbolsImpl.coq_R vec3 ->
  RbaseSymbolsImpl.coq_R vec3 list -> cx

val face_ff_code :
  RbaseSymbolsImpl.coq_R vec3 -> RbaseSymbolsImpl.coq_R vec3 ->
  RbaseSymbolsImpl.coq_R vec3 list -> cx

val polyhedron_ff_code :
  RbaseSymbolsImpl.coq_R vec3 -> (RbaseSymbolsImpl.coq_R
  vec3 * RbaseSymbolsImpl.coq_R vec3 list) list -> cx

val branch_horizontal :
  RbaseSymbolsImpl.coq_R -> RbaseSymbolsImpl.coq_R -> RbaseSymbolsImpl.coq_R

val branch_vertical :
  RbaseSymbolsImpl.coq_R -> RbaseSymbolsImpl.coq_R -> RbaseSymbolsImpl.coq_R

val branch_generic :
  RbaseSymbolsImpl.coq_R -> RbaseSymbolsImpl.coq_R -> RbaseSymbolsImpl.coq_R
  -> RbaseSymbolsImpl.coq_R

val edge_distance :
  RbaseSymbolsImpl.coq_R -> RbaseSymbolsImpl.coq_R -> RbaseSymbolsImpl.coq_R
  -> RbaseSymbolsImpl.coq_R -> RbaseSymbolsImpl.coq_R ->
  RbaseSymbolsImpl.coq_R

val ffr_polygon :
  RbaseSymbolsImpl.coq_R vec3 -> RbaseSymbolsImpl.coq_R vec3 ->
  RbaseSymbolsImpl.coq_R vec3 list ->
  RbaseSymbolsImpl.coq_R * RbaseSymbolsImpl.coq_R

val ffr_polyhedron :
  RbaseSymbolsImpl.coq_R vec3 -> (RbaseSymbolsImpl.coq_R
  vec3 * RbaseSymbolsImpl.coq_R vec3 list) list ->
  RbaseSymbolsImpl.coq_R * RbaseSymbolsImpl.coq_R

val ffr_edge_distance :
  RbaseSymbolsImpl.coq_R -> RbaseSymbolsImpl.coq_R -> RbaseSymbolsImpl.coq_R
  -> RbaseSymbolsImpl.coq_R -> RbaseSymbolsImpl.coq_R ->
  RbaseSymbolsImpl.coq_R
