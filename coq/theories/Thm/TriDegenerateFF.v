(* C12: the polygon method for a triangle on any plane when the (projected) wave vector is perpendicular to one edge - the cases the
   generic theorem excludes.  Together with it: for EVERY wave vector whose projection into the plane is not zero, the edge sum is
   s * (Fourier integral of the triangle). *)
From Coq Require Import Reals List Lra.
From mathcomp Require Import ssreflect.
From Coquelicot Require Import Coquelicot.
Require Import Cox.Num.Ops Cox.Geo.Vec Cox.Model.FormFactor Cox.Thm.FormFactorThm Cox.Thm.TriangleFF Cox.Thm.TetraInt Cox.Thm.FaceFF.
Require Import Cox.Thm.TriDegenerate.
Import ListNotations.
Local Open Scope R_scope.

Lemma edge_term_degenerate n q a b :
  vdot Rops q (vsub Rops b a) = 0 ->
  edge_term n q a b
  = cscale (vdot Rops (vcross Rops (vsub Rops b a) q) n / vdot Rops q q) (- sin (vdot Rops q a), - cos (vdot Rops q a)).
Proof.
  move=> Hd.
  have Hm : vdot Rops q (vscale Rops (/ 2) (vadd Rops a b)) = vdot Rops q a + vdot Rops q (vsub Rops b a) / 2.
  { vsimp q; vsimp a; vsimp b. unf. field. }
  rewrite /edge_term. cbv zeta. rewrite Hm Hd.
  have -> : 0 / 2 = 0 by field. rewrite Rplus_0_r.
  rewrite /sincR. case: (Req_EM_T 0 0) => [_|H0]; last by exfalso; apply H0.
  rewrite /cscale /cmul /cexp_i. cbn [fst snd]. rewrite cos_neg sin_neg.
  apply cx_eq; cbn [fst snd]; rewrite /Rdiv; ring.
Qed.

Section Degenerate.
Variables (n q a b c : V3) (s : R).
Hypothesis Hn : vdot Rops n n = 1.
Hypothesis Hs : s <> 0.
Hypothesis HN : vcross Rops (vsub Rops b a) (vsub Rops c a) = vscale Rops s n.
Let p := qpar n q.
Let A := vdot Rops p a.
Let be := vdot Rops p (vsub Rops b a).
Let ga := vdot Rops p (vsub Rops c a).
Let e1 := vsub Rops b a.
Let e2 := vsub Rops c a.
Let k1 := vdot Rops (vcross Rops e1 p) n.
Let k2 := vdot Rops (vcross Rops e2 p) n.
Let Q := vdot Rops p p.

Lemma facts :
  vdot Rops p (vsub Rops c b) = ga - be /\ vdot Rops p (vsub Rops a c) = - ga
  /\ vdot Rops p b = A + be /\ vdot Rops p c = A + ga
  /\ vdot Rops (vcross Rops (vsub Rops c b) p) n = k2 - k1
  /\ vdot Rops (vcross Rops (vsub Rops a c) p) n = - k2
  /\ s * Q = k1 * ga - k2 * be.
Proof.
  have Ne1 := n_e1 n a b c s Hs HN. have Ne2 := n_e2 n a b c s Hs HN.
  have Eb : be = vdot Rops q e1 by rewrite /be /p; apply (p_e n q _ Ne1).
  have Eg : ga = vdot Rops q e2 by rewrite /ga /p; apply (p_e n q _ Ne2).
  repeat split.
  - rewrite /ga /be !dot_sub_r. ring.
  - rewrite /ga !dot_sub_r. ring.
  - rewrite /A /be dot_sub_r. ring.
  - rewrite /A /ga dot_sub_r. ring.
  - rewrite /k1 /k2 /e1 /e2. apply cross_sub_dot.
  - rewrite /k2 /e2. vsimp a; vsimp c; vsimp n. move: p => [[p1 p2] p3]. unf. ring.
  - have H := sQ n q a b c s Hn Hs HN. rewrite Eb Eg. exact H.
Qed.

Lemma Q_nonzero : be <> 0 \/ ga <> 0 -> Q <> 0.
Proof.
  move=> H H0. case: H => H; apply H; [rewrite /be | rewrite /ga]; exact: qq_zero.
Qed.

(* the three degenerate directions *)
Lemma tri_polygon_be0 : be = 0 -> ga <> 0 ->
  polygon_ff n p [a; b; c]
  = cscale s ((cos A - cos (A + ga)) / ga ^ 2 - sin A / ga, - ((sin A - sin (A + ga)) / ga ^ 2 + cos A / ga)).
Proof.
  move=> Hb Hg. have [Pbc [Pca [Xb [Xc [Kbc [Kca HsQ]]]]]] := facts.
  have HQ : Q <> 0 by apply Q_nonzero; right.
  rewrite /polygon_ff /cpairs /roll. cbn [app combine map csum fold_right fst snd].
  rewrite (edge_term_degenerate _ p a b); last by rewrite -/be Hb.
  rewrite (edge_term_closed _ p b c); last by rewrite Pbc Hb; lra.
  rewrite (edge_term_closed _ p c a); last by rewrite Pca; lra.
  rewrite Pbc Pca Xb Xc Kbc Kca -/A -/e1 -/k1 -/Q. rewrite Hb in HsQ *. rewrite Rplus_0_r.
  have -> : s = k1 * ga / Q by (have : s * Q = k1 * ga by rewrite HsQ; ring); move=> <-; field.
  rewrite /cscale /cadd. cbn [fst snd].
  apply cx_eq; cbn [fst snd]; field; repeat split; try assumption; lra.
Qed.

Lemma tri_polygon_ga0 : ga = 0 -> be <> 0 ->
  polygon_ff n p [a; b; c]
  = cscale s ((cos A - cos (A + be)) / be ^ 2 - sin A / be, - ((sin A - sin (A + be)) / be ^ 2 + cos A / be)).
Proof.
  move=> Hg Hb. have [Pbc [Pca [Xb [Xc [Kbc [Kca HsQ]]]]]] := facts.
  have HQ : Q <> 0 by apply Q_nonzero; left.
  rewrite /polygon_ff /cpairs /roll. cbn [app combine map csum fold_right fst snd].
  rewrite (edge_term_closed _ p a b); last by rewrite -/be.
  rewrite (edge_term_closed _ p b c); last by rewrite Pbc Hg; lra.
  rewrite (edge_term_degenerate _ p c a); last by rewrite Pca Hg; lra.
  rewrite Pbc Xb Xc Kbc Kca -/A -/be -/e1 -/k1 -/Q. rewrite Hg in HsQ *. rewrite Rplus_0_r.
  have -> : s = - k2 * be / Q by (have : s * Q = - k2 * be by rewrite HsQ; ring); move=> <-; field.
  rewrite /cscale /cadd. cbn [fst snd].
  apply cx_eq; cbn [fst snd]; field; repeat split; try assumption; lra.
Qed.

Lemma tri_polygon_eq : be = ga -> ga <> 0 ->
  polygon_ff n p [a; b; c]
  = cscale s (sin (A + ga) / ga + (cos (A + ga) - cos A) / ga ^ 2, - (- cos (A + ga) / ga + (sin (A + ga) - sin A) / ga ^ 2)).
Proof.
  move=> Hbg Hg. have [Pbc [Pca [Xb [Xc [Kbc [Kca HsQ]]]]]] := facts.
  have HQ : Q <> 0 by apply Q_nonzero; right.
  rewrite /polygon_ff /cpairs /roll. cbn [app combine map csum fold_right fst snd].
  rewrite (edge_term_closed _ p a b); last by rewrite -/be Hbg.
  rewrite (edge_term_degenerate _ p b c); last by rewrite Pbc Hbg; lra.
  rewrite (edge_term_closed _ p c a); last by rewrite Pca; lra.
  rewrite Pca Xb Xc Kbc Kca -/A -/be -/e1 -/k1 -/Q. rewrite Hbg in HsQ *.
  have -> : s = (k1 - k2) * ga / Q by (have : s * Q = (k1 - k2) * ga by rewrite HsQ; ring); move=> <-; field.
  rewrite /cscale /cadd. cbn [fst snd].
  apply cx_eq; cbn [fst snd]; field; repeat split; try assumption; lra.
Qed.

(* every wave vector whose projection into the plane is not zero *)
Theorem triangle_any_plane_all_directions : Q <> 0 ->
  polygon_ff n p [a; b; c]
  = cscale s (RInt (fun u => RInt (fun v => cos (A + u * be + v * ga)) 0 (1 - u)) 0 1,
              - RInt (fun u => RInt (fun v => sin (A + u * be + v * ga)) 0 (1 - u)) 0 1).
Proof.
  move=> HQ.
  case: (Req_dec be 0) => Hb; case: (Req_dec ga 0) => Hg.
  - (* both zero: p is orthogonal to e1, e2 and n, hence zero *)
    exfalso. have [_ [_ [_ [_ [_ [_ HsQ]]]]]] := facts. rewrite Hb Hg in HsQ.
    have : s * Q = 0 by rewrite HsQ; ring. move=> H0. case: (Rmult_integral _ _ H0) => //.
  - rewrite tri_polygon_be0 // Hb (tri_cos_be0 A ga Hg) (tri_sin_be0 A ga Hg). reflexivity.
  - rewrite tri_polygon_ga0 // Hg (tri_cos_ga0 A be Hb) (tri_sin_ga0 A be Hb). reflexivity.
  - case: (Req_dec be ga) => Hbg.
    + rewrite tri_polygon_eq // Hbg (tri_cos_eq A ga Hg) (tri_sin_eq A ga Hg). reflexivity.
    + exact (triangle_any_plane_is_fourier n q a b c s Hn Hs HN Hb Hg Hbg).
Qed.
End Degenerate.
