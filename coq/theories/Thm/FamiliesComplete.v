(* C17: completeness of the exact vertex enumeration (over R): every feasible point at which three of the planes with independent
   normals are tight IS returned - together with soundness (FamiliesThm) the enumeration is exactly the vertex set of the polytope. *)
From Coq Require Import Reals List Bool Lra Psatz Arith Lia.
Require Import Cox.Num.Ops Cox.Geo.Vec Cox.Model.Families Cox.Thm.FamiliesThm.
Import ListNotations.
Local Open Scope R_scope.

Lemma tails_nth {A} (l : list A) i a : nth_error l i = Some a -> In (a, skipn (S i) l) (tails l).
Proof.
  revert i. induction l as [|x l IH]; intros i H; [destruct i; discriminate|].
  destruct i as [|i]; cbn in H.
  - inversion H; subst. left. reflexivity.
  - right. apply (IH i H).
Qed.

Lemma nth_error_skipn {A} (l : list A) k i : nth_error (skipn k l) i = nth_error l (k + i).
Proof. revert l. induction k as [|k IH]; intros l; [reflexivity|]. destruct l as [|x l]; [destruct i; reflexivity|]. apply IH. Qed.

Lemma veq3_R a b : veq3 Rops a b = true <-> a = b.
Proof.
  destruct a as [[a0 a1] a2], b as [[b0 b1] b2]. unfold veq3, vx, vy, vz. cbn [fst snd oeqb Rops].
  rewrite !andb_true_iff, !Reqb_true. split; [intros [[-> ->] ->]; reflexivity | intros H; inversion H; auto].
Qed.

Lemma dedup3_complete (l : list (vec3 R)) x : In x l -> In x (dedup3 Rops l).
Proof.
  induction l as [|a l IH]; [intros []|]. intros [->|H]; cbn [dedup3].
  - destruct (existsb (veq3 Rops x) l) eqn:E; [|left; reflexivity].
    apply IH. apply existsb_exists in E. destruct E as [y [Hy Ey]]. apply veq3_R in Ey. subst y. exact Hy.
  - destruct (existsb (veq3 Rops a) l); [apply IH; exact H | right; apply IH; exact H].
Qed.

(* Cramer's rule is the unique solution *)
Lemma solve3_unique (r0 r1 r2 x : vec3 R) :
  vdet Rops (col3 0 r0 r1 r2) (col3 1 r0 r1 r2) (col3 2 r0 r1 r2) <> 0 ->
  solve3 Rops r0 r1 r2 (vdot Rops r0 x, vdot Rops r1 x, vdot Rops r2 x) = Some x.
Proof.
  intros Hd. unfold solve3. cbn [oeqb o0 Rops].
  destruct (Reqb _ 0) eqn:E; [apply Reqb_true in E; contradiction|].
  destruct r0 as [[a0 b0] c0], r1 as [[a1 b1] c1], r2 as [[a2 b2] c2], x as [[x0 x1] x2].
  unfold col3, vcomp, vdet, vdot, vcross, vx, vy, vz in *; cbn [fst snd oadd omul osub odiv Rops] in *.
  apply f_equal. apply (f_equal2 (@pair _ _)); [apply (f_equal2 (@pair _ _))|]; field; exact Hd.
Qed.

Theorem exact_vertices_complete planes dists x i j k p0 p1 p2 :
  (i < j)%nat -> (j < k)%nat ->
  nth_error planes i = Some p0 -> nth_error planes j = Some p1 -> nth_error planes k = Some p2 ->
  vdot Rops (fst p0) x = dist_of dists (snd p0) ->
  vdot Rops (fst p1) x = dist_of dists (snd p1) ->
  vdot Rops (fst p2) x = dist_of dists (snd p2) ->
  vdet Rops (col3 0 (fst p0) (fst p1) (fst p2)) (col3 1 (fst p0) (fst p1) (fst p2)) (col3 2 (fst p0) (fst p1) (fst p2)) <> 0 ->
  feasible Rops planes dists x = true ->
  In x (exact_vertices Rops planes dists).
Proof.
  intros Hij Hjk H0 H1 H2 E0 E1 E2 Hd Hf. unfold exact_vertices. apply dedup3_complete.
  apply in_flat_map. exists (p0, skipn (S i) planes). split; [apply tails_nth; exact H0|]. cbn [fst snd].
  apply in_flat_map. exists (p1, skipn (S (j - S i)) (skipn (S i) planes)). split.
  { apply tails_nth. rewrite nth_error_skipn. replace (S i + (j - S i))%nat with j by lia. exact H1. }
  cbn [fst snd].
  apply in_flat_map. exists (p2, skipn (S (k - S j)) (skipn (S (j - S i)) (skipn (S i) planes))). split.
  { apply tails_nth. rewrite !nth_error_skipn. replace (S i + (S (j - S i) + (k - S j)))%nat with k by lia. exact H2. }
  cbn [fst snd]. rewrite <- E0, <- E1, <- E2, (solve3_unique _ _ _ x Hd), Hf. left. reflexivity.
Qed.
