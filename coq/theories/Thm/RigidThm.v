(* Covariance of the exact measures under linear maps / rotations and under re-ordering (C09). *)
From Coq Require Import Reals List Permutation Lra Lia.
Require Import Cox.Num.Ops Cox.Geo.Vec Cox.Geo.Sums Cox.Model.Mesh Cox.Thm.MeshThm.
Import ListNotations.
Local Open Scope R_scope.

Notation V3 := (vec3 R).
Definition mat := (V3 * V3 * V3)%type.                  (* rows *)
Definition mrow (k : nat) (M : mat) : V3 := match k with 0%nat => fst (fst M) | 1%nat => snd (fst M) | _ => snd M end.
Definition mapply (M : mat) (v : V3) : V3 := (vdot Rops (mrow 0 M) v, vdot Rops (mrow 1 M) v, vdot Rops (mrow 2 M) v).
Definition mdet (M : mat) : R := vdet Rops (mrow 0 M) (mrow 1 M) (mrow 2 M).
Definition tmap (M : mat) (t : @tri R) : @tri R := (mapply M (ta t), mapply M (tb t), mapply M (tc t)).

Ltac dmat M := destruct M as [[[[m00 m01] m02] [[m10 m11] m12]] [[m20 m21] m22]].
Ltac msimp := unfold tmap, mapply, mdet, mrow in *; rsimp.

(* a linear map multiplies every signed tetrahedron volume by its determinant ... *)
Lemma m0_linear M t : m0 Rops (tmap M t) = mdet M * m0 Rops t.
Proof. dmat M. dtri t. msimp. field. Qed.
(* ... first moments transform as vectors, second moments as tensors *)
Lemma m1_linear M i t : (i < 3)%nat ->
  m1 Rops i (tmap M t) = mdet M * (vx (mrow i M) * m1 Rops 0 t + vy (mrow i M) * m1 Rops 1 t + vz (mrow i M) * m1 Rops 2 t).
Proof. intros Hi. dmat M. dtri t. destruct i as [|[|[|i]]]; try lia; msimp; field. Qed.

Theorem cone0_linear M TT : cone0 Rops (map (tmap M) TT) = mdet M * cone0 Rops TT.
Proof.
  unfold cone0. rewrite !osum_Rsum, map_map.
  rewrite (Rsum_map_ext _ (fun t => mdet M * m0 Rops t)); [apply Rsum_map_scale | intros; apply m0_linear].
Qed.

(* rotations (det = 1) leave the volume unchanged; reflections (det = -1) flip the signed volume: this is why
   an improper eigenvector matrix in diagonalize_inertia mirrors the shape *)
Corollary cone0_rotation M TT : mdet M = 1 -> cone0 Rops (map (tmap M) TT) = cone0 Rops TT.
Proof. intros H. rewrite cone0_linear, H. ring. Qed.
Corollary cone0_reflection M TT : mdet M = -1 -> cone0 Rops (map (tmap M) TT) = - cone0 Rops TT.
Proof. intros H. rewrite cone0_linear, H. ring. Qed.

Theorem cone1_linear M i TT : (i < 3)%nat ->
  cone1 Rops i (map (tmap M) TT)
  = mdet M * (vx (mrow i M) * cone1 Rops 0 TT + vy (mrow i M) * cone1 Rops 1 TT + vz (mrow i M) * cone1 Rops 2 TT).
Proof.
  intros Hi. unfold cone1. rewrite !osum_Rsum, map_map.
  rewrite (Rsum_map_ext _ (fun t => mdet M * (vx (mrow i M) * m1 Rops 0 t + vy (mrow i M) * m1 Rops 1 t + vz (mrow i M) * m1 Rops 2 t)));
    [|intros; apply m1_linear; exact Hi].
  rewrite Rsum_map_scale, !Rsum_map_add, !Rsum_map_scale. reflexivity.
Qed.

(* the centroid moves with the shape: c(M x) = M c(x) for every invertible linear map *)
Theorem centroid_linear M i TT : (i < 3)%nat -> mdet M <> 0 -> cone0 Rops TT <> 0 ->
  spec_centroid Rops i (map (tmap M) TT)
  = vx (mrow i M) * spec_centroid Rops 0 TT + vy (mrow i M) * spec_centroid Rops 1 TT + vz (mrow i M) * spec_centroid Rops 2 TT.
Proof.
  intros Hi Hd Hv. unfold spec_centroid. rewrite (cone1_linear M i TT Hi), cone0_linear.
  cbn [odiv Rops]. field. split; assumption.
Qed.

(* the order in which the triangles are listed is irrelevant *)
Theorem cone_perm TT TT' : Permutation TT TT' ->
  cone0 Rops TT = cone0 Rops TT' /\ (forall i, cone1 Rops i TT = cone1 Rops i TT') /\ (forall i j, cone2 Rops i j TT = cone2 Rops i j TT').
Proof.
  intros H. unfold cone0, cone1, cone2. repeat split; intros; rewrite !osum_Rsum; apply Rsum_map_perm, H.
Qed.

(* cyclically re-listing a triangle's vertices changes nothing *)
Lemma m_cyclic a b c :
  m0 Rops (a, b, c) = m0 Rops (b, c, a)
  /\ (forall i, m1 Rops i (a, b, c) = m1 Rops i (b, c, a))
  /\ (forall i j, m2 Rops i j (a, b, c) = m2 Rops i j (b, c, a)).
Proof.
  dvec a; dvec b; dvec c. repeat split.
  - rsimp; field.
  - intros i. di i; rsimp; field.
  - intros i j. dij i j; rsimp; field.
Qed.
