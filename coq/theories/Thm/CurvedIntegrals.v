(* Level 0 for the curved shapes (C10): the closed forms equal the defining integrals,
   written in the natural (polar / spherical) parametrisation with its Jacobian:
     ellipse:   x = cx + a rho cos th, y = cy + b rho sin th, dA = a b rho drho dth
     ellipsoid: x = a r sin ph cos th, ..., dV = a b c r^2 sin ph dr dph dth
   (the change-of-variables theorem itself is not proved). Coquelicot RInt. *)
From Coq Require Import Reals Lra Psatz ssreflect.
From Coquelicot Require Import Coquelicot.
Require Import Cox.Num.Ops Cox.Model.Curved.
Local Open Scope R_scope.

Ltac by_antiderivative F fin1 fin2 :=
  apply is_RInt_unique; evar_last;
  [ apply (is_RInt_derive F);
    [ let t := fresh "t" in move=> t _; auto_derive; trivial; fin1
    | let t := fresh "t" in move=> t _; apply: ex_derive_continuous; auto_derive; trivial ]
  | rewrite /minus /plus /opp /=; fin2 ].

Lemma cos2_as_sin2 t : 1 * cos t * cos t = 1 - sin t * sin t.
Proof. pose proof (sin2_cos2 t) as H0; unfold Rsqr in H0; lra. Qed.

(* ---- area ---- *)
Lemma inner_area a b : RInt (fun rho => a * b * rho) 0 1 = a * b / 2.
Proof. by_antiderivative (fun rho => a * b * rho ^ 2 / 2) ltac:(field) ltac:(field). Qed.

Theorem ellipse_area_integral a b :
  RInt (fun th => RInt (fun rho => a * b * rho) 0 1) 0 (2 * PI) = PI * ell_area Rops a b.
Proof.
  rewrite (RInt_ext _ (fun _ => a * b / 2)); [|intros th _; apply inner_area].
  by_antiderivative (fun th => a * b / 2 * th) ltac:(field) ltac:(unfold ell_area; cbn [omul Rops]; field).
Qed.

(* ---- I_x = int y^2 dA ---- *)
Lemma inner_Ix a b cy s :
  RInt (fun rho => (cy + b * rho * s) ^ 2 * (a * b * rho)) 0 1
  = a * b * (cy ^ 2 / 2 + 2 * cy * b * s / 3 + b ^ 2 * s ^ 2 / 4).
Proof.
  by_antiderivative (fun rho => a * b * (cy ^ 2 * rho ^ 2 / 2 + 2 * cy * b * s * rho ^ 3 / 3 + b ^ 2 * s ^ 2 * rho ^ 4 / 4))
    ltac:(field) ltac:(field).
Qed.

Theorem ellipse_Ix_integral a b cx cy :
  RInt (fun th => RInt (fun rho => (cy + b * rho * sin th) ^ 2 * (a * b * rho)) 0 1) 0 (2 * PI)
  = PI * fst (fst (ell_moments Rops false a b cx cy)).
Proof.
  rewrite (RInt_ext _ (fun th => a * b * (cy ^ 2 / 2 + 2 * cy * b * sin th / 3 + b ^ 2 * (sin th) ^ 2 / 4)));
    [|intros th _; apply inner_Ix].
  by_antiderivative (fun th => a * b * (cy ^ 2 / 2 * th - 2 * cy * b / 3 * cos th + b ^ 2 / 4 * (th / 2 - sin th * cos th / 2)))
    ltac:(idtac) ltac:(idtac).
  - rewrite cos2_as_sin2. field.
  - rewrite sin_2PI cos_2PI sin_0 cos_0.
    unfold ell_moments, ell_area, Curved.sq; cbn [fst snd omul oadd odiv ofromZ Rops]. field.
Qed.

(* ---- I_y = int x^2 dA ---- *)
Lemma inner_Iy a b cx s :
  RInt (fun rho => (cx + a * rho * s) ^ 2 * (a * b * rho)) 0 1
  = a * b * (cx ^ 2 / 2 + 2 * cx * a * s / 3 + a ^ 2 * s ^ 2 / 4).
Proof.
  by_antiderivative (fun rho => a * b * (cx ^ 2 * rho ^ 2 / 2 + 2 * cx * a * s * rho ^ 3 / 3 + a ^ 2 * s ^ 2 * rho ^ 4 / 4))
    ltac:(field) ltac:(field).
Qed.

Theorem ellipse_Iy_integral a b cx cy :
  RInt (fun th => RInt (fun rho => (cx + a * rho * cos th) ^ 2 * (a * b * rho)) 0 1) 0 (2 * PI)
  = PI * snd (fst (ell_moments Rops false a b cx cy)).
Proof.
  rewrite (RInt_ext _ (fun th => a * b * (cx ^ 2 / 2 + 2 * cx * a * cos th / 3 + a ^ 2 * (cos th) ^ 2 / 4)));
    [|intros th _; apply inner_Iy].
  by_antiderivative (fun th => a * b * (cx ^ 2 / 2 * th + 2 * cx * a / 3 * sin th + a ^ 2 / 4 * (th / 2 + sin th * cos th / 2)))
    ltac:(idtac) ltac:(idtac).
  - rewrite cos2_as_sin2. pose proof (cos2_as_sin2 t) as H.
    replace (cos t ^ 2) with (1 - sin t * sin t) by (rewrite <- H; ring). field.
  - rewrite sin_2PI cos_2PI sin_0 cos_0.
    unfold ell_moments, ell_area, Curved.sq; cbn [fst snd omul oadd odiv ofromZ Rops]. field.
Qed.

(* ---- I_xy = int x y dA ---- *)
Lemma inner_Ixy a b cx cy s c :
  RInt (fun rho => (cx + a * rho * c) * (cy + b * rho * s) * (a * b * rho)) 0 1
  = a * b * (cx * cy / 2 + (cx * b * s + cy * a * c) / 3 + a * b * s * c / 4).
Proof.
  by_antiderivative (fun rho => a * b * (cx * cy * rho ^ 2 / 2 + (cx * b * s + cy * a * c) * rho ^ 3 / 3 + a * b * s * c * rho ^ 4 / 4))
    ltac:(field) ltac:(field).
Qed.

Theorem ellipse_Ixy_integral a b cx cy :
  RInt (fun th => RInt (fun rho => (cx + a * rho * cos th) * (cy + b * rho * sin th) * (a * b * rho)) 0 1) 0 (2 * PI)
  = PI * snd (ell_moments Rops false a b cx cy).
Proof.
  rewrite (RInt_ext _ (fun th => a * b * (cx * cy / 2 + (cx * b * sin th + cy * a * cos th) / 3 + a * b * sin th * cos th / 4)));
    [|intros th _; apply inner_Ixy].
  by_antiderivative (fun th => a * b * (cx * cy / 2 * th + (- cx * b * cos th + cy * a * sin th) / 3 + a * b * (sin th) ^ 2 / 8))
    ltac:(field) ltac:(idtac).
  rewrite sin_2PI cos_2PI sin_0 cos_0.
  unfold ell_moments, ell_area, Curved.sq; cbn [fst snd omul oadd odiv ofromZ Rops]. field.
Qed.

(* ---- ellipsoid volume in spherical coordinates ---- *)
Lemma inner_vol k : RInt (fun r => k * r ^ 2) 0 1 = k / 3.
Proof. by_antiderivative (fun r => k * r ^ 3 / 3) ltac:(field) ltac:(field). Qed.

Theorem ellipsoid_volume_integral a b c :
  RInt (fun th => RInt (fun ph => RInt (fun r => a * b * c * sin ph * r ^ 2) 0 1) 0 PI) 0 (2 * PI)
  = PI * eld_volume Rops a b c.
Proof.
  rewrite (RInt_ext _ (fun _ => 2 * (a * b * c) / 3)).
  - by_antiderivative (fun th => 2 * (a * b * c) / 3 * th) ltac:(field)
      ltac:(unfold eld_volume, Curved.q; cbn [omul odiv ofromZ Rops]; field).
  - intros th _.
    rewrite (RInt_ext _ (fun ph => a * b * c * sin ph / 3)).
    + by_antiderivative (fun ph => - (a * b * c) / 3 * cos ph) ltac:(field) ltac:(idtac).
      rewrite cos_PI cos_0. field.
    + intros ph _. apply inner_vol.
Qed.
