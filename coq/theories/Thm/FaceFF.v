(* C12: the face term of Polyhedron.compute_form_factor_amplitude for a triangle with unit normal, in closed form; Gauss' theorem for the
   plane wave on a tetrahedron. *)
From Coq Require Import Reals List Lra.
From mathcomp Require Import ssreflect.
From Coquelicot Require Import Coquelicot.
Require Import Cox.Num.Ops Cox.Geo.Vec Cox.Model.FormFactor Cox.Thm.FormFactorThm Cox.Thm.TriangleFF Cox.Thm.TetraInt.
Import ListNotations.
Local Open Scope R_scope.

(* ---- vector identities ---- *)
Lemma vec_id (n e1 e2 p : V3) :
  vdot Rops (vcross Rops e1 p) n * vdot Rops p e2 - vdot Rops (vcross Rops e2 p) n * vdot Rops p e1
  = vdot Rops n (vcross Rops e1 e2) * vdot Rops p p - vdot Rops p n * vdot Rops p (vcross Rops e1 e2).
Proof. vsimp n; vsimp e1; vsimp e2; vsimp p. unf. ring. Qed.

Lemma dot_cross_self (e1 e2 : V3) : vdot Rops e1 (vcross Rops e1 e2) = 0 /\ vdot Rops e2 (vcross Rops e1 e2) = 0.
Proof. vsimp e1; vsimp e2. unf. split; ring. Qed.

Lemma dot_scale (k : R) (a b : V3) : vdot Rops a (vscale Rops k b) = k * vdot Rops a b.
Proof. vsimp a; vsimp b. unf. ring. Qed.
Lemma dot_comm (a b : V3) : vdot Rops a b = vdot Rops b a.
Proof. vsimp a; vsimp b. unf. ring. Qed.
Lemma dot_sub_r (a b c : V3) : vdot Rops a (vsub Rops b c) = vdot Rops a b - vdot Rops a c.
Proof. vsimp a; vsimp b; vsimp c. unf. ring. Qed.
Lemma dot_sub_l (a b c : V3) : vdot Rops (vsub Rops b c) a = vdot Rops b a - vdot Rops c a.
Proof. vsimp a; vsimp b; vsimp c. unf. ring. Qed.

Lemma phase_pair X Y ph k :
  cmul (cscale k (cos Y - cos X, - (sin Y - sin X))) (cexp_i (- ph))
  = cscale k (cos (Y + ph) - cos (X + ph), - (sin (Y + ph) - sin (X + ph))).
Proof.
  rewrite /cmul /cscale /cexp_i. cbn [fst snd]. rewrite !cos_plus !sin_plus cos_neg sin_neg.
  apply cx_eq; cbn [fst snd]; ring.
Qed.
Lemma cmul_cadd x y z : cmul (cadd x y) z = cadd (cmul x z) (cmul y z).
Proof. rewrite /cmul /cadd. apply cx_eq; cbn [fst snd]; ring. Qed.
Lemma cmul_zero z : cmul (0, 0) z = (0, 0).
Proof. rewrite /cmul. apply cx_eq; cbn [fst snd]; ring. Qed.

Section Triangle.
Variables (n q a b c : V3) (s : R).
Hypothesis Hn : vdot Rops n n = 1.
Hypothesis Hs : s <> 0.
Hypothesis HN : vcross Rops (vsub Rops b a) (vsub Rops c a) = vscale Rops s n.
Let A := vdot Rops q a.
Let be := vdot Rops q (vsub Rops b a).
Let ga := vdot Rops q (vsub Rops c a).
Hypothesis Hb : be <> 0.
Hypothesis Hg : ga <> 0.
Hypothesis Hbg : be <> ga.

Let e1 := vsub Rops b a.
Let e2 := vsub Rops c a.
Let p := qpar n q.

Lemma n_e1 : vdot Rops n e1 = 0.
Proof.
  have [H1 _] := dot_cross_self e1 e2. rewrite /e1 /e2 HN dot_scale in H1.
  rewrite dot_comm. apply (Rmult_eq_reg_l s); last exact Hs. rewrite Rmult_0_r. exact H1.
Qed.
Lemma n_e2 : vdot Rops n e2 = 0.
Proof.
  have [_ H1] := dot_cross_self e1 e2. rewrite /e1 /e2 HN dot_scale in H1.
  rewrite dot_comm. apply (Rmult_eq_reg_l s); last exact Hs. rewrite Rmult_0_r. exact H1.
Qed.
Lemma p_n : vdot Rops p n = 0.
Proof. rewrite /p /qpar dot_sub_l (dot_comm (vscale _ _ _) n) dot_scale Hn. ring. Qed.
Lemma p_e (e : V3) : vdot Rops n e = 0 -> vdot Rops p e = vdot Rops q e.
Proof. move=> H. rewrite /p /qpar dot_sub_l (dot_comm (vscale _ _ _)) dot_scale (dot_comm e n) H. ring. Qed.
Lemma p_x (x : V3) : vdot Rops p x = vdot Rops q x - vdot Rops q n * vdot Rops n x.
Proof. rewrite /p /qpar dot_sub_l (dot_comm (vscale _ _ _)) dot_scale (dot_comm x n). ring. Qed.

Lemma sQ : s * vdot Rops p p
  = vdot Rops (vcross Rops e1 p) n * ga - vdot Rops (vcross Rops e2 p) n * be.
Proof.
  have H := vec_id n e1 e2 p.
  rewrite (p_e e2 n_e2) (p_e e1 n_e1) in H. rewrite -/be -/ga in H. rewrite H.
  rewrite /e1 /e2 HN !dot_scale Hn p_n. ring.
Qed.


Lemma cross_sub_dot (x y z w m : V3) :
  vdot Rops (vcross Rops (vsub Rops x y) w) m
  = vdot Rops (vcross Rops (vsub Rops x z) w) m - vdot Rops (vcross Rops (vsub Rops y z) w) m.
Proof. vsimp x; vsimp y; vsimp z; vsimp w; vsimp m. unf. ring. Qed.

Lemma tri_polygon_phase ph :
  cmul (polygon_ff n p [a; b; c]) (cexp_i (- ph))
  = cscale s (S_cos (vdot Rops p a + ph) be ga, - S_sin (vdot Rops p a + ph) be ga).
Proof.
  have Ne1 := n_e1. have Ne2 := n_e2.
  have Pab : vdot Rops p (vsub Rops b a) = be by exact (p_e e1 Ne1).
  have Pac : vdot Rops p (vsub Rops c a) = ga by exact (p_e e2 Ne2).
  have Pbc : vdot Rops p (vsub Rops c b) = ga - be.
  { have -> : vdot Rops p (vsub Rops c b) = vdot Rops p (vsub Rops c a) - vdot Rops p (vsub Rops b a).
    { rewrite !dot_sub_r. ring. } rewrite Pab Pac. ring. }
  have Pca : vdot Rops p (vsub Rops a c) = - ga.
  { have -> : vdot Rops p (vsub Rops a c) = - vdot Rops p (vsub Rops c a) by rewrite !dot_sub_r; ring. rewrite Pac. ring. }
  rewrite /polygon_ff /cpairs /roll. cbn [app combine map csum fold_right fst snd].
  rewrite (edge_term_closed _ p a b); last by rewrite Pab.
  rewrite (edge_term_closed _ p b c); last by rewrite Pbc; lra.
  rewrite (edge_term_closed _ p c a); last by rewrite Pca; lra.
  rewrite Pab Pbc Pca.
  rewrite !cmul_cadd cmul_zero !phase_pair.
  set X := vdot Rops p a + ph.
  have Xb : vdot Rops p b + ph = X + be.
  { have -> : vdot Rops p b = vdot Rops p a + vdot Rops p (vsub Rops b a) by rewrite dot_sub_r; ring. rewrite Pab /X. ring. }
  have Xc : vdot Rops p c + ph = X + ga.
  { have -> : vdot Rops p c = vdot Rops p a + vdot Rops p (vsub Rops c a) by rewrite dot_sub_r; ring. rewrite Pac /X. ring. }
  rewrite Xb Xc.
  have Kbc : vdot Rops (vcross Rops (vsub Rops c b) p) n
             = vdot Rops (vcross Rops e2 p) n - vdot Rops (vcross Rops e1 p) n by rewrite /e1 /e2; apply cross_sub_dot.
  have Kca : vdot Rops (vcross Rops (vsub Rops a c) p) n = - vdot Rops (vcross Rops e2 p) n.
  { rewrite /e2. vsimp a; vsimp c; vsimp n. move: p => [[p1 p2] p3]. unf. ring. }
  rewrite Kbc Kca. have HsQ := sQ.
  have HQ : vdot Rops p p <> 0. { move=> H0. apply Hb. rewrite -Pab. exact: qq_zero. }
  move: HsQ HQ. rewrite -/e1.
  set k1 := vdot Rops (vcross Rops e1 p) n. set k2 := vdot Rops (vcross Rops e2 p) n. set Q := vdot Rops p p.
  move=> HsQ HQ.
  have -> : s = (k1 * ga - k2 * be) / Q by rewrite -HsQ; field.
  rewrite /S_cos /S_sin /cscale /cmul /cadd. cbn [fst snd].
  apply cx_eq; cbn [fst snd]; field; repeat split; try assumption; try lra.
Qed.

(* the polygon method on its own, any plane: s * (Fourier integral of the triangle for the projected wave vector) *)
Lemma tri_polygon_ff :
  polygon_ff n p [a; b; c] = cscale s (S_cos (vdot Rops p a) be ga, - S_sin (vdot Rops p a) be ga).
Proof.
  have H := tri_polygon_phase 0. rewrite Ropp_0 Rplus_0_r in H. rewrite -H.
  rewrite /cexp_i cos_0 sin_0 /cmul. cbn [fst snd]. apply cx_eq; cbn [fst snd]; ring.
Qed.

Lemma tri_face_ff :
  face_ff n q [a; b; c] = cscale (s * vdot Rops q n / vdot Rops q q) (cmul (0, 1) (S_cos A be ga, - S_sin A be ga)).
Proof.
  rewrite /face_ff. cbn [hd]. rewrite -/p tri_polygon_phase.
  have -> : vdot Rops p a + vdot Rops q n * vdot Rops n a = A by rewrite p_x /A; ring.
  rewrite /cscale /cmul. cbn [fst snd]. apply cx_eq; cbn [fst snd]; field.
  all: move=> H0; apply Hb; rewrite /be; exact: qq_zero.
Qed.

End Triangle.

(* ---- the per-face term without the unit normal ---- *)
Definition tri_sf (q a b c : V3) : Cx :=
  let N := vcross Rops (vsub Rops b a) (vsub Rops c a) in
  cscale (vdot Rops q N / vdot Rops q q)
    (cmul (0, 1) (S_cos (vdot Rops q a) (vdot Rops q (vsub Rops b a)) (vdot Rops q (vsub Rops c a)),
                  - S_sin (vdot Rops q a) (vdot Rops q (vsub Rops b a)) (vdot Rops q (vsub Rops c a)))).

Lemma face_ff_tri_sf n q a b c s :
  vdot Rops n n = 1 -> s <> 0 -> vcross Rops (vsub Rops b a) (vsub Rops c a) = vscale Rops s n ->
  vdot Rops q (vsub Rops b a) <> 0 -> vdot Rops q (vsub Rops c a) <> 0 ->
  vdot Rops q (vsub Rops b a) <> vdot Rops q (vsub Rops c a) ->
  face_ff n q [a; b; c] = tri_sf q a b c.
Proof.
  move=> Hn Hs HN Hb Hg Hbg. rewrite (tri_face_ff n q a b c s Hn Hs HN Hb Hg Hbg).
  rewrite /tri_sf HN dot_scale. reflexivity.
Qed.

Lemma dot_cross_anti (q u w : V3) : vdot Rops q (vcross Rops w u) = - vdot Rops q (vcross Rops u w).
Proof. vsimp q; vsimp u; vsimp w. unf. ring. Qed.

Definition det3 (e1 e2 e3 : V3) : R := vdot Rops e1 (vcross Rops e2 e3).

Lemma det_qq (q e1 e2 e3 : V3) :
  det3 e1 e2 e3 * vdot Rops q q
  = vdot Rops q e1 * vdot Rops q (vcross Rops e2 e3) + vdot Rops q e2 * vdot Rops q (vcross Rops e3 e1)
    + vdot Rops q e3 * vdot Rops q (vcross Rops e1 e2).
Proof. rewrite /det3. vsimp q; vsimp e1; vsimp e2; vsimp e3. unf. ring. Qed.

(* Gauss' theorem for the plane wave on a tetrahedron (o, a, b, c), in closed forms: the four face terms (outward for det > 0)
   sum to det * (Fourier integral over the standard simplex) *)
Theorem tet_gauss (q o a b c : V3) :
  let al := vdot Rops q (vsub Rops a o) in let be := vdot Rops q (vsub Rops b o) in let ga := vdot Rops q (vsub Rops c o) in
  generic3 al be ga ->
  cadd (tri_sf q a b c) (cadd (tri_sf q o c b) (cadd (tri_sf q o a c) (tri_sf q o b a)))
  = cscale (det3 (vsub Rops a o) (vsub Rops b o) (vsub Rops c o))
      (T_cos (vdot Rops q o) al be ga, - T_sin (vdot Rops q o) al be ga).
Proof.
  move=> al be ga Hgen.
  have [Gu1 Gu2] := gauss_u (vdot Rops q o) al be ga Hgen.
  have [Gv1 Gv2] := gauss_v (vdot Rops q o) al be ga Hgen.
  have [Gw1 Gw2] := gauss_w (vdot Rops q o) al be ga Hgen.
  have HJ := det_qq q (vsub Rops a o) (vsub Rops b o) (vsub Rops c o).
  rewrite -/al -/be -/ga in HJ.
  case: Hgen => [Ha [Hb [Hg [Hab [Hag Hbg]]]]].
  have Hqq : vdot Rops q q <> 0. { move=> H0. apply Ha. rewrite /al. exact: qq_zero. }
  set e1 := vsub Rops a o in HJ *. set e2 := vsub Rops b o in HJ *. set e3 := vsub Rops c o in HJ *.
  rewrite /tri_sf.
  (* phases *)
  have Qa : vdot Rops q a = vdot Rops q o + al by rewrite /al dot_sub_r; ring.
  have Qba : vdot Rops q (vsub Rops b a) = be - al by rewrite /be /al !dot_sub_r; ring.
  have Qca : vdot Rops q (vsub Rops c a) = ga - al by rewrite /ga /al !dot_sub_r; ring.
  rewrite Qa Qba Qca. rewrite -/e1 -/e2 -/e3 -/al -/be -/ga.
  (* normals *)
  have Nsl : vdot Rops q (vcross Rops (vsub Rops b a) (vsub Rops c a))
             = vdot Rops q (vcross Rops e2 e3) + vdot Rops q (vcross Rops e3 e1) + vdot Rops q (vcross Rops e1 e2).
  { rewrite /e1 /e2 /e3. vsimp q; vsimp o; vsimp a; vsimp b; vsimp c. unf. ring. }
  have N1 : vdot Rops q (vcross Rops e3 e2) = - vdot Rops q (vcross Rops e2 e3).
  { exact: dot_cross_anti. }
  have N2 : vdot Rops q (vcross Rops e1 e3) = - vdot Rops q (vcross Rops e3 e1).
  { exact: dot_cross_anti. }
  have N3 : vdot Rops q (vcross Rops e2 e1) = - vdot Rops q (vcross Rops e1 e2).
  { exact: dot_cross_anti. }
  rewrite Nsl N1 N2 N3.
  move: HJ Hqq Gu1 Gu2 Gv1 Gv2 Gw1 Gw2.
  set p1 := vdot Rops q (vcross Rops e2 e3). set p2 := vdot Rops q (vcross Rops e3 e1). set p3 := vdot Rops q (vcross Rops e1 e2).
  set J := det3 e1 e2 e3. set qq := vdot Rops q q. set A := vdot Rops q o.
  set Sc := S_cos (A + al) (be - al) (ga - al). set Ss := S_sin (A + al) (be - al) (ga - al).
  set Tc := T_cos A al be ga. set Ts := T_sin A al be ga.
  move=> HJ Hqq Gu1 Gu2 Gv1 Gv2 Gw1 Gw2.
  have -> : S_cos A ga be = Sc + al * Ts by lra. have -> : S_sin A ga be = Ss - al * Tc by lra.
  have -> : S_cos A al ga = Sc + be * Ts by lra. have -> : S_sin A al ga = Ss - be * Tc by lra.
  have -> : S_cos A be al = Sc + ga * Ts by lra. have -> : S_sin A be al = Ss - ga * Tc by lra.
  have -> : J = (al * p1 + be * p2 + ga * p3) / qq by rewrite -HJ; field.
  rewrite /cadd /cscale /cmul. cbn [fst snd].
  apply cx_eq; cbn [fst snd]; field; exact Hqq.
Qed.

(* ---- the polygon method on any plane, as Fourier integrals ---- *)
Theorem triangle_any_plane_is_fourier n q a b c s :
  vdot Rops n n = 1 -> s <> 0 -> vcross Rops (vsub Rops b a) (vsub Rops c a) = vscale Rops s n ->
  let p := qpar n q in
  let A := vdot Rops p a in let be := vdot Rops p (vsub Rops b a) in let ga := vdot Rops p (vsub Rops c a) in
  be <> 0 -> ga <> 0 -> be <> ga ->
  polygon_ff n p [a; b; c]
  = cscale s (RInt (fun u => RInt (fun v => cos (A + u * be + v * ga)) 0 (1 - u)) 0 1,
              - RInt (fun u => RInt (fun v => sin (A + u * be + v * ga)) 0 (1 - u)) 0 1).
Proof.
  move=> Hn Hs HN p A be ga Hb Hg Hbg.
  have Ne1 := n_e1 n a b c s Hs HN. have Ne2 := n_e2 n a b c s Hs HN.
  have Eb : be = vdot Rops q (vsub Rops b a) by rewrite /be /p; apply (p_e n q _ Ne1).
  have Eg : ga = vdot Rops q (vsub Rops c a) by rewrite /ga /p; apply (p_e n q _ Ne2).
  rewrite (S_cos_integral A be ga Hb Hg Hbg) (S_sin_integral A be ga Hb Hg Hbg).
  rewrite Eb Eg in Hb Hg Hbg *.
  exact (tri_polygon_ff n q a b c s Hn Hs HN Hb Hg Hbg).
Qed.
