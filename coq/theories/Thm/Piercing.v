(* C05: what one triangle contributes to the 3-D winding rule of Polyhedron.is_inside, in generic position (the query point shares
   its x coordinate with no vertex of the triangle and its xy-projection lies on none of the projected edges):
       tri_chain p t = sgn(det(a-p, b-p, c-p))   if the line through p parallel to the z axis pierces the triangle,
                       0                           otherwise,
   where "pierces" = the projection of p is strictly inside the projected triangle (signed indicator tri_ind <> 0).
   Hence chain_sum is the signed count of the surface's piercings by that line (both directions), i.e. ray casting. *)
From Coq Require Import Reals ZArith List Lra Lia Bool.
Require Import Cox.Num.Ops Cox.Geo.Vec Cox.Model.Mesh Cox.Model.Inside Cox.Thm.InsideThm Cox.Thm.WindingThm.
Import ListNotations.
Local Open Scope R_scope.

Definition xy (d : vec3 R) : vec2 R := (vx d, vy d).

Lemma ls_differ_cr_nonzero u v : ls u <> ls v -> off_seg u v -> cr u v <> 0.
Proof.
  intros Hd Hs Hc.
  pose proof (off_seg_nonzero_l _ _ Hs) as Nu. pose proof (off_seg_nonzero_r _ _ Hs) as Nv.
  destruct (ls_cases u) as [[Lu Pu]|[[Lu Pu]|[_ Zu]]]; [| |contradiction];
  (destruct (ls_cases v) as [[Lv Pv]|[[Lv Pv]|[_ Zv]]]; [| |contradiction]); try congruence.
  - apply Hs. split; [exact Hc|]. apply antiparallel_on_segment; assumption.
  - apply Hs. split; [exact Hc|]. rewrite <- dt_sym. apply antiparallel_on_segment; try assumption. rewrite cr_anti. lra.
Qed.

Lemma vsign3_generic p a : vx (vsub Rops a p) <> 0 -> vsign3 Rops p a = ls (xy (vsub Rops a p)).
Proof.
  intros H. unfold vsign3, ls, sign_or, xy. cbn [fst snd].
  destruct (sgn_R_spec (vx (vsub Rops a p))) as [[Hx E]|[[Hx E]|[Hx E]]]; rewrite E; cbn [Z.eqb negb]; try reflexivity. contradiction.
Qed.

Lemma esign_first_nonzero a b c : a <> 0 -> esign Rops (a, b, c) = sgn Rops a.
Proof.
  intros H. unfold esign, sign_or. cbn [fst snd].
  destruct (sgn_R_spec a) as [[Hx E]|[[Hx E]|[Hx E]]]; rewrite E; cbn [Z.eqb negb]; try reflexivity. contradiction.
Qed.

Lemma ccross_first d0 d1 : fst (fst (ccross Rops d0 d1)) = - cr (xy d0) (xy d1).
Proof. destruct d0 as [[a b] c], d1 as [[d e] f]. unfold ccross, cr, xy, vx, vy. cbn [fst snd osub omul Rops]. ring. Qed.

(* the edge contribution of the 3-D rule is minus the 2-D half-turn of the projected edge *)
Lemma edge_contribution p a b :
  vx (vsub Rops a p) <> 0 -> vx (vsub Rops b p) <> 0 -> off_seg (xy (vsub Rops a p)) (xy (vsub Rops b p)) ->
  (if Z.eqb (vsign3 Rops p a) (vsign3 Rops p b) then 0 else esign Rops (ccross Rops (vsub Rops a p) (vsub Rops b p)))%Z
  = (- ht (xy (vsub Rops a p)) (xy (vsub Rops b p)))%Z.
Proof.
  intros Ha Hb Hs. rewrite (vsign3_generic p a Ha), (vsign3_generic p b Hb).
  set (u := xy (vsub Rops a p)) in *. set (v := xy (vsub Rops b p)) in *. unfold ht.
  destruct (Z.eqb_spec (ls u) (ls v)) as [E|E].
  - rewrite E, Z.sub_diag. reflexivity.
  - destruct (Z.eqb_spec (ls v - ls u) 0) as [E'|E']; [lia|].
    pose proof (ls_differ_cr_nonzero u v E Hs) as Hc.
    destruct (ccross Rops (vsub Rops a p) (vsub Rops b p)) as [[c1 c2] c3] eqn:Ec.
    assert (H1 : c1 = - cr u v).
    { pose proof (ccross_first (vsub Rops a p) (vsub Rops b p)) as H. rewrite Ec in H. exact H. }
    rewrite esign_first_nonzero; [|rewrite H1; lra]. rewrite H1. apply sgn_R_opp.
Qed.

Theorem tri_chain_generic p (t : @tri R) :
  let d0 := vsub Rops (ta t) p in let d1 := vsub Rops (tb t) p in let d2 := vsub Rops (tc t) p in
  vx d0 <> 0 -> vx d1 <> 0 -> vx d2 <> 0 ->
  off_seg (xy d0) (xy d1) -> off_seg (xy d1) (xy d2) -> off_seg (xy d2) (xy d0) ->
  tri_chain Rops p t = if Z.eqb (tri_ind (xy d0) (xy d1) (xy d2)) 0 then 0%Z else sgn Rops (vdet Rops d0 d1 d2).
Proof.
  intros d0 d1 d2 H0 H1 H2 S01 S12 S20. unfold tri_chain. cbv zeta.
  rewrite (edge_contribution p (ta t) (tb t) H0 H1 S01), (edge_contribution p (tb t) (tc t) H1 H2 S12),
          (edge_contribution p (tc t) (ta t) H2 H0 S20). fold d0 d1 d2.
  pose proof (triangle_turns (xy d0) (xy d1) (xy d2) S01 S12 S20) as TT.
  replace (- ht (xy d0) (xy d1) + - ht (xy d1) (xy d2) + - ht (xy d2) (xy d0))%Z with (- tri_ind (xy d0) (xy d1) (xy d2))%Z by lia.
  destruct (Z.eqb_spec (tri_ind (xy d0) (xy d1) (xy d2)) 0) as [E|E];
  destruct (Z.eqb_spec (- tri_ind (xy d0) (xy d1) (xy d2)) 0) as [E'|E']; try lia; try reflexivity.
  f_equal. rewrite !ccross_first.
  destruct d0 as [[a1 a2] a3], d1 as [[b1 b2] b3], d2 as [[c1 c2] c3].
  unfold cr, xy, vdet, vdot, vcross, vx, vy, vz. cbn [fst snd osub omul oadd oopp Rops]. ring.
Qed.

Definition generic_tri3 (p : vec3 R) (t : @tri R) : Prop :=
  let d0 := vsub Rops (ta t) p in let d1 := vsub Rops (tb t) p in let d2 := vsub Rops (tc t) p in
  vx d0 <> 0 /\ vx d1 <> 0 /\ vx d2 <> 0 /\ off_seg (xy d0) (xy d1) /\ off_seg (xy d1) (xy d2) /\ off_seg (xy d2) (xy d0).
Definition pierce (p : vec3 R) (t : @tri R) : Z :=
  let d0 := vsub Rops (ta t) p in let d1 := vsub Rops (tb t) p in let d2 := vsub Rops (tc t) p in
  if Z.eqb (tri_ind (xy d0) (xy d1) (xy d2)) 0 then 0%Z else sgn Rops (vdet Rops d0 d1 d2).

(* the whole surface: the chain sum is the signed number of piercings of the surface by the line through p parallel to z *)
Theorem chain_sum_is_piercing_count p (TT : list (@tri R)) :
  (forall t, In t TT -> generic_tri3 p t) -> chain_sum Rops p TT = zsum (map (pierce p) TT).
Proof.
  intros H. unfold chain_sum. apply zsum_map_ext. intros t Ht.
  destruct (H t Ht) as [H0 [H1 [H2 [S01 [S12 S20]]]]]. exact (tri_chain_generic p t H0 H1 H2 S01 S12 S20).
Qed.
