(* The boolean closedness test run on index triangles implies the [closed]
   hypothesis of the mesh theorems for the resolved (coordinate) triangles. *)
From Coq Require Import Reals List Permutation Arith Bool Lia.
Require Import Cox.Num.Ops Cox.Geo.Vec Cox.Geo.Sums Cox.Model.Mesh Cox.Model.Entry Cox.Thm.MeshThm.
Import ListNotations.

Definition edge_dec (e f : nat * nat) : {e = f} + {e <> f}.
Proof. decide equality; apply Nat.eq_dec. Qed.

Lemma edge_eqb_spec e f : edge_eqb e f = true <-> e = f.
Proof.
  destruct e as [a b], f as [c d]; unfold edge_eqb; simpl.
  rewrite andb_true_iff, !Nat.eqb_eq. split; [intros [-> ->]; auto | intros H; inversion H; auto].
Qed.

Lemma count_edge_occ e E : count_edge e E = count_occ edge_dec E e.
Proof.
  unfold count_edge. induction E as [|x E IH]; simpl; auto.
  destruct (edge_dec x e) as [->|Hne].
  - assert (H : edge_eqb e e = true) by (apply edge_eqb_spec; auto). rewrite H; simpl; auto.
  - destruct (edge_eqb e x) eqn:Eq; auto. apply edge_eqb_spec in Eq. congruence.
Qed.

Definition iswap (e : nat * nat) : nat * nat := (snd e, fst e).

Lemma count_occ_map_swap E x :
  count_occ edge_dec (map iswap E) x = count_occ edge_dec E (iswap x).
Proof.
  induction E as [|y E IH]; simpl; auto.
  destruct (edge_dec (iswap y) x) as [H1|H1], (edge_dec y (iswap x)) as [H2|H2].
  - f_equal; exact IH.
  - exfalso; apply H2. destruct x, y; unfold iswap in *; simpl in *; inversion H1; auto.
  - exfalso; apply H1. destruct x, y; unfold iswap in *; simpl in *; inversion H2; auto.
  - exact IH.
Qed.

Lemma closedb_perm tr :
  closedb tr = true ->
  Permutation (flat_map tedges_idx tr) (map iswap (flat_map tedges_idx tr)).
Proof.
  unfold closedb. set (E := flat_map tedges_idx tr). intros H.
  rewrite forallb_forall in H.
  apply (Permutation_count_occ edge_dec). intros x.
  rewrite count_occ_map_swap.
  assert (Hin : forall e, In e E -> count_occ edge_dec E e = count_occ edge_dec E (iswap e)).
  { intros e He. specialize (H e He). apply Nat.eqb_eq in H. rewrite !count_edge_occ in H. exact H. }
  destruct (in_dec edge_dec x E) as [Hx|Hx]; [apply Hin; auto|].
  destruct (in_dec edge_dec (iswap x) E) as [Hy|Hy].
  - specialize (Hin _ Hy). assert (Hxx : iswap (iswap x) = x) by (destruct x; auto).
    rewrite Hxx in Hin. rewrite <- Hin. reflexivity.
  - rewrite (proj1 (count_occ_not_In edge_dec E x) Hx).
    rewrite (proj1 (count_occ_not_In edge_dec E (iswap x)) Hy). reflexivity.
Qed.

Lemma dedges_resolve (V : list (vec3 R)) tr :
  dedges (resolve Rops V tr)
  = map (fun e : nat * nat => (getv Rops V (fst e), getv Rops V (snd e))) (flat_map tedges_idx tr).
Proof.
  unfold dedges, resolve. induction tr as [|t tr IH]; [reflexivity|].
  cbn [map flat_map]. rewrite map_app, IH. reflexivity.
Qed.

Theorem closedb_closed (V : list (vec3 R)) tr :
  closedb tr = true -> closed (resolve Rops V tr).
Proof.
  intros H. apply closedb_perm in H.
  unfold closed, closed_edges. rewrite dedges_resolve.
  eapply Permutation_trans; [apply Permutation_map, H|].
  rewrite !map_map. apply Permutation_refl.
Qed.
