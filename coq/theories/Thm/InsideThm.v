(* Theorems about the containment models (C05, C06). *)
From Coq Require Import Reals List Permutation Lra Lia ZArith Bool Psatz.
Require Import Cox.Num.Ops Cox.Geo.Vec Cox.Geo.Sums Cox.Model.Mesh Cox.Model.Inside.
Import ListNotations.

(* ---- integer sums ---- *)
Lemma zsum_app a b : zsum (a ++ b) = (zsum a + zsum b)%Z.
Proof. induction a; simpl; lia. Qed.
Lemma zsum_perm a b : Permutation a b -> zsum a = zsum b.
Proof. induction 1; simpl; lia. Qed.
Lemma zsum_map_opp {A} (f : A -> Z) l : zsum (map (fun x => (- f x)%Z) l) = (- zsum (map f l))%Z.
Proof. induction l; simpl; lia. Qed.
Lemma zsum_map_ext {A} (f g : A -> Z) l :
  (forall x, In x l -> f x = g x) -> zsum (map f l) = zsum (map g l).
Proof. induction l; simpl; intros H; auto. rewrite H, IHl; auto. Qed.

(* ---- signs over R ---- *)
Local Open Scope R_scope.
Lemma sgn_R_spec x :
  (x < 0 /\ sgn Rops x = (-1)%Z) \/ (x = 0 /\ sgn Rops x = 0%Z) \/ (0 < x /\ sgn Rops x = 1%Z).
Proof.
  unfold sgn, osign. cbn [oltb o0 Rops].
  destruct (Rltb x 0) eqn:E1.
  - apply Rltb_true in E1. left; auto.
  - apply Rltb_false in E1. destruct (Rltb 0 x) eqn:E2.
    + apply Rltb_true in E2. right; right; auto.
    + apply Rltb_false in E2. right; left; split; auto; lra.
Qed.
Lemma sgn_R_opp x : sgn Rops (- x) = (- sgn Rops x)%Z.
Proof.
  destruct (sgn_R_spec x) as [[H ->]|[[H ->]|[H ->]]];
  destruct (sgn_R_spec (- x)) as [[H' ->]|[[H' ->]|[H' ->]]]; try lra; reflexivity.
Qed.
Lemma sign_or_opp a b c : sign_or (- a) (- b) (- c) = (- sign_or a b c)%Z.
Proof.
  unfold sign_or.
  destruct (Z.eqb_spec a 0), (Z.eqb_spec (- a) 0); try lia; simpl; auto.
  destruct (Z.eqb_spec b 0), (Z.eqb_spec (- b) 0); try lia; simpl; auto.
Qed.

(* ================= C06 : 2-D winding number ================= *)
Notation V2 := (vec2 R).

(* reversing an edge negates its half-turn *)
Lemma half_turn_anti (p a b : V2) : half_turn Rops p b a = (- half_turn Rops p a b)%Z.
Proof.
  unfold half_turn.
  replace (vsign2 Rops p a - vsign2 Rops p b)%Z with (- (vsign2 Rops p b - vsign2 Rops p a))%Z by lia.
  destruct (Z.eqb_spec (vsign2 Rops p b - vsign2 Rops p a) 0) as [E|E].
  - rewrite E. reflexivity.
  - destruct (Z.eqb_spec (- (vsign2 Rops p b - vsign2 Rops p a)) 0) as [E'|E']; [lia|].
    rewrite <- sgn_R_opp. f_equal.
    destruct p, a, b; unfold pcross, psub, px, py; cbn [fst snd osub omul Rops]. ring.
Qed.

(* the edge pairs of a cyclically shifted polygon are a permutation of the original ones *)
Lemma cpairs_roll {A} (l : list A) : Permutation (cpairs (roll l)) (cpairs l).
Proof.
  destruct l as [|a l]; [apply Permutation_refl|].
  destruct l as [|b l]; [apply Permutation_refl|].
  unfold cpairs. cbn [roll].
  (* cpairs (a::b::l) = (a,b) :: combine (b::l) (l ++ [a]);
     cpairs (b::l ++ [a]) = combine ((b::l) ++ [a]) (l ++ [a] ++ [b])            *)
  assert (H : forall (x y : list A) (u v : A), length x = length y ->
            combine (x ++ [u]) (y ++ [v]) = combine x y ++ [(u, v)]).
  { induction x; destruct y; simpl; intros; try discriminate; auto. f_equal. apply IHx. lia. }
  change (b :: l ++ [a]) with ((b :: l) ++ [a]).
  replace (roll ((b :: l) ++ [a])) with ((l ++ [a]) ++ [b]).
  2:{ cbn [roll app]. rewrite <- app_assoc. reflexivity. }
  rewrite H by (rewrite app_length; simpl; lia).
  cbn [combine app]. apply Permutation_sym, Permutation_cons_append.
Qed.

Theorem turn_sum_cyclic_shift (p : V2) (V : list V2) :
  turn_sum Rops p (roll V) = turn_sum Rops p V.
Proof. unfold turn_sum. apply zsum_perm, Permutation_map, cpairs_roll. Qed.

Theorem inside_polygon_cyclic_shift (p : V2) (V : list V2) :
  inside_polygon Rops p (roll V) = inside_polygon Rops p V.
Proof. unfold inside_polygon, wn2. rewrite turn_sum_cyclic_shift. reflexivity. Qed.

(* the edge pairs of the reversed polygon are the swapped pairs, up to permutation *)
Lemma combine_rev {A} (x y : list A) : length x = length y ->
  combine (rev x) (rev y) = rev (combine x y).
Proof.
  revert y. induction x as [|a x IH]; destruct y as [|b y]; simpl; intros E; try discriminate; auto.
  assert (H : forall (x y : list A) (u v : A), length x = length y ->
            combine (x ++ [u]) (y ++ [v]) = combine x y ++ [(u, v)]).
  { induction x0; destruct y0; simpl; intros; try discriminate; auto. f_equal. apply IHx0. lia. }
  rewrite H by (rewrite !rev_length; lia). rewrite IH by lia. reflexivity.
Qed.

Lemma cpairs_rev {A} (l : list A) :
  Permutation (cpairs (rev l)) (map (fun e => (snd e, fst e)) (cpairs l)).
Proof.
  destruct l as [|a l]; [apply Permutation_refl|].
  (* cpairs l = combine l (roll l).  swapped: combine (roll l) l.
     rev l = rev(l') ++ [a]; roll (rev l) .. we show: cpairs (rev l) is a permutation of
     combine (rev (roll l)) (rev l) = rev (combine (roll l) l) *)
  assert (Hgen : forall (x y : list A), map (fun e : A * A => (snd e, fst e)) (combine x y) = combine y x).
  { induction x as [|u x IHx]; destruct y as [|v y]; simpl; auto. f_equal; auto. }
  assert (Hsw : map (fun e : A * A => (snd e, fst e)) (cpairs (a :: l)) = combine (roll (a :: l)) (a :: l)).
  { unfold cpairs. apply Hgen. }
  rewrite Hsw.
  eapply Permutation_trans; [|apply Permutation_sym, Permutation_rev].
  rewrite <- combine_rev by (rewrite roll_length; reflexivity).
  (* rev (roll (a::l)) = rev (l ++ [a]) = a :: rev l ;  rev (a::l) = rev l ++ [a] *)
  cbn [roll]. rewrite rev_app_distr. cbn [rev app].
  (* goal: Permutation (cpairs (rev l ++ [a])) (combine (a :: rev l) (rev l ++ [a])) *)
  set (r := rev l).
  change (combine (a :: r) (r ++ [a])) with (cpairs (a :: r)).
  replace (r ++ [a]) with (roll (a :: r)) by reflexivity.
  apply cpairs_roll.
Qed.

Theorem turn_sum_reverse (p : V2) (V : list V2) :
  turn_sum Rops p (rev V) = (- turn_sum Rops p V)%Z.
Proof.
  unfold turn_sum.
  rewrite (zsum_perm _ _ (Permutation_map _ (cpairs_rev V))).
  rewrite map_map. cbn [fst snd].
  rewrite <- zsum_map_opp. apply zsum_map_ext. intros [a b] _. cbn [fst snd]. apply half_turn_anti.
Qed.

(* hence containment does not depend on the orientation of the vertex cycle, PROVIDED the sum is
   even (which it is for every closed cycle and query point off the boundary; run-time checked) *)
Theorem inside_polygon_reverse (p : V2) (V : list V2) :
  Z.even (turn_sum Rops p V) = true ->
  inside_polygon Rops p (rev V) = inside_polygon Rops p V.
Proof.
  intros Hev. unfold inside_polygon, wn2. rewrite turn_sum_reverse.
  apply Z.even_spec in Hev. destruct Hev as [k Hk]. rewrite Hk.
  replace (- (2 * k))%Z with (2 * (- k))%Z by lia.
  rewrite !(Z.mul_comm 2), !Z.div_mul by lia.
  destruct (Z.eqb_spec (- k) 0), (Z.eqb_spec k 0); try lia; reflexivity.
Qed.

(* circle / sphere / ellipsoid: the norm tests are the quadratic tests *)
Theorem norm_le_iff_sumsq (x y z r : R) : 0 <= r ->
  (sqrt (x * x + y * y + z * z) <= r <-> x * x + y * y + z * z <= r * r).
Proof.
  intros Hr. assert (Hs : 0 <= x * x + y * y + z * z) by nra.
  split; intros H.
  - rewrite <- (sqrt_sqrt _ Hs). apply Rmult_le_compat; auto using sqrt_pos.
  - rewrite <- (sqrt_square r Hr). apply sqrt_le_1; auto. nra.
Qed.

Theorem inside_ellipsoid_is_norm_test (c s p : vec3 R) :
  inside_ellipsoid Rops c s p = true <->
  sqrt (((vx p - vx c) / vx s) * ((vx p - vx c) / vx s)
        + ((vy p - vy c) / vy s) * ((vy p - vy c) / vy s)
        + ((vz p - vz c) / vz s) * ((vz p - vz c) / vz s)) <= 1.
Proof.
  unfold inside_ellipsoid. cbn [oleb oadd osub odiv o1 Rops osq omul vcomp].
  rewrite Rleb_true. rewrite norm_le_iff_sumsq by lra. rewrite Rmult_1_r. reflexivity.
Qed.

(* ================= C05 : convex half-space test ================= *)
(* the code normalises the plane (unit normal n = N/|N|, offset d = -n.v0); the sign of the
   signed distance is the sign of the exact un-normalised side value *)
Theorem normalised_plane_test (N v0 p : vec3 R) :
  0 < vdot Rops N N ->
  let nn := sqrt (vdot Rops N N) in
  let n := vscale Rops (/ nn) N in
  (vdot Rops n p + - vdot Rops n v0 <= 0 <-> vdot Rops N (vsub Rops p v0) <= 0).
Proof.
  intros Hpos nn n.
  assert (Hnn : 0 < nn) by (apply sqrt_lt_R0; exact Hpos).
  assert (Hinv : 0 < / nn) by (apply Rinv_0_lt_compat; exact Hnn).
  assert (E : vdot Rops n p + - vdot Rops n v0 = / nn * vdot Rops N (vsub Rops p v0)).
  { unfold n. destruct N as [[a b] c], v0 as [[x0 y0] z0], p as [[x y] z].
    unfold vdot, vscale, vsub, vx, vy, vz; cbn [fst snd omul oadd osub Rops]. ring. }
  rewrite E. split; intros H; nra.
Qed.

Theorem inside_halfspaces_spec (V : list (vec3 R)) F p :
  inside_halfspaces Rops V F p = true <-> (forall f, In f F -> face_side Rops V f p <= 0).
Proof.
  unfold inside_halfspaces. rewrite forallb_forall. split; intros H f Hf; specialize (H f Hf).
  - apply Rleb_true in H. exact H.
  - apply Rleb_true. exact H.
Qed.

(* ================= C05 : 3-D winding number ================= *)
Notation triR := (@tri R).
Theorem chain_sum_perm (p : vec3 R) (T1 T2 : list triR) :
  Permutation T1 T2 -> chain_sum Rops p T1 = chain_sum Rops p T2.
Proof. intros H. unfold chain_sum. apply zsum_perm, Permutation_map, H. Qed.

Theorem inside_polyhedron_triangle_order (p : vec3 R) (T1 T2 : list triR) :
  Permutation T1 T2 -> inside_polyhedron Rops p T1 = inside_polyhedron Rops p T2.
Proof. intros H. unfold inside_polyhedron, wn3. rewrite (chain_sum_perm p T1 T2 H). reflexivity. Qed.
