(* C14: the three branch formulas of ConvexPolygon._distance_to_surface_from (horizontal edge, vertical edge, generic edge) each return
   the parameter t of the point t (cos th, sin th) where the ray meets the edge's line, whenever that point lies ahead (t > 0). *)
From Coq Require Import Reals Lra Psatz.
From mathcomp Require Import ssreflect.
Local Open Scope R_scope.

Require Import Cox.Model.DistanceBranches.

Lemma sqrt_sq_pos t : 0 < t -> sqrt (t * t) = t.
Proof. move=> H. apply sqrt_square. lra. Qed.

Lemma s2c2 th : sin th * sin th + cos th * cos th = 1.
Proof. have := sin2_cos2 th. rewrite /Rsqr. lra. Qed.

(* the hit point t (cos th, sin th) lies on the line through (x1, y1) and (x2, y2):  cross((x2-x1, y2-y1), hit - p1) = 0 *)
Definition on_line (x1 y1 x2 y2 t th : R) : Prop :=
  (x2 - x1) * (t * sin th - y1) - (y2 - y1) * (t * cos th - x1) = 0.

Theorem edge_distance_is_ray_parameter x1 y1 x2 y2 t th :
  0 < t -> on_line x1 y1 x2 y2 t th ->
  (x2 - x1) * sin th - (y2 - y1) * cos th <> 0 ->       (* the ray is not parallel to the edge *)
  (x1 <> x2 -> y1 <> y2 -> cos th <> 0) ->              (* generic branch: the code goes through tan th *)
  edge_distance x1 y1 x2 y2 th = t.
Proof.
  move=> Ht Hon Htr Hcos. rewrite /edge_distance /on_line in Hon *.
  have SC := s2c2 th.
  case: (Req_EM_T (x1 - x2) 0) => Hx.
  - (* vertical edge: x2 = x1, so t cos th = x1 *)
    have Ex : x2 = x1 by lra. rewrite Ex in Hon Htr.
    have Hy : y2 - y1 <> 0. { move=> H0. apply Htr. rewrite H0. ring. }
    have Hcn : cos th <> 0. { move=> H0. apply Htr. rewrite H0. ring. }
    have Hc : t * cos th = x1. { have : (y2 - y1) * (t * cos th - x1) = 0 by lra. move=> H0. case: (Rmult_integral _ _ H0); lra. }
    rewrite /branch_vertical. have -> : 1 - sin th * sin th = cos th * cos th by lra.
    rewrite -Hc. have -> : t * cos th * (t * cos th) / (cos th * cos th) = t * t by field.
    by apply sqrt_sq_pos.
  - have Hd : x1 - x2 <> 0 := Hx.
    set m := (y1 - y2) / (x1 - x2). set y0 := y1 - m * x1.
    (* on the line: t sin th = m t cos th + y0 *)
    have Hl : t * sin th = m * (t * cos th) + y0.
    { rewrite /y0 /m. have E : (x2 - x1) * (t * sin th - y1) = (y2 - y1) * (t * cos th - x1) by lra.
      have Hd2 : x2 - x1 <> 0 by lra.
      have -> : t * sin th = y1 + (y2 - y1) * (t * cos th - x1) / (x2 - x1).
      { apply (Rmult_eq_reg_l (x2 - x1)); last exact Hd2.
        have -> : (x2 - x1) * (y1 + (y2 - y1) * (t * cos th - x1) / (x2 - x1)) = (x2 - x1) * y1 + (y2 - y1) * (t * cos th - x1) by field.
        lra. }
      field. lra. }
    case: (Req_EM_T m 0) => Hm.
    + (* horizontal edge *)
      have Hyy : y1 = y2. { rewrite /m in Hm. have : (y1 - y2) = 0 by (apply (Rmult_eq_reg_r (/ (x1 - x2))); [rewrite Rmult_0_l; exact Hm | apply Rinv_neq_0_compat; exact Hd]). lra. }
      have Hsn : sin th <> 0. { move=> H0. apply Htr. rewrite H0 Hyy. ring. }
      have Hs : t * sin th = y0 by rewrite Hl Hm; ring.
      rewrite /branch_horizontal. have -> : 1 - cos th * cos th = sin th * sin th by lra.
      rewrite -Hs. have -> : t * sin th * (t * sin th) / (sin th * sin th) = t * t by field.
      by apply sqrt_sq_pos.
    + (* generic edge *)
      have Hyy : y1 <> y2. { move=> E. apply Hm. rewrite /m E. field. lra. }
      have Hcn : cos th <> 0. { apply Hcos; lra. }
      have Htan : tan th - m <> 0.
      { rewrite /tan /m. move=> H0. apply Htr.
        have : sin th / cos th * (cos th * (x1 - x2)) = (y1 - y2) / (x1 - x2) * (cos th * (x1 - x2)) by (have -> : sin th / cos th = (y1 - y2) / (x1 - x2) by lra).
        move=> E. have E1 : sin th * (x1 - x2) = (y1 - y2) * cos th. { move: E. have -> : sin th / cos th * (cos th * (x1 - x2)) = sin th * (x1 - x2) by field.
          have -> : (y1 - y2) / (x1 - x2) * (cos th * (x1 - x2)) = (y1 - y2) * cos th by field. done. }
        lra. }
      rewrite /branch_generic. cbv zeta.
      have Hx0 : y0 / (tan th - m) = t * cos th.
      { have : y0 = (tan th - m) * (t * cos th). { rewrite /tan. have -> : (sin th / cos th - m) * (t * cos th) = t * sin th - m * (t * cos th) by field. lra. }
        move=> ->. field. exact Htan. }
      rewrite Hx0. have -> : tan th * (t * cos th) = t * sin th by rewrite /tan; field.
      have -> : t * cos th * (t * cos th) + t * sin th * (t * sin th) = t * t * (sin th * sin th + cos th * cos th) by ring.
      rewrite SC Rmult_1_r. by apply sqrt_sq_pos.
Qed.
