(* Paramcoq transfer for the mesh model: the rational computed by the executable
   (Q) model, read in R, is the R-model's value on the embedded input. *)
From Coq Require Import QArith Qreals Reals Bool List.
From Param Require Import Param.
Require Import Cox.Num.Ops Cox.Num.Transfer Cox.Geo.Vec Cox.Model.Mesh.
Import ListNotations.

Parametricity Recursive signed_volume.
Parametricity Recursive centroid_code.
Parametricity Recursive inertia_code.
Parametricity Recursive cone0.
Parametricity Recursive spec_centroid.
Parametricity Recursive spec_inertia.
Parametricity Recursive eberly_centroid.
Parametricity Recursive kallay_inertia.
Parametricity Recursive hull_excess.

Definition Q2Rt (t : @tri Q) : @tri R := (Q2R3 (ta t), Q2R3 (tb t), Q2R3 (tc t)).

Lemma vec3_R_QR (v : vec3 Q) : vec3_R Q R QR v (Q2R3 v).
Proof. apply prod_R_QR3. Qed.
Lemma tri_R_QR (t : @tri Q) : tri_R Q R QR t (Q2Rt t).
Proof. destruct t as [[a b] c]. unfold Q2Rt; simpl. repeat constructor; apply vec3_R_QR. Qed.
Lemma tris_R_QR (TT : list (@tri Q)) : list_R _ _ (tri_R Q R QR) TT (map Q2Rt TT).
Proof. induction TT; simpl; constructor; auto using tri_R_QR. Qed.
Lemma vecs_R_QR (V : list (vec3 Q)) : list_R _ _ (vec3_R Q R QR) V (map Q2R3 V).
Proof. induction V; simpl; constructor; auto using vec3_R_QR. Qed.

Theorem signed_volume_transfer TT :
  Q2R (signed_volume Qops TT) = signed_volume Rops (map Q2Rt TT).
Proof. exact (signed_volume_R Q R QR Qops Rops ops_rel TT _ (tris_R_QR TT)). Qed.

Theorem centroid_code_transfer vol i TT :
  Q2R (centroid_code Qops vol i TT) = centroid_code Rops (Q2R vol) i (map Q2Rt TT).
Proof.
  exact (centroid_code_R Q R QR Qops Rops ops_rel vol _ eq_refl i i (nat_R_refl i) TT _ (tris_R_QR TT)).
Qed.

Theorem inertia_code_transfer vol c i j TT :
  Q2R (inertia_code Qops vol c i j TT)
  = inertia_code Rops (Q2R vol) (Q2R3 c) i j (map Q2Rt TT).
Proof.
  exact (inertia_code_R Q R QR Qops Rops ops_rel vol _ eq_refl c _ (vec3_R_QR c)
           i i (nat_R_refl i) j j (nat_R_refl j) TT _ (tris_R_QR TT)).
Qed.

Theorem cone0_transfer TT : Q2R (cone0 Qops TT) = cone0 Rops (map Q2Rt TT).
Proof. exact (cone0_R Q R QR Qops Rops ops_rel TT _ (tris_R_QR TT)). Qed.

Theorem spec_centroid_transfer i TT :
  Q2R (spec_centroid Qops i TT) = spec_centroid Rops i (map Q2Rt TT).
Proof. exact (spec_centroid_R Q R QR Qops Rops ops_rel i i (nat_R_refl i) TT _ (tris_R_QR TT)). Qed.

Theorem spec_inertia_transfer i j TT :
  Q2R (spec_inertia Qops i j TT) = spec_inertia Rops i j (map Q2Rt TT).
Proof.
  exact (spec_inertia_R Q R QR Qops Rops ops_rel i i (nat_R_refl i) j j (nat_R_refl j)
           TT _ (tris_R_QR TT)).
Qed.

Theorem eberly_centroid_transfer i TT :
  Q2R (eberly_centroid Qops i TT) = eberly_centroid Rops i (map Q2Rt TT).
Proof. exact (eberly_centroid_R Q R QR Qops Rops ops_rel i i (nat_R_refl i) TT _ (tris_R_QR TT)). Qed.

Theorem kallay_inertia_transfer b vol c i j TT :
  Q2R (kallay_inertia Qops b vol c i j TT)
  = kallay_inertia Rops b (Q2R vol) (Q2R3 c) i j (map Q2Rt TT).
Proof.
  exact (kallay_inertia_R Q R QR Qops Rops ops_rel b b (bool_R_of_eq b b eq_refl) vol _ eq_refl
           c _ (vec3_R_QR c) i i (nat_R_refl i) j j (nat_R_refl j) TT _ (tris_R_QR TT)).
Qed.

Theorem hull_excess_transfer V TT :
  Q2R (hull_excess Qops V TT) = hull_excess Rops (map Q2R3 V) (map Q2Rt TT).
Proof. exact (hull_excess_R Q R QR Qops Rops ops_rel V _ (vecs_R_QR V) TT _ (tris_R_QR TT)). Qed.
