(* Cutting a vertex cycle along a chord: for an antisymmetric edge functional the sum over the cycle
   a -> X -> b -> Y -> a  equals the sum over  a -> X -> b -> a  plus the sum over  b -> Y -> a -> b
   (the chord is traversed once in each direction).  By induction this gives "polygon = sum of its fan
   triangles" for the shoelace sums (C04), the vector area, and the form-factor line integral (C12). *)
From Coq Require Import Reals List Permutation Lra Lia.
Require Import Cox.Geo.Vec Cox.Geo.Sums Cox.Thm.InsideThm.
Import ListNotations.
Local Open Scope R_scope.

Section Split.
  Context {A : Type}.
  (* consecutive pairs of the path a, l *)
  Fixpoint chain (a : A) (l : list A) : list (A * A) :=
    match l with [] => [] | b :: r => (a, b) :: chain b r end.
  Fixpoint lst (a : A) (l : list A) : A := match l with [] => a | b :: r => lst b r end.

  Lemma chain_app a l b r : chain a (l ++ b :: r) = chain a (l ++ [b]) ++ chain b r.
  Proof. revert a. induction l as [|c l IH]; intros a; simpl; [reflexivity|]. f_equal. apply IH. Qed.
  Lemma chain_snoc a l b : chain a (l ++ [b]) = chain a l ++ [(lst a l, b)].
  Proof. revert a. induction l as [|c l IH]; intros a; simpl; [reflexivity|]. f_equal. apply IH. Qed.
  Lemma lst_app a l b r : lst a (l ++ b :: r) = lst b r.
  Proof. revert a. induction l as [|c l IH]; intros a; simpl; [reflexivity|]. apply IH. Qed.

  Lemma combine_roll a l x : combine (a :: l) (l ++ [x]) = chain a l ++ [(lst a l, x)].
  Proof. revert a. induction l as [|b l IH]; intros a; simpl; [reflexivity|]. f_equal. apply IH. Qed.

  (* the cyclic pairs are the path's pairs plus the closing edge *)
  Lemma cpairs_chain a l : cpairs (a :: l) = chain a l ++ [(lst a l, a)].
  Proof. unfold cpairs, roll. apply combine_roll. Qed.

  Variable f : A * A -> R.
  Hypothesis anti : forall a b, f (b, a) = - f (a, b).
  Definition cyc (l : list A) : R := Rsum (map f (cpairs l)).

  Theorem cycle_split (a b : A) (X Y : list A) :
    cyc (a :: X ++ b :: Y) = cyc (a :: X ++ [b]) + cyc (b :: Y ++ [a]).
  Proof.
    unfold cyc. rewrite !cpairs_chain.
    rewrite (chain_app a X b Y), (lst_app a X b Y), (lst_app a X b []), (lst_app b Y a []).
    rewrite (chain_snoc b Y a). cbn [lst].
    rewrite !map_app, !Rsum_app. simpl. rewrite (anti a b). lra.
  Qed.

  (* a triangle fan: a polygon's cyclic sum is the sum over its fan triangles (apex = first vertex) *)
  Fixpoint fan (a b : A) (l : list A) : R :=
    match l with [] => 0 | c :: r => cyc [a; b; c] + fan a c r end.

  Lemma cyc_two a b : cyc [a; b] = 0.
  Proof. unfold cyc, cpairs, roll. simpl. rewrite (anti a b). lra. Qed.

  Theorem cycle_is_fan a b l : cyc (a :: b :: l) = fan a b l.
  Proof.
    revert b. induction l as [|c l IH]; intros b; cbn [fan]; [apply cyc_two|].
    (* cut along the chord a - c :  a -> [b] -> c -> l -> a *)
    pose proof (cycle_split a c [b] l) as H. cbn [app] in H. rewrite H.
    rewrite <- IH. f_equal.
    (* the second piece  c -> l -> a -> c  is a rotation of  a -> c -> l *)
    unfold cyc. apply Rsum_map_perm.
    change (c :: l ++ [a]) with (roll (a :: c :: l)). apply cpairs_roll.
  Qed.
End Split.
