From Coq Require Import Reals List Lra Psatz.
Require Import Cox.Geo.Sums Cox.Model.Steiner.
Import ListNotations.
Local Open Scope R_scope.

Lemma PI_neq0' : PI <> 0. Proof. apply PI_neq0. Qed.

(* exterior angle of an edge = angle between the outward normals *)
Theorem exterior_angle c : -1 <= c <= 1 -> PI - dihedral c = acos c.
Proof. intros H. unfold dihedral. rewrite acos_opp. ring. Qed.

Theorem dihedral_range c : -1 <= c <= 1 -> 0 <= dihedral c <= PI.
Proof. intros H. unfold dihedral. apply acos_bound. Qed.

(* Steiner polynomial of the spheropolyhedron, with the code's normalisation of M *)
Theorem sphero_volume_steiner V S r E :
  sphero_volume V S r E = V + S * r + 4 * PI * mean_curvature E * r ^ 2 + 4 / 3 * PI * r ^ 3.
Proof.
  unfold sphero_volume, mean_curvature.
  assert (H : Rsum (map (fun e : R * R => PI * r ^ 2 * ((PI - snd e) / (2 * PI)) * fst e) E)
            = r ^ 2 / 2 * Rsum (map (fun e : R * R => fst e * (PI - snd e)) E)).
  { rewrite <- Rsum_map_scale. apply Rsum_map_ext. intros e _. field. apply PI_neq0. }
  rewrite H. field. apply PI_neq0.
Qed.

Theorem sphero_area_steiner S r E :
  sphero_area S r E = S + 8 * PI * mean_curvature E * r + 4 * PI * r ^ 2.
Proof.
  unfold sphero_area, mean_curvature.
  assert (H : Rsum (map (fun e : R * R => 2 * PI * r * ((PI - snd e) / (2 * PI)) * fst e) E)
            = r * Rsum (map (fun e : R * R => fst e * (PI - snd e)) E)).
  { rewrite <- Rsum_map_scale. apply Rsum_map_ext. intros e _. field. apply PI_neq0. }
  rewrite H. field. apply PI_neq0.
Qed.

Theorem sphero_curvature r E : sphero_mean_curvature r E = mean_curvature E + r.
Proof. reflexivity. Qed.

Theorem sphero_r0 V S E :
  sphero_volume V S 0 E = V /\ sphero_area S 0 E = S /\ sphero_mean_curvature 0 E = mean_curvature E.
Proof.
  rewrite sphero_volume_steiner, sphero_area_steiner. unfold sphero_mean_curvature. repeat split; ring.
Qed.

(* spheropolygon *)
Theorem spheropolygon_area A P r : 0 <= P -> 0 <= r ->
  spg_area A P r = Rabs A + P * r + PI * r ^ 2.
Proof.
  intros HP Hr. unfold spg_area, spg_signed_area.
  assert (Hs : 0 <= P * r + PI * r * r).
  { assert (0 < PI) by apply PI_RGT_0. nra. }
  destruct (Rlt_dec A 0) as [Hn|Hn].
  - rewrite (Rabs_left A Hn). rewrite Rabs_left; [ring | lra].
  - apply Rnot_lt_le in Hn. rewrite (Rabs_right A) by lra. rewrite Rabs_right; [ring | lra].
Qed.
Theorem spheropolygon_signed_area_ccw A P r : 0 <= A ->
  spg_signed_area A P r = A + P * r + PI * r ^ 2.
Proof. intros HA. unfold spg_signed_area. destruct (Rlt_dec A 0); [lra | ring]. Qed.
Theorem spheropolygon_perimeter P r : spg_perimeter P r = P + 2 * PI * r.
Proof. reflexivity. Qed.
Theorem spheropolygon_r0 A P : spg_area A P 0 = Rabs A /\ spg_perimeter P 0 = P.
Proof.
  split; [|unfold spg_perimeter; ring].
  unfold spg_area, spg_signed_area. replace (P * 0 + PI * 0 * 0) with 0 by ring.
  destruct (Rlt_dec A 0); f_equal; ring.
Qed.
