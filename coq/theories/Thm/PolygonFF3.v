(* C12: the polygon method on ANY plane.  For a polygon of any size whose fan triangles (v0, v_i, v_i+1) lie in the plane with unit
   normal n (non-degenerate), and every wave vector generic for the fan, the edge sum of Polygon.compute_form_factor_amplitude (with the
   wave vector projected into the plane, as the method does) is the sum over the fan of
       (n . (b-a) x (c-a)) * int_0^1 int_0^(1-u) exp(-i q_par.(a + u (b-a) + v (c-a))) dv du . *)
From Coq Require Import Reals List Lra.
From mathcomp Require Import ssreflect.
From Coquelicot Require Import Coquelicot.
Require Import Cox.Num.Ops Cox.Geo.Vec Cox.Model.FormFactor Cox.Thm.FormFactorThm Cox.Thm.FormFactorIntegral Cox.Thm.TriangleFF
  Cox.Thm.TetraInt Cox.Thm.FaceFF.
Import ListNotations.
Local Open Scope R_scope.

Definition tri3_fourier (n q a b c : V3) : Cx :=
  let p := qpar n q in
  let A := vdot Rops p a in let be := vdot Rops p (vsub Rops b a) in let ga := vdot Rops p (vsub Rops c a) in
  cscale (vdot Rops n (vcross Rops (vsub Rops b a) (vsub Rops c a)))
    (RInt (fun u => RInt (fun v => cos (A + u * be + v * ga)) 0 (1 - u)) 0 1,
     - RInt (fun u => RInt (fun v => sin (A + u * be + v * ga)) 0 (1 - u)) 0 1).

Definition tri3_ok (n q a b c : V3) : Prop :=
  let p := qpar n q in
  let be := vdot Rops p (vsub Rops b a) in let ga := vdot Rops p (vsub Rops c a) in
  (exists s, s <> 0 /\ vcross Rops (vsub Rops b a) (vsub Rops c a) = vscale Rops s n) /\ be <> 0 /\ ga <> 0 /\ be <> ga.

Fixpoint fan3_fourier (n q a b : V3) (l : list V3) : Cx :=
  match l with [] => (0, 0) | c :: r => cadd (tri3_fourier n q a b c) (fan3_fourier n q a c r) end.
Fixpoint generic_fan3 (n q a b : V3) (l : list V3) : Prop :=
  match l with [] => True | c :: r => tri3_ok n q a b c /\ generic_fan3 n q a c r end.

Lemma triangle3_case n q a b c : vdot Rops n n = 1 -> tri3_ok n q a b c ->
  polygon_ff n (qpar n q) [a; b; c] = tri3_fourier n q a b c.
Proof.
  move=> Hn [[s [Hs HN]] [Hb [Hg Hbg]]].
  rewrite (triangle_any_plane_is_fourier n q a b c s Hn Hs HN Hb Hg Hbg) /tri3_fourier.
  rewrite HN dot_scale Hn Rmult_1_r. reflexivity.
Qed.

Theorem polygon_any_plane_is_fan_of_fourier_integrals n q a b l :
  vdot Rops n n = 1 -> generic_fan3 n q a b l ->
  polygon_ff n (qpar n q) (a :: b :: l) = fan3_fourier n q a b l.
Proof.
  move=> Hn. rewrite ff_is_fan. elim: l b => [|c r IH] b H; cbn [ff_fan fan3_fourier]; first by [].
  case: H => [Ht Hr]. by rewrite (triangle3_case n q a b c Hn Ht) (IH c Hr).
Qed.

(* non-vacuity: a quadrilateral in the tilted plane x + 2y + 2z = 3 with n = (1,2,2)/3, q = (1, 3, 5) *)
Example generic_fan3_example :
  let n : V3 := (/ 3, 2 / 3, 2 / 3) in
  vdot Rops n n = 1 /\ generic_fan3 n (1, 3, 5) (3, 0, 0) (1, 1, 0) [(1, 0, 1); (3, -1, 1)].
Proof.
  cbn zeta. split; first by (rewrite /vdot /vx /vy /vz; cbn [fst snd omul oadd Rops]; field).
  cbn [generic_fan3]. rewrite /tri3_ok /qpar. split; [|split; [|exact I]].
  - split; [exists 3; split; [lra | unf; f_equal; [f_equal|]; field] | unf; repeat split; lra].
  - split; [exists 3; split; [lra | unf; f_equal; [f_equal|]; field] | unf; repeat split; lra].
Qed.

(* ---- ... and without the genericity condition: every wave vector whose projection into the plane is not zero ---- *)
Require Import Cox.Thm.TriDegenerateFF.

Definition tri3_planar (n a b c : V3) : Prop :=
  exists s, s <> 0 /\ vcross Rops (vsub Rops b a) (vsub Rops c a) = vscale Rops s n.
Fixpoint planar_fan3 (n a b : V3) (l : list V3) : Prop :=
  match l with [] => True | c :: r => tri3_planar n a b c /\ planar_fan3 n a c r end.

Theorem polygon_any_plane_all_directions n q a b l :
  vdot Rops n n = 1 -> planar_fan3 n a b l -> vdot Rops (qpar n q) (qpar n q) <> 0 ->
  polygon_ff n (qpar n q) (a :: b :: l) = fan3_fourier n q a b l.
Proof.
  move=> Hn Hp HQ. rewrite ff_is_fan. elim: l b Hp => [|c r IH] b H; cbn [ff_fan fan3_fourier]; first by [].
  case: H => [[s [Hs HN]] Hr].
  rewrite (triangle_any_plane_all_directions n q a b c s Hn Hs HN HQ) (IH c Hr) /tri3_fourier.
  rewrite HN dot_scale Hn Rmult_1_r. reflexivity.
Qed.
