(* C12: for a triangle in the xy-plane and an in-plane wave vector in generic position, the code's line-integral
   formula IS the Fourier integral of the triangle's indicator:
       polygon_ff z q [a;b;c] = J * int_0^1 int_0^{1-u} exp(-i q.(a + u (b-a) + v (c-a))) dv du,   J = (b-a) x (c-a)
   (affine parametrisation of the triangle over the standard simplex; Coquelicot RInt; real and imaginary parts). *)
From Coq Require Import Reals List Lra.
From mathcomp Require Import ssreflect.
From Coquelicot Require Import Coquelicot.
Require Import Cox.Num.Ops Cox.Geo.Vec Cox.Model.FormFactor Cox.Thm.FormFactorThm Cox.Thm.CurvedIntegrals.
Import ListNotations.
Local Open Scope R_scope.

(* ---- the double integrals in closed form ---- *)
Lemma tri_cos_integral A be ga : be <> 0 -> ga <> 0 -> be <> ga ->
  RInt (fun u => RInt (fun v => cos (A + u * be + v * ga)) 0 (1 - u)) 0 1
  = ((cos (A + ga) - cos (A + be)) / (be - ga) - (cos A - cos (A + be)) / be) / ga.
Proof.
  move=> Hb Hg Hbg.
  rewrite (RInt_ext _ (fun u => (sin (A + ga + u * (be - ga)) - sin (A + u * be)) / ga)).
  2:{ move=> u _.
      by_antiderivative (fun v => sin (A + u * be + v * ga) / ga) ltac:(field; exact Hg)
        ltac:(replace (A + u * be + (1 - u) * ga) with (A + ga + u * (be - ga)) by ring;
              replace (A + u * be + 0 * ga) with (A + u * be) by ring; field; exact Hg). }
  have Hd : be - ga <> 0 by lra.
  by_antiderivative (fun u => (- cos (A + ga + u * (be - ga)) / (be - ga) + cos (A + u * be) / be) / ga)
    ltac:(field; repeat split; assumption)
    ltac:(replace (A + ga + 1 * (be - ga)) with (A + be) by ring; replace (A + ga + 0 * (be - ga)) with (A + ga) by ring;
          replace (A + 1 * be) with (A + be) by ring; replace (A + 0 * be) with A by ring; field; repeat split; assumption).
Qed.

Lemma tri_sin_integral A be ga : be <> 0 -> ga <> 0 -> be <> ga ->
  RInt (fun u => RInt (fun v => sin (A + u * be + v * ga)) 0 (1 - u)) 0 1
  = (- (sin (A + be) - sin (A + ga)) / (be - ga) + (sin (A + be) - sin A) / be) / ga.
Proof.
  move=> Hb Hg Hbg.
  rewrite (RInt_ext _ (fun u => (- cos (A + ga + u * (be - ga)) + cos (A + u * be)) / ga)).
  2:{ move=> u _.
      by_antiderivative (fun v => - cos (A + u * be + v * ga) / ga) ltac:(field; exact Hg)
        ltac:(replace (A + u * be + (1 - u) * ga) with (A + ga + u * (be - ga)) by ring;
              replace (A + u * be + 0 * ga) with (A + u * be) by ring; field; exact Hg). }
  have Hd : be - ga <> 0 by lra.
  by_antiderivative (fun u => (- sin (A + ga + u * (be - ga)) / (be - ga) + sin (A + u * be) / be) / ga)
    ltac:(field; repeat split; assumption)
    ltac:(replace (A + ga + 1 * (be - ga)) with (A + be) by ring; replace (A + ga + 0 * (be - ga)) with (A + ga) by ring;
          replace (A + 1 * be) with (A + be) by ring; replace (A + 0 * be) with A by ring; field; repeat split; assumption).
Qed.

Lemma qq_zero q e : vdot Rops q q = 0 -> vdot Rops q e = 0.
Proof.
  vsimp q; vsimp e. unf. move=> H.
  have Hx : x = 0 by nra. have Hy : y = 0 by nra. have Hz : z = 0 by nra. subst. ring.
Qed.

(* ---- an edge term in closed form (q.e <> 0) ---- *)
Lemma edge_term_closed n q a b :
  vdot Rops q (vsub Rops b a) <> 0 ->
  edge_term n q a b
  = cscale (vdot Rops (vcross Rops (vsub Rops b a) q) n / vdot Rops q q / vdot Rops q (vsub Rops b a))
      (cos (vdot Rops q b) - cos (vdot Rops q a), - (sin (vdot Rops q b) - sin (vdot Rops q a))).
Proof.
  move=> Hd. set (de := vdot Rops q (vsub Rops b a)) in *.
  have Hm : vdot Rops q (vscale Rops (/ 2) (vadd Rops a b)) = (vdot Rops q b + vdot Rops q a) / 2.
  { vsimp q; vsimp a; vsimp b. unf. field. }
  have Hde : de = vdot Rops q b - vdot Rops q a.
  { rewrite /de. vsimp q; vsimp a; vsimp b. unf. ring. }
  rewrite /edge_term. cbv zeta. fold de. rewrite Hm.
  rewrite /sincR. case: (Req_EM_T (de / 2) 0) => [H0|H0]; first by exfalso; lra.
  rewrite (form2 (vdot Rops q b) (vdot Rops q a)) (form4 (vdot Rops q b) (vdot Rops q a)) -Hde.
  rewrite /cscale /cmul /cexp_i. cbn [fst snd]. rewrite cos_neg sin_neg.
  apply cx_eq; cbn [fst snd]; field; split; try exact Hd; auto.
  all: move=> Hq; apply Hd; rewrite /de; exact: qq_zero.
Qed.

(* ---- the triangle ---- *)
Theorem triangle_ff_is_fourier (a1 a2 b1 b2 c1 c2 q1 q2 : R) :
  let a : vec3 R := (a1, a2, 0) in let b : vec3 R := (b1, b2, 0) in let c : vec3 R := (c1, c2, 0) in
  let q : vec3 R := (q1, q2, 0) in
  let A := q1 * a1 + q2 * a2 in
  let be := q1 * (b1 - a1) + q2 * (b2 - a2) in
  let ga := q1 * (c1 - a1) + q2 * (c2 - a2) in
  let J := (b1 - a1) * (c2 - a2) - (b2 - a2) * (c1 - a1) in
  be <> 0 -> ga <> 0 -> be <> ga ->
  polygon_ff (0, 0, 1) q [a; b; c]
  = (J * RInt (fun u => RInt (fun v => cos (A + u * be + v * ga)) 0 (1 - u)) 0 1,
     - (J * RInt (fun u => RInt (fun v => sin (A + u * be + v * ga)) 0 (1 - u)) 0 1)).
Proof.
  move=> a b c q A be ga J Hb Hg Hbg.
  rewrite (tri_cos_integral A be ga Hb Hg Hbg) (tri_sin_integral A be ga Hb Hg Hbg).
  have QA : vdot Rops q a = A by rewrite /q /a /A; unf; ring.
  have QB : vdot Rops q b = A + be by rewrite /q /b /A /be; unf; ring.
  have QC : vdot Rops q c = A + ga by rewrite /q /c /A /ga; unf; ring.
  have Dab : vdot Rops q (vsub Rops b a) = be by rewrite /q /a /b /be; unf; ring.
  have Dbc : vdot Rops q (vsub Rops c b) = ga - be by rewrite /q /c /b /be /ga; unf; ring.
  have Dca : vdot Rops q (vsub Rops a c) = - ga by rewrite /q /a /c /ga; unf; ring.
  rewrite /polygon_ff /cpairs /roll. cbn [app combine map csum fold_right fst snd].
  rewrite (edge_term_closed _ q a b); last by rewrite Dab.
  rewrite (edge_term_closed _ q b c); last by rewrite Dbc; lra.
  rewrite (edge_term_closed _ q c a); last by rewrite Dca; lra.
  rewrite Dab Dbc Dca QA QB QC.
  have Hqq : q1 * q1 + q2 * q2 <> 0.
  { move=> H0. apply Hb. rewrite /be. have H1 : q1 = 0 by nra. have H2 : q2 = 0 by nra. subst q1 q2. ring. }
  rewrite /cadd /cscale /q /a /b /c /J. unf.
  apply cx_eq; cbn [fst snd]; rewrite /be /ga /A; field; repeat split; try assumption; try lra.
  all: move=> H0; apply Hbg; rewrite /be /ga; lra.
Qed.
