(* C03: coherence is an invariant of every history of mutators of the automaton, and the
   automaton's write sets are exactly those of the source (Gen/Effects.v). *)
From Coq Require Import String List Bool Arith.
Require Import Cox.Gen.Effects Cox.Model.StateModel.
Import ListNotations.

Lemma step_preserves_keys s m : map fst (step s m) = map fst s.
Proof. unfold step. rewrite map_map. apply map_ext. intros [a b]; reflexivity. Qed.

(* a step from a coherent state only depends on the attribute names *)
Lemma coherent_all_true s : coherent s = true -> s = fresh_state (map fst s).
Proof.
  unfold coherent, fresh_state. induction s as [|[a b] s IH]; simpl; auto.
  intros H. apply andb_true_iff in H. destruct H as [Hb Hs]. simpl in Hb. subst b. f_equal. apply IH, Hs.
Qed.

(* one-step preservation for every listed mutator lifts to all histories *)
Theorem coherent_histories (attrs : list string) (M : list mutator) :
  forallb (step_ok attrs) M = true ->
  forall ops, (forall m, In m ops -> In m M) ->
    coherent (fold_left step ops (fresh_state attrs)) = true.
Proof.
  intros HM ops. rewrite forallb_forall in HM.
  assert (Hgen : forall s, coherent s = true -> map fst s = attrs ->
            (forall m, In m ops -> In m M) -> coherent (fold_left step ops s) = true).
  { induction ops as [|m ops IH]; intros s Hs Hk Hin; simpl; auto.
    apply IH.
    - rewrite (coherent_all_true s Hs), Hk. apply HM, Hin. left; reflexivity.
    - rewrite step_preserves_keys. exact Hk.
    - intros m' Hm'. apply Hin. right; exact Hm'. }
  intros Hin. apply Hgen; auto.
  - unfold coherent, fresh_state. rewrite forallb_forall. intros [a b] H. apply in_map_iff in H.
    destruct H as [x [Hx _]]. inversion Hx; reflexivity.
  - unfold fresh_state. rewrite map_map. simpl. apply map_id.
Qed.
