From Coq Require Import Reals List Permutation Lra.
Require Import Cox.Num.Ops Cox.Geo.Vec Cox.Geo.Sums Cox.Model.FormFactor Cox.Thm.InsideThm.
Import ListNotations.
Local Open Scope R_scope.

Lemma sincR_even x : sincR (- x) = sincR x.
Proof.
  unfold sincR. destruct (Req_EM_T x 0) as [->|Hx].
  - rewrite Ropp_0. destruct (Req_EM_T 0 0); [reflexivity | contradiction].
  - destruct (Req_EM_T (- x) 0) as [H|H]; [exfalso; lra|]. rewrite sin_neg. field. exact Hx.
Qed.

Lemma cx_eq (a b : Cx) : fst a = fst b -> snd a = snd b -> a = b.
Proof. destruct a, b; simpl; intros -> ->; reflexivity. Qed.

Lemma csum_perm a b : Permutation a b -> csum a = csum b.
Proof.
  induction 1; simpl; auto.
  - rewrite IHPermutation; reflexivity.
  - unfold cadd; simpl. apply cx_eq; simpl; ring.
  - congruence.
Qed.
Lemma csum_map_conj {A} (f : A -> Cx) l : csum (map (fun x => cconj (f x)) l) = cconj (csum (map f l)).
Proof. induction l; simpl; [unfold cconj; simpl; f_equal; ring|]. rewrite IHl. unfold cadd, cconj; simpl. apply cx_eq; simpl; ring. Qed.
Lemma csum_map_opp {A} (f : A -> Cx) l : csum (map (fun x => copp (f x)) l) = copp (csum (map f l)).
Proof. induction l; simpl; [unfold copp; simpl; f_equal; ring|]. rewrite IHl. unfold cadd, copp; simpl. apply cx_eq; simpl; ring. Qed.
Lemma csum_map_mul {A} (z : Cx) (f : A -> Cx) l : csum (map (fun x => cmul z (f x)) l) = cmul z (csum (map f l)).
Proof. induction l; simpl; [unfold cmul; simpl; f_equal; ring|]. rewrite IHl. unfold cadd, cmul; simpl. apply cx_eq; simpl; ring. Qed.
Lemma csum_map_ext {A} (f g : A -> Cx) l : (forall x, In x l -> f x = g x) -> csum (map f l) = csum (map g l).
Proof. induction l; simpl; intros H; auto. rewrite H, IHl; auto. Qed.

Ltac vsimp v := let x := fresh "x" in let y := fresh "y" in let z := fresh "z" in destruct v as [[x y] z].
Ltac unf := unfold edge_term, cscale, cmul, cexp_i, cconj, copp, vdot, vcross, vsub, vadd, vscale, vopp, vx, vy, vz in *;
            cbn [fst snd oadd omul osub oopp Rops] in *.

(* ---- F(-q) = conj F(q) ---- *)
Lemma edge_term_conj n q a b : edge_term n (vopp Rops q) a b = cconj (edge_term n q a b).
Proof.
  vsimp n; vsimp q; vsimp a; vsimp b. unf.
  set (A := (x1 * x0 + y1 * y0 + z1 * z0)) in *.
  match goal with |- context [sincR ?u] => replace u with (- ((x0 * (x2 - x1) + y0 * (y2 - y1) + z0 * (z2 - z1)) / 2)) by field end.
  rewrite sincR_even.
  match goal with |- context [cos (- ?u)] => replace u with (- (x0 * (/ 2 * (x1 + x2)) + y0 * (/ 2 * (y1 + y2)) + z0 * (/ 2 * (z1 + z2)))) by ring end.
  rewrite !Ropp_involutive. rewrite cos_neg, sin_neg.
  set (th := x0 * (/ 2 * (x1 + x2)) + y0 * (/ 2 * (y1 + y2)) + z0 * (/ 2 * (z1 + z2))).
  set (S := sincR ((x0 * (x2 - x1) + y0 * (y2 - y1) + z0 * (z2 - z1)) / 2)).
  destruct (Req_EM_T (x0 * x0 + y0 * y0 + z0 * z0) 0) as [H0|H0].
  - apply cx_eq; simpl; unfold Rdiv; replace (- x0 * - x0 + - y0 * - y0 + - z0 * - z0) with (x0 * x0 + y0 * y0 + z0 * z0) by ring;
      rewrite H0, Rinv_0; ring.
  - apply cx_eq; simpl; field; try exact H0; replace (- x0 * - x0 + - y0 * - y0 + - z0 * - z0) with (x0 * x0 + y0 * y0 + z0 * z0) by ring; exact H0.
Qed.

Theorem ff_conj n q V : polygon_ff n (vopp Rops q) V = cconj (polygon_ff n q V).
Proof.
  unfold polygon_ff. rewrite <- csum_map_conj. apply csum_map_ext. intros [a b] _. apply edge_term_conj.
Qed.

(* ---- reversing the vertex order negates the line integral ---- *)
Lemma edge_term_rev n q a b : edge_term n q b a = copp (edge_term n q a b).
Proof.
  vsimp n; vsimp q; vsimp a; vsimp b. unf.
  match goal with |- context [sincR ((x0 * (x1 - x2) + y0 * (y1 - y2) + z0 * (z1 - z2)) / 2)] =>
    replace ((x0 * (x1 - x2) + y0 * (y1 - y2) + z0 * (z1 - z2)) / 2) with (- ((x0 * (x2 - x1) + y0 * (y2 - y1) + z0 * (z2 - z1)) / 2)) by field end.
  rewrite sincR_even.
  replace (x0 * (/ 2 * (x2 + x1)) + y0 * (/ 2 * (y2 + y1)) + z0 * (/ 2 * (z2 + z1)))
     with (x0 * (/ 2 * (x1 + x2)) + y0 * (/ 2 * (y1 + y2)) + z0 * (/ 2 * (z1 + z2))) by ring.
  apply cx_eq; simpl; unfold Rdiv; ring.
Qed.

Theorem ff_reverse n q V : polygon_ff n q (rev V) = copp (polygon_ff n q V).
Proof.
  unfold polygon_ff.
  rewrite (csum_perm _ _ (Permutation_map _ (cpairs_rev V))). rewrite map_map. cbn [fst snd].
  rewrite <- csum_map_opp. apply csum_map_ext. intros [a b] _. cbn [fst snd]. apply edge_term_rev.
Qed.

(* ---- translating the polygon by t multiplies by the phase e^{-i q.t} ---- *)
Lemma edge_term_shift n q t a b :
  edge_term n q (vadd Rops a t) (vadd Rops b t) = cmul (cexp_i (- vdot Rops q t)) (edge_term n q a b).
Proof.
  vsimp n; vsimp q; vsimp t; vsimp a; vsimp b. unf.
  replace (x0 * (x3 + x1 - (x2 + x1)) + y0 * (y3 + y1 - (y2 + y1)) + z0 * (z3 + z1 - (z2 + z1)))
     with (x0 * (x3 - x2) + y0 * (y3 - y2) + z0 * (z3 - z2)) by ring.
  replace (- (x0 * (/ 2 * (x2 + x1 + (x3 + x1))) + y0 * (/ 2 * (y2 + y1 + (y3 + y1))) + z0 * (/ 2 * (z2 + z1 + (z3 + z1)))))
     with (- (x0 * x1 + y0 * y1 + z0 * z1) + - (x0 * (/ 2 * (x2 + x3)) + y0 * (/ 2 * (y2 + y3)) + z0 * (/ 2 * (z2 + z3)))) by field.
  rewrite cos_plus, sin_plus.
  replace (y3 + y1 - (y2 + y1)) with (y3 - y2) by ring. replace (z3 + z1 - (z2 + z1)) with (z3 - z2) by ring.
  replace (x3 + x1 - (x2 + x1)) with (x3 - x2) by ring.
  apply cx_eq; simpl; unfold Rdiv; ring.
Qed.

Theorem ff_translation n q t V :
  polygon_ff n q (map (fun v => vadd Rops v t) V) = cmul (cexp_i (- vdot Rops q t)) (polygon_ff n q V).
Proof.
  unfold polygon_ff. rewrite <- csum_map_mul.
  assert (Hc : cpairs (map (fun v => vadd Rops v t) V) = map (fun p => (vadd Rops (fst p) t, vadd Rops (snd p) t)) (cpairs V)).
  { unfold cpairs. rewrite <- map_roll.
    generalize (roll V). induction V as [|v V IH]; intros l; simpl; auto. destruct l; simpl; auto. f_equal. apply IH. }
  rewrite Hc, map_map. apply csum_map_ext. intros [a b] _. cbn [fst snd]. apply edge_term_shift.
Qed.
