(* C12: the degenerate wave-vector directions for a triangle (q perpendicular to one edge): closed forms of the double integrals. *)
From Coq Require Import Reals List Lra.
From mathcomp Require Import ssreflect.
From Coquelicot Require Import Coquelicot.
Require Import Cox.Thm.CurvedIntegrals.
Local Open Scope R_scope.

(* be = 0 *)
Lemma tri_cos_be0 A ga : ga <> 0 ->
  RInt (fun u => RInt (fun v => cos (A + u * 0 + v * ga)) 0 (1 - u)) 0 1 = (cos A - cos (A + ga)) / ga ^ 2 - sin A / ga.
Proof.
  move=> Hg.
  rewrite (RInt_ext _ (fun u => (sin (A + ga + u * (- ga)) - sin A) / ga)).
  2:{ move=> u _.
      by_antiderivative (fun v => sin (A + u * 0 + v * ga) / ga) ltac:(field; exact Hg)
        ltac:(replace (A + u * 0 + (1 - u) * ga) with (A + ga + u * (- ga)) by ring;
              replace (A + u * 0 + 0 * ga) with A by ring; field; exact Hg). }
  by_antiderivative (fun u => (cos (A + ga + u * (- ga)) / ga - u * sin A) / ga)
    ltac:(field; exact Hg)
    ltac:(replace (A + ga + 1 * (- ga)) with A by ring; replace (A + ga + 0 * (- ga)) with (A + ga) by ring; field; exact Hg).
Qed.
Lemma tri_sin_be0 A ga : ga <> 0 ->
  RInt (fun u => RInt (fun v => sin (A + u * 0 + v * ga)) 0 (1 - u)) 0 1 = (sin A - sin (A + ga)) / ga ^ 2 + cos A / ga.
Proof.
  move=> Hg.
  rewrite (RInt_ext _ (fun u => (- cos (A + ga + u * (- ga)) + cos A) / ga)).
  2:{ move=> u _.
      by_antiderivative (fun v => - cos (A + u * 0 + v * ga) / ga) ltac:(field; exact Hg)
        ltac:(replace (A + u * 0 + (1 - u) * ga) with (A + ga + u * (- ga)) by ring;
              replace (A + u * 0 + 0 * ga) with A by ring; field; exact Hg). }
  by_antiderivative (fun u => (sin (A + ga + u * (- ga)) / ga + u * cos A) / ga)
    ltac:(field; exact Hg)
    ltac:(replace (A + ga + 1 * (- ga)) with A by ring; replace (A + ga + 0 * (- ga)) with (A + ga) by ring; field; exact Hg).
Qed.

(* ga = 0 *)
Lemma tri_cos_ga0 A be : be <> 0 ->
  RInt (fun u => RInt (fun v => cos (A + u * be + v * 0)) 0 (1 - u)) 0 1 = (cos A - cos (A + be)) / be ^ 2 - sin A / be.
Proof.
  move=> Hb.
  rewrite (RInt_ext _ (fun u => (1 - u) * cos (A + u * be))).
  2:{ move=> u _.
      by_antiderivative (fun v => v * cos (A + u * be + v * 0)) ltac:(replace (A + u * be + t * 0) with (A + u * be) by ring; rewrite Rmult_0_r; ring)
        ltac:(replace (A + u * be + (1 - u) * 0) with (A + u * be) by ring; ring). }
  by_antiderivative (fun u => (1 - u) * sin (A + u * be) / be - cos (A + u * be) / be ^ 2)
    ltac:(field; exact Hb)
    ltac:(replace (A + 1 * be) with (A + be) by ring; replace (A + 0 * be) with A by ring; field; exact Hb).
Qed.
Lemma tri_sin_ga0 A be : be <> 0 ->
  RInt (fun u => RInt (fun v => sin (A + u * be + v * 0)) 0 (1 - u)) 0 1 = (sin A - sin (A + be)) / be ^ 2 + cos A / be.
Proof.
  move=> Hb.
  rewrite (RInt_ext _ (fun u => (1 - u) * sin (A + u * be))).
  2:{ move=> u _.
      by_antiderivative (fun v => v * sin (A + u * be + v * 0)) ltac:(replace (A + u * be + t * 0) with (A + u * be) by ring; rewrite Rmult_0_r; ring)
        ltac:(replace (A + u * be + (1 - u) * 0) with (A + u * be) by ring; ring). }
  by_antiderivative (fun u => - (1 - u) * cos (A + u * be) / be - sin (A + u * be) / be ^ 2)
    ltac:(field; exact Hb)
    ltac:(replace (A + 1 * be) with (A + be) by ring; replace (A + 0 * be) with A by ring; field; exact Hb).
Qed.

(* be = ga *)
Lemma tri_cos_eq A g : g <> 0 ->
  RInt (fun u => RInt (fun v => cos (A + u * g + v * g)) 0 (1 - u)) 0 1 = sin (A + g) / g + (cos (A + g) - cos A) / g ^ 2.
Proof.
  move=> Hg.
  rewrite (RInt_ext _ (fun u => (sin (A + g) - sin (A + u * g)) / g)).
  2:{ move=> u _.
      by_antiderivative (fun v => sin (A + u * g + v * g) / g) ltac:(field; exact Hg)
        ltac:(replace (A + u * g + (1 - u) * g) with (A + g) by ring;
              replace (A + u * g + 0 * g) with (A + u * g) by ring; field; exact Hg). }
  by_antiderivative (fun u => (u * sin (A + g) + cos (A + u * g) / g) / g)
    ltac:(field; exact Hg)
    ltac:(replace (A + 1 * g) with (A + g) by ring; replace (A + 0 * g) with A by ring; field; exact Hg).
Qed.
Lemma tri_sin_eq A g : g <> 0 ->
  RInt (fun u => RInt (fun v => sin (A + u * g + v * g)) 0 (1 - u)) 0 1 = - cos (A + g) / g + (sin (A + g) - sin A) / g ^ 2.
Proof.
  move=> Hg.
  rewrite (RInt_ext _ (fun u => (- cos (A + g) + cos (A + u * g)) / g)).
  2:{ move=> u _.
      by_antiderivative (fun v => - cos (A + u * g + v * g) / g) ltac:(field; exact Hg)
        ltac:(replace (A + u * g + (1 - u) * g) with (A + g) by ring;
              replace (A + u * g + 0 * g) with (A + u * g) by ring; field; exact Hg). }
  by_antiderivative (fun u => (- u * cos (A + g) + sin (A + u * g) / g) / g)
    ltac:(field; exact Hg)
    ltac:(replace (A + 1 * g) with (A + g) by ring; replace (A + 0 * g) with A by ring; field; exact Hg).
Qed.
