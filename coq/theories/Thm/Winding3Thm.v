(* C05: symmetries of the 3-D winding rule of Polyhedron.is_inside, for every triangle list and every point:
   reversing the orientation of every triangle negates the chain sum; rotating a triangle's vertices leaves it
   unchanged.  Hence the answer does not depend on the orientation convention nor on which vertex a triangle
   starts from, whenever the chain sum is even. *)
From Coq Require Import Reals ZArith List Permutation Lra Lia Bool.
Require Import Cox.Num.Ops Cox.Geo.Vec Cox.Geo.Sums Cox.Model.Mesh Cox.Model.Inside Cox.Thm.InsideThm.
Import ListNotations.
Local Open Scope R_scope.

Definition tflip (t : triR) : triR := (ta t, tc t, tb t).
Definition trot (t : triR) : triR := (tb t, tc t, ta t).

Lemma esign_opp a b c : esign Rops (- a, - b, - c) = (- esign Rops (a, b, c))%Z.
Proof. unfold esign. cbn [fst snd]. rewrite !sgn_R_opp. apply sign_or_opp. Qed.

Lemma ccross_anti (u v : vec3 R) :
  ccross Rops v u = (- fst (fst (ccross Rops u v)), - snd (fst (ccross Rops u v)), - snd (ccross Rops u v)).
Proof.
  destruct u as [[a b] c], v as [[d e] f]. unfold ccross, vx, vy, vz. cbn [fst snd osub omul Rops].
  f_equal; [f_equal|]; ring.
Qed.
Lemma esign_ccross_anti u v : esign Rops (ccross Rops v u) = (- esign Rops (ccross Rops u v))%Z.
Proof. rewrite ccross_anti. destruct (ccross Rops u v) as [[a b] c]. cbn [fst snd]. apply esign_opp. Qed.

Lemma zeqb_sym a b : Z.eqb a b = Z.eqb b a.
Proof. apply Z.eqb_sym. Qed.

Theorem tri_chain_flip p t : tri_chain Rops p (tflip t) = (- tri_chain Rops p t)%Z.
Proof.
  destruct t as [[a b] c]. unfold tri_chain, tflip, ta, tb, tc. cbn [fst snd].
  set (d0 := vsub Rops a p). set (d1 := vsub Rops b p). set (d2 := vsub Rops c p).
  set (s0 := vsign3 Rops p a). set (s1 := vsign3 Rops p b). set (s2 := vsign3 Rops p c).
  rewrite (esign_ccross_anti d2 d0), (esign_ccross_anti d1 d2), (esign_ccross_anti d0 d1).
  rewrite (zeqb_sym s0 s2), (zeqb_sym s2 s1), (zeqb_sym s1 s0).
  set (e0 := esign Rops (ccross Rops d0 d1)). set (e1 := esign Rops (ccross Rops d1 d2)). set (e2 := esign Rops (ccross Rops d2 d0)).
  assert (F : ((if (s2 =? s0)%Z then 0 else - e2) + (if (s1 =? s2)%Z then 0 else - e1) + (if (s0 =? s1)%Z then 0 else - e0)
              = - ((if (s0 =? s1)%Z then 0 else e0) + (if (s1 =? s2)%Z then 0 else e1) + (if (s2 =? s0)%Z then 0 else e2)))%Z).
  { destruct (s2 =? s0)%Z, (s1 =? s2)%Z, (s0 =? s1)%Z; lia. }
  rewrite F.
  set (fb := ((if (s0 =? s1)%Z then 0 else e0) + (if (s1 =? s2)%Z then 0 else e1) + (if (s2 =? s0)%Z then 0 else e2))%Z).
  destruct (Z.eqb_spec fb 0) as [E|E]; destruct (Z.eqb_spec (- fb) 0) as [E'|E']; try lia.
  rewrite <- sgn_R_opp. f_equal.
  subst d0 d1 d2. destruct a as [[a1 a2] a3], b as [[b1 b2] b3], c as [[c1 c2] c3], p as [[p1 p2] p3].
  unfold ccross, vsub, vx, vy, vz. cbn [fst snd osub omul oopp Rops]. ring.
Qed.

Theorem tri_chain_rot p t : tri_chain Rops p (trot t) = tri_chain Rops p t.
Proof.
  destruct t as [[a b] c]. unfold tri_chain, trot, ta, tb, tc. cbn [fst snd].
  set (d0 := vsub Rops a p). set (d1 := vsub Rops b p). set (d2 := vsub Rops c p).
  set (s0 := vsign3 Rops p a). set (s1 := vsign3 Rops p b). set (s2 := vsign3 Rops p c).
  set (e0 := esign Rops (ccross Rops d0 d1)). set (e1 := esign Rops (ccross Rops d1 d2)). set (e2 := esign Rops (ccross Rops d2 d0)).
  replace ((if (s1 =? s2)%Z then 0 else e1) + (if (s2 =? s0)%Z then 0 else e2) + (if (s0 =? s1)%Z then 0 else e0))%Z
     with ((if (s0 =? s1)%Z then 0 else e0) + (if (s1 =? s2)%Z then 0 else e1) + (if (s2 =? s0)%Z then 0 else e2))%Z by lia.
  destruct (Z.eqb _ 0); [reflexivity|]. f_equal.
  subst d0 d1 d2. destruct a as [[a1 a2] a3], b as [[b1 b2] b3], c as [[c1 c2] c3], p as [[p1 p2] p3].
  unfold ccross, vsub, vx, vy, vz. cbn [fst snd osub omul oopp Rops]. ring.
Qed.

Theorem chain_sum_flip p TT : chain_sum Rops p (map tflip TT) = (- chain_sum Rops p TT)%Z.
Proof.
  unfold chain_sum. rewrite map_map, <- zsum_map_opp. apply zsum_map_ext. intros t _. apply tri_chain_flip.
Qed.
Theorem chain_sum_rot p TT : chain_sum Rops p (map trot TT) = chain_sum Rops p TT.
Proof. unfold chain_sum. rewrite map_map. apply zsum_map_ext. intros t _. apply tri_chain_rot. Qed.

Theorem inside_polyhedron_flip p TT : Z.even (chain_sum Rops p TT) = true ->
  inside_polyhedron Rops p (map tflip TT) = inside_polyhedron Rops p TT.
Proof.
  intros Hev. unfold inside_polyhedron, wn3. rewrite chain_sum_flip.
  apply Z.even_spec in Hev. destruct Hev as [k Hk]. rewrite Hk.
  replace (- (2 * k))%Z with (2 * (- k))%Z by ring.
  rewrite !(Z.mul_comm 2), !Z.div_mul by lia.
  destruct (Z.eqb_spec (- k) 0), (Z.eqb_spec k 0); try lia; reflexivity.
Qed.
Theorem inside_polyhedron_rot p TT : inside_polyhedron Rops p (map trot TT) = inside_polyhedron Rops p TT.
Proof. unfold inside_polyhedron, wn3. rewrite chain_sum_rot. reflexivity. Qed.
