(* C15: the proper-crossing test of the simplicity oracle is sound — if the orientation signs
   are strictly opposite both ways, the two open segments have a common point (given explicitly). *)
From Coq Require Import Reals Lra Psatz Bool.
Require Import Cox.Num.Ops Cox.Geo.Vec Cox.Model.Simple.
Local Open Scope R_scope.

Notation V2 := (vec2 R).
Definition lerp (a b : V2) (t : R) : V2 := padd Rops a (pscale Rops t (psub Rops b a)).

Lemma opposite_spec x y : opposite Rops x y = true -> (0 < x /\ y < 0) \/ (x < 0 /\ 0 < y).
Proof.
  unfold opposite, pos, neg. cbn [oltb o0 Rops]. intros H.
  apply orb_true_iff in H. destruct H as [H|H]; apply andb_true_iff in H; destruct H as [H1 H2];
    apply Rltb_true in H1; apply Rltb_true in H2; [left | right]; split; assumption.
Qed.

Theorem proper_crossing_has_common_point (a b c d : V2) :
  opposite Rops (orient Rops c d a) (orient Rops c d b) = true ->
  opposite Rops (orient Rops a b c) (orient Rops a b d) = true ->
  exists t s, 0 < t < 1 /\ 0 < s < 1 /\ lerp a b t = lerp c d s.
Proof.
  intros H1 H2. apply opposite_spec in H1. apply opposite_spec in H2.
  set (o1 := orient Rops c d a) in *. set (o2 := orient Rops c d b) in *.
  set (o3 := orient Rops a b c) in *. set (o4 := orient Rops a b d) in *.
  exists (o1 / (o1 - o2)), (o3 / (o3 - o4)).
  assert (Hd1 : o1 - o2 <> 0) by (destruct H1; lra).
  assert (Hd2 : o3 - o4 <> 0) by (destruct H2; lra).
  assert (Ht : 0 < o1 / (o1 - o2) < 1).
  { destruct H1 as [[Ha Hb]|[Ha Hb]].
    - split; [apply Rdiv_lt_0_compat; lra|]. apply (Rmult_lt_reg_r (o1 - o2)); [lra|]. unfold Rdiv. rewrite Rmult_assoc, Rinv_l by lra. lra.
    - replace (o1 / (o1 - o2)) with ((- o1) / (o2 - o1)) by (field; lra).
      split; [apply Rdiv_lt_0_compat; lra|]. apply (Rmult_lt_reg_r (o2 - o1)); [lra|]. unfold Rdiv. rewrite Rmult_assoc, Rinv_l by lra. lra. }
  assert (Hs : 0 < o3 / (o3 - o4) < 1).
  { destruct H2 as [[Ha Hb]|[Ha Hb]].
    - split; [apply Rdiv_lt_0_compat; lra|]. apply (Rmult_lt_reg_r (o3 - o4)); [lra|]. unfold Rdiv. rewrite Rmult_assoc, Rinv_l by lra. lra.
    - replace (o3 / (o3 - o4)) with ((- o3) / (o4 - o3)) by (field; lra).
      split; [apply Rdiv_lt_0_compat; lra|]. apply (Rmult_lt_reg_r (o4 - o3)); [lra|]. unfold Rdiv. rewrite Rmult_assoc, Rinv_l by lra. lra. }
  repeat split; try (destruct Ht; assumption); try (destruct Hs; assumption).
  (* the two parametrisations give the same point: a polynomial identity after clearing denominators *)
  clear Ht Hs H1 H2. subst o1 o2 o3 o4.
  destruct a as [ax ay], b as [bx by'], c as [cx cy], d as [dx dy].
  unfold lerp, orient, pcross, psub, padd, pscale, px, py in *; cbn [fst snd oadd osub omul Rops] in *.
  f_equal; field; split; assumption.
Qed.
