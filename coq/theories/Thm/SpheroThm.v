(* C05, convex spheropolyhedra: theorems about the exact model of the algorithm (Model/Sphero.v) over the reals.
   1. The edge part of the face test (cylinder without caps, plus the spheres about its two end points) accepts a point exactly when
      the point is within r of the closed edge segment.
   2. Soundness of the face test: whenever a face is looked at and accepts the point, some point of that face (a point of the face plane
      inside all side planes) is within r of it.  Hence everything the algorithm accepts is in the core or within r of a face.
   Completeness (every point within r of the core is accepted) is decided per instance against the exact squared distance (harness). *)
From Coq Require Import Reals List Bool Lra Psatz Permutation.
From mathcomp Require Import ssreflect.
Require Import Cox.Num.Ops Cox.Geo.Vec Cox.Geo.Sums Cox.Model.FormFactor Cox.Thm.FormFactorThm Cox.Thm.FaceFF Cox.Model.Sphero.
Import ListNotations.
Local Open Scope R_scope.

Notation V3 := (vec3 R).
Definition dist2 (x y : V3) : R := vdot Rops (vsub Rops x y) (vsub Rops x y).
Definition on_seg (a b : V3) (t : R) : V3 := vadd Rops a (vscale Rops t (vsub Rops b a)).

Lemma sq3_zero u v w : u * u + v * v + w * w = 0 -> u = 0 /\ v = 0 /\ w = 0.
Proof.
  move=> H. have Hu := Rle_0_sqr u. have Hv := Rle_0_sqr v. have Hw := Rle_0_sqr w. rewrite /Rsqr in Hu Hv Hw.
  have U : u * u = 0 by lra. have V : v * v = 0 by lra. have W : w * w = 0 by lra.
  repeat split; [case: (Rmult_integral _ _ U) | case: (Rmult_integral _ _ V) | case: (Rmult_integral _ _ W)]; auto.
Qed.

Lemma sub_norm_pos (a b : V3) : a <> b -> 0 < vdot Rops (vsub Rops b a) (vsub Rops b a).
Proof.
  move: a b => [[a1 a2] a3] [[b1 b2] b3] Hab. unf.
  have Hn : (b1 - a1) * (b1 - a1) + (b2 - a2) * (b2 - a2) + (b3 - a3) * (b3 - a3) <> 0.
  { move=> H0. apply Hab. case: (sq3_zero _ _ _ H0) => [H1 [H2 H3]].
    have -> : b1 = a1 by lra. have -> : b2 = a2 by lra. have -> : b3 = a3 by lra. reflexivity. }
  have Hu := Rle_0_sqr (b1 - a1). have Hv := Rle_0_sqr (b2 - a2). have Hw := Rle_0_sqr (b3 - a3). rewrite /Rsqr in Hu Hv Hw. lra.
Qed.

(* ---- 1. the spherocylinder ---- *)
Theorem spherocylinder_spec r2 a b p : a <> b ->
  (in_cylinder Rops r2 a b p = true \/ in_cap Rops r2 a p = true \/ in_cap Rops r2 b p = true)
  <-> exists t, 0 <= t <= 1 /\ dist2 p (on_seg a b t) <= r2.
Proof.
  move=> Hab.
  rewrite /in_cylinder /in_cap. cbn [oleb o0 osub omul Rops].
  set e := vsub Rops b a. set w := vsub Rops p a. set ee := vdot Rops e e. set t0 := vdot Rops w e. set ww := vdot Rops w w.
  have Hee : 0 < ee by apply sub_norm_pos.
  have D : forall t, dist2 p (on_seg a b t) = ww - 2 * t * t0 + t * t * ee.
  { move=> t. rewrite /dist2 /on_seg /ww /t0 /ee /w /e. vsimp a; vsimp b; vsimp p. unf. ring. }
  have Db : vdot Rops (vsub Rops p b) (vsub Rops p b) = ww - 2 * t0 + ee.
  { rewrite /ww /t0 /ee /w /e. vsimp a; vsimp b; vsimp p. unf. ring. }
  rewrite Db. split.
  - case=> [H|[H|H]].
    + move: H => /andb_true_iff [/andb_true_iff [/Rleb_true H1 /Rleb_true H2] /Rleb_true H3].
      exists (t0 / ee). split.
      * split; [apply Rcomplements.Rdiv_le_0_compat | apply Rcomplements.Rle_div_l]; lra.
      * rewrite D. have -> : ww - 2 * (t0 / ee) * t0 + t0 / ee * (t0 / ee) * ee = (ww * ee - t0 * t0) / ee by field; lra.
        apply Rcomplements.Rle_div_l; lra.
    + move: H => /Rleb_true H. exists 0. split; first lra. rewrite D. lra.
    + move: H => /Rleb_true H. exists 1. split; first lra. rewrite D. lra.
  - case=> t [[Ht0 Ht1] H]. rewrite D in H.
    case: (Rle_dec 0 t0) => H0; last first.
    { right; left. apply Rleb_true. have P1 : 0 <= t * (- t0) by apply Rmult_le_pos; lra.
      have P2 : 0 <= t * t * ee by apply Rmult_le_pos; [apply Rmult_le_pos|]; lra. lra. }
    case: (Rle_dec t0 ee) => H1; last first.
    { right; right. apply Rleb_true. have P1 : 0 <= ee * (1 - t) by apply Rmult_le_pos; lra.
      have P2 : 0 <= (1 - t) * (2 * t0 - ee * (1 + t)) by apply Rmult_le_pos; nra. nra. }
    left. apply andb_true_iff; split; first (apply andb_true_iff; split; by apply Rleb_true).
    apply Rleb_true.
    (* the parabola ww - 2 t t0 + t^2 ee has its minimum (ww ee - t0^2)/ee at t0/ee *)
    have Hsq := Rle_0_sqr (t * ee - t0). rewrite /Rsqr in Hsq.
    have E : (ww - 2 * t * t0 + t * t * ee) * ee - (ww * ee - t0 * t0) = (t * ee - t0) * (t * ee - t0) by ring.
    have Hm : (ww - 2 * t * t0 + t * t * ee) * ee <= r2 * ee by apply Rmult_le_compat_r; lra.
    lra.
Qed.

(* ---- 2. soundness of the face test ---- *)
Definition side_val (F : list V3) (e : V3 * V3) (y : V3) : R :=
  vdot Rops (vcross Rops (vsub Rops (snd e) (fst e)) (fnormal3 Rops F)) (vsub Rops y (fst e)).
Definition side_ok (F : list V3) (y : V3) : Prop := forall e, In e (cpairs F) -> side_val F e y <= 0.
(* a point of the face: in the face plane and inside every side plane *)
Definition in_faceP (F : list V3) (y : V3) : Prop := plane_val Rops F y = 0 /\ side_ok F y.
(* well-formed face: a convex planar cycle, counter-clockwise about its normal, without repeated consecutive vertices *)
Definition face_wf (F : list V3) : Prop :=
  (forall v, In v F -> in_faceP F v) /\ (forall e, In e (cpairs F) -> fst e <> snd e).

Lemma in_prism_sides_ok F y : in_prism_sides Rops F y = true <-> side_ok F y.
Proof.
  rewrite /in_prism_sides /side_ok forallb_forall. split => H e He.
  - apply Rleb_true. exact (H e He).
  - apply Rleb_true. exact (H e He).
Qed.

Lemma cpairs_in {A} (l : list A) (e : A * A) : In e (cpairs l) -> In (fst e) l /\ In (snd e) l.
Proof.
  rewrite /cpairs. case: e => [a b] H. split.
  - exact (in_combine_l _ _ _ _ H).
  - apply (Permutation_in _ (roll_perm l)). exact (in_combine_r _ _ _ _ H).
Qed.

Lemma plane_val_seg F a b t : plane_val Rops F (on_seg a b t) = (1 - t) * plane_val Rops F a + t * plane_val Rops F b.
Proof.
  rewrite /plane_val /on_seg. move: (fnormal3 Rops F) (nth 0 F (vzero Rops)) => N v0.
  vsimp N; vsimp v0; vsimp a; vsimp b. unf. ring.
Qed.
Lemma side_val_seg F e a b t : side_val F e (on_seg a b t) = (1 - t) * side_val F e a + t * side_val F e b.
Proof.
  rewrite /side_val /on_seg. set M := vcross Rops _ _. clearbody M. set v := fst e. clearbody v.
  vsimp M; vsimp v; vsimp a; vsimp b. unf. ring.
Qed.
Lemma seg_in_face F a b t : in_faceP F a -> in_faceP F b -> 0 <= t <= 1 -> in_faceP F (on_seg a b t).
Proof.
  move=> [Pa Sa] [Pb Sb] Ht. split.
  - rewrite plane_val_seg Pa Pb. ring.
  - move=> e He. rewrite side_val_seg. have A := Sa e He. have B := Sb e He.
    have : (1 - t) * side_val F e a <= 0 by (have : 0 <= (1 - t) * (- side_val F e a) by apply Rmult_le_pos; lra); lra.
    have : t * side_val F e b <= 0 by (have : 0 <= t * (- side_val F e b) by apply Rmult_le_pos; lra); lra.
    lra.
Qed.

Lemma cross_self_dot (e N : V3) : vdot Rops (vcross Rops e N) N = 0.
Proof. vsimp e; vsimp N. unf. ring. Qed.

Lemma foot (N v0 x : V3) (k : R) :
  let y := vsub Rops x (vscale Rops k N) in
  vdot Rops N (vsub Rops y v0) = vdot Rops N (vsub Rops x v0) - k * vdot Rops N N
  /\ (forall M v, vdot Rops M (vsub Rops y v) = vdot Rops M (vsub Rops x v) - k * vdot Rops M N)
  /\ dist2 x y = k * k * vdot Rops N N.
Proof.
  cbn zeta. split; [|split].
  - vsimp N; vsimp v0; vsimp x. unf. ring.
  - move=> M v. vsimp N; vsimp M; vsimp v; vsimp x. unf. ring.
  - rewrite /dist2. vsimp N; vsimp x. unf. ring.
Qed.

Lemma dot_self_pos (N : V3) : 0 <= vdot Rops N N.
Proof. vsimp N. unf. have := Rle_0_sqr x; have := Rle_0_sqr y; have := Rle_0_sqr z. rewrite /Rsqr. lra. Qed.

Theorem check_face_sound r2 F x :
  face_wf F -> to_check Rops r2 F x = true -> check_face Rops r2 F x = true ->
  exists y, in_faceP F y /\ dist2 x y <= r2.
Proof.
  move=> [Hv He] /andb_true_iff [/Rltb_true Hd /Rleb_true Hr].
  cbn [o0 omul Rops] in Hd, Hr.
  rewrite /check_face => /orb_true_iff [/orb_true_iff [Hp|Hc]|Hk].
  - (* the extruded face: the foot of the perpendicular *)
    have HNN : 0 < vdot Rops (fnormal3 Rops F) (fnormal3 Rops F).
    { case: (Rle_lt_dec (vdot Rops (fnormal3 Rops F) (fnormal3 Rops F)) 0) => // H0. exfalso.
      have Hz : vdot Rops (fnormal3 Rops F) (fnormal3 Rops F) = 0 by have := dot_self_pos (fnormal3 Rops F); lra.
      rewrite Hz Rmult_0_r in Hr.
      have := Rle_0_sqr (plane_val Rops F x). rewrite /Rsqr => A.
      have D0 : plane_val Rops F x * plane_val Rops F x = 0 by lra. case: (Rmult_integral _ _ D0); lra. }
    move: Hd Hr HNN. rewrite {1 2 3}/plane_val.
    set N := fnormal3 Rops F. set v0 := nth 0 F (vzero Rops). set d := vdot Rops N (vsub Rops x v0). set NN := vdot Rops N N.
    move=> Hd Hr HNN.
    have [F1 [F2 F3]] := foot N v0 x (d / NN).
    exists (vsub Rops x (vscale Rops (d / NN) N)). split; [split|].
    + rewrite /plane_val -/N -/v0 F1 -/d -/NN. field. lra.
    + move=> e Hin. move/in_prism_sides_ok: Hp => Hp. have := Hp e Hin. rewrite /side_val -/N F2 cross_self_dot. lra.
    + rewrite F3 -/NN. have -> : d / NN * (d / NN) * NN = d * d / NN by field; lra.
      apply Rcomplements.Rle_div_l; lra.
  - (* a cylinder about an edge *)
    move/existsb_exists: Hc => [e [Hin Hc]].
    have [Ia Ib] := cpairs_in F e Hin.
    have Hne := He e Hin.
    have [t [Ht Hdist]] : exists t, 0 <= t <= 1 /\ dist2 x (on_seg (fst e) (snd e) t) <= r2.
    { apply (spherocylinder_spec r2 (fst e) (snd e) x Hne). by left. }
    exists (on_seg (fst e) (snd e) t). split=> //. apply seg_in_face => //; by apply Hv.
  - (* a sphere about a vertex *)
    move/existsb_exists: Hk => [v [Hin /Rleb_true Hk]]. exists v. split; first by apply Hv. exact Hk.
Qed.

Theorem sphero_inside_sound r2 Fs x :
  (forall F, In F Fs -> face_wf F) -> sphero_inside Rops r2 Fs x = true ->
  in_core Rops Fs x = true \/ exists F y, In F Fs /\ in_faceP F y /\ dist2 x y <= r2.
Proof.
  move=> Hwf /orb_true_iff [H|H]; first by left.
  right. move/existsb_exists: H => [F [Hin /andb_true_iff [Hc Hf]]].
  have [y [Hy Hd]] := check_face_sound r2 F x (Hwf F Hin) Hc Hf.
  by exists F, y.
Qed.

(* non-vacuity: the top face of the unit cube is a well-formed face, it is looked at for the point (1/2, -3/10, 6/5) with r = 1/2, and accepts it *)
Definition ex_face : list V3 := [(0, 0, 1); (1, 0, 1); (1, 1, 1); (0, 1, 1)].
Example ex_face_wf : face_wf ex_face.
Proof.
  split.
  - intros v Hv. split.
    + unfold plane_val, fnormal3, ex_face in *. cbn [nth In] in *.
      destruct Hv as [<-|[<-|[<-|[<-|[]]]]]; unf; ring.
    + intros e He. unfold side_val, fnormal3, ex_face, cpairs, roll in *. cbn [nth In app combine] in *.
      destruct He as [<-|[<-|[<-|[<-|[]]]]]; destruct Hv as [<-|[<-|[<-|[<-|[]]]]]; unf; lra.
  - intros e He. unfold ex_face, cpairs, roll in He. cbn [In app combine] in He.
    destruct He as [<-|[<-|[<-|[<-|[]]]]]; cbn [fst snd]; intros H; injection H; intros; lra.
Qed.
Example ex_face_accepts :
  to_check Rops (/ 4) ex_face (/ 2, - (3 / 10), 6 / 5) = true /\ check_face Rops (/ 4) ex_face (/ 2, - (3 / 10), 6 / 5) = true.
Proof.
  split.
  - rewrite /to_check /plane_val /fnormal3 /ex_face. cbn [nth]. apply andb_true_iff. split; [apply Rltb_true | apply Rleb_true]; unf; cbn [o0 omul Rops]; nra.
  - rewrite /check_face. apply orb_true_iff. left. apply orb_true_iff. right.
    rewrite /ex_face /cpairs /roll. cbn [app combine existsb fst snd]. apply orb_true_iff. left.
    rewrite /in_cylinder. apply andb_true_iff. split; [apply andb_true_iff; split|]; apply Rleb_true; unf; cbn [o0 omul osub Rops]; nra.
Qed.
