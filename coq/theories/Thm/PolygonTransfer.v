(* Paramcoq transfer for the polygon model (C04). *)
From Coq Require Import QArith Qreals Reals Bool List.
From Param Require Import Param.
Require Import Cox.Num.Ops Cox.Num.Transfer Cox.Geo.Vec Cox.Model.Polygon Cox.Thm.MeshTransfer.
Import ListNotations.

Parametricity Recursive sa_coef.
Parametricity Recursive sa_spec_coef.
Parametricity Recursive pcentroid_code.
Parametricity Recursive pcentroid_spec.
Parametricity Recursive planar_moments.
Parametricity Recursive planar_moments_spec.
Parametricity Recursive polar_coef.

Theorem sa_coef_transfer N V :
  Q2R (sa_coef Qops N V) = sa_coef Rops (Q2R3 N) (map Q2R3 V).
Proof. exact (sa_coef_R Q R QR Qops Rops ops_rel N _ (vec3_R_QR N) V _ (vecs_R_QR V)). Qed.

Theorem sa_spec_coef_transfer N V :
  Q2R (sa_spec_coef Qops N V) = sa_spec_coef Rops (Q2R3 N) (map Q2R3 V).
Proof. exact (sa_spec_coef_R Q R QR Qops Rops ops_rel N _ (vec3_R_QR N) V _ (vecs_R_QR V)). Qed.

Theorem pcentroid_code_transfer b N V :
  Q2R3 (pcentroid_code Qops b N V) = pcentroid_code Rops b (Q2R3 N) (map Q2R3 V).
Proof.
  pose proof (pcentroid_code_R Q R QR Qops Rops ops_rel b b (bool_R_of_eq b b eq_refl) N _ (vec3_R_QR N) V _ (vecs_R_QR V)) as H.
  apply prod_R_QR3_eq in H. exact H.
Qed.

Theorem planar_moments_transfer b V :
  map Q2R (planar_moments Qops b V) = planar_moments Rops b (map Q2R3 V).
Proof.
  apply list_R_QR_eq.
  exact (planar_moments_R Q R QR Qops Rops ops_rel b b (bool_R_of_eq b b eq_refl) V _ (vecs_R_QR V)).
Qed.

Theorem polar_coef_transfer N c V :
  Q2R (polar_coef Qops N c V) = polar_coef Rops (Q2R3 N) (Q2R3 c) (map Q2R3 V).
Proof. exact (polar_coef_R Q R QR Qops Rops ops_rel N _ (vec3_R_QR N) c _ (vec3_R_QR c) V _ (vecs_R_QR V)). Qed.
