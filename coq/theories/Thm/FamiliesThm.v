(* Theorems for C17. *)
From Coq Require Import Reals List Bool Lra Psatz.
Require Import Cox.Num.Ops Cox.Geo.Vec Cox.Model.Families.
Import ListNotations.

Section Generic.
  Context {T : Type} (O : Ops T).

  Lemma dedup3_subset (l : list (vec3 T)) x : In x (dedup3 O l) -> In x l.
  Proof.
    induction l as [|a l IH]; simpl; auto.
    destruct (existsb (veq3 O a) l); simpl; intros H; [right; auto|]. destruct H; [left; auto | right; auto].
  Qed.

  (* soundness: every returned point satisfies EVERY half-space constraint of the family *)
  Theorem exact_vertices_feasible planes dists x :
    In x (exact_vertices O planes dists) -> feasible O planes dists x = true.
  Proof.
    unfold exact_vertices. intros H. apply dedup3_subset in H.
    apply in_flat_map in H. destruct H as [p0 [_ H]].
    apply in_flat_map in H. destruct H as [p1 [_ H]].
    apply in_flat_map in H. destruct H as [p2 [_ H]].
    destruct (solve3 O (fst (fst p0)) (fst (fst p1)) (fst (fst p2)) _) as [y|]; [|destruct H].
    destruct (feasible O planes dists y) eqn:E; [|destruct H].
    destruct H as [<-|[]]. exact E.
  Qed.
End Generic.

Local Open Scope R_scope.
(* Cramer: the point returned by solve3 lies on the three planes *)
Theorem solve3_on_planes (r0 r1 r2 y x : vec3 R) :
  solve3 Rops r0 r1 r2 y = Some x ->
  vdot Rops r0 x = vx y /\ vdot Rops r1 x = vy y /\ vdot Rops r2 x = vz y.
Proof.
  unfold solve3. cbn [oeqb Rops o0].
  destruct (Reqb (vdet Rops (col3 0 r0 r1 r2) (col3 1 r0 r1 r2) (col3 2 r0 r1 r2)) 0) eqn:E; [discriminate|].
  apply Reqb_false in E. intros H. inversion H; subst x; clear H.
  destruct r0 as [[a0 b0] c0], r1 as [[a1 b1] c1], r2 as [[a2 b2] c2], y as [[y0 y1] y2].
  unfold col3, vcomp, vdet, vdot, vcross, vx, vy, vz in *; cbn [fst snd oadd omul osub odiv Rops] in *.
  repeat split; field; exact E.
Qed.

(* regular n-gon scaled to unit area: (n/2) rho^2 sin(2 pi/n) with rho^2 = 1 / ((n/2) sin(2 pi/n)) *)
Theorem ngon_unit_area (n : R) (s : R) :
  0 < n -> 0 < s ->     (* s = sin (2 pi / n) > 0 for n >= 3 *)
  let area0 := / 2 * n * s in
  let rho := sqrt (1 / area0) in
  / 2 * n * (rho * rho) * s = 1.
Proof.
  intros Hn Hs area0 rho.
  assert (Ha : 0 < area0) by (unfold area0; nra).
  unfold rho. rewrite sqrt_sqrt.
  - unfold area0. field. split; lra.
  - apply Rlt_le. apply Rdiv_lt_0_compat; lra.
Qed.

(* uniform prism: with base area A = V/h and h^3 = 4 V tan(pi/n)/n the side of the base equals h:
   side^2 = 4 A tan(pi/n)/n  (regular n-gon of area A) *)
Theorem prism_unit_volume_equal_edges (n t h : R) :
  0 < n -> 0 < t -> 0 < h -> h * h * h = 4 / n * t ->
  let A := 1 / h in
  A * h = 1 /\ 4 * A * t / n = h * h.
Proof.
  intros Hn Ht Hh Hc A. unfold A. split.
  - field. lra.
  - apply (Rmult_eq_reg_r h); [|lra].
    replace (4 * (1 / h) * t / n * h) with (4 / n * t) by (field; split; lra).
    rewrite <- Hc. ring.
Qed.
