(* C01/C02 level 0: m0, m1, m2 are the integrals of 1, x_i, x_i x_j over the (signed) tetrahedron (0, a, b, c). *)
From Coq Require Import Reals Lra ZArith.
From mathcomp Require Import ssreflect.
From Coquelicot Require Import Coquelicot.
Require Import Cox.Num.Ops Cox.Geo.Vec Cox.Model.Mesh Cox.Thm.TetraIntegrals.
Local Open Scope R_scope.

Notation triR := (@tri R).
Definition tpoint (t : triR) (u v w : R) : vec3 R :=
  vadd Rops (vadd Rops (vscale Rops u (ta t)) (vscale Rops v (tb t))) (vscale Rops w (tc t)).
(* integral of f over the tetrahedron (0, ta, tb, tc), with orientation sign *)
Definition tet_int (f : vec3 R -> R) (t : triR) : R :=
  tdet Rops t * RInt (fun u => RInt (fun v => RInt (fun w => f (tpoint t u v w)) 0 (1 - u - v)) 0 (1 - u)) 0 1.

Lemma vcomp_tpoint i t u v w :
  vcomp i (tpoint t u v w) = u * vcomp i (ta t) + v * vcomp i (tb t) + w * vcomp i (tc t).
Proof.
  destruct t as [[[[a1 a2] a3] [[b1 b2] b3]] [[c1 c2] c3]].
  destruct i as [|[|i]]; rewrite /tpoint /vadd /vscale /vcomp /vx /vy /vz /ta /tb /tc /=; ring.
Qed.

Lemma RInt_ext3 (f g : R -> R -> R -> R) :
  (forall u v w, f u v w = g u v w) ->
  RInt (fun u => RInt (fun v => RInt (fun w => f u v w) 0 (1 - u - v)) 0 (1 - u)) 0 1
  = RInt (fun u => RInt (fun v => RInt (fun w => g u v w) 0 (1 - u - v)) 0 (1 - u)) 0 1.
Proof.
  move=> H. apply: RInt_ext => u _. apply: RInt_ext => v _. apply: RInt_ext => w _. exact: H.
Qed.

Theorem m0_is_integral t : tet_int (fun _ => 1) t = m0 Rops t.
Proof.
  rewrite /tet_int simplex_one /m0 /cst. cbn [omul odiv ofromZ Rops]. field.
Qed.

Theorem m1_is_integral i t : tet_int (fun X => vcomp i X) t = m1 Rops i t.
Proof.
  rewrite /tet_int.
  rewrite (RInt_ext3 _ (fun u v w => u * vcomp i (ta t) + v * vcomp i (tb t) + w * vcomp i (tc t))); last by move=> u v w; apply vcomp_tpoint.
  set (pa := vcomp i (ta t)). set (pb := vcomp i (tb t)). set (pc := vcomp i (tc t)).
  have E := simplex_lin pa pb pc.
  rewrite /m1 /s1 /cst. cbn [omul oadd odiv ofromZ Rops]. fold pa pb pc.
  match goal with |- _ * ?I = _ => replace I with ((pa + pb + pc) / 24) end; first by field.
  rewrite (_ : (pa + pb + pc) / 24 = (1/24) * pa + (1/24) * pb + (1/24) * pc); last by field.
  rewrite -E. apply: RInt_ext3 => u v w. ring.
Qed.

Theorem m2_is_integral i j t : tet_int (fun X => vcomp i X * vcomp j X) t = m2 Rops i j t.
Proof.
  rewrite /tet_int.
  rewrite (RInt_ext3 _ (fun u v w => (u * vcomp i (ta t) + v * vcomp i (tb t) + w * vcomp i (tc t))
                                      * (u * vcomp j (ta t) + v * vcomp j (tb t) + w * vcomp j (tc t)))); last by move=> u v w; rewrite !vcomp_tpoint.
  set (pa := vcomp i (ta t)). set (pb := vcomp i (tb t)). set (pc := vcomp i (tc t)).
  set (qa := vcomp j (ta t)). set (qb := vcomp j (tb t)). set (qc := vcomp j (tc t)).
  rewrite (RInt_ext3 _ (fun u v w => pa*qa*u^2 + pa*qb*u*v + pa*qc*u*w + pb*qa*u*v + pb*qb*v^2 + pb*qc*v*w + pc*qa*u*w + pc*qb*v*w + pc*qc*w^2)); last by move=> u v w; ring.
  have E := simplex_quad pa pb pc qa qb qc.
  rewrite /m2 /s1 /cst. cbn [omul oadd odiv ofromZ Rops]. fold pa pb pc qa qb qc.
  match goal with |- _ * ?I = _ => replace I with ((pa * qa + pb * qb + pc * qc + (pa + pb + pc) * (qa + qb + qc)) / 120) end; first by field.
  rewrite (_ : (pa * qa + pb * qb + pc * qc + (pa + pb + pc) * (qa + qb + qc)) / 120
             = 1 / 60 * pa * qa + 1 / 60 * pb * qb + 1 / 60 * pc * qc + 1 / 120 * pa * qb + 1 / 120 * pa * qc + 1 / 120 * pb * qa
               + 1 / 120 * pb * qc + 1 / 120 * pc * qa + 1 / 120 * pc * qb); last by field.
  rewrite -E. apply: RInt_ext3 => u v w. ring.
Qed.
