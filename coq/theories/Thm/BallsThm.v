(* Theorems for C13: what the balls' definitions mean in terms of the linear systems the code
   solves, and a sufficient (and checkable) certificate for the minimal bounding ball. *)
From Coq Require Import Reals List Lra Psatz.
Require Import Cox.Num.Ops Cox.Geo.Vec Cox.Geo.Sums.
Import ListNotations.
Local Open Scope R_scope.

Notation V3 := (vec3 R).
Definition d2 (p c : V3) : R := vnorm2 Rops (vsub Rops p c).

Ltac vs := unfold d2, vnorm2, vdot, vsub, vadd, vscale, vx, vy, vz in *;
           cbn [fst snd oadd omul osub Rops] in *.

(* ---- circumsphere: equidistance is the linear system p.x = |p|^2/2 (p = v - v0, x = C - v0) ---- *)
Theorem circum_iff_linear (v0 v x : V3) :
  d2 v (vadd Rops v0 x) = vnorm2 Rops x
  <-> vdot Rops (vsub Rops v v0) x = vnorm2 Rops (vsub Rops v v0) / 2.
Proof. destruct v0 as [[a b] c], v as [[p q] r], x as [[x y] z]. vs. split; intros H; lra. Qed.

Theorem circum_all_vertices (v0 : V3) (V : list V3) (x : V3) :
  (forall v, In v V -> vdot Rops (vsub Rops v v0) x = vnorm2 Rops (vsub Rops v v0) / 2) ->
  forall v, In v (v0 :: V) -> d2 v (vadd Rops v0 x) = vnorm2 Rops x.
Proof.
  intros H v [Heq|Hv].
  - subst v. clear H. destruct v0 as [[a b] c], x as [[x y] z]. vs. ring.
  - apply circum_iff_linear, H, Hv.
Qed.

(* ---- insphere: tangency from inside is the linear system (n_i, 1).(C, r) = n_i.v_i ---- *)
Theorem tangent_iff_linear (n v C : V3) (r : R) :
  vdot Rops n (vsub Rops C v) = - r <-> vdot Rops n C + r = vdot Rops n v.
Proof. destruct n as [[a b] c], v as [[p q] s], C as [[x y] z]. vs. split; intros H; lra. Qed.

(* a ball of radius r about C lies in the half-space n.x + d <= 0 (n unit) iff n.C + d + r <= 0 *)
Lemma cauchy_schwarz3 (n u : V3) : vnorm2 Rops n = 1 -> vnorm2 Rops u <= 1 -> vdot Rops n u <= 1.
Proof.
  destruct n as [[a b] c], u as [[x y] z]. vs. intros Hn Hu.
  pose proof (Rle_0_sqr (a - x)) as H1. pose proof (Rle_0_sqr (b - y)) as H2. pose proof (Rle_0_sqr (c - z)) as H3.
  unfold Rsqr in *. lra.
Qed.

Theorem ball_in_halfspace (n C : V3) (d r : R) :
  vnorm2 Rops n = 1 -> 0 <= r ->
  ((forall u, vnorm2 Rops u <= 1 -> vdot Rops n (vadd Rops C (vscale Rops r u)) + d <= 0)
   <-> vdot Rops n C + d + r <= 0).
Proof.
  intros Hn Hr. split.
  - intros H. specialize (H n). assert (Hn1 : vnorm2 Rops n <= 1) by lra. specialize (H Hn1).
    destruct n as [[a b] c], C as [[x y] z]. vs.
    replace (a * (x + r * a) + b * (y + r * b) + c * (z + r * c)) with (a * x + b * y + c * z + r * (a * a + b * b + c * c)) in H by ring.
    rewrite Hn in H. lra.
  - intros H u Hu. pose proof (cauchy_schwarz3 n u Hn Hu) as Hc.
    destruct n as [[a b] c], C as [[x y] z], u as [[p q] s]. vs.
    assert (Hm : r * (a * p + b * q + c * s) <= r * 1) by (apply Rmult_le_compat_l; lra).
    replace (a * (x + r * p) + b * (y + r * q) + c * (z + r * s)) with (a * x + b * y + c * z + r * (a * p + b * q + c * s)) by ring.
    lra.
Qed.
(* ... and it touches the plane (at C + r n) when equality holds *)
Theorem ball_touches_plane (n C : V3) (d r : R) :
  vnorm2 Rops n = 1 -> vdot Rops n C + d + r = 0 ->
  vdot Rops n (vadd Rops C (vscale Rops r n)) + d = 0.
Proof.
  intros Hn H. destruct n as [[a b] c], C as [[x y] z]. vs.
  replace (a * (x + r * a) + b * (y + r * b) + c * (z + r * c)) with (a * x + b * y + c * z + r * (a * a + b * b + c * c)) by ring.
  rewrite Hn. lra.
Qed.

(* ---- minimal centred bounding ball: radius = largest centre-vertex distance ---- *)
Theorem centered_bounding_minimal (c : V3) (V : list V3) (R2 : R) :
  (forall v, In v V -> d2 v c <= R2) -> (exists v, In v V /\ d2 v c = R2) ->
  forall R2', (forall v, In v V -> d2 v c <= R2') -> R2 <= R2'.
Proof. intros _ [v [Hv Heq]] R2' H. rewrite <- Heq. apply H, Hv. Qed.

(* ---- minimal bounding ball: enclosing + centre in the hull of its boundary points => minimal ---- *)
(* W = [(lambda_i, p_i)] with lambda_i >= 0, sum lambda_i = 1, sum lambda_i (p_i - c) = 0, |p_i - c|^2 = r2 *)
Definition wsum (f : V3 -> R) (W : list (R * V3)) : R := Rsum (map (fun w => fst w * f (snd w)) W).

Lemma wsum_shift (c c' : V3) (W : list (R * V3)) :
  wsum (fun p => d2 p c') W
  = wsum (fun p => d2 p c) W
    + 2 * ((vx c - vx c') * wsum (fun p => vx p - vx c) W
           + (vy c - vy c') * wsum (fun p => vy p - vy c) W
           + (vz c - vz c') * wsum (fun p => vz p - vz c) W)
    + d2 c c' * wsum (fun _ => 1) W.
Proof.
  unfold wsum. induction W as [|[l p] W IH]; simpl.
  - ring.
  - rewrite IH. destruct c as [[a b] cc], c' as [[a' b'] cc'], p as [[x y] z]. vs. ring.
Qed.

Theorem miniball_certificate (c : V3) (r2 : R) (W : list (R * V3)) :
  (forall w, In w W -> 0 <= fst w) ->
  wsum (fun _ => 1) W = 1 ->
  wsum (fun p => vx p - vx c) W = 0 -> wsum (fun p => vy p - vy c) W = 0 -> wsum (fun p => vz p - vz c) W = 0 ->
  (forall w, In w W -> d2 (snd w) c = r2) ->
  forall (c' : V3) (r2' : R), (forall w, In w W -> d2 (snd w) c' <= r2') -> r2 <= r2'.
Proof.
  intros Hpos H1 Hx Hy Hz Hon c' r2' Henc.
  assert (Hsum : wsum (fun p => d2 p c') W = r2 + d2 c c').
  { rewrite (wsum_shift c c'), Hx, Hy, Hz, H1.
    assert (Hc : wsum (fun p => d2 p c) W = r2).
    { unfold wsum. rewrite (Rsum_map_ext _ (fun w => r2 * fst w)).
      - rewrite Rsum_map_scale. unfold wsum in H1.
        rewrite (Rsum_map_ext (fun w : R * V3 => fst w) (fun w => fst w * 1)); [|intros; ring].
        rewrite H1. ring.
      - intros w Hw. rewrite (Hon w Hw). ring. }
    rewrite Hc. ring. }
  assert (Hle : wsum (fun p => d2 p c') W <= r2').
  { assert (Hb : wsum (fun p => d2 p c') W <= wsum (fun _ => r2') W).
    { unfold wsum. clear - Hpos Henc. induction W as [|w W IH]; simpl; [lra|].
      assert (0 <= fst w) by (apply Hpos; left; auto).
      assert (d2 (snd w) c' <= r2') by (apply Henc; left; auto).
      assert (Rsum (map (fun w0 => fst w0 * d2 (snd w0) c') W) <= Rsum (map (fun w0 : R * V3 => fst w0 * r2') W)).
      { apply IH; intros; [apply Hpos | apply Henc]; right; auto. }
      nra. }
    unfold wsum in Hb at 2. rewrite (Rsum_map_ext _ (fun w => r2' * (fst w * 1))) in Hb; [|intros; ring].
    rewrite Rsum_map_scale in Hb. unfold wsum in H1. rewrite H1 in Hb. lra. }
  assert (0 <= d2 c c').
  { clear. destruct c as [[a b] cc], c' as [[a' b'] cc']. vs.
    pose proof (Rle_0_sqr (a - a')) as H1. pose proof (Rle_0_sqr (b - b')) as H2. pose proof (Rle_0_sqr (cc - cc')) as H3.
    unfold Rsqr in *. lra. }
  lra.
Qed.

(* ---- curved shapes: B(c, min axis) inside the ellipsoid inside B(c, max axis) ---- *)
Theorem ellipsoid_between_balls (a b c x y z lo hi : R) :
  0 < lo -> lo <= a -> lo <= b -> lo <= c -> a <= hi -> b <= hi -> c <= hi ->
  (x * x + y * y + z * z <= lo * lo -> (x / a) ^ 2 + (y / b) ^ 2 + (z / c) ^ 2 <= 1)
  /\ ((x / a) ^ 2 + (y / b) ^ 2 + (z / c) ^ 2 <= 1 -> x * x + y * y + z * z <= hi * hi).
Proof.
  intros Hlo Ha Hb Hc Ha' Hb' Hc'.
  assert (0 < a) by lra. assert (0 < b) by lra. assert (0 < c) by lra.
  set (u := x / a). set (v := y / b). set (w := z / c).
  assert (Hx : x = u * a) by (unfold u; field; lra).
  assert (Hy : y = v * b) by (unfold v; field; lra).
  assert (Hz : z = w * c) by (unfold w; field; lra).
  split; intros H'.
  - rewrite Hx, Hy, Hz in H'.
    assert (u * u * (lo * lo) <= u * u * (a * a)) by (apply Rmult_le_compat_l; nra).
    assert (v * v * (lo * lo) <= v * v * (b * b)) by (apply Rmult_le_compat_l; nra).
    assert (w * w * (lo * lo) <= w * w * (c * c)) by (apply Rmult_le_compat_l; nra).
    assert ((u * u + v * v + w * w) * (lo * lo) <= lo * lo) by nra.
    assert (0 < lo * lo) by nra. nra.
  - rewrite Hx, Hy, Hz.
    assert (u * u * (a * a) <= u * u * (hi * hi)) by (apply Rmult_le_compat_l; nra).
    assert (v * v * (b * b) <= v * v * (hi * hi)) by (apply Rmult_le_compat_l; nra).
    assert (w * w * (c * c) <= w * w * (hi * hi)) by (apply Rmult_le_compat_l; nra).
    nra.
Qed.
