(* Round-trip theorems for the mesh file codecs (C20): parse (write m) = Some m for every
   well-formed mesh (every face has >= 3 corners, all indices < nv), any number of vertices/faces. *)
From Coq Require Import List Bool Arith Lia.
Require Import Cox.Model.MeshIO.
Import ListNotations.

Lemma tok_eqb_refl t : tok_eqb t t = true.
Proof. destruct t; simpl; auto using Nat.eqb_refl. Qed.
Lemma line_eqb_refl l : line_eqb l l = true.
Proof. induction l; simpl; auto. rewrite tok_eqb_refl; auto. Qed.
Lemma lines_eqb_refl l : lines_eqb l l = true.
Proof. induction l; simpl; auto. rewrite line_eqb_refl; auto. Qed.

Lemma nats_of_map l : nats_of (map N l) = Some l.
Proof. induction l; simpl; auto. rewrite IHl; auto. Qed.

Lemma take_vlines_ok k n rest : take_vlines k n (map vline (seq k n) ++ rest) = Some rest.
Proof.
  revert k. induction n as [|n IH]; intros k; [reflexivity|].
  cbn [seq map app take_vlines]. rewrite line_eqb_refl. apply IH.
Qed.

Definition wf_face (n : nat) (f : list nat) : bool :=
  Nat.leb 3 (length f) && forallb (fun i => Nat.ltb i n) f.

Lemma parse_face_line_ok n f : wf_face n f = true -> parse_face_line n (face_line f) = Some f.
Proof.
  unfold wf_face, parse_face_line, face_line. intros H. apply andb_true_iff in H. destruct H as [H3 Hi].
  cbn [nats_of]. rewrite nats_of_map. rewrite Nat.eqb_refl, H3, Hi. reflexivity.
Qed.

Lemma parse_faces_ok n fs rest :
  forallb (wf_face n) fs = true ->
  parse_faces n (length fs) (map face_line fs ++ rest) = Some (fs, rest).
Proof.
  induction fs as [|f fs IH]; simpl; intros H; auto.
  apply andb_true_iff in H. destruct H as [Hf Hfs].
  rewrite (parse_face_line_ok n f Hf), (IH Hfs). reflexivity.
Qed.

Lemma wf_mesh_faces m : wf_mesh m = true -> forallb (wf_face (nv m)) (faces m) = true.
Proof. unfold wf_mesh, wf_face. auto. Qed.

Lemma mesh_eta m : {| nv := nv m; faces := faces m |} = m.
Proof. destruct m; reflexivity. Qed.

Theorem off_roundtrip m ne : wf_mesh m = true -> parse_off (write_off m ne) = Some m.
Proof.
  intros H. unfold parse_off, write_off. cbn [app]. rewrite Nat.eqb_refl.
  unfold vlines. rewrite take_vlines_ok.
  rewrite <- (app_nil_r (map face_line (faces m))).
  rewrite (parse_faces_ok (nv m) (faces m) [] (wf_mesh_faces m H)). rewrite mesh_eta. reflexivity.
Qed.

(* as found: the count line "nv f<nf> ne" does not parse *)
Theorem off_as_found_refuted m ne : parse_off (write_off_as_found m ne) = None.
Proof. reflexivity. Qed.

Theorem ply_roundtrip m : wf_mesh m = true -> parse_ply (write_ply m) = Some m.
Proof.
  intros H. unfold parse_ply, write_ply, ply_header. cbn [app].
  change (lines_eqb ?a ?b) with (lines_eqb a a) at 1.
  rewrite lines_eqb_refl.
  unfold vlines. rewrite take_vlines_ok.
  rewrite <- (app_nil_r (map face_line (faces m))).
  rewrite (parse_faces_ok (nv m) (faces m) [] (wf_mesh_faces m H)). rewrite mesh_eta. reflexivity.
Qed.

Theorem vtk_roundtrip m : wf_mesh m = true -> parse_vtk (write_vtk m) = Some m.
Proof.
  intros H. unfold parse_vtk, write_vtk. cbn [app]. rewrite !Nat.eqb_refl. cbn [andb].
  unfold vlines. rewrite take_vlines_ok. cbn [app]. rewrite Nat.eqb_refl.
  rewrite <- (app_nil_r (map face_line (faces m))).
  rewrite (parse_faces_ok (nv m) (faces m) [] (wf_mesh_faces m H)). rewrite Nat.eqb_refl, mesh_eta. reflexivity.
Qed.

(* OBJ *)
Lemma obj_take_v_ok k n rest :
  (forall l r, rest = l :: r -> match l with K c :: _ => Nat.eqb c kV = false | _ => True end) ->
  obj_take_v k (map obj_vline (seq k n) ++ rest) = (k + n, rest).
Proof.
  revert k. induction n as [|n IH]; intros k Hrest.
  - rewrite Nat.add_0_r. cbn [seq map app]. destruct rest as [|l r]; [reflexivity|].
    specialize (Hrest l r eq_refl). destruct l as [|t l']; [reflexivity|]. destruct t; try reflexivity.
    cbn [obj_take_v]. rewrite Hrest. reflexivity.
  - cbn [seq map app]. unfold obj_vline at 1. cbn [obj_take_v]. rewrite Nat.eqb_refl, line_eqb_refl. cbn [andb].
    rewrite IH by auto. f_equal. lia.
Qed.

Lemma obj_face_ok n f : wf_face n f = true -> obj_face n (obj_fline f) = Some f.
Proof.
  unfold wf_face, obj_face, obj_fline. intros H. apply andb_true_iff in H. destruct H as [H3 Hi].
  change (Nat.eqb kF kF) with true. cbn [andb].
  replace (map (fun i : nat => N (S i)) f) with (map N (map S f)) by (rewrite map_map; reflexivity).
  rewrite nats_of_map. rewrite map_length, H3. cbn [andb].
  assert (Hall : forallb (fun i : nat => Nat.leb 1 i && Nat.leb i n) (map S f) = true).
  { rewrite forallb_forall in *. intros x Hx. apply in_map_iff in Hx. destruct Hx as [y [<- Hy]].
    specialize (Hi y Hy). apply Nat.ltb_lt in Hi. apply andb_true_iff. split; apply Nat.leb_le; lia. }
  rewrite Hall. rewrite map_map. simpl. rewrite map_id. reflexivity.
Qed.

Lemma obj_faces_ok n fs : forallb (wf_face n) fs = true -> obj_faces n (map obj_fline fs) = Some fs.
Proof.
  induction fs as [|f fs IH]; intros H; [reflexivity|].
  cbn [forallb] in H. apply andb_true_iff in H. destruct H as [Hf Hfs].
  cbn [map obj_faces]. rewrite (obj_face_ok n f Hf), (IH Hfs). reflexivity.
Qed.

Theorem obj_roundtrip m : wf_mesh m = true -> parse_obj (write_obj m) = Some m.
Proof.
  intros H. unfold parse_obj, write_obj.
  rewrite (obj_take_v_ok 0 (nv m) (map obj_fline (faces m))).
  - cbn [fst snd]. rewrite Nat.add_0_l. rewrite (obj_faces_ok (nv m) (faces m) (wf_mesh_faces m H)).
    rewrite mesh_eta. reflexivity.
  - intros l r Hlr. destruct (faces m) as [|f fs]; simpl in Hlr; [discriminate|].
    inversion Hlr; subst. simpl. reflexivity.
Qed.

(* X3D coordIndex: the run structure is recovered exactly *)
Lemma x3d_run fuel next cur k rest :
  length (map N (seq next k) ++ rest) <= fuel ->
  x3d_parse fuel next cur (map N (seq next k) ++ rest) = x3d_parse (fuel - k) (next + k) (cur + k) rest.
Proof.
  revert fuel next cur. induction k as [|k IH]; intros fuel next cur Hf; simpl.
  - rewrite Nat.sub_0_r, !Nat.add_0_r. reflexivity.
  - destruct fuel as [|fu]; [simpl in Hf; lia|]. simpl. rewrite Nat.eqb_refl.
    rewrite IH by (simpl in Hf; lia). f_equal; lia.
Qed.

Theorem x3d_roundtrip (fs : list nat) start :
  forallb (Nat.leb 3) fs = true ->
  forall fuel, length (x3d_index start fs) < fuel ->
  x3d_parse fuel start 0 (x3d_index start fs) = Some fs.
Proof.
  revert start. induction fs as [|k fs IH]; intros start H fuel Hf; simpl in *.
  - destruct fuel; [lia|]. reflexivity.
  - apply andb_true_iff in H. destruct H as [Hk Hfs].
    rewrite x3d_run by (rewrite !app_length in *; simpl in *; lia).
    rewrite !app_length, map_length, seq_length in Hf. simpl in Hf.
    destruct (fuel - k) as [|fu] eqn:E; [lia|]. simpl. rewrite Hk.
    rewrite IH; auto. lia.
Qed.

(* STL: the parser recovers, in order, the fan triangles of every face *)
Lemma parse_stl_vertex_ok n i : i < n -> parse_stl_vertex n (stl_vertex i) = Some i.
Proof.
  intros H. unfold stl_vertex, vline, parse_stl_vertex.
  assert (E : Nat.div (3 * i) 3 = i) by (rewrite Nat.mul_comm; apply Nat.div_mul; lia).
  rewrite E. change (Nat.eqb kVERTEX kVERTEX) with true. cbn [andb].
  fold (vline i). rewrite line_eqb_refl. cbn [andb].
  apply Nat.ltb_lt in H. rewrite H. reflexivity.
Qed.

Definition tri_lt (n : nat) (t : tri3) : Prop := let '(a, b, c) := t in a < n /\ b < n /\ c < n.

Lemma parse_stl_facets_ok n ts :
  Forall (tri_lt n) ts -> parse_stl_facets n (flat_map stl_facet ts ++ [[K kENDSOLID; K 0]]) = Some ts.
Proof.
  induction 1 as [|[[a b] c] ts [Ha [Hb Hc]] _ IH]; [reflexivity|].
  cbn [flat_map stl_facet app parse_stl_facets].
  rewrite !line_eqb_refl. cbn [andb].
  rewrite (parse_stl_vertex_ok n a Ha), (parse_stl_vertex_ok n b Hb), (parse_stl_vertex_ok n c Hc), IH. reflexivity.
Qed.

Lemma fan_from_lt n a b l : a < n -> b < n -> Forall (fun i => i < n) l -> Forall (tri_lt n) (fan_from a b l).
Proof.
  revert b. induction l as [|c r IH]; intros b Ha Hb Hl; [constructor|].
  inversion Hl; subst. cbn [fan_from]. constructor; [simpl; auto|]. apply IH; auto.
Qed.
Lemma fan_lt n f : Forall (fun i => i < n) f -> Forall (tri_lt n) (fan f).
Proof.
  destruct f as [|a [|b l]]; intros H; try constructor.
  inversion H as [|? ? Ha H1]; subst. inversion H1 as [|? ? Hb H2]; subst. apply fan_from_lt; auto.
Qed.

Theorem stl_roundtrip m : wf_mesh m = true -> parse_stl (nv m) (write_stl m) = Some (flat_map fan (faces m)).
Proof.
  intros H. unfold parse_stl, write_stl. change (Nat.eqb kSOLID kSOLID) with true. cbn iota.
  apply parse_stl_facets_ok.
  unfold wf_mesh in H. rewrite forallb_forall in H.
  apply Forall_flat_map. apply Forall_forall. intros f Hf. apply fan_lt.
  specialize (H f Hf). apply andb_true_iff in H. destruct H as [_ Hi].
  rewrite forallb_forall in Hi. apply Forall_forall. intros i Hi'. apply Nat.ltb_lt. auto.
Qed.
