From Coq Require Import QArith Qreals Reals Bool List.
From Param Require Import Param.
Require Import Cox.Num.Ops Cox.Num.Transfer Cox.Geo.Vec Cox.Model.Simple Cox.Thm.InsideTransfer.
Import ListNotations.
Parametricity Recursive simple_bf.
Parametricity Recursive proper_cross_bf.
Theorem simple_bf_transfer V : simple_bf Qops V = simple_bf Rops (map Q2R2 V).
Proof. apply bool_R_eq. exact (simple_bf_R Q R QR Qops Rops ops_rel V _ (vecs2_R_QR V)). Qed.
Theorem proper_cross_bf_transfer V : proper_cross_bf Qops V = proper_cross_bf Rops (map Q2R2 V).
Proof. apply bool_R_eq. exact (proper_cross_bf_R Q R QR Qops Rops ops_rel V _ (vecs2_R_QR V)). Qed.
