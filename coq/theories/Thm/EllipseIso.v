(* C10: the isoperimetric quotient of an ellipse, WITHOUT the clamp of the source: 4 pi A / P^2 <= 1 for all semi-axes, with equality
   exactly for the circle.  P >= pi (a + b) by the pointwise bound sqrt(a^2 c^2 + b^2 s^2) >= a c^2 + b s^2 (c^2 + s^2 = 1), integrated;
   then (a + b)^2 >= 4 a b. *)
From Coq Require Import Reals Lra Psatz.
From mathcomp Require Import ssreflect.
From Coquelicot Require Import Coquelicot.
Require Import Cox.Model.Special Cox.Gen.Scalars Cox.Thm.PerimeterThm Cox.Thm.GenScalarsThm.
Local Open Scope R_scope.

Lemma speed_lower a b t : 0 < b -> 0 < a ->
  a * (cos t) ^ 2 + b * (sin t) ^ 2 <= sqrt ((a * cos t) ^ 2 + (b * sin t) ^ 2).
Proof.
  move=> Hb Ha. have Hs := sin2_cos2 t. rewrite /Rsqr in Hs.
  set c := cos t in Hs *. set s := sin t in Hs *.
  have Hc2 : 0 <= c ^ 2 by nra. have Hs2 : 0 <= s ^ 2 by nra.
  have Hl : 0 <= a * c ^ 2 + b * s ^ 2 by nra.
  rewrite -(sqrt_pow2 (a * c ^ 2 + b * s ^ 2)) //.
  apply sqrt_le_1_alt.
  have E : (a * c) ^ 2 + (b * s) ^ 2 - (a * c ^ 2 + b * s ^ 2) ^ 2 = c ^ 2 * s ^ 2 * (a - b) ^ 2.
  { have Hc : c ^ 2 = 1 - s ^ 2 by nra. ring_simplify. rewrite Hc. ring_simplify.
    replace (c ^ 4) with ((c ^ 2) ^ 2) by ring. rewrite Hc. ring. }
  have P : 0 <= c ^ 2 * s ^ 2 * (a - b) ^ 2.
  { apply Rmult_le_pos; [apply Rmult_le_pos; assumption|]. apply pow2_ge_0. }
  lra.
Qed.

Lemma RInt_lower a b :
  RInt (fun t => a * (cos t) ^ 2 + b * (sin t) ^ 2) 0 (PI / 2) = (a + b) * PI / 4.
Proof.
  apply is_RInt_unique; evar_last.
  - apply (is_RInt_derive (fun t => a * (t / 2 + sin t * cos t / 2) + b * (t / 2 - sin t * cos t / 2))).
    + move=> t _; auto_derive; trivial.
      have Hs := sin2_cos2 t. rewrite /Rsqr in Hs.
      set c := cos t in Hs *. set s := sin t in Hs *.
      replace (1 * c * c + s * (1 * - s)) with (2 * (c * c) - 1) by lra.
      replace (s ^ 2) with (1 - c * c) by lra. field.
    + move=> t _; apply: ex_derive_continuous; auto_derive; trivial.
  - rewrite /minus /plus /opp /=. rewrite sin_PI2 cos_PI2 sin_0 cos_0. field.
Qed.

Lemma ex_RInt_lower a b : ex_RInt (fun t => a * (cos t) ^ 2 + b * (sin t) ^ 2) 0 (PI / 2).
Proof. apply: ex_RInt_continuous => t _. apply: ex_derive_continuous. auto_derive. trivial. Qed.

Lemma ex_RInt_speed a b : 0 < b -> 0 < a -> ex_RInt (fun t => sqrt ((a * cos t) ^ 2 + (b * sin t) ^ 2)) 0 (PI / 2).
Proof.
  move=> Hb Ha. apply: ex_RInt_continuous => t _. apply: ex_derive_continuous. auto_derive.
  have Hs := sin2_cos2 t. rewrite /Rsqr in Hs.
  have : 0 < (a * cos t) ^ 2 + (b * sin t) ^ 2.
  { have H1 : 0 <= (a * cos t) ^ 2 by apply pow2_ge_0. have H2 : 0 <= (b * sin t) ^ 2 by apply pow2_ge_0.
    case: (Req_dec (sin t) 0) => Hz.
    - have Hc : cos t * cos t = 1 by nra. have : 0 < (a * cos t) ^ 2. { replace ((a * cos t) ^ 2) with (a ^ 2 * (cos t * cos t)) by ring. rewrite Hc. have: 0 < a ^ 2 by apply pow_lt. lra. } lra.
    - have : 0 < (b * sin t) ^ 2. { replace ((b * sin t) ^ 2) with (b ^ 2 * (sin t * sin t)) by ring. have Hss: 0 < sin t * sin t by nra. have Hbb : 0 < b ^ 2 by apply pow_lt. apply Rmult_lt_0_compat; assumption. } lra. }
  simpl. lra.
Qed.

Theorem ellipse_perimeter_lower a b cx cy cz : 0 < b -> b <= a -> PI * (a + b) <= ellipse_perimeter a b cx cy cz.
Proof.
  move=> Hb Hab. have Ha : 0 < a by lra.
  rewrite (ellipse_perimeter_is_arc_length a b cx cy cz Hb Hab).
  have Hle : RInt (fun t => a * (cos t) ^ 2 + b * (sin t) ^ 2) 0 (PI / 2)
             <= RInt (fun t => sqrt ((a * cos t) ^ 2 + (b * sin t) ^ 2)) 0 (PI / 2).
  { apply RInt_le.
    - have := PI_RGT_0. lra.
    - apply ex_RInt_lower. - apply ex_RInt_speed; assumption.
    - move=> t _. apply speed_lower; assumption. }
  rewrite RInt_lower in Hle. lra.
Qed.

Theorem ellipse_perimeter_lower_any a b cx cy cz : 0 < a -> 0 < b -> PI * (a + b) <= ellipse_perimeter a b cx cy cz.
Proof.
  move=> Ha Hb. case: (Rle_dec b a) => H.
  - by apply ellipse_perimeter_lower.
  - rewrite ellipse_perimeter_symmetric Rplus_comm. apply ellipse_perimeter_lower; lra.
Qed.

(* the un-clamped quotient *)
Definition ellipse_iq_raw (a b cx cy cz : R) := 4 * PI * ellipse_area a b cx cy cz / (ellipse_perimeter a b cx cy cz) ^ 2.

Theorem ellipse_isoperimetric a b cx cy cz : 0 < a -> 0 < b ->
  ellipse_iq_raw a b cx cy cz <= 1 /\ (a <> b -> ellipse_iq_raw a b cx cy cz < 1).
Proof.
  move=> Ha Hb. have Hp := ellipse_perimeter_lower_any a b cx cy cz Ha Hb.
  have HPI := PI_RGT_0. set P := ellipse_perimeter a b cx cy cz in Hp *.
  have HP0 : 0 < PI * (a + b) by apply Rmult_lt_0_compat; lra.
  have HP : 0 < P by lra.
  have Hsq : (PI * (a + b)) ^ 2 <= P ^ 2 by apply pow_incr; lra.
  have HP2 : 0 < P ^ 2 by apply pow_lt.
  rewrite /ellipse_iq_raw /ellipse_area -/P.
  have Hnum : 4 * PI * (PI * a * b) <= (PI * (a + b)) ^ 2.
  { have : 0 <= PI ^ 2 * (a - b) ^ 2 by apply Rmult_le_pos; apply pow2_ge_0. nra. }
  split.
  - apply Rcomplements.Rle_div_l; lra.
  - move=> Hne. apply Rcomplements.Rlt_div_l; first lra.
    have : 0 < PI ^ 2 * (a - b) ^ 2.
    { apply Rmult_lt_0_compat; first by apply pow_lt. have: a - b <> 0 by lra. move=> Hd. have := pow2_ge_0 (a - b).
      case: (Req_dec ((a - b) ^ 2) 0) => Hz; last lra. exfalso. apply Hd. nra. }
    nra.
Qed.

(* so the clamp of the source is never active, and iq = 1 only for the circle *)
Theorem ellipse_iq_is_raw a b cx cy cz : 0 < a -> 0 < b -> ellipse_iq a b cx cy cz = ellipse_iq_raw a b cx cy cz.
Proof.
  move=> Ha Hb. case: (ellipse_isoperimetric a b cx cy cz Ha Hb) => H _.
  rewrite /ellipse_iq. rewrite Rmin_left //.
Qed.

Theorem ellipse_iq_one_iff_circle a b cx cy cz : 0 < a -> 0 < b -> (ellipse_iq a b cx cy cz = 1 <-> a = b).
Proof.
  move=> Ha Hb. rewrite ellipse_iq_is_raw //. split.
  - move=> H1. case: (Req_dec a b) => // Hne. case: (ellipse_isoperimetric a b cx cy cz Ha Hb) => _ H. have := H Hne. lra.
  - move=> ->. rewrite /ellipse_iq_raw /ellipse_area.
    have Hp : ellipse_perimeter b b cx cy cz = 2 * PI * b.
    { rewrite /ellipse_perimeter /ellipse_eccentricity Rmin_left; last lra. rewrite Rmax_left; last lra.
      have -> : 1 - b ^ 2 / b ^ 2 = 0 by field; lra. rewrite sqrt_0 /EllipE.
      rewrite (RInt_ext _ (fun _ => 1)).
      - rewrite RInt_const /scal /= /mult /=. field.
      - move=> t _. rewrite -[RHS]sqrt_1. f_equal. ring. }
    rewrite Hp. have := PI_RGT_0. move=> HPI. field. split; lra.
Qed.
