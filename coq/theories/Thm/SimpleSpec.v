(* C15: simple_bf unfolded: the cycle is accepted exactly when it has at least three vertices and, for every pair of edges i < j,
   adjacent edges do not overlap beyond their common vertex and non-adjacent edges have no common point. *)
From Coq Require Import Reals List Bool Arith Lia.
Require Import Cox.Num.Ops Cox.Geo.Vec Cox.Model.Simple Cox.Thm.SimpleThm Cox.Thm.SegMeet.
Import ListNotations.

Lemma index_edges_In (E : list (V2 * V2)) k i e :
  In (i, e) (index_edges k E) <-> (k <= i /\ nth_error E (i - k) = Some e).
Proof.
  revert k. induction E as [|x E IH]; intros k; cbn [index_edges].
  - split; [intros []|]. intros [_ H]. destruct (i - k); discriminate.
  - cbn [In]. rewrite IH. split.
    + intros [H|[H1 H2]].
      * inversion H; subst. split; [lia|]. rewrite Nat.sub_diag. reflexivity.
      * split; [lia|]. replace (i - k) with (S (i - S k)) by lia. exact H2.
    + intros [H1 H2]. destruct (Nat.eq_dec i k) as [->|Hne].
      * left. rewrite Nat.sub_diag in H2. cbn in H2. inversion H2. reflexivity.
      * right. split; [lia|]. replace (i - k) with (S (i - S k)) in H2 by lia. exact H2.
Qed.

Definition pair_ok (n : nat) (i j : nat) (e1 e2 : V2 * V2) : Prop :=
  let a := fst e1 in let b := snd e1 in let c := fst e2 in let d := snd e2 in
  if Nat.eqb j (S i) then ~ (exists p, ~ same_pt p b /\ on_seg a b p /\ on_seg b d p)
  else if Nat.eqb i 0 && Nat.eqb (S j) n then ~ (exists p, ~ same_pt p a /\ on_seg d a p /\ on_seg a b p)
  else ~ (exists p, on_seg a b p /\ on_seg c d p).

Theorem simple_bf_spec (V : list V2) :
  simple_bf Rops V = true <->
  (3 <= length V /\
   forall i j e1 e2, i < j -> nth_error (cpairs V) i = Some e1 -> nth_error (cpairs V) j = Some e2 -> pair_ok (length V) i j e1 e2).
Proof.
  unfold simple_bf. rewrite andb_true_iff, Nat.leb_le. apply and_iff_compat_l.
  rewrite forallb_forall. split.
  - intros H i j e1 e2 Hij H1 H2.
    assert (I1 : In (i, e1) (index_edges 0 (cpairs V))) by (apply index_edges_In; rewrite Nat.sub_0_r; split; [lia|exact H1]).
    assert (I2 : In (j, e2) (index_edges 0 (cpairs V))) by (apply index_edges_In; rewrite Nat.sub_0_r; split; [lia|exact H2]).
    specialize (H _ I1). rewrite forallb_forall in H. specialize (H _ I2). cbn [fst snd] in H.
    destruct (Nat.leb_spec j i) as [L|L]; [lia|]. unfold pair_ok. cbv zeta.
    destruct (Nat.eqb j (S i)).
    + apply negb_true_iff in H. intros Hex. apply fold_back_spec in Hex. congruence.
    + destruct (Nat.eqb i 0 && Nat.eqb (S j) (length V)).
      * apply negb_true_iff in H. intros Hex. apply fold_back_spec in Hex. congruence.
      * apply negb_true_iff in H. intros Hex. apply seg_meet_spec in Hex. congruence.
  - intros H [i e1] I1. rewrite forallb_forall. intros [j e2] I2. cbn [fst snd].
    apply index_edges_In in I1. apply index_edges_In in I2. rewrite Nat.sub_0_r in I1, I2. destruct I1 as [_ H1]. destruct I2 as [_ H2].
    destruct (Nat.leb_spec j i) as [L|L]; [reflexivity|].
    specialize (H i j e1 e2 L H1 H2). unfold pair_ok in H. cbv zeta in H.
    destruct (Nat.eqb j (S i)).
    + apply negb_true_iff. destruct (fold_back Rops (fst e1) (snd e1) (snd e2)) eqn:E; [|reflexivity]. exfalso. apply H. apply fold_back_spec. exact E.
    + destruct (Nat.eqb i 0 && Nat.eqb (S j) (length V)).
      * apply negb_true_iff. destruct (fold_back Rops (snd e2) (fst e1) (snd e1)) eqn:E; [|reflexivity]. exfalso. apply H. apply fold_back_spec. exact E.
      * apply negb_true_iff. destruct (seg_meet Rops (fst e1) (snd e1) (fst e2) (snd e2)) eqn:E; [|reflexivity]. exfalso. apply H. apply seg_meet_spec. exact E.
Qed.
