(* C12, level 0: the edge term of the line-integral formula IS the line integral of the plane wave along the edge,
     int_0^1 e^{-i q.(a + t e)} dt = sinc(q.e/2) e^{-i q.(a+b)/2},
   (Coquelicot RInt, antiderivative checked by is_RInt_derive), and the polygon amplitude is the sum of the amplitudes
   of its fan triangles (chords cancel). The remaining step to "= Fourier transform of the indicator" is the planar
   divergence theorem for the field  i q e^{-i q.r} / q^2, which is modelled, not proved. *)
From Coq Require Import Reals List Permutation Lra.
From mathcomp Require Import ssreflect.
From Coquelicot Require Import Coquelicot.
Require Import Cox.Num.Ops Cox.Geo.Vec Cox.Geo.Sums Cox.Model.FormFactor Cox.Thm.InsideThm Cox.Thm.FormFactorThm
  Cox.Thm.CurvedIntegrals Cox.Thm.CycleSplit.
Import ListNotations.
Local Open Scope R_scope.

Lemma sinc_half al be : be <> 0 -> (sin (al + be) - sin al) / be = sincR (be / 2) * cos (al + be / 2).
Proof.
  intros Hb. unfold sincR. destruct (Req_EM_T (be / 2) 0) as [H|H]; [exfalso; lra|].
  rewrite form4. replace ((al + be + al) / 2) with (al + be / 2) by field. replace ((al + be - al) / 2) with (be / 2) by field.
  field. lra.
Qed.
Lemma sinc_half_sin al be : be <> 0 -> (- cos (al + be) + cos al) / be = sincR (be / 2) * sin (al + be / 2).
Proof.
  intros Hb. unfold sincR. destruct (Req_EM_T (be / 2) 0) as [H|H]; [exfalso; lra|].
  replace (- cos (al + be) + cos al) with (- (cos (al + be) - cos al)) by ring. rewrite form2.
  replace ((al + be + al) / 2) with (al + be / 2) by field. replace ((al + be - al) / 2) with (be / 2) by field.
  field. lra.
Qed.

Theorem edge_wave_integral_cos al be :
  RInt (fun t => cos (al + t * be)) 0 1 = sincR (be / 2) * cos (al + be / 2).
Proof.
  destruct (Req_EM_T be 0) as [->|Hb].
  - rewrite (RInt_ext _ (fun _ => cos al)). 2:{ intros t _. f_equal. ring. }
    rewrite RInt_const. rewrite /scal /= /mult /=. unfold sincR.
    destruct (Req_EM_T (0 / 2) 0) as [_|H]; [|exfalso; lra]. replace (al + 0 / 2) with al by field. ring.
  - rewrite <- (sinc_half al be Hb).
    by_antiderivative (fun t => sin (al + t * be) / be) ltac:(field; exact Hb)
      ltac:(replace (al + 1 * be) with (al + be) by ring; replace (al + 0 * be) with al by ring; field; exact Hb).
Qed.
Theorem edge_wave_integral_sin al be :
  RInt (fun t => sin (al + t * be)) 0 1 = sincR (be / 2) * sin (al + be / 2).
Proof.
  destruct (Req_EM_T be 0) as [->|Hb].
  - rewrite (RInt_ext _ (fun _ => sin al)). 2:{ intros t _. f_equal. ring. }
    rewrite RInt_const. rewrite /scal /= /mult /=. unfold sincR.
    destruct (Req_EM_T (0 / 2) 0) as [_|H]; [|exfalso; lra]. replace (al + 0 / 2) with al by field. ring.
  - rewrite <- (sinc_half_sin al be Hb).
    by_antiderivative (fun t => - cos (al + t * be) / be) ltac:(field; exact Hb)
      ltac:(replace (al + 1 * be) with (al + be) by ring; replace (al + 0 * be) with al by ring; field; exact Hb).
Qed.

(* the plane wave integrated along the edge a -> b *)
Definition wave_on_edge (q a b : vec3 R) : Cx :=
  let e := vsub Rops b a in
  (RInt (fun t => cos (- vdot Rops q a + t * - vdot Rops q e)) 0 1,
   RInt (fun t => sin (- vdot Rops q a + t * - vdot Rops q e)) 0 1).

Theorem edge_term_is_line_integral n q a b :
  edge_term n q a b
  = cscale (vdot Rops (vcross Rops (vsub Rops b a) q) n / vdot Rops q q) (cmul (0, -1) (wave_on_edge q a b)).
Proof.
  unfold wave_on_edge. cbv zeta. rewrite edge_wave_integral_cos edge_wave_integral_sin.
  replace (- vdot Rops q (vsub Rops b a) / 2) with (- (vdot Rops q (vsub Rops b a) / 2)) by field.
  rewrite sincR_even.
  assert (Hm : - vdot Rops q a + - (vdot Rops q (vsub Rops b a) / 2) = - vdot Rops q (vscale Rops (/ 2) (vadd Rops a b))).
  { vsimp q; vsimp a; vsimp b. unf. field. }
  rewrite Hm. unfold edge_term, cscale, cmul, cexp_i. cbn [fst snd].
  apply cx_eq; cbn [fst snd]; unfold Rdiv; ring.
Qed.

(* ---- polygon = sum of its fan triangles ---- *)
Definition ff_re n q (e : vec3 R * vec3 R) : R := fst (edge_term n q (fst e) (snd e)).
Definition ff_im n q (e : vec3 R * vec3 R) : R := snd (edge_term n q (fst e) (snd e)).
Lemma ff_re_anti n q a b : ff_re n q (b, a) = - ff_re n q (a, b).
Proof. unfold ff_re. cbn [fst snd]. rewrite (edge_term_rev n q a b). reflexivity. Qed.
Lemma ff_im_anti n q a b : ff_im n q (b, a) = - ff_im n q (a, b).
Proof. unfold ff_im. cbn [fst snd]. rewrite (edge_term_rev n q a b). reflexivity. Qed.

Lemma csum_fst (l : list Cx) : fst (csum l) = Rsum (map fst l).
Proof. induction l as [|a l IH]; simpl; [reflexivity|]. rewrite IH. reflexivity. Qed.
Lemma csum_snd (l : list Cx) : snd (csum l) = Rsum (map snd l).
Proof. induction l as [|a l IH]; simpl; [reflexivity|]. rewrite IH. reflexivity. Qed.

Fixpoint ff_fan n q (a b : vec3 R) (l : list (vec3 R)) : Cx :=
  match l with [] => (0, 0) | c :: r => cadd (polygon_ff n q [a; b; c]) (ff_fan n q a c r) end.

Theorem ff_is_fan n q a b l : polygon_ff n q (a :: b :: l) = ff_fan n q a b l.
Proof.
  assert (Hre : forall V, fst (polygon_ff n q V) = cyc (ff_re n q) V).
  { intros V. unfold polygon_ff, cyc. rewrite csum_fst map_map. reflexivity. }
  assert (Him : forall V, snd (polygon_ff n q V) = cyc (ff_im n q) V).
  { intros V. unfold polygon_ff, cyc. rewrite csum_snd map_map. reflexivity. }
  assert (Hf : forall l b, fst (ff_fan n q a b l) = fan (ff_re n q) a b l /\ snd (ff_fan n q a b l) = fan (ff_im n q) a b l).
  { induction l0 as [|c r IH]; intros b0; cbn [ff_fan fan]; [split; reflexivity|].
    destruct (IH c) as [I1 I2]. unfold cadd; cbn [fst snd]. rewrite Hre Him I1 I2. split; reflexivity. }
  apply cx_eq.
  - rewrite Hre (cycle_is_fan (ff_re n q) (ff_re_anti n q)). symmetry. apply Hf.
  - rewrite Him (cycle_is_fan (ff_im n q) (ff_im_anti n q)). symmetry. apply Hf.
Qed.
