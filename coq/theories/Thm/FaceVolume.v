(* C02: Polyhedron.volume adds, for every face, (-d_f) A_f / 3 (plane offset times face area).  For a planar face listed
   counter-clockwise about its normal this IS the signed volume of the cone from the origin over the face, i.e. the sum of the
   tetrahedron volumes m0 over the face's fan triangles - for faces with any number of vertices. *)
From Coq Require Import Reals List Permutation Lra Lia Bool.
Require Import Cox.Num.Ops Cox.Geo.Vec Cox.Geo.Sums Cox.Model.Mesh Cox.Model.Polygon Cox.Thm.InsideThm Cox.Thm.CycleSplit Cox.Thm.PolygonThm.
Import ListNotations.
Local Open Scope R_scope.

Fixpoint fan_tris (a b : vec3 R) (l : list (vec3 R)) : list (@tri R) :=
  match l with [] => [] | c :: r => (a, b, c) :: fan_tris a c r end.

(* the edge functional e |-> w . (e1 x e2) *)
Definition wcross (w : vec3 R) (e : vec3 R * vec3 R) : R := vdot Rops w (vcross Rops (fst e) (snd e)).
Lemma wcross_anti w a b : wcross w (b, a) = - wcross w (a, b).
Proof. dv w; dv a; dv b. unfold wcross. vs. ring. Qed.

Lemma wcross_cyc w V : cyc (wcross w) V = vdot Rops w (A2 Rops V).
Proof.
  unfold cyc, wcross, A2.
  induction (cpairs V) as [|e l IH]; cbn [map fold_right Rsum].
  - dv w. vs. simpl. ring.
  - simpl Rsum. unfold Rsum in IH. rewrite IH. dv w. destruct (fold_right _ _ l) as [[p q] r].
    destruct (vcross Rops (fst e) (snd e)) as [[x0 y0] z0]. vs. ring.
Qed.

Lemma wcross_triangle a b c : cyc (wcross a) [a; b; c] = vdet Rops a b c.
Proof. unfold cyc, cpairs, roll, wcross. cbn [app combine map Rsum fold_right fst snd]. dv a; dv b; dv c. unfold vdet. vs. simpl. ring. Qed.

Lemma cone0_cons (t : @tri R) T : cone0 Rops (t :: T) = m0 Rops t + cone0 Rops T.
Proof. reflexivity. Qed.
Lemma m0_det a b c : m0 Rops (a, b, c) = vdet Rops a b c / 6.
Proof. unfold m0, cst, tdet, ta, tb, tc. cbn [fst snd omul odiv ofromZ Rops]. field. Qed.

Theorem face_cone_volume a b l : 6 * cone0 Rops (fan_tris a b l) = vdot Rops a (A2 Rops (a :: b :: l)).
Proof.
  rewrite <- wcross_cyc, (cycle_is_fan (wcross a) (wcross_anti a)).
  revert b. induction l as [|c r IH]; intros b; cbn [fan_tris fan].
  - unfold cone0. simpl. ring.
  - rewrite <- IH, wcross_triangle, cone0_cons, m0_det. field.
Qed.

(* the code's per-face term (N.v0) |sproj_p| / (2 |N_p|)  [= (-d_f) A_f]  equals three times that cone volume for a planar face
   listed counter-clockwise about N (sproj_p / N_p >= 0: the documented precondition on the vertex order) *)
Theorem face_volume_term_exact a b l lam :
  let V := a :: b :: l in let N := pnormal Rops V in let p := argmax3 Rops N in
  A2 Rops V = vscale Rops lam N -> vcomp p N <> 0 -> 0 <= sproj Rops p V / vcomp p N ->
  face_vol_term Rops V = 3 * cone0 Rops (fan_tris a b l).
Proof.
  intros V N p Hpl Hnz Hccw.
  assert (E : 3 * cone0 Rops (fan_tris a b l) = vdot Rops a (A2 Rops V) / 2) by (unfold V; rewrite <- face_cone_volume; field).
  rewrite E. unfold face_vol_term. fold V. fold N. fold p. unfold hd3. cbn [nth].
  assert (Hp : (p < 3)%nat).
  { unfold p, argmax3. destruct (_ && _); [lia|]. destruct (oleb Rops _ _); lia. }
  (* |sproj| / |N_p| = sproj / N_p *)
  assert (Habs : oabs Rops (sproj Rops p V) / oabs Rops (vcomp p N) = sproj Rops p V / vcomp p N).
  { unfold oabs. cbn [oltb oopp o0 Rops].
    destruct (Rltb (sproj Rops p V) 0) eqn:E1, (Rltb (vcomp p N) 0) eqn:E2;
      try apply Rltb_true in E1; try apply Rltb_true in E2; try apply Rltb_false in E1; try apply Rltb_false in E2.
    - field. lra.
    - exfalso. assert (0 < vcomp p N) by lra. assert (sproj Rops p V / vcomp p N < 0).
      { unfold Rdiv. apply Ropp_lt_cancel. rewrite Ropp_0, Ropp_mult_distr_l. apply Rmult_lt_0_compat; [lra|apply Rinv_0_lt_compat; lra]. }
      lra.
    - destruct (Req_dec (sproj Rops p V) 0) as [Z|Z]; [rewrite Z; field; lra|].
      exfalso. assert (0 < sproj Rops p V) by lra. assert (sproj Rops p V / vcomp p N < 0).
      { unfold Rdiv. replace (sproj Rops p V * / vcomp p N) with (- (sproj Rops p V * / - vcomp p N)) by (field; lra).
        apply Ropp_lt_gt_0_contravar. apply Rmult_lt_0_compat; [lra|apply Rinv_0_lt_compat; lra]. }
      lra.
    - reflexivity. }
  cbn [omul odiv ofromZ Rops]. change (nth 0 V (vzero Rops)) with a.
  replace (vdot Rops N a * oabs Rops (sproj Rops p V) / (2 * oabs Rops (vcomp p N)))
     with (vdot Rops N a * (oabs Rops (sproj Rops p V) / oabs Rops (vcomp p N)) / 2).
  2:{ field. unfold oabs. cbn [oltb oopp o0 Rops]. destruct (Rltb (vcomp p N) 0); lra. }
  rewrite Habs, (sproj_is_A2_component p V Hp), Hpl.
  (* (N.a) (lam N_p) / N_p / 2 = a . (lam N) / 2 *)
  dv N. dv a. destruct p as [|[|[|p]]]; try lia; vs; field; exact Hnz.
Qed.
