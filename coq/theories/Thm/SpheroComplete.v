(* C05, convex spheropolyhedra: completeness of the face test relative to the face.  For a well-formed, strictly convex face F and a point x:
   if SOME point of F is within r of x, the face test (extruded face / edge cylinders / vertex spheres) accepts x.
   With check_face_sound: the face test decides "x is within r of the face" exactly (for points the algorithm looks at). *)
From Coq Require Import Reals List Bool Lra Psatz Permutation.
From mathcomp Require Import ssreflect.
Require Import Cox.Num.Ops Cox.Geo.Vec Cox.Geo.Sums Cox.Model.FormFactor Cox.Thm.FormFactorThm Cox.Thm.InsideThm Cox.Thm.FaceFF Cox.Model.Sphero
  Cox.Thm.SpheroThm.
Import ListNotations.
Local Open Scope R_scope.

(* ---- 1. a segment that starts inside finitely many half-lines and ends outside one of them crosses a boundary first ---- *)
Definition lin (p : R * R) (t : R) : R := (1 - t) * fst p + t * snd p.

Lemma lin_le p t t' : fst p <= 0 -> lin p t' <= 0 -> 0 <= t <= t' -> 0 < t' -> lin p t <= 0.
Proof.
  rewrite /lin => H0 H1 [Ht Htt] Hp.
  (* lin p t is the convex combination of lin p 0 = fst p and lin p t' *)
  have E : (1 - t) * fst p + t * snd p = (1 - t / t') * fst p + (t / t') * ((1 - t') * fst p + t' * snd p) by field; lra.
  rewrite E. have Hq : 0 <= t / t' <= 1.
  { split; [apply Rcomplements.Rdiv_le_0_compat | apply Rcomplements.Rle_div_l]; lra. }
  have A : (1 - t / t') * fst p <= 0 by (have : 0 <= (1 - t / t') * (- fst p) by apply Rmult_le_pos; lra); lra.
  have B : t / t' * ((1 - t') * fst p + t' * snd p) <= 0.
  { have : 0 <= t / t' * (- ((1 - t') * fst p + t' * snd p)) by apply Rmult_le_pos; lra. lra. }
  lra.
Qed.

Lemma root p : fst p <= 0 -> 0 < snd p ->
  let t := - fst p / (snd p - fst p) in 0 <= t < 1 /\ lin p t = 0.
Proof.
  move=> H0 H1. cbn zeta. have Hd : 0 < snd p - fst p by lra. split; [split|].
  - apply Rcomplements.Rdiv_le_0_compat; lra.
  - apply Rcomplements.Rlt_div_l; lra.
  - rewrite /lin. field. lra.
Qed.

Lemma exit_point (L : list (R * R)) :
  (forall p, In p L -> fst p <= 0) -> (exists p, In p L /\ 0 < snd p) ->
  exists t, 0 <= t < 1 /\ (exists p, In p L /\ lin p t = 0 /\ 0 < snd p) /\ forall p, In p L -> lin p t <= 0.
Proof.
  elim: L => [|p L IH] H0 [q [Hq Hq1]]; first by case: Hq.
  have Hp0 : fst p <= 0 by apply H0; left.
  have HL0 : forall p', In p' L -> fst p' <= 0 by move=> p' Hp'; apply H0; right.
  (* does the tail contain a violated constraint? *)
  have Hdec : (exists q', In q' L /\ 0 < snd q') \/ (forall q', In q' L -> snd q' <= 0).
  { clear. elim: L => [|a L IH]; first by right.
    case: IH => [[q' [H1 H2]]|H]; first by left; exists q'; split; [right|].
    case: (Rlt_dec 0 (snd a)) => Ha; first by left; exists a; split; [left|].
    right => q' [<-|Hq']; [lra | by apply H]. }
  case: Hdec => [Hex|Hall].
  - have [t' [[Ht0 Ht1] [[p' [Hp' [Hz Hs']]] Hle]]] := IH HL0 Hex.
    case: (Rle_dec (lin p t') 0) => Hpt.
    + exists t'. split=> //. split; first by exists p'; split; [right|split].
      move=> p'' [<-|Hin] //. by apply Hle.
    + (* p is crossed before t' *)
      have Hpt' : 0 < lin p t' by lra.
      have Ht'pos : 0 < t'. { case: (Req_dec t' 0) => [E|]; last lra. rewrite E /lin in Hpt'. lra. }
      have Hs : 0 < snd p. { rewrite /lin in Hpt'. case: (Rle_dec (snd p) 0) => Hn; last lra. exfalso.
        have : (1 - t') * fst p <= 0 by (have : 0 <= (1 - t') * (- fst p) by apply Rmult_le_pos; lra); lra.
        have : t' * snd p <= 0 by (have : 0 <= t' * (- snd p) by apply Rmult_le_pos; lra); lra. lra. }
      have [[Hr0 Hr1] Hrz] := root p Hp0 Hs. set t := - fst p / (snd p - fst p) in Hr0 Hr1 Hrz.
      have Htt : t <= t'.
      { (* lin p is increasing (snd p > fst p) and vanishes at t, is positive at t' *)
        case: (Rle_dec t t') => Hn; first exact Hn. exfalso.
        have : lin p t' <= lin p t. { rewrite /lin. have : (t - t') * (snd p - fst p) >= 0 by apply Rle_ge, Rmult_le_pos; lra. lra. }
        lra. }
      exists t. split; first lra. split; first by exists p; split; [left|split].
      move=> p'' [<-|Hin]; first lra.
      apply (lin_le p'' t t'); [by apply HL0 | by apply Hle | lra | lra].
  - (* only p is violated *)
    have Hs : 0 < snd p. { case: Hq => [E|Hin]; first by rewrite E. have := Hall q Hin. lra. }
    have [[Hr0 Hr1] Hrz] := root p Hp0 Hs. set t := - fst p / (snd p - fst p) in Hr0 Hr1 Hrz.
    exists t. split; first lra. split; first by exists p; split; [left|split].
    move=> p'' [<-|Hin]; first lra.
    rewrite /lin. have A := HL0 p'' Hin. have B := Hall p'' Hin.
    have : (1 - t) * fst p'' <= 0 by (have : 0 <= (1 - t) * (- fst p'') by apply Rmult_le_pos; lra); lra.
    have : t * snd p'' <= 0 by (have : 0 <= t * (- snd p'') by apply Rmult_le_pos; lra); lra. lra.
Qed.

(* ---- 2. consecutive edges of a cycle ---- *)

Lemma combine3_next {A} (l1 l2 l3 : list A) a b :
  length l3 = length l2 -> In (a, b) (combine l1 l2) -> exists c, In (a, (b, c)) (combine l1 (combine l2 l3)).
Proof.
  elim: l1 l2 l3 => [|x l1 IH] [|y l2] [|z l3] //= Hl.
  case=> [[<- <-]|Hin]; first by exists z; left.
  have [c Hc] := IH l2 l3 (eq_add_S _ _ Hl) Hin. by exists c; right.
Qed.
Lemma combine3_prev {A} (l1 l2 l3 : list A) a b :
  length l1 = length l2 -> In (a, b) (combine l2 l3) -> exists z, In (z, (a, b)) (combine l1 (combine l2 l3)).
Proof.
  elim: l1 l2 l3 => [|x l1 IH] [|y l2] [|z l3] //= Hl.
  case=> [[<- <-]|Hin]; first by exists x; left.
  have [c Hc] := IH l2 l3 (eq_add_S _ _ Hl) Hin. by exists c; right.
Qed.
Lemma combine3_first {A} (l1 l2 l3 : list A) z a b :
  In (z, (a, b)) (combine l1 (combine l2 l3)) -> In (z, a) (combine l1 l2) /\ In (a, b) (combine l2 l3).
Proof.
  elim: l1 l2 l3 => [|x l1 IH] [|y l2] [|w l3] //=.
  case=> [[<- <- <-]|Hin]; first by split; left.
  have [H1 H2] := IH l2 l3 Hin. by split; right.
Qed.

Lemma edge_next {A} (l : list A) a b : In (a, b) (cpairs l) -> exists c, In (a, (b, c)) (ctrip l) /\ In (b, c) (cpairs l).
Proof.
  move=> H. have [c Hc] := combine3_next l (roll l) (roll (roll l)) a b (roll_length (roll l)) H.
  exists c. split=> //. have [_ H2] := combine3_first _ _ _ _ _ _ Hc.
  apply (Permutation_in _ (cpairs_roll l)). exact H2.
Qed.
Lemma edge_prev {A} (l : list A) a b : In (a, b) (cpairs l) -> exists z, In (z, (a, b)) (ctrip l) /\ In (z, a) (cpairs l).
Proof.
  move=> H. have H' : In (a, b) (combine (roll l) (roll (roll l))).
  { apply (Permutation_in _ (Permutation_sym (cpairs_roll l))). exact H. }
  have [z Hz] := combine3_prev l (roll l) (roll (roll l)) a b (eq_sym (roll_length l)) H'.
  exists z. split=> //. by have [H1 _] := combine3_first _ _ _ _ _ _ Hz.
Qed.

(* ---- 3. a point of the face on the line of an edge lies on that edge ---- *)
Definition strictly_convex (F : list V3) : Prop :=
  forall a b c, In (a, (b, c)) (ctrip F) -> 0 < vdot Rops (fnormal3 Rops F) (vcross Rops (vsub Rops b a) (vsub Rops c b)).

Lemma plane_val_diff (F : list V3) (u w : V3) : plane_val Rops F u - plane_val Rops F w = vdot Rops (fnormal3 Rops F) (vsub Rops u w).
Proof. rewrite /plane_val. set N := fnormal3 _ _. clearbody N. set v0 := List.nth _ _ _. clearbody v0. vsimp N; vsimp v0; vsimp u; vsimp w. unf. ring. Qed.

Lemma decompose (e N v : V3) :
  vdot Rops e N = 0 -> vdot Rops v N = 0 -> vdot Rops (vcross Rops e N) v = 0 -> 0 < vdot Rops e e -> 0 < vdot Rops N N ->
  v = vscale Rops (vdot Rops v e / vdot Rops e e) e.
Proof.
  move: e N v => [[e1 e2] e3] [[n1 n2] n3] [[v1 v2] v3]. unf. move=> H1 H2 H3 He HN.
  set ee := e1 * e1 + e2 * e2 + e3 * e3 in He *. set nn := n1 * n1 + n2 * n2 + n3 * n3 in HN.
  set ve := v1 * e1 + v2 * e2 + v3 * e3.
  set eN := e1 * n1 + e2 * n2 + e3 * n3 in H1. set vN := v1 * n1 + v2 * n2 + v3 * n3 in H2.
  set X := (e2 * n3 - e3 * n2) * v1 + (e3 * n1 - e1 * n3) * v2 + (e1 * n2 - e2 * n1) * v3 in H3.
  have K : forall vi ei, nn * (ee * vi - ve * ei) = 0 -> vi = ve / ee * ei.
  { move=> vi ei H0. case: (Rmult_integral _ _ H0) => [|E]; first lra. field_simplify_eq; lra. }
  f_equal; [f_equal|]; apply K.
  - have -> : nn * (ee * v1 - ve * e1) = eN * (eN * v1 - vN * e1 - ve * n1) + vN * (ee * n1) + X * (e2 * n3 - e3 * n2)
      by rewrite /nn /ee /ve /eN /vN /X; ring.
    rewrite H1 H2 H3. ring.
  - have -> : nn * (ee * v2 - ve * e2) = eN * (eN * v2 - vN * e2 - ve * n2) + vN * (ee * n2) + X * (e3 * n1 - e1 * n3)
      by rewrite /nn /ee /ve /eN /vN /X; ring.
    rewrite H1 H2 H3. ring.
  - have -> : nn * (ee * v3 - ve * e3) = eN * (eN * v3 - vN * e3 - ve * n3) + vN * (ee * n3) + X * (e1 * n2 - e2 * n1)
      by rewrite /nn /ee /ve /eN /vN /X; ring.
    rewrite H1 H2 H3. ring.
Qed.

Lemma seg_rebuild (a e w : V3) t : vsub Rops w a = vscale Rops t e -> w = vadd Rops a (vscale Rops t e).
Proof. move=> H. rewrite -H. vsimp a; vsimp w. unf. f_equal; [f_equal|]; ring. Qed.
Lemma add_sub (a b : V3) : b = vadd Rops a (vsub Rops b a).
Proof. vsimp a; vsimp b. unf. f_equal; [f_equal|]; ring. Qed.
Lemma prev_side (N e a z : V3) t :
  vdot Rops (vcross Rops (vsub Rops a z) N) (vsub Rops (vadd Rops a (vscale Rops t e)) z)
  = - t * vdot Rops N (vcross Rops (vsub Rops a z) e).
Proof. vsimp N; vsimp e; vsimp a; vsimp z. unf. ring. Qed.
Lemma next_side (N e a c : V3) t :
  vdot Rops (vcross Rops (vsub Rops c (vadd Rops a e)) N) (vsub Rops (vadd Rops a (vscale Rops t e)) (vadd Rops a e))
  = (t - 1) * vdot Rops N (vcross Rops e (vsub Rops c (vadd Rops a e))).
Proof. vsimp N; vsimp e; vsimp a; vsimp c. unf. ring. Qed.

Lemma tight_on_segment F a b w :
  face_wf F -> strictly_convex F -> 0 < vdot Rops (fnormal3 Rops F) (fnormal3 Rops F) ->
  In (a, b) (cpairs F) -> in_faceP F w -> side_val F (a, b) w = 0 ->
  exists t, 0 <= t <= 1 /\ w = on_seg a b t.
Proof.
  move=> [Hv He] Hc HNN Hin [Pw Sw] Hz.
  have [Ia Ib] := cpairs_in F (a, b) Hin. cbn [fst snd] in Ia, Ib.
  have [Pa _] := Hv a Ia. have [Pb _] := Hv b Ib.
  set N := fnormal3 Rops F in HNN *. set e := vsub Rops b a.
  have Hne : a <> b := He (a, b) Hin.
  have Hee : 0 < vdot Rops e e by apply sub_norm_pos.
  have HeN : vdot Rops e N = 0. { rewrite dot_comm /e -/N -plane_val_diff Pa Pb. ring. }
  have HvN : vdot Rops (vsub Rops w a) N = 0. { rewrite dot_comm -/N -plane_val_diff Pw Pa. ring. }
  have Hx : vdot Rops (vcross Rops e N) (vsub Rops w a) = 0 by exact Hz.
  have D := decompose e N (vsub Rops w a) HeN HvN Hx Hee HNN.
  set t := vdot Rops (vsub Rops w a) e / vdot Rops e e in D.
  have Hw : w = vadd Rops a (vscale Rops t e) by apply seg_rebuild.
  exists t. split; last by rewrite /on_seg -/e.
  have [c [Hc3 Hbc]] := edge_next F a b Hin. have [z [Hz3 Hza]] := edge_prev F a b Hin.
  have K1 := Hc a b c Hc3. have K0 := Hc z a b Hz3. rewrite -/N -/e in K1 K0.
  have S1 := Sw (b, c) Hbc. have S0 := Sw (z, a) Hza. rewrite /side_val -/N in S1 S0. cbn [fst snd] in S1, S0.
  split.
  - (* previous edge: t >= 0 *)
    rewrite Hw prev_side in S0. case: (Rle_dec 0 t) => Hn; first exact Hn. exfalso.
    have : 0 < - t * vdot Rops N (vcross Rops (vsub Rops a z) e) by apply Rmult_lt_0_compat; lra. lra.
  - (* next edge: t <= 1 *)
    move: S1 K1. rewrite Hw (add_sub a b) -/e next_side => S1 K1. case: (Rle_dec t 1) => Hn; first exact Hn. exfalso.
    have : 0 < (t - 1) * vdot Rops N (vcross Rops e (vsub Rops c (vadd Rops a e))) by apply Rmult_lt_0_compat; lra. lra.
Qed.

(* ---- 4. completeness of the face test ---- *)
Lemma forallb_false {A} (f : A -> bool) l : forallb f l = false -> exists x, In x l /\ f x = false.
Proof.
  elim: l => [|a l IH] //=. case E: (f a) => /=; last by move=> _; exists a; split; [left|].
  move=> H. have [x [Hx Hf]] := IH H. by exists x; split; [right|].
Qed.

Lemma pythagoras (x y N : V3) k :
  vdot Rops N (vsub Rops (vsub Rops x (vscale Rops k N)) y) = 0 ->
  dist2 x y = dist2 x (vsub Rops x (vscale Rops k N)) + dist2 (vsub Rops x (vscale Rops k N)) y.
Proof.
  rewrite /dist2. move: x y N => [[x1 x2] x3] [[y1 y2] y3] [[n1 n2] n3]. unf. move=> H.
  set a := x1 - k * n1 - y1 in H *. set b := x2 - k * n2 - y2 in H *. set c := x3 - k * n3 - y3 in H *.
  have -> : x1 - y1 = a + k * n1 by rewrite /a; ring.
  have -> : x2 - y2 = b + k * n2 by rewrite /b; ring.
  have -> : x3 - y3 = c + k * n3 by rewrite /c; ring.
  have -> : x1 - (x1 - k * n1) = k * n1 by ring. have -> : x2 - (x2 - k * n2) = k * n2 by ring. have -> : x3 - (x3 - k * n3) = k * n3 by ring.
  have E : (a + k * n1) * (a + k * n1) + (b + k * n2) * (b + k * n2) + (c + k * n3) * (c + k * n3)
           = k * n1 * (k * n1) + k * n2 * (k * n2) + k * n3 * (k * n3) + (a * a + b * b + c * c) + 2 * k * (n1 * a + n2 * b + n3 * c) by ring.
  rewrite E H. ring.
Qed.

Lemma dist2_seg_end (y p : V3) t : 0 <= t <= 1 -> dist2 p (on_seg y p t) <= dist2 p y.
Proof.
  move=> Ht. have -> : dist2 p (on_seg y p t) = (1 - t) * (1 - t) * dist2 p y.
  { rewrite /dist2 /on_seg. vsimp y; vsimp p. unf. ring. }
  have D : 0 <= dist2 p y. { rewrite /dist2. apply dot_self_pos. }
  have : (1 - t) * (1 - t) <= 1 by nra.
  move=> H1. have : (1 - t) * (1 - t) * dist2 p y <= 1 * dist2 p y by apply Rmult_le_compat_r. lra.
Qed.

Theorem check_face_complete r2 F x y :
  face_wf F -> strictly_convex F -> 0 < vdot Rops (fnormal3 Rops F) (fnormal3 Rops F) ->
  in_faceP F y -> dist2 x y <= r2 -> check_face Rops r2 F x = true.
Proof.
  move=> Hwf Hc HNN [Py Sy] Hd.
  rewrite /check_face.
  case Hp: (in_prism_sides Rops F x) => //=.
  (* the foot of the perpendicular is outside the face *)
  have [e0 [He0 Hv0]] := forallb_false _ _ Hp.
  move/Rleb_false: Hv0 => Hv0. cbn [o0 Rops] in Hv0.
  set N := fnormal3 Rops F in HNN Hv0 *. set v0 := List.nth 0 F (vzero Rops).
  set d := plane_val Rops F x. set k := d / vdot Rops N N.
  have [F1 [F2 F3]] := foot N v0 x k. set px := vsub Rops x (vscale Rops k N) in F1 F2 F3.
  have Ppx : plane_val Rops F px = 0.
  { rewrite /plane_val -/N -/v0 F1. rewrite /k /d /plane_val -/N -/v0. field. lra. }
  have Spx : forall e, side_val F e px = side_val F e x.
  { move=> e. rewrite /side_val -/N F2 cross_self_dot. ring. }
  (* walk from y towards the foot until the first side line is met *)
  set L := map (fun e => (side_val F e y, side_val F e px)) (cpairs F).
  have HL0 : forall p, In p L -> fst p <= 0.
  { move=> p /in_map_iff [e [<- He]]. exact (Sy e He). }
  have HL1 : exists p, In p L /\ 0 < snd p.
  { exists (side_val F e0 y, side_val F e0 px). split; first by apply in_map_iff; exists e0.
    rewrite Spx. exact Hv0. }
  have [t [[Ht0 Ht1] [[p [Hp' [Hz _]]] Hle]]] := exit_point L HL0 HL1.
  move/in_map_iff: Hp' => [[a b] [Ep Hab]]. rewrite -Ep /lin in Hz. cbn [fst snd] in Hz.
  set w := on_seg y px t.
  have Hw : in_faceP F w.
  { split; first by rewrite /w plane_val_seg Py Ppx; ring.
    move=> e He. rewrite /w side_val_seg.
    have := Hle (side_val F e y, side_val F e px). rewrite /lin. cbn [fst snd]. apply. apply in_map_iff. by exists e. }
  have Hwz : side_val F (a, b) w = 0 by rewrite /w side_val_seg.
  have [s [Hs Hws]] := tight_on_segment F a b w Hwf Hc HNN Hab Hw Hwz.
  (* the crossing point is at least as close to x as y is *)
  have Hdw : dist2 x w <= r2.
  { have Hperp : forall u, plane_val Rops F u = 0 -> vdot Rops N (vsub Rops px u) = 0.
    { move=> u Pu. rewrite -/N -plane_val_diff Ppx Pu. ring. }
    have E1 := pythagoras x w N k (Hperp w (proj1 Hw)). have E2 := pythagoras x y N k (Hperp y Py). rewrite -/px in E1 E2.
    have := dist2_seg_end y px t (conj Ht0 (Rlt_le _ _ Ht1)). rewrite -/w. lra. }
  have Hne : a <> b. { case: Hwf => _ He. exact (He (a, b) Hab). }
  have Hseg : exists t', 0 <= t' <= 1 /\ dist2 x (on_seg a b t') <= r2 by exists s; split=> //; rewrite -Hws.
  have [Ia Ib] := cpairs_in F (a, b) Hab. cbn [fst snd] in Ia, Ib.
  case: (proj2 (spherocylinder_spec r2 a b x Hne) Hseg) => [Hcyl|[Hca|Hcb]].
  - apply orb_true_iff. left. apply existsb_exists. by exists (a, b).
  - apply orb_true_iff. right. apply existsb_exists. by exists a.
  - apply orb_true_iff. right. apply existsb_exists. by exists b.
Qed.

(* with check_face_sound: for the points the algorithm looks at, the face test decides "within r of the face" *)
Theorem check_face_iff r2 F x :
  face_wf F -> strictly_convex F -> to_check Rops r2 F x = true ->
  (check_face Rops r2 F x = true <-> exists y, in_faceP F y /\ dist2 x y <= r2).
Proof.
  move=> Hwf Hc Hto. split.
  - exact (check_face_sound r2 F x Hwf Hto).
  - move=> [y [Hy Hd]]. apply (check_face_complete r2 F x y) => //.
    move/andb_true_iff: Hto => [/Rltb_true Hd0 /Rleb_true Hr]. cbn [o0 omul Rops] in Hd0, Hr.
    case: (Rle_lt_dec (vdot Rops (fnormal3 Rops F) (fnormal3 Rops F)) 0) => // H0. exfalso.
    have Hz : vdot Rops (fnormal3 Rops F) (fnormal3 Rops F) = 0 by have := dot_self_pos (fnormal3 Rops F); lra.
    (* N = 0 makes the plane value 0 *)
    have : plane_val Rops F x = 0.
    { rewrite /plane_val. move: (fnormal3 Rops F) Hz => [[n1 n2] n3]. unf => Hz.
      have [-> [-> ->]] := sq3_zero _ _ _ Hz. ring. }
    lra.
Qed.

(* the algorithm as a whole, for any number of faces: accepted <-> in the core, or some face that is looked at has a point within r *)
Theorem sphero_inside_spec r2 Fs x :
  (forall F, In F Fs -> face_wf F /\ strictly_convex F) ->
  (sphero_inside Rops r2 Fs x = true
   <-> in_core Rops Fs x = true \/ exists F, In F Fs /\ to_check Rops r2 F x = true /\ exists y, in_faceP F y /\ dist2 x y <= r2).
Proof.
  move=> Hwf. rewrite /sphero_inside. split.
  - move/orb_true_iff => [H|H]; first by left.
    right. move/existsb_exists: H => [F [Hin /andb_true_iff [Hc Hf]]]. exists F. split=> //. split=> //.
    have [W C] := Hwf F Hin. exact (proj1 (check_face_iff r2 F x W C Hc) Hf).
  - case=> [H|[F [Hin [Hc Hy]]]]; apply orb_true_iff; first by left.
    right. apply existsb_exists. exists F. split=> //. apply andb_true_iff. split=> //.
    have [W C] := Hwf F Hin. exact (proj2 (check_face_iff r2 F x W C Hc) Hy).
Qed.

Example ex_face_strictly_convex : strictly_convex ex_face.
Proof.
  move=> a b c. rewrite /ctrip /ex_face /roll /fnormal3. cbn [app combine List.nth In].
  intros H. destruct H as [E|[E|[E|[E|[]]]]]; injection E; intros; subst; unf; lra.
Qed.

(* ---- 5. the global step: the face through which the segment from a point of the core to x leaves the core is looked at, and accepts ---- *)
(* every face is the whole intersection of its plane with the solid *)
Definition faces_cover (Fs : list (list V3)) : Prop :=
  forall F w, In F Fs -> in_core Rops Fs w = true -> plane_val Rops F w = 0 -> side_ok F w.

Lemma in_core_spec Fs w : in_core Rops Fs w = true <-> forall F, In F Fs -> plane_val Rops F w <= 0.
Proof.
  rewrite /in_core forallb_forall. split=> H F HF; [apply Rleb_true | apply Rleb_true]; exact (H F HF).
Qed.

Lemma cauchy_schwarz (u v : V3) : vdot Rops u v * vdot Rops u v <= vdot Rops u u * vdot Rops v v.
Proof.
  vsimp u; vsimp v. unf.
  have : 0 <= (x * y0 - y * x0) * (x * y0 - y * x0) + (y * z0 - z * y0) * (y * z0 - z * y0) + (z * x0 - x * z0) * (z * x0 - x * z0).
  { have := Rle_0_sqr (x * y0 - y * x0); have := Rle_0_sqr (y * z0 - z * y0); have := Rle_0_sqr (z * x0 - x * z0). rewrite /Rsqr. lra. }
  move=> H. nra.
Qed.

Theorem sphero_inside_complete r2 Fs x y :
  (forall F, In F Fs -> face_wf F /\ strictly_convex F) -> faces_cover Fs ->
  in_core Rops Fs y = true -> dist2 x y <= r2 -> sphero_inside Rops r2 Fs x = true.
Proof.
  move=> Hwf Hcov Hy Hd. rewrite /sphero_inside.
  case Hx: (in_core Rops Fs x) => //=.
  have Hy' := proj1 (in_core_spec Fs y) Hy.
  have [F0 [HF0 Hv0]] := forallb_false _ _ Hx. move/Rleb_false: Hv0 => Hv0. cbn [o0 Rops] in Hv0.
  set L := map (fun F => (plane_val Rops F y, plane_val Rops F x)) Fs.
  have HL0 : forall p, In p L -> fst p <= 0 by move=> p /in_map_iff [F [<- HF]]; exact (Hy' F HF).
  have HL1 : exists p, In p L /\ 0 < snd p.
  { exists (plane_val Rops F0 y, plane_val Rops F0 x). split=> //. apply in_map_iff. by exists F0. }
  have [t [[Ht0 Ht1] [[p [Hp [Hz Hpos]]] Hle]]] := exit_point L HL0 HL1.
  move/in_map_iff: Hp => [F [Ep HF]]. rewrite -Ep /lin in Hz Hpos. cbn [fst snd] in Hz, Hpos.
  set w := on_seg y x t.
  have Pw : forall G, plane_val Rops G w = (1 - t) * plane_val Rops G y + t * plane_val Rops G x by move=> G; rewrite /w plane_val_seg.
  have Hwcore : in_core Rops Fs w = true.
  { apply in_core_spec => G HG. rewrite Pw. have := Hle (plane_val Rops G y, plane_val Rops G x). rewrite /lin. cbn [fst snd]. apply.
    apply in_map_iff. by exists G. }
  have HwF : plane_val Rops F w = 0 by rewrite Pw.
  have Hwface : in_faceP F w by split=> //; apply (Hcov F w HF Hwcore HwF).
  have Hdw : dist2 x w <= r2. { have := dist2_seg_end y x t (conj Ht0 (Rlt_le _ _ Ht1)). rewrite -/w. lra. }
  have [W C] := Hwf F HF.
  (* the face is looked at: 0 < plane value, and (plane value)^2 <= r2 |N|^2 by Cauchy-Schwarz *)
  have Hto : to_check Rops r2 F x = true.
  { rewrite /to_check. apply andb_true_iff. split; first by apply Rltb_true.
    apply Rleb_true. cbn [omul Rops].
    have E : plane_val Rops F x = vdot Rops (fnormal3 Rops F) (vsub Rops x w) by rewrite -plane_val_diff HwF; ring.
    rewrite E. have CS := cauchy_schwarz (fnormal3 Rops F) (vsub Rops x w).
    have HNN := dot_self_pos (fnormal3 Rops F).
    have : vdot Rops (fnormal3 Rops F) (fnormal3 Rops F) * dist2 x w <= vdot Rops (fnormal3 Rops F) (fnormal3 Rops F) * r2 by apply Rmult_le_compat_l.
    rewrite /dist2. lra. }
  apply existsb_exists. exists F. split=> //. apply andb_true_iff. split=> //.
  apply (proj2 (check_face_iff r2 F x W C Hto)). by exists w.
Qed.

(* ---- 6. a checkable certificate for "every face is the whole intersection of its plane with the solid": along every edge of every face
        there is a neighbouring face through both end points of the edge whose normal has a positive component along the outward in-plane
        side normal e x N ---- *)
Definition edge_covered (Fs : list (list V3)) (F : list V3) (e : V3 * V3) : Prop :=
  exists G, In G Fs /\ plane_val Rops G (fst e) = 0 /\ plane_val Rops G (snd e) = 0
            /\ 0 < vdot Rops (fnormal3 Rops G) (vcross Rops (vsub Rops (snd e) (fst e)) (fnormal3 Rops F)).
Definition cover_cert (Fs : list (list V3)) : Prop :=
  forall F e, In F Fs -> In e (cpairs F) -> edge_covered Fs F e.

Lemma side_sign (e N G v : V3) :
  vdot Rops e N = 0 -> vdot Rops G e = 0 -> vdot Rops v N = 0 ->
  vdot Rops e e * vdot Rops N N * vdot Rops G v = vdot Rops v (vcross Rops e N) * vdot Rops G (vcross Rops e N).
Proof.
  move: e N G v => [[e1 e2] e3] [[n1 n2] n3] [[g1 g2] g3] [[v1 v2] v3]. unf. move=> H1 H2 H3.
  set eN := e1 * n1 + e2 * n2 + e3 * n3 in H1. set Ge := g1 * e1 + g2 * e2 + g3 * e3 in H2. set vN := v1 * n1 + v2 * n2 + v3 * n3 in H3.
  set ee := e1 * e1 + e2 * e2 + e3 * e3. set nn := n1 * n1 + n2 * n2 + n3 * n3.
  set Gv := g1 * v1 + g2 * v2 + g3 * v3. set ve := v1 * e1 + v2 * e2 + v3 * e3. set GN := g1 * n1 + g2 * n2 + g3 * n3.
  have E : ee * nn * Gv - (v1 * (e2 * n3 - e3 * n2) + v2 * (e3 * n1 - e1 * n3) + v3 * (e1 * n2 - e2 * n1))
                          * (g1 * (e2 * n3 - e3 * n2) + g2 * (e3 * n1 - e1 * n3) + g3 * (e1 * n2 - e2 * n1))
           = eN * (eN * Gv - vN * Ge - ve * GN) + Ge * (ve * nn) + vN * (ee * GN)
    by rewrite /eN /Ge /vN /ee /nn /Gv /ve /GN; ring.
  rewrite H1 H2 H3 in E. lra.
Qed.

Theorem cover_cert_covers Fs :
  (forall F, In F Fs -> face_wf F /\ 0 < vdot Rops (fnormal3 Rops F) (fnormal3 Rops F)) -> cover_cert Fs -> faces_cover Fs.
Proof.
  move=> Hwf Hcert F w HF Hw Pw e He.
  have [[Hv Hne] HNN] := Hwf F HF.
  have [G [HG [Ga [Gb Hpos]]]] := Hcert F e HF He.
  have [Ia Ib] := cpairs_in F e He.
  have [Pa _] := Hv _ Ia. have [Pb _] := Hv _ Ib.
  set a := fst e in Ga Pa *. set b := snd e in Gb Pb Hpos *. set N := fnormal3 Rops F in HNN Hpos *. set ev := vsub Rops b a in Hpos *.
  have HeN : vdot Rops ev N = 0. { rewrite dot_comm /ev -/N -plane_val_diff Pa Pb. ring. }
  have HGe : vdot Rops (fnormal3 Rops G) ev = 0. { rewrite /ev -plane_val_diff Ga Gb. ring. }
  have HvN : vdot Rops (vsub Rops w a) N = 0. { rewrite dot_comm -/N -plane_val_diff Pw Pa. ring. }
  have HGv : vdot Rops (fnormal3 Rops G) (vsub Rops w a) <= 0.
  { rewrite -plane_val_diff Ga. have := proj1 (in_core_spec Fs w) Hw G HG. lra. }
  have Hee : 0 < vdot Rops ev ev. { apply sub_norm_pos. exact (Hne e He). }
  have S := side_sign ev N (fnormal3 Rops G) (vsub Rops w a) HeN HGe HvN.
  rewrite /side_val -/N -/a -/b -/ev. rewrite (dot_comm (vcross Rops ev N)).
  set sv := vdot Rops (vsub Rops w a) (vcross Rops ev N) in S *.
  case: (Rle_dec sv 0) => Hs; first exact Hs. exfalso.
  have : 0 < sv * vdot Rops (fnormal3 Rops G) (vcross Rops ev N) by apply Rmult_lt_0_compat; lra.
  have : vdot Rops ev ev * vdot Rops N N * vdot Rops (fnormal3 Rops G) (vsub Rops w a) <= 0.
  { have : 0 <= vdot Rops ev ev * vdot Rops N N * (- vdot Rops (fnormal3 Rops G) (vsub Rops w a)) by apply Rmult_le_pos; [apply Rmult_le_pos|]; lra. lra. }
  lra.
Qed.

(* ---- 7. the boolean certificate implies the hypotheses; the algorithm is then correct for the whole solid ---- *)
Lemma Reqb_true a b : Reqb a b = true <-> a = b.
Proof. rewrite /Reqb. case: (Req_EM_T a b) => H; split=> //. Qed.

Lemma veqb_false (a b : V3) : veqb Rops a b = false -> a <> b.
Proof.
  move=> H E. rewrite E /veqb in H. cbn [oeqb Rops] in H.
  have R1 : forall u, Reqb u u = true by move=> u; apply Reqb_true.
  by rewrite !R1 in H.
Qed.

Lemma face_wfb_ok F : face_wfb Rops F = true -> face_wf F.
Proof.
  move/andb_true_iff => [H1 H2]. rewrite !forallb_forall in H1 H2. split.
  - move=> v Hv. move/andb_true_iff: (H1 v Hv) => [/Reqb_true Hp /in_prism_sides_ok Hs]. by split.
  - move=> e He. apply veqb_false. apply negb_true_iff. exact (H2 e He).
Qed.
Lemma strictly_convexb_ok F : strictly_convexb Rops F = true -> strictly_convex F.
Proof.
  rewrite /strictly_convexb forallb_forall => H a b c Hin. have := H _ Hin. cbn [fst snd]. by move/Rltb_true.
Qed.
Lemma cover_certb_ok Fs : cover_certb Rops Fs = true -> cover_cert Fs.
Proof.
  rewrite /cover_certb forallb_forall => H F e HF He.
  have := H F HF. rewrite forallb_forall => H'. have := H' e He. rewrite /edge_coveredb.
  move/existsb_exists => [G [HG /andb_true_iff [/andb_true_iff [/Reqb_true Ga /Reqb_true Gb] /Rltb_true Hp]]].
  exists G. by repeat split.
Qed.

Theorem sphero_cert_sound Fs : sphero_certb Rops Fs = true ->
  (forall F, In F Fs -> face_wf F /\ strictly_convex F) /\ faces_cover Fs.
Proof.
  move/andb_true_iff => [H1 H2]. rewrite forallb_forall in H1.
  have Hall : forall F, In F Fs -> face_wf F /\ strictly_convex F /\ 0 < vdot Rops (fnormal3 Rops F) (fnormal3 Rops F).
  { move=> F HF. move/andb_true_iff: (H1 F HF) => [/andb_true_iff [Hw /Rltb_true Hn] Hs].
    split; first by apply face_wfb_ok. split; first by apply strictly_convexb_ok. exact Hn. }
  split.
  - move=> F HF. have [A [B _]] := Hall F HF. by split.
  - apply cover_cert_covers; last by apply cover_certb_ok.
    move=> F HF. have [A [_ C]] := Hall F HF. by split.
Qed.

(* THE SPHEROPOLYHEDRON THEOREM: for a certified face list, any rounding radius, any point *)
Theorem sphero_is_inside_spec r2 Fs x : sphero_certb Rops Fs = true ->
  ((exists y, in_core Rops Fs y = true /\ dist2 x y <= r2) -> sphero_inside Rops r2 Fs x = true)
  /\ (sphero_inside Rops r2 Fs x = true ->
      in_core Rops Fs x = true \/ exists F y, In F Fs /\ in_faceP F y /\ dist2 x y <= r2).
Proof.
  move=> Hc. have [Hwf Hcov] := sphero_cert_sound Fs Hc. split.
  - move=> [y [Hy Hd]]. exact (sphero_inside_complete r2 Fs x y Hwf Hcov Hy Hd).
  - apply sphero_inside_sound => F HF. exact (proj1 (Hwf F HF)).
Qed.
