(* Theorems for C14: radial distance from the centre to the boundary. *)
From Coq Require Import Reals Lra Psatz.
Require Import Cox.Num.Ops Cox.Geo.Vec Cox.Model.Special Cox.Gen.Scalars.
Local Open Scope R_scope.

(* Ellipse: the point at the code's distance in direction theta satisfies the ellipse equation
   (about the GENERATED definition, i.e. about what the source says now) *)
Theorem ellipse_distance_on_boundary a b cx cy cz theta :
  0 < a -> 0 < b ->
  let d := ellipse_distance_to_surface a b cx cy cz theta in
  (d * cos theta / a) ^ 2 + (d * sin theta / b) ^ 2 = 1 /\ 0 < d.
Proof.
  intros Ha Hb d.
  pose proof (sin2_cos2 theta) as Hsc. unfold Rsqr in Hsc.
  set (s := sin theta) in *. set (c := cos theta) in *.
  assert (Hden : 0 < 1 + a * a / (b * b) * s * s + b * b / (a * a) * c * c).
  { assert (0 <= a * a / (b * b) * s * s).
    { replace (a * a / (b * b) * s * s) with ((a * s / b) * (a * s / b)) by (field; lra). nra. }
    assert (0 <= b * b / (a * a) * c * c).
    { replace (b * b / (a * a) * c * c) with ((b * c / a) * (b * c / a)) by (field; lra). nra. }
    lra. }
  assert (Hq : 0 < (a * a + b * b) / (1 + a * a / (b * b) * s * s + b * b / (a * a) * c * c)).
  { apply Rdiv_lt_0_compat; nra. }
  assert (Hd2 : d * d = (a * a + b * b) / (1 + a * a / (b * b) * s * s + b * b / (a * a) * c * c)).
  { unfold d, ellipse_distance_to_surface. fold s c. apply sqrt_sqrt. lra. }
  split.
  - replace ((d * c / a) ^ 2 + (d * s / b) ^ 2) with (d * d * (c * c / (a * a) + s * s / (b * b))) by (field; split; lra).
    rewrite Hd2.
    assert (Hkey : (a * a + b * b) * (c * c / (a * a) + s * s / (b * b))
                   = 1 + a * a / (b * b) * s * s + b * b / (a * a) * c * c).
    { replace (b * b / (a * a) * c * c) with (b * b / (a * a) * (c * c)) by ring.
      replace (c * c) with (1 - s * s) by lra. field. split; lra. }
    set (D := 1 + a * a / (b * b) * s * s + b * b / (a * a) * c * c) in *.
    set (K := c * c / (a * a) + s * s / (b * b)) in *.
    replace ((a * a + b * b) / D * K) with (((a * a + b * b) * K) / D) by (field; lra).
    rewrite Hkey. field. lra.
  - unfold d, ellipse_distance_to_surface. fold s c. apply sqrt_lt_R0. exact Hq.
Qed.

(* Convex polygon: Cramer's rule for the intersection of the ray {d u} with the line {a + s e}:
   the point at distance d = cross(a,e)/cross(u,e) along u IS the point a + s e, s = cross(a,u)/cross(u,e) *)
Theorem ray_edge_intersection (a e u : vec2 R) :
  pcross Rops u e <> 0 ->
  let d := pcross Rops a e / pcross Rops u e in
  let s := pcross Rops a u / pcross Rops u e in
  pscale Rops d u = padd Rops a (pscale Rops s e).
Proof.
  intros H d s. subst d s. revert H.
  destruct a as [ax ay], e as [ex ey], u as [ux uy].
  unfold pcross, pscale, padd, px, py; cbn [fst snd omul osub oadd Rops]. intros H.
  f_equal; field; exact H.
Qed.

(* ... so it lies on the edge segment when 0 <= s <= 1, and the distance is |d| for a unit direction *)
Theorem ray_hit_distance (u : vec2 R) (d : R) :
  pdot Rops u u = 1 -> 0 <= d -> sqrt (pdot Rops (pscale Rops d u) (pscale Rops d u)) = d.
Proof.
  destruct u as [ux uy]. unfold pdot, pscale, px, py; cbn [fst snd omul oadd Rops]. intros H Hd.
  replace (d * ux * (d * ux) + d * uy * (d * uy)) with (d * d * (ux * ux + uy * uy)) by ring.
  rewrite H, Rmult_1_r. apply sqrt_square. exact Hd.
Qed.

(* any real angle: the direction only depends on theta modulo 2 pi *)
Theorem direction_periodic theta (k : nat) :
  (cos (theta + 2 * INR k * PI) = cos theta /\ sin (theta + 2 * INR k * PI) = sin theta)
  /\ (cos (theta - 2 * INR k * PI) = cos theta /\ sin (theta - 2 * INR k * PI) = sin theta).
Proof.
  split; split.
  - apply cos_period. - apply sin_period.
  - rewrite <- (cos_period (theta - 2 * INR k * PI) k). f_equal. ring.
  - rewrite <- (sin_period (theta - 2 * INR k * PI) k). f_equal. ring.
Qed.
