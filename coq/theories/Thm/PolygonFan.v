(* C04, second level: the shoelace sums of the model are the signed fan sums of the triangle integrals
   (apex = origin), and the area sum does not depend on where the fan apex sits. *)
From Coq Require Import Reals List Permutation Lra Lia Bool.
Require Import Cox.Num.Ops Cox.Geo.Vec Cox.Geo.Sums Cox.Model.Polygon Cox.Thm.PolygonThm Cox.Thm.TriangleIntegrals.
Import ListNotations.
Local Open Scope R_scope.

(* integral of f over the polygon as the signed fan of triangles (0, v_i, v_{i+1}) *)
Definition fan_int (f : R -> R -> R) (V : list (vec3 R)) : R :=
  Rsum (map (fun e => tri_int f (vx (fst e)) (vy (fst e)) (vx (snd e)) (vy (snd e))) (cpairs V)).

Ltac shs := unfold Sa, Sx, Sy, Sxy, sum_e, sh, quad2, pcross, xy, px, py, vx, vy;
            cbn [oadd omul osub ofromZ fst snd Rops].

Theorem Sa_is_fan V : Sa Rops V = 2 * fan_int (fun _ _ => 1) V.
Proof.
  unfold fan_int. rewrite <- Rsum_map_scale. shs. rewrite osum_Rsum.
  apply Rsum_map_ext. intros [[[a1 a2] a3] [[b1 b2] b3]] _. cbn [fst snd]. unfold vx, vy; cbn [fst snd].
  rewrite tri_one. field.
Qed.
Theorem Sx_is_fan V : Sx Rops V = 12 * fan_int (fun _ y => y ^ 2) V.
Proof.
  unfold fan_int. rewrite <- Rsum_map_scale. shs. rewrite osum_Rsum.
  apply Rsum_map_ext. intros [[[a1 a2] a3] [[b1 b2] b3]] _. cbn [fst snd]. unfold vx, vy; cbn [fst snd].
  rewrite tri_yy. field.
Qed.
Theorem Sy_is_fan V : Sy Rops V = 12 * fan_int (fun x _ => x ^ 2) V.
Proof.
  unfold fan_int. rewrite <- Rsum_map_scale. shs. rewrite osum_Rsum.
  apply Rsum_map_ext. intros [[[a1 a2] a3] [[b1 b2] b3]] _. cbn [fst snd]. unfold vx, vy; cbn [fst snd].
  rewrite tri_xx. field.
Qed.
Theorem Sxy_is_fan V : Sxy Rops V = 24 * fan_int (fun x y => x * y) V.
Proof.
  unfold fan_int. rewrite <- Rsum_map_scale. shs. rewrite osum_Rsum.
  apply Rsum_map_ext. intros [[[a1 a2] a3] [[b1 b2] b3]] _. cbn [fst snd]. unfold vx, vy; cbn [fst snd].
  rewrite tri_xy. cbn [IZR IPR IPR_2]. field.
Qed.

(* the shoelace area is independent of the fan apex: translating every vertex leaves it unchanged *)
Lemma cpairs_map {A B} (f : A -> B) (l : list A) :
  cpairs (map f l) = map (fun e => (f (fst e), f (snd e))) (cpairs l).
Proof.
  unfold cpairs. assert (R : roll (map f l) = map f (roll l)).
  { unfold roll. destruct l; simpl; auto. rewrite map_app. reflexivity. }
  rewrite R. generalize (roll l) as m. clear R. induction l as [|a l IH]; intros [|b m]; simpl; auto. f_equal. apply IH.
Qed.

Theorem Sa_translation c V : Sa Rops (map (fun v => vsub Rops v c) V) = Sa Rops V.
Proof.
  unfold Sa, sum_e. rewrite cpairs_map, map_map, !osum_Rsum.
  pose (g := fun v : vec3 R => vx c * vy v - vy c * vx v).
  rewrite (Rsum_map_ext _ (fun e => sh Rops e - (g (snd e) - g (fst e)))).
  2:{ intros [[[a1 a2] a3] [[b1 b2] b3]] _. destruct c as [[c1 c2] c3]. unfold g, sh, pcross, xy, px, py, vsub, vx, vy.
      cbn [oadd omul osub fst snd Rops]. ring. }
  rewrite Rsum_map_sub, cyclic_telescope. rewrite Rminus_0_r. reflexivity.
Qed.

(* orientation reversal flips the sign of every shoelace sum; a cyclic shift changes none *)
Lemma sum_e_rev (f : vec3 R * vec3 R -> R) V :
  (forall a b, f (b, a) = - f (a, b)) -> sum_e Rops f (rev V) = - sum_e Rops f V.
Proof.
  intros H. unfold sum_e. rewrite !osum_Rsum, (Rsum_map_perm _ _ _ (InsideThm.cpairs_rev V)), map_map, <- Rsum_map_opp.
  apply Rsum_map_ext. intros [a b] _. cbn [fst snd]. apply H.
Qed.
Theorem Sa_reverse V : Sa Rops (rev V) = - Sa Rops V.
Proof. apply sum_e_rev. intros [[a1 a2] a3] [[b1 b2] b3]. unfold sh, pcross, xy, px, py, vx, vy; cbn [omul osub fst snd Rops]. ring. Qed.
Theorem Sx_reverse V : Sx Rops (rev V) = - Sx Rops V.
Proof. apply sum_e_rev. intros [[a1 a2] a3] [[b1 b2] b3]. unfold sh, quad2, pcross, xy, px, py, vx, vy; cbn [oadd omul osub fst snd Rops]. ring. Qed.
Theorem Sy_reverse V : Sy Rops (rev V) = - Sy Rops V.
Proof. apply sum_e_rev. intros [[a1 a2] a3] [[b1 b2] b3]. unfold sh, quad2, pcross, xy, px, py, vx, vy; cbn [oadd omul osub fst snd Rops]. ring. Qed.
Theorem Sxy_reverse V : Sxy Rops (rev V) = - Sxy Rops V.
Proof. apply sum_e_rev. intros [[a1 a2] a3] [[b1 b2] b3]. unfold sh, pcross, xy, px, py, vx, vy; cbn [oadd omul osub ofromZ fst snd Rops]. ring. Qed.

Lemma sgnT_opp a : sgnT Rops (- a) = - sgnT Rops a.
Proof.
  unfold sgnT. cbn [oltb oopp o0 o1 Rops].
  destruct (Rltb (- a) 0) eqn:E1, (Rltb a 0) eqn:E2, (Rltb 0 a) eqn:E3, (Rltb 0 (- a)) eqn:E4;
    try apply Rltb_true in E1; try apply Rltb_true in E2; try apply Rltb_true in E3; try apply Rltb_true in E4;
    try apply Rltb_false in E1; try apply Rltb_false in E2; try apply Rltb_false in E3; try apply Rltb_false in E4; lra.
Qed.

(* hence the exact planar moments do not depend on the listing order of the vertices *)
Theorem planar_moments_spec_orientation_free V :
  planar_moments_spec Rops (rev V) = planar_moments_spec Rops V.
Proof.
  unfold planar_moments_spec. rewrite Sa_reverse, Sx_reverse, Sy_reverse, Sxy_reverse, sgnT_opp.
  cbn [omul odiv ofromZ Rops]. f_equal; [field|]. f_equal; [field|]. f_equal. field.
Qed.
(* ... while the code as found (abs on the product of inertia) changes I_xy's sign handling: for it, the two
   orientations give the SAME |Sxy|/24, which is wrong whenever the true I_xy is negative *)
Theorem planar_moments_abs_refuted_shape V :
  sgnT Rops (Sa Rops V) * Sxy Rops V < 0 ->
  nth 2 (planar_moments Rops true V) 0 <> nth 2 (planar_moments_spec Rops V) 0.
Proof.
  intros H. unfold planar_moments, planar_moments_spec. cbn [nth odiv omul ofromZ Rops].
  unfold oabs. cbn [oltb oopp o0 Rops]. destruct (Rltb (Sxy Rops V) 0) eqn:E; [apply Rltb_true in E|apply Rltb_false in E]; intros Heq.
  - assert (K : - Sxy Rops V = sgnT Rops (Sa Rops V) * Sxy Rops V) by lra.
    assert (0 < - Sxy Rops V) by lra. lra.
  - assert (K : Sxy Rops V = sgnT Rops (Sa Rops V) * Sxy Rops V) by lra. lra.
Qed.

(* ---- a polygon's shoelace sums are the sums over its fan triangles (chords cancel) ---- *)
Require Import Cox.Thm.CycleSplit.
Definition tSx (e : vec3 R * vec3 R) : R := sh Rops e * quad2 Rops (vy (fst e)) (vy (snd e)).
Definition tSy (e : vec3 R * vec3 R) : R := sh Rops e * quad2 Rops (vx (fst e)) (vx (snd e)).
Definition tSxy (e : vec3 R * vec3 R) : R :=
  sh Rops e * (vx (fst e) * vy (snd e) + 2 * (vx (fst e) * vy (fst e) + vx (snd e) * vy (snd e)) + vx (snd e) * vy (fst e)).
Ltac anti_tac := intros [[a1 a2] a3] [[b1 b2] b3]; unfold tSx, tSy, tSxy, sh, quad2, pcross, xy, px, py, vx, vy;
                 cbn [oadd omul osub fst snd Rops]; ring.
Lemma sh_anti : forall a b, sh Rops (b, a) = - sh Rops (a, b).   Proof. anti_tac. Qed.
Lemma tSx_anti : forall a b, tSx (b, a) = - tSx (a, b).           Proof. anti_tac. Qed.
Lemma tSy_anti : forall a b, tSy (b, a) = - tSy (a, b).           Proof. anti_tac. Qed.
Lemma tSxy_anti : forall a b, tSxy (b, a) = - tSxy (a, b).        Proof. anti_tac. Qed.

Theorem shoelace_sums_are_fan_sums a b l :
  Sa Rops (a :: b :: l) = fan (sh Rops) a b l /\ Sx Rops (a :: b :: l) = fan tSx a b l
  /\ Sy Rops (a :: b :: l) = fan tSy a b l /\ Sxy Rops (a :: b :: l) = fan tSxy a b l.
Proof.
  repeat split.
  - rewrite <- (cycle_is_fan _ sh_anti). reflexivity.
  - rewrite <- (cycle_is_fan _ tSx_anti). reflexivity.
  - rewrite <- (cycle_is_fan _ tSy_anti). reflexivity.
  - rewrite <- (cycle_is_fan _ tSxy_anti). unfold Sxy, sum_e, cyc. rewrite osum_Rsum. apply Rsum_map_ext.
    intros e _. unfold tSxy. cbn [oadd omul ofromZ Rops]. reflexivity.
Qed.
