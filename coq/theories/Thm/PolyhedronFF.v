(* C12: polyhedra.  For a closed, triangulated, oriented surface with unit face normals the face sum of
   Polyhedron.compute_form_factor_amplitude equals the sum over the signed cone tetrahedra (o, a, b, c) of their Fourier integrals
       det * int_0^1 int_0^(1-u) int_0^(1-u-v) exp(-i q.(o + u (a-o) + v (b-o) + w (c-o))) dw dv du
   for every apex o and every wave vector in generic position with respect to the cones. *)
From Coq Require Import Reals List Lra Permutation.
From mathcomp Require Import ssreflect.
From Coquelicot Require Import Coquelicot.
Require Import Cox.Num.Ops Cox.Geo.Vec Cox.Geo.Sums Cox.Model.Mesh Cox.Model.Polygon Cox.Model.FormFactor Cox.Thm.FormFactorThm
  Cox.Thm.FormFactorIntegral Cox.Thm.TriangleFF Cox.Thm.MeshThm Cox.Thm.ClosedThm Cox.Thm.TetraInt Cox.Thm.FaceFF.
Import ListNotations.
Local Open Scope R_scope.

Lemma chain_sum (F M : triR -> R) (G : V3 -> V3 -> R) :
  (forall a b, G a b = - G b a) ->
  forall TT, closed TT ->
  (forall t, In t TT -> M t = F t + (G (ta t) (tb t) + G (tb t) (tc t) + G (tc t) (ta t))) ->
  Rsum (map M TT) = Rsum (map F TT).
Proof.
  move=> Hanti TT Hc Hid.
  rewrite (Rsum_map_ext M _ TT Hid) Rsum_map_add.
  have Hz : Rsum (map (fun t => G (ta t) (tb t) + G (tb t) (tc t) + G (tc t) (ta t)) TT) = 0.
  { rewrite -(closed_cancel G (dedges TT) Hanti Hc).
    rewrite /dedges Rsum_flat_map. apply Rsum_map_ext => t _. rewrite /tedges /=. lra. }
  rewrite Hz. lra.
Qed.

Lemma S_cos_sym A be ga : be <> 0 -> ga <> 0 -> be <> ga -> S_cos A ga be = S_cos A be ga.
Proof. move=> Hb Hg Hbg. rewrite /S_cos. field. repeat split; lra. Qed.
Lemma S_sin_sym A be ga : be <> 0 -> ga <> 0 -> be <> ga -> S_sin A ga be = S_sin A be ga.
Proof. move=> Hb Hg Hbg. rewrite /S_sin. field. repeat split; lra. Qed.

Lemma tri_sf_swap q o x y :
  vdot Rops q (vsub Rops x o) <> 0 -> vdot Rops q (vsub Rops y o) <> 0 ->
  vdot Rops q (vsub Rops x o) <> vdot Rops q (vsub Rops y o) ->
  tri_sf q o y x = copp (tri_sf q o x y).
Proof.
  move=> Hx Hy Hxy. rewrite /tri_sf.
  rewrite (S_cos_sym _ _ _ Hx Hy Hxy) (S_sin_sym _ _ _ Hx Hy Hxy) (dot_cross_anti q (vsub Rops x o) (vsub Rops y o)).
  rewrite /cscale /cmul /copp. cbn [fst snd]. apply cx_eq; cbn [fst snd]; field.
  all: move=> H0; apply Hx; exact: qq_zero.
Qed.

Definition cone_al (q o : V3) (t : triR) := vdot Rops q (vsub Rops (ta t) o).
Definition cone_be (q o : V3) (t : triR) := vdot Rops q (vsub Rops (tb t) o).
Definition cone_ga (q o : V3) (t : triR) := vdot Rops q (vsub Rops (tc t) o).
Definition cone_det (o : V3) (t : triR) := det3 (vsub Rops (ta t) o) (vsub Rops (tb t) o) (vsub Rops (tc t) o).
Definition generic_cone (q o : V3) (t : triR) := generic3 (cone_al q o t) (cone_be q o t) (cone_ga q o t).
Definition cone_closed (q o : V3) (t : triR) : Cx :=
  cscale (cone_det o t)
    (T_cos (vdot Rops q o) (cone_al q o t) (cone_be q o t) (cone_ga q o t),
     - T_sin (vdot Rops q o) (cone_al q o t) (cone_be q o t) (cone_ga q o t)).
(* det * int int int exp(-i q.r) over the cone, (real, imaginary) *)
Definition cone_fourier (q o : V3) (t : triR) : Cx :=
  let A := vdot Rops q o in let al := cone_al q o t in let be := cone_be q o t in let ga := cone_ga q o t in
  cscale (cone_det o t)
    (RInt (fun u => RInt (fun v => RInt (fun w => cos (A + u * al + v * be + w * ga)) 0 (1 - u - v)) 0 (1 - u)) 0 1,
     - RInt (fun u => RInt (fun v => RInt (fun w => sin (A + u * al + v * be + w * ga)) 0 (1 - u - v)) 0 (1 - u)) 0 1).

Lemma cone_fourier_closed q o t : generic_cone q o t -> cone_fourier q o t = cone_closed q o t.
Proof. move=> H. rewrite /cone_fourier /cone_closed. by rewrite (tet_cos_integral _ _ _ _ H) (tet_sin_integral _ _ _ _ H). Qed.

Definition Gc (q o x y : V3) : Cx := cscale (/ 2) (cadd (tri_sf q o y x) (copp (tri_sf q o x y))).

Lemma Gc_anti q o x y : Gc q o x y = copp (Gc q o y x).
Proof. rewrite /Gc /cscale /cadd /copp. cbn [fst snd]. apply cx_eq; cbn [fst snd]; field. Qed.

Lemma Gc_generic q o x y :
  vdot Rops q (vsub Rops x o) <> 0 -> vdot Rops q (vsub Rops y o) <> 0 ->
  vdot Rops q (vsub Rops x o) <> vdot Rops q (vsub Rops y o) ->
  Gc q o x y = tri_sf q o y x.
Proof.
  move=> Hx Hy Hxy. rewrite /Gc (tri_sf_swap q o x y Hx Hy Hxy).
  rewrite /cscale /cadd /copp. cbn [fst snd]. apply cx_eq; cbn [fst snd]; field.
Qed.

Lemma cone_split q o t : generic_cone q o t ->
  cone_closed q o t
  = cadd (tri_sf q (ta t) (tb t) (tc t)) (cadd (Gc q o (ta t) (tb t)) (cadd (Gc q o (tb t) (tc t)) (Gc q o (tc t) (ta t)))).
Proof.
  move=> Hgen. have H := tet_gauss q o (ta t) (tb t) (tc t) Hgen.
  case: Hgen => [Ha [Hb [Hg [Hab [Hag Hbg]]]]]. rewrite /cone_al /cone_be /cone_ga in Ha Hb Hg Hab Hag Hbg.
  rewrite (Gc_generic q o (ta t) (tb t)) // (Gc_generic q o (tb t) (tc t)) // (Gc_generic q o (tc t) (ta t)) //; last by auto.
  rewrite /cone_closed /cone_det /cone_al /cone_be /cone_ga -H.
  rewrite /cadd. cbn [fst snd]. apply cx_eq; cbn [fst snd]; ring.
Qed.

Theorem closed_surface_sf q o TT : closed TT -> (forall t, In t TT -> generic_cone q o t) ->
  csum (map (fun t => tri_sf q (ta t) (tb t) (tc t)) TT) = csum (map (cone_fourier q o) TT).
Proof.
  move=> Hc Hgen.
  rewrite (csum_map_ext (cone_fourier q o) (cone_closed q o) TT); last by move=> t Ht; apply cone_fourier_closed, Hgen.
  symmetry. apply cx_eq.
  - rewrite !csum_fst !map_map.
    apply (chain_sum _ _ (fun x y => fst (Gc q o x y))) => //.
    + move=> a b. by rewrite (Gc_anti q o a b).
    + move=> t Ht. rewrite (cone_split q o t (Hgen t Ht)). rewrite /cadd. cbn [fst snd]. ring.
  - rewrite !csum_snd !map_map.
    apply (chain_sum _ _ (fun x y => snd (Gc q o x y))) => //.
    + move=> a b. by rewrite (Gc_anti q o a b).
    + move=> t Ht. rewrite (cone_split q o t (Hgen t Ht)). rewrite /cadd. cbn [fst snd]. ring.
Qed.

(* ---- the code's face sum (unit normals), triangulated surface ---- *)
Definition facet : Type := (V3 * R * triR)%type.      (* unit normal, |N| (signed), triangle *)
Definition fnormal (f : facet) : V3 := fst (fst f).
Definition fscale (f : facet) : R := snd (fst f).
Definition ftri (f : facet) : triR := snd f.
Definition facet_ok (f : facet) : Prop :=
  vdot Rops (fnormal f) (fnormal f) = 1 /\ fscale f <> 0
  /\ vcross Rops (vsub Rops (tb (ftri f)) (ta (ftri f))) (vsub Rops (tc (ftri f)) (ta (ftri f))) = vscale Rops (fscale f) (fnormal f).
Definition facet_face (f : facet) : V3 * list V3 := (fnormal f, [ta (ftri f); tb (ftri f); tc (ftri f)]).

Theorem polyhedron_ff_is_fourier q o (Fs : list facet) :
  (forall f, In f Fs -> facet_ok f) -> closed (map ftri Fs) -> (forall f, In f Fs -> generic_cone q o (ftri f)) ->
  polyhedron_ff q (map facet_face Fs) = csum (map (cone_fourier q o) (map ftri Fs)).
Proof.
  move=> Hok Hc Hgen.
  rewrite -(closed_surface_sf q o (map ftri Fs) Hc); last first.
  { move=> t /in_map_iff [f [<- Hf]]. by apply Hgen. }
  rewrite /polyhedron_ff !map_map. apply csum_map_ext => f Hf.
  case: (Hok f Hf) => [Hn [Hs HN]]. case: (Hgen f Hf) => [Ha [Hb [Hg [Hab [Hag Hbg]]]]].
  rewrite /cone_al /cone_be /cone_ga in Ha Hb Hg Hab Hag Hbg.
  rewrite /facet_face. cbn [fst snd].
  apply (face_ff_tri_sf (fnormal f) q (ta (ftri f)) (tb (ftri f)) (tc (ftri f)) (fscale f) Hn Hs HN).
  - have -> : vdot Rops q (vsub Rops (tb (ftri f)) (ta (ftri f)))
             = vdot Rops q (vsub Rops (tb (ftri f)) o) - vdot Rops q (vsub Rops (ta (ftri f)) o) by rewrite !dot_sub_r; ring.
    lra.
  - have -> : vdot Rops q (vsub Rops (tc (ftri f)) (ta (ftri f)))
             = vdot Rops q (vsub Rops (tc (ftri f)) o) - vdot Rops q (vsub Rops (ta (ftri f)) o) by rewrite !dot_sub_r; ring.
    lra.
  - rewrite !dot_sub_r. move=> H. apply Hbg. rewrite !dot_sub_r. lra.
Qed.

(* ---- polygonal faces: the face term of a polygon is the sum of the face terms of its fan triangles (same plane) ---- *)
Fixpoint face_fan (n q a b : V3) (l : list V3) : Cx :=
  match l with [] => (0, 0) | c :: r => cadd (face_ff n q [a; b; c]) (face_fan n q a c r) end.

Lemma face_ff_is_fan n q a b l : face_ff n q (a :: b :: l) = face_fan n q a b l.
Proof.
  rewrite /face_ff. cbn [hd]. rewrite ff_is_fan.
  elim: l b => [|c r IH] b; cbn [ff_fan face_fan].
  - rewrite /cscale /cmul. cbn [fst snd]. apply cx_eq; cbn [fst snd]; ring.
  - rewrite -IH /face_ff. cbn [hd]. rewrite /cscale /cmul /cadd. cbn [fst snd]. apply cx_eq; cbn [fst snd]; ring.
Qed.

(* ---- non-vacuity: the tetrahedron O=(0,0,0), A=(2,0,0), B=(0,1,0), C=(0,0,1) with outward faces and rational unit normals,
        q = (1, 3, 5), apex o = (1/3, 1/5, 1/7) ---- *)
Definition ex_q : V3 := (1, 3, 5).
Definition ex_o : V3 := (/ 3, / 5, / 7).
Definition ex_V : list V3 := [(0, 0, 0); (2, 0, 0); (0, 1, 0); (0, 0, 1)].
Definition ex_tr : list (nat * nat * nat) := [(1, 2, 3); (0, 2, 1); (0, 1, 3); (0, 3, 2)]%nat.
Definition ex_facets : list facet :=
  combine (combine [(/ 3, 2 / 3, 2 / 3); (0, 0, -1); (0, -1, 0); (-1, 0, 0)] [3; 2; 2; 1]) (resolve Rops ex_V ex_tr).

Example polyhedron_ff_hypotheses_hold :
  (forall f, In f ex_facets -> facet_ok f) /\ closed (map ftri ex_facets) /\ (forall f, In f ex_facets -> generic_cone ex_q ex_o (ftri f)).
Proof.
  split; [|split].
  - move=> f Hf. rewrite /ex_facets /resolve /ex_tr /ex_V /getv in Hf. cbn [map combine nth fst snd] in Hf.
    rewrite /facet_ok /fnormal /fscale /ftri /ta /tb /tc.
    case: Hf => [<-|[<-|[<-|[<-|[]]]]]; cbn [fst snd]; unf; (split; [field | split; [lra | f_equal; [f_equal|]; field]]).
  - have -> : map ftri ex_facets = resolve Rops ex_V ex_tr by reflexivity.
    apply Cox.Thm.ClosedThm.closedb_closed. by vm_compute.
  - move=> f Hf. rewrite /ex_facets /resolve /ex_tr /ex_V /getv in Hf. cbn [map combine nth fst snd] in Hf.
    rewrite /generic_cone /generic3 /cone_al /cone_be /cone_ga /ftri /ta /tb /tc /ex_q /ex_o.
    case: Hf => [<-|[<-|[<-|[<-|[]]]]]; cbn [fst snd]; unf; repeat split; lra.
Qed.

(* ---- the orientation factor of the polygon method is +1 for faces listed counter-clockwise about their normal ---- *)
Lemma face_ff_code_positive n q V : 0 < sa_coef Rops n V -> face_ff_code n q V = face_ff n q V.
Proof.
  move=> H. rewrite /face_ff_code /face_ff /polygon_ff_code /sgnT. cbn [oltb o0 o1 oopp Rops].
  rewrite /Rltb. case: (Rlt_dec _ 0) => [H0|_]; first by exfalso; lra.
  case: (Rlt_dec 0 _) => [_|H0]; last by exfalso; lra.
  rewrite /cscale /cmul. cbn [fst snd]. apply cx_eq; cbn [fst snd]; ring.
Qed.
