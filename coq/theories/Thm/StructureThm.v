(* Theorems about the structure model (C07): symmetry of the neighbour relation, and
   soundness of the per-face certificate numbers (they bound every individual predicate). *)
From Coq Require Import Reals List Bool Arith Lia Lra Permutation.
Require Import Cox.Num.Ops Cox.Geo.Vec Cox.Geo.Sums Cox.Model.Mesh Cox.Model.Structure.
Import ListNotations.

Lemma eqb2_spec e g : eqb2 e g = true <-> e = g.
Proof.
  destruct e as [a b], g as [c d]; unfold eqb2; simpl.
  rewrite andb_true_iff, !Nat.eqb_eq. split; [intros [-> ->]; auto | intros H; inversion H; auto].
Qed.
Lemma mem2_In e l : mem2 e l = true <-> In e l.
Proof.
  unfold mem2. rewrite existsb_exists. split.
  - intros [x [Hx He]]. apply eqb2_spec in He. subst; auto.
  - intros H. exists e; split; auto. apply eqb2_spec; auto.
Qed.
Lemma rev2_invol e : rev2 (rev2 e) = e.
Proof. destruct e; reflexivity. Qed.

(* two faces share an edge iff some directed edge of one is a directed edge of the other, in
   either direction *)
Lemma share_edge_spec f g :
  share_edge f g = true <->
  exists e, In e (dedges_face f) /\ (In e (dedges_face g) \/ In (rev2 e) (dedges_face g)).
Proof.
  unfold share_edge. rewrite existsb_exists. split.
  - intros [e [He H]]. exists e; split; auto. apply orb_true_iff in H. rewrite !mem2_In in H. exact H.
  - intros [e [He H]]. exists e; split; auto. apply orb_true_iff. rewrite !mem2_In. exact H.
Qed.

Theorem share_edge_sym f g : share_edge f g = share_edge g f.
Proof.
  apply eq_true_iff_eq. rewrite !share_edge_spec. split; intros [e [He [H|H]]].
  - exists e; auto.
  - exists (rev2 e); split; auto. right. rewrite rev2_invol; auto.
  - exists e; auto.
  - exists (rev2 e); split; auto. right. rewrite rev2_invol; auto.
Qed.

(* neighbour lists are symmetric: j is listed for i iff i is listed for j *)
Lemma index_from_In {A} (k : nat) (l : list A) i a :
  In (i, a) (index_from k l) <-> (k <= i /\ nth_error l (i - k) = Some a).
Proof.
  revert k. induction l as [|x l IH]; intros k; simpl.
  - split; [tauto|]. intros [_ H]. destruct (i - k); discriminate.
  - split.
    + intros [H|H].
      * inversion H; subst. split; [lia|]. rewrite Nat.sub_diag. reflexivity.
      * apply IH in H. destruct H as [Hk Hn]. split; [lia|].
        replace (i - k) with (S (i - S k)) by lia. exact Hn.
    + intros [Hk Hn]. destruct (Nat.eq_dec i k) as [->|Hne].
      * rewrite Nat.sub_diag in Hn. simpl in Hn. inversion Hn; auto.
      * right. apply IH. split; [lia|]. replace (i - k) with (S (i - S k)) in Hn by lia. exact Hn.
Qed.

Definition is_neighbor (F : list (list nat)) (i j : nat) : Prop :=
  exists f g, nth_error F i = Some f /\ nth_error F j = Some g /\ i <> j /\ share_edge f g = true.

Theorem is_neighbor_sym F i j : is_neighbor F i j -> is_neighbor F j i.
Proof.
  intros [f [g [Hf [Hg [Hne Hs]]]]]. exists g, f. repeat split; auto. rewrite share_edge_sym. exact Hs.
Qed.

Lemma neighbors_of_nth F i f :
  nth_error F i = Some f ->
  nth_error (neighbors_of F) i =
  Some (map fst (filter (fun gj => negb (Nat.eqb i (fst gj)) && share_edge f (snd gj)) (index_from 0 F))).
Proof.
  intros Hf. unfold neighbors_of.
  assert (H : forall k l, nth_error l (i - k) = Some f -> k <= i ->
              nth_error (map (fun fi : nat * list nat =>
                  map fst (filter (fun gj => negb (Nat.eqb (fst fi) (fst gj)) && share_edge (snd fi) (snd gj)) (index_from 0 F)))
                (index_from k l)) (i - k)
              = Some (map fst (filter (fun gj => negb (Nat.eqb i (fst gj)) && share_edge f (snd gj)) (index_from 0 F)))).
  { intros k l. revert k. induction l as [|x l IH]; intros k Hn Hk.
    - destruct (i - k); discriminate.
    - destruct (Nat.eq_dec i k) as [->|Hne].
      + rewrite Nat.sub_diag in *. simpl in *. inversion Hn; subst. reflexivity.
      + replace (i - k) with (S (i - S k)) in * by lia. simpl in *. apply IH; auto. lia. }
  specialize (H 0 F). rewrite Nat.sub_0_r in H. apply H; auto. lia.
Qed.

(* the j-th face is listed among the neighbours of the i-th iff they are distinct and share an edge *)
Theorem neighbors_of_spec F i j f :
  nth_error F i = Some f ->
  (exists l, nth_error (neighbors_of F) i = Some l /\ In j l) <-> is_neighbor F i j.
Proof.
  intros Hf. rewrite (neighbors_of_nth F i f Hf). split.
  - intros [l [Hl Hj]]. inversion Hl; subst l. clear Hl.
    apply in_map_iff in Hj. destruct Hj as [[j' g] [Hj1 Hj2]]. simpl in Hj1; subst j'.
    apply filter_In in Hj2. destruct Hj2 as [Hin Hc]. simpl in Hc.
    apply andb_true_iff in Hc. destruct Hc as [Hne Hs].
    apply index_from_In in Hin. destruct Hin as [_ Hg]. rewrite Nat.sub_0_r in Hg.
    exists f, g. repeat split; auto.
    apply negb_true_iff, Nat.eqb_neq in Hne. exact Hne.
  - intros [f' [g [Hf' [Hg [Hne Hs]]]]]. rewrite Hf in Hf'. inversion Hf'; subst f'.
    eexists; split; [reflexivity|].
    apply in_map_iff. exists (j, g). split; auto. apply filter_In. split.
    + apply index_from_In. split; [lia|]. rewrite Nat.sub_0_r. exact Hg.
    + simpl. apply andb_true_iff. split; auto. apply negb_true_iff, Nat.eqb_neq. exact Hne.
Qed.

(* ---- certificate numbers ---- *)
Local Open Scope R_scope.
Lemma fold_max_ge (l : list R) d x : In x l -> x <= fold_max Rops l d.
Proof.
  induction l as [|a l IH]; simpl; [tauto|]. intros [->|H].
  - unfold omax. cbn [oleb Rops]. destruct (Rleb x (fold_max Rops l d)) eqn:E.
    + apply Rleb_true in E; exact E. + lra.
  - specialize (IH H). unfold omax. cbn [oleb Rops].
    destruct (Rleb a (fold_max Rops l d)) eqn:E; [exact IH|]. apply Rleb_false in E. lra.
Qed.
Lemma fold_max_ge_default (l : list R) d : d <= fold_max Rops l d.
Proof.
  induction l as [|a l IH]; simpl; [lra|]. unfold omax. cbn [oleb Rops].
  destruct (Rleb a (fold_max Rops l d)) eqn:E; [exact IH|]. apply Rleb_false in E. lra.
Qed.
Lemma fold_min_le (l : list R) d x : In x l -> fold_min Rops l d <= x.
Proof.
  induction l as [|a l IH]; simpl; [tauto|]. intros [->|H].
  - unfold omin. cbn [oleb Rops]. destruct (Rleb x (fold_min Rops l d)) eqn:E; [lra|].
    apply Rleb_false in E. lra.
  - specialize (IH H). unfold omin. cbn [oleb Rops].
    destruct (Rleb a (fold_min Rops l d)) eqn:E; [|exact IH]. apply Rleb_true in E. lra.
Qed.
Lemma fold_min_le_default (l : list R) d : fold_min Rops l d <= d.
Proof.
  induction l as [|a l IH]; simpl; [lra|]. unfold omin. cbn [oleb Rops].
  destruct (Rleb a (fold_min Rops l d)) eqn:E; [|exact IH]. apply Rleb_true in E. lra.
Qed.

(* soundness of the "support" number: if it is negative, EVERY vertex that is not on the face lies
   strictly on the inner side of the face plane *)
Theorem face_cert_support_sound (V : list (vec3 R)) nv f i :
  (i < nv)%nat -> existsb (Nat.eqb i) f = false ->
  nth 1 (face_cert Rops V nv f) 0 < 0 ->
  vdot Rops (fnormal Rops V f) (vsub Rops (getv Rops V i) (fpoint Rops V f)) < 0.
Proof.
  intros Hi Hout Hneg. unfold face_cert in Hneg. cbn [nth] in Hneg.
  set (side := fun i0 : nat => vdot Rops (fnormal Rops V f) (vsub Rops (getv Rops V i0) (fpoint Rops V f))) in *.
  assert (Hin : In i (filter (fun i0 : nat => negb (existsb (Nat.eqb i0) f)) (seq 0 nv))).
  { apply filter_In. split; [apply in_seq; lia | rewrite Hout; reflexivity]. }
  destruct (filter (fun i0 : nat => negb (existsb (Nat.eqb i0) f)) (seq 0 nv)) as [|i0 r] eqn:E; [destruct Hin|].
  destruct Hin as [->|Hin].
  - pose proof (fold_max_ge_default (map side r) (side i)) as H. unfold side in *. lra.
  - pose proof (fold_max_ge (map side r) (side i0) (side i) (in_map side r i Hin)) as H. unfold side in *. lra.
Qed.

(* soundness of the "planarity" number: it bounds |N.(v - v0)| for every vertex of the face *)
Theorem face_cert_planarity_sound (V : list (vec3 R)) nv f i :
  (i < nv)%nat -> existsb (Nat.eqb i) f = true ->
  Rabs (vdot Rops (fnormal Rops V f) (vsub Rops (getv Rops V i) (fpoint Rops V f)))
  <= nth 0 (face_cert Rops V nv f) 0.
Proof.
  intros Hi Hinf. unfold face_cert. cbn [nth].
  set (side := fun i0 : nat => vdot Rops (fnormal Rops V f) (vsub Rops (getv Rops V i0) (fpoint Rops V f))).
  assert (Habs : forall x, oabs Rops x = Rabs x).
  { intros x. unfold oabs. cbn [oltb oopp o0 Rops]. destruct (Rltb x 0) eqn:E.
    - apply Rltb_true in E. rewrite Rabs_left; auto.
    - apply Rltb_false in E. rewrite Rabs_right; auto. lra. }
  rewrite <- Habs. apply fold_max_ge.
  apply (in_map (fun i0 => oabs Rops (side i0))). apply filter_In. split; [apply in_seq; lia | exact Hinf].
Qed.
