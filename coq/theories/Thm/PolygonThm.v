(* Theorems about the polygon model (C04). *)
From Coq Require Import Reals List Permutation Lra Lia Bool.
Require Import Cox.Num.Ops Cox.Geo.Vec Cox.Geo.Sums Cox.Model.Polygon Cox.Thm.InsideThm.
Import ListNotations.
Local Open Scope R_scope.

Notation V3 := (vec3 R).
Ltac dv v := let x := fresh "x" in let y := fresh "y" in let z := fresh "z" in destruct v as [[x y] z].
Ltac vs := unfold vdot, vcross, vsub, vadd, vscale, vopp, vnorm2, vcomp, vx, vy, vz, vzero in *;
           cbn [fst snd oadd omul osub oopp odiv o0 o1 Rops] in *.

(* ---- components of twice the vector area as cyclic sums ---- *)
Definition crossc (p : nat) (a b : V3) : R :=
  let c1 := next3 p in let c2 := next3 (next3 p) in
  vcomp c1 a * vcomp c2 b - vcomp c2 a * vcomp c1 b.

Lemma vcross_comp p a b : (p < 3)%nat -> vcomp p (vcross Rops a b) = crossc p a b.
Proof. intros Hp. dv a; dv b. destruct p as [|[|[|p]]]; try lia; unfold crossc, next3; vs; ring. Qed.

Lemma vcomp_fold_vadd p (l : list V3) :
  vcomp p (fold_right (vadd Rops) (vzero Rops) l) = Rsum (map (vcomp p) l).
Proof.
  induction l as [|a l IH]; simpl.
  - destruct p as [|[|p]]; vs; reflexivity.
  - rewrite <- IH. dv a. destruct (fold_right (vadd Rops) (vzero Rops) l) as [[u v] w]. destruct p as [|[|p]]; vs; reflexivity.
Qed.

Lemma A2_comp p V : (p < 3)%nat ->
  vcomp p (A2 Rops V) = Rsum (map (fun e => crossc p (fst e) (snd e)) (cpairs V)).
Proof.
  intros Hp. unfold A2.
  assert (H : forall l : list (V3 * V3),
            fold_right (fun e acc => vadd Rops (vcross Rops (fst e) (snd e)) acc) (vzero Rops) l
            = fold_right (vadd Rops) (vzero Rops) (map (fun e => vcross Rops (fst e) (snd e)) l)).
  { induction l; simpl; congruence. }
  rewrite H, vcomp_fold_vadd, map_map. apply Rsum_map_ext. intros e _. apply vcross_comp, Hp.
Qed.

(* ---- the projection formula of signed_area sums the same terms ---- *)
Lemma combine3_12 {A} (X Y Z : list A) : length X = length Y -> length Y = length Z ->
  map (fun t => (fst t, fst (snd t))) (combine X (combine Y Z)) = combine X Y.
Proof.
  revert Y Z. induction X as [|x X IH]; intros [|y Y] [|z Z]; simpl; intros H1 H2; try discriminate; auto.
  f_equal. apply IH; lia.
Qed.
Lemma combine3_23 {A} (X Y Z : list A) : length X = length Y -> length Y = length Z ->
  map (fun t => (fst (snd t), snd (snd t))) (combine X (combine Y Z)) = combine Y Z.
Proof.
  revert Y Z. induction X as [|x X IH]; intros [|y Y] [|z Z]; simpl; intros H1 H2; try discriminate; auto.
  f_equal. apply IH; lia.
Qed.

Theorem sproj_is_A2_component p V : (p < 3)%nat -> sproj Rops p V = vcomp p (A2 Rops V).
Proof.
  intros Hp. rewrite (A2_comp p V Hp). unfold sproj. rewrite osum_Rsum.
  set (c2 := next3 (next3 p)). set (c1 := next3 p).
  (* split the summand b_c1 (c_c2 - a_c2) = b_c1 c_c2 - a_c2 b_c1 *)
  rewrite (Rsum_map_ext _ (fun t => vcomp c1 (fst (snd t)) * vcomp c2 (snd (snd t)) - vcomp c2 (fst t) * vcomp c1 (fst (snd t)))).
  2:{ intros t _. cbn [omul osub Rops]. ring. }
  rewrite Rsum_map_sub.
  assert (L1 : length V = length (roll V)) by (symmetry; apply roll_length).
  assert (L2 : length (roll V) = length (roll (roll V))) by (symmetry; apply roll_length).
  (* first sum: over the pairs (b,c) = cpairs (roll V), a permutation of cpairs V *)
  assert (S1 : Rsum (map (fun t : V3 * (V3 * V3) => vcomp c1 (fst (snd t)) * vcomp c2 (snd (snd t))) (ctriples V))
             = Rsum (map (fun e : V3 * V3 => vcomp c1 (fst e) * vcomp c2 (snd e)) (cpairs V))).
  { unfold ctriples.
    rewrite <- (map_map (fun t : V3 * (V3 * V3) => (fst (snd t), snd (snd t))) (fun e : V3 * V3 => vcomp c1 (fst e) * vcomp c2 (snd e))).
    rewrite (combine3_23 V (roll V) (roll (roll V)) L1 L2).
    change (combine (roll V) (roll (roll V))) with (cpairs (roll V)).
    apply Rsum_map_perm, cpairs_roll. }
  assert (S2 : Rsum (map (fun t : V3 * (V3 * V3) => vcomp c2 (fst t) * vcomp c1 (fst (snd t))) (ctriples V))
             = Rsum (map (fun e : V3 * V3 => vcomp c2 (fst e) * vcomp c1 (snd e)) (cpairs V))).
  { unfold ctriples.
    rewrite <- (map_map (fun t : V3 * (V3 * V3) => (fst t, fst (snd t))) (fun e : V3 * V3 => vcomp c2 (fst e) * vcomp c1 (snd e))).
    rewrite (combine3_12 V (roll V) (roll (roll V)) L1 L2). reflexivity. }
  rewrite S1, S2, <- Rsum_map_sub. apply Rsum_map_ext. intros e _. unfold crossc. fold c1 c2. reflexivity.
Qed.

(* for a planar polygon (vector area parallel to the normal N) the code's projection-based coefficient is the
   exact one (N . A2) / (2 N.N), whichever admissible axis is projected out *)
Theorem sa_coef_exact N V lam :
  A2 Rops V = vscale Rops lam N -> vcomp (argmax3 Rops N) N <> 0 ->
  sa_coef Rops N V = sa_spec_coef Rops N V.
Proof.
  intros Hpl Hnz. unfold sa_coef, sa_spec_coef.
  assert (Hp : (argmax3 Rops N < 3)%nat).
  { unfold argmax3. destruct (_ && _); [lia|]. destruct (oleb Rops _ _); lia. }
  rewrite (sproj_is_A2_component _ V Hp), Hpl.
  set (p := argmax3 Rops N) in *. dv N.
  assert (Hnn : x * x + y * y + z * z <> 0).
  { destruct p as [|[|p]]; vs; intros H0; apply Hnz; nra. }
  destruct p as [|[|p]]; vs; field; split; auto.
Qed.

(* reversing the vertex order negates the vector area: the signed area changes sign with the orientation,
   the area does not *)
Theorem A2_reverse p V : (p < 3)%nat -> vcomp p (A2 Rops (rev V)) = - vcomp p (A2 Rops V).
Proof.
  intros Hp. rewrite !(A2_comp p _ Hp).
  rewrite (Rsum_map_perm _ _ _ (cpairs_rev V)). rewrite map_map. cbn [fst snd].
  rewrite <- Rsum_map_opp. apply Rsum_map_ext. intros [a b] _. cbn [fst snd]. unfold crossc. ring.
Qed.
(* ... and it does not depend on the starting vertex *)
Theorem A2_cyclic_shift p V : (p < 3)%nat -> vcomp p (A2 Rops (roll V)) = vcomp p (A2 Rops V).
Proof. intros Hp. rewrite !(A2_comp p _ Hp). apply Rsum_map_perm, cpairs_roll. Qed.

(* the centroid the (repaired) code computes is the exact one as soon as the area coefficient is exact *)
Theorem pcentroid_code_exact N V lam :
  A2 Rops V = vscale Rops lam N -> vcomp (argmax3 Rops N) N <> 0 ->
  pcentroid_code Rops false N V = pcentroid_spec Rops N V.
Proof. intros H1 H2. unfold pcentroid_code, pcentroid_spec. rewrite (sa_coef_exact N V lam H1 H2). reflexivity. Qed.

(* with the absolute value (code as found) the centroid is mirrored through the plane's foot point exactly when
   the vertex order opposes the normal; it is right for counter-clockwise input *)
Theorem pcentroid_abs_ccw_partial N V :
  0 <= sa_coef Rops N V -> pcentroid_code Rops true N V = pcentroid_code Rops false N V.
Proof.
  intros H. unfold pcentroid_code, oabs. cbn [oltb oopp o0 Rops].
  destruct (Rltb (sa_coef Rops N V) 0) eqn:E; auto. apply Rltb_true in E. lra.
Qed.

(* planar moments of xy-plane polygons: the repaired code equals the orientation-corrected shoelace sums whenever
   those are non-negative for I_x, I_y (they are integrals of squares) *)
Theorem planar_moments_exact V :
  0 <= sgnT Rops (Sa Rops V) * Sx Rops V -> 0 <= sgnT Rops (Sa Rops V) * Sy Rops V -> Sa Rops V <> 0 ->
  planar_moments Rops false V = planar_moments_spec Rops V.
Proof.
  intros Hx Hy Ha. unfold planar_moments, planar_moments_spec.
  assert (Hs : sgnT Rops (Sa Rops V) = 1 \/ sgnT Rops (Sa Rops V) = -1).
  { unfold sgnT. cbn [oltb oopp o0 o1 Rops]. destruct (Rltb (Sa Rops V) 0) eqn:E1; [right; reflexivity|].
    destruct (Rltb 0 (Sa Rops V)) eqn:E2; [left; reflexivity|].
    apply Rltb_false in E1. apply Rltb_false in E2. exfalso. apply Ha. lra. }
  assert (Habs : forall s x, (s = 1 \/ s = -1) -> 0 <= s * x -> oabs Rops x = s * x).
  { intros s x Hs' Hp. unfold oabs. cbn [oltb oopp o0 Rops]. destruct (Rltb x 0) eqn:E.
    - apply Rltb_true in E. destruct Hs' as [->| ->]; lra.
    - apply Rltb_false in E. destruct Hs' as [->| ->]; lra. }
  rewrite (Habs _ _ Hs Hx), (Habs _ _ Hs Hy). reflexivity.
Qed.
