(* C10: the ellipse perimeter formula 4 a E(e^2) of the source IS four times the arc length of the quarter ellipse
   gamma(t) = (a sin t, b cos t), t in [0, pi/2]:  |gamma'(t)| = sqrt((a cos t)^2 + (b sin t)^2). *)
From Coq Require Import Reals Lra Psatz.
From mathcomp Require Import ssreflect.
From Coquelicot Require Import Coquelicot.
Require Import Cox.Model.Special Cox.Gen.Scalars.
Local Open Scope R_scope.

Lemma speed_identity a b t : 0 < b -> b <= a ->
  a * sqrt (1 - (1 - b ^ 2 / a ^ 2) * (sin t) ^ 2) = sqrt ((a * cos t) ^ 2 + (b * sin t) ^ 2).
Proof.
  move=> Hb Hab. have Ha : 0 < a by lra.
  have Hs := sin2_cos2 t. rewrite /Rsqr in Hs.
  have H1 : 0 <= b ^ 2 / a ^ 2 by apply Rcomplements.Rdiv_le_0_compat; nra.
  have H2 : b ^ 2 / a ^ 2 <= 1 by apply Rcomplements.Rle_div_l; nra.
  have H3 : 0 <= (sin t) ^ 2 <= 1 by nra.
  have HX : 0 <= 1 - (1 - b ^ 2 / a ^ 2) * (sin t) ^ 2 by nra.
  have Hsa : sqrt (a ^ 2) = a by rewrite sqrt_pow2 //; lra.
  rewrite -{1}Hsa -sqrt_mult //; last nra.
  f_equal.
  have Hc : (cos t) ^ 2 = 1 - (sin t) ^ 2 by nra.
  replace ((a * cos t) ^ 2) with (a ^ 2 * (cos t) ^ 2) by ring. rewrite Hc. field. lra.
Qed.

Lemma integrand_pos a b t : 0 < b -> b <= a -> 0 < 1 - (1 - b ^ 2 / a ^ 2) * (sin t) ^ 2.
Proof.
  move=> Hb Hab. have Ha : 0 < a by lra.
  have H1 : 0 < b ^ 2 / a ^ 2 by apply Rdiv_lt_0_compat; nra.
  have H2 : b ^ 2 / a ^ 2 <= 1 by apply Rcomplements.Rle_div_l; nra.
  have Hs := sin2_cos2 t. rewrite /Rsqr in Hs.
  have H3 : 0 <= (sin t) ^ 2 <= 1 by nra.
  nra.
Qed.

Theorem ellipse_perimeter_is_arc_length a b cx cy cz : 0 < b -> b <= a ->
  ellipse_perimeter a b cx cy cz = 4 * RInt (fun t => sqrt ((a * cos t) ^ 2 + (b * sin t) ^ 2)) 0 (PI / 2).
Proof.
  move=> Hb Hab. have Ha : 0 < a by lra.
  rewrite /ellipse_perimeter /ellipse_eccentricity /EllipE Rmin_right // Rmax_left //.
  have He : sqrt (1 - b ^ 2 / a ^ 2) ^ 2 = 1 - b ^ 2 / a ^ 2.
  { have H2 : b ^ 2 / a ^ 2 <= 1 by apply Rcomplements.Rle_div_l; nra.
    replace (sqrt (1 - b ^ 2 / a ^ 2) ^ 2) with (sqrt (1 - b ^ 2 / a ^ 2) * sqrt (1 - b ^ 2 / a ^ 2)) by ring.
    apply sqrt_sqrt. lra. }
  rewrite He Rmult_assoc. f_equal.
  transitivity (RInt (fun t => scal a (sqrt (1 - (1 - b ^ 2 / a ^ 2) * sin t ^ 2))) 0 (PI / 2)).
  - symmetry. apply: (RInt_scal (fun t => sqrt (1 - (1 - b ^ 2 / a ^ 2) * sin t ^ 2)) 0 (PI / 2) a).
    apply: ex_RInt_continuous => t _.
    apply: ex_derive_continuous. auto_derive. have P := integrand_pos a b t Hb Hab. simpl in P. lra.
  - apply: RInt_ext => t _. exact (speed_identity a b t Hb Hab).
Qed.
