(* C12: the sphere amplitude of the source (definition regenerated from Sphere.compute_form_factor_amplitude) IS the Fourier integral of the
   centred ball in spherical coordinates about the direction of q:
     int_ball exp(-i q.x) dx = int_0^R int_0^pi 2 pi rho^2 sin(th) exp(-i |q| rho cos th) dth drho
   real part = the formula of the source, imaginary part = 0; at q = 0 the same integral is the volume (the value of the zero-q branch). *)
From Coq Require Import Reals Lra Psatz.
From mathcomp Require Import ssreflect.
From Coquelicot Require Import Coquelicot.
Require Import Cox.Model.Special Cox.Gen.Scalars.
Local Open Scope R_scope.

Definition shell_re (q rho th : R) := 2 * PI * rho ^ 2 * sin th * cos (q * rho * cos th).
Definition shell_im (q rho th : R) := - (2 * PI * rho ^ 2 * sin th * sin (q * rho * cos th)).

Lemma inner_re q rho : q <> 0 -> RInt (shell_re q rho) 0 PI = 4 * PI * rho * sin (q * rho) / q.
Proof.
  move=> Hq. rewrite /shell_re.
  apply is_RInt_unique; evar_last.
  - apply (is_RInt_derive (fun th => - (2 * PI * rho * sin (q * rho * cos th)) / q)).
    + move=> t _; auto_derive; trivial. field. exact Hq.
    + move=> t _; apply: ex_derive_continuous; auto_derive; trivial.
  - rewrite /minus /plus /opp /=. rewrite cos_PI cos_0.
    replace (q * rho * -1) with (- (q * rho)) by ring. rewrite sin_neg Rmult_1_r. field. exact Hq.
Qed.

Lemma inner_im q rho : q <> 0 -> RInt (shell_im q rho) 0 PI = 0.
Proof.
  move=> Hq. rewrite /shell_im.
  apply is_RInt_unique; evar_last.
  - apply (is_RInt_derive (fun th => - (2 * PI * rho * cos (q * rho * cos th)) / q)).
    + move=> t _; auto_derive; trivial. field. exact Hq.
    + move=> t _; apply: ex_derive_continuous; auto_derive; trivial.
  - rewrite /minus /plus /opp /=. rewrite cos_PI cos_0.
    replace (q * rho * -1) with (- (q * rho)) by ring. rewrite cos_neg Rmult_1_r. field. exact Hq.
Qed.

Lemma outer_re q r : q <> 0 ->
  RInt (fun rho => 4 * PI * rho * sin (q * rho) / q) 0 r = 4 * PI * (sin (q * r) - q * r * cos (q * r)) / q ^ 3.
Proof.
  move=> Hq.
  apply is_RInt_unique; evar_last.
  - apply (is_RInt_derive (fun rho => 4 * PI * (sin (q * rho) - q * rho * cos (q * rho)) / q ^ 3)).
    + move=> t _; auto_derive; trivial. field. exact Hq.
    + move=> t _; apply: ex_derive_continuous; auto_derive; trivial.
  - rewrite /minus /plus /opp /=. rewrite !Rmult_0_r sin_0. field. exact Hq.
Qed.

(* the formula of the source, in the familiar form *)
Lemma sphere_ff_amp_closed r cx cy cz q : 0 < q -> 0 < r ->
  sphere_ff_amp r cx cy cz (q ^ 2) = 4 * PI * (sin (q * r) - q * r * cos (q * r)) / q ^ 3.
Proof.
  move=> Hq Hr. rewrite /sphere_ff_amp /sinc_np.
  have -> : sqrt (q ^ 2) = q by rewrite sqrt_pow2 //; lra.
  have HPI := PI_RGT_0.
  have -> : PI * (q * r / PI) = q * r by field; lra.
  field. split; lra.
Qed.

Theorem sphere_ff_is_fourier_integral r cx cy cz q : 0 < q -> 0 < r ->
  sphere_ff_amp r cx cy cz (q ^ 2) = RInt (fun rho => RInt (shell_re q rho) 0 PI) 0 r
  /\ RInt (fun rho => RInt (shell_im q rho) 0 PI) 0 r = 0.
Proof.
  move=> Hq Hr. have Hq0 : q <> 0 by lra. split.
  - rewrite sphere_ff_amp_closed // -outer_re //.
    apply RInt_ext => rho _. by rewrite inner_re.
  - rewrite (RInt_ext _ (fun _ => 0)); last by move=> rho _; rewrite inner_im.
    rewrite RInt_const /scal /= /mult /=. ring.
Qed.

(* q = 0: the same integral is the volume, the value the source assigns on its zero-q branch *)
Theorem sphere_ff_zero_is_volume_integral r cx cy cz :
  sphere_ff_zero r cx cy cz = RInt (fun rho => RInt (shell_re 0 rho) 0 PI) 0 r.
Proof.
  rewrite /sphere_ff_zero /sphere_volume /shell_re.
  have In : forall rho, RInt (fun th => 2 * PI * rho ^ 2 * sin th * cos (0 * rho * cos th)) 0 PI = 4 * PI * rho ^ 2.
  { move=> rho. apply is_RInt_unique; evar_last.
    - apply (is_RInt_derive (fun th => - (2 * PI * rho ^ 2 * cos th))).
      + move=> t _; auto_derive; trivial. rewrite !Rmult_0_l cos_0. ring.
      + move=> t _; apply: ex_derive_continuous; auto_derive; trivial.
    - rewrite /minus /plus /opp /=. rewrite cos_PI cos_0. ring. }
  rewrite (RInt_ext _ (fun rho => 4 * PI * rho ^ 2)); last by move=> rho _; rewrite In.
  symmetry. apply is_RInt_unique; evar_last.
  - apply (is_RInt_derive (fun rho => 4 / 3 * PI * rho ^ 3)).
    + move=> t _; auto_derive; trivial. field.
    + move=> t _; apply: ex_derive_continuous; auto_derive; trivial.
  - rewrite /minus /plus /opp /=. ring.
Qed.
