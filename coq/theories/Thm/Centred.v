(* C19 (to_hoomd): translating a closed surface so that its centroid is at the origin keeps the volume, makes the first moments
   vanish (centroid (0,0,0)) and turns the second moments into the central ones P - V c c^T. *)
From Coq Require Import Reals List Lra Lia.
Require Import Cox.Num.Ops Cox.Geo.Vec Cox.Geo.Sums Cox.Model.Mesh Cox.Thm.MeshThm.
Local Open Scope R_scope.

Theorem centred_shape c TT : closed TT -> cone0 Rops TT <> 0 ->
  (forall i, vcomp i c = spec_centroid Rops i TT) ->
  cone0 Rops (map (tshift Rops c) TT) = cone0 Rops TT
  /\ (forall i, cone1 Rops i (map (tshift Rops c) TT) = 0)
  /\ (forall i, spec_centroid Rops i (map (tshift Rops c) TT) = 0)
  /\ (forall i j, cone2 Rops i j (map (tshift Rops c) TT) = cone2 Rops i j TT - cone0 Rops TT * vcomp i c * vcomp j c).
Proof.
  intros Hc Hv Hcen.
  assert (C1 : forall i, cone1 Rops i TT = vcomp i c * cone0 Rops TT).
  { intros i. rewrite (Hcen i). unfold spec_centroid. cbn [odiv Rops]. field. exact Hv. }
  assert (Z1 : forall i, cone1 Rops i (map (tshift Rops c) TT) = 0) by (intros i; rewrite (cone1_shift c i TT Hc), (C1 i); ring).
  repeat split.
  - apply cone0_shift; exact Hc.
  - exact Z1.
  - intros i. unfold spec_centroid. rewrite (Z1 i), (cone0_shift c TT Hc). cbn [odiv Rops]. field. exact Hv.
  - intros i j. rewrite (cone2_shift c i j TT Hc), (C1 i), (C1 j). ring.
Qed.
