(* C09: second moments transform as tensors under every linear map: P(M x) = det M * M P(x) M^T. *)
From Coq Require Import Reals List Permutation Lra Lia Nsatz.
Require Import Cox.Num.Ops Cox.Geo.Vec Cox.Geo.Sums Cox.Model.Mesh Cox.Thm.MeshThm Cox.Thm.RigidThm.
Import ListNotations.
Local Open Scope R_scope.

Definition congr (M : mat) (i j : nat) (P : nat -> nat -> R) : R :=
  let r := mrow i M in let s := mrow j M in
  vx r * (vx s * P 0%nat 0%nat + vy s * P 0%nat 1%nat + vz s * P 0%nat 2%nat)
  + vy r * (vx s * P 1%nat 0%nat + vy s * P 1%nat 1%nat + vz s * P 1%nat 2%nat)
  + vz r * (vx s * P 2%nat 0%nat + vy s * P 2%nat 1%nat + vz s * P 2%nat 2%nat).

Lemma m2_linear M i j t : (i < 3)%nat -> (j < 3)%nat ->
  m2 Rops i j (tmap M t) = mdet M * congr M i j (fun k l => m2 Rops k l t).
Proof.
  intros Hi Hj. dmat M. dtri t. unfold congr.
  destruct i as [|[|[|i]]]; try lia; destruct j as [|[|[|j]]]; try lia; msimp; field.
Qed.

Theorem cone2_linear M i j TT : (i < 3)%nat -> (j < 3)%nat ->
  cone2 Rops i j (map (tmap M) TT) = mdet M * congr M i j (fun k l => cone2 Rops k l TT).
Proof.
  intros Hi Hj. unfold cone2. rewrite !osum_Rsum, map_map.
  rewrite (Rsum_map_ext _ (fun t => mdet M * congr M i j (fun k l => m2 Rops k l t))); [|intros; apply m2_linear; assumption].
  rewrite Rsum_map_scale. f_equal. unfold congr.
  rewrite !Rsum_map_add, !Rsum_map_scale, !Rsum_map_add, !Rsum_map_scale. reflexivity.
Qed.

(* orthogonal matrices: rows orthonormal *)
Definition orthogonal (M : mat) : Prop :=
  forall i j, (i < 3)%nat -> (j < 3)%nat -> vdot Rops (mrow i M) (mrow j M) = if Nat.eqb i j then 1 else 0.

(* the inertia tensor about the origin rotates with the shape: I(M x) = det M * M I(x) M^T for orthogonal M
   (det = 1: rotations, I' = M I M^T; det = -1: reflections of the signed chain) *)
Theorem inertia_orthogonal M i j TT : (i < 3)%nat -> (j < 3)%nat -> orthogonal M ->
  spec_inertia Rops i j (map (tmap M) TT) = mdet M * congr M i j (fun k l => spec_inertia Rops k l TT).
Proof.
  intros Hi Hj HO. unfold spec_inertia.
  assert (P : forall k l, (k < 3)%nat -> (l < 3)%nat -> cone2 Rops k l (map (tmap M) TT) = mdet M * congr M k l (fun a b => cone2 Rops a b TT))
    by (intros; apply cone2_linear; assumption).
  rewrite !P by lia.
  pose proof (HO 0%nat 0%nat ltac:(lia) ltac:(lia)) as O00. pose proof (HO 0%nat 1%nat ltac:(lia) ltac:(lia)) as O01.
  pose proof (HO 0%nat 2%nat ltac:(lia) ltac:(lia)) as O02. pose proof (HO 1%nat 1%nat ltac:(lia) ltac:(lia)) as O11.
  pose proof (HO 1%nat 2%nat ltac:(lia) ltac:(lia)) as O12. pose proof (HO 2%nat 2%nat ltac:(lia) ltac:(lia)) as O22.
  (* columns are orthonormal too: M^T M = I follows from M M^T = I; we only need the row relations after expanding *)
  set (c00 := cone2 Rops 0 0 TT) in *. set (c01 := cone2 Rops 0 1 TT) in *. set (c02 := cone2 Rops 0 2 TT) in *.
  set (c10 := cone2 Rops 1 0 TT) in *. set (c11 := cone2 Rops 1 1 TT) in *. set (c12 := cone2 Rops 1 2 TT) in *.
  set (c20 := cone2 Rops 2 0 TT) in *. set (c21 := cone2 Rops 2 1 TT) in *. set (c22 := cone2 Rops 2 2 TT) in *.
  dmat M. unfold congr, mrow, vdot, vx, vy, vz in *. cbn [fst snd oadd omul osub Rops Nat.eqb] in *.
  destruct i as [|[|[|i]]]; try lia; destruct j as [|[|[|j]]]; try lia; cbn [Nat.eqb fst snd oadd omul osub Rops]; nsatz.
Qed.
