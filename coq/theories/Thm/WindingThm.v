(* C06: the winding rule of Polygon.is_inside (half-turns with lexicographic sign tie-breaking) evaluates, for
   EVERY vertex cycle, to the signed fan indicator: the sum over the fan triangles (v0, v_i, v_i+1) of
   +1 / -1 / 0 according to whether the point lies strictly inside a counter-clockwise / clockwise triangle or
   outside it - provided the point is on none of the fan's closed segments (polygon edges and chords).
   This is the indicator whose integral is the shoelace area (C04), so "is_inside = negb (indicator = 0)". *)
From Coq Require Import Reals ZArith List Permutation Lra Lia Bool Psatz.
Require Import Cox.Num.Ops Cox.Geo.Vec Cox.Geo.Sums Cox.Model.Inside Cox.Thm.InsideThm Cox.Thm.CycleSplit.
Import ListNotations.
Local Open Scope R_scope.

Notation V2 := (vec2 R).
Definition cr (u v : V2) : R := fst u * snd v - snd u * fst v.
Definition dt (u v : V2) : R := fst u * fst v + snd u * snd v.
Definition lexpos (u : V2) : Prop := 0 < fst u \/ (fst u = 0 /\ 0 < snd u).
Definition neg2 (u : V2) : V2 := (- fst u, - snd u).
Definition off_seg (u v : V2) : Prop := ~ (cr u v = 0 /\ dt u v <= 0).

(* lexicographic sign of a vector: what vsign2 computes for v - p *)
Definition ls (u : V2) : Z := let s := sgn Rops (fst u) in if Z.eqb s 0 then sgn Rops (snd u) else s.
Definition ht (u v : V2) : Z := if Z.eqb (ls v - ls u) 0 then 0%Z else sgn Rops (cr u v).

Lemma half_turn_ht p a b : half_turn Rops p a b = ht (psub Rops a p) (psub Rops b p).
Proof. destruct p, a, b. reflexivity. Qed.

Lemma ls_cases u : (ls u = 1%Z /\ lexpos u) \/ (ls u = (-1)%Z /\ lexpos (neg2 u)) \/ (ls u = 0%Z /\ u = (0, 0)).
Proof.
  destruct u as [x y]. unfold ls, lexpos, neg2. cbn [fst snd].
  destruct (sgn_R_spec x) as [[Hx ->]|[[Hx ->]|[Hx ->]]]; cbn [Z.eqb].
  - right; left. split; [reflexivity|]. left; lra.
  - destruct (sgn_R_spec y) as [[Hy ->]|[[Hy ->]|[Hy ->]]].
    + right; left. split; [reflexivity|]. right; split; lra.
    + right; right. split; [reflexivity|]. subst; reflexivity.
    + left. split; [reflexivity|]. right; split; lra.
  - left. split; [reflexivity|]. left; lra.
Qed.

(* lexicographically positive vectors form a convex cone *)
Lemma lexpos_comb u v (a b : R) : lexpos u -> lexpos v -> 0 < a -> 0 < b ->
  lexpos (a * fst u + b * fst v, a * snd u + b * snd v).
Proof.
  destruct u as [ux uy], v as [vx vy]. unfold lexpos; cbn [fst snd]. intros [Hu|[Hu1 Hu2]] [Hv|[Hv1 Hv2]] Ha Hb.
  - left. nra.
  - left. subst vx. nra.
  - left. subst ux. nra.
  - right. subst ux vx. split; nra.
Qed.
Lemma lexpos_scale_pos u k : lexpos u -> lexpos (k * fst u, k * snd u) -> 0 < k.
Proof.
  destruct u as [ux uy]. unfold lexpos; cbn [fst snd]. intros [Hu|[Hu1 Hu2]] [Hk|[Hk1 Hk2]].
  - nra.
  - assert (k = 0) by (apply (Rmult_eq_reg_r ux); lra). subst k. lra.
  - subst ux. lra.
  - subst ux. nra.
Qed.

(* A u + B v + C w = 0 with A = v x w, B = w x u, C = u x v *)
Lemma cross_identity u v w :
  cr v w * fst u + cr w u * fst v + cr u v * fst w = 0 /\ cr v w * snd u + cr w u * snd v + cr u v * snd w = 0.
Proof. destruct u, v, w. unfold cr; cbn [fst snd]. split; ring. Qed.

Lemma antiparallel_on_segment u v : lexpos u -> lexpos (neg2 v) -> cr u v = 0 -> dt u v <= 0.
Proof.
  destruct u as [ux uy], v as [vx vy]. unfold lexpos, neg2, cr, dt; cbn [fst snd]. intros [Hu|[Hu1 Hu2]] Hv Hc.
  - assert (Hvx : vx <= 0) by (destruct Hv as [Hv|[Hv _]]; lra).
    assert (E0 : ux * (ux * vx + uy * vy) - vx * (ux * ux + uy * uy) = uy * (ux * vy - uy * vx)) by ring.
    rewrite Hc, Rmult_0_r in E0.
    assert (E : ux * (ux * vx + uy * vy) = vx * (ux * ux + uy * uy)) by lra.
    assert (S : 0 <= ux * ux + uy * uy) by nra.
    assert (P : ux * (ux * vx + uy * vy) <= 0) by (rewrite E; pose proof (Rmult_le_pos (- vx) _ ltac:(lra) S); lra).
    destruct (Rle_or_lt (ux * vx + uy * vy) 0) as [D|D]; [exact D|]. exfalso. pose proof (Rmult_lt_0_compat _ _ Hu D). lra.
  - subst ux. assert (Hvx : vx = 0).
    { assert (K : uy * vx = 0) by lra. apply (Rmult_eq_reg_l uy); lra. }
    subst vx. destruct Hv as [Hv|[_ Hv]]; [lra|]. nra.
Qed.

(* the signed indicator of the triangle (0,u,v,w are the vertices seen from the query point) times 2 *)
Definition tri_ind (u v w : V2) : Z :=
  if Rltb 0 (cr u v) && Rltb 0 (cr v w) && Rltb 0 (cr w u) then 2%Z
  else if Rltb (cr u v) 0 && Rltb (cr v w) 0 && Rltb (cr w u) 0 then (-2)%Z else 0%Z.

Lemma tri_ind_rot u v w : tri_ind v w u = tri_ind u v w.
Proof.
  unfold tri_ind.
  destruct (Rltb 0 (cr u v)), (Rltb 0 (cr v w)), (Rltb 0 (cr w u)),
           (Rltb (cr u v) 0), (Rltb (cr v w) 0), (Rltb (cr w u) 0); reflexivity.
Qed.
Lemma cr_neg2 u v : cr (neg2 u) (neg2 v) = cr u v.
Proof. destruct u, v. unfold cr, neg2; cbn [fst snd]. ring. Qed.
Lemma dt_neg2 u v : dt (neg2 u) (neg2 v) = dt u v.
Proof. destruct u, v. unfold dt, neg2; cbn [fst snd]. ring. Qed.
Lemma tri_ind_neg u v w : tri_ind (neg2 u) (neg2 v) (neg2 w) = tri_ind u v w.
Proof. unfold tri_ind. rewrite !cr_neg2. reflexivity. Qed.
Lemma cr_anti u v : cr v u = - cr u v.
Proof. destruct u, v. unfold cr; cbn [fst snd]. ring. Qed.
Lemma dt_sym u v : dt v u = dt u v.
Proof. destruct u, v. unfold dt; cbn [fst snd]. ring. Qed.

Ltac rltb :=
  repeat match goal with
  | |- context [Rltb ?a ?b] => let E := fresh "E" in destruct (Rltb a b) eqn:E; [apply Rltb_true in E | apply Rltb_false in E]
  end.

(* all three vertices on the same side of the (tilted) vertical line through the point: the point is not strictly inside *)
Lemma same_side_outside u v w : lexpos u -> lexpos v -> lexpos w -> tri_ind u v w = 0%Z.
Proof.
  intros Hu Hv Hw. destruct (cross_identity u v w) as [I1 I2]. unfold tri_ind.
  destruct (Rltb 0 (cr u v) && Rltb 0 (cr v w) && Rltb 0 (cr w u)) eqn:P.
  - exfalso. apply andb_prop in P. destruct P as [P E]. apply andb_prop in P. destruct P as [E0 E1].
    apply Rltb_true in E. apply Rltb_true in E0. apply Rltb_true in E1.
    (* all positive: a positive combination of lexpos vectors vanishes *)
    pose proof (lexpos_comb _ _ _ _ (lexpos_comb u v _ _ Hu Hv E1 E) Hw Rlt_0_1 E0) as H. unfold lexpos in H; cbn [fst snd] in H.
    destruct H as [H|[H1 H2]]; nra.
  - destruct (Rltb (cr u v) 0 && Rltb (cr v w) 0 && Rltb (cr w u) 0) eqn:N; [|reflexivity].
    exfalso. apply andb_prop in N. destruct N as [N E]. apply andb_prop in N. destruct N as [E0 E1].
    apply Rltb_true in E. apply Rltb_true in E0. apply Rltb_true in E1.
    pose proof (lexpos_comb _ _ _ _ (lexpos_comb u v (- cr v w) (- cr w u) Hu Hv ltac:(lra) ltac:(lra)) Hw Rlt_0_1 (ltac:(lra) : 0 < - cr u v)) as H.
    unfold lexpos in H; cbn [fst snd] in H. destruct H as [H|[H1 H2]]; nra.
Qed.

(* one vertex (u) on one side, two (v, w) on the other *)
Lemma two_one u v w : lexpos u -> lexpos (neg2 v) -> lexpos (neg2 w) -> off_seg u v -> off_seg w u ->
  (sgn Rops (cr u v) + sgn Rops (cr w u))%Z = tri_ind u v w.
Proof.
  intros Hu Hv Hw Suv Swu. destruct (cross_identity u v w) as [I1 I2].
  destruct (sgn_R_spec (cr u v)) as [[C ->]|[[C ->]|[C ->]]];
  destruct (sgn_R_spec (cr w u)) as [[B ->]|[[B ->]|[B ->]]];
  try (exfalso; apply Suv; split; [exact C | apply antiparallel_on_segment; assumption]);
  try (exfalso; apply Swu; split; [exact B | rewrite dt_sym; apply antiparallel_on_segment; [assumption|assumption|rewrite cr_anti; lra]]).
  - (* both negative: A < 0 *)
    assert (A : cr v w < 0).
    { pose proof (lexpos_comb _ _ (- cr w u) (- cr u v) Hv Hw ltac:(lra) ltac:(lra)) as H.
      unfold neg2, lexpos in H; cbn [fst snd] in H.
      assert (K : 0 < - cr v w).
      { apply (lexpos_scale_pos u); [exact Hu|]. destruct H as [H|[H1 H2]]; [left|right; split]; cbn [fst snd]; nra. }
      lra. }
    unfold tri_ind. rltb; cbn [andb]; try reflexivity; lra.
  - unfold tri_ind. rltb; cbn [andb]; try reflexivity; lra.
  - unfold tri_ind. rltb; cbn [andb]; try reflexivity; lra.
  - assert (A : 0 < cr v w).
    { pose proof (lexpos_comb _ _ (cr w u) (cr u v) Hv Hw B C) as H.
      unfold neg2, lexpos in H; cbn [fst snd] in H.
      apply (lexpos_scale_pos u); [exact Hu|]. destruct H as [H|[H1 H2]]; [left|right; split]; cbn [fst snd]; nra. }
    unfold tri_ind. rltb; cbn [andb]; try reflexivity; lra.
Qed.

Lemma neg2_invol u : neg2 (neg2 u) = u.
Proof. destruct u. unfold neg2; cbn [fst snd]. rewrite !Ropp_involutive. reflexivity. Qed.
Lemma off_seg_neg u v : off_seg u v -> off_seg (neg2 u) (neg2 v).
Proof. unfold off_seg. rewrite cr_neg2, dt_neg2. auto. Qed.
Lemma off_seg_nonzero_l u v : off_seg u v -> u <> (0, 0).
Proof. intros H ->. apply H. unfold cr, dt; cbn [fst snd]. split; lra. Qed.
Lemma off_seg_nonzero_r u v : off_seg u v -> v <> (0, 0).
Proof. intros H ->. apply H. unfold cr, dt; cbn [fst snd]. split; lra. Qed.

Lemma two_one_gen u v w :
  (lexpos u /\ lexpos (neg2 v) /\ lexpos (neg2 w)) \/ (lexpos (neg2 u) /\ lexpos v /\ lexpos w) ->
  off_seg u v -> off_seg w u ->
  (sgn Rops (cr u v) + sgn Rops (cr w u))%Z = tri_ind u v w.
Proof.
  intros [[Hu [Hv Hw]]|[Hu [Hv Hw]]] S1 S2.
  - apply two_one; assumption.
  - rewrite <- (cr_neg2 u v), <- (cr_neg2 w u), <- tri_ind_neg.
    apply two_one; try assumption; try (rewrite neg2_invol; assumption); apply off_seg_neg; assumption.
Qed.

(* ---- the triangle: the half-turn sum is twice the signed indicator ---- *)
Lemma rotA u v w : tri_ind v w u = tri_ind u v w.  Proof. apply tri_ind_rot. Qed.
Lemma rotB u v w : tri_ind w u v = tri_ind u v w.  Proof. rewrite (tri_ind_rot v w u). apply tri_ind_rot. Qed.

Theorem triangle_turns u v w : off_seg u v -> off_seg v w -> off_seg w u ->
  (ht u v + ht v w + ht w u)%Z = tri_ind u v w.
Proof.
  intros S1 S2 S3.
  pose proof (off_seg_nonzero_l _ _ S1) as Nu. pose proof (off_seg_nonzero_l _ _ S2) as Nv.
  pose proof (off_seg_nonzero_l _ _ S3) as Nw.
  unfold ht.
  destruct (ls_cases u) as [[Lu Pu]|[[Lu Pu]|[_ Zu]]]; [| |contradiction];
  (destruct (ls_cases v) as [[Lv Pv]|[[Lv Pv]|[_ Zv]]]; [| |contradiction]);
  (destruct (ls_cases w) as [[Lw Pw]|[[Lw Pw]|[_ Zw]]]; [| |contradiction]);
  rewrite Lu, Lv, Lw; simpl (_ =? _)%Z; cbv iota.
  - (* + + + *) rewrite same_side_outside by assumption. reflexivity.
  - (* + + - : w alone *)
    pose proof (two_one_gen w u v (or_intror (conj Pw (conj Pu Pv))) S3 S2) as H. rewrite rotB in H. lia.
  - (* + - + : v alone *)
    pose proof (two_one_gen v w u (or_intror (conj Pv (conj Pw Pu))) S2 S1) as H. rewrite rotA in H. lia.
  - (* + - - : u alone *)
    pose proof (two_one_gen u v w (or_introl (conj Pu (conj Pv Pw))) S1 S3) as H. lia.
  - (* - + + : u alone *)
    pose proof (two_one_gen u v w (or_intror (conj Pu (conj Pv Pw))) S1 S3) as H. lia.
  - (* - + - : v alone *)
    pose proof (two_one_gen v w u (or_introl (conj Pv (conj Pw Pu))) S2 S1) as H. rewrite rotA in H. lia.
  - (* - - + : w alone *)
    pose proof (two_one_gen w u v (or_introl (conj Pw (conj Pu Pv))) S3 S2) as H. rewrite rotB in H. lia.
  - (* - - - *) rewrite <- tri_ind_neg, same_side_outside by assumption. reflexivity.
Qed.

(* ---- polygons: the turn sum is the sum of the fan triangles' turn sums (chords cancel) ---- *)
Lemma IZR_zsum l : IZR (zsum l) = Rsum (map IZR l).
Proof. induction l as [|a l IH]; simpl; [reflexivity|]. rewrite plus_IZR, IH. reflexivity. Qed.

Definition htR (p : V2) (e : V2 * V2) : R := IZR (half_turn Rops p (fst e) (snd e)).
Lemma htR_anti p a b : htR p (b, a) = - htR p (a, b).
Proof. unfold htR. cbn [fst snd]. rewrite half_turn_anti, opp_IZR. reflexivity. Qed.

Fixpoint zfan (p a b : V2) (l : list V2) : Z :=
  match l with [] => 0%Z | c :: r => (turn_sum Rops p [a; b; c] + zfan p a c r)%Z end.

Lemma turn_sum_cyc p V : IZR (turn_sum Rops p V) = cyc (htR p) V.
Proof. unfold turn_sum, cyc. rewrite IZR_zsum, map_map. reflexivity. Qed.

Theorem turn_sum_is_fan p a b l : turn_sum Rops p (a :: b :: l) = zfan p a b l.
Proof.
  apply eq_IZR. rewrite turn_sum_cyc, (cycle_is_fan (htR p) (htR_anti p)).
  revert b. induction l as [|c r IH]; intros b; cbn [fan zfan]; [reflexivity|].
  rewrite plus_IZR, <- IH, turn_sum_cyc. reflexivity.
Qed.

(* ---- the signed fan indicator ---- *)
Fixpoint fan_ind (p a b : V2) (l : list V2) : Z :=
  match l with
  | [] => 0%Z
  | c :: r => (tri_ind (psub Rops a p) (psub Rops b p) (psub Rops c p) + fan_ind p a c r)%Z
  end.
Fixpoint fan_off (p a b : V2) (l : list V2) : Prop :=
  match l with
  | [] => True
  | c :: r => off_seg (psub Rops a p) (psub Rops b p) /\ off_seg (psub Rops b p) (psub Rops c p)
              /\ off_seg (psub Rops c p) (psub Rops a p) /\ fan_off p a c r
  end.

Lemma turn_sum_triangle p a b c :
  turn_sum Rops p [a; b; c]
  = (ht (psub Rops a p) (psub Rops b p) + ht (psub Rops b p) (psub Rops c p) + ht (psub Rops c p) (psub Rops a p))%Z.
Proof. unfold turn_sum, cpairs, roll. cbn [app combine map zsum fold_right fst snd]. rewrite !half_turn_ht. lia. Qed.

Theorem winding_is_fan_indicator p a b l :
  fan_off p a b l -> turn_sum Rops p (a :: b :: l) = fan_ind p a b l.
Proof.
  rewrite turn_sum_is_fan. revert b. induction l as [|c r IH]; intros b; cbn [zfan fan_ind fan_off]; [reflexivity|].
  intros [S1 [S2 [S3 Hr]]]. rewrite (IH c Hr), turn_sum_triangle, (triangle_turns _ _ _ S1 S2 S3). reflexivity.
Qed.

(* the code's answer: inside iff the signed fan indicator (fan_ind / 2) is non-zero *)
Corollary inside_polygon_is_fan_indicator p a b l :
  fan_off p a b l -> inside_polygon Rops p (a :: b :: l) = negb (Z.eqb (Z.div (fan_ind p a b l) 2) 0).
Proof. intros H. unfold inside_polygon, wn2. rewrite (winding_is_fan_indicator p a b l H). reflexivity. Qed.

Lemma tri_ind_even u v w : Z.even (tri_ind u v w) = true.
Proof. unfold tri_ind. destruct (_ && _ && _); [reflexivity|]. destruct (_ && _ && _); reflexivity. Qed.
Lemma fan_ind_even p a b l : Z.even (fan_ind p a b l) = true.
Proof. revert b. induction l as [|c r IH]; intros b; cbn [fan_ind]; [reflexivity|]. rewrite Z.even_add, tri_ind_even, IH. reflexivity. Qed.

(* off the fan's segments the turn sum is even, so the answer does not depend on the listing order *)
Corollary inside_polygon_orientation_free p a b l :
  fan_off p a b l -> inside_polygon Rops p (rev (a :: b :: l)) = inside_polygon Rops p (a :: b :: l).
Proof. intros H. apply inside_polygon_reverse. rewrite (winding_is_fan_indicator p a b l H). apply fan_ind_even. Qed.
