(* C12: the Fourier integral of a linear phase over the standard 3-simplex, in closed form (generic position), and the
   "fundamental theorem" identities that tie it to the integrals over the four faces. *)
From Coq Require Import Reals List Lra.
From mathcomp Require Import ssreflect.
From Coquelicot Require Import Coquelicot.
Require Import Cox.Thm.CurvedIntegrals Cox.Thm.TriangleFF.
Local Open Scope R_scope.

Definition S_cos (A be ga : R) := ((cos (A + ga) - cos (A + be)) / (be - ga) - (cos A - cos (A + be)) / be) / ga.
Definition S_sin (A be ga : R) := (- (sin (A + be) - sin (A + ga)) / (be - ga) + (sin (A + be) - sin A) / be) / ga.

Definition T_cos (A al be ga : R) :=
  (((sin (A + al) - sin (A + ga)) / (al - ga) - (sin (A + al) - sin (A + be)) / (al - be)) / (be - ga)
   - ((sin (A + al) - sin A) / al - (sin (A + al) - sin (A + be)) / (al - be)) / be) / ga.
Definition T_sin (A al be ga : R) :=
  - ((((cos (A + al) - cos (A + ga)) / (al - ga) - (cos (A + al) - cos (A + be)) / (al - be)) / (be - ga)
   - ((cos (A + al) - cos A) / al - (cos (A + al) - cos (A + be)) / (al - be)) / be) / ga).

Definition generic3 (al be ga : R) := al <> 0 /\ be <> 0 /\ ga <> 0 /\ al <> be /\ al <> ga /\ be <> ga.

Lemma tet_cos_integral A al be ga : generic3 al be ga ->
  RInt (fun u => RInt (fun v => RInt (fun w => cos (A + u * al + v * be + w * ga)) 0 (1 - u - v)) 0 (1 - u)) 0 1
  = T_cos A al be ga.
Proof.
  move=> [Ha [Hb [Hg [Hab [Hag Hbg]]]]].
  have Dab : al - be <> 0 by lra. have Dag : al - ga <> 0 by lra. have Dbg : be - ga <> 0 by lra.
  rewrite (RInt_ext _ (fun u => ((- cos (A + be + u * (al - be)) + cos (A + ga + u * (al - ga))) / (be - ga)
                                 + (cos (A + be + u * (al - be)) - cos (A + u * al)) / be) / ga)).
  2:{ move=> u _.
      rewrite (RInt_ext _ (fun v => (sin (A + ga + u * (al - ga) + v * (be - ga)) - sin (A + u * al + v * be)) / ga)).
      2:{ move=> v _.
          by_antiderivative (fun w => sin (A + u * al + v * be + w * ga) / ga) ltac:(field; exact Hg)
            ltac:(replace (A + u * al + v * be + (1 - u - v) * ga) with (A + ga + u * (al - ga) + v * (be - ga)) by ring;
                  replace (A + u * al + v * be + 0 * ga) with (A + u * al + v * be) by ring; field; exact Hg). }
      by_antiderivative (fun v => (- cos (A + ga + u * (al - ga) + v * (be - ga)) / (be - ga) + cos (A + u * al + v * be) / be) / ga)
        ltac:(field; repeat split; assumption)
        ltac:(replace (A + ga + u * (al - ga) + (1 - u) * (be - ga)) with (A + be + u * (al - be)) by ring;
              replace (A + u * al + (1 - u) * be) with (A + be + u * (al - be)) by ring;
              replace (A + ga + u * (al - ga) + 0 * (be - ga)) with (A + ga + u * (al - ga)) by ring;
              replace (A + u * al + 0 * be) with (A + u * al) by ring; field; repeat split; assumption). }
  by_antiderivative (fun u => ((- sin (A + be + u * (al - be)) / (al - be) + sin (A + ga + u * (al - ga)) / (al - ga)) / (be - ga)
                               + (sin (A + be + u * (al - be)) / (al - be) - sin (A + u * al) / al) / be) / ga)
    ltac:(field; repeat split; assumption)
    ltac:(rewrite /T_cos;
          replace (A + be + 1 * (al - be)) with (A + al) by ring; replace (A + ga + 1 * (al - ga)) with (A + al) by ring;
          replace (A + 1 * al) with (A + al) by ring;
          replace (A + be + 0 * (al - be)) with (A + be) by ring; replace (A + ga + 0 * (al - ga)) with (A + ga) by ring;
          replace (A + 0 * al) with A by ring; field; repeat split; assumption).
Qed.

Lemma tet_sin_integral A al be ga : generic3 al be ga ->
  RInt (fun u => RInt (fun v => RInt (fun w => sin (A + u * al + v * be + w * ga)) 0 (1 - u - v)) 0 (1 - u)) 0 1
  = T_sin A al be ga.
Proof.
  move=> [Ha [Hb [Hg [Hab [Hag Hbg]]]]].
  have Dab : al - be <> 0 by lra. have Dag : al - ga <> 0 by lra. have Dbg : be - ga <> 0 by lra.
  rewrite (RInt_ext _ (fun u => ((- sin (A + be + u * (al - be)) + sin (A + ga + u * (al - ga))) / (be - ga)
                                 + (sin (A + be + u * (al - be)) - sin (A + u * al)) / be) / ga)).
  2:{ move=> u _.
      rewrite (RInt_ext _ (fun v => (- cos (A + ga + u * (al - ga) + v * (be - ga)) + cos (A + u * al + v * be)) / ga)).
      2:{ move=> v _.
          by_antiderivative (fun w => - cos (A + u * al + v * be + w * ga) / ga) ltac:(field; exact Hg)
            ltac:(replace (A + u * al + v * be + (1 - u - v) * ga) with (A + ga + u * (al - ga) + v * (be - ga)) by ring;
                  replace (A + u * al + v * be + 0 * ga) with (A + u * al + v * be) by ring; field; exact Hg). }
      by_antiderivative (fun v => (- sin (A + ga + u * (al - ga) + v * (be - ga)) / (be - ga) + sin (A + u * al + v * be) / be) / ga)
        ltac:(field; repeat split; assumption)
        ltac:(replace (A + ga + u * (al - ga) + (1 - u) * (be - ga)) with (A + be + u * (al - be)) by ring;
              replace (A + u * al + (1 - u) * be) with (A + be + u * (al - be)) by ring;
              replace (A + ga + u * (al - ga) + 0 * (be - ga)) with (A + ga + u * (al - ga)) by ring;
              replace (A + u * al + 0 * be) with (A + u * al) by ring; field; repeat split; assumption). }
  by_antiderivative (fun u => ((cos (A + be + u * (al - be)) / (al - be) - cos (A + ga + u * (al - ga)) / (al - ga)) / (be - ga)
                               + (- cos (A + be + u * (al - be)) / (al - be) + cos (A + u * al) / al) / be) / ga)
    ltac:(field; repeat split; assumption)
    ltac:(rewrite /T_sin;
          replace (A + be + 1 * (al - be)) with (A + al) by ring; replace (A + ga + 1 * (al - ga)) with (A + al) by ring;
          replace (A + 1 * al) with (A + al) by ring;
          replace (A + be + 0 * (al - be)) with (A + be) by ring; replace (A + ga + 0 * (al - ga)) with (A + ga) by ring;
          replace (A + 0 * al) with A by ring; field; repeat split; assumption).
Qed.

(* the face integrals in the same notation *)
Lemma S_cos_integral A be ga : be <> 0 -> ga <> 0 -> be <> ga ->
  RInt (fun u => RInt (fun v => cos (A + u * be + v * ga)) 0 (1 - u)) 0 1 = S_cos A be ga.
Proof. exact: tri_cos_integral. Qed.
Lemma S_sin_integral A be ga : be <> 0 -> ga <> 0 -> be <> ga ->
  RInt (fun u => RInt (fun v => sin (A + u * be + v * ga)) 0 (1 - u)) 0 1 = S_sin A be ga.
Proof. exact: tri_sin_integral. Qed.

(* d/du, d/dv, d/dw of the phase integrated over the simplex = difference of two face integrals (closed forms).
   complex form:  S_slant - S_(u=0) = - i al T, with S = S_cos - i S_sin, T = T_cos - i T_sin *)
Lemma gauss_u A al be ga : generic3 al be ga ->
  S_cos (A + al) (be - al) (ga - al) - S_cos A ga be = - al * T_sin A al be ga
  /\ S_sin (A + al) (be - al) (ga - al) - S_sin A ga be = al * T_cos A al be ga.
Proof.
  move=> [Ha [Hb [Hg [Hab [Hag Hbg]]]]].
  rewrite /S_cos /S_sin /T_cos /T_sin.
  replace (A + al + (be - al)) with (A + be) by ring. replace (A + al + (ga - al)) with (A + ga) by ring.
  split; field; repeat split; lra.
Qed.
Lemma gauss_v A al be ga : generic3 al be ga ->
  S_cos (A + al) (be - al) (ga - al) - S_cos A al ga = - be * T_sin A al be ga
  /\ S_sin (A + al) (be - al) (ga - al) - S_sin A al ga = be * T_cos A al be ga.
Proof.
  move=> [Ha [Hb [Hg [Hab [Hag Hbg]]]]].
  rewrite /S_cos /S_sin /T_cos /T_sin.
  replace (A + al + (be - al)) with (A + be) by ring. replace (A + al + (ga - al)) with (A + ga) by ring.
  split; field; repeat split; lra.
Qed.
Lemma gauss_w A al be ga : generic3 al be ga ->
  S_cos (A + al) (be - al) (ga - al) - S_cos A be al = - ga * T_sin A al be ga
  /\ S_sin (A + al) (be - al) (ga - al) - S_sin A be al = ga * T_cos A al be ga.
Proof.
  move=> [Ha [Hb [Hg [Hab [Hag Hbg]]]]].
  rewrite /S_cos /S_sin /T_cos /T_sin.
  replace (A + al + (be - al)) with (A + be) by ring. replace (A + al + (ga - al)) with (A + ga) by ring.
  split; field; repeat split; lra.
Qed.
