(* C15: the segment-intersection test of the simplicity oracle IS the definition: seg_meet a b c d = true exactly when the closed
   segments ab and cd have a common point. *)
From Coq Require Import Reals Lra Psatz Bool.
Require Import Cox.Num.Ops Cox.Geo.Vec Cox.Model.Simple Cox.Thm.SimpleThm.
Local Open Scope R_scope.

Definition on_seg (a b p : V2) : Prop :=
  exists s, 0 <= s <= 1 /\ fst p = fst a + s * (fst b - fst a) /\ snd p = snd a + s * (snd b - snd a).
Definition ori (a b c : V2) : R := (fst b - fst a) * (snd c - snd a) - (snd b - snd a) * (fst c - fst a).

Lemma orient_ori a b c : orient Rops a b c = ori a b c.
Proof. destruct a, b, c. unfold orient, ori, pcross, psub, px, py. cbn [fst snd osub omul Rops]. ring. Qed.

Lemma Rmin_Rmax_omin a b : omin Rops a b = Rmin a b /\ omax Rops a b = Rmax a b.
Proof.
  unfold omin, omax, Rmin, Rmax. cbn [oleb Rops]. unfold Rleb. destruct (Rle_dec a b); split; reflexivity.
Qed.

Lemma in_box_spec a b c : in_box Rops a b c = true <->
  (Rmin (fst a) (fst b) <= fst c <= Rmax (fst a) (fst b) /\ Rmin (snd a) (snd b) <= snd c <= Rmax (snd a) (snd b)).
Proof.
  unfold in_box, px, py. destruct (Rmin_Rmax_omin (fst a) (fst b)) as [-> ->]. destruct (Rmin_Rmax_omin (snd a) (snd b)) as [-> ->].
  cbn [oleb Rops]. rewrite !andb_true_iff, !Rleb_true. tauto.
Qed.

Lemma zero_spec x : zero Rops x = true <-> x = 0.
Proof. unfold zero. cbn [oeqb o0 Rops]. apply Reqb_true. Qed.

Lemma frac01 x y : 0 <= x <= y -> 0 < y -> 0 <= x / y <= 1.
Proof.
  intros [H1 H2] Hy. split.
  - unfold Rdiv. apply Rmult_le_pos; [exact H1|]. left. apply Rinv_0_lt_compat. exact Hy.
  - apply (Rmult_le_reg_r y); [exact Hy|]. unfold Rdiv. rewrite Rmult_assoc, Rinv_l by lra. lra.
Qed.

(* a point of the segment lies in its bounding box and is collinear with it *)
Lemma on_seg_in_box a b p : on_seg a b p -> in_box Rops a b p = true.
Proof.
  intros [s [Hs [Hx Hy]]]. apply in_box_spec. rewrite Hx, Hy.
  unfold Rmin, Rmax. destruct (Rle_dec (fst a) (fst b)), (Rle_dec (snd a) (snd b)); repeat split; nra.
Qed.
Lemma on_seg_ori a b p : on_seg a b p -> ori a b p = 0.
Proof. intros [s [Hs [Hx Hy]]]. unfold ori. rewrite Hx, Hy. ring. Qed.

(* conversely: collinear and in the box means on the segment *)
Lemma collinear_in_box a b p : ori a b p = 0 -> in_box Rops a b p = true -> on_seg a b p.
Proof.
  intros Ho Hb. apply in_box_spec in Hb. destruct Hb as [[X1 X2] [Y1 Y2]]. unfold ori in Ho. unfold on_seg.
  destruct (Req_dec (fst a) (fst b)) as [Ex|Ex].
  - assert (Px : fst p = fst a).
    { rewrite <- Ex in *. unfold Rmin, Rmax in *. destruct (Rle_dec (fst a) (fst a)); lra. }
    destruct (Req_dec (snd a) (snd b)) as [Ey|Ey].
    + exists 0. assert (Py : snd p = snd a).
      { rewrite <- Ey in *. unfold Rmin, Rmax in *. destruct (Rle_dec (snd a) (snd a)); lra. }
      repeat split; lra.
    + exists ((snd p - snd a) / (snd b - snd a)). assert (Hd : snd b - snd a <> 0) by lra.
      split; [|split; [rewrite Px, Ex; ring | field; exact Hd]].
      unfold Rmin, Rmax in *. destruct (Rle_dec (snd a) (snd b)).
      * apply frac01; lra.
      * replace ((snd p - snd a) / (snd b - snd a)) with ((snd a - snd p) / (snd a - snd b)) by (field; lra).
        apply frac01; lra.
  - exists ((fst p - fst a) / (fst b - fst a)). assert (Hd : fst b - fst a <> 0) by lra.
    split; [|split; [field; exact Hd|]].
    + unfold Rmin, Rmax in *. destruct (Rle_dec (fst a) (fst b)).
      * apply frac01; lra.
      * replace ((fst p - fst a) / (fst b - fst a)) with ((fst a - fst p) / (fst a - fst b)) by (field; lra).
        apply frac01; lra.
    + assert (E : (snd p - snd a) * (fst b - fst a) = (snd b - snd a) * (fst p - fst a)) by lra.
      apply (Rmult_eq_reg_r (fst b - fst a)); [|exact Hd]. field_simplify; [|exact Hd]. nra.
Qed.

Lemma on_seg_start a b : on_seg a b a.
Proof. exists 0. repeat split; lra. Qed.
Lemma on_seg_end a b : on_seg a b b.
Proof. exists 1. repeat split; lra. Qed.

(* ---- soundness: every branch of the test exhibits a common point ---- *)
Theorem seg_meet_sound a b c d : seg_meet Rops a b c d = true -> exists p, on_seg a b p /\ on_seg c d p.
Proof.
  unfold seg_meet. rewrite !orb_true_iff, !andb_true_iff, !zero_spec, !orient_ori.
  intros [[[[[H1 H2]|[Z B]]|[Z B]]|[Z B]]|[Z B]].
  - destruct (proper_crossing_has_common_point a b c d H1 H2) as [t [s [Ht [Hs E]]]].
    exists (lerp a b t). split.
    + exists t. destruct a, b. unfold lerp, padd, pscale, psub, px, py. cbn [fst snd oadd omul osub Rops]. repeat split; lra.
    + rewrite E. exists s. destruct c, d. unfold lerp, padd, pscale, psub, px, py. cbn [fst snd oadd omul osub Rops]. repeat split; lra.
  - exists a. split; [apply on_seg_start | apply collinear_in_box; assumption].
  - exists b. split; [apply on_seg_end | apply collinear_in_box; assumption].
  - exists c. split; [apply collinear_in_box; assumption | apply on_seg_start].
  - exists d. split; [apply collinear_in_box; assumption | apply on_seg_end].
Qed.

(* ---- completeness ---- *)
Lemma ori_affine c d a b p s :
  fst p = fst a + s * (fst b - fst a) -> snd p = snd a + s * (snd b - snd a) ->
  ori c d p = (1 - s) * ori c d a + s * ori c d b.
Proof. intros Hx Hy. unfold ori. rewrite Hx, Hy. ring. Qed.

Lemma opposite_true x y : (0 < x /\ y < 0) \/ (x < 0 /\ 0 < y) -> opposite Rops x y = true.
Proof.
  unfold opposite, pos, neg. cbn [oltb o0 Rops]. intros [[H1 H2]|[H1 H2]]; apply orb_true_iff; [left|right];
    apply andb_true_iff; split; apply Rltb_true; assumption.
Qed.

(* a point that is an endpoint of one segment and lies on the other makes the test succeed *)
Lemma hit_a a b c d : on_seg c d a -> seg_meet Rops a b c d = true.
Proof.
  intros H. unfold seg_meet. rewrite !orb_true_iff. left; left; left; right.
  apply andb_true_iff. split; [apply zero_spec; rewrite orient_ori; apply on_seg_ori; exact H | apply on_seg_in_box; exact H].
Qed.
Lemma hit_b a b c d : on_seg c d b -> seg_meet Rops a b c d = true.
Proof.
  intros H. unfold seg_meet. rewrite !orb_true_iff. left; left; right.
  apply andb_true_iff. split; [apply zero_spec; rewrite orient_ori; apply on_seg_ori; exact H | apply on_seg_in_box; exact H].
Qed.
Lemma hit_c a b c d : on_seg a b c -> seg_meet Rops a b c d = true.
Proof.
  intros H. unfold seg_meet. rewrite !orb_true_iff. left; right.
  apply andb_true_iff. split; [apply zero_spec; rewrite orient_ori; apply on_seg_ori; exact H | apply on_seg_in_box; exact H].
Qed.
Lemma hit_d a b c d : on_seg a b d -> seg_meet Rops a b c d = true.
Proof.
  intros H. unfold seg_meet. rewrite !orb_true_iff. right.
  apply andb_true_iff. split; [apply zero_spec; rewrite orient_ori; apply on_seg_ori; exact H | apply on_seg_in_box; exact H].
Qed.

(* collinear points are parametrised along the line: x = c + lam(x) (d - c) *)
Definition lam (c d x : V2) : R :=
  ((fst x - fst c) * (fst d - fst c) + (snd x - snd c) * (snd d - snd c))
  / ((fst d - fst c) * (fst d - fst c) + (snd d - snd c) * (snd d - snd c)).

Lemma e2_pos (c d : V2) : c <> d -> 0 < (fst d - fst c) * (fst d - fst c) + (snd d - snd c) * (snd d - snd c).
Proof.
  intros H. destruct c as [cx cy], d as [dx dy]. cbn [fst snd].
  destruct (Req_dec dx cx) as [Ex|Ex]; [destruct (Req_dec dy cy) as [Ey|Ey]|].
  - exfalso. apply H. subst. reflexivity.
  - assert (0 < (dy - cy) * (dy - cy)) by (apply Rsqr_pos_lt; lra). pose proof (Rle_0_sqr (dx - cx)) as Q. unfold Rsqr in Q. lra.
  - assert (0 < (dx - cx) * (dx - cx)) by (apply Rsqr_pos_lt; lra). pose proof (Rle_0_sqr (dy - cy)) as Q. unfold Rsqr in Q. lra.
Qed.

Lemma collinear_param c d x : c <> d -> ori c d x = 0 ->
  fst x = fst c + lam c d x * (fst d - fst c) /\ snd x = snd c + lam c d x * (snd d - snd c).
Proof.
  intros Hcd Ho. pose proof (e2_pos c d Hcd) as HE. unfold lam, ori in *.
  set (ex := fst d - fst c) in *. set (ey := snd d - snd c) in *.
  set (wx := fst x - fst c) in *. set (wy := snd x - snd c) in *.
  assert (X : wx = (wx * ex + wy * ey) / (ex * ex + ey * ey) * ex).
  { apply (Rmult_eq_reg_r (ex * ex + ey * ey)); [|lra].
    replace ((wx * ex + wy * ey) / (ex * ex + ey * ey) * ex * (ex * ex + ey * ey)) with ((wx * ex + wy * ey) * ex) by (field; lra).
    replace (wx * (ex * ex + ey * ey)) with ((wx * ex + wy * ey) * ex - ey * (ex * wy - ey * wx)) by ring. rewrite Ho. ring. }
  assert (Y : wy = (wx * ex + wy * ey) / (ex * ex + ey * ey) * ey).
  { apply (Rmult_eq_reg_r (ex * ex + ey * ey)); [|lra].
    replace ((wx * ex + wy * ey) / (ex * ex + ey * ey) * ey * (ex * ex + ey * ey)) with ((wx * ex + wy * ey) * ey) by (field; lra).
    replace (wy * (ex * ex + ey * ey)) with ((wx * ex + wy * ey) * ey + ex * (ex * wy - ey * wx)) by ring. rewrite Ho. ring. }
  unfold wx, wy in *. split; lra.
Qed.

Lemma lam_on_seg c d x : c <> d -> ori c d x = 0 -> 0 <= lam c d x <= 1 -> on_seg c d x.
Proof. intros Hcd Ho Hl. destruct (collinear_param c d x Hcd Ho) as [X Y]. exists (lam c d x). repeat split; try lra. Qed.

Lemma lam_affine c d a b p s :
  fst p = fst a + s * (fst b - fst a) -> snd p = snd a + s * (snd b - snd a) -> c <> d ->
  lam c d p = (1 - s) * lam c d a + s * lam c d b.
Proof. intros Hx Hy Hcd. pose proof (e2_pos c d Hcd). unfold lam. rewrite Hx, Hy. field. lra. Qed.

Lemma lam_of_param c d p t : c <> d ->
  fst p = fst c + t * (fst d - fst c) -> snd p = snd c + t * (snd d - snd c) -> lam c d p = t.
Proof. intros Hcd Hx Hy. pose proof (e2_pos c d Hcd). unfold lam. rewrite Hx, Hy. field. lra. Qed.

Lemma convex_gt s x y k : 0 <= s <= 1 -> k < x -> k < y -> k < (1 - s) * x + s * y.
Proof.
  intros Hs Hx Hy. replace ((1 - s) * x + s * y) with (k + ((1 - s) * (x - k) + s * (y - k))) by ring.
  assert (0 <= (1 - s) * (x - k)) by (apply Rmult_le_pos; lra). assert (0 <= s * (y - k)) by (apply Rmult_le_pos; lra).
  destruct (Rle_dec s (1 / 2)).
  - assert (0 < (1 - s) * (x - k)) by (apply Rmult_lt_0_compat; lra). lra.
  - assert (0 < s * (y - k)) by (apply Rmult_lt_0_compat; lra). lra.
Qed.
Lemma convex_lt s x y k : 0 <= s <= 1 -> x < k -> y < k -> (1 - s) * x + s * y < k.
Proof. intros Hs Hx Hy. pose proof (convex_gt s (- x) (- y) (- k) Hs ltac:(lra) ltac:(lra)). lra. Qed.

(* two collinear segments with a common point: an endpoint of one lies on the other *)
Lemma collinear_overlap a b c d p : c <> d -> ori c d a = 0 -> ori c d b = 0 -> on_seg a b p -> on_seg c d p ->
  on_seg c d a \/ on_seg c d b \/ on_seg a b c.
Proof.
  intros Hcd Ha Hb [s [Hs [Px Py]]] [t [Ht [Qx Qy]]].
  pose proof (lam_affine c d a b p s Px Py Hcd) as L. rewrite (lam_of_param c d p t Hcd Qx Qy) in L.
  set (la := lam c d a) in *. set (lb := lam c d b) in *.
  destruct (Rle_dec 0 la) as [A0|A0]; [destruct (Rle_dec la 1) as [A1|A1]|].
  - left. apply lam_on_seg; auto.
  - (* la > 1 *) destruct (Rle_dec 0 lb) as [B0|B0]; [destruct (Rle_dec lb 1) as [B1|B1]|].
    + right; left. apply lam_on_seg; auto.
    + exfalso. pose proof (convex_gt s la lb 1 Hs ltac:(lra) ltac:(lra)). lra.
    + (* lb < 0 < 1 < la : c between a and b *)
      right; right. destruct (collinear_param c d a Hcd Ha) as [Ax Ay]. destruct (collinear_param c d b Hcd Hb) as [Bx By].
      fold la in Ax, Ay. fold lb in Bx, By.
      exists (la / (la - lb)). assert (Hd : la - lb <> 0) by lra. split; [apply frac01; lra|].
      split; [rewrite Ax, Bx | rewrite Ay, By]; field; exact Hd.
  - (* la < 0 *) destruct (Rle_dec 0 lb) as [B0|B0]; [destruct (Rle_dec lb 1) as [B1|B1]|].
    + right; left. apply lam_on_seg; auto.
    + right; right. destruct (collinear_param c d a Hcd Ha) as [Ax Ay]. destruct (collinear_param c d b Hcd Hb) as [Bx By].
      fold la in Ax, Ay. fold lb in Bx, By.
      exists (la / (la - lb)). assert (Hd : la - lb <> 0) by lra.
      split; [replace (la / (la - lb)) with ((- la) / (lb - la)) by (field; lra); apply frac01; lra|].
      split; [rewrite Ax, Bx | rewrite Ay, By]; field; exact Hd.
    + exfalso. pose proof (convex_lt s la lb 0 Hs ltac:(lra) ltac:(lra)). lra.
Qed.

Lemma pt_eq_dec (c d : V2) : c = d \/ c <> d.
Proof.
  destruct c as [cx cy], d as [dx dy]. destruct (Req_dec cx dx) as [->|Hx]; [destruct (Req_dec cy dy) as [->|Hy]|].
  - left; reflexivity.
  - right; intros H; inversion H; contradiction.
  - right; intros H; inversion H; contradiction.
Qed.
Lemma on_seg_point c p : on_seg c c p -> fst p = fst c /\ snd p = snd c.
Proof. intros [t [_ [X Y]]]. split; lra. Qed.
Lemma on_seg_coords a b p q : fst q = fst p -> snd q = snd p -> on_seg a b p -> on_seg a b q.
Proof. intros Hx Hy [s [Hs [X Y]]]. exists s. repeat split; lra. Qed.
Lemma strict_opposite s x y : 0 < s < 1 -> (1 - s) * x + s * y = 0 -> (x = 0 /\ y = 0) \/ (0 < x /\ y < 0) \/ (x < 0 /\ 0 < y).
Proof.
  intros Hs H.
  destruct (Rtotal_order x 0) as [Hx|[Hx|Hx]].
  - right; right. split; [exact Hx|]. assert ((1 - s) * x < 0) by (apply Ropp_lt_cancel; rewrite Ropp_0, Ropp_mult_distr_r; apply Rmult_lt_0_compat; lra).
    assert (0 < s * y) by lra. destruct (Rle_or_lt y 0) as [Hy|Hy]; [|exact Hy]. exfalso.
    assert (s * y <= 0) by (apply Ropp_le_cancel; rewrite Ropp_0, Ropp_mult_distr_r; apply Rmult_le_pos; lra). lra.
  - left. subst x. split; [reflexivity|]. rewrite Rmult_0_r, Rplus_0_l in H. apply (Rmult_eq_reg_l s); [lra|lra].
  - right; left. split; [exact Hx|]. assert (0 < (1 - s) * x) by (apply Rmult_lt_0_compat; lra).
    assert (s * y < 0) by lra. destruct (Rle_or_lt 0 y) as [Hy|Hy]; [|exact Hy]. exfalso.
    assert (0 <= s * y) by (apply Rmult_le_pos; lra). lra.
Qed.

Theorem seg_meet_complete a b c d : (exists p, on_seg a b p /\ on_seg c d p) -> seg_meet Rops a b c d = true.
Proof.
  intros [p [Hab Hcd]]. pose proof Hab as [s [Hs [Px Py]]]. pose proof Hcd as [t [Ht [Qx Qy]]].
  (* an endpoint case? *)
  destruct (Req_dec s 0) as [S0|S0]; [subst s; apply hit_a; apply (on_seg_coords c d p a); [lra|lra|exact Hcd]|].
  destruct (Req_dec s 1) as [S1|S1]; [subst s; apply hit_b; apply (on_seg_coords c d p b); [lra|lra|exact Hcd]|].
  destruct (Req_dec t 0) as [T0|T0]; [subst t; apply hit_c; apply (on_seg_coords a b p c); [lra|lra|exact Hab]|].
  destruct (Req_dec t 1) as [T1|T1]; [subst t; apply hit_d; apply (on_seg_coords a b p d); [lra|lra|exact Hab]|].
  assert (Hs' : 0 < s < 1) by lra. assert (Ht' : 0 < t < 1) by lra.
  pose proof (on_seg_ori c d p Hcd) as O1. rewrite (ori_affine c d a b p s Px Py) in O1.
  pose proof (on_seg_ori a b p Hab) as O2. rewrite (ori_affine a b c d p t Qx Qy) in O2.
  destruct (strict_opposite s _ _ Hs' O1) as [[Z1 Z2]|Opp1].
  - (* a and b on the line cd *)
    destruct (pt_eq_dec c d) as [E|Hne].
    + subst d. destruct (on_seg_point c p Hcd) as [X Y]. apply hit_c. apply (on_seg_coords a b p c); [lra|lra|exact Hab].
    + destruct (collinear_overlap a b c d p Hne Z1 Z2 Hab Hcd) as [H|[H|H]]; [apply hit_a|apply hit_b|apply hit_c]; exact H.
  - destruct (strict_opposite t _ _ Ht' O2) as [[Z3 Z4]|Opp2].
    + destruct (pt_eq_dec a b) as [E|Hne].
      * subst b. destruct (on_seg_point a p Hab) as [X Y]. apply hit_a. apply (on_seg_coords c d p a); [lra|lra|exact Hcd].
      * destruct (collinear_overlap c d a b p Hne Z3 Z4 Hcd Hab) as [H|[H|H]]; [apply hit_c|apply hit_d|apply hit_a]; exact H.
    + unfold seg_meet. rewrite !orb_true_iff. left; left; left; left. rewrite !orient_ori.
      apply andb_true_iff. split; apply opposite_true; assumption.
Qed.

(* THE SPECIFICATION *)
Theorem seg_meet_spec a b c d : seg_meet Rops a b c d = true <-> exists p, on_seg a b p /\ on_seg c d p.
Proof. split; [apply seg_meet_sound | apply seg_meet_complete]. Qed.

(* ---- consecutive edges ab, bc: fold_back is "they share a point other than b" ---- *)
Definition same_pt (p q : V2) : Prop := fst p = fst q /\ snd p = snd q.

Lemma pos_spec x : pos Rops x = true <-> 0 < x.
Proof. unfold pos. cbn [oltb o0 Rops]. apply Rltb_true. Qed.

Theorem fold_back_spec a b c :
  fold_back Rops a b c = true <-> exists p, ~ same_pt p b /\ on_seg a b p /\ on_seg b c p.
Proof.
  unfold fold_back. rewrite andb_true_iff, zero_spec, pos_spec, orient_ori.
  assert (Hdot : pdot Rops (psub Rops a b) (psub Rops c b) = (fst a - fst b) * (fst c - fst b) + (snd a - snd b) * (snd c - snd b)).
  { destruct a, b, c. unfold pdot, psub, px, py. cbn [fst snd oadd omul osub Rops]. ring. }
  rewrite Hdot. split.
  - intros [Ho Hd]. unfold ori in Ho.
    set (ux := fst a - fst b) in *. set (uy := snd a - snd b) in *. set (wx := fst c - fst b) in *. set (wy := snd c - snd b) in *.
    (* u = a - b, w = c - b are parallel (u x w = 0) with u.w > 0 *)
    assert (Hpar : ux * wy - uy * wx = 0) by (unfold ux, uy, wx, wy in *; lra).
    assert (Huu : 0 < ux * ux + uy * uy).
    { destruct (Req_dec ux 0) as [X|X]; [destruct (Req_dec uy 0) as [Y|Y]|].
      - exfalso. rewrite X, Y in Hd. lra.
      - assert (0 < uy * uy) by (apply Rsqr_pos_lt; exact Y). pose proof (Rle_0_sqr ux) as Q; unfold Rsqr in Q. lra.
      - assert (0 < ux * ux) by (apply Rsqr_pos_lt; exact X). pose proof (Rle_0_sqr uy) as Q; unfold Rsqr in Q. lra. }
    set (mu := (ux * wx + uy * wy) / (ux * ux + uy * uy)).
    assert (Hmu : 0 < mu) by (apply Rdiv_lt_0_compat; assumption).
    assert (Wx : wx = mu * ux).
    { unfold mu. apply (Rmult_eq_reg_r (ux * ux + uy * uy)); [|lra].
      replace ((ux * wx + uy * wy) / (ux * ux + uy * uy) * ux * (ux * ux + uy * uy)) with ((ux * wx + uy * wy) * ux) by (field; lra).
      replace (wx * (ux * ux + uy * uy)) with ((ux * wx + uy * wy) * ux - uy * (ux * wy - uy * wx)) by ring. rewrite Hpar. ring. }
    assert (Wy : wy = mu * uy).
    { unfold mu. apply (Rmult_eq_reg_r (ux * ux + uy * uy)); [|lra].
      replace ((ux * wx + uy * wy) / (ux * ux + uy * uy) * uy * (ux * ux + uy * uy)) with ((ux * wx + uy * wy) * uy) by (field; lra).
      replace (wy * (ux * ux + uy * uy)) with ((ux * wx + uy * wy) * uy + ux * (ux * wy - uy * wx)) by ring. rewrite Hpar. ring. }
    destruct (Rle_dec mu 1) as [M1|M1].
    + (* c lies on the segment ab *)
      exists c. split; [|split].
      * intros [X Y]. assert (W1 : wx = 0) by (unfold wx; lra). assert (W2 : wy = 0) by (unfold wy; lra).
        assert (U1 : ux = 0) by (apply (Rmult_eq_reg_l mu); lra). assert (U2 : uy = 0) by (apply (Rmult_eq_reg_l mu); lra).
        rewrite U1, U2 in Huu. lra.
      * exists (1 - mu). unfold ux, uy, wx, wy in *. repeat split; lra.
      * apply on_seg_end.
    + (* a lies on the segment bc *)
      exists a. split; [|split].
      * intros [X Y]. assert (U1 : ux = 0) by (unfold ux; lra). assert (U2 : uy = 0) by (unfold uy; lra). rewrite U1, U2 in Huu. lra.
      * apply on_seg_start.
      * exists (/ mu). assert (mu <> 0) by lra. assert (0 < / mu) by (apply Rinv_0_lt_compat; lra).
        assert (/ mu < 1) by (rewrite <- Rinv_1; apply Rinv_lt_contravar; lra).
        unfold ux, uy, wx, wy in *. split; [lra|].
        split.
        -- replace (fst c - fst b) with (mu * (fst a - fst b)) by lra. field. lra.
        -- replace (snd c - snd b) with (mu * (snd a - snd b)) by lra. field. lra.
  - intros [p [Hne [[s [Hs [Px Py]]] [t [Ht [Qx Qy]]]]]].
    set (ux := fst a - fst b) in *. set (uy := snd a - snd b) in *. set (wx := fst c - fst b) in *. set (wy := snd c - snd b) in *.
    (* p - b = (1-s) u = t w *)
    assert (Ex : (1 - s) * ux = t * wx) by (unfold ux, uy, wx, wy in *; transitivity (fst p - fst b); [rewrite Px; ring | rewrite Qx; ring]).
    assert (Ey : (1 - s) * uy = t * wy) by (unfold ux, uy, wx, wy in *; transitivity (snd p - snd b); [rewrite Py; ring | rewrite Qy; ring]).
    assert (Hs1 : s <> 1).
    { intros ->. apply Hne. split; lra. }
    assert (Ht0 : t <> 0).
    { intros ->. apply Hne. split; lra. }
    assert (Hpos : 0 < (1 - s) * t) by (apply Rmult_lt_0_compat; lra).
    split.
    + unfold ori. fold ux uy wx wy.
      replace ((fst b - fst a) * (snd c - snd a) - (snd b - snd a) * (fst c - fst a)) with (- (ux * wy - uy * wx)) by (unfold ux, uy, wx, wy; ring).
      apply (Rmult_eq_reg_l ((1 - s) * t)); [|lra]. rewrite Rmult_0_r.
      replace ((1 - s) * t * - (ux * wy - uy * wx)) with (- (t * ((1 - s) * ux) * wy - t * ((1 - s) * uy) * wx)) by ring. rewrite Ex, Ey. ring.
    + (* u.w = (t/(1-s)) |w|^2 > 0 *)
      assert (Hww : 0 < wx * wx + wy * wy).
      { destruct (Req_dec wx 0) as [X|X]; [destruct (Req_dec wy 0) as [Y|Y]|].
        - exfalso. apply Hne. split; [rewrite Qx; fold wx; rewrite X | rewrite Qy; fold wy; rewrite Y]; ring.
        - assert (0 < wy * wy) by (apply Rsqr_pos_lt; exact Y). pose proof (Rle_0_sqr wx) as Q; unfold Rsqr in Q. lra.
        - assert (0 < wx * wx) by (apply Rsqr_pos_lt; exact X). pose proof (Rle_0_sqr wy) as Q; unfold Rsqr in Q. lra. }
      apply (Rmult_lt_reg_l (1 - s)); [lra|]. rewrite Rmult_0_r.
      replace ((1 - s) * (ux * wx + uy * wy)) with ((1 - s) * ux * wx + (1 - s) * uy * wy) by ring. rewrite Ex, Ey.
      replace (t * wx * wx + t * wy * wy) with (t * (wx * wx + wy * wy)) by ring. apply Rmult_lt_0_compat; lra.
Qed.
