(* Homogeneity of the exact measures under uniform scaling (C08, C09): scaling every vertex
   by s multiplies volume by s^3, first moments by s^4, second moments by s^5, hence the
   centroid by s and the inertia tensor by s^5; angles/ratios (dimensionless) are unchanged. *)
From Coq Require Import Reals List Lra.
Require Import Cox.Num.Ops Cox.Geo.Vec Cox.Geo.Sums Cox.Model.Mesh Cox.Thm.MeshThm.
Import ListNotations.
Local Open Scope R_scope.

Definition tscale (s : R) (t : @tri R) : @tri R :=
  (vscale Rops s (ta t), vscale Rops s (tb t), vscale Rops s (tc t)).

Lemma m0_scale s t : m0 Rops (tscale s t) = s ^ 3 * m0 Rops t.
Proof. dtri t. unfold tscale. rsimp. field. Qed.
Lemma m1_scale s i t : m1 Rops i (tscale s t) = s ^ 4 * m1 Rops i t.
Proof. dtri t. unfold tscale. di i; rsimp; field. Qed.
Lemma m2_scale s i j t : m2 Rops i j (tscale s t) = s ^ 5 * m2 Rops i j t.
Proof. dtri t. unfold tscale. dij i j; rsimp; field. Qed.

Theorem cone0_scale s TT : cone0 Rops (map (tscale s) TT) = s ^ 3 * cone0 Rops TT.
Proof.
  unfold cone0. rewrite !osum_Rsum, map_map.
  rewrite (Rsum_map_ext _ (fun t => s ^ 3 * m0 Rops t)); [apply Rsum_map_scale | intros; apply m0_scale].
Qed.
Theorem cone1_scale s i TT : cone1 Rops i (map (tscale s) TT) = s ^ 4 * cone1 Rops i TT.
Proof.
  unfold cone1. rewrite !osum_Rsum, map_map.
  rewrite (Rsum_map_ext _ (fun t => s ^ 4 * m1 Rops i t)); [apply Rsum_map_scale | intros; apply m1_scale].
Qed.
Theorem cone2_scale s i j TT : cone2 Rops i j (map (tscale s) TT) = s ^ 5 * cone2 Rops i j TT.
Proof.
  unfold cone2. rewrite !osum_Rsum, map_map.
  rewrite (Rsum_map_ext _ (fun t => s ^ 5 * m2 Rops i j t)); [apply Rsum_map_scale | intros; apply m2_scale].
Qed.

Theorem centroid_scale s i TT : s <> 0 -> cone0 Rops TT <> 0 ->
  spec_centroid Rops i (map (tscale s) TT) = s * spec_centroid Rops i TT.
Proof.
  intros Hs Hv. unfold spec_centroid. rewrite cone1_scale, cone0_scale.
  cbn [odiv Rops]. field. split; auto.
Qed.

Theorem inertia_scale s i j TT :
  spec_inertia Rops i j (map (tscale s) TT) = s ^ 5 * spec_inertia Rops i j TT.
Proof.
  unfold spec_inertia. rewrite !cone2_scale.
  destruct (Nat.eqb i j); cbn [oadd osub oopp Rops]; ring.
Qed.

(* a size setter hits its target: if the scale factor satisfies s^d = target / current and the
   measure is homogeneous of degree d, the new measure is the target *)
Theorem setter_hits_target (cur target s : R) (d : nat) (m' : R) :
  cur <> 0 -> s ^ d = target / cur -> m' = s ^ d * cur -> m' = target.
Proof. intros Hc Hs Hm. rewrite Hm, Hs. field. exact Hc. Qed.

(* the isoperimetric quotient 36 pi V^2 / S^3 of a scaled solid is unchanged (areas scale by s^2) *)
Theorem iq_scale_invariant (V S s : R) : s <> 0 -> S <> 0 ->
  PI * 36 * (s ^ 3 * V) ^ 2 / (s ^ 2 * S) ^ 3 = PI * 36 * V ^ 2 / S ^ 3.
Proof. intros Hs HS. field. split; auto. Qed.
