(* Level 0 for C01/C02: the tetrahedron moments m0, m1, m2 of the model ARE the integrals of 1, a linear form and a product of
   two linear forms over the tetrahedron (0, a, b, c), parametrised X = u a + v b + w c over the standard simplex
   (Jacobian det(a,b,c), signed).  Coquelicot iterated RInt; the antiderivatives below were produced by a computer-algebra
   system and are CHECKED here by is_RInt_derive (auto_derive + field), so nothing about their origin is trusted. *)
From Coq Require Import Reals Lra.
From mathcomp Require Import ssreflect.
From Coquelicot Require Import Coquelicot.
Require Import Cox.Thm.CurvedIntegrals.
Local Open Scope R_scope.

Lemma simplex_one :
  RInt (fun u => RInt (fun v => RInt (fun w => 1) 0 (1 - u - v)) 0 (1 - u)) 0 1 = (1/6).
Proof.
  rewrite (RInt_ext _ (fun u => (1/2) + (1/2) * u^2 + (-1) * u)).
  2:{ move=> u _.
      rewrite (RInt_ext _ (fun v => 1 + (-1) * u + (-1) * v)).
      2:{ move=> v _. by_antiderivative (fun w => 1 * w) ltac:(field) ltac:(field). }
      by_antiderivative (fun v => 1 * v + (-1/2) * v^2 + (-1) * u * v) ltac:(field) ltac:(field). }
  by_antiderivative (fun u => (1/2) * u + (-1/2) * u^2 + (1/6) * u^3) ltac:(field) ltac:(field).
Qed.

Lemma simplex_lin pa pb pc :
  RInt (fun u => RInt (fun v => RInt (fun w => 1 * pa * u + 1 * pb * v + 1 * pc * w) 0 (1 - u - v)) 0 (1 - u)) 0 1 = (1/24) * pa + (1/24) * pb + (1/24) * pc.
Proof.
  rewrite (RInt_ext _ (fun u => (1/6) * pb + (1/6) * pc + (1/2) * pa * u + (1/2) * pa * u^3 + (1/2) * pb * u^2 + (1/2) * pc * u^2 + (-1) * pa * u^2 + (-1/2) * pb * u + (-1/2) * pc * u + (-1/6) * pb * u^3 + (-1/6) * pc * u^3)).
  2:{ move=> u _.
      rewrite (RInt_ext _ (fun v => (1/2) * pc + 1 * pa * u + 1 * pb * v + (1/2) * pc * u^2 + (1/2) * pc * v^2 + (-1) * pa * u^2 + (-1) * pb * v^2 + (-1) * pc * u + (-1) * pc * v + 1 * pc * u * v + (-1) * pa * u * v + (-1) * pb * u * v)).
      2:{ move=> v _. by_antiderivative (fun w => (1/2) * pc * w^2 + 1 * pa * u * w + 1 * pb * v * w) ltac:(field) ltac:(field). }
      by_antiderivative (fun v => (1/2) * pb * v^2 + (1/2) * pc * v + (-1/2) * pc * v^2 + (-1/3) * pb * v^3 + (1/6) * pc * v^3 + 1 * pa * u * v + (1/2) * pc * u * v^2 + (1/2) * pc * v * u^2 + (-1) * pa * v * u^2 + (-1) * pc * u * v + (-1/2) * pa * u * v^2 + (-1/2) * pb * u * v^2) ltac:(field) ltac:(field). }
  by_antiderivative (fun u => (-1/3) * pa * u^3 + (-1/4) * pb * u^2 + (-1/4) * pc * u^2 + (-1/24) * pb * u^4 + (-1/24) * pc * u^4 + (1/4) * pa * u^2 + (1/6) * pb * u + (1/6) * pb * u^3 + (1/6) * pc * u + (1/6) * pc * u^3 + (1/8) * pa * u^4) ltac:(field) ltac:(field).
Qed.

Lemma simplex_quad pa pb pc qa qb qc :
  RInt (fun u => RInt (fun v => RInt (fun w => 1 * pa * qa * u^2 + 1 * pb * qb * v^2 + 1 * pc * qc * w^2 + 1 * pa * qb * u * v + 1 * pa * qc * u * w + 1 * pb * qa * u * v + 1 * pb * qc * v * w + 1 * pc * qa * u * w + 1 * pc * qb * v * w) 0 (1 - u - v)) 0 (1 - u)) 0 1 = (1/60) * pa * qa + (1/60) * pb * qb + (1/60) * pc * qc + (1/120) * pa * qb + (1/120) * pa * qc + (1/120) * pb * qa + (1/120) * pb * qc + (1/120) * pc * qa + (1/120) * pc * qb.
Proof.
  rewrite (RInt_ext _ (fun u => (1/12) * pb * qb + (1/12) * pc * qc + (1/24) * pb * qc + (1/24) * pc * qb + (1/2) * pa * qa * u^2 + (1/2) * pa * qa * u^4 + (1/2) * pa * qb * u^3 + (1/2) * pa * qc * u^3 + (1/2) * pb * qa * u^3 + (1/2) * pb * qb * u^2 + (1/2) * pc * qa * u^3 + (1/2) * pc * qc * u^2 + (-1) * pa * qa * u^3 + (-1/2) * pa * qb * u^2 + (-1/2) * pa * qc * u^2 + (-1/2) * pb * qa * u^2 + (-1/2) * pc * qa * u^2 + (-1/3) * pb * qb * u + (-1/3) * pb * qb * u^3 + (-1/3) * pc * qc * u + (-1/3) * pc * qc * u^3 + (-1/6) * pa * qb * u^4 + (-1/6) * pa * qc * u^4 + (-1/6) * pb * qa * u^4 + (-1/6) * pb * qc * u + (-1/6) * pb * qc * u^3 + (-1/6) * pc * qa * u^4 + (-1/6) * pc * qb * u + (-1/6) * pc * qb * u^3 + (1/4) * pb * qc * u^2 + (1/4) * pc * qb * u^2 + (1/6) * pa * qb * u + (1/6) * pa * qc * u + (1/6) * pb * qa * u + (1/6) * pc * qa * u + (1/12) * pb * qb * u^4 + (1/12) * pc * qc * u^4 + (1/24) * pb * qc * u^4 + (1/24) * pc * qb * u^4)).
  2:{ move=> u _.
      rewrite (RInt_ext _ (fun v => (1/3) * pc * qc + 1 * pa * qa * u^2 + 1 * pb * qb * v^2 + 1 * pc * qc * u^2 + 1 * pc * qc * v^2 + (1/2) * pa * qc * u + (1/2) * pa * qc * u^3 + (1/2) * pb * qc * v + (1/2) * pb * qc * v^3 + (1/2) * pc * qa * u + (1/2) * pc * qa * u^3 + (1/2) * pc * qb * v + (1/2) * pc * qb * v^3 + (-1) * pa * qa * u^3 + (-1) * pa * qc * u^2 + (-1) * pb * qb * v^3 + (-1) * pb * qc * v^2 + (-1) * pc * qa * u^2 + (-1) * pc * qb * v^2 + (-1) * pc * qc * u + (-1) * pc * qc * v + (-1/3) * pc * qc * u^3 + (-1/3) * pc * qc * v^3 + 1 * pa * qb * u * v + 1 * pa * qc * v * u^2 + 1 * pb * qa * u * v + 1 * pb * qc * u * v^2 + 1 * pc * qa * v * u^2 + 1 * pc * qb * u * v^2 + (1/2) * pa * qc * u * v^2 + (1/2) * pb * qc * v * u^2 + (1/2) * pc * qa * u * v^2 + (1/2) * pc * qb * v * u^2 + (-1) * pa * qa * v * u^2 + (-1) * pa * qb * u * v^2 + (-1) * pa * qb * v * u^2 + (-1) * pa * qc * u * v + (-1) * pb * qa * u * v^2 + (-1) * pb * qa * v * u^2 + (-1) * pb * qb * u * v^2 + (-1) * pb * qc * u * v + (-1) * pc * qa * u * v + (-1) * pc * qb * u * v + (-1) * pc * qc * u * v^2 + (-1) * pc * qc * v * u^2 + 2 * pc * qc * u * v)).
      2:{ move=> v _. by_antiderivative (fun w => (1/3) * pc * qc * w^3 + 1 * pa * qa * w * u^2 + 1 * pb * qb * w * v^2 + (1/2) * pa * qc * u * w^2 + (1/2) * pb * qc * v * w^2 + (1/2) * pc * qa * u * w^2 + (1/2) * pc * qb * v * w^2 + 1 * pa * qb * u * v * w + 1 * pb * qa * u * v * w) ltac:(field) ltac:(field). }
      by_antiderivative (fun v => (-1/2) * pc * qc * v^2 + (-1/3) * pb * qc * v^3 + (-1/3) * pc * qb * v^3 + (-1/4) * pb * qb * v^4 + (-1/12) * pc * qc * v^4 + (1/3) * pb * qb * v^3 + (1/3) * pc * qc * v + (1/3) * pc * qc * v^3 + (1/4) * pb * qc * v^2 + (1/4) * pc * qb * v^2 + (1/8) * pb * qc * v^4 + (1/8) * pc * qb * v^4 + 1 * pa * qa * v * u^2 + 1 * pc * qc * u * v^2 + 1 * pc * qc * v * u^2 + (1/2) * pa * qb * u * v^2 + (1/2) * pa * qc * u * v + (1/2) * pa * qc * v * u^3 + (1/2) * pa * qc * u^2 * v^2 + (1/2) * pb * qa * u * v^2 + (1/2) * pc * qa * u * v + (1/2) * pc * qa * v * u^3 + (1/2) * pc * qa * u^2 * v^2 + (-1) * pa * qa * v * u^3 + (-1) * pa * qc * v * u^2 + (-1) * pc * qa * v * u^2 + (-1) * pc * qc * u * v + (-1/2) * pa * qa * u^2 * v^2 + (-1/2) * pa * qb * u^2 * v^2 + (-1/2) * pa * qc * u * v^2 + (-1/2) * pb * qa * u^2 * v^2 + (-1/2) * pb * qc * u * v^2 + (-1/2) * pc * qa * u * v^2 + (-1/2) * pc * qb * u * v^2 + (-1/2) * pc * qc * u^2 * v^2 + (-1/3) * pa * qb * u * v^3 + (-1/3) * pb * qa * u * v^3 + (-1/3) * pb * qb * u * v^3 + (-1/3) * pc * qc * u * v^3 + (-1/3) * pc * qc * v * u^3 + (1/3) * pb * qc * u * v^3 + (1/3) * pc * qb * u * v^3 + (1/4) * pb * qc * u^2 * v^2 + (1/4) * pc * qb * u^2 * v^2 + (1/6) * pa * qc * u * v^3 + (1/6) * pc * qa * u * v^3) ltac:(field) ltac:(field). }
  by_antiderivative (fun u => (-1/4) * pa * qa * u^4 + (-1/6) * pa * qb * u^3 + (-1/6) * pa * qc * u^3 + (-1/6) * pb * qa * u^3 + (-1/6) * pb * qb * u^2 + (-1/6) * pc * qa * u^3 + (-1/6) * pc * qc * u^2 + (-1/12) * pb * qb * u^4 + (-1/12) * pb * qc * u^2 + (-1/12) * pc * qb * u^2 + (-1/12) * pc * qc * u^4 + (-1/24) * pb * qc * u^4 + (-1/24) * pc * qb * u^4 + (-1/30) * pa * qb * u^5 + (-1/30) * pa * qc * u^5 + (-1/30) * pb * qa * u^5 + (-1/30) * pc * qa * u^5 + (1/6) * pa * qa * u^3 + (1/6) * pb * qb * u^3 + (1/6) * pc * qc * u^3 + (1/8) * pa * qb * u^4 + (1/8) * pa * qc * u^4 + (1/8) * pb * qa * u^4 + (1/8) * pc * qa * u^4 + (1/10) * pa * qa * u^5 + (1/12) * pa * qb * u^2 + (1/12) * pa * qc * u^2 + (1/12) * pb * qa * u^2 + (1/12) * pb * qb * u + (1/12) * pb * qc * u^3 + (1/12) * pc * qa * u^2 + (1/12) * pc * qb * u^3 + (1/12) * pc * qc * u + (1/24) * pb * qc * u + (1/24) * pc * qb * u + (1/60) * pb * qb * u^5 + (1/60) * pc * qc * u^5 + (1/120) * pb * qc * u^5 + (1/120) * pc * qb * u^5) ltac:(field) ltac:(field).
Qed.

