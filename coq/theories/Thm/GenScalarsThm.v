(* Theorems about the definitions GENERATED from /repo's source by
   harness/translate/scalars.py (Gen/Scalars.v).  They are re-checked on every run
   against what the code says now: a changed constant, exponent or swapped term in the
   source changes Gen/Scalars.v and breaks the matching proof below. *)
From Coq Require Import Reals Lra Psatz List.
Require Import Cox.Num.Ops Cox.Model.Curved Cox.Model.Special Cox.Gen.Scalars.
Import ListNotations.
Local Open Scope R_scope.

Ltac csimp :=
  unfold circle_planar_moments_inertia, ellipse_planar_moments_inertia, ellipse_iq, ellipse_perimeter,
    sphere_inertia_tensor, ellipsoid_inertia_tensor,
    circle_area, circle_perimeter, circle_eccentricity, circle_iq,
    ellipse_area, ellipse_eccentricity, sphere_volume, sphere_surface_area, sphere_iq, ellipsoid_volume,
    ell_polar, ell_moments, ell_area, ell_ecc2, eld_inertia, eld_volume, sph_area, Curved.q, Curved.sq in *;
  cbv zeta in *; cbn [o0 o1 oadd omul osub oopp odiv ofromZ Rops fst snd] in *.

(* ---- areas / volumes: the code's formulas are pi times the model's rational coefficient ---- *)
Theorem gen_circle_area r cx cy cz : circle_area r cx cy cz = PI * ell_area Rops r r.
Proof. csimp. ring. Qed.
Theorem gen_circle_perimeter r cx cy cz : circle_perimeter r cx cy cz = 2 * PI * r.
Proof. csimp. ring. Qed.
Theorem gen_ellipse_area a b cx cy cz : ellipse_area a b cx cy cz = PI * ell_area Rops a b.
Proof. csimp. ring. Qed.
Theorem gen_sphere_volume r cx cy cz : sphere_volume r cx cy cz = PI * eld_volume Rops r r r.
Proof. csimp. field. Qed.
Theorem gen_sphere_area r cx cy cz : sphere_surface_area r cx cy cz = PI * sph_area Rops r.
Proof. csimp. ring. Qed.
Theorem gen_ellipsoid_volume a b c cx cy cz : ellipsoid_volume a b c cx cy cz = PI * eld_volume Rops a b c.
Proof. csimp. field. Qed.
Theorem gen_circle_const r cx cy cz : circle_eccentricity r cx cy cz = 0 /\ circle_iq r cx cy cz = 1.
Proof. split; reflexivity. Qed.
Theorem gen_sphere_iq r cx cy cz : sphere_iq r cx cy cz = 1.
Proof. reflexivity. Qed.

(* ---- eccentricity ---- *)
Theorem gen_ellipse_eccentricity a b cx cy cz :
  ellipse_eccentricity a b cx cy cz = sqrt (1 - (Rmin a b) ^ 2 / (Rmax a b) ^ 2).
Proof. reflexivity. Qed.
Theorem ellipse_eccentricity_symmetric a b cx cy cz :
  ellipse_eccentricity a b cx cy cz = ellipse_eccentricity b a cx cy cz.
Proof. unfold ellipse_eccentricity. rewrite (Rmin_comm a b), (Rmax_comm a b). reflexivity. Qed.
Theorem ellipse_perimeter_symmetric a b cx cy cz :
  ellipse_perimeter a b cx cy cz = ellipse_perimeter b a cx cy cz.
Proof.
  unfold ellipse_perimeter. rewrite (ellipse_eccentricity_symmetric a b), (Rmax_comm a b). reflexivity.
Qed.
Theorem gen_ellipse_iq_le_1 a b cx cy cz : ellipse_iq a b cx cy cz <= 1.
Proof. unfold ellipse_iq. apply Rmin_r. Qed.

(* ---- planar moments: the code as found adds A c_x^2 to I_x (and A c_y^2 to I_y) ---- *)
Theorem gen_circle_moments_as_found r cx cy cz :
  circle_planar_moments_inertia r cx cy cz =
  (let m := ell_moments Rops true r r cx cy in (PI * fst (fst m), PI * snd (fst m), PI * snd m)).
Proof. csimp. apply pair_equal_spec; split; [apply pair_equal_spec; split|]; field. Qed.
Theorem gen_ellipse_moments_as_found a b cx cy cz :
  ellipse_planar_moments_inertia a b cx cy cz =
  (let m := ell_moments Rops true a b cx cy in (PI * fst (fst m), PI * snd (fst m), PI * snd m)).
Proof. csimp. apply pair_equal_spec; split; [apply pair_equal_spec; split|]; field. Qed.

(* the defining integrals I_x = int y^2, I_y = int x^2 need the OTHER coordinate: refuted *)
Theorem gen_circle_moments_refuted :
  exists r cx cy cz,
    circle_planar_moments_inertia r cx cy cz <>
    (let m := ell_moments Rops false r r cx cy in (PI * fst (fst m), PI * snd (fst m), PI * snd m)).
Proof.
  exists 1, 1, 2, 0. csimp. intros H. injection H as H1 H2.
  assert (HP := PI_RGT_0). nra.
Qed.
(* ... and correct whenever c_x^2 = c_y^2 (in particular for centred shapes) *)
Theorem gen_ellipse_moments_centred_partial a b cx cy cz : cx ^ 2 = cy ^ 2 ->
  ellipse_planar_moments_inertia a b cx cy cz =
  (let m := ell_moments Rops false a b cx cy in (PI * fst (fst m), PI * snd (fst m), PI * snd m)).
Proof. intros H. csimp. assert (Hx : cx * cx = cy * cy) by lra.
  apply pair_equal_spec; split; [apply pair_equal_spec; split|]; [ replace (cx ^ 2) with (cy * cy) by lra; field | replace (cy ^ 2) with (cx * cx) by lra; field | field ]. Qed.
(* the polar moment I_x + I_y and the product of inertia are unaffected by the swap *)
Theorem gen_ellipse_polar_ok a b cx cy cz :
  (let m := ellipse_planar_moments_inertia a b cx cy cz in fst (fst m) + snd (fst m))
  = PI * ell_polar Rops a b cx cy.
Proof. csimp. field. Qed.

(* ---- inertia tensors: central diagonal entries and the volume handed to the parallel axis ---- *)
Theorem gen_sphere_inertia r cx cy cz :
  sphere_inertia_tensor r cx cy cz =
  (let V := PI * eld_volume Rops r r r in
   (V / 5 * (r ^ 2 + r ^ 2), V / 5 * (r ^ 2 + r ^ 2), V / 5 * (r ^ 2 + r ^ 2), V)).
Proof. csimp. repeat (apply pair_equal_spec; split); field. Qed.
Theorem gen_ellipsoid_inertia a b c cx cy cz :
  ellipsoid_inertia_tensor a b c cx cy cz =
  (let V := PI * eld_volume Rops a b c in
   (V / 5 * (b ^ 2 + c ^ 2), V / 5 * (a ^ 2 + c ^ 2), V / 5 * (a ^ 2 + b ^ 2), V)).
Proof. csimp. repeat (apply pair_equal_spec; split); field. Qed.
