(* Paramcoq transfer for the spheropolyhedron model: what the executable Q-model computes (acceptance, certificate) is what the R-model
   computes on the embedded input. *)
From Coq Require Import QArith Qreals Reals Bool List ZArith.
From Param Require Import Param.
Require Import Cox.Num.Ops Cox.Num.Transfer Cox.Geo.Vec Cox.Model.Mesh Cox.Model.Sphero Cox.Thm.MeshTransfer.
Import ListNotations.

Parametricity Recursive sphero_inside.
Parametricity Recursive sphero_certb.

Lemma faces_R_QR (Fs : list (list (vec3 Q))) :
  list_R _ _ (list_R _ _ (vec3_R Q R QR)) Fs (map (map Q2R3) Fs).
Proof. induction Fs; simpl; constructor; auto using vecs_R_QR. Qed.

Theorem sphero_inside_transfer r2 Fs p :
  sphero_inside Qops r2 Fs p = sphero_inside Rops (Q2R r2) (map (map Q2R3) Fs) (Q2R3 p).
Proof.
  apply bool_R_eq.
  exact (sphero_inside_R Q R QR Qops Rops ops_rel r2 _ eq_refl Fs _ (faces_R_QR Fs) p _ (vec3_R_QR p)).
Qed.
Theorem sphero_certb_transfer Fs :
  sphero_certb Qops Fs = sphero_certb Rops (map (map Q2R3) Fs).
Proof.
  apply bool_R_eq.
  exact (sphero_certb_R Q R QR Qops Rops ops_rel Fs _ (faces_R_QR Fs)).
Qed.
