(* Theorems about the mesh-integral code (C01, C02): on every closed oriented
   triangle chain the code's surface-flux formulas equal the signed cone
   (tetrahedron) moments; those are independent of the apex and covariant under
   translation; hence the centred-quadrature + parallel-axis inertia tensor is the
   exact origin-frame tensor.  All sizes of meshes, by induction-free sum algebra. *)
From Coq Require Import Reals List Permutation Lra Lia ZArith.
Require Import Cox.Num.Ops Cox.Geo.Vec Cox.Geo.Sums Cox.Model.Mesh.
Import ListNotations.
Local Open Scope R_scope.

Notation V3 := (vec3 R).
Notation triR := (@tri R).

Ltac rsimp :=
  unfold signed_volume, cterm, inn, inm, quad, qpts, qw, lin3, ef1, ef2, kallay_term, kallay_f,
    m0, m1, m2, s1, tdet, tnormal, cst, tshift, ta, tb, tc,
    vdet, vdot, vcross, vsub, vadd, vscale, vopp, vmulc, vnorm2, vcomp, vx, vy, vz, vzero,
    osq, osum in *;
  cbn [o0 o1 oadd omul osub oopp odiv ofromZ Rops fst snd map combine fold_right] in *.

Ltac dtri t :=
  let ax := fresh "ax" in let ay := fresh "ay" in let az := fresh "az" in
  let bx := fresh "bx" in let by' := fresh "by" in let bz := fresh "bz" in
  let cx := fresh "cx" in let cy := fresh "cy" in let cz := fresh "cz" in
  destruct t as [[[[ax ay] az] [[bx by'] bz]] [[cx cy] cz]].
Ltac dvec v :=
  let x := fresh "x" in let y := fresh "y" in let z := fresh "z" in
  destruct v as [[x y] z].
Ltac dij i j := destruct i as [|[|i]]; destruct j as [|[|j]].
Ltac di i := destruct i as [|[|i]].

(* ---- closed triangle chains ---- *)
Definition tedges (t : triR) : list (V3 * V3) :=
  [(ta t, tb t); (tb t, tc t); (tc t, ta t)].
Definition dedges (TT : list triR) : list (V3 * V3) := flat_map tedges TT.
Definition closed (TT : list triR) : Prop := closed_edges (dedges TT).

Lemma dedges_map (f : V3 -> V3) TT :
  dedges (map (fun t => (f (ta t), f (tb t), f (tc t))) TT)
  = map (fun e => (f (fst e), f (snd e))) (dedges TT).
Proof. unfold dedges. induction TT; simpl; auto. rewrite IHTT. reflexivity. Qed.

Lemma closed_shift d TT : closed TT -> closed (map (tshift Rops d) TT).
Proof.
  unfold closed, closed_edges. intros H.
  change (map (tshift Rops d) TT)
    with (map (fun t => ((fun v => vsub Rops v d) (ta t), (fun v => vsub Rops v d) (tb t),
                         (fun v => vsub Rops v d) (tc t))) TT).
  rewrite dedges_map.
  eapply Permutation_trans; [apply Permutation_map, H|].
  rewrite !map_map. apply Permutation_refl.
Qed.

(* flux form F vs cone form M: they differ by an antisymmetric edge term *)
Lemma flux_cone_sum (F M : triR -> R) (G : V3 -> V3 -> R) :
  (forall a b, G a b = - G b a) ->
  (forall t, M t = F t + (G (ta t) (tb t) + G (tb t) (tc t) + G (tc t) (ta t))) ->
  forall TT, closed TT -> Rsum (map M TT) = Rsum (map F TT).
Proof.
  intros Hanti Hid TT Hc.
  rewrite (Rsum_map_ext M _ TT (fun t _ => Hid t)), Rsum_map_add.
  assert (Hz : Rsum (map (fun t => G (ta t) (tb t) + G (tb t) (tc t) + G (tc t) (ta t)) TT) = 0).
  { rewrite <- (closed_cancel G (dedges TT) Hanti Hc).
    unfold dedges. rewrite Rsum_flat_map. apply Rsum_map_ext. intros t _.
    unfold tedges; simpl. lra. }
  rewrite Hz. lra.
Qed.

Definition O3 : V3 := (0, 0, 0).

(* ---- volume ---- *)
Lemma signed_volume_is_cone0 TT : signed_volume Rops TT = cone0 Rops TT.
Proof.
  unfold signed_volume, cone0. rewrite !osum_Rsum. apply Rsum_map_ext. intros t _.
  dtri t. rsimp. field.
Qed.

(* ---- centroid: code's curl/divergence form equals the first cone moment ---- *)
Definition cflux (i : nat) (t : triR) : R := / 48 * cterm Rops i t.

Lemma cflux_identity i t :
  m1 Rops i t = cflux i t
    + (cflux i (O3, tb t, ta t) + cflux i (O3, tc t, tb t) + cflux i (O3, ta t, tc t)).
Proof. unfold cflux, O3. dtri t. di i; rsimp; field. Qed.

Lemma cflux_anti i a b : cflux i (O3, b, a) = - cflux i (O3, a, b).
Proof. unfold cflux, O3. dvec a; dvec b. di i; rsimp; field. Qed.

Lemma cone1_flux i TT : closed TT -> cone1 Rops i TT = Rsum (map (cflux i) TT).
Proof.
  intros Hc. unfold cone1. rewrite osum_Rsum.
  apply (flux_cone_sum (cflux i) (m1 Rops i) (fun a b => cflux i (O3, b, a))); auto.
  - intros a b. apply cflux_anti.
  - intros t. apply cflux_identity.
Qed.

Theorem centroid_code_exact vol i TT :
  closed TT -> vol = cone0 Rops TT -> vol <> 0 ->
  centroid_code Rops vol i TT = spec_centroid Rops i TT.
Proof.
  intros Hc Hv Hnz. unfold centroid_code, spec_centroid.
  rewrite (cone1_flux i TT Hc). rewrite osum_Rsum. rewrite <- Hv.
  unfold cflux. rewrite Rsum_map_scale. rsimp. field. auto.
Qed.

(* ---- second moments: the 4-point quadrature flux forms ---- *)
Definition dflux (i : nat) (t : triR) : R := / 6 * inn Rops i t.
Definition oflux (i j : nat) (t : triR) : R := / 8 * inm Rops i j t.

Lemma dflux_identity i t :
  m2 Rops i i t = dflux i t
    + (dflux i (O3, tb t, ta t) + dflux i (O3, tc t, tb t) + dflux i (O3, ta t, tc t)).
Proof. unfold dflux, O3. dtri t. di i; rsimp; field. Qed.
Lemma dflux_anti i a b : dflux i (O3, b, a) = - dflux i (O3, a, b).
Proof. unfold dflux, O3. dvec a; dvec b. di i; rsimp; field. Qed.

Ltac dij3 i j :=
  destruct i as [|[|[|i]]]; destruct j as [|[|[|j]]]; try lia.

Lemma oflux_identity i j t : (i < 3)%nat -> (j < 3)%nat -> i <> j ->
  m2 Rops i j t = oflux i j t
    + (oflux i j (O3, tb t, ta t) + oflux i j (O3, tc t, tb t) + oflux i j (O3, ta t, tc t)).
Proof. intros Hi Hj Hij. unfold oflux, O3. dtri t. dij3 i j; rsimp; field. Qed.
Lemma oflux_anti i j a b : oflux i j (O3, b, a) = - oflux i j (O3, a, b).
Proof. unfold oflux, O3. dvec a; dvec b. dij i j; rsimp; field. Qed.

Lemma Pdiag_code_exact i TT : closed TT -> Pdiag_code Rops i TT = cone2 Rops i i TT.
Proof.
  intros Hc. unfold Pdiag_code, cone2. rewrite !osum_Rsum.
  rewrite (flux_cone_sum (dflux i) (m2 Rops i i) (fun a b => dflux i (O3, b, a))); auto.
  - unfold dflux. rewrite Rsum_map_scale. rsimp. field.
  - intros a b; apply dflux_anti.
  - intros t; apply dflux_identity.
Qed.

Lemma Poff_code_exact i j TT : (i < 3)%nat -> (j < 3)%nat -> i <> j ->
  closed TT -> Poff_code Rops i j TT = cone2 Rops i j TT.
Proof.
  intros Hi Hj Hij Hc. unfold Poff_code, cone2. rewrite !osum_Rsum.
  rewrite (flux_cone_sum (oflux i j) (m2 Rops i j) (fun a b => oflux i j (O3, b, a))); auto.
  - unfold oflux. rewrite Rsum_map_scale. rsimp. field.
  - intros a b; apply oflux_anti.
  - intros t; apply oflux_identity; auto.
Qed.

Theorem inertia_raw_exact i j TT : (i < 3)%nat -> (j < 3)%nat ->
  closed TT -> inertia_raw Rops i j TT = spec_inertia Rops i j TT.
Proof.
  intros Hi Hj Hc. unfold inertia_raw, spec_inertia.
  rewrite !(Pdiag_code_exact _ TT Hc).
  destruct (Nat.eqb i j) eqn:E; auto.
  apply Nat.eqb_neq in E. rewrite (Poff_code_exact i j TT Hi Hj E Hc). reflexivity.
Qed.

(* ---- translation covariance of the cone moments on closed chains ---- *)
(* moments of the tetrahedron (d,a,b,c) in coordinates relative to d, expressed
   through origin-apex tetrahedra *)
Definition K0 (t : triR) : R := m0 Rops t.
Definition K1 (d : V3) (i : nat) (t : triR) : R := m1 Rops i t - vcomp i d * m0 Rops t.
Definition K2 (d : V3) (i j : nat) (t : triR) : R :=
  m2 Rops i j t - vcomp i d * m1 Rops j t - vcomp j d * m1 Rops i t
  + vcomp i d * vcomp j d * m0 Rops t.

Lemma m0_shift d t :
  m0 Rops (tshift Rops d t) = K0 t
    + (- K0 (ta t, tb t, d) + - K0 (tb t, tc t, d) + - K0 (tc t, ta t, d)).
Proof. unfold K0. dtri t; dvec d. rsimp. field. Qed.
Lemma m1_shift d i t :
  m1 Rops i (tshift Rops d t) = K1 d i t
    + (- K1 d i (ta t, tb t, d) + - K1 d i (tb t, tc t, d) + - K1 d i (tc t, ta t, d)).
Proof. unfold K1. dtri t; dvec d. di i; rsimp; field. Qed.
Lemma m2_shift d i j t :
  m2 Rops i j (tshift Rops d t) = K2 d i j t
    + (- K2 d i j (ta t, tb t, d) + - K2 d i j (tb t, tc t, d) + - K2 d i j (tc t, ta t, d)).
Proof. unfold K2. dtri t; dvec d. dij i j; rsimp; field. Qed.

Lemma K0_anti d a b : - K0 (a, b, d) = - - K0 (b, a, d).
Proof. unfold K0. dvec a; dvec b; dvec d. rsimp. field. Qed.
Lemma K1_anti d i a b : - K1 d i (a, b, d) = - - K1 d i (b, a, d).
Proof. unfold K1. dvec a; dvec b; dvec d. di i; rsimp; field. Qed.
Lemma K2_anti d i j a b : - K2 d i j (a, b, d) = - - K2 d i j (b, a, d).
Proof. unfold K2. dvec a; dvec b; dvec d. dij i j; rsimp; field. Qed.

Theorem cone0_shift d TT : closed TT -> cone0 Rops (map (tshift Rops d) TT) = cone0 Rops TT.
Proof.
  intros Hc. unfold cone0. rewrite !osum_Rsum, map_map.
  apply (flux_cone_sum K0 (fun t => m0 Rops (tshift Rops d t)) (fun a b => - K0 (a, b, d))); auto.
  - intros a b; apply K0_anti.
  - intros t; apply m0_shift.
Qed.

Theorem cone1_shift d i TT : closed TT ->
  cone1 Rops i (map (tshift Rops d) TT) = cone1 Rops i TT - vcomp i d * cone0 Rops TT.
Proof.
  intros Hc. unfold cone1, cone0. rewrite !osum_Rsum, map_map.
  rewrite (flux_cone_sum (K1 d i) (fun t => m1 Rops i (tshift Rops d t))
             (fun a b => - K1 d i (a, b, d))); auto.
  - unfold K1. rewrite Rsum_map_sub, Rsum_map_scale. reflexivity.
  - intros a b; apply K1_anti.
  - intros t; apply m1_shift.
Qed.

Theorem cone2_shift d i j TT : closed TT ->
  cone2 Rops i j (map (tshift Rops d) TT)
  = cone2 Rops i j TT - vcomp i d * cone1 Rops j TT - vcomp j d * cone1 Rops i TT
    + vcomp i d * vcomp j d * cone0 Rops TT.
Proof.
  intros Hc. unfold cone2, cone1, cone0. rewrite !osum_Rsum, map_map.
  rewrite (flux_cone_sum (K2 d i j) (fun t => m2 Rops i j (tshift Rops d t))
             (fun a b => - K2 d i j (a, b, d))); auto.
  - unfold K2. rewrite Rsum_map_add, !Rsum_map_sub, !Rsum_map_scale. reflexivity.
  - intros a b; apply K2_anti.
  - intros t; apply m2_shift.
Qed.

(* ---- the ConvexPolyhedron.inertia_tensor pipeline is exact ---- *)
Theorem inertia_code_exact vol c i j TT : (i < 3)%nat -> (j < 3)%nat ->
  closed TT -> vol = cone0 Rops TT -> vol <> 0 ->
  (forall k, vcomp k c = spec_centroid Rops k TT) ->
  inertia_code Rops vol c i j TT = spec_inertia Rops i j TT.
Proof.
  intros Hi Hj Hc Hv Hnz Hcen. unfold inertia_code.
  rewrite (inertia_raw_exact i j _ Hi Hj (closed_shift c TT Hc)).
  unfold spec_inertia, translate_entry.
  assert (H1 : forall k, cone1 Rops k TT = vcomp k c * vol).
  { intros k. rewrite (Hcen k). unfold spec_centroid. rewrite <- Hv. rsimp. field. auto. }
  rewrite !(cone2_shift c _ _ TT Hc). rewrite !H1, <- Hv.
  dvec c. destruct (Nat.eqb i j) eqn:E.
  - apply Nat.eqb_eq in E; subst j. di i; rsimp; ring.
  - dij i j; try discriminate E; rsimp; ring.
Qed.

