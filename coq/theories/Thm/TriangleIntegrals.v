(* Level 0 for C04: the per-edge terms of the shoelace sums are the integrals of 1, y^2, x^2, xy over the signed
   triangle (origin, a, b), parametrised (u,v) |-> u a + v b over the standard simplex with Jacobian J = a x b. *)
From Coq Require Import Reals Lra.
From mathcomp Require Import ssreflect.
From Coquelicot Require Import Coquelicot.
Require Import Cox.Thm.CurvedIntegrals.
Local Open Scope R_scope.

Definition tri_int (f : R -> R -> R) (ax ay bx by_ : R) : R :=
  (ax * by_ - ay * bx) * RInt (fun u => RInt (fun v => f (u * ax + v * bx) (u * ay + v * by_)) 0 (1 - u)) 0 1.

Lemma tri_one ax ay bx by_ : tri_int (fun _ _ => 1) ax ay bx by_ = (ax * by_ - ay * bx) / 2.
Proof.
  unfold tri_int. rewrite (RInt_ext _ (fun u => 1 - u)).
  2:{ intros u _. by_antiderivative (fun v : R => v) ltac:(idtac) ltac:(ring). }
  replace (RInt (fun u => 1 - u) 0 1) with (1 / 2); [field|].
  symmetry. by_antiderivative (fun u => u - u ^ 2 / 2) ltac:(field) ltac:(field).
Qed.

Lemma tri_sq p q J :
  J * RInt (fun u => RInt (fun v => (u * p + v * q) ^ 2) 0 (1 - u)) 0 1 = J * (p * p + p * q + q * q) / 12.
Proof.
  rewrite (RInt_ext _ (fun u => u^2*p^2*(1-u) + u*p*q*(1-u)^2 + q^2*(1-u)^3/3)).
  2:{ intros u _. by_antiderivative (fun v => u^2*p^2*v + u*p*q*v^2 + q^2*v^3/3) ltac:(field) ltac:(field). }
  replace (RInt _ 0 1) with ((p * p + p * q + q * q) / 12); [field|].
  symmetry.
  by_antiderivative (fun u => p^2*(u^3/3 - u^4/4) + p*q*(u^2/2 - 2*u^3/3 + u^4/4) - q^2*(1-u)^4/12) ltac:(field) ltac:(field).
Qed.

Lemma tri_xx ax ay bx by_ :
  tri_int (fun x _ => x ^ 2) ax ay bx by_ = (ax * by_ - ay * bx) * (ax * ax + ax * bx + bx * bx) / 12.
Proof. unfold tri_int. apply tri_sq. Qed.
Lemma tri_yy ax ay bx by_ :
  tri_int (fun _ y => y ^ 2) ax ay bx by_ = (ax * by_ - ay * bx) * (ay * ay + ay * by_ + by_ * by_) / 12.
Proof. unfold tri_int. apply tri_sq. Qed.

Lemma tri_xy ax ay bx by_ :
  tri_int (fun x y => x * y) ax ay bx by_
  = (ax * by_ - ay * bx) * (ax * by_ + 2 * (ax * ay + bx * by_) + bx * ay) / 24.
Proof.
  unfold tri_int.
  rewrite (RInt_ext _ (fun u => u^2*ax*ay*(1-u) + u*(ax*by_+bx*ay)*(1-u)^2/2 + bx*by_*(1-u)^3/3)).
  2:{ intros u _. by_antiderivative (fun v => u^2*ax*ay*v + u*(ax*by_+bx*ay)*v^2/2 + bx*by_*v^3/3) ltac:(field) ltac:(field). }
  replace (RInt _ 0 1) with ((ax * by_ + 2 * (ax * ay + bx * by_) + bx * ay) / 24); [field|].
  symmetry.
  by_antiderivative (fun u => ax*ay*(u^3/3 - u^4/4) + (ax*by_+bx*ay)/2*(u^2/2 - 2*u^3/3 + u^4/4) - bx*by_*(1-u)^4/12) ltac:(field) ltac:(field).
Qed.

(* first moments, for the centroid *)
Lemma tri_x ax ay bx by_ : tri_int (fun x _ => x) ax ay bx by_ = (ax * by_ - ay * bx) * (ax + bx) / 6.
Proof.
  unfold tri_int.
  rewrite (RInt_ext _ (fun u => u*ax*(1-u) + bx*(1-u)^2/2)).
  2:{ intros u _. by_antiderivative (fun v => u*ax*v + bx*v^2/2) ltac:(field) ltac:(field). }
  replace (RInt _ 0 1) with ((ax + bx) / 6); [field|].
  symmetry. by_antiderivative (fun u => ax*(u^2/2 - u^3/3) - bx*(1-u)^3/6) ltac:(field) ltac:(field).
Qed.
