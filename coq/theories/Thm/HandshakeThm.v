(* C07: the handshake count.  When every directed edge of a face list occurs exactly once and its reverse exactly once
   (manifold_edges, what the per-instance certificate checks), reversal is a bijection between the directed edges with
   i < j and those with i > j; with no degenerate edge (i = i) the number of undirected edges - the length of
   Polyhedron.edges - is therefore half the sum of the face sizes, for face lists of any size. *)
From Coq Require Import List Arith Lia Bool Permutation.
Require Import Cox.Geo.Vec Cox.Model.Structure Cox.Thm.StructureThm.
Import ListNotations.

Lemma count2_In e l : (0 < count2 e l)%nat <-> In e l.
Proof.
  unfold count2. induction l as [|a l IH]; simpl; [split; [lia|tauto]|].
  destruct (eqb2 e a) eqn:E; simpl.
  - apply eqb2_spec in E. subst a. split; [auto|lia].
  - rewrite IH. split; [auto|]. intros [->|H]; [|exact H]. exfalso. assert (eqb2 e e = true) by (apply eqb2_spec; reflexivity). congruence.
Qed.

Lemma count2_one_NoDup l : (forall e, In e l -> count2 e l = 1%nat) -> NoDup l.
Proof.
  induction l as [|a l IH]; intros H; constructor.
  - intros Hin. pose proof (H a (or_introl eq_refl)) as Ha. unfold count2 in Ha. simpl in Ha.
    assert (Eaa : eqb2 a a = true) by (apply eqb2_spec; reflexivity). rewrite Eaa in Ha. simpl in Ha.
    apply count2_In in Hin. unfold count2 in Hin. lia.
  - apply IH. intros e He. pose proof (H e (or_intror He)) as Hc. unfold count2 in *. simpl in Hc.
    destruct (eqb2 e a) eqn:E; simpl in Hc.
    + apply count2_In in He. unfold count2 in He. lia.
    + exact Hc.
Qed.

Definition ltb2 (e : nat * nat) : bool := Nat.ltb (fst e) (snd e).
Definition gtb2 (e : nat * nat) : bool := Nat.ltb (snd e) (fst e).

Theorem reversal_bijection E :
  (forall e, In e E -> count2 e E = 1%nat /\ count2 (rev2 e) E = 1%nat) ->
  Permutation (map rev2 (filter ltb2 E)) (filter gtb2 E).
Proof.
  intros H. assert (ND : NoDup E) by (apply count2_one_NoDup; intros e He; apply H; exact He).
  apply NoDup_Permutation.
  - apply FinFun.Injective_map_NoDup; [|apply NoDup_filter; exact ND].
    intros x y Hxy. rewrite <- (rev2_invol x), <- (rev2_invol y), Hxy. reflexivity.
  - apply NoDup_filter; exact ND.
  - intros e. rewrite in_map_iff, filter_In. split.
    + intros [x [Hx Hin]]. apply filter_In in Hin. destruct Hin as [Hin Hlt]. subst e. split.
      * apply count2_In. destruct (H x Hin) as [_ Hr]. lia.
      * unfold gtb2, ltb2, rev2 in *. simpl. exact Hlt.
    + intros [Hin Hgt]. exists (rev2 e). split; [apply rev2_invol|]. apply filter_In. split.
      * apply count2_In. destruct (H e Hin) as [_ Hr]. lia.
      * unfold gtb2, ltb2, rev2 in *. simpl. exact Hgt.
Qed.

Lemma filter_three_way (E : list (nat * nat)) :
  length E = (length (filter ltb2 E) + length (filter gtb2 E) + length (filter (fun e => Nat.eqb (fst e) (snd e)) E))%nat.
Proof.
  induction E as [|[a b] E IH]; simpl; [reflexivity|]. unfold ltb2, gtb2 in *; simpl.
  destruct (Nat.ltb_spec a b), (Nat.ltb_spec b a), (Nat.eqb_spec a b); simpl; lia.
Qed.

Lemma manifold_edges_spec F : manifold_edges F = true ->
  forall e, In e (dedges_all F) -> count2 e (dedges_all F) = 1%nat /\ count2 (rev2 e) (dedges_all F) = 1%nat.
Proof.
  unfold manifold_edges. intros H e He. rewrite forallb_forall in H. specialize (H e He).
  apply andb_prop in H. destruct H as [H1 H2]. apply Nat.eqb_eq in H1. apply Nat.eqb_eq in H2. auto.
Qed.

Theorem handshake F :
  manifold_edges F = true -> (forall e, In e (dedges_all F) -> fst e <> snd e) ->
  (2 * length (edges_lt F) = length (dedges_all F))%nat.
Proof.
  intros HM Hloop. set (E := dedges_all F) in *.
  pose proof (reversal_bijection E (manifold_edges_spec F HM)) as P.
  apply Permutation_length in P. rewrite map_length in P.
  pose proof (filter_three_way E) as T3.
  assert (Z0 : length (filter (fun e => Nat.eqb (fst e) (snd e)) E) = 0%nat).
  { destruct (filter (fun e => Nat.eqb (fst e) (snd e)) E) as [|x l] eqn:Ef; [reflexivity|].
    assert (Hx : In x (filter (fun e => Nat.eqb (fst e) (snd e)) E)) by (rewrite Ef; left; reflexivity).
    apply filter_In in Hx. destruct Hx as [Hin Heq]. apply Nat.eqb_eq in Heq. exfalso. exact (Hloop x Hin Heq). }
  assert (EL : length (edges_lt F) = length (filter ltb2 E)) by reflexivity.
  rewrite EL, T3, Z0, <- P. generalize (length (filter ltb2 E)). intros n. lia.
Qed.

(* the number of directed edges is the sum of the face sizes *)
Lemma cpairs_length {A} (l : list A) : length (cpairs l) = length l.
Proof. unfold cpairs. rewrite combine_length. unfold roll. destruct l as [|a l]; [reflexivity|]. rewrite app_length. cbn [length]. rewrite Nat.add_1_r, Nat.min_id. reflexivity. Qed.
Theorem dedges_count F : length (dedges_all F) = list_sum (map (@length nat) F).
Proof.
  unfold dedges_all. induction F as [|f F IH]; simpl; [reflexivity|].
  rewrite app_length, IH. unfold dedges_face. rewrite cpairs_length. reflexivity.
Qed.
