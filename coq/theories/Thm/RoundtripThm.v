From Coq Require Import List Bool Arith.
Require Import Cox.Model.Roundtrip.

Section Thm.
  Variables (num geo faces : Type) (conv : geo -> bool) (reorder : geo -> geo) (twice half : num -> num).
  Hypothesis half_twice : forall x, half (twice x) = x.
  Notation shape := (shape num geo faces).

  Theorem gsd_roundtrip (s : shape) :
    wf num geo faces conv reorder s ->
    from_gsd num geo faces conv reorder half (gsd_spec num geo faces twice s) (dim num geo faces s)
    = Some (expected num geo faces conv reorder s).
  Proof.
    destruct s; simpl; intros H; rewrite ?half_twice; auto.
    - destruct H as [Hc Hr]. rewrite Hc, Hr. reflexivity.
    - destruct H as [Hc Hr]. rewrite Hc, Hr. reflexivity.
    - rewrite H. reflexivity.
    - rewrite H. reflexivity.
  Qed.

  Theorem gsd_bad_type_raises dims :
    from_gsd num geo faces conv reorder half (SMissing num geo faces) dims = None
    /\ from_gsd num geo faces conv reorder half (SUnknown num geo faces) dims = None.
  Proof. split; reflexivity. Qed.
End Thm.

(* the executable class dispatch agrees with the round trip on every class *)
Theorem dispatch_roundtrip_class (k : cls) :
  let ts := spec_type k in
  forall convex, (needs_convex k = true -> convex = true) ->
    exists k', dispatch_class (fst ts) (snd ts) (dims_of k) convex = Some k' /\ same_or_sub k k' = true.
Proof.
  destruct k; simpl; intros convex H; try (specialize (H eq_refl); subst convex); simpl;
    try (eexists; split; [reflexivity | reflexivity]); destruct convex; eexists; split; reflexivity.
Qed.
