(* Paramcoq transfer for the containment models: the boolean computed by the
   executable Q-model equals the R-model's boolean on the embedded input. *)
From Coq Require Import QArith Qreals Reals Bool List ZArith.
From Param Require Import Param.
Require Import Cox.Num.Ops Cox.Num.Transfer Cox.Geo.Vec Cox.Model.Mesh Cox.Model.Inside Cox.Thm.MeshTransfer.
Import ListNotations.

Parametricity Recursive inside_polygon.
Parametricity Recursive crossing_parity.
Parametricity Recursive inside_halfspaces.
Parametricity Recursive inside_polyhedron.
Parametricity Recursive cover.
Parametricity Recursive inside_ellipsoid.
Parametricity Recursive inside_ellipse.
Parametricity Recursive inside_ellipse_box.

Lemma vec2_R_QR (v : vec2 Q) : vec2_R Q R QR v (Q2R2 v).
Proof. apply prod_R_QR2. Qed.
Lemma vecs2_R_QR (V : list (vec2 Q)) : list_R _ _ (vec2_R Q R QR) V (map Q2R2 V).
Proof. induction V; simpl; constructor; auto using vec2_R_QR. Qed.

Theorem inside_polygon_transfer p V :
  inside_polygon Qops p V = inside_polygon Rops (Q2R2 p) (map Q2R2 V).
Proof.
  apply bool_R_eq.
  exact (inside_polygon_R Q R QR Qops Rops ops_rel p _ (vec2_R_QR p) V _ (vecs2_R_QR V)).
Qed.
Theorem crossing_parity_transfer p V :
  crossing_parity Qops p V = crossing_parity Rops (Q2R2 p) (map Q2R2 V).
Proof.
  apply bool_R_eq.
  exact (crossing_parity_R Q R QR Qops Rops ops_rel p _ (vec2_R_QR p) V _ (vecs2_R_QR V)).
Qed.
Theorem inside_halfspaces_transfer V F p :
  inside_halfspaces Qops V F p = inside_halfspaces Rops (map Q2R3 V) F (Q2R3 p).
Proof.
  apply bool_R_eq.
  exact (inside_halfspaces_R Q R QR Qops Rops ops_rel V _ (vecs_R_QR V) F F (list_list_nat_R_refl F)
           p _ (vec3_R_QR p)).
Qed.
Theorem inside_polyhedron_transfer p TT :
  inside_polyhedron Qops p TT = inside_polyhedron Rops (Q2R3 p) (map Q2Rt TT).
Proof.
  apply bool_R_eq.
  exact (inside_polyhedron_R Q R QR Qops Rops ops_rel p _ (vec3_R_QR p) TT _ (tris_R_QR TT)).
Qed.
Theorem cover_transfer o p TT :
  cover Qops o p TT = cover Rops (Q2R3 o) (Q2R3 p) (map Q2Rt TT).
Proof.
  apply Z_R_eq.
  exact (cover_R Q R QR Qops Rops ops_rel o _ (vec3_R_QR o) p _ (vec3_R_QR p) TT _ (tris_R_QR TT)).
Qed.
Theorem inside_ellipsoid_transfer c s p :
  inside_ellipsoid Qops c s p = inside_ellipsoid Rops (Q2R3 c) (Q2R3 s) (Q2R3 p).
Proof.
  apply bool_R_eq.
  exact (inside_ellipsoid_R Q R QR Qops Rops ops_rel c _ (vec3_R_QR c) s _ (vec3_R_QR s) p _ (vec3_R_QR p)).
Qed.
