(* Theorems about the Polyhedron (general closed mesh) code: Eberly centroid and
   Kallay inertia (C02). *)
From Coq Require Import Reals List Permutation Lra Lia ZArith.
Require Import Cox.Num.Ops Cox.Geo.Vec Cox.Geo.Sums Cox.Model.Mesh Cox.Thm.MeshThm.
Import ListNotations.
Local Open Scope R_scope.

(* ---- Polyhedron (general mesh) code ---- *)
(* Eberly: volume accumulator = 6 V, centre accumulator = 24 * first moment *)
Definition eflux0 (t : triR) : R := / 6 * (vcomp 0 (tnormal Rops t) * ef1 Rops 0 t).
Definition eflux1 (i : nat) (t : triR) : R := / 24 * (vcomp i (tnormal Rops t) * ef2 Rops i t).

Lemma eflux0_identity t :
  m0 Rops t = eflux0 t + (eflux0 (O3, tb t, ta t) + eflux0 (O3, tc t, tb t) + eflux0 (O3, ta t, tc t)).
Proof. unfold eflux0, O3. dtri t. rsimp; field. Qed.
Lemma eflux0_anti a b : eflux0 (O3, b, a) = - eflux0 (O3, a, b).
Proof. unfold eflux0, O3. dvec a; dvec b. rsimp; field. Qed.
Lemma eflux1_identity i t :
  m1 Rops i t = eflux1 i t
    + (eflux1 i (O3, tb t, ta t) + eflux1 i (O3, tc t, tb t) + eflux1 i (O3, ta t, tc t)).
Proof. unfold eflux1, O3. dtri t. di i; rsimp; field. Qed.
Lemma eflux1_anti i a b : eflux1 i (O3, b, a) = - eflux1 i (O3, a, b).
Proof. unfold eflux1, O3. dvec a; dvec b. di i; rsimp; field. Qed.

Lemma eberly_vol_exact TT : closed TT -> eberly_vol Rops TT = 6 * cone0 Rops TT.
Proof.
  intros Hc. unfold eberly_vol, cone0. rewrite !osum_Rsum.
  rewrite (flux_cone_sum eflux0 (m0 Rops) (fun a b => eflux0 (O3, b, a))); auto.
  - unfold eflux0. rewrite Rsum_map_scale. cbn [omul Rops]. field.
  - intros a b; apply eflux0_anti.
  - intros t; apply eflux0_identity.
Qed.
Lemma eberly_center_exact i TT : closed TT -> eberly_center Rops i TT = 24 * cone1 Rops i TT.
Proof.
  intros Hc. unfold eberly_center, cone1. rewrite !osum_Rsum.
  rewrite (flux_cone_sum (eflux1 i) (m1 Rops i) (fun a b => eflux1 i (O3, b, a))); auto.
  - unfold eflux1. rewrite Rsum_map_scale. cbn [omul Rops]. field.
  - intros a b; apply eflux1_anti.
  - intros t; apply eflux1_identity.
Qed.

Theorem eberly_centroid_exact i TT :
  closed TT -> cone0 Rops TT <> 0 ->
  eberly_centroid Rops i TT = spec_centroid Rops i TT.
Proof.
  intros Hc Hnz. unfold eberly_centroid, spec_centroid.
  rewrite (eberly_vol_exact TT Hc), (eberly_center_exact i TT Hc). rsimp. field. auto.
Qed.

(* Kallay: with SIGNED tetrahedron volumes the rule is exactly the cone moment *)
Lemma kallay_signed_term i j t : (i < 3)%nat -> (j < 3)%nat ->
  kallay_term Rops false i j t =
  (if Nat.eqb i j
   then m2 Rops 0 0 t + m2 Rops 1 1 t + m2 Rops 2 2 t - m2 Rops i i t
   else - m2 Rops i j t).
Proof.
  intros Hi Hj. dtri t.
  dij3 i j; unfold kallay_term, kallay_f; cbn [Nat.eqb]; rsimp; field.
Qed.

Theorem kallay_signed_exact i j TT : (i < 3)%nat -> (j < 3)%nat ->
  kallay_raw Rops false i j TT = spec_inertia Rops i j TT.
Proof.
  intros Hi Hj.
  unfold kallay_raw, spec_inertia, cone2. rewrite !osum_Rsum.
  rewrite (Rsum_map_ext _ _ TT (fun t _ => kallay_signed_term i j t Hi Hj)).
  destruct (Nat.eqb i j).
  - rewrite Rsum_map_sub, !Rsum_map_add. reflexivity.
  - rewrite Rsum_map_opp. reflexivity.
Qed.

(* with |det| the rule is exact only if every centred tetrahedron is non-negatively
   oriented (solid star-shaped about the reference point) *)
Theorem kallay_abs_star_shaped_partial i j TT :
  (forall t, In t TT -> 0 <= tdet Rops t) ->
  kallay_raw Rops true i j TT = kallay_raw Rops false i j TT.
Proof.
  intros Hpos. unfold kallay_raw. rewrite !osum_Rsum. apply Rsum_map_ext. intros t Ht.
  unfold kallay_term, oabs. cbn [oltb Rops o0 oopp].
  destruct (Rltb (tdet Rops t) 0) eqn:E; auto.
  apply Rltb_true in E. specialize (Hpos t Ht). lra.
Qed.

Theorem kallay_inertia_signed_exact vol c i j TT : (i < 3)%nat -> (j < 3)%nat ->
  closed TT -> vol = cone0 Rops TT -> vol <> 0 ->
  (forall k, vcomp k c = spec_centroid Rops k TT) ->
  kallay_inertia Rops false vol c i j TT = spec_inertia Rops i j TT.
Proof.
  intros Hi Hj Hc Hv Hnz Hcen. unfold kallay_inertia.
  rewrite (kallay_signed_exact i j _ Hi Hj).
  unfold spec_inertia, translate_entry.
  assert (H1 : forall k, cone1 Rops k TT = vcomp k c * vol).
  { intros k. rewrite (Hcen k). unfold spec_centroid. rewrite <- Hv. rsimp. field. auto. }
  rewrite !(cone2_shift c _ _ TT Hc). rewrite !H1, <- Hv.
  dvec c. destruct (Nat.eqb i j) eqn:E.
  - apply Nat.eqb_eq in E; subst j. di i; rsimp; ring.
  - dij i j; try discriminate E; rsimp; ring.
Qed.
