(* C12: polygons of any size in the xy-plane: the code's edge sum equals the sum over the fan triangles (v0, v_i, v_i+1) of the
   Fourier integrals of their (signed) indicators, for every in-plane q that is generic for each fan triangle. *)
From Coq Require Import Reals List Lra.
From Coquelicot Require Import Coquelicot.
Require Import Cox.Num.Ops Cox.Geo.Vec Cox.Model.FormFactor Cox.Thm.FormFactorThm Cox.Thm.FormFactorIntegral Cox.Thm.TriangleFF.
Import ListNotations.
Local Open Scope R_scope.

Definition P2 := (R * R)%type.
Definition emb (p : P2) : vec3 R := (fst p, snd p, 0).

(* J * intint exp(-i q.r) over the triangle (a,b,c), as (real, imaginary) *)
Definition tri_fourier (q a b c : P2) : Cx :=
  let A := fst q * fst a + snd q * snd a in
  let be := fst q * (fst b - fst a) + snd q * (snd b - snd a) in
  let ga := fst q * (fst c - fst a) + snd q * (snd c - snd a) in
  let J := (fst b - fst a) * (snd c - snd a) - (snd b - snd a) * (fst c - fst a) in
  (J * RInt (fun u => RInt (fun v => cos (A + u * be + v * ga)) 0 (1 - u)) 0 1,
   - (J * RInt (fun u => RInt (fun v => sin (A + u * be + v * ga)) 0 (1 - u)) 0 1)).

Definition generic_tri (q a b c : P2) : Prop :=
  let be := fst q * (fst b - fst a) + snd q * (snd b - snd a) in
  let ga := fst q * (fst c - fst a) + snd q * (snd c - snd a) in
  be <> 0 /\ ga <> 0 /\ be <> ga.

Fixpoint fan_fourier (q a b : P2) (l : list P2) : Cx :=
  match l with [] => (0, 0) | c :: r => cadd (tri_fourier q a b c) (fan_fourier q a c r) end.
Fixpoint generic_fan (q a b : P2) (l : list P2) : Prop :=
  match l with [] => True | c :: r => generic_tri q a b c /\ generic_fan q a c r end.

Lemma triangle_case q a b c : generic_tri q a b c ->
  polygon_ff (0, 0, 1) (emb q) [emb a; emb b; emb c] = tri_fourier q a b c.
Proof.
  intros [H1 [H2 H3]]. destruct q as [q1 q2], a as [a1 a2], b as [b1 b2], c as [c1 c2].
  unfold emb, tri_fourier. cbn [fst snd] in *.
  exact (triangle_ff_is_fourier a1 a2 b1 b2 c1 c2 q1 q2 H1 H2 H3).
Qed.

Theorem polygon_ff_is_fan_of_fourier_integrals q a b l : generic_fan q a b l ->
  polygon_ff (0, 0, 1) (emb q) (map emb (a :: b :: l)) = fan_fourier q a b l.
Proof.
  cbn [map]. rewrite ff_is_fan. revert b.
  induction l as [|c r IH]; intros b H; cbn [map ff_fan fan_fourier]; [reflexivity|].
  destruct H as [Ht Hr]. rewrite (triangle_case q a b c Ht), (IH c Hr). reflexivity.
Qed.
