(* C14: the radial distance to the boundary of a convex region given by half-planes, for regions with ANY number of
   edges, and the ray / rounded-corner intersection used by spheropolygons. *)
From Coq Require Import Reals List Lra Lia Psatz.
Require Import Cox.Num.Ops Cox.Geo.Vec.
Import ListNotations.
Local Open Scope R_scope.

(* a half-plane  n . x <= c  with the centre (origin) strictly inside: c > 0; stored as (n . u, c) for a fixed direction u *)
Definition hp := (R * R)%type.      (* (m, c): m = n . u, c > 0 *)

(* the ray t u leaves the half-plane at t = c / m when m > 0 and never when m <= 0 *)
Fixpoint exit_t (H : list hp) : option R :=
  match H with
  | [] => None
  | (m, c) :: r =>
      match exit_t r with
      | None => if Rlt_dec 0 m then Some (c / m) else None
      | Some t => if Rlt_dec 0 m then Some (Rmin (c / m) t) else Some t
      end
  end.

Definition all_pos (H : list hp) : Prop := forall h, In h H -> 0 < snd h.

Lemma exit_none_nonpos r : exit_t r = None -> forall h, In h r -> fst h <= 0.
Proof.
  induction r as [|[m c] r IH]; intros E h Hin; [destruct Hin|].
  cbn [exit_t] in E. destruct (exit_t r) eqn:Er; [destruct (Rlt_dec 0 m); discriminate|].
  destruct (Rlt_dec 0 m) as [Hm|Hm]; [discriminate|].
  destruct Hin as [<-|Hin]; cbn [fst]; [lra|]. apply IH; auto.
Qed.

(* every point t u with 0 <= t <= exit_t satisfies every constraint: the segment lies in the region *)
Theorem ray_inside_until_exit H t s : all_pos H -> exit_t H = Some t -> 0 <= s <= t ->
  forall h, In h H -> fst h * s <= snd h.
Proof.
  revert t. induction H as [|[m c] r IH]; intros t Hp E Hs h Hin; [destruct Hin|].
  assert (Hc : 0 < c) by (apply (Hp (m, c)); left; reflexivity).
  assert (Hpr : all_pos r) by (intros x Hx; apply Hp; right; exact Hx).
  cbn [exit_t] in E.
  destruct (exit_t r) as [t'|] eqn:Er.
  - destruct (Rlt_dec 0 m) as [Hm|Hm]; inversion E; subst t; clear E.
    + destruct Hin as [<-|Hin]; cbn [fst snd].
      * assert (s <= c / m) by (pose proof (Rmin_l (c / m) t'); lra).
        assert (m * s <= m * (c / m)) by (apply Rmult_le_compat_l; lra).
        replace (m * (c / m)) with c in * by (field; lra). lra.
      * apply (IH t' Hpr eq_refl); [|exact Hin]. pose proof (Rmin_r (c / m) t'). lra.
    + destruct Hin as [<-|Hin]; cbn [fst snd].
      * assert (m * s <= 0) by (destruct Hs; nra). lra.
      * apply (IH t' Hpr eq_refl Hs); exact Hin.
  - destruct (Rlt_dec 0 m) as [Hm|Hm]; inversion E; subst t; clear E.
    destruct Hin as [<-|Hin]; cbn [fst snd].
    + assert (m * s <= m * (c / m)) by (apply Rmult_le_compat_l; lra).
      replace (m * (c / m)) with c in * by (field; lra). lra.
    + (* no constraint of r ever binds: m' <= 0 for all of them *)
      pose proof (exit_none_nonpos r Er h Hin) as Hm'. assert (0 < snd h) by (apply Hpr; exact Hin).
      assert (fst h * s <= 0) by (destruct Hs; nra). lra.
Qed.

(* ... and at t = exit_t one constraint is tight: the point is ON the boundary *)
Theorem ray_exit_is_tight H t : all_pos H -> exit_t H = Some t ->
  0 < t /\ exists h, In h H /\ fst h * t = snd h.
Proof.
  revert t. induction H as [|[m c] r IH]; intros t Hp E; [discriminate|].
  assert (Hc : 0 < c) by (apply (Hp (m, c)); left; reflexivity).
  assert (Hpr : all_pos r) by (intros x Hx; apply Hp; right; exact Hx).
  cbn [exit_t] in E.
  destruct (exit_t r) as [t'|] eqn:Er.
  - destruct (IH t' Hpr eq_refl) as [Ht' [h [Hh Eh]]].
    destruct (Rlt_dec 0 m) as [Hm|Hm]; inversion E; subst t; clear E.
    + assert (Hq : 0 < c / m) by (apply Rdiv_lt_0_compat; lra).
      unfold Rmin. destruct (Rle_dec (c / m) t') as [Hle|Hle].
      * split; [exact Hq|]. exists (m, c). split; [left; reflexivity|]. cbn [fst snd]. field. lra.
      * split; [exact Ht'|]. exists h. split; [right; exact Hh|exact Eh].
    + split; [exact Ht'|]. exists h. split; [right; exact Hh|exact Eh].
  - destruct (Rlt_dec 0 m) as [Hm|Hm]; inversion E; subst t; clear E.
    split; [apply Rdiv_lt_0_compat; lra|]. exists (m, c). split; [left; reflexivity|]. cbn [fst snd]. field. lra.
Qed.

(* a bounded region is left in every direction: if some constraint has m > 0 the exit exists *)
Theorem ray_exit_exists H : (exists h, In h H /\ 0 < fst h) -> exists t, exit_t H = Some t.
Proof.
  induction H as [|[m c] r IH]; intros [h [Hin Hm]]; [destruct Hin|].
  cbn [exit_t]. destruct Hin as [<-|Hin]; cbn [fst] in *.
  - destruct (exit_t r); destruct (Rlt_dec 0 m); try lra; eexists; reflexivity.
  - destruct (IH (ex_intro _ h (conj Hin Hm))) as [t' ->]. destruct (Rlt_dec 0 m); eexists; reflexivity.
Qed.

(* ---- rounded corner: the ray t u (|u| = 1) meets the circle of radius r about v at
        t = u.v + sqrt(r^2 - (u x v)^2), the far intersection ---- *)
Theorem ray_circle_hit (ux uy vx vy r : R) :
  ux * ux + uy * uy = 1 -> (ux * vy - uy * vx) ^ 2 <= r ^ 2 ->
  let t := ux * vx + uy * vy + sqrt (r ^ 2 - (ux * vy - uy * vx) ^ 2) in
  (t * ux - vx) ^ 2 + (t * uy - vy) ^ 2 = r ^ 2
  /\ forall t', (t' * ux - vx) ^ 2 + (t' * uy - vy) ^ 2 = r ^ 2 -> t' <= t.
Proof.
  intros Hu Hd t. set (D := r ^ 2 - (ux * vy - uy * vx) ^ 2) in *.
  assert (HD : 0 <= D) by (unfold D; lra).
  assert (Hs : sqrt D * sqrt D = D) by (apply sqrt_sqrt; exact HD).
  assert (Hs0 : 0 <= sqrt D) by apply sqrt_pos.
  set (p := ux * vx + uy * vy) in *.
  assert (Key : forall x, (x * ux - vx) ^ 2 + (x * uy - vy) ^ 2 = (x - p) ^ 2 + (ux * vy - uy * vx) ^ 2).
  { intros x. unfold p.
    replace ((x * ux - vx) ^ 2 + (x * uy - vy) ^ 2) with (x ^ 2 * (ux * ux + uy * uy) - 2 * x * (ux * vx + uy * vy) + (vx ^ 2 + vy ^ 2)) by ring.
    rewrite Hu.
    replace (vx ^ 2 + vy ^ 2) with ((ux * ux + uy * uy) * (vx ^ 2 + vy ^ 2)) by (rewrite Hu; ring). ring. }
  split.
  - rewrite Key. unfold t. replace (p + sqrt D - p) with (sqrt D) by ring. simpl pow at 1. rewrite Rmult_1_r, Hs. unfold D. ring.
  - intros t' H'. rewrite Key in H'. assert (E : (t' - p) ^ 2 = D) by (unfold D; lra).
    unfold t. destruct (Rle_or_lt (t' - p) (sqrt D)) as [L|L]; [lra|]. exfalso.
    assert (sqrt D * sqrt D < (t' - p) * (t' - p)) by nra. simpl pow in E. nra.
Qed.
