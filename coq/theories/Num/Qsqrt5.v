(* The field Q(sqrt 5) as pairs a + b*sqrt5 over Q, with exact sign and an Ops instance
   (used for the icosahedral truncation family 523, whose plane normals involve the golden ratio). *)
From Coq Require Import ZArith QArith Bool.
Require Import Cox.Num.Ops.

Record sq5 := mk5 { ra : Q; rb : Q }.   (* ra + rb * sqrt 5 *)

Definition s5_zero := mk5 0 0.
Definition s5_one := mk5 1 0.
Definition s5_add (x y : sq5) := mk5 (Qred (ra x + ra y)) (Qred (rb x + rb y)).
Definition s5_sub (x y : sq5) := mk5 (Qred (ra x - ra y)) (Qred (rb x - rb y)).
Definition s5_opp (x : sq5) := mk5 (- ra x) (- rb x).
Definition s5_mul (x y : sq5) :=
  mk5 (Qred (ra x * ra y + 5 * (rb x * rb y))) (Qred (ra x * rb y + rb x * ra y)).
(* 1/(a + b r) = (a - b r)/(a^2 - 5 b^2);  a^2 = 5 b^2 only for a = b = 0 (then the result is 0, as in Q) *)
Definition s5_inv (x : sq5) :=
  let n := Qred (ra x * ra x - 5 * (rb x * rb x)) in
  mk5 (Qred (ra x / n)) (Qred (- rb x / n)).
Definition s5_div (x y : sq5) := s5_mul x (s5_inv y).

Definition qsgn (q : Q) : Z := Z.sgn (Qnum q).
(* sign of a + b sqrt5 *)
Definition s5_sgn (x : sq5) : Z :=
  let sa := qsgn (ra x) in let sb := qsgn (rb x) in
  if Z.eqb sb 0 then sa
  else if Z.eqb sa 0 then sb
  else if Z.eqb sa sb then sa
  else (* opposite signs: compare a^2 with 5 b^2 *)
    let d := qsgn (Qred (ra x * ra x - 5 * (rb x * rb x))) in
    (sa * d)%Z.   (* a>0,b<0: sign = sign(a^2 - 5b^2); a<0,b>0: sign = -sign(a^2-5b^2) = sa*d *)
Definition s5_leb (x y : sq5) : bool := Z.leb (s5_sgn (s5_sub x y)) 0.
Definition s5_ltb (x y : sq5) : bool := Z.ltb (s5_sgn (s5_sub x y)) 0.
Definition s5_eqb (x y : sq5) : bool := Z.eqb (s5_sgn (s5_sub x y)) 0.

Definition S5ops : Ops sq5 := {|
  o0 := s5_zero; o1 := s5_one;
  oadd := s5_add; omul := s5_mul; osub := s5_sub; oopp := s5_opp; odiv := s5_div;
  oleb := s5_leb; oltb := s5_ltb; oeqb := s5_eqb;
  ofromZ := fun z => mk5 (inject_Z z) 0
|}.

Definition s5_of_Q (q : Q) : sq5 := mk5 q 0.
(* golden ratio S = (1 + sqrt5)/2, s = 1/S = (sqrt5 - 1)/2, S^2 = (3 + sqrt5)/2 *)
Definition s5_S := mk5 (1#2) (1#2).
Definition s5_s := mk5 (-1#2) (1#2).
Definition s5_S2 := mk5 (3#2) (1#2).

Example s5_checks :
  s5_eqb (s5_mul s5_S s5_s) s5_one = true /\ s5_eqb (s5_mul s5_S s5_S) s5_S2 = true
  /\ s5_ltb s5_s s5_one = true /\ s5_ltb s5_one s5_S = true
  /\ s5_eqb (s5_div s5_one s5_S) s5_s = true.
Proof. vm_compute. repeat split; reflexivity. Qed.
