(* Q -> R transfer by parametricity (Paramcoq).  For a model function f written
   over [Ops T], [Parametricity Recursive f] yields f_R; instantiated with the
   relation QR q r := Q2R q = r and [ops_rel] below it says that the rational the
   executable model computes, read as a real, IS the value of the R-model on the
   embedded input.  Paramcoq only generates terms; the kernel checks them. *)
From Coq Require Import QArith Qreals Reals Bool List Lra.
From Param Require Import Param.
Require Import Cox.Num.Ops.
Import ListNotations.

Parametricity Recursive Ops.
Parametricity Recursive nat.
Parametricity Recursive list.
Parametricity Recursive prod.
Parametricity Recursive option.
Parametricity Recursive Z.
(* Z/positive functions used by integer-valued model functions (winding numbers):
   translated once here, with qualified names (Pos.eqb / Z.eqb etc. would clash) *)
Parametricity Recursive Z.eqb qualified.
Parametricity Recursive Z.add qualified.
Parametricity Recursive Z.sub qualified.
Parametricity Recursive Z.opp qualified.
Parametricity Recursive Z.div qualified.
Parametricity Recursive Z.of_nat qualified.
Parametricity Recursive xorb.
Parametricity Recursive negb.
Parametricity Recursive andb.
Parametricity Recursive orb.

Definition QR (q : Q) (r : R) : Type := Q2R q = r.

Lemma Q2R_Qred q : Q2R (Qred q) = Q2R q.
Proof. apply Qeq_eqR, Qred_correct. Qed.

Lemma bool_R_of_eq (a b : bool) : a = b -> bool_R a b.
Proof. intros ->; destruct b; constructor. Qed.
Lemma bool_R_eq (a b : bool) : bool_R a b -> a = b.
Proof. destruct 1; reflexivity. Qed.

Lemma Q2R_div_total a b : Q2R (a / b) = (Q2R a / Q2R b)%R.
Proof.
  destruct (Qeq_dec b 0) as [Hb|Hb].
  - assert (Hb' : Q2R b = 0%R) by (rewrite (Qeq_eqR _ _ Hb); apply RMicromega.Q2R_0).
    rewrite Hb'. unfold Rdiv. rewrite Rinv_0, Rmult_0_r.
    assert (Hq : (a / b == 0)%Q).
    { unfold Qdiv. rewrite Hb. unfold Qinv; simpl. ring. }
    rewrite (Qeq_eqR _ _ Hq). apply RMicromega.Q2R_0.
  - unfold Qdiv, Rdiv. rewrite Q2R_mult, Q2R_inv; auto.
Qed.

Lemma Qle_bool_Rleb a b : Qle_bool a b = Rleb (Q2R a) (Q2R b).
Proof.
  unfold Rleb. destruct (Rle_dec (Q2R a) (Q2R b)) as [H|H].
  - apply Qle_bool_iff, Rle_Qle, H.
  - destruct (Qle_bool a b) eqn:E; auto. exfalso; apply H, Qle_Rle, Qle_bool_iff, E.
Qed.
Lemma Qltb_Rltb a b : Qltb a b = Rltb (Q2R a) (Q2R b).
Proof.
  unfold Qltb, Rltb. rewrite Qle_bool_Rleb. unfold Rleb.
  destruct (Rle_dec (Q2R b) (Q2R a)), (Rlt_dec (Q2R a) (Q2R b)); simpl; auto; exfalso; lra.
Qed.
Lemma Qeq_bool_Reqb a b : Qeq_bool a b = Reqb (Q2R a) (Q2R b).
Proof.
  unfold Reqb. destruct (Req_EM_T (Q2R a) (Q2R b)) as [H|H].
  - apply Qeq_bool_iff, eqR_Qeq, H.
  - destruct (Qeq_bool a b) eqn:E; auto. exfalso; apply H, Qeq_eqR, Qeq_bool_iff, E.
Qed.

Lemma positive_R_eq p q : positive_R p q -> p = q.
Proof. induction 1; congruence. Qed.
Lemma Z_R_eq z z' : Z_R z z' -> z = z'.
Proof. destruct 1 as [|p q H|p q H]; auto; rewrite (positive_R_eq _ _ H); auto. Qed.
Lemma positive_R_refl p : positive_R p p.
Proof. induction p; constructor; auto. Qed.
Lemma Z_R_refl z : Z_R z z.
Proof. destruct z; constructor; apply positive_R_refl. Qed.
Lemma Q2R_inject_Z z : Q2R (inject_Z z) = IZR z.
Proof. unfold Q2R, inject_Z; simpl. field. Qed.

Lemma ops_rel : Ops_R Q R QR Qops Rops.
Proof.
  unfold Qops, Rops, QR. constructor.
  - apply RMicromega.Q2R_0.
  - apply RMicromega.Q2R_1.
  - intros a a' Ha b b' Hb. rewrite Q2R_Qred, Q2R_plus; congruence.
  - intros a a' Ha b b' Hb. rewrite Q2R_Qred, Q2R_mult; congruence.
  - intros a a' Ha b b' Hb. rewrite Q2R_Qred, Q2R_minus; congruence.
  - intros a a' Ha. rewrite Q2R_opp; congruence.
  - intros a a' Ha b b' Hb. rewrite Q2R_Qred, Q2R_div_total; congruence.
  - intros a a' Ha b b' Hb. apply bool_R_of_eq. rewrite Qle_bool_Rleb; congruence.
  - intros a a' Ha b b' Hb. apply bool_R_of_eq. rewrite Qltb_Rltb; congruence.
  - intros a a' Ha b b' Hb. apply bool_R_of_eq. rewrite Qeq_bool_Reqb; congruence.
  - intros z z' Hz. rewrite (Z_R_eq _ _ Hz). apply Q2R_inject_Z.
Qed.

(* ---- reading relational results back as equalities ---- *)
Lemma nat_R_refl (n : nat) : nat_R n n.
Proof. induction n; constructor; auto. Qed.
Lemma nat_R_eq n m : nat_R n m -> n = m.
Proof. induction 1; congruence. Qed.

Lemma list_R_refl_nat (l : list nat) : list_R nat nat nat_R l l.
Proof. induction l; constructor; auto using nat_R_refl. Qed.

Lemma list_R_QR_map (l : list Q) : list_R Q R QR l (map Q2R l).
Proof. induction l; simpl; constructor; auto. reflexivity. Qed.
Lemma list_R_QR_eq (l : list Q) (l' : list R) : list_R Q R QR l l' -> map Q2R l = l'.
Proof. induction 1 as [|a a' Ha l l' Hl IH]; simpl; auto. unfold QR in Ha. congruence. Qed.

Definition Q2R3 (v : Q * Q * Q) : R * R * R :=
  let '(x, y, z) := v in (Q2R x, Q2R y, Q2R z).
Definition Q2R2 (v : Q * Q) : R * R := let '(x, y) := v in (Q2R x, Q2R y).

Lemma prod_R_QR2 (v : Q * Q) : prod_R Q R QR Q R QR v (Q2R2 v).
Proof. destruct v; constructor; reflexivity. Qed.
Lemma prod_R_QR3 (v : Q * Q * Q) :
  prod_R (Q*Q) (R*R) (prod_R Q R QR Q R QR) Q R QR v (Q2R3 v).
Proof. destruct v as [[x y] z]; repeat constructor. Qed.
Lemma prod_R_QR3_eq v v' :
  prod_R (Q*Q) (R*R) (prod_R Q R QR Q R QR) Q R QR v v' -> Q2R3 v = v'.
Proof. destruct 1 as [? ? [? ? Hx ? ? Hy] ? ? Hz]. unfold QR in *. simpl. congruence. Qed.
Lemma prod_R_QR2_eq v v' : prod_R Q R QR Q R QR v v' -> Q2R2 v = v'.
Proof. destruct 1 as [? ? Hx ? ? Hy]. unfold QR in *. simpl. congruence. Qed.

Lemma list_R_QR3_map (l : list (Q*Q*Q)) :
  list_R _ _ (prod_R (Q*Q) (R*R) (prod_R Q R QR Q R QR) Q R QR) l (map Q2R3 l).
Proof. induction l; simpl; constructor; auto using prod_R_QR3. Qed.
Lemma list_R_QR2_map (l : list (Q*Q)) :
  list_R _ _ (prod_R Q R QR Q R QR) l (map Q2R2 l).
Proof. induction l; simpl; constructor; auto using prod_R_QR2. Qed.
Lemma list_R_QR3_eq l l' :
  list_R _ _ (prod_R (Q*Q) (R*R) (prod_R Q R QR Q R QR) Q R QR) l l' -> map Q2R3 l = l'.
Proof. induction 1 as [|a a' Ha l l' Hl IH]; simpl; auto. rewrite (prod_R_QR3_eq _ _ Ha). congruence. Qed.

Lemma list_list_nat_R_refl (l : list (list nat)) :
  list_R _ _ (list_R nat nat nat_R) l l.
Proof. induction l; constructor; auto using list_R_refl_nat. Qed.
