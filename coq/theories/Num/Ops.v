(* Number-operations record: every model function is written once over [Ops T];
   instantiated at Q it is the executable model (extracted / vm_compute), at R it
   is what the theorems speak about.  Num/Transfer.v closes the gap by Paramcoq. *)
From Coq Require Import ZArith QArith Qreals Reals Bool List.
Import ListNotations.

Record Ops (T : Type) : Type := mkOps {
  o0 : T; o1 : T;
  oadd : T -> T -> T; omul : T -> T -> T; osub : T -> T -> T;
  oopp : T -> T; odiv : T -> T -> T;
  oleb : T -> T -> bool; oltb : T -> T -> bool; oeqb : T -> T -> bool;
  ofromZ : Z -> T
}.
Arguments o0 {T} _. Arguments o1 {T} _.
Arguments oadd {T} _ _ _. Arguments omul {T} _ _ _. Arguments osub {T} _ _ _.
Arguments oopp {T} _ _. Arguments odiv {T} _ _ _.
Arguments ofromZ {T} _ _.
Arguments oleb {T} _ _ _. Arguments oltb {T} _ _ _. Arguments oeqb {T} _ _ _.

(* ---- Q instance: normalising (Qred) so that extracted runs stay small ---- *)
Definition Qltb (a b : Q) : bool := negb (Qle_bool b a).
Definition Qops : Ops Q := {|
  o0 := 0%Q; o1 := 1%Q;
  oadd := fun a b => Qred (a + b); omul := fun a b => Qred (a * b);
  osub := fun a b => Qred (a - b); oopp := fun a => Qopp a;
  odiv := fun a b => Qred (a / b);
  oleb := Qle_bool; oltb := Qltb; oeqb := Qeq_bool;
  ofromZ := inject_Z
|}.

(* ---- R instance ---- *)
Definition Rleb (a b : R) : bool := if Rle_dec a b then true else false.
Definition Rltb (a b : R) : bool := if Rlt_dec a b then true else false.
Definition Reqb (a b : R) : bool := if Req_EM_T a b then true else false.
Definition Rops : Ops R := {|
  o0 := 0%R; o1 := 1%R;
  oadd := Rplus; omul := Rmult; osub := Rminus; oopp := Ropp;
  odiv := Rdiv;
  oleb := Rleb; oltb := Rltb; oeqb := Reqb;
  ofromZ := IZR
|}.

Lemma Rleb_true a b : Rleb a b = true <-> (a <= b)%R.
Proof. unfold Rleb; destruct (Rle_dec a b); split; auto; discriminate. Qed.
Lemma Rleb_false a b : Rleb a b = false <-> (b < a)%R.
Proof. unfold Rleb; destruct (Rle_dec a b); split; try discriminate; auto.
  - intros H; exfalso; apply (Rlt_irrefl a); eapply Rle_lt_trans; eauto.
  - intros _; apply Rnot_le_lt; auto. Qed.
Lemma Rltb_true a b : Rltb a b = true <-> (a < b)%R.
Proof. unfold Rltb; destruct (Rlt_dec a b); split; auto; discriminate. Qed.
Lemma Rltb_false a b : Rltb a b = false <-> (b <= a)%R.
Proof. unfold Rltb; destruct (Rlt_dec a b); split; try discriminate; auto.
  - intros H; exfalso; apply (Rlt_irrefl a); eapply Rlt_le_trans; eauto.
  - intros _; apply Rnot_lt_le; auto. Qed.
Lemma Reqb_true a b : Reqb a b = true <-> a = b.
Proof. unfold Reqb; destruct (Req_EM_T a b); split; auto; discriminate. Qed.
Lemma Reqb_false a b : Reqb a b = false <-> a <> b.
Proof. unfold Reqb; destruct (Req_EM_T a b); split; auto; try discriminate. intros H; contradiction. Qed.

(* Generic derived operations (polymorphic). *)
Section Derived.
  Context {T : Type} (O : Ops T).
  Definition o2 : T := ofromZ O 2.
  Definition o3 : T := ofromZ O 3.
  Definition osq (a : T) : T := omul O a a.
  Definition osum (l : list T) : T := fold_right (oadd O) (o0 O) l.
  Definition oabs (a : T) : T := if oltb O a (o0 O) then oopp O a else a.
  Definition osign (a : T) : Z :=
    if oltb O a (o0 O) then (-1)%Z else if oltb O (o0 O) a then 1%Z else 0%Z.
  Definition omax (a b : T) : T := if oleb O a b then b else a.
  Definition omin (a b : T) : T := if oleb O a b then a else b.
End Derived.
