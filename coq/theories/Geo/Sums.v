(* Finite sums over R: permutation invariance, linearity, cyclic telescoping,
   closed-chain cancellation.  These carry every "for all meshes / all polygons"
   induction in the development. *)
From Coq Require Import Reals List Permutation Lra.
Require Import Cox.Num.Ops Cox.Geo.Vec.
Import ListNotations.
Local Open Scope R_scope.

Definition Rsum (l : list R) : R := fold_right Rplus 0 l.

Lemma osum_Rsum l : osum Rops l = Rsum l.
Proof. reflexivity. Qed.

Lemma Rsum_app a b : Rsum (a ++ b) = Rsum a + Rsum b.
Proof. induction a; simpl; lra. Qed.

Lemma Rsum_perm a b : Permutation a b -> Rsum a = Rsum b.
Proof. induction 1; simpl; lra. Qed.

Lemma Rsum_map_ext {A} (f g : A -> R) l :
  (forall x, In x l -> f x = g x) -> Rsum (map f l) = Rsum (map g l).
Proof. induction l; simpl; intros H; auto. rewrite H, IHl; auto. Qed.

Lemma Rsum_map_add {A} (f g : A -> R) l :
  Rsum (map (fun x => f x + g x) l) = Rsum (map f l) + Rsum (map g l).
Proof. induction l; simpl; lra. Qed.

Lemma Rsum_map_sub {A} (f g : A -> R) l :
  Rsum (map (fun x => f x - g x) l) = Rsum (map f l) - Rsum (map g l).
Proof. induction l; simpl; lra. Qed.

Lemma Rsum_map_scale {A} (k : R) (f : A -> R) l :
  Rsum (map (fun x => k * f x) l) = k * Rsum (map f l).
Proof. induction l; simpl; lra. Qed.

Lemma Rsum_map_scale_r {A} (k : R) (f : A -> R) l :
  Rsum (map (fun x => f x * k) l) = Rsum (map f l) * k.
Proof. induction l; simpl; lra. Qed.

Lemma Rsum_map_opp {A} (f : A -> R) l :
  Rsum (map (fun x => - f x) l) = - Rsum (map f l).
Proof. induction l; simpl; lra. Qed.

Lemma Rsum_map_const0 {A} (l : list A) : Rsum (map (fun _ => 0) l) = 0.
Proof. induction l; simpl; lra. Qed.

Lemma Rsum_flat_map {A B} (f : A -> list B) (g : B -> R) l :
  Rsum (map g (flat_map f l)) = Rsum (map (fun x => Rsum (map g (f x))) l).
Proof. induction l; simpl; auto. rewrite map_app, Rsum_app, IHl; auto. Qed.

Lemma Rsum_map_perm {A} (f : A -> R) a b :
  Permutation a b -> Rsum (map f a) = Rsum (map f b).
Proof. intros H; apply Rsum_perm, Permutation_map, H. Qed.

Lemma Rsum_nonneg l : (forall x, In x l -> 0 <= x) -> 0 <= Rsum l.
Proof. induction l; simpl; intros H; [lra|]. assert (0 <= a) by (apply H; auto).
  assert (0 <= Rsum l) by (apply IHl; intros; apply H; auto). lra. Qed.

(* ---- cyclic lists ---- *)
Lemma roll_perm {A} (l : list A) : Permutation (roll l) l.
Proof. destruct l; simpl; auto. apply Permutation_sym, Permutation_cons_append. Qed.

Lemma roll_length {A} (l : list A) : length (roll l) = length l.
Proof. apply Permutation_length, roll_perm. Qed.

Lemma map_roll {A B} (f : A -> B) l : map f (roll l) = roll (map f l).
Proof. destruct l; simpl; auto. rewrite map_app; auto. Qed.

Lemma cpairs_fst {A} (l : list A) : map fst (cpairs l) = l.
Proof.
  unfold cpairs.
  assert (H : forall (a b : list A), length a = length b -> map fst (combine a b) = a).
  { induction a; destruct b; simpl; auto; try discriminate. intros E; f_equal; auto. }
  apply H. symmetry; apply roll_length.
Qed.

Lemma cpairs_snd {A} (l : list A) : map snd (cpairs l) = roll l.
Proof.
  unfold cpairs.
  assert (H : forall (a b : list A), length a = length b -> map snd (combine a b) = b).
  { induction a; destruct b; simpl; auto; try discriminate. intros E; f_equal; auto. }
  apply H. symmetry; apply roll_length.
Qed.

(* A cyclic sum of differences h(next) - h(this) vanishes. *)
Lemma cyclic_telescope {A} (h : A -> R) (l : list A) :
  Rsum (map (fun p => h (snd p) - h (fst p)) (cpairs l)) = 0.
Proof.
  rewrite Rsum_map_sub.
  rewrite <- (map_map snd h), <- (map_map fst h), cpairs_fst, cpairs_snd.
  rewrite (Rsum_map_perm h _ _ (roll_perm l)). lra.
Qed.

(* ---- closed chains of directed edges ---- *)
Definition swap {A} (p : A * A) : A * A := (snd p, fst p).

Definition closed_edges {A} (E : list (A * A)) : Prop :=
  Permutation E (map swap E).

Lemma closed_cancel {A} (g : A -> A -> R) (E : list (A * A)) :
  (forall a b, g a b = - g b a) ->
  closed_edges E ->
  Rsum (map (fun e => g (fst e) (snd e)) E) = 0.
Proof.
  intros Hanti Hc.
  assert (H : Rsum (map (fun e => g (fst e) (snd e)) E)
            = - Rsum (map (fun e => g (fst e) (snd e)) E)).
  { rewrite (Rsum_map_perm _ _ _ Hc) at 1. rewrite map_map, <- Rsum_map_opp.
    apply Rsum_map_ext. intros [a b] _; simpl. apply Hanti. }
  lra.
Qed.

(* The directed edges of a cycle and of its reverse. *)
Lemma cpairs_cons2 {A} (a b : A) (l : list A) :
  cpairs (a :: b :: l) = (a, b) :: combine (b :: l) (l ++ [a]).
Proof. reflexivity. Qed.
