(* Vectors in 2 and 3 dimensions, polymorphic in the number operations. *)
From Coq Require Import List.
Require Import Cox.Num.Ops.
Import ListNotations.

Section Vec.
  Context {T : Type} (O : Ops T).
  Definition vec3 : Type := (T * T * T)%type.
  Definition vec2 : Type := (T * T)%type.

  Definition vx (v : vec3) : T := fst (fst v).
  Definition vy (v : vec3) : T := snd (fst v).
  Definition vz (v : vec3) : T := snd v.
  Definition mk3 (x y z : T) : vec3 := (x, y, z).

  Definition vzero : vec3 := (o0 O, o0 O, o0 O).
  Definition vadd (a b : vec3) : vec3 :=
    (oadd O (vx a) (vx b), oadd O (vy a) (vy b), oadd O (vz a) (vz b)).
  Definition vsub (a b : vec3) : vec3 :=
    (osub O (vx a) (vx b), osub O (vy a) (vy b), osub O (vz a) (vz b)).
  Definition vscale (k : T) (a : vec3) : vec3 :=
    (omul O k (vx a), omul O k (vy a), omul O k (vz a)).
  Definition vopp (a : vec3) : vec3 := (oopp O (vx a), oopp O (vy a), oopp O (vz a)).
  Definition vmulc (a b : vec3) : vec3 :=   (* componentwise product *)
    (omul O (vx a) (vx b), omul O (vy a) (vy b), omul O (vz a) (vz b)).
  Definition vdot (a b : vec3) : T :=
    oadd O (oadd O (omul O (vx a) (vx b)) (omul O (vy a) (vy b))) (omul O (vz a) (vz b)).
  Definition vcross (a b : vec3) : vec3 :=
    (osub O (omul O (vy a) (vz b)) (omul O (vz a) (vy b)),
     osub O (omul O (vz a) (vx b)) (omul O (vx a) (vz b)),
     osub O (omul O (vx a) (vy b)) (omul O (vy a) (vx b))).
  Definition vdet (a b c : vec3) : T := vdot a (vcross b c).
  Definition vnorm2 (a : vec3) : T := vdot a a.
  Definition vsum (l : list vec3) : vec3 := fold_right vadd vzero l.
  Definition vcomp (i : nat) (v : vec3) : T :=
    match i with 0 => vx v | 1 => vy v | _ => vz v end.

  (* 2-D *)
  Definition px (v : vec2) : T := fst v.
  Definition py (v : vec2) : T := snd v.
  Definition padd (a b : vec2) : vec2 := (oadd O (px a) (px b), oadd O (py a) (py b)).
  Definition psub (a b : vec2) : vec2 := (osub O (px a) (px b), osub O (py a) (py b)).
  Definition pscale (k : T) (a : vec2) : vec2 := (omul O k (px a), omul O k (py a)).
  Definition pdot (a b : vec2) : T := oadd O (omul O (px a) (px b)) (omul O (py a) (py b)).
  Definition pcross (a b : vec2) : T := osub O (omul O (px a) (py b)) (omul O (py a) (px b)).
  Definition pzero : vec2 := (o0 O, o0 O).

  (* cyclic structure of a vertex list *)
  Definition roll {A} (l : list A) : list A :=
    match l with [] => [] | a :: r => r ++ [a] end.
  Definition cpairs {A} (l : list A) : list (A * A) := combine l (roll l).
End Vec.

Arguments vec3 T : clear implicits.
Arguments vec2 T : clear implicits.
