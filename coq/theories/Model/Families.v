(* Truncation families (C17): exact vertex enumeration of the intersection of half-spaces
   { x : n_i . x <= d_(type i) } — all plane triples, Cramer, keep the points satisfying every
   constraint, remove duplicates.  Written over any Ops (Q for 323+/423, Q(sqrt5) for 523). *)
From Coq Require Import List Bool Arith ZArith.
Require Import Cox.Num.Ops Cox.Geo.Vec.
Import ListNotations.

Section Fam.
  Context {T : Type} (O : Ops T).
  Notation V3 := (vec3 T).

  Definition col3 (k : nat) (r0 r1 r2 : V3) : V3 := (vcomp k r0, vcomp k r1, vcomp k r2).
  (* intersection of the planes r_i . x = y_i; None if the normals are dependent *)
  Definition solve3 (r0 r1 r2 : V3) (y : V3) : option V3 :=
    let c0 := col3 0 r0 r1 r2 in let c1 := col3 1 r0 r1 r2 in let c2 := col3 2 r0 r1 r2 in
    let d := vdet O c0 c1 c2 in
    if oeqb O d (o0 O) then None
    else Some (odiv O (vdet O y c1 c2) d, odiv O (vdet O c0 y c2) d, odiv O (vdet O c0 c1 y) d).

  Definition dist_of (dists : V3) (ty : nat) : T := vcomp ty dists.
  Definition feasible (planes : list (V3 * nat)) (dists : V3) (x : V3) : bool :=
    forallb (fun p => oleb O (vdot O (fst p) x) (dist_of dists (snd p))) planes.
  Definition veq3 (a b : V3) : bool := oeqb O (vx a) (vx b) && oeqb O (vy a) (vy b) && oeqb O (vz a) (vz b).
  Fixpoint dedup3 (l : list V3) : list V3 :=
    match l with [] => [] | a :: r => if existsb (veq3 a) r then dedup3 r else a :: dedup3 r end.

  Fixpoint tails {A} (l : list A) : list (A * list A) :=
    match l with [] => [] | a :: r => (a, r) :: tails r end.
  Definition exact_vertices (planes : list (V3 * nat)) (dists : V3) : list V3 :=
    dedup3 (flat_map (fun p0 =>
      flat_map (fun p1 =>
        flat_map (fun p2 =>
          let y := (dist_of dists (snd (fst p0)), dist_of dists (snd (fst p1)), dist_of dists (snd (fst p2))) in
          match solve3 (fst (fst p0)) (fst (fst p1)) (fst (fst p2)) y with
          | Some x => if feasible planes dists x then [x] else []
          | None => []
          end) (tails (snd p1))) (tails (snd p0))) (tails planes)).

  Definition in_domain (dom : (T * T) * (T * T)) (a c : T) : bool :=
    oleb O (fst (fst dom)) a && oleb O a (snd (fst dom)) && oleb O (fst (snd dom)) c && oleb O c (snd (snd dom)).
End Fam.
