(* Classification of every property setter of every shape class (C08), against the table
   GENERATED from the source (Gen/Effects.v: gen_guards). *)
From Coq Require Import String List Bool.
Require Import Cox.Gen.Effects.
Import ListNotations.
Local Open Scope string_scope.

Inductive setter_kind := Size (degree : nat) | SizeNonneg | Translation | Delegates (to : string).

(* (class, property, kind): size setters must refuse non-positive targets (rounding radii: negative) *)
Definition setter_table : list (string * string * setter_kind) := [
  ("Shape", "center", Delegates "centroid");
  ("Shape2D", "minimal_bounding_circle_radius", Size 1); ("Shape2D", "minimal_centered_bounding_circle_radius", Size 1);
  ("Shape2D", "maximal_bounded_circle_radius", Size 1); ("Shape2D", "maximal_centered_bounded_circle_radius", Size 1);
  ("Shape3D", "minimal_bounding_sphere_radius", Size 1); ("Shape3D", "minimal_centered_bounding_sphere_radius", Size 1);
  ("Shape3D", "maximal_bounded_sphere_radius", Size 1); ("Shape3D", "maximal_centered_bounded_sphere_radius", Size 1);
  ("Circle", "centroid", Translation); ("Circle", "radius", Size 1); ("Circle", "area", Size 2); ("Circle", "perimeter", Size 1);
  ("Circle", "circumference", Delegates "perimeter");
  ("Ellipse", "centroid", Translation); ("Ellipse", "a", Size 1); ("Ellipse", "b", Size 1); ("Ellipse", "area", Size 2);
  ("Ellipse", "perimeter", Size 1); ("Ellipse", "circumference", Delegates "perimeter");
  ("Sphere", "centroid", Translation); ("Sphere", "radius", Size 1); ("Sphere", "diameter", Size 1); ("Sphere", "volume", Size 3);
  ("Sphere", "surface_area", Size 2);
  ("Ellipsoid", "centroid", Translation); ("Ellipsoid", "a", Size 1); ("Ellipsoid", "b", Size 1); ("Ellipsoid", "c", Size 1);
  ("Ellipsoid", "volume", Size 3); ("Ellipsoid", "surface_area", Size 2);
  ("Polygon", "perimeter", Size 1); ("Polygon", "area", Size 2); ("Polygon", "centroid", Translation);
  ("Polygon", "circumcircle_radius", Size 1); ("Polygon", "incircle_radius", Size 1);
  ("Polyhedron", "volume", Size 3); ("Polyhedron", "surface_area", Size 2); ("Polyhedron", "centroid", Translation);
  ("Polyhedron", "circumsphere_radius", Size 1); ("Polyhedron", "insphere_radius", Size 1);
  ("ConvexPolyhedron", "volume", Size 3); ("ConvexPolyhedron", "surface_area", Size 2); ("ConvexPolyhedron", "centroid", Translation);
  ("ConvexSpheropolygon", "centroid", Translation); ("ConvexSpheropolygon", "radius", SizeNonneg); ("ConvexSpheropolygon", "area", Size 2); ("ConvexSpheropolygon", "perimeter", Size 1);
  ("ConvexSpheropolyhedron", "centroid", Translation); ("ConvexSpheropolyhedron", "volume", Size 3); ("ConvexSpheropolyhedron", "radius", SizeNonneg);
  ("ConvexSpheropolyhedron", "surface_area", Size 2); ("ConvexSpheropolyhedron", "mean_curvature", Size 1)
].

Definition kind_of (c p : string) : option setter_kind :=
  match find (fun r => String.eqb (fst (fst r)) c && String.eqb (snd (fst r)) p) setter_table with
  | Some r => Some (snd r) | None => None
  end.

(* the guard shape the source must have for each kind *)
Definition guard_ok (c p g : string) : bool :=
  match kind_of c p with
  | Some (Size _) => String.eqb g "positive"
  | Some SizeNonneg => String.eqb g "nonnegative"
  | Some Translation => String.eqb g "none"
  | Some (Delegates _) => String.eqb g "none"
  | None => false            (* a setter the table does not know: fail closed *)
  end.

Definition all_setters_classified_and_guarded : bool :=
  forallb (fun r => guard_ok (fst (fst r)) (snd (fst r)) (snd r)) gen_guards
  && Nat.eqb (length gen_guards) (length setter_table).

(* constructors establish size parameters only through the guarded property setters *)
Definition ctor_sets (c : string) (props : list string) : bool :=
  match find (fun r => String.eqb (fst (fst (fst r))) c && String.eqb (snd (fst r)) "__init__") gen_effects with
  | Some r => forallb (fun p => existsb (String.eqb ("p:" ++ p)) (snd r)) props
  | None => false
  end.
Definition constructors_use_guarded_setters : bool :=
  ctor_sets "Circle" ["radius"] && ctor_sets "Sphere" ["radius"] && ctor_sets "Ellipse" ["a"; "b"]
  && ctor_sets "Ellipsoid" ["a"; "b"; "c"] && ctor_sets "ConvexSpheropolygon" ["radius"]
  && ctor_sets "ConvexSpheropolyhedron" ["radius"].
