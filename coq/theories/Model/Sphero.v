(* Executable model of ConvexSpheropolyhedron.is_inside (C05), in exact arithmetic: no square roots - every comparison of a length with the
   rounding radius is a comparison of squares.  A face is its vertex cycle, listed counter-clockwise about its outward normal
   N = (v1 - v0) x (v2 - v0) (un-normalised).
     - in the core: every plane value N.(x - v0) <= 0;
     - faces to look at: 0 < plane distance <= r, i.e. 0 < N.(x - v0) and (N.(x - v0))^2 <= r^2 N.N;
     - extruded face (a prism of height r over the face: the code builds it as the convex hull of the face and its translate):
       inside every side plane through an edge e and N: ((e x N).(x - v) <= 0);
     - cylinders about the edges (without caps): 0 <= (x - v).e <= e.e and |x - v|^2 - ((x - v).e)^2 / e.e <= r^2;
     - spheres about the vertices: |x - v|^2 <= r^2. *)
From Coq Require Import List Bool.
Require Import Cox.Num.Ops Cox.Geo.Vec.
Import ListNotations.

Section Sphero.
  Context {T : Type} (O : Ops T).
  Notation V3 := (vec3 T).

  Definition fnormal3 (F : list V3) : V3 :=
    let v0 := nth 0 F (vzero O) in let v1 := nth 1 F (vzero O) in let v2 := nth 2 F (vzero O) in
    vcross O (vsub O v1 v0) (vsub O v2 v0).
  Definition plane_val (F : list V3) (x : V3) : T := vdot O (fnormal3 F) (vsub O x (nth 0 F (vzero O))).

  Definition in_core (Fs : list (list V3)) (x : V3) : bool :=
    forallb (fun F => oleb O (plane_val F x) (o0 O)) Fs.
  Definition to_check (r2 : T) (F : list V3) (x : V3) : bool :=
    let d := plane_val F x in
    oltb O (o0 O) d && oleb O (omul O d d) (omul O r2 (vdot O (fnormal3 F) (fnormal3 F))).

  Definition in_prism_sides (F : list V3) (x : V3) : bool :=
    let N := fnormal3 F in
    forallb (fun e => oleb O (vdot O (vcross O (vsub O (snd e) (fst e)) N) (vsub O x (fst e))) (o0 O)) (cpairs F).
  Definition in_cylinder (r2 : T) (a b x : V3) : bool :=
    let e := vsub O b a in let w := vsub O x a in
    let ee := vdot O e e in let t := vdot O w e in
    oleb O (o0 O) t && oleb O t ee && oleb O (osub O (omul O (vdot O w w) ee) (omul O t t)) (omul O r2 ee).
  Definition in_cap (r2 : T) (a x : V3) : bool :=
    let w := vsub O x a in oleb O (vdot O w w) r2.

  Definition check_face (r2 : T) (F : list V3) (x : V3) : bool :=
    in_prism_sides F x
    || existsb (fun e => in_cylinder r2 (fst e) (snd e) x) (cpairs F)
    || existsb (fun v => in_cap r2 v x) F.

  Definition sphero_inside (r2 : T) (Fs : list (list V3)) (x : V3) : bool :=
    in_core Fs x || existsb (fun F => to_check r2 F x && check_face r2 F x) Fs.

  (* ---------- a checkable certificate that the face list describes a convex solid the theorems apply to (Thm/SpheroComplete.v):
     every face is a planar, strictly convex cycle listed counter-clockwise about its normal, without repeated consecutive vertices, and
     along every edge there is a neighbouring face through both end points whose normal has a positive component along the outward
     in-plane side normal e x N.  Exact in Q; its boolean is transferred to R. ---------- *)
  Definition ctrip {A} (l : list A) : list (A * (A * A)) := combine l (combine (roll l) (roll (roll l))).
  Definition veqb (a b : V3) : bool := oeqb O (vx a) (vx b) && oeqb O (vy a) (vy b) && oeqb O (vz a) (vz b).
  Definition face_wfb (F : list V3) : bool :=
    forallb (fun v => oeqb O (plane_val F v) (o0 O) && in_prism_sides F v) F
    && forallb (fun e => negb (veqb (fst e) (snd e))) (cpairs F).
  Definition normal_posb (F : list V3) : bool := oltb O (o0 O) (vdot O (fnormal3 F) (fnormal3 F)).
  Definition strictly_convexb (F : list V3) : bool :=
    forallb (fun t => oltb O (o0 O) (vdot O (fnormal3 F) (vcross O (vsub O (fst (snd t)) (fst t)) (vsub O (snd (snd t)) (fst (snd t)))))) (ctrip F).
  Definition edge_coveredb (Fs : list (list V3)) (F : list V3) (e : V3 * V3) : bool :=
    existsb (fun G => oeqb O (plane_val G (fst e)) (o0 O) && oeqb O (plane_val G (snd e)) (o0 O)
                      && oltb O (o0 O) (vdot O (fnormal3 G) (vcross O (vsub O (snd e) (fst e)) (fnormal3 F)))) Fs.
  Definition cover_certb (Fs : list (list V3)) : bool :=
    forallb (fun F => forallb (edge_coveredb Fs F) (cpairs F)) Fs.
  Definition sphero_certb (Fs : list (list V3)) : bool :=
    forallb (fun F => face_wfb F && normal_posb F && strictly_convexb F) Fs && cover_certb Fs.
End Sphero.
