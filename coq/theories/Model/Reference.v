(* Textbook reference data for the named solids (C18): (name, vertices, edges, faces). *)
From Coq Require Import String List Bool Arith.
Require Import Cox.Gen.Tables.
Import ListNotations.
Local Open Scope string_scope.

Definition ref_platonic : list (string * nat * nat * nat) :=
  [("Tetrahedron", 4, 6, 4); ("Cube", 8, 12, 6); ("Octahedron", 6, 12, 8); ("Dodecahedron", 20, 30, 12); ("Icosahedron", 12, 30, 20)].
Definition ref_archimedean : list (string * nat * nat * nat) :=
  [("Truncated Tetrahedron", 12, 18, 8); ("Cuboctahedron", 12, 24, 14); ("Truncated Cube", 24, 36, 14);
   ("Truncated Octahedron", 24, 36, 14); ("Rhombicuboctahedron", 24, 48, 26); ("Truncated Cuboctahedron", 48, 72, 26);
   ("Snub Cuboctahedron", 24, 60, 38); ("Icosidodecahedron", 30, 60, 32); ("Truncated Dodecahedron", 60, 90, 32);
   ("Truncated Icosahedron", 60, 90, 32); ("Rhombicosidodecahedron", 60, 120, 62); ("Truncated Icosidodecahedron", 120, 180, 62);
   ("Snub Icosidodecahedron", 60, 150, 92)].
Definition ref_catalan : list (string * nat * nat * nat) :=
  [("Triakis Tetrahedron", 8, 18, 12); ("Rhombic Dodecahedron", 14, 24, 12); ("Triakis Octahedron", 14, 36, 24);
   ("Tetrakis Hexahedron", 14, 36, 24); ("Deltoidal Icositetrahedron", 26, 48, 24); ("Disdyakis Dodecahedron", 26, 72, 48);
   ("Pentagonal Icositetrahedron", 38, 60, 24); ("Rhombic Triacontahedron", 32, 60, 30); ("Triakis Icosahedron", 32, 90, 60);
   ("Pentakis Dodecahedron", 32, 90, 60); ("Deltoidal Hexecontahedron", 62, 120, 60); ("Disdyakis Triacontahedron", 62, 180, 120);
   ("Pentagonal Hexecontahedron", 92, 150, 60)].

Definition row := (string * string * nat * string * string * string)%type.
Definition r_key (r : row) := fst (fst (fst (fst (fst r)))).
Definition r_code (r : row) := snd (fst (fst (fst (fst r)))).
Definition r_nv (r : row) := snd (fst (fst (fst r))).
Definition r_src (r : row) := snd (fst (fst r)).
Definition r_name (r : row) := snd (fst r).
Definition r_alt (r : row) := snd r.

Fixpoint nodup_str (l : list string) : bool :=
  match l with [] => true | a :: r => negb (existsb (String.eqb a) r) && nodup_str r end.
Definition euler_ok (r : string * nat * nat * nat) : bool :=
  let v := snd (fst (fst r)) in let e := snd (fst r) in let f := snd r in Nat.eqb (v + f) (e + 2).
(* every table entry is a reference solid with the textbook number of vertices, and every reference solid is tabulated once *)
Definition matches_reference (tab : list row) (ref : list (string * nat * nat * nat)) : bool :=
  Nat.eqb (length tab) (length ref) && nodup_str (map r_key tab) && forallb euler_ok ref
  && forallb (fun r => existsb (fun t => String.eqb (r_key r) (fst (fst (fst t))) && Nat.eqb (r_nv r) (snd (fst (fst t)))) ref) tab.
(* entries of the DOI repository that cite a family: the cited family has an entry of that name (or alternative name)
   with the same number of vertices *)
Definition family_of (src : string) : list row :=
  if String.eqb src "platonic" then table_platonic else if String.eqb src "archimedean" then table_archimedean
  else if String.eqb src "catalan" then table_catalan else if String.eqb src "johnson" then table_johnson
  else if String.eqb src "prism_antiprism" then table_prism_antiprism else if String.eqb src "pyramid_dipyramid" then table_pyramid_dipyramid
  else [].
Definition cites_ok (r : row) : bool :=
  if String.eqb (r_src r) "" then true
  else existsb (fun t => (String.eqb (r_key t) (r_name r) || String.eqb (r_key t) (r_alt r)) && Nat.eqb (r_nv t) (r_nv r)) (family_of (r_src r)).
Definition repository_ok : bool :=
  Nat.eqb (length table_science1220869) 145 && nodup_str (map r_key table_science1220869) && forallb cites_ok table_science1220869.
Definition counts_ok : bool :=
  Nat.eqb (length table_platonic) 5 && Nat.eqb (length table_archimedean) 13 && Nat.eqb (length table_catalan) 13
  && Nat.eqb (length table_johnson) 92 && Nat.eqb (length table_prism_antiprism) 16 && Nat.eqb (length table_pyramid_dipyramid) 6
  && nodup_str (map r_key table_johnson) && nodup_str (map r_code table_johnson)
  && nodup_str (map r_key table_prism_antiprism) && nodup_str (map r_key table_pyramid_dipyramid).
