(* Cache-coherence automaton for the mutable vertex-based shapes (C03) and purity table for
   queries (C16), tied to the source through the write sets GENERATED into Gen/Effects.v.

   Abstract state: for every cached attribute a tag fresh / stale (relative to the current
   geometry).  A mutator applies a geometric transform and WRITES some attributes (recomputing
   them from the current geometry, or updating them by the covariance rule of that transform);
   an attribute it does not write stays fresh only if it is invariant under the transform.     *)
From Coq Require Import String List Bool Arith.
Require Import Cox.Gen.Effects.
Import ListNotations.
Local Open Scope string_scope.

(* ---------- reading the generated table ---------- *)
Definition bases_of (c : string) : list string :=
  match find (fun r => String.eqb (fst r) c) gen_classes with Some r => snd r | None => [] end.
Fixpoint mro (fuel : nat) (c : string) : list string :=
  match fuel with
  | O => [c]
  | S f => c :: flat_map (mro f) (bases_of c)
  end.
Definition lookup1 (c kind m : string) : option (list string) :=
  match find (fun r => String.eqb (fst (fst (fst r))) c && String.eqb (snd (fst (fst r))) kind
                         && String.eqb (snd (fst r)) m) gen_effects with
  | Some r => Some (snd r) | None => None
  end.
Fixpoint first_some {A} (l : list (option A)) : option A :=
  match l with [] => None | Some a :: _ => Some a | None :: r => first_some r end.
Definition lookup (c kind m : string) : option (list string) :=
  first_some (map (fun k => lookup1 k kind m) (mro 4 c)).

Definition tag (e : string) : string := substring 0 2 e.
Definition arg (e : string) : string := substring 2 (String.length e - 2) e.
Definition is_write (e : string) : bool :=
  String.eqb (tag e) "w:" || String.eqb (tag e) "a:" || String.eqb (tag e) "s:" || String.eqb (tag e) "x:"
  || String.eqb (tag e) "n:".

Fixpoint dedup (l : list string) : list string :=
  match l with [] => [] | a :: r => if existsb (String.eqb a) r then dedup r else a :: dedup r end.

(* attributes written by method m of class c, transitively through self.<method>() calls and
   property assignments (their setters) *)
Fixpoint writes (fuel : nat) (c kind m : string) : list string :=
  match fuel with
  | O => []
  | S f =>
    match lookup c kind m with
    | None => []
    | Some effs =>
      flat_map (fun e =>
        if is_write e then [arg e]
        else if String.eqb (tag e) "c:" then writes f c "method" (arg e)
        else if String.eqb (tag e) "p:" then writes f c "setter" (arg e)
        else []) effs
    end
  end.
Definition write_set (c kind m : string) : list string := dedup (writes 6 c kind m).

Definition subset (a b : list string) : bool := forallb (fun x => existsb (String.eqb x) b) a.
Definition set_eq (a b : list string) : bool := subset a b && subset b a.

(* ---------- the automaton ---------- *)
Inductive transform := TScale | TTranslate | TRotate | TReorder | TReorderKeepPlanes | TRefaces | TNone.

(* is the cached attribute unchanged when the geometry undergoes the transform? *)
Definition combinatorial : list string :=
  ["_simplices"; "_coplanar_simplices"; "_simplex_neighbors"; "_faces"; "_neighbors"; "edges";
   "_faces_are_convex"; "_ndim"; "_normal"].
Definition invariant (a : string) (t : transform) : bool :=
  match t with
  | TNone => true
  | TRefaces =>   (* faces re-sorted / merged: vertices untouched, everything about faces may change *)
    negb (existsb (String.eqb a) ["_faces"; "_neighbors"; "_equations"; "edges"])
  | TReorder =>   (* each face keeps its vertex set; cyclic order / direction may change: the undirected edge list survives *)
    negb (existsb (String.eqb a) ["_faces"; "_neighbors"; "_equations"])
  | TReorderKeepPlanes => negb (existsb (String.eqb a) ["_faces"; "_neighbors"])
  | TScale => existsb (String.eqb a) combinatorial
  | TTranslate => existsb (String.eqb a) (combinatorial ++ ["_volume"; "_area"; "_radius"])
  | TRotate => existsb (String.eqb a) (["_simplices"; "_coplanar_simplices"; "_simplex_neighbors"; "_faces"; "_neighbors";
                                         "edges"; "_faces_are_convex"; "_ndim"; "_volume"; "_area"; "_radius"])
  end.

Record mutator := { m_class : string; m_kind : string; m_name : string; m_transform : transform;
                    m_writes : list string }.   (* attributes it recomputes / updates by the right rule *)

Definition state := list (string * bool).
Definition fresh_state (attrs : list string) : state := map (fun a => (a, true)) attrs.
Definition step (s : state) (m : mutator) : state :=
  map (fun ab => let a := fst ab in
                 (a, if existsb (String.eqb a) (m_writes m) then true else snd ab && invariant a (m_transform m))) s.
Definition coherent (s : state) : bool := forallb snd s.

(* cached attributes per class (the geometry itself, _vertices, is not a cache) *)
Definition attrs_ConvexPolyhedron : list string :=
  ["_equations"; "_simplex_equations"; "_simplices"; "_coplanar_simplices"; "_simplex_neighbors"; "_faces"; "_neighbors";
   "_volume"; "_area"; "_centroid"; "edges"].
Definition attrs_Polyhedron : list string := ["_faces"; "_equations"; "_neighbors"; "edges"].
Definition attrs_Polygon : list string := ["_normal"].

Definition mutators_ConvexPolyhedron : list mutator := [
  {| m_class := "ConvexPolyhedron"; m_kind := "method"; m_name := "_rescale"; m_transform := TScale;
     m_writes := ["_vertices"; "_equations"; "_simplex_equations"; "_volume"; "_area"; "_centroid"] |};
  {| m_class := "ConvexPolyhedron"; m_kind := "setter"; m_name := "centroid"; m_transform := TTranslate;
     m_writes := ["_vertices"; "_equations"; "_simplex_equations"; "_centroid"; "_volume"] |};
  {| m_class := "ConvexPolyhedron"; m_kind := "method"; m_name := "diagonalize_inertia"; m_transform := TRotate;
     m_writes := ["_vertices"; "_simplices"; "_volume"; "_simplex_equations"; "_centroid"; "_equations"] |};
  (* ConvexPolyhedron.sort_faces re-orders each face counter-clockwise about the OUTWARD hull normal it
     already stores, so the plane equations stay valid: modelled as an update of _equations by identity *)
  {| m_class := "ConvexPolyhedron"; m_kind := "method"; m_name := "sort_faces"; m_transform := TReorderKeepPlanes;
     m_writes := ["_faces"; "_neighbors"] |}
].
Definition mutators_Polyhedron : list mutator := [
  {| m_class := "Polyhedron"; m_kind := "method"; m_name := "_rescale"; m_transform := TScale;
     m_writes := ["_vertices"; "_equations"] |};
  {| m_class := "Polyhedron"; m_kind := "setter"; m_name := "centroid"; m_transform := TTranslate;
     m_writes := ["_vertices"; "_equations"] |};
  {| m_class := "Polyhedron"; m_kind := "method"; m_name := "diagonalize_inertia"; m_transform := TRotate;
     m_writes := ["_vertices"; "_equations"] |};
  {| m_class := "Polyhedron"; m_kind := "method"; m_name := "sort_faces"; m_transform := TReorder;
     m_writes := ["_neighbors"; "_faces"; "_equations"] |};
  {| m_class := "Polyhedron"; m_kind := "method"; m_name := "merge_faces"; m_transform := TRefaces;
     m_writes := ["_faces"; "edges"; "_neighbors"; "_equations"] |}
].
Definition mutators_Polygon : list mutator := [
  {| m_class := "Polygon"; m_kind := "method"; m_name := "_rescale"; m_transform := TScale; m_writes := ["_vertices"] |};
  {| m_class := "Polygon"; m_kind := "setter"; m_name := "centroid"; m_transform := TTranslate; m_writes := ["_vertices"] |}
].

(* the model's write sets are exactly the source's *)
Definition writes_match (m : mutator) : bool :=
  set_eq (write_set (m_class m) (m_kind m) (m_name m)) (m_writes m).
(* ConvexPolyhedron.sort_faces keeps each face's vertex SET (it only re-orders the cycle), so the
   edge list and the plane equations survive it; Polyhedron.sort_faces may flip faces *)
Definition step_ok (attrs : list string) (m : mutator) : bool := coherent (step (fresh_state attrs) m).

(* every size setter reaches the geometry only through _rescale *)
Definition size_setters_rescale (c : string) (props : list string) : bool :=
  forallb (fun p => match lookup c "setter" p with
                    | Some effs => existsb (fun e => String.eqb e "c:_rescale") effs
                                   && forallb (fun e => negb (is_write e)) effs
                    | None => false end) props.

(* ---------- queries (C16) ---------- *)
(* a getter/method is PURE when its transitive write set is empty; the queries that do write are
   listed with what they may touch: private query caches, or state they restore *)
Definition allowed_query_writes : list (string * string * list string) := [
  ("ConvexPolyhedron", "get_face_area", ["_simplex_areas"]);
  ("ConvexPolyhedron", "face_centroids", ["_simplex_areas"; "_face_centroids"]);
  ("ConvexPolyhedron", "_find_face_centroids", ["_simplex_areas"; "_face_centroids"])
].

(* ---------- C16: purity of queries, decided on the generated effects ---------- *)
Definition memo_attrs : list string := ["_simplex_areas"; "_face_centroids"].
(* queries that move the shape and move it back: they may write exactly these *)
Definition movers : list (string * string * list string) := [
  ("Polygon", "inertia_tensor", ["_vertices"; "_normal"]);
  ("Sphere", "to_hoomd", ["_centroid"]); ("Ellipsoid", "to_hoomd", ["_centroid"]);
  ("Polygon", "to_hoomd", ["_vertices"]); ("Polyhedron", "to_hoomd", ["_vertices"; "_equations"]);
  ("ConvexSpheropolygon", "to_hoomd", ["_polygon.centroid"]);
  ("ConvexSpheropolyhedron", "to_hoomd", ["_polyhedron.centroid"])
].
Definition allowed_writes (c m : string) : list string :=
  memo_attrs ++ match find (fun r => String.eqb (fst (fst r)) c && String.eqb (snd (fst r)) m) movers with
                | Some r => snd r | None => [] end.
Definition query_methods : list string :=
  ["is_inside"; "compute_form_factor_amplitude"; "distance_to_surface"; "_distance_to_surface_from"; "get_face_area";
   "get_dihedral"; "to_json"; "to_hoomd"; "__repr__"; "__str__"; "save"; "_get_face_intersections"; "_point_plane_distances";
   "_surface_triangulation"; "_triangulation"; "_compute_inertia_tensor"; "_find_triangle_array_area";
   "_get_outward_unit_normal"].
Definition is_query_row (r : string * string * string * list string) : bool :=
  let kind := snd (fst (fst r)) in let m := snd (fst r) in
  String.eqb kind "getter" || String.eqb kind "cached"
  || (String.eqb kind "method" && existsb (String.eqb m) query_methods).
Definition query_pure (r : string * string * string * list string) : bool :=
  let c := fst (fst (fst r)) in let kind := snd (fst (fst r)) in let m := snd (fst r) in
  subset (write_set c kind m) (allowed_writes c m).
Definition all_queries_pure : bool := forallb (fun r => negb (is_query_row r) || query_pure r) gen_effects.
(* no method at all writes in place into an array passed by the caller *)
Definition no_argument_writes : bool :=
  forallb (fun r => forallb (fun e => negb (String.eqb (tag e) "A:")) (snd r)) gen_effects.
