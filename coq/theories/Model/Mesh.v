(* Executable model of the mesh-integral code of ConvexPolyhedron / Polyhedron
   (C01, C02) and of the exact cone-moment specification.  Definitions only. *)
From Coq Require Import List ZArith.
Require Import Cox.Num.Ops Cox.Geo.Vec.
Import ListNotations.

Section Mesh.
  Context {T : Type} (O : Ops T).
  Notation V3 := (vec3 T).
  Definition tri : Type := (V3 * V3 * V3)%type.
  Definition ta (t : tri) : V3 := fst (fst t).
  Definition tb (t : tri) : V3 := snd (fst t).
  Definition tc (t : tri) : V3 := snd t.

  Definition cst (n d : Z) : T := odiv O (ofromZ O n) (ofromZ O d).

  Definition getv (V : list V3) (i : nat) : V3 := nth i V (vzero O).
  Definition resolve (V : list V3) (tr : list (nat * nat * nat)) : list tri :=
    map (fun t => (getv V (fst (fst t)), getv V (snd (fst t)), getv V (snd t))) tr.
  Definition tshift (d : V3) (t : tri) : tri :=
    (vsub O (ta t) d, vsub O (tb t) d, vsub O (tc t) d).

  (* ---------- specification: signed cone (tetrahedron o=0,a,b,c) moments ---------- *)
  Definition tdet (t : tri) : T := vdet O (ta t) (tb t) (tc t).
  Definition m0 (t : tri) : T := omul O (cst 1 6) (tdet t).
  Definition s1 (i : nat) (t : tri) : T :=
    oadd O (oadd O (vcomp i (ta t)) (vcomp i (tb t))) (vcomp i (tc t)).
  Definition m1 (i : nat) (t : tri) : T := omul O (omul O (cst 1 24) (tdet t)) (s1 i t).
  Definition m2 (i j : nat) (t : tri) : T :=
    omul O (omul O (cst 1 120) (tdet t))
      (oadd O
         (oadd O (oadd O (omul O (vcomp i (ta t)) (vcomp j (ta t)))
                         (omul O (vcomp i (tb t)) (vcomp j (tb t))))
                 (omul O (vcomp i (tc t)) (vcomp j (tc t))))
         (omul O (s1 i t) (s1 j t))).
  Definition cone0 (TT : list tri) : T := osum O (map m0 TT).
  Definition cone1 (i : nat) (TT : list tri) : T := osum O (map (m1 i) TT).
  Definition cone2 (i j : nat) (TT : list tri) : T := osum O (map (m2 i j) TT).

  (* exact centroid and exact inertia tensor about the global origin *)
  Definition spec_centroid (i : nat) (TT : list tri) : T := odiv O (cone1 i TT) (cone0 TT).
  (* inertia tensor entry (i,j): delta_ij * trace(P) - P_ij  with P = second moments *)
  Definition spec_inertia (i j : nat) (TT : list tri) : T :=
    if Nat.eqb i j
    then osub O (oadd O (oadd O (cone2 0 0 TT) (cone2 1 1 TT)) (cone2 2 2 TT)) (cone2 i i TT)
    else oopp O (cone2 i j TT).

  (* ---------- ConvexPolyhedron code ---------- *)
  (* _calculate_signed_volume: sum(det(vertices[simplices]) / 6) *)
  Definition signed_volume (TT : list tri) : T :=
    osum O (map (fun t => odiv O (tdet t) (ofromZ O 6)) TT).

  (* n = cross(b - a, c - a) *)
  Definition tnormal (t : tri) : V3 := vcross O (vsub O (tb t) (ta t)) (vsub O (tc t) (ta t)).

  (* _centroid_from_triangulated_surface:
       1/(48 V) * sum(n * ((a+b)^2 + (b+c)^2 + (a+c)^2))   (componentwise squares) *)
  Definition cterm (i : nat) (t : tri) : T :=
    let a := vcomp i (ta t) in let b := vcomp i (tb t) in let c := vcomp i (tc t) in
    omul O (vcomp i (tnormal t))
      (oadd O (oadd O (osq O (oadd O a b)) (osq O (oadd O b c))) (osq O (oadd O a c))).
  Definition centroid_code (vol : T) (i : nat) (TT : list tri) : T :=
    omul O (odiv O (o1 O) (omul O (ofromZ O 48) vol)) (osum O (map (cterm i) TT)).

  (* _compute_inertia_tensor: quadrature points and weights *)
  Definition lin3 (ka kb kc : T) (d : T) (t : tri) : V3 :=
    vscale O (odiv O (o1 O) d)
      (vadd O (vadd O (vscale O ka (ta t)) (vscale O kb (tb t))) (vscale O kc (tc t))).
  Definition qpts (t : tri) : list V3 :=
    let f53 := cst 5 3 in let one := o1 O in let three := ofromZ O 3 in let five := ofromZ O 5 in
    [ lin3 f53 f53 f53 five t; lin3 one one three five t;
      lin3 three one one five t; lin3 one three one five t ].
  Definition qw : list T := [cst (-9) 16; cst 25 48; cst 25 48; cst 25 48].
  Definition quad (f : V3 -> T) (t : tri) : T :=
    osum O (map (fun wq => omul O (fst wq) (f (snd wq))) (combine qw (qpts t))).
  (* i_nn contribution of coordinate i:  n_i * at * sum_k w_k q_i^3   (n*at = tnormal) *)
  Definition inn (i : nat) (t : tri) : T :=
    omul O (vcomp i (tnormal t)) (quad (fun q => omul O (osq O (vcomp i q)) (vcomp i q)) t).
  Definition inm (i j : nat) (t : tri) : T :=
    oadd O
      (omul O (vcomp i (tnormal t)) (quad (fun q => omul O (osq O (vcomp i q)) (vcomp j q)) t))
      (omul O (vcomp j (tnormal t)) (quad (fun q => omul O (vcomp i q) (osq O (vcomp j q))) t)).
  (* second moment P_ii as the code computes it (the /6), and P_ij (the /8) *)
  Definition Pdiag_code (i : nat) (TT : list tri) : T :=
    odiv O (osum O (map (inn i) TT)) (ofromZ O 6).
  Definition Poff_code (i j : nat) (TT : list tri) : T :=
    odiv O (osum O (map (inm i j) TT)) (ofromZ O 8).
  (* the (i,j) entry of _compute_inertia_tensor(centered=False) on triangles TT *)
  Definition inertia_raw (i j : nat) (TT : list tri) : T :=
    if Nat.eqb i j
    then osub O (oadd O (oadd O (Pdiag_code 0 TT) (Pdiag_code 1 TT)) (Pdiag_code 2 TT))
                (Pdiag_code i TT)
    else oopp O (Poff_code i j TT).
  (* translate_inertia_tensor(displacement c, I, volume): I + V (|c|^2 delta - c c^T) *)
  Definition translate_entry (c : V3) (vol : T) (i j : nat) (x : T) : T :=
    oadd O x (omul O vol
      (osub O (if Nat.eqb i j then vdot O c c else o0 O) (omul O (vcomp i c) (vcomp j c)))).
  (* ConvexPolyhedron.inertia_tensor: centred quadrature, then parallel axis *)
  Definition inertia_code (vol : T) (c : V3) (i j : nat) (TT : list tri) : T :=
    translate_entry c vol i j (inertia_raw i j (map (tshift c) TT)).

  (* triangle "areas": the model returns 4*area^2 = |N|^2, the harness takes sqrt *)
  Definition tri_n2 (t : tri) : T := vnorm2 O (vcross O (vsub O (tc t) (tb t)) (vsub O (ta t) (tb t))).

  (* hull certificate: max over triangles t and vertices v of det(b-a, c-a, v-a);
     <= 0 iff every vertex lies in the closed inner half-space of every triangle plane *)
  Definition plane_side (t : tri) (v : V3) : T :=
    vdet O (vsub O (tb t) (ta t)) (vsub O (tc t) (ta t)) (vsub O v (ta t)).
  Definition plane_excess (V : list V3) (t : tri) : T :=
    fold_right (fun v acc => omax O (plane_side t v) acc) (o0 O) V.
  Definition hull_excess (V : list V3) (TT : list tri) : T :=
    fold_right (fun t acc => omax O (plane_excess V t) acc) (o0 O) TT.

  (* ---------- Polyhedron code (general meshes) ---------- *)
  (* Eberly centroid: per triangle  volume += n_x f1_x ; center += n * f2 ; centroid = center/volume/4 *)
  Definition ef1 (i : nat) (t : tri) : T := s1 i t.
  Definition ef2 (i : nat) (t : tri) : T :=
    let a := vcomp i (ta t) in let b := vcomp i (tb t) in let c := vcomp i (tc t) in
    oadd O (oadd O (omul O a a) (omul O b (oadd O a b))) (omul O c (oadd O (oadd O a b) c)).
  Definition eberly_vol (TT : list tri) : T :=
    osum O (map (fun t => omul O (vcomp 0 (tnormal t)) (ef1 0 t)) TT).
  Definition eberly_center (i : nat) (TT : list tri) : T :=
    osum O (map (fun t => omul O (vcomp i (tnormal t)) (ef2 i t)) TT).
  Definition eberly_centroid (i : nat) (TT : list tri) : T :=
    odiv O (odiv O (eberly_center i TT) (eberly_vol TT)) (ofromZ O 4).

  (* Kallay inertia: volumes = f(det)/6 with f = abs (code as found) or id (signed) *)
  Definition kallay_f (i j : nat) (v : V3) : T :=
    if Nat.eqb i j
    then osub O (vdot O v v) (omul O (vcomp i v) (vcomp i v))
    else oopp O (omul O (vcomp i v) (vcomp j v)).
  Definition kallay_term (useabs : bool) (i j : nat) (t : tri) : T :=
    let vol := odiv O (if useabs then oabs O (tdet t) else tdet t) (ofromZ O 6) in
    omul O (odiv O vol (ofromZ O 20))
      (oadd O (oadd O (oadd O (kallay_f i j (ta t)) (kallay_f i j (tb t))) (kallay_f i j (tc t)))
              (kallay_f i j (vadd O (vadd O (ta t) (tb t)) (tc t)))).
  Definition kallay_raw (useabs : bool) (i j : nat) (TT : list tri) : T :=
    osum O (map (kallay_term useabs i j) TT).
  Definition kallay_inertia (useabs : bool) (vol : T) (c : V3) (i j : nat) (TT : list tri) : T :=
    translate_entry c vol i j (kallay_raw useabs i j (map (tshift c) TT)).

  (* fan triangulation of a face given as an index cycle *)
  Fixpoint fan_from (i0 : nat) (l : list nat) : list (nat * nat * nat) :=
    match l with
    | j :: ((k :: _) as r) => (i0, j, k) :: fan_from i0 r
    | _ => []
    end.
  Definition fan (f : list nat) : list (nat * nat * nat) :=
    match f with [] => [] | i0 :: r => fan_from i0 r end.
  Definition fans (F : list (list nat)) : list (nat * nat * nat) := flat_map fan F.

  (* closedness of an index-triangle list, decided on indices *)
  Definition tedges_idx (t : nat * nat * nat) : list (nat * nat) :=
    [(fst (fst t), snd (fst t)); (snd (fst t), snd t); (snd t, fst (fst t))].
End Mesh.
