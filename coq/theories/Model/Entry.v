(* Q-instantiated entry points of the executable model, all with one uniform
   signature so that a single small OCaml driver (or a generated cases.v) can run
   them:  dispatch id scalars coords indices : option (list Q). *)
From Coq Require Import List ZArith QArith Bool.
Require Import Cox.Num.Ops Cox.Geo.Vec Cox.Model.Mesh Cox.Model.Polygon Cox.Model.Inside Cox.Model.Sphero Cox.Model.Curved Cox.Model.Structure Cox.Model.Balls Cox.Model.Simple Cox.Model.Roundtrip Cox.Model.MeshIO Cox.Model.Families Cox.Num.Qsqrt5 Cox.Gen.Planes.
Import ListNotations.

Fixpoint group3 (l : list Q) : list (vec3 Q) :=
  match l with x :: y :: z :: r => (x, y, z) :: group3 r | _ => [] end.
Fixpoint group2 (l : list Q) : list (vec2 Q) :=
  match l with x :: y :: r => (x, y) :: group2 r | _ => [] end.
Definition tri_of (l : list nat) : nat * nat * nat :=
  match l with i :: j :: k :: _ => (i, j, k) | _ => (0, 0, 0)%nat end.
Definition b2q (b : bool) : Q := if b then 1 else 0.
Definition z2q (z : Z) : Q := inject_Z z.
Definition v3l (v : vec3 Q) : list Q := [vx v; vy v; vz v].
Definition ij6 : list (nat * nat) := [(0,0); (1,1); (2,2); (0,1); (0,2); (1,2)]%nat.

(* closedness decided on index triangles *)
Definition edge_eqb (e f : nat * nat) : bool :=
  Nat.eqb (fst e) (fst f) && Nat.eqb (snd e) (snd f).
Definition count_edge (e : nat * nat) (E : list (nat * nat)) : nat :=
  length (filter (edge_eqb e) E).
Definition closedb (tr : list (nat * nat * nat)) : bool :=
  let E := flat_map tedges_idx tr in
  forallb (fun e => Nat.eqb (count_edge e E) (count_edge (snd e, fst e) E)) E.

Section Entries.
  Let O := Qops.

  (* 1: ConvexPolyhedron code on given triangles *)
  Definition e_mesh_code (qs : list Q) (idx : list (list nat)) : list Q :=
    let V := group3 qs in let tr := map tri_of idx in let TT := resolve O V tr in
    let sv := signed_volume O TT in
    let vol := oabs O sv in
    let c := (centroid_code O vol 0 TT, centroid_code O vol 1 TT, centroid_code O vol 2 TT) in
    [b2q (closedb tr); sv; hull_excess O V TT] ++ v3l c
      ++ map (fun ij => inertia_code O vol c (fst ij) (snd ij) TT) ij6
      ++ map (tri_n2 O) TT.

  (* 2: exact specification on given triangles *)
  Definition e_mesh_spec (qs : list Q) (idx : list (list nat)) : list Q :=
    let V := group3 qs in let tr := map tri_of idx in let TT := resolve O V tr in
    [b2q (closedb tr); cone0 O TT]
      ++ [spec_centroid O 0 TT; spec_centroid O 1 TT; spec_centroid O 2 TT]
      ++ map (fun ij => spec_inertia O (fst ij) (snd ij) TT) ij6.

  (* 6: volume and centroid only (no closedness test: for large meshes whose closedness is checked elsewhere) *)
  Definition e_mesh_moments (qs : list Q) (idx : list (list nat)) : list Q :=
    let V := group3 qs in let TT := resolve O V (map tri_of idx) in
    [1; cone0 O TT; spec_centroid O 0 TT; spec_centroid O 1 TT; spec_centroid O 2 TT].

  (* 3: exact centroid of a planar face given as coplanar triangles: weights N_t . N_ref *)
  Definition e_face_centroid (qs : list Q) (idx : list (list nat)) : list Q :=
    let V := group3 qs in let TT := resolve O V (map tri_of idx) in
    match TT with
    | [] => []
    | t0 :: _ =>
      let nref := tnormal O t0 in
      let w t := vdot O (tnormal O t) nref in
      let W := osum O (map w TT) in
      map (fun i => odiv O (osum O (map (fun t => omul O (w t) (odiv O (s1 O i t) (ofromZ O 3))) TT)) W)
          [0; 1; 2]%nat
    end.

  (* 4: Polyhedron code on given triangles; scalars = [vol used for the parallel axis] *)
  Definition e_poly_code (sc qs : list Q) (idx : list (list nat)) : list Q :=
    let V := group3 qs in let tr := map tri_of idx in let TT := resolve O V tr in
    let vol := nth 0 sc 0 in
    let c := (eberly_centroid O 0 TT, eberly_centroid O 1 TT, eberly_centroid O 2 TT) in
    [b2q (closedb tr); odiv O (eberly_vol O TT) (ofromZ O 6)] ++ v3l c
      ++ map (fun ij => kallay_inertia O true vol c (fst ij) (snd ij) TT) ij6
      ++ map (fun ij => kallay_inertia O false vol c (fst ij) (snd ij) TT) ij6.

  (* 5: fan triangulation of faces -> flat index list (as rationals) *)
  Definition e_fans (idx : list (list nat)) : list Q :=
    flat_map (fun t => [z2q (Z.of_nat (fst (fst t))); z2q (Z.of_nat (snd (fst t))); z2q (Z.of_nat (snd t))])
             (fans idx).

  (* 10: polygon in 3-space. sc = [has_normal; nx; ny; nz; useabs] *)
  Definition qtrue (q : Q) : bool := negb (Qeq_bool q 0).
  Definition e_polygon (sc qs : list Q) : list Q :=
    let V := group3 qs in
    let N := if qtrue (nth 0 sc 0) then (nth 1 sc 0, nth 2 sc 0, nth 3 sc 0) else pnormal O V in
    let useabs := qtrue (nth 4 sc 0) in
    let cc := pcentroid_code O useabs N V in
    let cs := pcentroid_spec O N V in
    [vdot O N N; sa_coef O N V; sa_spec_coef O N V] ++ v3l cc ++ v3l cs
      ++ [polar_coef O N cc V; polar_coef O N cs V] ++ v3l N ++ edge_n2 O V.

  (* 11: polygon in the xy-plane (+z normal): planar moments, code as found / repaired / spec *)
  Definition e_polygon_planar (qs : list Q) : list Q :=
    let V := group3 qs in
    planar_moments O true V ++ planar_moments O false V ++ planar_moments_spec O V ++ [Sa O V].

  (* 12: Polyhedron faces: per face [(-d)A term; |sa_coef|; N.N] *)
  Definition e_poly_faces (qs : list Q) (idx : list (list nat)) : list Q :=
    let V := group3 qs in
    flat_map (fun f => let F := map (getv O V) f in
                       let ap := face_area_parts O F in
                       [face_vol_term O F; fst ap; snd ap]) idx.

  (* 20: convex containment. sc = points, qs = vertices, idx = faces *)
  Definition e_inside_convex (sc qs : list Q) (idx : list (list nat)) : list Q :=
    let V := group3 qs in
    flat_map (fun p => [b2q (inside_halfspaces O V idx p); max_side O V idx p]) (group3 sc).

  (* 21: 2-D winding. sc = points (x y ...), qs = polygon (x y ...) *)
  Definition e_winding2 (sc qs : list Q) : list Q :=
    let V := group2 qs in
    flat_map (fun p => [b2q (inside_polygon O p V); b2q (crossing_parity O p V); z2q (turn_sum O p V);
                        boundary_dist2 O p V]) (group2 sc).

  (* 22: 3-D winding. sc = apex o ++ points, qs = vertices, idx = triangles *)
  Definition e_winding3 (sc qs : list Q) (idx : list (list nat)) : list Q :=
    let V := group3 qs in let TT := resolve O V (map tri_of idx) in
    match group3 sc with
    | [] => []
    | o :: pts =>
      flat_map (fun p => [b2q (inside_polyhedron O p TT); z2q (cover O o p TT);
                          b2q (cover_degenerate O o p TT); z2q (chain_sum O p TT)]) pts
    end.

  (* 23: squared distance to a triangulated surface. sc = points *)
  Definition e_dist2_mesh (sc qs : list Q) (idx : list (list nat)) : list Q :=
    let V := group3 qs in let TT := resolve O V (map tri_of idx) in
    map (fun p => surface_dist2 O p TT) (group3 sc).

  (* 26: ConvexSpheropolyhedron.is_inside as the code decides it. sc = r^2 :: points, qs = vertices, idx = faces (ccw from outside):
        certificate (Model/Sphero.v sphero_certb) :: per point [accepted; in the core; number of faces looked at] *)
  Definition e_sphero_inside (sc qs : list Q) (idx : list (list nat)) : list Q :=
    let V := group3 qs in let Fs := map (fun f => map (getv O V) f) idx in
    match sc with
    | [] => []
    | r2 :: pts =>
      b2q (sphero_certb O Fs) ::
      flat_map (fun p => [b2q (sphero_inside O r2 Fs p); b2q (in_core O Fs p);
                          z2q (Z.of_nat (length (filter (fun F => to_check O r2 F p) Fs)))]) (group3 pts)
    end.

  (* 24: ellipsoid/sphere containment. sc = [c(3); s(3)] ++ points *)
  Definition e_inside_ellipsoid (sc : list Q) : list Q :=
    match group3 sc with
    | c :: s :: pts => map (fun p => b2q (inside_ellipsoid O c s p)) pts
    | _ => []
    end.

  (* 25: ellipse containment. sc = [cx; cy; a; b] ++ points (x y ...) -> per point [box test as found; exact] *)
  Definition e_ellipse (sc : list Q) : list Q :=
    match sc with
    | cx :: cy :: a :: b :: pts =>
      flat_map (fun p => [b2q (inside_ellipse_box O (cx, cy) a b p); b2q (inside_ellipse O (cx, cy) a b p)]) (group2 pts)
    | _ => []
    end.

  (* 30: curved shapes. sc = [a; b; c; cx; cy; cz] -> coefficients of pi (and ecc^2) *)
  Definition e_curved (sc : list Q) : list Q :=
    let a := nth 0 sc 0 in let b := nth 1 sc 0 in let c := nth 2 sc 0 in
    let cx := nth 3 sc 0 in let cy := nth 4 sc 0 in let cz := nth 5 sc 0 in
    let ms := ell_moments O true a b cx cy in let mf := ell_moments O false a b cx cy in
    [ell_area O a b; ell_ecc2 O a b;
     fst (fst ms); snd (fst ms); snd ms; fst (fst mf); snd (fst mf); snd mf; ell_polar O a b cx cy;
     eld_volume O a b c; sph_area O a] ++ eld_inertia O a b c cx cy cz.

  Definition n2q (n : nat) : Q := z2q (Z.of_nat n).
  (* 40: structure of a polyhedron. qs = vertices, idx = faces.
     output: [manifold; euler; #edges; #faces*4 certificate numbers ...] then neighbours encoded
     as  -1-separated lists, then edges as pairs *)
  Definition e_structure (qs : list Q) (idx : list (list nat)) : list Q :=
    let V := group3 qs in let nv := length V in
    [b2q (manifold_edges idx); z2q (euler idx); n2q (length (edges_lt idx)); n2q (length idx)]
      ++ flat_map (face_cert O V nv) idx
      ++ flat_map (fun l => map n2q l ++ [z2q (-1)]) (neighbors_of idx)
      ++ flat_map (fun e => [n2q (fst e); n2q (snd e)]) (edges_lt idx).
  (* 41: per-edge data for dihedral angles / mean curvature *)
  Definition e_edge_data (qs : list Q) (idx : list (list nat)) : list Q :=
    concat (edge_data O (group3 qs) idx).

  (* 45: candidate ball. sc = [cx; cy; cz], qs = vertices, idx = faces ->
     [n; |v_i - c|^2 ...; then per face (N.(c - v0); N.N) ...] *)
  Definition e_balls (sc qs : list Q) (idx : list (list nat)) : list Q :=
    let V := group3 qs in
    let c := (nth 0 sc 0, nth 1 sc 0, nth 2 sc 0) in
    [n2q (length V)] ++ dist2s O V c
      ++ flat_map (fun m => [fst m; snd m]) (plane_margins O V idx c).
  (* 46: exact circumsphere / circumcircle solve. sc = [] (polyhedron) or [nx; ny; nz] (polygon) ->
     [solvable; x(3) = centre - v0; residual^2] *)
  Definition e_circum (sc qs : list Q) : list Q :=
    let V := group3 qs in
    let extra := match sc with nx :: ny :: nz :: _ => Some (nx, ny, nz) | _ => None end in
    match circum_solve O V extra with
    | None => [0]
    | Some xr => [1] ++ v3l (fst xr) ++ [snd xr]
    end.

  (* 47: simplicity of a planar cycle. qs = (x y ...) -> [simple; has_duplicates] *)
  Definition e_simple (qs : list Q) : list Q :=
    let V := group2 qs in [b2q (simple_bf O V); b2q (has_duplicates O V); b2q (proper_cross_bf O V); b2q (touch_bf O V)].

  (* 60: GSD class dispatch. sc = [type code 0..6; has_rr; dims; convex] -> [class code 0..9 | -1 (ValueError)] *)
  Definition e_gsd_dispatch (sc : list Q) : list Q :=
    let code := Qnum (nth 0 sc 0) in
    let t := match code with
             | 0 => TSphere | 1 => TEllipsoid | 2 => TPolygon | 3 => TConvexPolyhedron | 4 => TMesh | 5 => TUnknown | _ => TMissing
             end%Z in
    let dims := Z.to_nat (Qnum (nth 2 sc 0)) in
    match dispatch_class t (qtrue (nth 1 sc 0)) dims (qtrue (nth 3 sc 0)) with
    | None => [z2q (-1)]
    | Some k => [z2q (match k with KCircle => 0 | KEllipse => 1 | KSphere => 2 | KEllipsoid => 3 | KPolygon => 4 | KConvexPolygon => 5
                              | KConvexSpheropolygon => 6 | KPolyhedron => 7 | KConvexPolyhedron => 8 | KConvexSpheropolyhedron => 9 end)]
    end.

  (* 70: mesh-file parsers on token lines. sc = [format: 0 OBJ, 1 OFF, 2 PLY, 3 VTK, 4 X3D coordIndex, 5 STL (then sc = [5; nv])];
     idx = lines, tokens encoded as 4n (N n), 4id+1 (F id), 4c+2 (K c), 3 (-1).
     output: [0] (rejected) | [1; nv; f0 corners..., -1, f1 corners..., -1, ...]  (X3D: [1; 0; face sizes...]) *)
  Definition dec_tok (n : nat) : tok :=
    match Nat.modulo n 4 with
    | 0 => MeshIO.N (Nat.div n 4) | 1 => MeshIO.F (Nat.div n 4) | 2 => MeshIO.K (Nat.div n 4) | _ => Minus1
    end%nat.
  Definition enc_mesh (m : option mesh) : list Q :=
    match m with
    | None => [0]
    | Some m => [1; n2q (nv m)] ++ flat_map (fun f => map n2q f ++ [z2q (-1)]) (MeshIO.faces m)
    end.
  Definition e_meshio (sc : list Q) (idx : list (list nat)) : list Q :=
    let ls := map (map dec_tok) idx in
    match Qnum (nth 0 sc 0) with
    | 0%Z => enc_mesh (parse_obj ls)
    | 1%Z => enc_mesh (parse_off ls)
    | 2%Z => enc_mesh (parse_ply ls)
    | 3%Z => enc_mesh (parse_vtk ls)
    | 5%Z => match parse_stl (Z.to_nat (Qnum (nth 1 sc 0))) ls with      (* STL: sc = [5; nv]; output [1; a b c a b c ...] *)
             | Some ts => [1] ++ flat_map (fun t => [n2q (fst (fst t)); n2q (snd (fst t)); n2q (snd t)]) ts
             | None => [0] end
    | _ => match ls with
           | [l] => match x3d_parse (S (length l)) 0 0 l with
                    | Some sizes => [1; 0] ++ map n2q sizes
                    | None => [0] end
           | _ => [0]
           end
    end.

  (* 50: truncation families. sc = [family 323/423/523; a; c] (a, c dyadic rationals) ->
     [in_domain; n; then per exact vertex x y z as (rational, sqrt5) pairs: 6 numbers] *)
  Definition e_family (sc : list Q) : list Q :=
    let fam := Qnum (nth 0 sc 0) in
    let a := s5_of_Q (nth 1 sc 0) in let c := s5_of_Q (nth 2 sc 0) in
    let pick := match fam with
                | 323%Z => Some (planes_323, types_323, b_323, domain_323)
                | 423%Z => Some (planes_423, types_423, b_423, domain_423)
                | 523%Z => Some (planes_523, types_523, b_523, domain_523)
                | _ => None end in
    match pick with
    | None => []
    | Some (pl, ty, b, dom) =>
      let vs := exact_vertices S5ops (combine pl ty) (a, b, c) in
      [b2q (in_domain S5ops dom a c); n2q (length vs)]
        ++ flat_map (fun v => [ra (vx v); rb (vx v); ra (vy v); rb (vy v); ra (vz v); rb (vz v)]) vs
    end.
End Entries.

Definition dispatch (f : nat) (sc qs : list Q) (idx : list (list nat)) : option (list Q) :=
  match f with
  | 1 => Some (e_mesh_code qs idx)
  | 2 => Some (e_mesh_spec qs idx)
  | 3 => Some (e_face_centroid qs idx)
  | 4 => Some (e_poly_code sc qs idx)
  | 5 => Some (e_fans idx)
  | 6 => Some (e_mesh_moments qs idx)
  | 10 => Some (e_polygon sc qs)
  | 11 => Some (e_polygon_planar qs)
  | 12 => Some (e_poly_faces qs idx)
  | 20 => Some (e_inside_convex sc qs idx)
  | 21 => Some (e_winding2 sc qs)
  | 22 => Some (e_winding3 sc qs idx)
  | 23 => Some (e_dist2_mesh sc qs idx)
  | 24 => Some (e_inside_ellipsoid sc)
  | 26 => Some (e_sphero_inside sc qs idx)
  | 25 => Some (e_ellipse sc)
  | 30 => Some (e_curved sc)
  | 40 => Some (e_structure qs idx)
  | 41 => Some (e_edge_data qs idx)
  | 45 => Some (e_balls sc qs idx)
  | 46 => Some (e_circum sc qs)
  | 47 => Some (e_simple qs)
  | 50 => Some (e_family sc)
  | 60 => Some (e_gsd_dispatch sc)
  | 70 => Some (e_meshio sc idx)
  | _ => None
  end%nat.
