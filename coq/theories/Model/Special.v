(* Special functions that the curved-shape formulas refer to, as Riemann integrals
   (Coquelicot).  scipy.special.ellipe(m) is Legendre's complete elliptic integral of the
   second kind with PARAMETER m: E(m) = int_0^{pi/2} sqrt(1 - m sin^2 t) dt. *)
From Coq Require Import Reals.
From Coquelicot Require Import Coquelicot.
Local Open Scope R_scope.

Definition EllipE (m : R) : R := RInt (fun t => sqrt (1 - m * (sin t) ^ 2)) 0 (PI / 2).
(* incomplete integrals used by Ellipsoid.surface_area: ellipeinc(phi, m), ellipkinc(phi, m) *)
Definition EllipEinc (phi m : R) : R := RInt (fun t => sqrt (1 - m * (sin t) ^ 2)) 0 phi.
Definition EllipFinc (phi m : R) : R := RInt (fun t => / sqrt (1 - m * (sin t) ^ 2)) 0 phi.

(* numpy.sinc(x) = sin(pi x) / (pi x) (numpy defines the value 1 at x = 0; the formulas that use it are only evaluated at x <> 0) *)
Definition sinc_np (x : R) : R := sin (PI * x) / (PI * x).
