(* Decision procedure for simplicity of a closed vertex cycle in the plane (C15): no two
   non-adjacent edges share a point; adjacent edges share only their common endpoint.
   This IS the definition of a simple polygon, evaluated exactly. *)
From Coq Require Import List Bool Arith.
Require Import Cox.Num.Ops Cox.Geo.Vec.
Import ListNotations.

Section Simple.
  Context {T : Type} (O : Ops T).
  Notation V2 := (vec2 T).

  Definition orient (a b c : V2) : T := pcross O (psub O b a) (psub O c a).
  Definition pos (x : T) : bool := oltb O (o0 O) x.
  Definition neg (x : T) : bool := oltb O x (o0 O).
  Definition zero (x : T) : bool := oeqb O x (o0 O).
  Definition opposite (x y : T) : bool := (pos x && neg y) || (neg x && pos y).
  (* c lies in the bounding box of segment ab (used only when a, b, c are collinear) *)
  Definition in_box (a b c : V2) : bool :=
    oleb O (omin O (px a) (px b)) (px c) && oleb O (px c) (omax O (px a) (px b))
    && oleb O (omin O (py a) (py b)) (py c) && oleb O (py c) (omax O (py a) (py b)).
  (* closed segments ab and cd have a common point *)
  Definition seg_meet (a b c d : V2) : bool :=
    let d1 := orient c d a in let d2 := orient c d b in
    let d3 := orient a b c in let d4 := orient a b d in
    (opposite d1 d2 && opposite d3 d4)
    || (zero d1 && in_box c d a) || (zero d2 && in_box c d b)
    || (zero d3 && in_box a b c) || (zero d4 && in_box a b d).
  (* consecutive edges ab, bc overlap beyond their common endpoint b: c on the ray from b through a *)
  Definition fold_back (a b c : V2) : bool :=
    zero (orient a b c) && pos (pdot O (psub O a b) (psub O c b)).

  Definition veq (a b : V2) : bool := oeqb O (px a) (px b) && oeqb O (py a) (py b).

  (* edges as (index, a, b) *)
  Fixpoint index_edges (k : nat) (E : list (V2 * V2)) : list (nat * (V2 * V2)) :=
    match E with [] => [] | e :: r => (k, e) :: index_edges (S k) r end.
  Definition simple_bf (V : list V2) : bool :=
    let n := length V in
    let E := index_edges 0 (cpairs V) in
    Nat.leb 3 n &&
    forallb (fun ei =>
      forallb (fun ej =>
        let i := fst ei in let j := fst ej in
        if Nat.leb j i then true
        else
          let a := fst (snd ei) in let b := snd (snd ei) in
          let c := fst (snd ej) in let d := snd (snd ej) in
          if Nat.eqb j (S i) then negb (fold_back a b d)                       (* b = c shared *)
          else if Nat.eqb i 0 && Nat.eqb (S j) n then negb (fold_back d a b)  (* d = a shared (closing edge) *)
          else negb (seg_meet a b c d)) E) E.
  (* two non-adjacent edges cross PROPERLY (interiors intersect transversally): clearly not simple *)
  Definition proper_cross_bf (V : list V2) : bool :=
    let n := length V in
    let E := index_edges 0 (cpairs V) in
    existsb (fun ei =>
      existsb (fun ej =>
        let i := fst ei in let j := fst ej in
        Nat.ltb (S i) j && negb (Nat.eqb i 0 && Nat.eqb (S j) n) &&
        (let a := fst (snd ei) in let b := snd (snd ei) in
         let c := fst (snd ej) in let d := snd (snd ej) in
         opposite (orient c d a) (orient c d b) && opposite (orient a b c) (orient a b d))) E) E.
  (* some pair of non-adjacent edges meets WITHOUT crossing properly (a vertex on another edge, collinear
     overlap), or adjacent edges fold back: the cycle sits on the boundary between simple and crossing *)
  Definition touch_bf (V : list V2) : bool :=
    let n := length V in
    let E := index_edges 0 (cpairs V) in
    existsb (fun ei =>
      existsb (fun ej =>
        let i := fst ei in let j := fst ej in
        let a := fst (snd ei) in let b := snd (snd ei) in
        let c := fst (snd ej) in let d := snd (snd ej) in
        if Nat.leb j i then false
        else if Nat.eqb j (S i) then fold_back a b d
        else if Nat.eqb i 0 && Nat.eqb (S j) n then fold_back d a b
        else seg_meet a b c d
             && negb (opposite (orient c d a) (orient c d b) && opposite (orient a b c) (orient a b d))) E) E.
  Definition has_duplicates (V : list V2) : bool :=
    existsb (fun ij => Nat.ltb (fst (fst ij)) (fst (snd ij)) && veq (snd (fst ij)) (snd (snd ij)))
            (list_prod (combine (seq 0 (length V)) V) (combine (seq 0 (length V)) V)).
End Simple.
