(* Executable model of Polygon measures (C04) and of the per-face quantities
   Polyhedron uses (C02): projection-based signed area, shoelace centroid in the
   aligned frame (written frame-free), planar/polar moments, inertia tensor.
   Irrational finishing steps are kept out: every quantity that involves |N| is
   returned as a rational coefficient of sqrt(N.N) (or of 1/sqrt(N.N)).        *)
From Coq Require Import List ZArith Bool.
Require Import Cox.Num.Ops Cox.Geo.Vec.
Import ListNotations.

(* (p+1) mod 3 for p < 3 *)
Definition next3 (p : nat) : nat := match p with 0%nat => 1%nat | 1%nat => 2%nat | _ => 0%nat end.

Section Polygon.
  Context {T : Type} (O : Ops T).
  Notation V3 := (vec3 T).

  Definition hd3 (l : list V3) : V3 := nth 0 l (vzero O).
  (* default normal of Polygon.__init__: cross(v2 - v1, v0 - v1), un-normalised *)
  Definition pnormal (V : list V3) : V3 :=
    vcross O (vsub O (nth 2 V (vzero O)) (nth 1 V (vzero O)))
             (vsub O (nth 0 V (vzero O)) (nth 1 V (vzero O))).

  (* np.argmax(np.abs(normal)): first index of the maximum *)
  Definition argmax3 (n : V3) : nat :=
    let a := oabs O (vx n) in let b := oabs O (vy n) in let c := oabs O (vz n) in
    if oleb O b a && oleb O c a then 0%nat else if oleb O c b then 1%nat else 2%nat.

  (* triples (v_i, v_{i+1}, v_{i+2}) of the cycle *)
  Definition ctriples (V : list V3) : list (V3 * (V3 * V3)) :=
    combine V (combine (roll V) (roll (roll V))).

  (* sum( roll(v,-1)[:,c1] * (roll(v,-2)[:,c2] - v[:,c2]) ) *)
  Definition sproj (p : nat) (V : list V3) : T :=
    let c1 := next3 p in let c2 := next3 (next3 p) in
    osum O (map (fun t => omul O (vcomp c1 (fst (snd t)))
                                 (osub O (vcomp c2 (snd (snd t))) (vcomp c2 (fst t))))
                (ctriples V)).

  (* signed_area = sa_coef * sqrt(N.N)   (code: area * |n| / (2 n_proj), n = N/|N|) *)
  Definition sa_coef (N : V3) (V : list V3) : T :=
    let p := argmax3 N in odiv O (sproj p V) (omul O (ofromZ O 2) (vcomp p N)).

  (* twice the vector area: sum v_i x v_{i+1} *)
  Definition A2 (V : list V3) : V3 :=
    fold_right (fun e acc => vadd O (vcross O (fst e) (snd e)) acc) (vzero O) (cpairs V).
  (* exact signed area about N:  (N . A2) / (2 |N|)  = sa_spec_coef * sqrt(N.N) *)
  Definition sa_spec_coef (N : V3) (V : list V3) : T :=
    odiv O (vdot O N (A2 V)) (omul O (ofromZ O 2) (vdot O N N)).

  (* squared edge lengths (perimeter = sum of their square roots) *)
  Definition edge_n2 (V : list V3) : list T :=
    map (fun e => vnorm2 O (vsub O (snd e) (fst e))) (cpairs V).

  (* in-plane projector P w = w - N (N.w)/(N.N) *)
  Definition proj_plane (N w : V3) : V3 :=
    vsub O w (vscale O (odiv O (vdot O N w) (vdot O N N)) N).

  (* N . (v_i x v_{i+1}) : |N| times the shoelace term of the aligned frame *)
  Definition dterm (N : V3) (e : V3 * V3) : T := vdot O N (vcross O (fst e) (snd e)).

  (* centroid (frame-free form of: rotate, shoelace, / (6 area), mean z, rotate back).
     [coef] is the area coefficient the code divides by: |sa_coef| as found, sa_coef
     (signed) in the repaired code and in the spec. *)
  Definition pcentroid_with (coef : T) (N : V3) (V : list V3) : V3 :=
    let NN := vdot O N N in
    let S := fold_right (fun e acc =>
               vadd O (vscale O (dterm N e) (proj_plane N (vadd O (fst e) (snd e)))) acc)
             (vzero O) (cpairs V) in
    let inplane := vscale O (odiv O (o1 O) (omul O (omul O (ofromZ O 6) coef) NN)) S in
    let n := ofromZ O (Z.of_nat (length V)) in
    let meanh := odiv O (osum O (map (fun v => vdot O N v) V)) n in
    vadd O inplane (vscale O (odiv O meanh NN) N).
  Definition pcentroid_code (useabs : bool) (N : V3) (V : list V3) : V3 :=
    let c := sa_coef N V in pcentroid_with (if useabs then oabs O c else c) N V.
  Definition pcentroid_spec (N : V3) (V : list V3) : V3 :=
    pcentroid_with (sa_spec_coef N V) N V.

  (* ---- polygons in the xy-plane with +z normal: planar moments ---- *)
  Definition xy (v : V3) : vec2 T := (vx v, vy v).
  Definition sh (e : V3 * V3) : T := pcross O (xy (fst e)) (xy (snd e)).
  Definition sum_e (f : V3 * V3 -> T) (V : list V3) : T := osum O (map f (cpairs V)).
  Definition quad2 (a b : T) : T := oadd O (oadd O (omul O a a) (omul O a b)) (omul O b b).
  Definition Sx (V : list V3) : T :=   (* 12 * integral of y^2, orientation-signed *)
    sum_e (fun e => omul O (sh e) (quad2 (vy (fst e)) (vy (snd e)))) V.
  Definition Sy (V : list V3) : T :=
    sum_e (fun e => omul O (sh e) (quad2 (vx (fst e)) (vx (snd e)))) V.
  Definition Sxy (V : list V3) : T :=  (* 24 * integral of xy, orientation-signed *)
    sum_e (fun e =>
      let x0 := vx (fst e) in let y0 := vy (fst e) in let x1 := vx (snd e) in let y1 := vy (snd e) in
      omul O (sh e)
        (oadd O (oadd O (omul O x0 y1) (omul O (ofromZ O 2) (oadd O (omul O x0 y0) (omul O x1 y1))))
                (omul O x1 y0))) V.
  Definition Sa (V : list V3) : T := sum_e sh V.   (* 2 * signed area *)
  Definition sgnT (a : T) : T :=
    if oltb O a (o0 O) then oopp O (o1 O) else if oltb O (o0 O) a then o1 O else o0 O.
  (* (i_x, i_y, i_xy): [absxy] = code as found (abs on the product of inertia) *)
  Definition planar_moments (absxy : bool) (V : list V3) : list T :=
    let ix := odiv O (oabs O (Sx V)) (ofromZ O 12) in
    let iy := odiv O (oabs O (Sy V)) (ofromZ O 12) in
    let ixy := if absxy then odiv O (oabs O (Sxy V)) (ofromZ O 24)
               else odiv O (omul O (sgnT (Sa V)) (Sxy V)) (ofromZ O 24) in
    [ix; iy; ixy].
  Definition planar_moments_spec (V : list V3) : list T :=
    let s := sgnT (Sa V) in
    [odiv O (omul O s (Sx V)) (ofromZ O 12); odiv O (omul O s (Sy V)) (ofromZ O 12);
     odiv O (omul O s (Sxy V)) (ofromZ O 24)].

  (* ---- polar moment about the centroidal normal axis, any plane ----
     J = |sum_i (N.(u_i x u_{i+1})) (u_i.u_i + u_i.u_{i+1} + u_{i+1}.u_{i+1})| / (12 |N|),
     u = v - c.  Returned as the coefficient Jc with J = Jc / sqrt(N.N).        *)
  Definition polar_coef (N c : V3) (V : list V3) : T :=
    let U := map (fun v => vsub O v c) V in
    odiv O (oabs O (osum O (map (fun e =>
        omul O (dterm N e)
          (oadd O (oadd O (vdot O (fst e) (fst e)) (vdot O (fst e) (snd e))) (vdot O (snd e) (snd e))))
        (cpairs U)))) (ofromZ O 12).

  (* ---- Polyhedron per-face quantities ---- *)
  (* (-d_f) * A_f = (N.v0) |sproj| / (2 |N_p|)   : rational *)
  Definition face_vol_term (F : list V3) : T :=
    let N := pnormal F in let p := argmax3 N in
    odiv O (omul O (vdot O N (hd3 F)) (oabs O (sproj p F)))
           (omul O (ofromZ O 2) (oabs O (vcomp p N))).
  (* face area = |sa_coef| * sqrt(N.N): returns (|sa_coef|, N.N) *)
  Definition face_area_parts (F : list V3) : T * T :=
    let N := pnormal F in (oabs O (sa_coef N F), vdot O N N).
End Polygon.
