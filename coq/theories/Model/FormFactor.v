(* R-level model of Polygon.compute_form_factor_amplitude's line-integral formula (C12):
   complex numbers as pairs, the q != 0 branch as a sum over the edges of the vertex cycle. *)
From Coq Require Import Reals List.
Require Import Cox.Num.Ops Cox.Geo.Vec Cox.Model.Polygon.
Import ListNotations.
Local Open Scope R_scope.

Definition Cx := (R * R)%type.
Definition cadd (a b : Cx) : Cx := (fst a + fst b, snd a + snd b).
Definition cmul (a b : Cx) : Cx := (fst a * fst b - snd a * snd b, fst a * snd b + snd a * fst b).
Definition cscale (k : R) (a : Cx) : Cx := (k * fst a, k * snd a).
Definition copp (a : Cx) : Cx := (- fst a, - snd a).
Definition cconj (a : Cx) : Cx := (fst a, - snd a).
Definition cexp_i (t : R) : Cx := (cos t, sin t).          (* e^{i t} *)
Definition csum (l : list Cx) : Cx := fold_right cadd (0, 0) l.

Definition sincR (x : R) : R := if Req_EM_T x 0 then 1 else sin x / x.   (* np.sinc(x/pi) *)

Notation V3 := (vec3 R).
(* contribution of the edge a -> b:  -i ((e x q).n) sinc(q.e/2) e^{-i q.m} / q^2 *)
Definition edge_term (n q a b : V3) : Cx :=
  let e := vsub Rops b a in
  let m := vscale Rops (/ 2) (vadd Rops a b) in
  let c := vdot Rops (vcross Rops e q) n * sincR (vdot Rops q e / 2) / vdot Rops q q in
  cscale c (cmul (0, -1) (cexp_i (- vdot Rops q m))).
Definition polygon_ff (n q : V3) (V : list V3) : Cx :=
  csum (map (fun p => edge_term n q (fst p) (snd p)) (cpairs V)).

(* ---- Polyhedron.compute_form_factor_amplitude, q != 0 branch: a sum over the faces; each face is handed to the polygon formula with the
   wave vector projected into the face plane (qpar), multiplied by the phase of the out-of-plane component and by i (q.n) / q^2 ---- *)
Definition qpar (n q : V3) : V3 := vsub Rops q (vscale Rops (vdot Rops q n) n).
Definition face_ff (n q : V3) (V : list V3) : Cx :=
  let qn := vdot Rops q n in
  let d := vdot Rops n (hd (0, 0, 0) V) in
  cscale (qn / vdot Rops q q) (cmul (0, 1) (cmul (polygon_ff n (qpar n q) V) (cexp_i (- (qn * d))))).
Definition polyhedron_ff (q : V3) (F : list (V3 * list V3)) : Cx :=
  csum (map (fun f => face_ff (fst f) q (snd f)) F).

(* ---- the methods as written, including the orientation factor -sign(signed_area) of the polygon method (the minus sign is part of
   edge_term); these are the definitions the float-extracted executable runs against the implementation (Extract/ExtractR.v) ---- *)
Definition polygon_ff_code (n q : V3) (V : list V3) : Cx :=
  cscale (sgnT Rops (sa_coef Rops n V)) (polygon_ff n (qpar n q) V).
Definition face_ff_code (n q : V3) (V : list V3) : Cx :=
  let qn := vdot Rops q n in
  let d := vdot Rops n (hd (0, 0, 0) V) in
  cscale (qn / vdot Rops q q) (cmul (0, 1) (cmul (polygon_ff_code n q V) (cexp_i (- (qn * d))))).
Definition polyhedron_ff_code (q : V3) (F : list (V3 * list V3)) : Cx :=
  csum (map (fun f => face_ff_code (fst f) q (snd f)) F).
