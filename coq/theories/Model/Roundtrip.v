(* Model of the GSD dispatch (coxeter/shape_getters.py:from_gsd_type_shapes) and of gsd_shape_spec
   (C19).  Geometry is opaque (type [geo] of vertex lists / face lists, numbers [num]); the two
   facts about constructors the dispatch relies on are parameters of the section:
     conv V      : ConvexPolygon(V) accepts (V in convex position)
     reorder V   : the counter-clockwise re-ordering ConvexPolygon applies                      *)
From Coq Require Import List Bool Arith.
Import ListNotations.

Inductive gsd_type := TSphere | TEllipsoid | TPolygon | TConvexPolyhedron | TMesh | TUnknown | TMissing.
Inductive cls := KCircle | KEllipse | KSphere | KEllipsoid | KPolygon | KConvexPolygon | KConvexSpheropolygon
               | KPolyhedron | KConvexPolyhedron | KConvexSpheropolyhedron.

(* executable class dispatch: None = ValueError *)
Definition dispatch_class (t : gsd_type) (has_rr : bool) (dims : nat) (convex : bool) : option cls :=
  match t with
  | TMissing | TUnknown => None
  | TSphere => Some (if Nat.eqb dims 2 then KCircle else KSphere)
  | TEllipsoid => Some (if Nat.eqb dims 2 then KEllipse else KEllipsoid)
  | TPolygon => if has_rr then (if convex then Some KConvexSpheropolygon else None)
                else Some (if convex then KConvexPolygon else KPolygon)
  | TConvexPolyhedron => if convex then Some (if has_rr then KConvexSpheropolyhedron else KConvexPolyhedron) else None
  | TMesh => Some KPolyhedron
  end.

(* type string and rounding-radius key written by gsd_shape_spec of each class *)
Definition spec_type (k : cls) : gsd_type * bool :=
  match k with
  | KCircle | KSphere => (TSphere, false)
  | KEllipse | KEllipsoid => (TEllipsoid, false)
  | KPolygon | KConvexPolygon => (TPolygon, false)
  | KConvexSpheropolygon => (TPolygon, true)
  | KPolyhedron => (TMesh, false)
  | KConvexPolyhedron => (TConvexPolyhedron, false)
  | KConvexSpheropolyhedron => (TConvexPolyhedron, true)
  end.
Definition dims_of (k : cls) : nat :=
  match k with KCircle | KEllipse | KPolygon | KConvexPolygon | KConvexSpheropolygon => 2 | _ => 3 end.
(* is k' an acceptable result class for a shape of class k (same class or a subclass of it) *)
Definition same_or_sub (k k' : cls) : bool :=
  match k, k' with
  | KPolygon, KPolygon | KPolygon, KConvexPolygon => true
  | KPolyhedron, KPolyhedron | KPolyhedron, KConvexPolyhedron => true
  | KCircle, KCircle | KEllipse, KEllipse | KSphere, KSphere | KEllipsoid, KEllipsoid => true
  | KConvexPolygon, KConvexPolygon | KConvexSpheropolygon, KConvexSpheropolygon => true
  | KConvexPolyhedron, KConvexPolyhedron | KConvexSpheropolyhedron, KConvexSpheropolyhedron => true
  | _, _ => false
  end.
(* classes whose constructor demands convex position *)
Definition needs_convex (k : cls) : bool :=
  match k with KConvexPolygon | KConvexSpheropolygon | KConvexPolyhedron | KConvexSpheropolyhedron => true | _ => false end.

(* ---------- with parameters ---------- *)
Section Params.
  Variables (num geo faces : Type).
  Variable conv : geo -> bool.
  Variable reorder : geo -> geo.

  Inductive shape :=
  | Circle (r : num) | Ellipse (a b : num) | Sphere (r : num) | Ellipsoid (a b c : num)
  | Polygon (V : geo) | ConvexPolygon (V : geo) | ConvexSpheropolygon (V : geo) (r : num)
  | Polyhedron (V : geo) (F : faces) | ConvexPolyhedron (V : geo) | ConvexSpheropolyhedron (V : geo) (r : num).
  Inductive spec :=
  | SSphere (diameter : num) | SEllipsoid2 (a b : num) | SEllipsoid3 (a b c : num)
  | SPolygon (V : geo) (rr : option num) | SConvexPolyhedron (V : geo) (rr : option num) | SMesh (V : geo) (F : faces)
  | SUnknown | SMissing.
  Variables (twice half : num -> num).
  Hypothesis half_twice : forall x, half (twice x) = x.

  Definition gsd_spec (s : shape) : spec :=
    match s with
    | Circle r | Sphere r => SSphere (twice r)
    | Ellipse a b => SEllipsoid2 a b
    | Ellipsoid a b c => SEllipsoid3 a b c
    | Polygon V | ConvexPolygon V => SPolygon V None
    | ConvexSpheropolygon V r => SPolygon V (Some r)
    | Polyhedron V F => SMesh V F
    | ConvexPolyhedron V => SConvexPolyhedron V None
    | ConvexSpheropolyhedron V r => SConvexPolyhedron V (Some r)
    end.
  (* None = ValueError *)
  Definition from_gsd (p : spec) (dims : nat) : option shape :=
    match p with
    | SMissing | SUnknown => None
    | SSphere d => Some (if Nat.eqb dims 2 then Circle (half d) else Sphere (half d))
    | SEllipsoid2 a b => if Nat.eqb dims 2 then Some (Ellipse a b) else None   (* KeyError 'c' in 3-D *)
    | SEllipsoid3 a b c => Some (if Nat.eqb dims 2 then Ellipse a b else Ellipsoid a b c)
    | SPolygon V (Some r) => if conv V then Some (ConvexSpheropolygon (reorder V) r) else None
    | SPolygon V None => Some (if conv V then ConvexPolygon (reorder V) else Polygon V)
    | SConvexPolyhedron V (Some r) => if conv V then Some (ConvexSpheropolyhedron V r) else None
    | SConvexPolyhedron V None => if conv V then Some (ConvexPolyhedron V) else None
    | SMesh V F => Some (Polyhedron V F)
    end.
  Definition dim (s : shape) : nat :=
    match s with Circle _ | Ellipse _ _ | Polygon _ | ConvexPolygon _ | ConvexSpheropolygon _ _ => 2 | _ => 3 end.
  (* well-formed = what the constructors guarantee: convex classes hold vertices in convex position,
     stored in the order the constructor produces (a fixed point of the re-ordering) *)
  Definition wf (s : shape) : Prop :=
    match s with
    | ConvexPolygon V | ConvexSpheropolygon V _ => conv V = true /\ reorder V = V
    | ConvexPolyhedron V | ConvexSpheropolyhedron V _ => conv V = true
    | _ => True
    end.
  (* the expected result: identical, except that a Polygon holding a convex cycle is promoted *)
  Definition expected (s : shape) : shape :=
    match s with
    | Polygon V => if conv V then ConvexPolygon (reorder V) else Polygon V
    | _ => s
    end.
End Params.
