(* Writers and parsers of the exported mesh formats on TOKEN lines (C20).
   A lexer (harness, trusted, ~40 lines) splits the bytes the implementation wrote into lines of
   tokens: natural numbers, floating-point tokens (opaque: identified by their position in a table
   whose values the lexer compares with the polyhedron's coordinates as exact doubles), keywords.
   A mesh is (number of vertices, faces as vertex-index cycles); vertex i owns the float ids
   3i, 3i+1, 3i+2. *)
From Coq Require Import List Bool Arith.
Import ListNotations.

Inductive tok := N (n : nat) | F (id : nat) | K (code : nat) | Minus1.
Definition line := list tok.
Record mesh := { nv : nat; faces : list (list nat) }.

(* keyword codes (the lexer maps words to these; 0 = any other word) *)
Definition kV := 1. Definition kF := 2. Definition kOFF := 3. Definition kPLY := 4. Definition kFORMAT := 5.
Definition kASCII := 6. Definition kELEMENT := 7. Definition kVERTEX := 8. Definition kFACE := 9.
Definition kPROPERTY := 10. Definition kFLOAT := 11. Definition kX := 12. Definition kY := 13. Definition kZ := 14.
Definition kLIST := 15. Definition kUCHAR := 16. Definition kUINT := 17. Definition kVINDICES := 18.
Definition kENDHEADER := 19. Definition kDATASET := 20. Definition kPOLYDATA := 21. Definition kPOINTS := 22.
Definition kPOLYGONS := 23. Definition kVERSION1 := 24.

Definition tok_eqb (a b : tok) : bool :=
  match a, b with
  | N x, N y | F x, F y | K x, K y => Nat.eqb x y
  | Minus1, Minus1 => true
  | _, _ => false
  end.
Fixpoint line_eqb (a b : line) : bool :=
  match a, b with
  | [], [] => true
  | x :: r, y :: s => tok_eqb x y && line_eqb r s
  | _, _ => false
  end.

(* ---------- generic pieces ---------- *)
Definition vline (i : nat) : line := [F (3 * i); F (3 * i + 1); F (3 * i + 2)].
Definition vlines (n : nat) : list line := map vline (seq 0 n).
Fixpoint nats_of (l : line) : option (list nat) :=
  match l with
  | [] => Some []
  | N n :: r => match nats_of r with Some s => Some (n :: s) | None => None end
  | _ => None
  end.
(* the next n lines must be exactly the coordinate lines of vertices 0..n-1 (in order) *)
Fixpoint take_vlines (k n : nat) (ls : list line) : option (list line) :=
  match n with
  | O => Some ls
  | S n' => match ls with
            | l :: r => if line_eqb l (vline k) then take_vlines (S k) n' r else None
            | [] => None
            end
  end.
(* face lines "k i1 ... ik" with 0-based indices < nvert, k >= 3 *)
Definition face_line (f : list nat) : line := N (length f) :: map N f.
Definition parse_face_line (nvert : nat) (l : line) : option (list nat) :=
  match nats_of l with
  | Some (k :: idx) => if Nat.eqb k (length idx) && Nat.leb 3 k && forallb (fun i => Nat.ltb i nvert) idx then Some idx else None
  | _ => None
  end.
Fixpoint parse_faces (nvert m : nat) (ls : list line) : option (list (list nat) * list line) :=
  match m with
  | O => Some ([], ls)
  | S m' => match ls with
            | l :: r => match parse_face_line nvert l with
                        | Some f => match parse_faces nvert m' r with
                                    | Some (fs, rest) => Some (f :: fs, rest)
                                    | None => None end
                        | None => None end
            | [] => None
            end
  end.
Definition wf_mesh (m : mesh) : bool :=
  forallb (fun f => Nat.leb 3 (length f) && forallb (fun i => Nat.ltb i (nv m)) f) (faces m).

(* ---------- OFF (as the format defines it: "nv nf ne") ---------- *)
Definition write_off (m : mesh) (ne : nat) : list line :=
  [[K kOFF]; [N (nv m); N (length (faces m)); N ne]] ++ vlines (nv m) ++ map face_line (faces m).
Definition parse_off (ls : list line) : option mesh :=
  match ls with
  | [K c] :: [N n; N nf; N _] :: rest =>
    if Nat.eqb c kOFF then
      match take_vlines 0 n rest with
      | Some rest' => match parse_faces n nf rest' with
                      | Some (fs, []) => Some {| nv := n; faces := fs |}
                      | _ => None end
      | None => None end
    else None
  | _ => None
  end.
(* OFF as io.to_off writes it: the face count is the word "f<count>" (lexed as an unknown keyword) *)
Definition write_off_as_found (m : mesh) (ne : nat) : list line :=
  [[K kOFF]; [N (nv m); K 0; N ne]] ++ vlines (nv m) ++ map face_line (faces m).

(* ---------- PLY ---------- *)
Definition ply_header (n nf : nat) : list line :=
  [[K kPLY]; [K kFORMAT; K kASCII; K kVERSION1];
   [K kELEMENT; K kVERTEX; N n]; [K kPROPERTY; K kFLOAT; K kX]; [K kPROPERTY; K kFLOAT; K kY]; [K kPROPERTY; K kFLOAT; K kZ];
   [K kELEMENT; K kFACE; N nf]; [K kPROPERTY; K kLIST; K kUCHAR; K kUINT; K kVINDICES]; [K kENDHEADER]].
Definition write_ply (m : mesh) : list line :=
  ply_header (nv m) (length (faces m)) ++ vlines (nv m) ++ map face_line (faces m).
Fixpoint lines_eqb (a b : list line) : bool :=
  match a, b with
  | [], [] => true
  | x :: r, y :: s => line_eqb x y && lines_eqb r s
  | _, _ => false
  end.
Definition parse_ply (ls : list line) : option mesh :=
  match ls with
  | l0 :: l1 :: [K e; K v; N n] :: l3 :: l4 :: l5 :: [K e2; K f; N nf] :: l7 :: l8 :: rest =>
    if lines_eqb (l0 :: l1 :: [K e; K v; N n] :: l3 :: l4 :: l5 :: [K e2; K f; N nf] :: l7 :: [l8]) (ply_header n nf) then
      match take_vlines 0 n rest with
      | Some rest' => match parse_faces n nf rest' with
                      | Some (fs, []) => Some {| nv := n; faces := fs |}
                      | _ => None end
      | None => None end
    else None
  | _ => None
  end.

(* ---------- VTK legacy polydata ---------- *)
Definition total_conn (fs : list (list nat)) : nat := fold_right (fun f acc => length f + acc) 0 fs.
Definition write_vtk (m : mesh) : list line :=
  [[K kASCII]; [K kDATASET; K kPOLYDATA]; [K kPOINTS; N (nv m); K kFLOAT]] ++ vlines (nv m)
  ++ [[K kPOLYGONS; N (length (faces m)); N (length (faces m) + total_conn (faces m))]] ++ map face_line (faces m).
Definition parse_vtk (ls : list line) : option mesh :=
  match ls with
  | [K a] :: [K d; K p] :: [K pt; N n; K fl] :: rest =>
    if Nat.eqb a kASCII && Nat.eqb d kDATASET && Nat.eqb p kPOLYDATA && Nat.eqb pt kPOINTS && Nat.eqb fl kFLOAT then
      match take_vlines 0 n rest with
      | Some ([K pg; N nf; N tot] :: rest') =>
        if Nat.eqb pg kPOLYGONS then
          match parse_faces n nf rest' with
          | Some (fs, []) => if Nat.eqb tot (nf + total_conn fs) then Some {| nv := n; faces := fs |} else None
          | _ => None end
        else None
      | _ => None end
    else None
  | _ => None
  end.

(* ---------- OBJ: "v x y z" lines then "f i1 .. ik" lines, 1-based ---------- *)
Definition obj_vline (i : nat) : line := K kV :: vline i.
Definition obj_fline (f : list nat) : line := K kF :: map (fun i => N (S i)) f.
Definition write_obj (m : mesh) : list line := map obj_vline (seq 0 (nv m)) ++ map obj_fline (faces m).
Fixpoint obj_take_v (k : nat) (ls : list line) : nat * list line :=
  match ls with
  | (K c :: l) :: r => if Nat.eqb c kV && line_eqb l (vline k) then obj_take_v (S k) r else (k, ls)
  | _ => (k, ls)
  end.
Definition obj_face (nvert : nat) (l : line) : option (list nat) :=
  match l with
  | K c :: idx =>
    if Nat.eqb c kF then
      match nats_of idx with
      | Some is => if Nat.leb 3 (length is) && forallb (fun i => Nat.leb 1 i && Nat.leb i nvert) is
                   then Some (map Nat.pred is) else None
      | None => None end
    else None
  | _ => None
  end.
Fixpoint obj_faces (nvert : nat) (ls : list line) : option (list (list nat)) :=
  match ls with
  | [] => Some []
  | l :: r => match obj_face nvert l, obj_faces nvert r with
              | Some f, Some fs => Some (f :: fs)
              | _, _ => None end
  end.
Definition parse_obj (ls : list line) : option mesh :=
  let vr := obj_take_v 0 ls in
  match obj_faces (fst vr) (snd vr) with
  | Some fs => Some {| nv := fst vr; faces := fs |}
  | None => None
  end.

(* ---------- X3D IndexedFaceSet: coordIndex = runs of consecutive point indices closed by -1;
   the k-th index token must be k (points are listed per face corner) ---------- *)
Fixpoint x3d_index (start : nat) (fs : list nat) : line :=   (* fs: face sizes *)
  match fs with
  | [] => []
  | k :: r => map N (seq start k) ++ [Minus1] ++ x3d_index (start + k) r
  end.
Fixpoint x3d_parse (fuel next cur : nat) (l : line) : option (list nat) :=   (* returns face sizes *)
  match fuel with
  | O => None
  | S fu =>
    match l with
    | [] => if Nat.eqb cur 0 then Some [] else None
    | Minus1 :: r => if Nat.leb 3 cur then
                       match x3d_parse fu next 0 r with Some s => Some (cur :: s) | None => None end
                     else None
    | N i :: r => if Nat.eqb i next then x3d_parse fu (S next) (S cur) r else None
    | _ => None
    end
  end.

(* ---------- STL (ASCII): "solid NAME", then per triangle
     facet normal nx ny nz / outer loop / vertex x y z (x3) / endloop / endfacet,  then "endsolid NAME".
   Corners are written as coordinates: the lexer maps a coordinate triple that is exactly vertex i to F (3i), F (3i+1), F (3i+2) and every
   other number (the normals) to the keyword kNUM.  The writer emits, face by face, the fan triangles (f0, f_k, f_k+1). ---------- *)
Definition kFACET := 25. Definition kNORMAL := 26. Definition kNUM := 27. Definition kOUTER := 28. Definition kLOOP := 29.
Definition kENDLOOP := 30. Definition kENDFACET := 31. Definition kSOLID := 32. Definition kENDSOLID := 33.

Definition tri3 := (nat * nat * nat)%type.
Fixpoint fan_from (a b : nat) (l : list nat) : list tri3 :=
  match l with [] => [] | c :: r => (a, b, c) :: fan_from a c r end.
Definition fan (f : list nat) : list tri3 := match f with a :: b :: l => fan_from a b l | _ => [] end.

Definition stl_vertex (i : nat) : line := K kVERTEX :: vline i.
Definition stl_facet (t : tri3) : list line :=
  let '(a, b, c) := t in
  [[K kFACET; K kNORMAL; K kNUM; K kNUM; K kNUM]; [K kOUTER; K kLOOP]; stl_vertex a; stl_vertex b; stl_vertex c; [K kENDLOOP]; [K kENDFACET]].
Definition write_stl (m : mesh) : list line :=
  [K kSOLID; K 0] :: flat_map stl_facet (flat_map fan (faces m)) ++ [[K kENDSOLID; K 0]].

Definition parse_stl_vertex (nvert : nat) (l : line) : option nat :=
  match l with
  | [K k; F x; F y; F z] =>
    let i := Nat.div x 3 in
    if Nat.eqb k kVERTEX && line_eqb [F x; F y; F z] (vline i) && Nat.ltb i nvert then Some i else None
  | _ => None
  end.
Fixpoint parse_stl_facets (nvert : nat) (ls : list line) : option (list tri3) :=
  match ls with
  | l1 :: l2 :: v1 :: v2 :: v3 :: l6 :: l7 :: rest =>
    if line_eqb l1 [K kFACET; K kNORMAL; K kNUM; K kNUM; K kNUM] && line_eqb l2 [K kOUTER; K kLOOP]
       && line_eqb l6 [K kENDLOOP] && line_eqb l7 [K kENDFACET] then
      match parse_stl_vertex nvert v1, parse_stl_vertex nvert v2, parse_stl_vertex nvert v3, parse_stl_facets nvert rest with
      | Some a, Some b, Some c, Some ts => Some ((a, b, c) :: ts)
      | _, _, _, _ => None
      end
    else None
  | [[K e; K _]] => if Nat.eqb e kENDSOLID then Some [] else None
  | _ => None
  end.
Definition parse_stl (nvert : nat) (ls : list line) : option (list tri3) :=
  match ls with
  | [K s; K _] :: rest => if Nat.eqb s kSOLID then parse_stl_facets nvert rest else None
  | _ => None
  end.
