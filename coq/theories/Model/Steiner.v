(* R-level model of the rounded-shape formulas and curvature descriptors (C11), mirroring
   the loops of ConvexSpheropolyhedron.volume/.surface_area and ConvexPolyhedron.mean_curvature
   over the list of edges E = [(L_e, phi_e)] (edge length, dihedral angle). *)
From Coq Require Import Reals List.
Require Import Cox.Geo.Sums.
Import ListNotations.
Local Open Scope R_scope.

Definition dihedral (c : R) : R := acos (- c).           (* get_dihedral: arccos(dot(-n1, n2)), c = n1.n2 *)
Definition mean_curvature (E : list (R * R)) : R :=       (* sum L (pi - phi) / (8 pi) *)
  Rsum (map (fun e => fst e * (PI - snd e)) E) / (8 * PI).
Definition tau (M S : R) : R := 4 * PI * M * M / S.
Definition asphericity (M S V : R) : R := M * S / (3 * V).
Definition iq3 (V S : R) : R := PI * 36 * V ^ 2 / S ^ 3.

Definition sphero_volume (V S r : R) (E : list (R * R)) : R :=
  V + 4 / 3 * PI * r ^ 3 + S * r
  + Rsum (map (fun e => PI * r ^ 2 * ((PI - snd e) / (2 * PI)) * fst e) E).
Definition sphero_area (S r : R) (E : list (R * R)) : R :=
  S + 4 * PI * r ^ 2
  + Rsum (map (fun e => 2 * PI * r * ((PI - snd e) / (2 * PI)) * fst e) E).
Definition sphero_mean_curvature (r : R) (E : list (R * R)) : R := mean_curvature E + r.

(* ConvexSpheropolygon: A = signed area of the core, P its perimeter *)
Definition spg_signed_area (A P r : R) : R :=
  let s := P * r + PI * r * r in
  if Rlt_dec A 0 then A - s else A + s.
Definition spg_area (A P r : R) : R := Rabs (spg_signed_area A P r).
Definition spg_perimeter (P r : R) : R := P + 2 * PI * r.
