(* Executable model of the curved-shape measures (C10): every quantity that is a rational
   multiple of pi is returned as that rational coefficient.  [swap] selects the parallel-axis
   convention: true = code as found (I_x += A c_x^2), false = the defining integrals
   (I_x = int y^2 dA gets A c_y^2). *)
From Coq Require Import List ZArith Bool.
Require Import Cox.Num.Ops Cox.Geo.Vec.
Import ListNotations.

Section Curved.
  Context {T : Type} (O : Ops T).
  Definition q (n d : Z) : T := odiv O (ofromZ O n) (ofromZ O d).
  Definition sq (x : T) : T := omul O x x.

  (* ellipse (circle: a = b = r): coefficients of pi *)
  Definition ell_area (a b : T) : T := omul O a b.
  Definition ell_moments (swap : bool) (a b cx cy : T) : T * T * T :=
    let A := ell_area a b in
    let ix0 := omul O (odiv O A (ofromZ O 4)) (sq b) in
    let iy0 := omul O (odiv O A (ofromZ O 4)) (sq a) in
    let sx := if swap then sq cx else sq cy in
    let sy := if swap then sq cy else sq cx in
    (oadd O ix0 (omul O A sx), oadd O iy0 (omul O A sy), omul O (omul O A cx) cy).
  Definition ell_polar (a b cx cy : T) : T :=
    let m := ell_moments false a b cx cy in oadd O (fst (fst m)) (snd (fst m)).
  (* eccentricity^2 = 1 - min^2/max^2 *)
  Definition ell_ecc2 (a b : T) : T :=
    let lo := omin O a b in let hi := omax O a b in osub O (o1 O) (odiv O (sq lo) (sq hi)).

  (* ellipsoid (sphere: a = b = c = r): coefficients of pi *)
  Definition eld_volume (a b c : T) : T := omul O (omul O (omul O (q 4 3) a) b) c.
  Definition sph_area (r : T) : T := omul O (ofromZ O 4) (sq r).
  (* inertia tensor about the origin: diag(V/5 (b^2+c^2), ...) + V (|c|^2 I - c c^T), as [xx,yy,zz,xy,xz,yz] *)
  Definition eld_inertia (a b c cx cy cz : T) : list T :=
    let V := eld_volume a b c in
    let d x y := omul O (odiv O V (ofromZ O 5)) (oadd O (sq x) (sq y)) in
    let cc := oadd O (oadd O (sq cx) (sq cy)) (sq cz) in
    [ oadd O (d b c) (omul O V (osub O cc (sq cx)));
      oadd O (d a c) (omul O V (osub O cc (sq cy)));
      oadd O (d a b) (omul O V (osub O cc (sq cz)));
      oopp O (omul O V (omul O cx cy)); oopp O (omul O V (omul O cx cz)); oopp O (omul O V (omul O cy cz)) ].
End Curved.
