(* Combinatorial / metric structure of polyhedra (C07, C11): directed edges of faces,
   neighbour relation, edge list, Euler characteristic, per-face hull certificate,
   per-edge data for dihedral angles and the integrated mean curvature. *)
From Coq Require Import List ZArith Bool Arith.
Require Import Cox.Num.Ops Cox.Geo.Vec Cox.Model.Mesh.
Import ListNotations.

(* ---------- pure combinatorics on index faces ---------- *)
Definition dedges_face (f : list nat) : list (nat * nat) := cpairs f.
Definition dedges_all (F : list (list nat)) : list (nat * nat) := flat_map dedges_face F.
Definition eqb2 (e g : nat * nat) : bool := Nat.eqb (fst e) (fst g) && Nat.eqb (snd e) (snd g).
Definition mem2 (e : nat * nat) (l : list (nat * nat)) : bool := existsb (eqb2 e) l.
Definition rev2 (e : nat * nat) : nat * nat := (snd e, fst e).

(* faces f and g share an edge (in either direction), as _get_face_intersections tests it *)
Definition share_edge (f g : list nat) : bool :=
  existsb (fun e => mem2 e (dedges_face g) || mem2 (rev2 e) (dedges_face g)) (dedges_face f).
(* ... and share it with opposite directions (consistent orientation) *)
Definition share_edge_opposite (f g : list nat) : bool :=
  existsb (fun e => mem2 (rev2 e) (dedges_face g)) (dedges_face f).

Fixpoint index_from {A} (k : nat) (l : list A) : list (nat * A) :=
  match l with [] => [] | a :: r => (k, a) :: index_from (S k) r end.
Definition neighbors_of (F : list (list nat)) : list (list nat) :=
  let IF := index_from 0 F in
  map (fun fi => map fst (filter (fun gj => negb (Nat.eqb (fst fi) (fst gj)) && share_edge (snd fi) (snd gj)) IF)) IF.

(* the edge list of Polyhedron.edges: directed edges with i < j, (lexicographically sorted by the code) *)
Definition edges_lt (F : list (list nat)) : list (nat * nat) :=
  filter (fun e => Nat.ltb (fst e) (snd e)) (dedges_all F).
(* every directed edge occurs exactly once and its reverse exactly once *)
Definition count2 (e : nat * nat) (l : list (nat * nat)) : nat := length (filter (eqb2 e) l).
Definition manifold_edges (F : list (list nat)) : bool :=
  let E := dedges_all F in
  forallb (fun e => Nat.eqb (count2 e E) 1 && Nat.eqb (count2 (rev2 e) E) 1) E.
Fixpoint nodup_nat (l : list nat) : list nat :=
  match l with [] => [] | a :: r => if existsb (Nat.eqb a) r then nodup_nat r else a :: nodup_nat r end.
Definition num_vertices_used (F : list (list nat)) : nat := length (nodup_nat (concat F)).
(* V - E + F as an integer *)
Definition euler (F : list (list nat)) : Z :=
  (Z.of_nat (num_vertices_used F) - Z.of_nat (length (edges_lt F)) + Z.of_nat (length F))%Z.

Section Metric.
  Context {T : Type} (O : Ops T).
  Notation V3 := (vec3 T).

  Definition fnormal (V : list V3) (f : list nat) : V3 :=
    let v0 := getv O V (nth 0 f 0%nat) in let v1 := getv O V (nth 1 f 0%nat) in
    let v2 := getv O V (nth 2 f 0%nat) in
    vcross O (vsub O v2 v1) (vsub O v0 v1).
  Definition fpoint (V : list V3) (f : list nat) : V3 := getv O V (nth 0 f 0%nat).

  (* per-face certificate numbers:
       planarity  = max_{v in f} |N.(v - v0)|
       support    = max_{v not in f} N.(v - v0)      (must be < 0: all other vertices strictly inside)
       ccw        = min over consecutive triples (a,b,c) of f of N.((b-a) x (c-b))   (must be > 0)
       nn         = N.N                                                               *)
  Definition fold_max (l : list T) (d : T) : T := fold_right (fun x acc => omax O x acc) d l.
  Definition fold_min (l : list T) (d : T) : T := fold_right (fun x acc => omin O x acc) d l.
  Definition triples_of (f : list nat) : list (nat * (nat * nat)) :=
    combine f (combine (roll f) (roll (roll f))).
  Definition face_cert (V : list V3) (nv : nat) (f : list nat) : list T :=
    let N := fnormal V f in let p0 := fpoint V f in
    let side i := vdot O N (vsub O (getv O V i) p0) in
    let inf := filter (fun i => existsb (Nat.eqb i) f) (seq 0 nv) in
    let outf := filter (fun i => negb (existsb (Nat.eqb i) f)) (seq 0 nv) in
    let planarity := fold_max (map (fun i => oabs O (side i)) inf) (o0 O) in
    let support := match outf with
                   | [] => oopp O (o1 O)
                   | i0 :: r => fold_max (map side r) (side i0)
                   end in
    let turn t := let a := getv O V (fst t) in let b := getv O V (fst (snd t)) in let c := getv O V (snd (snd t)) in
                  vdot O N (vcross O (vsub O b a) (vsub O c b)) in
    let ccw := match triples_of f with
               | [] => o0 O
               | t0 :: r => fold_min (map turn r) (turn t0)
               end in
    [planarity; support; ccw; vdot O N N].

  (* per neighbouring face pair (i<j, sharing an edge a-b): [i; j; |a-b|^2; N_i.N_j; N_i.N_i; N_j.N_j] *)
  Definition shared_edge (f g : list nat) : option (nat * nat) :=
    find (fun e => mem2 e (dedges_face g) || mem2 (rev2 e) (dedges_face g)) (dedges_face f).
  Definition edge_data (V : list V3) (F : list (list nat)) : list (list T) :=
    let IF := index_from 0 F in
    flat_map (fun fi =>
      flat_map (fun gj =>
        if Nat.ltb (fst fi) (fst gj) then
          match shared_edge (snd fi) (snd gj) with
          | Some e =>
            let Ni := fnormal V (snd fi) in let Nj := fnormal V (snd gj) in
            [[ofromZ O (Z.of_nat (fst fi)); ofromZ O (Z.of_nat (fst gj));
              vnorm2 O (vsub O (getv O V (fst e)) (getv O V (snd e)));
              vdot O Ni Nj; vdot O Ni Ni; vdot O Nj Nj]]
          | None => []
          end
        else []) IF) IF.
End Metric.
