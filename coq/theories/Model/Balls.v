(* Model for bounding / bounded / circum- / in-balls (C13): exact quantities on which the
   definitions are decided for a candidate ball (centre c, radius r), and the exact
   normal-equation solve behind circumsphere / circumcircle. *)
From Coq Require Import List ZArith Bool.
Require Import Cox.Num.Ops Cox.Geo.Vec Cox.Model.Mesh Cox.Model.Structure.
Import ListNotations.

Section Balls.
  Context {T : Type} (O : Ops T).
  Notation V3 := (vec3 T).

  Definition dist2s (V : list V3) (c : V3) : list T := map (fun v => vnorm2 O (vsub O v c)) V.
  (* per face: (N_f . (c - v_f0), N_f . N_f): signed distance of c to the face plane is the ratio
     of the first to the square root of the second; negative = inside *)
  Definition plane_margins (V : list V3) (F : list (list nat)) (c : V3) : list (T * T) :=
    map (fun f => let N := fnormal O V f in (vdot O N (vsub O c (fpoint O V f)), vdot O N N)) F.

  (* 3x3 determinant / Cramer *)
  Definition det3 (a b c : V3) : T := vdet O a b c.
  Definition col (k : nat) (r0 r1 r2 : V3) : V3 := (vcomp k r0, vcomp k r1, vcomp k r2).
  (* solve M x = y with rows r0 r1 r2 *)
  Definition cramer3 (r0 r1 r2 y : V3) : option V3 :=
    let c0 := col 0 r0 r1 r2 in let c1 := col 1 r0 r1 r2 in let c2 := col 2 r0 r1 r2 in
    let d := det3 c0 c1 c2 in
    if oeqb O d (o0 O) then None
    else Some (odiv O (det3 y c1 c2) d, odiv O (det3 c0 y c2) d, odiv O (det3 c0 c1 y) d).

  (* least-squares system  rows_i . x = rhs_i :  normal equations (A^T A) x = A^T b *)
  Definition ata_row (k : nat) (rows : list V3) : V3 :=
    fold_right (fun r acc => vadd O (vscale O (vcomp k r) r) acc) (vzero O) rows.
  Definition atb (rows : list V3) (rhs : list T) : V3 :=
    fold_right (fun rb acc => vadd O (vscale O (snd rb) (fst rb)) acc) (vzero O) (combine rows rhs).
  Definition lstsq3 (rows : list V3) (rhs : list T) : option (V3 * T) :=
    match cramer3 (ata_row 0 rows) (ata_row 1 rows) (ata_row 2 rows) (atb rows rhs) with
    | None => None
    | Some x =>
      let res := osum O (map (fun rb => osq O (osub O (vdot O (fst rb) x) (snd rb))) (combine rows rhs)) in
      Some (x, res)
    end.

  (* circumsphere system of the code: p_i = v_i - v_0 (i >= 1), p_i . x = |p_i|^2 / 2;
     for polygons one more row  N . x = 0  *)
  Definition circum_system (V : list V3) (extra : option V3) : list V3 * list T :=
    match V with
    | [] => ([], [])
    | v0 :: r =>
      let P := map (fun v => vsub O v v0) r in
      let b := map (fun p => odiv O (vnorm2 O p) (ofromZ O 2)) P in
      match extra with
      | None => (P, b)
      | Some N => (P ++ [N], b ++ [o0 O])
      end
    end.
  Definition circum_solve (V : list V3) (extra : option V3) : option (V3 * T) :=
    let s := circum_system V extra in lstsq3 (fst s) (snd s).
End Balls.
