(* Executable models of point containment (C05, C06): the code's algorithms
   (half-space test, 2-D and 3-D winding numbers with lexicographic sign
   tie-breaking) and independent exact specifications (crossing parity, signed
   tetrahedron covering number, squared distance to a triangulated surface). *)
From Coq Require Import List ZArith Bool.
Require Import Cox.Num.Ops Cox.Geo.Vec Cox.Model.Mesh.
Import ListNotations.

Section Inside.
  Context {T : Type} (O : Ops T).
  Notation V3 := (vec3 T).
  Notation V2 := (vec2 T).

  Definition zsum (l : list Z) : Z := fold_right Z.add 0%Z l.
  Definition sgn (a : T) : Z := osign O a.
  Definition sign_or (a b c : Z) : Z :=
    if negb (Z.eqb a 0) then a else if negb (Z.eqb b 0) then b else c.

  (* ---------- convex: all signed plane distances <= 0 ---------- *)
  (* face plane through its first three vertices, normal cross(v2 - v1, v0 - v1) *)
  Definition face_side (V : list V3) (f : list nat) (p : V3) : T :=
    let v0 := getv O V (nth 0 f 0%nat) in let v1 := getv O V (nth 1 f 0%nat) in
    let v2 := getv O V (nth 2 f 0%nat) in
    vdot O (vcross O (vsub O v2 v1) (vsub O v0 v1)) (vsub O p v0).
  Definition inside_halfspaces (V : list V3) (F : list (list nat)) (p : V3) : bool :=
    forallb (fun f => oleb O (face_side V f p) (o0 O)) F.
  (* largest signed side value (margin): <0 strictly inside all, >0 outside some *)
  Definition max_side (V : list V3) (F : list (list nat)) (p : V3) : T :=
    match F with
    | [] => o0 O
    | f0 :: r => fold_right (fun f acc => omax O (face_side V f p) acc) (face_side V f0 p) r
    end.

  (* ---------- 2-D winding number, as Polygon.is_inside computes it ---------- *)
  Definition vsign2 (p v : V2) : Z :=
    let s := sgn (osub O (px v) (px p)) in
    if Z.eqb s 0 then sgn (osub O (py v) (py p)) else s.
  Definition half_turn (p a b : V2) : Z :=
    if Z.eqb (vsign2 p b - vsign2 p a) 0 then 0%Z
    else sgn (pcross O (psub O a p) (psub O b p)).
  Definition turn_sum (p : V2) (V : list V2) : Z :=
    zsum (map (fun e => half_turn p (fst e) (snd e)) (cpairs V)).
  Definition wn2 (p : V2) (V : list V2) : Z := Z.div (turn_sum p V) 2.
  Definition inside_polygon (p : V2) (V : list V2) : bool := negb (Z.eqb (wn2 p V) 0).

  (* independent specification: crossing parity of the ray towards +x, half-open rule *)
  Definition crosses (p a b : V2) : bool :=
    let ya := py a in let yb := py b in let yp := py p in
    if (oleb O ya yp && oltb O yp yb) || (oleb O yb yp && oltb O yp ya) then
      (* x-coordinate of the edge at height yp is > px  <=>  orientation test scaled by sign(dy) *)
      let d := pcross O (psub O b a) (psub O p a) in
      if oltb O ya yb then oltb O (o0 O) d else oltb O d (o0 O)
    else false.
  Definition crossing_parity (p : V2) (V : list V2) : bool :=
    fold_right xorb false (map (fun e => crosses p (fst e) (snd e)) (cpairs V)).
  (* squared distance from p to the boundary (min over edges), for the "tiny margin" filter *)
  Definition seg_dist2 (p a b : V2) : T :=
    let e := psub O b a in let w := psub O p a in
    let ee := pdot O e e in let t := pdot O w e in
    if oleb O t (o0 O) then pdot O w w
    else if oleb O ee t then pdot O (psub O p b) (psub O p b)
    else osub O (pdot O w w) (odiv O (omul O t t) ee).
  Definition boundary_dist2 (p : V2) (V : list V2) : T :=
    match cpairs V with
    | [] => o0 O
    | e0 :: r => fold_right (fun e acc => omin O (seg_dist2 p (fst e) (snd e)) acc)
                            (seg_dist2 p (fst e0) (snd e0)) r
    end.

  (* ---------- 3-D winding number, as Polyhedron.is_inside computes it ---------- *)
  Definition vsign3 (p v : V3) : Z :=
    let d := vsub O v p in sign_or (sgn (vx d)) (sgn (vy d)) (sgn (vz d)).
  (* compute_cross(di, dj) = (di.y dj.x - di.x dj.y, di.z dj.x - di.x dj.z, di.z dj.y - di.y dj.z) *)
  Definition ccross (di dj : V3) : T * T * T :=
    (osub O (omul O (vy di) (vx dj)) (omul O (vx di) (vy dj)),
     osub O (omul O (vz di) (vx dj)) (omul O (vx di) (vz dj)),
     osub O (omul O (vz di) (vy dj)) (omul O (vy di) (vz dj))).
  Definition esign (t : T * T * T) : Z :=
    sign_or (sgn (fst (fst t))) (sgn (snd (fst t))) (sgn (snd t)).
  Definition tri_chain (p : V3) (t : tri) : Z :=
    let d0 := vsub O (ta t) p in let d1 := vsub O (tb t) p in let d2 := vsub O (tc t) p in
    let s0 := vsign3 p (ta t) in let s1 := vsign3 p (tb t) in let s2 := vsign3 p (tc t) in
    let t0 := ccross d0 d1 in let t1 := ccross d1 d2 in let t2 := ccross d2 d0 in
    let tsign := sgn (osub O (osub O (oopp O (omul O (fst (fst t0)) (vz d2)))
                                      (omul O (fst (fst t1)) (vz d0)))
                             (omul O (fst (fst t2)) (vz d1))) in
    let fb := ((if Z.eqb s0 s1 then 0 else esign t0)
               + (if Z.eqb s1 s2 then 0 else esign t1)
               + (if Z.eqb s2 s0 then 0 else esign t2))%Z in
    if Z.eqb fb 0 then 0%Z else tsign.
  Definition chain_sum (p : V3) (TT : list tri) : Z := zsum (map (tri_chain p) TT).
  Definition wn3 (p : V3) (TT : list tri) : Z := Z.div (chain_sum p TT) 2.
  Definition inside_polyhedron (p : V3) (TT : list tri) : bool := negb (Z.eqb (wn3 p TT) 0).

  (* independent specification: signed covering number by the tetrahedra (o,a,b,c) *)
  Definition det4 (o a b c : V3) : T := vdet O (vsub O a o) (vsub O b o) (vsub O c o).
  Definition same_side (x y : T) : bool :=   (* strictly same sign *)
    (oltb O (o0 O) x && oltb O (o0 O) y) || (oltb O x (o0 O) && oltb O y (o0 O)).
  (* p strictly inside tet(o,a,b,c): the four sub-determinants share the sign of det *)
  Definition in_tet (o p : V3) (t : tri) : bool :=
    let d := det4 o (ta t) (tb t) (tc t) in
    same_side d (det4 p (ta t) (tb t) (tc t)) && same_side d (det4 o p (tb t) (tc t))
    && same_side d (det4 o (ta t) p (tc t)) && same_side d (det4 o (ta t) (tb t) p).
  (* p lies in the CLOSED tetrahedron and on one of its three faces through the apex: the
     strict indicator is then ambiguous between neighbouring tetrahedra and the apex is re-drawn.
     (On the base face only, p is on the surface itself, which the margin excludes; on a face
     PLANE but outside the closed tetrahedron, p is simply outside.) *)
  Definition weak_same (d x : T) : bool :=
    (oltb O (o0 O) d && oleb O (o0 O) x) || (oltb O d (o0 O) && oleb O x (o0 O)).
  Definition on_tet_plane (o p : V3) (t : tri) : bool :=
    let z x := oeqb O x (o0 O) in
    let d := det4 o (ta t) (tb t) (tc t) in
    let s0 := det4 p (ta t) (tb t) (tc t) in let s1 := det4 o p (tb t) (tc t) in
    let s2 := det4 o (ta t) p (tc t) in let s3 := det4 o (ta t) (tb t) p in
    negb (z d) && weak_same d s0 && weak_same d s1 && weak_same d s2 && weak_same d s3
    && (z s1 || z s2 || z s3).
  Definition cover (o p : V3) (TT : list tri) : Z :=
    zsum (map (fun t => if in_tet o p t then sgn (det4 o (ta t) (tb t) (tc t)) else 0%Z) TT).
  Definition cover_degenerate (o p : V3) (TT : list tri) : bool :=
    existsb (on_tet_plane o p) TT.

  (* ---------- exact squared distance from a point to a triangulated surface ---------- *)
  Definition seg3_dist2 (p a b : V3) : T :=
    let e := vsub O b a in let w := vsub O p a in
    let ee := vdot O e e in let t := vdot O w e in
    if oleb O t (o0 O) then vdot O w w
    else if oleb O ee t then vdot O (vsub O p b) (vsub O p b)
    else osub O (vdot O w w) (odiv O (omul O t t) ee).
  Definition tri_dist2 (p : V3) (t : tri) : T :=
    let a := ta t in let b := tb t in let c := tc t in
    let n := vcross O (vsub O b a) (vsub O c a) in
    let nn := vdot O n n in
    let inside_prism :=
      oleb O (o0 O) (vdot O n (vcross O (vsub O b a) (vsub O p a))) &&
      oleb O (o0 O) (vdot O n (vcross O (vsub O c b) (vsub O p b))) &&
      oleb O (o0 O) (vdot O n (vcross O (vsub O a c) (vsub O p c))) in
    if oeqb O nn (o0 O) then omin O (seg3_dist2 p a b) (omin O (seg3_dist2 p b c) (seg3_dist2 p c a))
    else if inside_prism then
      let h := vdot O n (vsub O p a) in odiv O (omul O h h) nn
    else omin O (seg3_dist2 p a b) (omin O (seg3_dist2 p b c) (seg3_dist2 p c a)).
  Definition surface_dist2 (p : V3) (TT : list tri) : T :=
    match TT with
    | [] => o0 O
    | t0 :: r => fold_right (fun t acc => omin O (tri_dist2 p t) acc) (tri_dist2 p t0) r
    end.

  (* ---------- curved shapes ---------- *)
  (* sum(((p - c)/s)^2) <= 1 *)
  Definition inside_ellipsoid (c s p : V3) : bool :=
    let q i := odiv O (osub O (vcomp i p) (vcomp i c)) (vcomp i s) in
    oleb O (oadd O (oadd O (osq O (q 0%nat)) (osq O (q 1%nat))) (osq O (q 2%nat))) (o1 O).
  (* Ellipse.is_inside as found: component-wise (p - c)/[a, b] <= 1  (one-sided bounding box) *)
  Definition inside_ellipse_box (c : V2) (a b : T) (p : V2) : bool :=
    oleb O (odiv O (osub O (px p) (px c)) a) (o1 O) && oleb O (odiv O (osub O (py p) (py c)) b) (o1 O).
  Definition inside_ellipse (c : V2) (a b : T) (p : V2) : bool :=
    oleb O (oadd O (osq O (odiv O (osub O (px p) (px c)) a)) (osq O (odiv O (osub O (py p) (py c)) b))) (o1 O).
End Inside.
