(* C14: the three branch formulas of ConvexPolygon._distance_to_surface_from for one edge (x1,y1)-(x2,y2) of the centred, aligned polygon and
   one angle: vertical edge, horizontal edge, generic edge - as the code writes them (through cos, sin, tan and a square root).
   Real-number model; run float-extracted against the implementation (Extract/ExtractR.v). *)
From Coq Require Import Reals.
Local Open Scope R_scope.

(* the code: slope m = (y1 - y2)/(x1 - x2), intercept y0 = y1 - m x1 *)
Definition branch_horizontal (y0 th : R) : R := sqrt (y0 * y0 / (1 - cos th * cos th)).
Definition branch_vertical (x1 th : R) : R := sqrt (x1 * x1 / (1 - sin th * sin th)).
Definition branch_generic (m y0 th : R) : R :=
  let x := y0 / (tan th - m) in let y := tan th * x in sqrt (x * x + y * y).
Definition edge_distance (x1 y1 x2 y2 th : R) : R :=
  match Req_EM_T (x1 - x2) 0 with
  | left _ => branch_vertical x1 th
  | right _ =>
    let m := (y1 - y2) / (x1 - x2) in
    let y0 := y1 - m * x1 in
    match Req_EM_T m 0 with left _ => branch_horizontal y0 th | right _ => branch_generic m y0 th end
  end.

