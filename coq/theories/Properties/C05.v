(* C05 placeholder: statements are added below as they are proved. *)
Require Import Cox.Num.Ops Cox.Model.Inside.
