(* C05 — 3-D point containment.
   Model: Model/Inside.v (inside_halfspaces, inside_polyhedron = winding number with
   lexicographic tie-breaking, inside_ellipsoid; cover / surface_dist2 = exact specs);
   Model/Sphero.v (ConvexSpheropolyhedron.is_inside: core, extruded faces, edge cylinders, vertex spheres - exact, square-root free;
   run against the implementation and against the exact specification on every run). *)
From Coq Require Import Reals QArith Qreals List ZArith Bool Lra Permutation.
Require Import Cox.Num.Ops Cox.Num.Transfer Cox.Geo.Vec Cox.Model.Mesh Cox.Model.Inside
  Cox.Thm.InsideThm Cox.Thm.InsideTransfer Cox.Thm.MeshTransfer Cox.Thm.Winding3Thm Cox.Thm.WindingThm Cox.Thm.Piercing
  Cox.Model.Sphero Cox.Thm.SpheroThm Cox.Thm.SpheroComplete Cox.Thm.SpheroTransfer.
Import ListNotations.

(* convex: the normalised signed distance the code tests has the sign of the exact side value,
   for every plane with non-zero normal *)
Theorem C05_convex_normalisation :
  forall N v0 p : vec3 R, (0 < vdot Rops N N)%R ->
    let nn := sqrt (vdot Rops N N) in
    let n := vscale Rops (/ nn)%R N in
    (vdot Rops n p + - vdot Rops n v0 <= 0 <-> vdot Rops N (vsub Rops p v0) <= 0)%R.
Proof. exact normalised_plane_test. Qed.
Print Assumptions C05_convex_normalisation.

(* convex: the test is membership in the intersection of the face half-spaces *)
Theorem C05_convex_halfspaces :
  forall (V : list (vec3 R)) F p,
    inside_halfspaces Rops V F p = true <-> (forall f, In f F -> (face_side Rops V f p <= 0)%R).
Proof. exact inside_halfspaces_spec. Qed.
Print Assumptions C05_convex_halfspaces.

(* sphere / ellipsoid: the norm test is the quadratic membership test *)
Theorem C05_ellipsoid_norm_test :
  forall c s p : vec3 R,
    inside_ellipsoid Rops c s p = true <->
    (sqrt (((vx p - vx c) / vx s) * ((vx p - vx c) / vx s)
          + ((vy p - vy c) / vy s) * ((vy p - vy c) / vy s)
          + ((vz p - vz c) / vz s) * ((vz p - vz c) / vz s)) <= 1)%R.
Proof. exact inside_ellipsoid_is_norm_test. Qed.
Print Assumptions C05_ellipsoid_norm_test.

(* general polyhedra (partial): the winding-number answer does not depend on the order in which
   the surface triangles are enumerated.  Equality with exact membership for arbitrary closed
   meshes (a degree-theory statement) is NOT proved; it is decided per point by correspondence
   with the exact covering number [cover]. *)
Theorem C05_polyhedron_triangle_order_partial :
  forall (p : vec3 R) (T1 T2 : list (@tri R)), Permutation T1 T2 ->
    inside_polyhedron Rops p T1 = inside_polyhedron Rops p T2.
Proof. exact inside_polyhedron_triangle_order. Qed.
Print Assumptions C05_polyhedron_triangle_order_partial.

(* symmetries of the 3-D winding rule, every triangle list, every point (tie-breaking included): reversing every triangle's
   orientation negates the chain sum, rotating a triangle's vertices leaves it unchanged; so the answer depends neither on
   the orientation convention (given an even chain sum, which closed surfaces produce off the surface) nor on which vertex
   each triangle starts from *)
Theorem C05_polyhedron_orientation_symmetry_partial :
  forall (p : vec3 R) (TT : list (@tri R)),
    chain_sum Rops p (map tflip TT) = (- chain_sum Rops p TT)%Z
    /\ chain_sum Rops p (map trot TT) = chain_sum Rops p TT
    /\ inside_polyhedron Rops p (map trot TT) = inside_polyhedron Rops p TT
    /\ (Z.even (chain_sum Rops p TT) = true -> inside_polyhedron Rops p (map tflip TT) = inside_polyhedron Rops p TT).
Proof.
  intros p TT. repeat split; [apply chain_sum_flip | apply chain_sum_rot | apply inside_polyhedron_rot | apply inside_polyhedron_flip].
Qed.
Print Assumptions C05_polyhedron_orientation_symmetry_partial.

(* RAY CASTING.  In generic position (the query point shares its x coordinate with no vertex and its xy-projection lies on no
   projected edge) each triangle contributes sgn(det(a-p,b-p,c-p)) exactly when the line through p parallel to the z axis
   pierces it (the projection of p strictly inside the projected triangle - the C06 triangle theorem), else 0; so the chain sum
   of ANY triangle list is the signed number of piercings of the surface by that line (both directions): for a closed
   outward-oriented surface 2 if p is enclosed, 0 if not - the winding number is chain_sum / 2.  (The lexicographic
   tie-breaking of the code extends this to points sharing coordinates with vertices; that part, and "piercing parity =
   enclosed" for arbitrary closed meshes, are decided per point by the exact covering-number oracle.) *)
Theorem C05_polyhedron_chain_sum_is_piercing_count_partial :
  forall (p : vec3 R) (TT : list (@tri R)),
    (forall t, In t TT -> generic_tri3 p t) -> chain_sum Rops p TT = zsum (map (pierce p) TT).
Proof. exact chain_sum_is_piercing_count. Qed.
Print Assumptions C05_polyhedron_chain_sum_is_piercing_count_partial.

(* the hypothesis is satisfiable: a face of the unit tetrahedron seen from an interior point *)
Example C05_generic_position_example :
  generic_tri3 (1/5, 3/10, 1/10)%R ((1, 0, 0), (0, 1, 0), (0, 0, 1))%R.
Proof.
  unfold generic_tri3, off_seg, cr, dt, xy, ta, tb, tc, vsub, vx, vy. cbn [fst snd osub Rops].
  repeat split; try lra; intros [H1 H2]; lra.
Qed.

Theorem C05_polyhedron_transfer :
  forall p TT, inside_polyhedron Qops p TT = inside_polyhedron Rops (Q2R3 p) (map Q2Rt TT).
Proof. exact inside_polyhedron_transfer. Qed.
Print Assumptions C05_polyhedron_transfer.

Theorem C05_convex_transfer :
  forall V F p, inside_halfspaces Qops V F p = inside_halfspaces Rops (map Q2R3 V) F (Q2R3 p).
Proof. exact inside_halfspaces_transfer. Qed.
Print Assumptions C05_convex_transfer.

(* a batch call is the element-wise map of single calls, in order: definitional in the model *)
Theorem C05_batch_is_map :
  forall (V : list (vec3 R)) F (ps : list (vec3 R)),
    map (inside_halfspaces Rops V F) ps = map (fun p => inside_halfspaces Rops V F p) ps.
Proof. reflexivity. Qed.
Print Assumptions C05_batch_is_map.

(* non-vacuity: unit cube, a point inside, one outside, and a lattice point aligned with vertices *)
Definition cubeV : list (vec3 Q) :=
  [(0,0,0); (1,0,0); (1,1,0); (0,1,0); (0,0,1); (1,0,1); (1,1,1); (0,1,1)]%Q.
Definition cubeT : list (nat*nat*nat) :=
  [(0,2,1); (0,3,2); (4,5,6); (4,6,7); (0,1,5); (0,5,4); (1,2,6); (1,6,5);
   (2,3,7); (2,7,6); (3,0,4); (3,4,7)]%nat.
Example C05_cube :
  let TT := resolve Qops cubeV cubeT in
  inside_polyhedron Qops (1#2, 1#2, 1#2)%Q TT = true
  /\ inside_polyhedron Qops (3#2, 1#2, 1#2)%Q TT = false
  /\ inside_polyhedron Qops (1#2, 1#2, 2)%Q TT = false
  /\ cover Qops (7#3, 22#7, 45#11)%Q (1#2, 1#2, 1#2)%Q TT = 1%Z.
Proof. vm_compute. repeat split; reflexivity. Qed.


(* ---------- convex spheropolyhedra (PARTIAL: soundness and the edge test; completeness per instance) ---------- *)
(* the edge part of the face test - cylinder without caps about the edge, spheres about its two end points - accepts a point exactly
   when the point is within r of the closed edge segment (r2 = r^2; every edge with distinct end points, every real point) *)
Theorem C05_spheropolyhedron_edge_test_is_segment_distance :
  forall (r2 : R) (a b p : vec3 R), a <> b ->
    (in_cylinder Rops r2 a b p = true \/ in_cap Rops r2 a p = true \/ in_cap Rops r2 b p = true)
    <-> exists t : R, (0 <= t <= 1)%R /\ (dist2 p (on_seg a b t) <= r2)%R.
Proof. exact spherocylinder_spec. Qed.
Print Assumptions C05_spheropolyhedron_edge_test_is_segment_distance.

(* soundness, any number of faces of any size: whatever the algorithm accepts is in the core or within r of a point of a face (a point
   of the face plane inside every side plane), for well-formed faces (convex planar cycles, counter-clockwise about the normal) *)
Theorem C05_spheropolyhedron_accepts_only_near_points_partial :
  forall (r2 : R) (Fs : list (list (vec3 R))) (x : vec3 R),
    (forall F, In F Fs -> face_wf F) -> sphero_inside Rops r2 Fs x = true ->
    in_core Rops Fs x = true \/ exists F y, In F Fs /\ in_faceP F y /\ (dist2 x y <= r2)%R.
Proof. exact sphero_inside_sound. Qed.
Print Assumptions C05_spheropolyhedron_accepts_only_near_points_partial.
(* the face test is also COMPLETE relative to its face: for a well-formed, strictly convex face (every corner a strict left turn about
   the normal) of any size and every point the algorithm looks at (0 < plane distance <= r), the test - extruded face, edge cylinders,
   vertex spheres - accepts exactly when some point of the face is within r.  (Proof: walk from a near point of the face towards the foot
   of the perpendicular; the first side line met is met within its edge; the crossing point is at least as near; spherocylinder lemma.) *)
Theorem C05_spheropolyhedron_face_test_decides_distance :
  forall (r2 : R) (F : list (vec3 R)) (x : vec3 R),
    face_wf F -> strictly_convex F -> to_check Rops r2 F x = true ->
    (check_face Rops r2 F x = true <-> exists y, in_faceP F y /\ (dist2 x y <= r2)%R).
Proof. exact check_face_iff. Qed.
Print Assumptions C05_spheropolyhedron_face_test_decides_distance.

(* hence, for any number of faces: accepted <-> in the core, or some face with 0 < plane distance <= r has a point within r *)
Theorem C05_spheropolyhedron_algorithm_spec :
  forall (r2 : R) (Fs : list (list (vec3 R))) (x : vec3 R),
    (forall F, In F Fs -> face_wf F /\ strictly_convex F) ->
    (sphero_inside Rops r2 Fs x = true
     <-> in_core Rops Fs x = true
         \/ exists F, In F Fs /\ to_check Rops r2 F x = true /\ exists y, in_faceP F y /\ (dist2 x y <= r2)%R).
Proof. exact sphero_inside_spec. Qed.
Print Assumptions C05_spheropolyhedron_algorithm_spec.
(* THE WHOLE SOLID.  For a face list that passes the exact certificate sphero_certb (every face a planar, strictly convex, counter-clockwise
   cycle; along every edge a neighbouring face through both end points whose normal leans outward) - decided in Q for the implementation's
   own face list on every run - any rounding radius and any point:
     - COMPLETE: if some point of the core (all plane values <= 0) is within r, the algorithm accepts;
     - SOUND: if it accepts, the point is in the core or within r of a point of a face.
   (The segment from the near core point to x leaves the core through a face; that face is looked at - Cauchy-Schwarz - and its test is
   complete.)  Stated for the rational face list / radius^2 / point the executable model is run on, about their real embeddings. *)
Theorem C05_spheropolyhedron_is_inside_spec :
  forall (r2 : Q) (Fs : list (list (vec3 Q))) (x : vec3 Q),
    sphero_certb Qops Fs = true ->
    let FsR := map (map Q2R3) Fs in
    ((exists y : vec3 R, in_core Rops FsR y = true /\ (dist2 (Q2R3 x) y <= Q2R r2)%R) -> sphero_inside Qops r2 Fs x = true)
    /\ (sphero_inside Qops r2 Fs x = true ->
        in_core Rops FsR (Q2R3 x) = true \/ exists F y, In F FsR /\ in_faceP F y /\ (dist2 (Q2R3 x) y <= Q2R r2)%R).
Proof.
  intros r2 Fs x Hc FsR. rewrite sphero_certb_transfer in Hc. rewrite sphero_inside_transfer.
  exact (sphero_is_inside_spec (Q2R r2) FsR (Q2R3 x) Hc).
Qed.
Print Assumptions C05_spheropolyhedron_is_inside_spec.

(* the certificate is satisfiable: the unit cube *)
Example C05_spheropolyhedron_cube_certified :
  sphero_certb Qops
    [[(0,0,0); (0,1,0); (1,1,0); (1,0,0)]; [(0,0,1); (1,0,1); (1,1,1); (0,1,1)]; [(0,0,0); (1,0,0); (1,0,1); (0,0,1)];
     [(0,1,0); (0,1,1); (1,1,1); (1,1,0)]; [(0,0,0); (0,0,1); (0,1,1); (0,1,0)]; [(1,0,0); (1,1,0); (1,1,1); (1,0,1)]]%Q = true.
Proof. vm_compute. reflexivity. Qed.
Example C05_spheropolyhedron_face_example :
  face_wf ex_face /\ strictly_convex ex_face /\ to_check Rops (/ 4)%R ex_face (/ 2, - (3 / 10), 6 / 5)%R = true /\ check_face Rops (/ 4)%R ex_face (/ 2, - (3 / 10), 6 / 5)%R = true.
Proof. split; [exact ex_face_wf | split; [exact ex_face_strictly_convex | exact ex_face_accepts]]. Qed.
